/- Lemmas/LinkSource.lean — object files assembled from source text satisfy `FileWF` (`source_fileWF`: every relocation
   candidate of pass 1 sits at the address of a statement inside a block, hence on a word of the block map; pass 1 keeps
   only candidates whose label is external), so the grouping / order theorems hold for any three (two) source texts that
   parse and assemble: `source_link_grouping`, `source_link_two`. -/
import Lc3V.Lemmas.LinkImage
import Lc3V.Lemmas.LinkTree
import Lc3V.Lemmas.C17Core
set_option linter.unusedSimpArgs false
set_option linter.unusedVariables false
namespace Lc3V.C20
open Lc3V

theorem relInsert_mem (m : List (W × Key)) (a : W) (k : Key) (e : W × Key) (h : e ∈ relInsert m a k) : e ∈ m ∨ e = (a, k) := by
  unfold relInsert at h
  split at h
  · obtain ⟨x, hx, rfl⟩ := List.mem_map.mp h
    split
    · exact Or.inr rfl
    · exact Or.inl hx
  · rcases List.mem_append.mp h with h | h
    · exact Or.inl h
    · simp only [List.mem_singleton] at h; exact Or.inr h

/-- every relocation candidate of pass 1 sits at an address that got a line event (a statement inside a block) -/
theorem rel_addr_event (si : SourceInfo) : ∀ (stmts : List Stmt) (st st' : P1), stmts.foldlM pass1Step st = .ok st' →
    ∀ e ∈ st'.rel, e ∈ st.rel ∨ ∃ ev ∈ evsFold si st stmts, ev.2 = e.1 := by
  intro stmts
  induction stmts with
  | nil => intro st st' h e he; simp only [List.foldlM_nil] at h; cases h; exact Or.inl he
  | cons x xs ih =>
    intro st st' h e he
    rw [List.foldlM_cons] at h
    cases hx : pass1Step st x with
    | error err => rw [hx] at h; cases h
    | ok st1 =>
      rw [hx] at h
      simp only [evsFold, hx]
      rcases ih st1 st' h e he with h1 | ⟨ev, hev, he1⟩
      · rw [pass1Step_rel st st1 x hx] at h1
        cases hre : relEvent st x with
        | none => rw [hre] at h1; exact Or.inl h1
        | some r =>
          rw [hre] at h1
          rcases relInsert_mem _ _ _ _ h1 with h2 | h2
          · exact Or.inl h2
          · refine Or.inr ⟨(si.getLine x.span.1, r.1), ?_, by rw [h2]⟩
            rw [relEvent_lineEvent si st x r hre]; simp
      · exact Or.inr ⟨ev, List.mem_append_right _ hev, he1⟩

theorem nodup_keys_pairwise (l : List (Key × SymData)) (h : (l.map (·.1)).Nodup) : l.Pairwise (fun x y => (x.1 == y.1) = false) := by
  have := List.pairwise_map.mp h
  exact this.imp (fun hne => by simpa using hne)

theorem nodup_addr_pairwise (l : List (W × Key)) (h : (l.map (·.1)).Nodup) : l.Pairwise (fun x y => x.1 ≠ y.1) :=
  List.pairwise_map.mp h

/-- **object files assembled from source text are well-formed for linking**: blocks sorted and disjoint, label names and
    relocation addresses unique, every relocation entry sits on a word of the file and names a label the file declares
    external -/
theorem source_fileWF (src : List Char) (stmts : List Stmt) (dbg : Bool) (obj : ObjFile) (hp : parseAst src = .ok stmts)
    (hsrc : 12 * blen src < 2 ^ 64) (h : assemble stmts (if dbg then some src else none) = .ok obj)
    (t : SymTab) (hs : obj.sym = some t) : FileWF obj.blocks t := by
  obtain ⟨hwf, _⟩ := C17.source_roundtrip src stmts dbg obj hp hsrc h
  obtain ⟨hstr, hsized, _⟩ := parsed_program_lines src stmts hp
  have hsym := hwf.symOk t hs
  have hdisj := (assembled_blocks_disjoint stmts _ obj h).1
  obtain ⟨blks, tail, t', hprog, hbwf, hp1, hexts, _, hall, _⟩ := C01.assembled_image_any stmts _ obj h
  -- the kept table is the pass-1 table
  have ht : t = t' := by
    unfold assemble at h
    rw [hp1] at h
    dsimp only at h
    unfold pass2 at h
    split at h
    · cases h
    · cases h
      simp only at hs
      by_cases hcnd : ((if dbg then some src else none).isSome || t'.labels.any (fun e => e.2.ext)) = true
      · rw [if_pos hcnd] at hs; cases hs; rfl
      · rw [if_neg hcnd] at hs; cases hs
  subst ht
  subst hprog
  have htail : ∀ x ∈ tail, isOrigEnd x.nucleus = false := by
    intro x hx
    have := hexts.2 x hx
    cases hn : x.nucleus with
    | instr i => rfl
    | directive d => rw [hn] at this; cases d <;> first | rfl | cases this
  have hmemstmt : ∀ b ∈ blks, ∀ x ∈ b.body, x ∈ blks.flatMap Blk.stmts ++ tail := by
    intro b hb x hx
    apply List.mem_append_left
    exact List.mem_flatMap.mpr ⟨b, hb, by unfold Blk.stmts; simp [hx]⟩
  have hsz : ∀ b ∈ blks, Sized b.body := fun b hb x hx hn => hsized x (hmemstmt b hb x hx) hn
  have hss : ∀ b ∈ blks, ShortStrings b.body := fun b hb s hs x hx => hstr s (hmemstmt b hb s hs) x hx
  -- unfold pass 1
  unfold pass1 at hp1
  cases hf : (blks.flatMap Blk.stmts ++ tail).foldlM pass1Step (p1Init (if dbg then some src else none)) with
  | error e => rw [hf] at hp1; cases hp1
  | ok stf =>
    rw [hf] at hp1
    dsimp only at hp1
    unfold p1Finish at hp1
    cases hc : stf.cursor with
    | some cur => rw [hc] at hp1; cases hp1
    | none =>
      rw [hc] at hp1
      dsimp only at hp1
      cases hp1
      refine ⟨hwf.sorted, hdisj, nodup_keys_pairwise _ hsym.labelsUnique, nodup_addr_pairwise _ hsym.relUnique, ?_, ?_⟩
      · -- relCell
        intro r hr
        simp only at hr
        have hr' := (List.mem_filter.mp hr).1
        let si : SourceInfo := SourceInfo.ofText []
        rcases rel_addr_event si _ _ stf hf r hr' with h0 | ⟨ev, hev, he⟩
        · simp [p1Init] at h0
        · have hall' := evsFold_blocks si blks tail (p1Init (if dbg then some src else none)) stf hbwf htail rfl hf
          have hin : evNat ev ∈ recsAll si blks := by rw [← hall']; exact List.mem_map_of_mem hev
          unfold recsAll at hin
          obtain ⟨b, hb, hpb⟩ := List.mem_flatMap.mp hin
          obtain ⟨lo, hi⟩ := (recsBody_range si b.body b.a.toNat (hsz b hb)).1 _ hpb
          obtain ⟨ws, hw, hmemb⟩ := hall b hb
          have hlen := bodyWords_length _ b.body b.a ws hw (hss b hb)
          simp only [evNat] at lo hi
          rw [he] at lo hi
          have hne : ws ≠ [] := by
            intro hnil; rw [hnil] at hlen; simp at hlen; omega
          rw [cell_isSome_iff _ hdisj]
          have hidx : r.1.toNat - b.a.toNat < ws.length := by omega
          exact ⟨ws[r.1.toNat - b.a.toNat], (b.a.toNat, ws), hmemb hne, lo, by simp [hidx]⟩
      · -- relExt
        intro r hr
        simp only at hr
        have hpred := (List.mem_filter.mp hr).2
        cases hl : lookupKey stf.labels r.2 with
        | none => rw [hl] at hpred; cases hpred
        | some d =>
          obtain ⟨a, s, e⟩ := d
          rw [hl] at hpred
          cases e
          · cases hpred
          · exact ⟨_, rfl, rfl⟩

/-- **C20 for files assembled from source, three files**: whatever the three source texts (they parse and assemble, and
    each object file carries a symbol table), `(a ∪ b) ∪ c` links exactly when `a ∪ (b ∪ c)` does, and then both results
    have the same memory image, pending relocations, defined labels (with addresses) and external declarations; the
    image is the union of the three images with every relocation entry whose label some file defines replaced by that
    label's address (`Link3Spec`) -/
theorem source_link_grouping (srcA srcB srcC : List Char) (sA sB sC : List Stmt) (dA dB dC : Bool) (a b c : ObjFile)
    (pA : parseAst srcA = .ok sA) (pB : parseAst srcB = .ok sB) (pC : parseAst srcC = .ok sC)
    (zA : 12 * blen srcA < 2 ^ 64) (zB : 12 * blen srcB < 2 ^ 64) (zC : 12 * blen srcC < 2 ^ 64)
    (hA : assemble sA (if dA then some srcA else none) = .ok a) (hB : assemble sB (if dB then some srcB else none) = .ok b)
    (hC : assemble sC (if dC then some srcC else none) = .ok c)
    (ta tb tc : SymTab) (hsa : a.sym = some ta) (hsb : b.sym = some tb) (hsc : c.sym = some tc) :
    ((∃ ab r, ObjFile.link a b = .ok ab ∧ ObjFile.link ab c = .ok r) ↔
     (∃ bc r', ObjFile.link b c = .ok bc ∧ ObjFile.link a bc = .ok r')) ∧
    (∀ ab r, ObjFile.link a b = .ok ab → ObjFile.link ab c = .ok r →
      ∃ tr, r.sym = some tr ∧ FileWF r.blocks tr ∧ Link3Spec a.blocks ta b.blocks tb c.blocks tc r.blocks tr) ∧
    (∀ ab bc r r', ObjFile.link a b = .ok ab → ObjFile.link ab c = .ok r →
      ObjFile.link b c = .ok bc → ObjFile.link a bc = .ok r' →
      ∃ tr tr', r.sym = some tr ∧ r'.sym = some tr' ∧
        (∀ A, cell r.blocks A = cell r'.blocks A) ∧ (∀ A K, (A, K) ∈ tr.rel ↔ (A, K) ∈ tr'.rel) ∧
        (∀ K x, DefAt tr.labels K x ↔ DefAt tr'.labels K x) ∧
        (∀ K, ExtO (lookupKey tr.labels K) ↔ ExtO (lookupKey tr'.labels K))) := by
  have wa := source_fileWF srcA sA dA a pA zA hA ta hsa
  have wb := source_fileWF srcB sB dB b pB zB hB tb hsb
  have wc := source_fileWF srcC sC dC c pC zC hC tc hsc
  exact ⟨link_grouping_ok a b c ta tb tc hsa hsb hsc wa.sorted wb.sorted wc.sorted wb.ukeys wc.ukeys,
    fun ab r h1 h2 => link3_left a b c ab r ta tb tc hsa hsb hsc wa wb wc h1 h2,
    fun ab bc r r' h1 h2 h3 h4 => link_grouping_image a b c ab bc r r' ta tb tc hsa hsb hsc wa wb wc h1 h2 h3 h4⟩

/-- **two files assembled from source**: the result of `link` described from the inputs (`LinkSpec`: union of the images,
    resolved `.fill`s replaced by the defining address, the rest pending, definitions merged), and the same image, pending
    relocations and definitions in the other order -/
theorem source_link_two (srcA srcB : List Char) (sA sB : List Stmt) (dA dB : Bool) (a b : ObjFile)
    (pA : parseAst srcA = .ok sA) (pB : parseAst srcB = .ok sB)
    (zA : 12 * blen srcA < 2 ^ 64) (zB : 12 * blen srcB < 2 ^ 64)
    (hA : assemble sA (if dA then some srcA else none) = .ok a) (hB : assemble sB (if dB then some srcB else none) = .ok b)
    (ta tb : SymTab) (hsa : a.sym = some ta) (hsb : b.sym = some tb) :
    (∀ r, ObjFile.link a b = .ok r → ∃ tr, r.sym = some tr ∧ LinkSpec a.blocks ta b.blocks tb r.blocks tr) ∧
    (∀ r r', ObjFile.link a b = .ok r → ObjFile.link b a = .ok r' →
      ∃ tr tr', r.sym = some tr ∧ r'.sym = some tr' ∧
        (∀ A, cell r.blocks A = cell r'.blocks A) ∧ (∀ A K, (A, K) ∈ tr.rel ↔ (A, K) ∈ tr'.rel) ∧
        (∀ K x, DefAt tr.labels K x ↔ DefAt tr'.labels K x)) := by
  have wa := source_fileWF srcA sA dA a pA zA hA ta hsa
  have wb := source_fileWF srcB sB dB b pB zB hB tb hsb
  exact ⟨fun r h => link_spec a b r ta tb hsa hsb wa wb h, fun r r' h h' => link_order_image a b r r' ta tb hsa hsb wa wb h h'⟩

/-- every leaf is an object file assembled from a source text that parses, and carries its symbol table -/
def LTree.FromSource : LTree → Prop
  | .leaf o t => ∃ (src : List Char) (stmts : List Stmt) (dbg : Bool), parseAst src = .ok stmts ∧ 12 * blen src < 2 ^ 64 ∧
      assemble stmts (if dbg then some src else none) = .ok o ∧ o.sym = some t
  | .node l r => l.FromSource ∧ r.FromSource

theorem LTree.FromSource.wf : ∀ (t : LTree), t.FromSource → t.WF
  | .leaf o t, ⟨src, stmts, dbg, hp, hz, ha, hs⟩ => ⟨hs, source_fileWF src stmts dbg o hp hz ha t hs⟩
  | .node l r, ⟨hl, hr⟩ => ⟨LTree.FromSource.wf l hl, LTree.FromSource.wf r hr⟩

/-- **C20, order and grouping, for any number of assembled files**: two ways of linking the same set of object files
    assembled from source (any order, any bracketing) that both succeed give the same memory image, pending relocations,
    defined labels and external declarations — no hypothesis beyond "parses, assembles, carries a symbol table" -/
theorem source_link_tree_independent (t t' : LTree) (r r' : ObjFile) (hs : t.FromSource) (hs' : t'.FromSource)
    (hset : ∀ f, f ∈ t.leaves ↔ f ∈ t'.leaves) (he : t.eval = .ok r) (he' : t'.eval = .ok r') :
    ∃ tr tr', r.sym = some tr ∧ r'.sym = some tr' ∧
      (∀ A, cell r.blocks A = cell r'.blocks A) ∧ (∀ A K, (A, K) ∈ tr.rel ↔ (A, K) ∈ tr'.rel) ∧
      (∀ K x, DefAt tr.labels K x ↔ DefAt tr'.labels K x) ∧
      (∀ K, ExtO (lookupKey tr.labels K) ↔ ExtO (lookupKey tr'.labels K)) :=
  link_tree_independent t t' r r' (LTree.FromSource.wf t hs) (LTree.FromSource.wf t' hs') hset he he'

/-- no block of `a` shares its start with or overlaps a block of `b` -/
def XDisj (a b : Blocks) : Prop :=
  ∀ x ∈ a, ∀ y ∈ b, x.1 ≠ y.1 ∧ (x.1 < y.1 → BlkBefore x y) ∧ (y.1 < x.1 → BlkBefore y x)

theorem XDisj.symm {a b : Blocks} (h : XDisj a b) : XDisj b a :=
  fun y hy x hx => ⟨fun e => (h x hx y hy).1 e.symm, (h x hx y hy).2.2, (h x hx y hy).2.1⟩

/-- the block part of `link` succeeds exactly when the two (internally disjoint, sorted) maps are disjoint from each other -/
theorem blocks_ok_iff (a b : Blocks) (ha : SortedKeys a) (hb : SortedKeys b) (hpa : a.Pairwise BlkBefore) (hpb : b.Pairwise BlkBefore) :
    (∃ r, linkBlocks a b = .ok r) ↔ XDisj a b := by
  rw [linkBlocks_ok_iff a b ha hb]
  constructor
  · rintro ⟨hc, hp⟩ x hx y hy
    have hm := mem_insAll b a ha hb hc
    have q := (pw_iff_mem _ (sorted_insAll b a ha)).mp hp
    exact ⟨fun e => hc ⟨x, hx, y, hy, e⟩,
      fun hlt => q x ((hm x).mpr (Or.inl hx)) y ((hm y).mpr (Or.inr hy)) hlt,
      fun hlt => q y ((hm y).mpr (Or.inr hy)) x ((hm x).mpr (Or.inl hx)) hlt⟩
  · intro h
    have hc : ¬ CommonKey a b := by
      rintro ⟨x, hx, y, hy, e⟩; exact (h x hx y hy).1 e
    refine ⟨hc, (pw_iff_mem _ (sorted_insAll b a ha)).mpr ?_⟩
    have hm := mem_insAll b a ha hb hc
    intro x hx y hy hlt
    rcases (hm x).mp hx with hx | hx <;> rcases (hm y).mp hy with hy | hy
    · exact (pw_iff_mem a ha).mp hpa x hx y hy hlt
    · exact (h x hx y hy).2.1 hlt
    · exact (h y hy x hx).2.2 hlt
    · exact (pw_iff_mem b hb).mp hpb x hx y hy hlt

theorem xdisj_skel (a b : Blocks) : XDisj a b ↔ XDisj (skel a) (skel b) := by
  unfold XDisj skel
  constructor
  · intro h x hx y hy
    obtain ⟨x0, hx0, rfl⟩ := List.mem_map.mp hx
    obtain ⟨y0, hy0, rfl⟩ := List.mem_map.mp hy
    have := h x0 hx0 y0 hy0
    simpa [BlkBefore] using this
  · intro h x hx y hy
    have := h _ (List.mem_map_of_mem (f := fun e : Nat × List (Option W) => (e.1, List.replicate e.2.length (none : Option W))) hx)
      _ (List.mem_map_of_mem (f := fun e : Nat × List (Option W) => (e.1, List.replicate e.2.length (none : Option W))) hy)
    simpa [BlkBefore] using this

/-- the layout of the result of a link tree is the union of the layouts of its leaves -/
theorem LTree.skel_spec : ∀ (t : LTree) (r : ObjFile), t.WF → t.eval = .ok r →
    ∀ e, e ∈ skel r.blocks ↔ ∃ f ∈ t.leaves, e ∈ skel f.1
  | .leaf o t, r, hw, he => by
    simp only [LTree.eval, Except.ok.injEq] at he
    subst he
    intro e; simp [LTree.leaves]
  | .node l rt, r, hw, he => by
    simp only [LTree.eval] at he
    cases hl : l.eval with
    | error e => rw [hl] at he; cases he
    | ok a =>
      rw [hl] at he
      simp only at he
      cases hr : rt.eval with
      | error e => rw [hr] at he; cases he
      | ok b =>
        rw [hr] at he
        simp only at he
        obtain ⟨ta, hsa, N1⟩ := LTree.spec l a hw.1 hl
        obtain ⟨tb, hsb, N2⟩ := LTree.spec rt b hw.2 hr
        obtain ⟨B, st, hb, _, rfl⟩ := link_inv a b r ta tb hsa hsb he
        have hmem := linkBlocks_members a.blocks b.blocks B N1.wf.sorted N2.wf.sorted hb
        have i1 := LTree.skel_spec l a hw.1 hl
        have i2 := LTree.skel_spec rt b hw.2 hr
        intro e
        simp only [skel_patchFold, LTree.leaves]
        have hB : e ∈ skel B ↔ (e ∈ skel a.blocks ∨ e ∈ skel b.blocks) := by
          unfold skel
          simp only [List.mem_map]
          constructor
          · rintro ⟨x, hx, rfl⟩
            rcases (hmem x).mp hx with h | h
            · exact Or.inl ⟨x, h, rfl⟩
            · exact Or.inr ⟨x, h, rfl⟩
          · rintro (⟨x, hx, rfl⟩ | ⟨x, hx, rfl⟩)
            · exact ⟨x, (hmem x).mpr (Or.inl hx), rfl⟩
            · exact ⟨x, (hmem x).mpr (Or.inr hx), rfl⟩
        rw [hB, i1, i2]
        constructor
        · rintro (⟨f, hf, h⟩ | ⟨f, hf, h⟩)
          · exact ⟨f, List.mem_append_left _ hf, h⟩
          · exact ⟨f, List.mem_append_right _ hf, h⟩
        · rintro ⟨f, hf, h⟩
          rcases List.mem_append.mp hf with h1 | h1
          · exact Or.inl ⟨f, h1, h⟩
          · exact Or.inr ⟨f, h1, h⟩

/-- two files can be linked with each other: their blocks are disjoint and no label is defined at different addresses -/
def CompatFile (f g : FileT) : Prop :=
  XDisj (skel f.1) (skel g.1) ∧ ∀ K x y, DefAt f.2.labels K x → DefAt g.2.labels K y → x = y

theorem CompatFile.symm {f g : FileT} (h : CompatFile f g) : CompatFile g f :=
  ⟨h.1.symm, fun K x y hx hy => (h.2 K y x hy hx).symm⟩

/-- **one link, in terms of the leaves of the two sides** -/
theorem link_ok_leaves {l1 l2 : List FileT} (a b : ObjFile) (ta tb : SymTab) (hsa : a.sym = some ta) (hsb : b.sym = some tb)
    (N1 : NSpec l1 a.blocks ta) (N2 : NSpec l2 b.blocks tb)
    (s1 : ∀ e, e ∈ skel a.blocks ↔ ∃ f ∈ l1, e ∈ skel f.1) (s2 : ∀ e, e ∈ skel b.blocks ↔ ∃ f ∈ l2, e ∈ skel f.1) :
    (∃ r, ObjFile.link a b = .ok r) ↔ ∀ f ∈ l1, ∀ g ∈ l2, CompatFile f g := by
  rw [link_ok_iff a b ta tb hsa hsb N1.wf.sorted N2.wf.sorted N2.wf.ukeys]
  have hblk : (¬ CommonKey a.blocks b.blocks ∧ (insAll a.blocks b.blocks).Pairwise BlkBefore) ↔
      ∀ f ∈ l1, ∀ g ∈ l2, XDisj (skel f.1) (skel g.1) := by
    rw [← linkBlocks_ok_iff a.blocks b.blocks N1.wf.sorted N2.wf.sorted,
      blocks_ok_iff a.blocks b.blocks N1.wf.sorted N2.wf.sorted N1.wf.disj N2.wf.disj, xdisj_skel]
    constructor
    · intro h f hf g hg x hx y hy
      exact h x ((s1 x).mpr ⟨f, hf, hx⟩) y ((s2 y).mpr ⟨g, hg, hy⟩)
    · intro h x hx y hy
      obtain ⟨f, hf, hx'⟩ := (s1 x).mp hx
      obtain ⟨g, hg, hy'⟩ := (s2 y).mp hy
      exact h f hf g hg x hx' y hy'
  have hlab : (∀ e ∈ tb.labels, ∀ ad, lookupKey ta.labels e.1 = some ad → ad.ext = false → e.2.ext = false → ad.addr = e.2.addr) ↔
      ∀ f ∈ l1, ∀ g ∈ l2, ∀ K x y, DefAt f.2.labels K x → DefAt g.2.labels K y → x = y := by
    constructor
    · intro h f hf g hg K x y hx hy
      obtain ⟨ad, ha1, ha2, ha3⟩ := (N1.defs K x).mpr ⟨f, hf, hx⟩
      obtain ⟨bd, hb1, hb2, hb3⟩ := (N2.defs K y).mpr ⟨g, hg, hy⟩
      have hm := lookupKey_some_mem tb.labels K bd hb1
      have := h (K, bd) hm ad ha1 ha2 hb2
      rw [← ha3, ← hb3]; exact this
    · intro h e he ad ha hae hbe
      have hl := lookupKey_of_mem_pw tb.labels N2.wf.ukeys e he
      obtain ⟨f, hf, hx⟩ := (N1.defs e.1 ad.addr).mp ⟨ad, ha, hae, rfl⟩
      obtain ⟨g, hg, hy⟩ := (N2.defs e.1 e.2.addr).mp ⟨e.2, hl, hbe, rfl⟩
      exact h f hf g hg e.1 _ _ hx hy
  rw [← and_assoc, hblk, hlab]
  constructor
  · rintro ⟨h1, h2⟩ f hf g hg; exact ⟨h1 f hf g hg, h2 f hf g hg⟩
  · intro h; exact ⟨fun f hf g hg => (h f hf g hg).1, fun f hf g hg => (h f hf g hg).2⟩

/-- **a link tree succeeds exactly when its leaves are pairwise compatible** -/
theorem LTree.ok_iff : ∀ (t : LTree), t.WF → ((∃ r, t.eval = .ok r) ↔ t.leaves.Pairwise CompatFile)
  | .leaf o t, _ => by simp [LTree.eval, LTree.leaves]
  | .node l rt, hw => by
    have il := LTree.ok_iff l hw.1
    have ir := LTree.ok_iff rt hw.2
    simp only [LTree.leaves, List.pairwise_append]
    constructor
    · rintro ⟨r, he⟩
      simp only [LTree.eval] at he
      cases hl : l.eval with
      | error e => rw [hl] at he; cases he
      | ok a =>
        rw [hl] at he
        simp only at he
        cases hr : rt.eval with
        | error e => rw [hr] at he; cases he
        | ok b =>
          rw [hr] at he
          simp only at he
          obtain ⟨ta, hsa, N1⟩ := LTree.spec l a hw.1 hl
          obtain ⟨tb, hsb, N2⟩ := LTree.spec rt b hw.2 hr
          exact ⟨il.mp ⟨a, hl⟩, ir.mp ⟨b, hr⟩,
            (link_ok_leaves a b ta tb hsa hsb N1 N2 (LTree.skel_spec l a hw.1 hl) (LTree.skel_spec rt b hw.2 hr)).mp ⟨r, he⟩⟩
    · rintro ⟨h1, h2, h3⟩
      obtain ⟨a, hl⟩ := il.mpr h1
      obtain ⟨b, hr⟩ := ir.mpr h2
      obtain ⟨ta, hsa, N1⟩ := LTree.spec l a hw.1 hl
      obtain ⟨tb, hsb, N2⟩ := LTree.spec rt b hw.2 hr
      obtain ⟨r, he⟩ := (link_ok_leaves a b ta tb hsa hsb N1 N2 (LTree.skel_spec l a hw.1 hl) (LTree.skel_spec rt b hw.2 hr)).mpr h3
      exact ⟨r, by simp only [LTree.eval, hl, hr]; exact he⟩

/-- **success does not depend on the order or the grouping of the links either**: two link trees whose leaves are the
    same files (as a multiset) both link or both fail -/
theorem link_tree_ok_independent (t t' : LTree) (hw : t.WF) (hw' : t'.WF) (hp : t.leaves.Perm t'.leaves) :
    (∃ r, t.eval = .ok r) ↔ (∃ r', t'.eval = .ok r') := by
  rw [t.ok_iff hw, t'.ok_iff hw']
  exact hp.pairwise_iff (fun h => h.symm)

/-- the same for files assembled from source -/
theorem source_link_tree_ok_independent (t t' : LTree) (hs : t.FromSource) (hs' : t'.FromSource) (hp : t.leaves.Perm t'.leaves) :
    (∃ r, t.eval = .ok r) ↔ (∃ r', t'.eval = .ok r') :=
  link_tree_ok_independent t t' (LTree.FromSource.wf t hs) (LTree.FromSource.wf t' hs') hp

end Lc3V.C20
