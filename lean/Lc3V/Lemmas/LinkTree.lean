/- Lemmas/LinkTree.lean — linking any number of files (C20).  `NSpec fs r`: the result `r` described from the list of
   input files `fs` (image = union with resolved entries replaced; pending = entries of labels no file defines; merged
   definitions and declarations); `NSpec.single`, `NSpec.combine` (with `link_spec`); `LTree`: a link order and bracketing;
   `LTree.spec`: every successful tree satisfies `NSpec leaves`; `NSpec.determines`: the description mentions only the set
   of files, hence `link_tree_independent`. -/
import Lc3V.Lemmas.LinkImage
set_option linter.unusedSimpArgs false
set_option linter.unusedVariables false
namespace Lc3V.C20
open Lc3V

/-- a file as the linker sees it: block map and symbol table -/
abbrev FileT := Blocks × SymTab

def EntryIn (fs : List FileT) (A : W) (K : Key) : Prop := ∃ f ∈ fs, (A, K) ∈ f.2.rel
def DefIn (fs : List FileT) (K : Key) (x : W) : Prop := ∃ f ∈ fs, DefAt f.2.labels K x
def ExtIn (fs : List FileT) (K : Key) : Prop := ∃ f ∈ fs, ExtO (lookupKey f.2.labels K)

theorem entryIn_append (l1 l2 : List FileT) (A : W) (K : Key) : EntryIn (l1 ++ l2) A K ↔ (EntryIn l1 A K ∨ EntryIn l2 A K) := by
  unfold EntryIn
  constructor
  · rintro ⟨f, hf, h⟩
    rcases List.mem_append.mp hf with h1 | h1
    · exact Or.inl ⟨f, h1, h⟩
    · exact Or.inr ⟨f, h1, h⟩
  · rintro (⟨f, hf, h⟩ | ⟨f, hf, h⟩)
    · exact ⟨f, List.mem_append_left _ hf, h⟩
    · exact ⟨f, List.mem_append_right _ hf, h⟩

theorem defIn_append (l1 l2 : List FileT) (K : Key) (x : W) : DefIn (l1 ++ l2) K x ↔ (DefIn l1 K x ∨ DefIn l2 K x) := by
  unfold DefIn
  constructor
  · rintro ⟨f, hf, h⟩
    rcases List.mem_append.mp hf with h1 | h1
    · exact Or.inl ⟨f, h1, h⟩
    · exact Or.inr ⟨f, h1, h⟩
  · rintro (⟨f, hf, h⟩ | ⟨f, hf, h⟩)
    · exact ⟨f, List.mem_append_left _ hf, h⟩
    · exact ⟨f, List.mem_append_right _ hf, h⟩

theorem extIn_append (l1 l2 : List FileT) (K : Key) : ExtIn (l1 ++ l2) K ↔ (ExtIn l1 K ∨ ExtIn l2 K) := by
  unfold ExtIn
  constructor
  · rintro ⟨f, hf, h⟩
    rcases List.mem_append.mp hf with h1 | h1
    · exact Or.inl ⟨f, h1, h⟩
    · exact Or.inr ⟨f, h1, h⟩
  · rintro (⟨f, hf, h⟩ | ⟨f, hf, h⟩)
    · exact ⟨f, List.mem_append_left _ hf, h⟩
    · exact ⟨f, List.mem_append_right _ hf, h⟩

/-- the result of linking a set of files, in any order and grouping, described from the files -/
structure NSpec (fs : List FileT) (rb : Blocks) (tr : SymTab) : Prop where
  wf : FileWF rb tr
  inputs : ∀ f ∈ fs, FileWF f.1 f.2
  none_iff : ∀ A, cell rb A = none ↔ ∀ f ∈ fs, cell f.1 A = none
  patched : ∀ A K x, EntryIn fs A K → DefIn fs K x → cell rb A = some (some x)
  kept : ∀ A, (∀ K x, EntryIn fs A K → ¬ DefIn fs K x) → ∀ w, cell rb A = some w ↔ ∃ f ∈ fs, CellAt f.1 A w
  pending : ∀ A K, (A, K) ∈ tr.rel ↔ (EntryIn fs A K ∧ ∀ x, ¬ DefIn fs K x)
  defs : ∀ K x, DefAt tr.labels K x ↔ DefIn fs K x
  exts : ∀ K, ExtO (lookupKey tr.labels K) ↔ (ExtIn fs K ∧ ∀ x, ¬ DefIn fs K x)
  uaddr : ∀ A K K', EntryIn fs A K → EntryIn fs A K' → K = K'

/-- a single well-formed file -/
theorem NSpec.single (b : Blocks) (t : SymTab) (w : FileWF b t) : NSpec [(b, t)] b t where
  wf := w
  inputs := fun f hf => by simp only [List.mem_singleton] at hf; subst hf; exact w
  none_iff := fun A => by simp
  patched := fun A K x ⟨f, hf, he⟩ ⟨g, hg, hd⟩ => by
    simp only [List.mem_singleton] at hf hg; subst hf; subst hg
    exact absurd hd (not_def_of_ext (w.relExt _ he) x)
  kept := fun A _ w' => by
    rw [cell_iff b w.disj]; simp
  pending := fun A K => by
    constructor
    · intro h
      refine ⟨⟨(b, t), by simp, h⟩, ?_⟩
      rintro x ⟨g, hg, hd⟩
      simp only [List.mem_singleton] at hg; subst hg
      exact not_def_of_ext (w.relExt _ h) x hd
    · rintro ⟨⟨f, hf, he⟩, _⟩
      simp only [List.mem_singleton] at hf; subst hf; exact he
  defs := fun K x => by unfold DefIn; simp
  exts := fun K => by
    unfold ExtIn DefIn
    constructor
    · intro h
      refine ⟨⟨(b, t), by simp, h⟩, ?_⟩
      rintro x ⟨g, hg, hd⟩
      simp only [List.mem_singleton] at hg; subst hg
      exact not_def_of_ext h x hd
    · rintro ⟨⟨f, hf, he⟩, _⟩
      simp only [List.mem_singleton] at hf; subst hf; exact he
  uaddr := fun A K K' ⟨f, hf, he⟩ ⟨g, hg, he'⟩ => by
    simp only [List.mem_singleton] at hf hg; subst hf; subst hg
    have := unique_addr _ w.urel (A, K) he (A, K') he' rfl
    injection this

theorem NSpec.cell_some {fs : List FileT} {rb : Blocks} {tr : SymTab} (N : NSpec fs rb tr) (A : W) (h : ∃ f ∈ fs, (cell f.1 A).isSome = true) :
    ∃ w, CellAt rb A w := by
  obtain ⟨f, hf, hs⟩ := h
  cases hc : cell rb A with
  | none =>
    have := (N.none_iff A).mp hc f hf
    rw [this] at hs; cases hs
  | some w => exact ⟨w, (cell_iff rb N.wf.disj A w).mp hc⟩

theorem NSpec.entry_cell {fs : List FileT} {rb : Blocks} {tr : SymTab} (N : NSpec fs rb tr) (A : W) (K : Key) (h : EntryIn fs A K) :
    ∃ w, CellAt rb A w := by
  obtain ⟨f, hf, he⟩ := h
  exact N.cell_some A ⟨f, hf, (N.inputs f hf).relCell _ he⟩

/-- helper: an entry of the left group whose label is defined somewhere -/
theorem combine_patched_left {l1 l2 : List FileT} {xb yb rb : Blocks} {tx ty tr : SymTab}
    (N1 : NSpec l1 xb tx) (N2 : NSpec l2 yb ty) (S : LinkSpec xb tx yb ty rb tr)
    (A : W) (K : Key) (x : W) (he : EntryIn l1 A K) (hd : DefIn l1 K x ∨ DefIn l2 K x) : cell rb A = some (some x) := by
  have hdr : DefAt tr.labels K x := by
    rw [S.defs, N1.defs, N2.defs]; exact hd
  by_cases h1 : ∃ x', DefIn l1 K x'
  · obtain ⟨x', hx'⟩ := h1
    have hx : x' = x := defAt_fun tr.labels K x' x ((S.defs K x').mpr (Or.inl ((N1.defs K x').mpr hx'))) hdr
    subst hx
    have c1 := N1.patched A K x' he hx'
    have hat : CellAt xb A (some x') := (cell_iff xb N1.wf.disj A _).mp c1
    refine (S.kept A ?_ (some x')).mpr (Or.inl hat)
    rintro K' y (hm | hm) _
    · obtain ⟨hm', hn⟩ := (N1.pending A K').mp hm
      have : K = K' := N1.uaddr A K K' he hm'
      subst this
      exact hn x' hx'
    · obtain ⟨hm', _⟩ := (N2.pending A K').mp hm
      obtain ⟨w', hw'⟩ := N2.entry_cell A K' hm'
      exact S.disjoint A _ _ hat hw'
  · have hn : ∀ x', ¬ DefIn l1 K x' := fun x' hx' => h1 ⟨x', hx'⟩
    have hz : DefIn l2 K x := by
      rcases hd with h | h
      · exact absurd h (hn x)
      · exact h
    exact S.patched A K x (Or.inl ((N1.pending A K).mpr ⟨he, hn⟩)) (Or.inr ((N2.defs K x).mpr hz))

/-- **linking the results of two groups describes the union of the groups** -/
theorem NSpec.combine {l1 l2 : List FileT} {xb yb rb : Blocks} {tx ty tr : SymTab}
    (N1 : NSpec l1 xb tx) (N2 : NSpec l2 yb ty) (S : LinkSpec xb tx yb ty rb tr) : NSpec (l1 ++ l2) rb tr := by
  have hdefs : ∀ K x, DefAt tr.labels K x ↔ DefIn (l1 ++ l2) K x := by
    intro K x; rw [S.defs, N1.defs, N2.defs, defIn_append]
  refine ⟨S.wf, ?_, ?_, ?_, ?_, ?_, hdefs, ?_, ?_⟩
  · intro f hf
    rcases List.mem_append.mp hf with h | h
    · exact N1.inputs f h
    · exact N2.inputs f h
  · intro A
    rw [S.none_iff, N1.none_iff, N2.none_iff]
    constructor
    · rintro ⟨h1, h2⟩ f hf
      rcases List.mem_append.mp hf with h | h
      · exact h1 f h
      · exact h2 f h
    · intro h
      exact ⟨fun f hf => h f (List.mem_append_left _ hf), fun f hf => h f (List.mem_append_right _ hf)⟩
  · intro A K x he hd
    rw [entryIn_append] at he
    rw [defIn_append] at hd
    rcases he with he | he
    · exact combine_patched_left N1 N2 S A K x he hd
    · exact combine_patched_left N2 N1 S.symm A K x he hd.symm
  · intro A hn w
    have h2 : ∀ K x, ((A, K) ∈ tx.rel ∨ (A, K) ∈ ty.rel) → ¬ (DefAt tx.labels K x ∨ DefAt ty.labels K x) := by
      rintro K x hm hd
      refine hn K x ?_ ?_
      · rw [entryIn_append]
        rcases hm with h | h
        · exact Or.inl ((N1.pending A K).mp h).1
        · exact Or.inr ((N2.pending A K).mp h).1
      · rw [defIn_append]
        rcases hd with h | h
        · exact Or.inl ((N1.defs K x).mp h)
        · exact Or.inr ((N2.defs K x).mp h)
    have k1 : ∀ K x, EntryIn l1 A K → ¬ DefIn l1 K x := fun K x he hd =>
      hn K x ((entryIn_append l1 l2 A K).mpr (Or.inl he)) ((defIn_append l1 l2 K x).mpr (Or.inl hd))
    have k2 : ∀ K x, EntryIn l2 A K → ¬ DefIn l2 K x := fun K x he hd =>
      hn K x ((entryIn_append l1 l2 A K).mpr (Or.inr he)) ((defIn_append l1 l2 K x).mpr (Or.inr hd))
    rw [S.kept A h2 w, ← cell_iff xb N1.wf.disj A w, ← cell_iff yb N2.wf.disj A w, N1.kept A k1 w, N2.kept A k2 w]
    constructor
    · rintro (⟨f, hf, h⟩ | ⟨f, hf, h⟩)
      · exact ⟨f, List.mem_append_left _ hf, h⟩
      · exact ⟨f, List.mem_append_right _ hf, h⟩
    · rintro ⟨f, hf, h⟩
      rcases List.mem_append.mp hf with h1 | h1
      · exact Or.inl ⟨f, h1, h⟩
      · exact Or.inr ⟨f, h1, h⟩
  · intro A K
    rw [S.pending, N1.pending, N2.pending, entryIn_append]
    constructor
    · rintro ⟨(⟨h1, _⟩ | ⟨h1, _⟩), h2⟩
      · exact ⟨Or.inl h1, fun x hd => h2 x (by rw [N1.defs, N2.defs, ← defIn_append]; exact hd)⟩
      · exact ⟨Or.inr h1, fun x hd => h2 x (by rw [N1.defs, N2.defs, ← defIn_append]; exact hd)⟩
    · rintro ⟨h1, h2⟩
      have h2' : ∀ x, ¬ (DefAt tx.labels K x ∨ DefAt ty.labels K x) := by
        intro x hd; rw [N1.defs, N2.defs, ← defIn_append] at hd; exact h2 x hd
      refine ⟨?_, h2'⟩
      rcases h1 with h | h
      · exact Or.inl ⟨h, fun x hd => h2 x ((defIn_append l1 l2 K x).mpr (Or.inl hd))⟩
      · exact Or.inr ⟨h, fun x hd => h2 x ((defIn_append l1 l2 K x).mpr (Or.inr hd))⟩
  · intro K
    rw [S.exts, N1.exts, N2.exts, extIn_append]
    constructor
    · rintro ⟨(⟨h1, _⟩ | ⟨h1, _⟩), h2⟩
      · exact ⟨Or.inl h1, fun x hd => h2 x (by rw [N1.defs, N2.defs, ← defIn_append]; exact hd)⟩
      · exact ⟨Or.inr h1, fun x hd => h2 x (by rw [N1.defs, N2.defs, ← defIn_append]; exact hd)⟩
    · rintro ⟨h1, h2⟩
      have h2' : ∀ x, ¬ (DefAt tx.labels K x ∨ DefAt ty.labels K x) := by
        intro x hd; rw [N1.defs, N2.defs, ← defIn_append] at hd; exact h2 x hd
      refine ⟨?_, h2'⟩
      rcases h1 with h | h
      · exact Or.inl ⟨h, fun x hd => h2 x ((defIn_append l1 l2 K x).mpr (Or.inl hd))⟩
      · exact Or.inr ⟨h, fun x hd => h2 x ((defIn_append l1 l2 K x).mpr (Or.inr hd))⟩
  · intro A K K' h1 h2
    rw [entryIn_append] at h1 h2
    rcases h1 with h1 | h1 <;> rcases h2 with h2 | h2
    · exact N1.uaddr A K K' h1 h2
    · obtain ⟨w, hw⟩ := N1.entry_cell A K h1
      obtain ⟨w', hw'⟩ := N2.entry_cell A K' h2
      exact absurd hw' (fun h => S.disjoint A _ _ hw h)
    · obtain ⟨w, hw⟩ := N1.entry_cell A K' h2
      obtain ⟨w', hw'⟩ := N2.entry_cell A K h1
      exact absurd hw' (fun h => S.disjoint A _ _ hw h)
    · exact N2.uaddr A K K' h1 h2

/-- a way of linking a collection of files: the order of the leaves and the bracketing -/
inductive LTree where
  | leaf (o : ObjFile) (t : SymTab)
  | node (l r : LTree)

/-- the files of a link tree, left to right -/
def LTree.leaves : LTree → List FileT
  | .leaf o t => [(o.blocks, t)]
  | .node l r => l.leaves ++ r.leaves

/-- every leaf carries its symbol table and is well-formed -/
def LTree.WF : LTree → Prop
  | .leaf o t => o.sym = some t ∧ FileWF o.blocks t
  | .node l r => l.WF ∧ r.WF

/-- performing the links of the tree with `ObjectFile::link` -/
def LTree.eval : LTree → ARes ObjFile
  | .leaf o _ => .ok o
  | .node l r =>
    match l.eval with
    | .error e => .error e
    | .ok a =>
      match r.eval with
      | .error e => .error e
      | .ok b => ObjFile.link a b

/-- **any link tree, described from its leaves**: when all the links of the tree succeed, the result is a well-formed
    file whose image is the union of the leaves' images with every relocation entry whose label some leaf defines
    replaced by that address, whose pending relocations are the entries of labels no leaf defines, and whose
    definitions / external declarations are those of the leaves -/
theorem LTree.spec : ∀ (t : LTree) (r : ObjFile), t.WF → t.eval = .ok r →
    ∃ tr, r.sym = some tr ∧ NSpec t.leaves r.blocks tr
  | .leaf o t, r, hw, he => by
    simp only [LTree.eval, Except.ok.injEq] at he
    subst he
    exact ⟨t, hw.1, NSpec.single _ _ hw.2⟩
  | .node l rt, r, hw, he => by
    simp only [LTree.eval] at he
    cases hl : l.eval with
    | error e => rw [hl] at he; cases he
    | ok a =>
      rw [hl] at he
      simp only at he
      cases hr : rt.eval with
      | error e => rw [hr] at he; cases he
      | ok b =>
        rw [hr] at he
        simp only at he
        obtain ⟨ta, hsa, N1⟩ := LTree.spec l a hw.1 hl
        obtain ⟨tb, hsb, N2⟩ := LTree.spec rt b hw.2 hr
        obtain ⟨tr, hsr, S⟩ := link_spec a b r ta tb hsa hsb N1.wf N2.wf he
        exact ⟨tr, hsr, N1.combine N2 S⟩

/-- the description determines the outcome, and it only mentions the *set* of files -/
theorem NSpec.determines {fs fs' : List FileT} {rb rb' : Blocks} {tr tr' : SymTab}
    (N : NSpec fs rb tr) (N' : NSpec fs' rb' tr') (hset : ∀ f, f ∈ fs ↔ f ∈ fs') :
    (∀ A, cell rb A = cell rb' A) ∧ (∀ A K, (A, K) ∈ tr.rel ↔ (A, K) ∈ tr'.rel) ∧
    (∀ K x, DefAt tr.labels K x ↔ DefAt tr'.labels K x) ∧
    (∀ K, ExtO (lookupKey tr.labels K) ↔ ExtO (lookupKey tr'.labels K)) := by
  have e1 : ∀ A K, EntryIn fs A K ↔ EntryIn fs' A K := fun A K =>
    ⟨fun ⟨f, hf, h⟩ => ⟨f, (hset f).mp hf, h⟩, fun ⟨f, hf, h⟩ => ⟨f, (hset f).mpr hf, h⟩⟩
  have e2 : ∀ K x, DefIn fs K x ↔ DefIn fs' K x := fun K x =>
    ⟨fun ⟨f, hf, h⟩ => ⟨f, (hset f).mp hf, h⟩, fun ⟨f, hf, h⟩ => ⟨f, (hset f).mpr hf, h⟩⟩
  have e3 : ∀ K, ExtIn fs K ↔ ExtIn fs' K := fun K =>
    ⟨fun ⟨f, hf, h⟩ => ⟨f, (hset f).mp hf, h⟩, fun ⟨f, hf, h⟩ => ⟨f, (hset f).mpr hf, h⟩⟩
  refine ⟨?_, ?_, ?_, ?_⟩
  · intro A
    by_cases hp : ∃ K x, EntryIn fs A K ∧ DefIn fs K x
    · obtain ⟨K, x, he, hd⟩ := hp
      rw [N.patched A K x he hd, N'.patched A K x ((e1 A K).mp he) ((e2 K x).mp hd)]
    · have hn : ∀ K x, EntryIn fs A K → ¬ DefIn fs K x := fun K x he hd => hp ⟨K, x, he, hd⟩
      have hn' : ∀ K x, EntryIn fs' A K → ¬ DefIn fs' K x := fun K x he hd => hn K x ((e1 A K).mpr he) ((e2 K x).mpr hd)
      apply option_ext
      intro w
      rw [N.kept A hn w, N'.kept A hn' w]
      exact ⟨fun ⟨f, hf, h⟩ => ⟨f, (hset f).mp hf, h⟩, fun ⟨f, hf, h⟩ => ⟨f, (hset f).mpr hf, h⟩⟩
  · intro A K
    rw [N.pending, N'.pending, e1 A K]
    exact ⟨fun ⟨h1, h2⟩ => ⟨h1, fun x hd => h2 x ((e2 K x).mpr hd)⟩, fun ⟨h1, h2⟩ => ⟨h1, fun x hd => h2 x ((e2 K x).mp hd)⟩⟩
  · intro K x
    rw [N.defs, N'.defs, e2 K x]
  · intro K
    rw [N.exts, N'.exts, e3 K]
    exact ⟨fun ⟨h1, h2⟩ => ⟨h1, fun x hd => h2 x ((e2 K x).mpr hd)⟩, fun ⟨h1, h2⟩ => ⟨h1, fun x hd => h2 x ((e2 K x).mp hd)⟩⟩

/-- **the outcome of linking does not depend on the order or the grouping of the links, for any number of files**: two
    link trees over the same set of well-formed files (any order of the leaves, any bracketing), both of which link,
    give the same memory image cell by cell, the same pending relocation entries, the same defined labels with the same
    addresses and the same external declarations -/
theorem link_tree_independent (t t' : LTree) (r r' : ObjFile) (hw : t.WF) (hw' : t'.WF)
    (hset : ∀ f, f ∈ t.leaves ↔ f ∈ t'.leaves) (he : t.eval = .ok r) (he' : t'.eval = .ok r') :
    ∃ tr tr', r.sym = some tr ∧ r'.sym = some tr' ∧
      (∀ A, cell r.blocks A = cell r'.blocks A) ∧ (∀ A K, (A, K) ∈ tr.rel ↔ (A, K) ∈ tr'.rel) ∧
      (∀ K x, DefAt tr.labels K x ↔ DefAt tr'.labels K x) ∧
      (∀ K, ExtO (lookupKey tr.labels K) ↔ ExtO (lookupKey tr'.labels K)) := by
  obtain ⟨tr, hs, N⟩ := t.spec r hw he
  obtain ⟨tr', hs', N'⟩ := t'.spec r' hw' he'
  exact ⟨tr, tr', hs, hs', N.determines N' hset⟩

end Lc3V.C20
