/- Lemmas/ObsInv.lean — the access observer agrees with the (ghost) access log: an invariant of every step and run. -/
import Lc3V.Lemmas.SimM
set_option linter.unusedSimpArgs false
set_option linter.unusedVariables false
namespace Lc3V
open Sim SimM

macro "tr" : tactic => `(tactic| first | exact rfl | trivial)

theorem obsGet_update' (obs : Std.TreeMap Nat Nat) (a b : W) (flag : Nat) :
    obsGet (obsUpdate obs a flag) b = if b = a then obsGet obs a ||| flag else obsGet obs b := by
  unfold obsGet obsUpdate
  rw [Std.TreeMap.getD_insert]
  by_cases h : b = a
  · subst h; simp
  · have hne : ¬ a.toNat = b.toNat := fun e => h (BitVec.eq_of_toNat_eq e).symm
    simp [h, hne]

/-- the observer agrees with the access log: READ is marked at exactly the addresses of the performed reads; below the I/O
    page WRITTEN is marked at exactly the addresses of the performed writes; MODIFIED is only ever marked together with WRITTEN -/
def OInv (s : Sim) : Prop := ∀ a : W,
  ((obsGet s.observer a).testBit 0 = true ↔ ∃ e ∈ s.log, e.addr = a ∧ e.write = false ∧ e.performed = true) ∧
  (a.toNat < IO_START → ((obsGet s.observer a).testBit 1 = true ↔ ∃ e ∈ s.log, e.addr = a ∧ e.write = true ∧ e.performed = true)) ∧
  ((obsGet s.observer a).testBit 2 = true → (obsGet s.observer a).testBit 1 = true)

theorem OInv.congr {s s' : Sim} (h : OInv s) (h1 : s'.observer = s.observer) (h2 : s'.log = s.log) : OInv s' := by
  unfold OInv; rw [h1, h2]; exact h

/-- an access that was rejected, or an I/O write that marks nothing: only a log entry that cannot witness a mark -/
theorem OInv.unmarked {s s' : Sim} (h : OInv s) (e : Access) (h1 : s'.observer = s.observer) (h2 : s'.log = e :: s.log)
    (he : e.performed = false ∨ (e.write = true ∧ IO_START ≤ e.addr.toNat)) : OInv s' := by
  intro a
  obtain ⟨r1, r2, r3⟩ := h a
  rw [h1, h2]
  refine ⟨?_, fun hio => ?_, r3⟩
  · rw [r1]
    constructor
    · rintro ⟨x, hx, hh⟩; exact ⟨x, by simp [hx], hh⟩
    · rintro ⟨x, hx, hh⟩
      rcases List.mem_cons.mp hx with rfl | hx
      · rcases he with he | he
        · rw [he] at hh; cases hh.2.2
        · rw [he.1] at hh; cases hh.2.1
      · exact ⟨x, hx, hh⟩
  · rw [r2 hio]
    constructor
    · rintro ⟨x, hx, hh⟩; exact ⟨x, by simp [hx], hh⟩
    · rintro ⟨x, hx, hh⟩
      rcases List.mem_cons.mp hx with rfl | hx
      · rcases he with he | he
        · rw [he] at hh; cases hh.2.2
        · rw [hh.1] at he; omega
      · exact ⟨x, hx, hh⟩

theorem OInv.read {s s' : Sim} (h : OInv s) (a : W) (p : Bool) (h1 : s'.observer = obsUpdate s.observer a OBS_READ)
    (h2 : s'.log = ⟨a, false, p, true⟩ :: s.log) : OInv s' := by
  intro b
  obtain ⟨r1, r2, r3⟩ := h b
  rw [h1, h2, obsGet_update']
  by_cases hb : b = a
  · subst hb
    simp only [if_true, Nat.testBit_or, OBS_READ]
    refine ⟨?_, fun hio => ?_, ?_⟩
    · simp only [show Nat.testBit 1 0 = true by decide, Bool.or_true, true_iff]
      exact ⟨⟨b, false, p, true⟩, by simp, rfl, rfl, rfl⟩
    · simp only [show Nat.testBit 1 1 = false by decide, Bool.or_false]
      rw [r2 hio]
      constructor
      · rintro ⟨x, hx, hh⟩; exact ⟨x, by simp [hx], hh⟩
      · rintro ⟨x, hx, hh⟩
        rcases List.mem_cons.mp hx with rfl | hx
        · cases hh.2.1
        · exact ⟨x, hx, hh⟩
    · simp only [show Nat.testBit 1 2 = false by decide, show Nat.testBit 1 1 = false by decide, Bool.or_false]
      exact r3
  · simp only [hb, if_false]
    refine ⟨?_, fun hio => ?_, r3⟩
    · rw [r1]
      constructor
      · rintro ⟨x, hx, hh⟩; exact ⟨x, by simp [hx], hh⟩
      · rintro ⟨x, hx, hh⟩
        rcases List.mem_cons.mp hx with rfl | hx
        · exact absurd hh.1.symm hb
        · exact ⟨x, hx, hh⟩
    · rw [r2 hio]
      constructor
      · rintro ⟨x, hx, hh⟩; exact ⟨x, by simp [hx], hh⟩
      · rintro ⟨x, hx, hh⟩
        rcases List.mem_cons.mp hx with rfl | hx
        · exact absurd hh.1.symm hb
        · exact ⟨x, hx, hh⟩

theorem OInv.write {s s' : Sim} (h : OInv s) (a : W) (p : Bool) (m : Nat) (hm : m = 0 ∨ m = OBS_MODIFIED)
    (h1 : s'.observer = obsUpdate s.observer a (OBS_WRITTEN ||| m)) (h2 : s'.log = ⟨a, true, p, true⟩ :: s.log) : OInv s' := by
  intro b
  obtain ⟨r1, r2, r3⟩ := h b
  rw [h1, h2, obsGet_update']
  have hb0 : (OBS_WRITTEN ||| m).testBit 0 = false := by rcases hm with rfl | rfl <;> decide
  have hb1 : (OBS_WRITTEN ||| m).testBit 1 = true := by rcases hm with rfl | rfl <;> decide
  by_cases hb : b = a
  · subst hb
    simp only [if_true, Nat.testBit_or, hb0, hb1, Bool.or_false, Bool.or_true]
    refine ⟨?_, fun hio => ?_, fun _ => trivial⟩
    · rw [r1]
      constructor
      · rintro ⟨x, hx, hh⟩; exact ⟨x, by simp [hx], hh⟩
      · rintro ⟨x, hx, hh⟩
        rcases List.mem_cons.mp hx with rfl | hx
        · cases hh.2.1
        · exact ⟨x, hx, hh⟩
    · simp only [true_iff]
      exact ⟨⟨b, true, p, true⟩, by simp, rfl, rfl, rfl⟩
  · simp only [hb, if_false]
    refine ⟨?_, fun hio => ?_, r3⟩
    · rw [r1]
      constructor
      · rintro ⟨x, hx, hh⟩; exact ⟨x, by simp [hx], hh⟩
      · rintro ⟨x, hx, hh⟩
        rcases List.mem_cons.mp hx with rfl | hx
        · exact absurd hh.1.symm hb
        · exact ⟨x, hx, hh⟩
    · rw [r2 hio]
      constructor
      · rintro ⟨x, hx, hh⟩; exact ⟨x, by simp [hx], hh⟩
      · rintro ⟨x, hx, hh⟩
        rcases List.mem_cons.mp hx with rfl | hx
        · exact absurd hh.1.symm hb
        · exact ⟨x, hx, hh⟩

def OPres {α} (m : SimM α) : Prop := ∀ s, OInv s → OInv (m s).2

theorem OPres.bind {α β} {m : SimM α} {f : α → SimM β} (h : OPres m) (hf : ∀ a, OPres (f a)) : OPres (m >>= f) := by
  intro s hs
  have h1 := h s hs
  simp only [SimM.bind_apply]
  rcases hm : m s with ⟨r, s'⟩
  rw [hm] at h1
  cases r with
  | ok a => exact hf a s' h1
  | error e => exact h1

theorem OPres.pure {α} (a : α) : OPres (Pure.pure a : SimM α) := fun _ h => h
theorem OPres.throwB {α} (b : StepBreak) : OPres (SimM.throwB b : SimM α) := fun _ h => h
theorem OPres.throwErr {α} (e : SimErr) : OPres (SimM.throwErr e : SimM α) := fun _ h => h
theorem OPres.liftE {α} (x : Except SimErr α) : OPres (SimM.liftE x) := by intro s h; cases x <;> exact h
theorem OPres.getS {β} {f : Sim → SimM β} (h : ∀ s, OPres (f s)) : OPres (SimM.getS >>= f) := by
  intro s hs; simp only [SimM.bind_apply, SimM.getS_apply]; exact h s s hs
theorem OPres.modify (f : Sim → Sim) (h : ∀ s, OInv s → OInv (f s)) : OPres (modifyS f) := fun s hs => h s hs
theorem OPres.ite {α} (c : Prop) [Decidable c] {a b : SimM α} (ha : OPres a) (hb : OPres b) : OPres (if c then a else b) := by
  by_cases h : c <;> simp only [h, if_true, if_false] <;> assumption

macro "op_same" : tactic => `(tactic| (refine OPres.modify _ ?_; intro s hs; exact hs.congr rfl rfl))

/-- what a tracked `read_mem` does to the observer and the log -/
theorem Sim.readMem_obs (a : W) (c : Ctx) (s : Sim) (ht : c.track = true) :
    ((readMem a c s).2.observer = s.observer ∧ (readMem a c s).2.log = ⟨a, false, c.privileged, false⟩ :: s.log) ∨
    ((readMem a c s).2.observer = obsUpdate s.observer a OBS_READ ∧ (readMem a c s).2.log = ⟨a, false, c.privileged, true⟩ :: s.log) := by
  obtain ⟨mem, regs, pc, psr, savedSp, frameNo, frames, srDefs, alloca, instrRun, prefetch, pause, observer, mcr, flags, bps, iregs, dev, log⟩ := s
  rcases hr : dev.ioRead a c.ioEffects with ⟨r, dev'⟩
  simp only [readMem, iregLookup, iregRead, hr, ht, if_true]
  generalize Option.map (fun x => x.snd) (List.find? (fun p => p.fst == a) iregs) = look
  cases r <;> cases look <;> by_cases h1 : (!c.privileged && !inUser a) = true <;> by_cases h2 : IO_START ≤ a.toNat <;>
    simp only [h1, h2, if_true, if_false, Bool.false_eq_true] <;>
    first | exact Or.inl ⟨by tr, by tr⟩ | exact Or.inr ⟨by tr, by tr⟩

/-- what a tracked `write_mem` does to the observer and the log -/
theorem Sim.writeMem_obs (a : W) (d : Word) (c : Ctx) (s : Sim) (ht : c.track = true) :
    ((Sim.writeMem a d c s).2.observer = s.observer ∧ (Sim.writeMem a d c s).2.log = ⟨a, true, c.privileged, false⟩ :: s.log) ∨
    (IO_START ≤ a.toNat ∧ (Sim.writeMem a d c s).2.observer = s.observer ∧
      (Sim.writeMem a d c s).2.log = ⟨a, true, c.privileged, true⟩ :: s.log) ∨
    (∃ m, (m = 0 ∨ m = OBS_MODIFIED) ∧ (Sim.writeMem a d c s).2.observer = obsUpdate s.observer a (OBS_WRITTEN ||| m) ∧
      (Sim.writeMem a d c s).2.log = ⟨a, true, c.privileged, true⟩ :: s.log) := by
  obtain ⟨mem, regs, pc, psr, savedSp, frameNo, frames, srDefs, alloca, instrRun, prefetch, pause, observer, mcr, flags, bps, iregs, dev, log⟩ := s
  simp only [Sim.writeMem, ioWritePart, storePart, iregLookup, iregWrite, Word.getIfInit, Word.setIfInit, ht, if_true]
  generalize Option.map (fun x => x.snd) (List.find? (fun p => p.fst == a) iregs) = look
  have key : ∀ (x : Word), (bif x != d then OBS_MODIFIED else 0) = 0 ∨ (bif x != d then OBS_MODIFIED else 0) = OBS_MODIFIED := by
    intro x; cases (x != d) <;> simp
  rcases look with _ | ir
  · cases hst : c.strict <;> cases hi : d.isInit <;> by_cases h1 : (!c.privileged && !inUser a) = true <;>
      by_cases h2 : IO_START ≤ a.toNat <;>
      simp only [h1, h2, hst, hi, if_true, if_false, Bool.false_eq_true, Bool.not_true, Bool.not_false, Bool.or_true, Bool.true_or,
        Bool.or_false, Bool.false_or] <;>
      first
        | exact Or.inl ⟨by tr, by tr⟩
        | exact Or.inr (Or.inl ⟨by first | exact h2 | trivial, by tr, by tr⟩)
        | exact Or.inr (Or.inr ⟨_, key _, by tr, by tr⟩)
        | (generalize hw : dev.ioWrite a d.data = rw
           obtain ⟨r, dev'⟩ := rw
           cases r <;> first | exact Or.inr (Or.inl ⟨by first | exact h2 | trivial, by tr, by tr⟩) | exact Or.inr (Or.inr ⟨_, key _, by tr, by tr⟩))
  · cases ir <;> cases hst : c.strict <;> cases hi : d.isInit <;> by_cases h1 : (!c.privileged && !inUser a) = true <;>
      by_cases h2 : IO_START ≤ a.toNat <;>
      simp only [h1, h2, hst, hi, if_true, if_false, Bool.false_eq_true, Bool.not_true, Bool.not_false, Bool.or_true, Bool.true_or,
        Bool.or_false, Bool.false_or] <;>
      first
        | exact Or.inl ⟨by tr, by tr⟩
        | exact Or.inr (Or.inl ⟨by first | exact h2 | trivial, by tr, by tr⟩)
        | exact Or.inr (Or.inr ⟨_, key _, by tr, by tr⟩)

theorem OPres.readMem (a : W) (c : Ctx) (ht : c.track = true) : OPres (Sim.readMem a c) := by
  intro s hs
  rcases Sim.readMem_obs a c s ht with ⟨h1, h2⟩ | ⟨h1, h2⟩
  · exact hs.unmarked _ h1 h2 (Or.inl rfl)
  · exact hs.read a _ h1 h2

theorem OPres.writeMem (a : W) (d : Word) (c : Ctx) (ht : c.track = true) : OPres (Sim.writeMem a d c) := by
  intro s hs
  rcases Sim.writeMem_obs a d c s ht with ⟨h1, h2⟩ | ⟨hio, h1, h2⟩ | ⟨m, hm, h1, h2⟩
  · exact hs.unmarked _ h1 h2 (Or.inl rfl)
  · exact hs.unmarked _ h1 h2 (Or.inr ⟨rfl, hio⟩)
  · exact hs.write a _ m hm h1 h2

theorem OPres.setPc (w : Word) (chk : Bool) : OPres (Sim.setPc w chk) := by
  intro s hs
  unfold Sim.setPc
  simp only [SimM.bind_apply, SimM.getS_apply]
  cases hg : w.getIfInit s.flags.strict SimErr.strictJmpAddrUninit with
  | error e => simpa using hs
  | ok addr =>
    simp only [SimM.liftE_ok]
    by_cases h1 : (s.flags.strict && chk) = true
    · by_cases h2 : (!(s.memAt addr).isInit) = true
      · simpa [h1, h2] using hs
      · simp only [h1, h2, if_true, if_false, Bool.false_eq_true, SimM.bind_apply, SimM.pure_apply, SimM.modifyS_apply]
        exact hs.congr rfl rfl
    · simp only [h1, if_false, Bool.false_eq_true, SimM.bind_apply, SimM.pure_apply, SimM.modifyS_apply]
      exact hs.congr rfl rfl

theorem OPres.offsetPc (off : W) (chk : Bool) : OPres (Sim.offsetPc off chk) := by
  unfold Sim.offsetPc
  apply OPres.getS; intro s
  exact OPres.setPc _ _

theorem OPres.setRegIfInit (r : Reg) (v : Word) (b : Bool) : OPres (Sim.setRegIfInit r v b) := by
  unfold Sim.setRegIfInit
  apply OPres.getS; intro s
  refine OPres.bind (OPres.liftE _) (fun w => ?_)
  op_same

theorem OPres.callSubroutine (addr : W) : OPres (Sim.callSubroutine addr) := by
  unfold Sim.callSubroutine
  refine OPres.bind ?_ (fun _ => OPres.bind ?_ (fun _ => OPres.setPc _ _))
  · op_same
  · exact OPres.modify _ (fun s hs => hs.congr rfl rfl)

theorem OPres.callInterrupt (vect : W) (ft : FrameType) : OPres (Sim.callInterrupt vect ft) := by
  unfold Sim.callInterrupt
  apply OPres.getS; intro s
  refine OPres.bind (OPres.readMem _ _ rfl) (fun w => OPres.bind (OPres.liftE _) (fun addr => OPres.bind ?_ (fun _ => OPres.setPc _ _)))
  exact OPres.modify _ (fun s hs => hs.congr rfl rfl)

theorem OPres.virtualBreak (brk : StepBreak) : OPres (Sim.virtualBreak brk) := by
  unfold Sim.virtualBreak
  apply OPres.getS; intro s
  refine OPres.ite _ (OPres.bind (OPres.offsetPc _ _) (fun _ => OPres.bind ?_ (fun _ => OPres.throwB brk))) (OPres.throwB brk)
  op_same

theorem OPres.enterCore (vect : W) (priority : Option Nat) (oldPsr oldPc : W) : OPres (Sim.enterCore vect priority oldPsr oldPc) := by
  unfold Sim.enterCore
  refine OPres.bind ?_ (fun _ => ?_)
  · op_same
  apply OPres.getS; intro s
  refine OPres.bind (OPres.liftE _) (fun sp => OPres.bind ?_ (fun _ => OPres.bind (OPres.writeMem _ _ _ rfl) (fun _ =>
    OPres.bind (OPres.writeMem _ _ _ rfl) (fun _ => OPres.bind ?_ (fun _ => ?_)))))
  · op_same
  · op_same
  · cases priority with
    | none => exact OPres.callInterrupt _ _
    | some p =>
      refine OPres.bind ?_ (fun _ => OPres.callInterrupt _ _)
      op_same

theorem OPres.enterSupervisor (vect : W) (priority : Option Nat) : OPres (Sim.enterSupervisor vect priority) := by
  intro s hs
  unfold Sim.enterSupervisor
  refine OPres.enterCore vect priority s.psr s.pc _ ?_
  by_cases hp : (!PSR.privileged s.psr) = true <;> simp only [hp, if_true, if_false, Bool.false_eq_true]
  · exact hs.congr rfl rfl
  · exact hs

theorem OPres.handleInterrupt (vect : W) (priority : Option Nat) : OPres (Sim.handleInterrupt vect priority) := by
  intro s hs
  unfold Sim.handleInterrupt
  by_cases h1 : s.gated priority = true
  · simp only [h1, if_true]; exact hs
  · simp only [h1, if_false, Bool.false_eq_true]
    by_cases h2 : (!s.flags.realTraps) = true
    · simp only [h2, if_true]
      cases realIntVect vect with
      | none => exact OPres.enterSupervisor vect priority s hs
      | some brk => exact OPres.virtualBreak brk s hs
    · simp only [h2, if_false, Bool.false_eq_true]
      exact OPres.enterSupervisor vect priority s hs

theorem OPres.execInstr (i : SimInstr) : OPres (Sim.execInstr i) := by
  cases i with
  | br cc off =>
    simp only [Sim.execInstr]
    apply OPres.getS; intro s
    exact OPres.ite _ (OPres.offsetPc _ _) (OPres.pure _)
  | add dr sr1 sr2 =>
    simp only [Sim.execInstr]
    apply OPres.getS; intro s
    refine OPres.bind (OPres.setRegIfInit _ _ _) (fun _ => ?_)
    op_same
  | and dr sr1 sr2 =>
    simp only [Sim.execInstr]
    apply OPres.getS; intro s
    refine OPres.bind (OPres.setRegIfInit _ _ _) (fun _ => ?_)
    op_same
  | not dr sr =>
    simp only [Sim.execInstr]
    apply OPres.getS; intro s
    refine OPres.bind (OPres.setRegIfInit _ _ _) (fun _ => ?_)
    op_same
  | ld dr off =>
    simp only [Sim.execInstr]
    apply OPres.getS; intro s
    refine OPres.bind (OPres.readMem _ _ rfl) (fun v => OPres.bind (OPres.setRegIfInit _ _ _) (fun _ => ?_))
    op_same
  | ldr dr b off =>
    simp only [Sim.execInstr]
    apply OPres.getS; intro s
    refine OPres.bind (OPres.liftE _) (fun base => OPres.bind (OPres.readMem _ _ rfl) (fun v => OPres.bind (OPres.setRegIfInit _ _ _) (fun _ => ?_)))
    op_same
  | ldi dr off =>
    simp only [Sim.execInstr]
    apply OPres.getS; intro s
    refine OPres.bind (OPres.readMem _ _ rfl) (fun pw => OPres.bind (OPres.liftE _) (fun ea => ?_))
    apply OPres.getS; intro s2
    refine OPres.bind (OPres.readMem _ _ rfl) (fun v => OPres.bind (OPres.setRegIfInit _ _ _) (fun _ => ?_))
    op_same
  | st sr off =>
    simp only [Sim.execInstr]
    apply OPres.getS; intro s
    exact OPres.writeMem _ _ _ rfl
  | str sr b off =>
    simp only [Sim.execInstr]
    apply OPres.getS; intro s
    exact OPres.bind (OPres.liftE _) (fun base => OPres.writeMem _ _ _ rfl)
  | sti sr off =>
    simp only [Sim.execInstr]
    apply OPres.getS; intro s
    refine OPres.bind (OPres.readMem _ _ rfl) (fun pw => OPres.bind (OPres.liftE _) (fun ea => ?_))
    apply OPres.getS; intro s2
    exact OPres.writeMem _ _ _ rfl
  | jsr op =>
    simp only [Sim.execInstr]
    apply OPres.getS; intro s
    exact OPres.bind (OPres.liftE _) (fun addr => OPres.callSubroutine addr)
  | jmp b =>
    simp only [Sim.execInstr]
    apply OPres.getS; intro s
    refine OPres.bind (OPres.setPc _ _) (fun _ => OPres.ite _ ?_ (OPres.pure _))
    exact OPres.modify _ (fun s hs => hs.congr rfl rfl)
  | lea dr off =>
    simp only [Sim.execInstr]
    apply OPres.getS; intro s
    op_same
  | trap v =>
    simp only [Sim.execInstr]
    apply OPres.getS; intro s
    exact OPres.handleInterrupt _ _
  | rti =>
    simp only [Sim.execInstr]
    apply OPres.getS; intro s
    refine OPres.ite _ ?_ (OPres.throwErr _)
    refine OPres.bind (OPres.liftE _) (fun sp => ?_)
    refine OPres.bind (OPres.readMem _ _ rfl) (fun pcw => ?_)
    refine OPres.bind (OPres.liftE _) (fun pc => ?_)
    refine OPres.bind (OPres.readMem _ _ rfl) (fun psrw => ?_)
    refine OPres.bind (OPres.liftE _) (fun psr => ?_)
    refine OPres.bind ?_ (fun _ => ?_)
    · op_same
    refine OPres.bind (OPres.setPc _ _) (fun _ => ?_)
    refine OPres.bind ?_ (fun _ => ?_)
    · op_same
    apply OPres.getS; intro s3
    refine OPres.ite _ (OPres.bind ?_ (fun _ => ?_)) ?_
    · op_same
    · exact OPres.modify _ (fun s hs => hs.congr rfl rfl)
    · exact OPres.modify _ (fun s hs => hs.congr rfl rfl)

theorem OPres.fetchExec : OPres Sim.fetchExec := by
  unfold Sim.fetchExec
  apply OPres.getS; intro s
  refine OPres.bind (OPres.readMem _ _ rfl) (fun w => OPres.bind (OPres.liftE _) (fun word => OPres.bind (OPres.liftE _) (fun instr => ?_)))
  refine OPres.bind (OPres.offsetPc _ _) (fun _ => OPres.bind ?_ (fun _ => OPres.bind (OPres.execInstr instr) (fun _ => ?_)))
  · op_same
  · op_same

theorem OPres.stepInner : OPres Sim.stepInner := by
  intro s hs
  unfold Sim.stepInner
  have h2 : OInv (afterPoll s) := hs.congr rfl rfl
  simp only
  cases (s.dev.pollInterrupt).1 with
  | none => exact OPres.fetchExec _ h2
  | some i =>
    cases i with
    | external tag => exact h2
    | vectored vect prio =>
      simp only
      by_cases hp : prio > PSR.priority (afterPoll s).psr
      · simp only [hp, if_true]; exact OPres.handleInterrupt _ _ _ h2
      · simp only [hp, if_false]; exact OPres.fetchExec _ h2

/-- **the observer agrees with the access log after every step**, in every mode -/
theorem step_obs_inv (s : Sim) (hs : OInv s) : OInv (Sim.step s).2 := by
  have h1 := OPres.stepInner s hs
  unfold Sim.step
  rcases hst : Sim.stepInner s with ⟨r, s'⟩
  rw [hst] at h1
  simp only at h1 ⊢
  by_cases hrt : (!s'.flags.realTraps) = true
  · simp only [hrt, if_true]; exact h1
  · simp only [hrt, if_false, Bool.false_eq_true]
    cases r with
    | ok u => exact h1
    | error b =>
      cases b with
      | halt => exact OPres.handleInterrupt _ _ s' h1
      | err e =>
        cases e with
        | privilegeViolation => exact OPres.handleInterrupt _ _ s' h1
        | illegalOpcode => exact OPres.handleInterrupt _ _ s' h1
        | invalidInstrFormat => exact OPres.handleInterrupt _ _ s' h1
        | accessViolation => exact OPres.handleInterrupt _ _ s' h1
        | _ => exact h1

/-- … and by every run -/
theorem runLoop_obs_inv (tw : Tripwire) : ∀ (fuel iter : Nat) (s : Sim), OInv s →
    match runLoop tw fuel iter s with
    | none => True
    | some (_, s') => OInv s' := by
  intro fuel
  induction fuel with
  | zero => intro iter s hs; simp [runLoop]
  | succ f ih =>
    intro iter s hs
    unfold runLoop
    by_cases hmcr : (!s.mcr) = true
    · simp only [hmcr, if_true]; exact hs
    · simp only [hmcr, if_false, Bool.false_eq_true]
      have ht : OInv (tripwireEval tw iter s).2 := by
        cases tw with
        | always => exact hs
        | limit a b => exact hs
        | over c => exact hs
        | out c => exact hs
        | mcrAt k a b =>
          unfold tripwireEval
          by_cases hk : iter = k <;> simp only [hk, if_true, if_false]
          · exact hs.congr rfl rfl
          · exact hs
      rcases hte : tripwireEval tw iter s with ⟨go, s1⟩
      rw [hte] at ht
      simp only at ht ⊢
      by_cases hgo : (!go) = true
      · simp only [hgo, if_true]; exact ht
      · simp only [hgo, if_false, Bool.false_eq_true]
        have h1 := step_obs_inv s1 ht
        rcases hst : Sim.step s1 with ⟨r, s2⟩
        rw [hst] at h1
        simp only at h1 ⊢
        cases r with
        | error b => cases b <;> exact h1
        | ok u =>
          simp only
          by_cases hbp : s2.breakpoints.any (bpCheck s2) = true
          · simp only [hbp, if_true]; exact h1
          · simp only [hbp, if_false, Bool.false_eq_true]
            exact ih (iter + 1) s2 h1

end Lc3V
