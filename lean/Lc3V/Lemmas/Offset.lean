/- Lemmas/Offset.lean — arithmetic characterisation of the shift-based truncation. -/
import Lc3V.Model.Offset
namespace Lc3V

/-- Split `1 ≤ n ≤ 16` into the sixteen numerals. -/
macro "cases16 " n:ident : tactic => `(tactic|
  rcases (by omega : $n = 1 ∨ $n = 2 ∨ $n = 3 ∨ $n = 4 ∨ $n = 5 ∨ $n = 6 ∨ $n = 7 ∨ $n = 8 ∨ $n = 9 ∨ $n = 10 ∨ $n = 11 ∨ $n = 12 ∨ $n = 13 ∨ $n = 14 ∨ $n = 15 ∨ $n = 16) with h|h|h|h|h|h|h|h|h|h|h|h|h|h|h|h <;> subst h)

theorem truncU_toNat (n : Nat) (h1 : 1 ≤ n) (h2 : n ≤ 16) (v : W) :
    (truncU n v).toNat = v.toNat % 2 ^ n := by
  have hv := v.isLt
  unfold truncU
  simp only [BitVec.toNat_ushiftRight, BitVec.toNat_shiftLeft, Nat.shiftLeft_eq, Nat.shiftRight_eq_div_pow]
  cases16 n <;> simp <;> omega

theorem truncS_toInt (n : Nat) (h1 : 1 ≤ n) (h2 : n ≤ 16) (v : W) :
    (truncS n v).toInt = (v.toNat : Int).bmod (2 ^ n) := by
  have hv := v.isLt
  unfold truncS
  rw [BitVec.toInt_sshiftRight, BitVec.toInt_shiftLeft]
  cases16 n <;> simp [Int.shiftRight_eq_div_pow, Int.bmod, Int.shiftLeft_eq] <;> omega

end Lc3V
