/- Lemmas/OsExc.lean — HALT at the fetch-execute level under real traps (`halt_step`), the contract of the OS's
   message handlers `LEA R0,msg ; PUTS ; HALT` (`msg_handler`: exception handlers and the bad-trap handler), the
   trap-like entry through an arbitrary vector under real traps (`entry_os_real`) and their composition
   (`exception_prints`), used by C12. -/
import Lc3V.Lemmas.OsPutsp
namespace Lc3V.Rt
open Lc3V Sim SimM SimInstr C11 C10

/-- **HALT contract (real traps)**, the name used by C12 -/
theorem halt_step {Q : DevHandler → Prop} (QS : QuietSet Q) (s : Sim) (q_s : Q s.dev) (hos : OsLoaded s) (hs : s.flags.strict = false)
    (hrt : s.flags.realTraps = true) (hat : AtTrap s 0x25)
    (h1 : 767 ≤ (entrySp s - 1).toNat ∧ (entrySp s - 1).toNat < IO_START)
    (h2 : 767 ≤ (entrySp s - 2).toNat ∧ (entrySp s - 2).toNat < IO_START)
    (hm : s.iregLookup 0xFFFE = some .mcr) :
    ∃ f, feN 3 s = (.ok (), f) ∧ f.mcr = false ∧
      (∀ r, r ≠ 7 → r ≠ R6 → f.reg r = s.reg r) ∧ f.dev = s.dev ∧
      (∀ a : W, a.toNat < IO_START → a ≠ entrySp s - 1 → a ≠ entrySp s - 2 → f.memAt a = s.memAt a) :=
  halt_trap QS s q_s hos hs hrt hat h1 h2 hm

theorem chkMsg_spec {a : Nat} {msg : String} {last : SimInstr} (h : chkMsg a msg last = true) :
    ∃ op, dec a = some (.lea 0 op) ∧ dec (a + 1) = some (.trap 0x22) ∧ dec (a + 2) = some last ∧
      strAt (rel9 a op) 64 = C11.str msg := by
  unfold chkMsg at h
  split at h
  · rename_i op l h0 h1 h2
    simp only [Bool.and_eq_true, beq_iff_eq] at h
    exact ⟨op, h0, h1, by rw [h2, h.1], h.2⟩
  · cases h

/-- the message of the handler at `a` ends in a zero word inside the image -/
def chkMsgTerm (a n : Nat) : Bool :=
  match dec a with
  | some (.lea 0 op) => osWord (rel9 a op + n) == some 0
  | _ => false

/-- **exception / bad-trap handler contract.** From the entry of a handler whose checked listing is
    `LEA R0,msg ; PUTS ; HALT`, with real traps enabled: the display receives exactly the words of `msg` and the MCR
    bit is cleared -/
theorem msg_handler {Q : DevHandler → Prop} (QS : QuietSet Q) (x : Sim) (q_x : Q x.dev) (a : Nat) (msg : String) (d' : DevHandler) (hx : InOs x)
    (hrt : x.flags.realTraps = true) (hpc : x.pc = BitVec.ofNat 16 a)
    (hchk : chkMsg a msg (.trap 0x25) = true) (hterm : chkMsgTerm a (C11.str msg).length = true)
    (hlen : (C11.str msg).length < 64)
    (h1 : 767 ≤ ((x.reg R6).data - 1).toNat ∧ ((x.reg R6).data - 1).toNat < IO_START)
    (h2 : 767 ≤ ((x.reg R6).data - 2).toNat ∧ ((x.reg R6).data - 2).toNat < IO_START)
    (hc : CellsOk ((x.reg R6).data - 2))
    (l4 : x.iregLookup 0xFE04 = none) (l6 : x.iregLookup 0xFE06 = none) (lm : x.iregLookup 0xFFFE = some .mcr)
    (hem : Emits x.dev ((C11.str msg).map (BitVec.ofNat 16)) d') :
    ∃ k f, feN k x = (.ok (), f) ∧ f.mcr = false ∧ f.dev = d' ∧ (∀ r, r ≠ 0 → r ≠ 7 → r ≠ R6 → f.reg r = x.reg r) := by
  obtain ⟨op, i0, i1, i2, hsa⟩ := chkMsg_spec hchk
  have hterm' : osWord (rel9 a op + (C11.str msg).length) = some 0 := by
    unfold chkMsgTerm at hterm; rw [i0] at hterm; simpa using hterm
  -- LEA R0, msg
  obtain ⟨hd0, l0⟩ := hx.os.decode i0 hpc
  obtain ⟨t1, f1, pc1, r01, ro1, psr1, dev1, ctl1, mem1, q_t1⟩ := step_lea QS x q_x 0 op hx.nonstrict hx.sup
    (by unfold IO_START; omega) hd0
  have sup1 : PSR.privileged t1.psr = true := by rw [psr1]; exact hx.sup
  have in1 : InOs t1 := hx.step (fun a _ => by rw [Sim.memAt, mem1]) ctl1 sup1
  have hpc1 : t1.pc = BitVec.ofNat 16 (a + 1) := by rw [pc1, hpc, ofNat_succ]
  have esp1 : entrySp t1 = (x.reg R6).data := by rw [entrySp_sup sup1, ro1 R6 (by decide)]
  have hP : (t1.reg 0).data = BitVec.ofNat 16 (rel9 a op) := by
    rw [r01, hpc, ofNat_succ, ofNat_rel9]; rfl
  have lk1 : ∀ p, t1.iregLookup p = x.iregLookup p := fun p => lookup_of_ctl ctl1 p
  obtain ⟨k1', k2', k3', k4', k5'⟩ := hc
  have low : ∀ n : Nat, n < 767 → (BitVec.ofNat 16 n).toNat < 767 := by
    intro n hn; rw [BitVec.toNat_ofNat]; omega
  -- TRAP x22 (PUTS the message)
  obtain ⟨hd1, l1⟩ := in1.os.decode i1 hpc1
  obtain ⟨kp, g1, fg1, ret1, gdev1, q_g1⟩ := puts_trap QS t1 q_t1 ((C11.str msg).map (BitVec.ofNat 16)) d' in1.os in1.nonstrict
    ⟨Or.inl (priv_ctx sup1), by unfold IO_START; omega, hd1⟩
    (by rw [esp1]; exact h1) (by rw [esp1]; exact h2) (by rw [esp1]; exact ⟨k1', k2', k3', k4', k5'⟩)
    (by rw [lk1]; exact l4) (by rw [lk1]; exact l6)
    (by
      rw [hP]
      refine str_of_strAt t1 in1.os _ ?_ 64 _ _ hsa hlen hterm'
      intro n hn
      have := low n hn
      rw [esp1]
      refine ⟨by unfold IO_START; omega, fun e => by rw [e] at this; omega, fun e => by rw [e] at this; omega, ?_⟩
      intro hcell
      rcases hcell with e | e | e | e | e <;> (rw [e] at this; omega))
    (by rw [dev1]; exact hem)
  have cellsLow : ∀ p : W, p.toNat < 767 → p ≠ (x.reg R6).data - 1 ∧ p ≠ (x.reg R6).data - 2 ∧
      ¬ Cells5 ((x.reg R6).data - 2) p := by
    intro p hp
    refine ⟨fun e => by rw [e] at hp; omega, fun e => by rw [e] at hp; omega, ?_⟩
    intro hcell
    rcases hcell with e | e | e | e | e <;> (rw [e] at hp; omega)
  have ing1 : InOs g1 := by
    refine ret1.inOs in1 ?_
    intro p hp; rw [esp1]; exact cellsLow p hp
  have ctlg1 : Rt.ctl g1 = Rt.ctl t1 := ret1.ctl sup1
  have espg1 : entrySp g1 = (x.reg R6).data := by rw [entrySp_sup ing1.sup, ret1.sp, ro1 R6 (by decide)]
  have hpcg1 : g1.pc = BitVec.ofNat 16 (a + 2) := by rw [ret1.pc, hpc1, ofNat_succ]
  -- TRAP x25 (HALT)
  obtain ⟨hd2, l2⟩ := ing1.os.decode i2 hpcg1
  obtain ⟨f, ff, fm, fr, fdev, _⟩ := halt_step QS g1 q_g1 ing1.os ing1.nonstrict
    (by rw [ret1.flags]; have := congrArg (·.1) ctl1; simp only [Rt.ctl] at this; rw [this]; exact hrt)
    ⟨Or.inl (priv_ctx ing1.sup), by unfold IO_START; omega, hd2⟩
    (by rw [espg1]; exact h1) (by rw [espg1]; exact h2)
    (by rw [lookup_of_ctl ctlg1, lk1]; exact lm)
  refine ⟨1 + (kp + 3), f, ?_, fm, by rw [fdev, gdev1], ?_⟩
  · rw [feN_add 1 _ (by rw [feN_succ 0 f1]; rfl), feN_add kp 3 fg1]; exact ff
  · intro r n0 n7 n6
    rw [fr r n7 n6, ret1.regs r n6 (fun h => by cases h), ro1 r n0]


/-- a trap-like entry (`priority = none`) through vector `vect` with real traps enabled, OS loaded and the supervisor
    stack in plain memory above the OS image: the machine is at the handler the vector table names -/
theorem entry_os_real (s : Sim) (vect : Nat) (w : W) (hos : OsLoaded s) (hs : s.flags.strict = false)
    (hrt : s.flags.realTraps = true)
    (h1 : 767 ≤ (entrySp s - 1).toNat ∧ (entrySp s - 1).toNat < IO_START)
    (h2 : 767 ≤ (entrySp s - 2).toNat ∧ (entrySp s - 2).toNat < IO_START)
    (hw : osWord vect = some w) :
    ∃ x, handleInterrupt (BitVec.ofNat 16 vect) none s = (.ok (), x) ∧ InOs x ∧ x.pc = w ∧
      (x.reg R6).data = entrySp s - 2 ∧ (∀ r, r ≠ R6 → x.reg r = s.reg r) ∧ x.dev = s.dev ∧ x.flags = s.flags ∧
      x.iregs = s.iregs ∧ x.mcr = s.mcr ∧
      (∀ a, a ≠ entrySp s - 1 → a ≠ entrySp s - 2 → x.memAt a = s.memAt a) := by
  have hl := osWord_lt hw
  have hv : (BitVec.ofNat 16 vect).toNat < IO_START := by rw [BitVec.toNat_ofNat]; unfold IO_START; omega
  obtain ⟨x, he, m2, m1, mo, r6, ro, hpv, _, _, hprio, hpc, hss, hfn, hd, hf, _⟩ :=
    C10.entry s (BitVec.ofNat 16 vect) none hs h1.2 h2.2 hv
  obtain ⟨hir, hmcr⟩ := enterSupervisor_iregs s (BitVec.ofNat 16 vect) none hs h1.2 h2.2 hv
  rw [he] at hir hmcr
  have hx : handleInterrupt (BitVec.ofNat 16 vect) none s = (.ok (), x) := by
    rw [C08.handle_structure]
    simp only [gated, Bool.false_eq_true, if_false, hrt, Bool.not_true, he]
  have hosx : OsLoaded x := by
    intro a w' ha
    have := osWord_lt ha
    rw [mo _ (by intro e; rw [← e, BitVec.toNat_ofNat] at h1; omega)
      (by intro e; rw [← e, BitVec.toNat_ofNat] at h2; omega)]
    exact hos a w' ha
  refine ⟨x, hx, ⟨hosx, by rw [hf]; exact hs, hpv⟩, ?_, r6, ro, hd, hf, hir, hmcr, mo⟩
  rw [hpc, hosx _ _ hw]; rfl

/-- **an exception under real traps prints its message and halts.** From the state `s` in which the inner step failed
    with an exception whose OS vector is `vect` (so that `step` re-enters `handle_interrupt` there), with the handler
    listing `LEA R0,msg ; PUTS ; HALT` checked on the image: the display receives exactly `msg`, the MCR bit is cleared -/
theorem exception_prints {Q : DevHandler → Prop} (QS : QuietSet Q) (s : Sim) (q_s : Q s.dev) (vect : Nat) (msg : String) (d' : DevHandler) (hos : OsLoaded s)
    (hs : s.flags.strict = false) (hrt : s.flags.realTraps = true)
    (hvd : (osWord vect).isSome = true)
    (hchk : chkMsg (vec vect) msg (.trap 0x25) = true) (hterm : chkMsgTerm (vec vect) (C11.str msg).length = true)
    (hlen : (C11.str msg).length < 64)
    (h1 : 767 ≤ (entrySp s - 1).toNat ∧ (entrySp s - 1).toNat < IO_START)
    (h2 : 767 ≤ (entrySp s - 2).toNat ∧ (entrySp s - 2).toNat < IO_START)
    (h3 : 767 ≤ (entrySp s - 3).toNat ∧ (entrySp s - 3).toNat < IO_START)
    (h4 : 767 ≤ (entrySp s - 4).toNat ∧ (entrySp s - 4).toNat < IO_START)
    (hc : CellsOk (entrySp s - 4))
    (l4 : s.iregLookup 0xFE04 = none) (l6 : s.iregLookup 0xFE06 = none) (lm : s.iregLookup 0xFFFE = some .mcr)
    (hem : Emits s.dev ((C11.str msg).map (BitVec.ofNat 16)) d') :
    ∃ k f, (handleInterrupt (BitVec.ofNat 16 vect) none >>= fun _ => feN k) s = (.ok (), f) ∧ f.mcr = false ∧
      f.dev = d' ∧ (∀ r, r ≠ 0 → r ≠ 7 → r ≠ R6 → f.reg r = s.reg r) := by
  obtain ⟨w, hw⟩ := Option.isSome_iff_exists.mp hvd
  obtain ⟨x, hx, inx, xpc, r6, ro, hd, hf, hir, hmcr, mo⟩ := entry_os_real s vect w hos hs hrt h1 h2 hw
  have lk : ∀ a, x.iregLookup a = s.iregLookup a := by intro a; unfold iregLookup; rw [hir]
  obtain ⟨k, f, ff, fm, fdev, fr⟩ := msg_handler QS x (by rw [hd]; exact q_s) (vec vect) msg d' inx (by rw [hf]; exact hrt)
    (by rw [xpc]; exact vec_word hw) hchk hterm hlen
    (by rw [r6, sub21]; exact h3) (by rw [r6, sub22]; exact h4) (by rw [r6, sub22]; exact hc)
    (by rw [lk]; exact l4) (by rw [lk]; exact l6) (by rw [lk]; exact lm) (by rw [hd]; exact hem)
  refine ⟨k, f, by rw [bind_apply, hx]; exact ff, fm, fdev, ?_⟩
  intro r n0 n7 n6; rw [fr r n0 n7 n6, ro r n6]

end Lc3V.Rt
