/- Lemmas/OsPuts.lean — contracts of PUTS (`puts_trap`: loop over a zero-terminated string, one nested `TRAP x21`
   per word, induction over the string) and IN (`in_trap`: prompt via the nested PUTS, GETC, echo via OUT), composed
   from the contracts in `Lemmas/OsRoutines`.  The display/keyboard behaviour is a hypothesis (`Emits`, `Polls`). -/
import Lc3V.Lemmas.OsRoutines
namespace Lc3V.Rt
open Lc3V Sim SimM SimInstr C11 C10

theorem brz_ccOf (p v : W) : (((2 : BitVec 3).setWidth 16) &&& PSR.cc (ccOf p v) ≠ 0) ↔ v = 0 := by
  unfold ccOf
  cases hm : v.msb
  · by_cases hz : v = 0
    · simp only [hz, if_true, Bool.false_eq_true, if_false, PSR.cc_setCC_z]; decide
    · simp only [hz, Bool.false_eq_true, if_false, cc_setCC_p]; decide
  · have : v ≠ 0 := by intro e; rw [e] at hm; cases hm
    simp only [if_true, cc_setCC_n, this]; decide

theorem br7_ccOf (p v : W) : (((7 : BitVec 3).setWidth 16) &&& PSR.cc (ccOf p v)) ≠ 0 := by
  unfold ccOf
  cases hm : v.msb
  · by_cases hz : v = 0
    · simp only [hz, if_true, Bool.false_eq_true, if_false, PSR.cc_setCC_z]; decide
    · simp only [hz, Bool.false_eq_true, if_false, cc_setCC_p]; decide
  · simp only [if_true, cc_setCC_n]; decide

theorem chkPuts_spec {a : Nat} (h : chkPuts a = true) :
    ∃ oe ol, dec a = some (.add 6 6 (.imm 0x1F)) ∧ dec (a + 1) = some (.str 0 6 0) ∧
      dec (a + 2) = some (.add 6 6 (.imm 0x1F)) ∧ dec (a + 3) = some (.str 1 6 0) ∧
      dec (a + 4) = some (.add 1 0 (.imm 0)) ∧
      dec (a + 5) = some (.ldr 0 1 0) ∧ dec (a + 6) = some (.br 2 oe) ∧ dec (a + 7) = some (.trap 0x21) ∧
      dec (a + 8) = some (.add 1 1 (.imm 1)) ∧ dec (a + 9) = some (.br 7 ol) ∧
      dec (a + 10) = some (.ldr 1 6 0) ∧ dec (a + 11) = some (.add 6 6 (.imm 1)) ∧
      dec (a + 12) = some (.ldr 0 6 0) ∧ dec (a + 13) = some (.add 6 6 (.imm 1)) ∧ dec (a + 14) = some .rti ∧
      rel9 (a + 6) oe = a + 10 ∧ rel9 (a + 9) ol = a + 5 := by
  unfold chkPuts at h
  simp only [Bool.and_eq_true] at h
  obtain ⟨⟨ha, hb⟩, hc⟩ := h
  split at ha
  · rename_i a0 a1 a2 a3 a4
    split at hb
    · rename_i oe ol b0 b1 b2 b3 b4
      split at hc
      · rename_i c0 c1 c2 c3 c4
        simp only [Bool.and_eq_true, beq_iff_eq] at hb
        exact ⟨oe, ol, a0, a1, a2, a3, a4, b0, b1, b2, b3, b4, c0, c1, c2, c3, c4, hb.1, hb.2⟩
      · cases hc
    · cases hb
  · cases ha

/-- the five supervisor-stack cells PUTS uses below its entry R6 (`xsp`): saved R0, saved R1, and the three cells of
    the nested OUT -/
def Cells5 (xsp a : W) : Prop := a = xsp - 1 ∨ a = xsp - 2 ∨ a = xsp - 3 ∨ a = xsp - 4 ∨ a = xsp - 5

/-- all five cells are plain memory above the OS image -/
def CellsOk (xsp : W) : Prop :=
  (767 ≤ (xsp - 1).toNat ∧ (xsp - 1).toNat < IO_START) ∧ (767 ≤ (xsp - 2).toNat ∧ (xsp - 2).toNat < IO_START) ∧
  (767 ≤ (xsp - 3).toNat ∧ (xsp - 3).toNat < IO_START) ∧ (767 ≤ (xsp - 4).toNat ∧ (xsp - 4).toNat < IO_START) ∧
  (767 ≤ (xsp - 5).toNat ∧ (xsp - 5).toNat < IO_START)

/-- PUTS at its loop head relative to the routine's entry state `x`: R0 and R1 saved below the entry R6 -/
structure PutsLoop (x y : Sim) : Prop where
  inos : InOs y
  pc : y.pc = BitVec.ofNat 16 (vec 0x22 + 5)
  sp : (y.reg R6).data = (x.reg R6).data - 2
  c0 : y.memAt ((x.reg R6).data - 1) = x.reg 0
  c1 : y.memAt ((x.reg R6).data - 2) = x.reg 1
  regs : ∀ r, r ≠ 0 → r ≠ 1 → r ≠ R6 → y.reg r = x.reg r
  ctl : ctl y = ctl x
  mem : ∀ a : W, a.toNat < IO_START → ¬ Cells5 (x.reg R6).data a → y.memAt a = x.memAt a
  prio : PSR.priority y.psr = PSR.priority x.psr

theorem InOs.of_cells {s t : Sim} (h : InOs s) (xsp : W) (hc : CellsOk xsp)
    (hm : ∀ a : W, a.toNat < IO_START → ¬ Cells5 xsp a → t.memAt a = s.memAt a) (hctl : Rt.ctl t = Rt.ctl s)
    (hp : PSR.privileged t.psr = true) : InOs t := by
  refine ⟨?_, by have := congrArg (·.1) hctl; simp only [Rt.ctl] at this; rw [this]; exact h.nonstrict, hp⟩
  intro a w ha
  have hl := osWord_lt ha
  obtain ⟨k1, k2, k3, k4, k5⟩ := hc
  rw [hm _ (by rw [BitVec.toNat_ofNat]; unfold IO_START; omega) (by
    intro hcell
    rcases hcell with e | e | e | e | e <;>
      (have := congrArg BitVec.toNat e; rw [BitVec.toNat_ofNat] at this; omega))]
  exact h.os a w ha

theorem sext_0' : (0 : BitVec 5).signExtend 16 = 0 := by decide

/-- PUTS's prologue: push R0 and R1, copy the string pointer to R1 -/
theorem puts_prologue {Q : DevHandler → Prop} (QS : QuietSet Q) (x : Sim) (q_x : Q x.dev) (hx : InOs x) (hpc : x.pc = BitVec.ofNat 16 (vec 0x22))
    (hc : CellsOk (x.reg R6).data) :
    ∃ y, feN 5 x = (.ok (), y) ∧ PutsLoop x y ∧ y.dev = x.dev ∧ (y.reg 1).data = (x.reg 0).data ∧ Q y.dev := by
  obtain ⟨oe, ol, h0, h1, h2, h3, h4, _⟩ := chkPuts_spec puts_listing
  obtain ⟨k1, k2, k3, k4, k5⟩ := hc
  -- ADD R6,R6,#-1
  obtain ⟨hd0, l0⟩ := hx.os.decode h0 hpc
  obtain ⟨t1, f1, pc1, r61, ro1, psr1, dev1, ctl1, mem1, q_t1⟩ := step_add_imm QS x q_x 6 6 0x1F hx.nonstrict hx.sup
    (by unfold IO_START; omega) hd0
  have sup1 : PSR.privileged t1.psr = true := by rw [psr1, ccOf, PSR.privileged_setCC]; exact hx.sup
  have in1 : InOs t1 := hx.step (fun a _ => by rw [Sim.memAt, mem1]) ctl1 sup1
  have hpc1 : t1.pc = BitVec.ofNat 16 (vec 0x22 + 1) := by rw [pc1, hpc]; bv_omega
  have sp1 : (t1.reg 6).data = (x.reg R6).data - 1 := by
    rw [r61, sext_m1]; show (x.reg R6).data + 0xFFFF = _; bv_omega
  -- STR R0,R6,#0
  obtain ⟨hd1, l1⟩ := in1.os.decode h1 hpc1
  have ea1 : (t1.reg 6).data + (0 : BitVec 6).signExtend 16 = (x.reg R6).data - 1 := by rw [sext_0, sp1]; bv_omega
  obtain ⟨t2, f2, pc2, r2, psr2, dev2, ctl2, cell2, mem2, q_t2⟩ := step_str QS t1 q_t1 0 6 0 in1.nonstrict sup1
    (by unfold IO_START; omega) hd1 (by rw [ea1]; exact k1.2)
  rw [ea1] at cell2 mem2
  have regs2 : ∀ r, t2.reg r = t1.reg r := fun r => by show t2.regs[r.toNat] = _; rw [r2]
  have sup2 : PSR.privileged t2.psr = true := by rw [psr2]; exact sup1
  have m2 : ∀ a : W, a ≠ (x.reg R6).data - 1 → t2.memAt a = x.memAt a := by
    intro a hne; rw [mem2 a hne, Sim.memAt, mem1]
  have in2 : InOs t2 := hx.of_cell _ k1.1 (fun a _ hne => m2 a hne) (ctl2.trans ctl1) sup2
  have hpc2 : t2.pc = BitVec.ofNat 16 (vec 0x22 + 2) := by rw [pc2, hpc1]; bv_omega
  -- ADD R6,R6,#-1
  obtain ⟨hd2, l2⟩ := in2.os.decode h2 hpc2
  obtain ⟨t3, f3, pc3, r63, ro3, psr3, dev3, ctl3, mem3, q_t3⟩ := step_add_imm QS t2 q_t2 6 6 0x1F in2.nonstrict sup2
    (by unfold IO_START; omega) hd2
  have sup3 : PSR.privileged t3.psr = true := by rw [psr3, ccOf, PSR.privileged_setCC]; exact sup2
  have in3 : InOs t3 := in2.step (fun a _ => by rw [Sim.memAt, mem3]) ctl3 sup3
  have hpc3 : t3.pc = BitVec.ofNat 16 (vec 0x22 + 3) := by rw [pc3, hpc2]; bv_omega
  have sp3 : (t3.reg 6).data = (x.reg R6).data - 2 := by
    rw [r63, sext_m1, regs2, sp1]; bv_omega
  -- STR R1,R6,#0
  obtain ⟨hd3, l3⟩ := in3.os.decode h3 hpc3
  have ea3 : (t3.reg 6).data + (0 : BitVec 6).signExtend 16 = (x.reg R6).data - 2 := by rw [sext_0, sp3]; bv_omega
  obtain ⟨t4, f4, pc4, r4, psr4, dev4, ctl4, cell4, mem4, q_t4⟩ := step_str QS t3 q_t3 1 6 0 in3.nonstrict sup3
    (by unfold IO_START; omega) hd3 (by rw [ea3]; exact k2.2)
  rw [ea3] at cell4 mem4
  have regs4 : ∀ r, t4.reg r = t3.reg r := fun r => by show t4.regs[r.toNat] = _; rw [r4]
  have sup4 : PSR.privileged t4.psr = true := by rw [psr4]; exact sup3
  have m4 : ∀ a : W, a ≠ (x.reg R6).data - 1 → a ≠ (x.reg R6).data - 2 → t4.memAt a = x.memAt a := by
    intro a n1 n2; rw [mem4 a n2, Sim.memAt, mem3]; exact m2 a n1
  have c04 : t4.memAt ((x.reg R6).data - 1) = x.reg 0 := by
    rw [mem4 _ (by intro e; bv_omega), Sim.memAt, mem3]
    show t2.memAt _ = _
    rw [cell2, ro1 0 (by decide)]
  have c14 : t4.memAt ((x.reg R6).data - 2) = x.reg 1 := by
    rw [cell4, ro3 1 (by decide), regs2, ro1 1 (by decide)]
  have in4 : InOs t4 := in3.of_cell _ k2.1 (fun a _ hne => by rw [mem4 a hne]) ctl4 sup4
  have hpc4 : t4.pc = BitVec.ofNat 16 (vec 0x22 + 4) := by rw [pc4, hpc3]; bv_omega
  -- ADD R1,R0,#0
  obtain ⟨hd4, l4⟩ := in4.os.decode h4 hpc4
  obtain ⟨t5, f5, pc5, r15, ro5, psr5, dev5, ctl5, mem5, q_t5⟩ := step_add_imm QS t4 q_t4 1 0 0 in4.nonstrict sup4
    (by unfold IO_START; omega) hd4
  have sup5 : PSR.privileged t5.psr = true := by rw [psr5, ccOf, PSR.privileged_setCC]; exact sup4
  have in5 : InOs t5 := in4.step (fun a _ => by rw [Sim.memAt, mem5]) ctl5 sup5
  have r0x : t4.reg 0 = x.reg 0 := by rw [regs4, ro3 0 (by decide), regs2, ro1 0 (by decide)]
  refine ⟨t5, ?_, ⟨in5, by rw [pc5, hpc4]; bv_omega, ?_, ?_, ?_, ?_,
    ctl5.trans (ctl4.trans (ctl3.trans (ctl2.trans ctl1))), ?_, ?_⟩, ?_, ?_, q_t5⟩
  · rw [feN_succ 4 f1, feN_succ 3 f2, feN_succ 2 f3, feN_succ 1 f4, feN_succ 0 f5]; rfl
  · rw [ro5 R6 (by decide), regs4]; exact sp3
  · rw [Sim.memAt, mem5]; exact c04
  · rw [Sim.memAt, mem5]; exact c14
  · intro r n0 n1 n6
    rw [ro5 r n1, regs4, ro3 r n6, regs2, ro1 r n6]
  · intro a ha hcell
    rw [Sim.memAt, mem5]
    exact m4 a (fun e => hcell (Or.inl e)) (fun e => hcell (Or.inr (Or.inl e)))
  · rw [psr5, ccOf, PSR.priority_setCC, psr4, psr3, ccOf, PSR.priority_setCC, psr2, psr1, ccOf, PSR.priority_setCC]
  · rw [dev5, dev4, dev3, dev2, dev1]
  · rw [r15, sext_0', r0x]; bv_omega


theorem ctl_of_fields {s t : Sim} (h1 : t.flags = s.flags) (h2 : t.iregs = s.iregs) (h3 : t.savedSp = s.savedSp)
    (h4 : t.mcr = s.mcr) (h5 : t.frameNo = s.frameNo) : Rt.ctl t = Rt.ctl s := by
  simp only [Rt.ctl, h1, h2, h3, h4, h5]

theorem entrySp_sup {s : Sim} (h : PSR.privileged s.psr = true) : entrySp s = (s.reg R6).data := by
  simp [entrySp, h]

theorem ofNat_succ (n : Nat) : BitVec.ofNat 16 n + 1 = BitVec.ofNat 16 (n + 1) := by bv_omega
theorem sub21 (a : W) : a - 2 - 1 = a - 3 := by bv_omega
theorem sub22 (a : W) : a - 2 - 2 = a - 4 := by bv_omega
theorem sub23 (a : W) : a - 2 - 3 = a - 5 := by bv_omega
theorem cell_ne (a : W) : a - 1 ≠ a - 3 ∧ a - 1 ≠ a - 4 ∧ a - 1 ≠ a - 5 ∧ a - 2 ≠ a - 3 ∧ a - 2 ≠ a - 4 ∧ a - 2 ≠ a - 5 ∧
    a - 1 ≠ a - 2 :=
  ⟨by intro e; bv_omega, by intro e; bv_omega, by intro e; bv_omega, by intro e; bv_omega, by intro e; bv_omega,
   by intro e; bv_omega, by intro e; bv_omega⟩

/-- one round of PUTS's loop on a non-zero character: load it, emit it through the nested `TRAP x21`, advance -/
theorem puts_iter {Q : DevHandler → Prop} (QS : QuietSet Q) (x y : Sim) (q_y : Q y.dev) (hy : PutsLoop x y) (hc : CellsOk (x.reg R6).data) (q c : W)
    (hq : (y.reg 1).data = q) (hqlt : q.toNat < IO_START) (hqn : ¬ Cells5 (x.reg R6).data q)
    (hcq : (x.memAt q).data = c) (hc0 : c ≠ 0)
    (l1 : y.iregLookup 0xFE04 = none) (l2 : y.iregLookup 0xFE06 = none)
    (n : Nat) (st : W) (ok : Bool) (d0 d1 d2 : DevHandler)
    (hp : Polls 0xFE04 y.dev n d0) (hr : d0.ioRead 0xFE04 true = (some st, d1)) (hst : st.msb = true)
    (hw : d1.ioWrite 0xFE06 c = (ok, d2)) :
    ∃ y', feN (2 * n + 13) y = (.ok (), y') ∧ PutsLoop x y' ∧ (y'.reg 1).data = q + 1 ∧ y'.dev = d2 ∧ Q y'.dev := by
  obtain ⟨oe, ol, _, _, _, _, _, h5, h6, h7, h8, h9, _, _, _, _, _, hbe, hbl⟩ := chkPuts_spec puts_listing
  obtain ⟨k1, k2, k3, k4, k5⟩ := hc
  -- LDR R0,R1,#0
  obtain ⟨hd0, l0⟩ := hy.inos.os.decode h5 hy.pc
  have ea : (y.reg 1).data + (0 : BitVec 6).signExtend 16 = q := by rw [sext_0, hq]; bv_omega
  obtain ⟨t1, f1, pc1, r01, ro1, psr1, dev1, ctl1, mem1, q_t1⟩ := step_ldr QS y q_y 0 1 0 hy.inos.nonstrict hy.inos.sup
    (by unfold IO_START; omega) hd0 (by rw [ea]; exact hqlt)
  rw [ea, hy.mem q hqlt hqn] at r01 psr1
  rw [hcq] at psr1
  have sup1 : PSR.privileged t1.psr = true := by rw [psr1, ccOf, PSR.privileged_setCC]; exact hy.inos.sup
  have in1 : InOs t1 := hy.inos.step (fun a _ => by rw [Sim.memAt, mem1]) ctl1 sup1
  have hpc1 : t1.pc = BitVec.ofNat 16 (vec 0x22 + 6) := by rw [pc1, hy.pc]; bv_omega
  -- BRz (not taken)
  obtain ⟨hd1, l1'⟩ := in1.os.decode h6 hpc1
  obtain ⟨t2, f2, pc2, r2, psr2, dev2, ctl2, mem2, q_t2⟩ := step_br QS t1 q_t1 2 oe in1.nonstrict sup1 (by unfold IO_START; omega) hd1
  have nottaken : ¬ (((2 : BitVec 3).setWidth 16) &&& PSR.cc t1.psr) ≠ 0 := by
    rw [psr1, brz_ccOf]; exact hc0
  rw [if_neg nottaken] at pc2
  have sup2 : PSR.privileged t2.psr = true := by rw [psr2]; exact sup1
  have in2 := in1.step mem2 ctl2 sup2
  have regs2 : ∀ r, t2.reg r = t1.reg r := fun r => by show t2.regs[r.toNat] = _; rw [r2]
  have hpc2 : t2.pc = BitVec.ofNat 16 (vec 0x22 + 7) := by rw [pc2, hpc1]; bv_omega
  have c21 : Rt.ctl t2 = Rt.ctl y := ctl2.trans ctl1
  -- TRAP x21
  obtain ⟨hd2, l2'⟩ := in2.os.decode h7 hpc2
  have sp2 : (t2.reg R6).data = (x.reg R6).data - 2 := by rw [regs2, ro1 R6 (by decide)]; exact hy.sp
  have esp2 : entrySp t2 = (x.reg R6).data - 2 := by rw [entrySp_sup sup2, sp2]
  have e3 : entrySp t2 - 1 = (x.reg R6).data - 3 := by rw [esp2, sub21]
  have e4 : entrySp t2 - 2 = (x.reg R6).data - 4 := by rw [esp2, sub22]
  have e5 : entrySp t2 - 3 = (x.reg R6).data - 5 := by rw [esp2, sub23]
  obtain ⟨f, ff, ret, fdev, q_f⟩ := out_trap QS t2 q_t2 n in2.os in2.nonstrict
    ⟨Or.inl (priv_ctx sup2), by unfold IO_START; omega, hd2⟩
    (by rw [e3]; exact k3) (by rw [e4]; exact k4) (by rw [e5]; exact k5)
    (by rw [lookup_of_ctl c21]; exact l1) (by rw [lookup_of_ctl c21]; exact l2) st ok d0 d1 d2
    (by rw [dev2, dev1]; exact hp) hr hst (by rw [regs2, r01, hcq]; exact hw)
  have fregs : ∀ r, r ≠ R6 → f.reg r = t2.reg r := fun r h6 => ret.regs r h6 (fun h => by cases h)
  have fsup : PSR.privileged f.psr = true := by rw [ret.psr]; exact sup2
  have fctl : Rt.ctl f = Rt.ctl t2 := ctl_of_fields ret.flags ret.iregs (ret.sspSup sup2) ret.mcr ret.frameNo
  have fmem : ∀ a : W, a.toNat < IO_START → ¬ Cells5 (x.reg R6).data a → f.memAt a = y.memAt a := by
    intro a ha hcell
    rw [ret.mem a ha (by rw [e3]; exact fun e => hcell (Or.inr (Or.inr (Or.inl e))))
      (by rw [e4]; exact fun e => hcell (Or.inr (Or.inr (Or.inr (Or.inl e)))))
      (by rw [e5]; exact fun e => hcell (Or.inr (Or.inr (Or.inr (Or.inr e)))))]
    rw [mem2 a ha, Sim.memAt, mem1]
  have fmem' : ∀ a : W, a.toNat < IO_START → a ≠ (x.reg R6).data - 3 → a ≠ (x.reg R6).data - 4 →
      a ≠ (x.reg R6).data - 5 → f.memAt a = y.memAt a := by
    intro a ha n3 n4 n5
    rw [ret.mem a ha (by rw [e3]; exact n3) (by rw [e4]; exact n4) (by rw [e5]; exact n5)]
    rw [mem2 a ha, Sim.memAt, mem1]
  have inf : InOs f := hy.inos.of_cells _ ⟨k1, k2, k3, k4, k5⟩
    (fun a ha hcell => fmem a ha hcell) (fctl.trans c21) fsup
  have hpcf : f.pc = BitVec.ofNat 16 (vec 0x22 + 8) := by rw [ret.pc, hpc2]; bv_omega
  -- ADD R1,R1,#1
  obtain ⟨hd3, l3⟩ := inf.os.decode h8 hpcf
  obtain ⟨t4, f4, pc4, r14, ro4, psr4, dev4, ctl4, mem4, q_t4⟩ := step_add_imm QS f q_f 1 1 1 inf.nonstrict fsup
    (by unfold IO_START; omega) hd3
  have sup4 : PSR.privileged t4.psr = true := by rw [psr4, ccOf, PSR.privileged_setCC]; exact fsup
  have in4 : InOs t4 := inf.step (fun a _ => by rw [Sim.memAt, mem4]) ctl4 sup4
  have hpc4 : t4.pc = BitVec.ofNat 16 (vec 0x22 + 9) := by rw [pc4, hpcf]; bv_omega
  -- BRnzp loop
  obtain ⟨hd4, l4⟩ := in4.os.decode h9 hpc4
  obtain ⟨t5, f5, pc5, r5, psr5, dev5, ctl5, mem5, q_t5⟩ := step_br QS t4 q_t4 7 ol in4.nonstrict sup4 (by unfold IO_START; omega) hd4
  have taken : (((7 : BitVec 3).setWidth 16) &&& PSR.cc t4.psr) ≠ 0 := by rw [psr4]; exact br7_ccOf _ _
  rw [if_pos taken] at pc5
  have sup5 : PSR.privileged t5.psr = true := by rw [psr5]; exact sup4
  have regs5 : ∀ r, t5.reg r = t4.reg r := fun r => by show t5.regs[r.toNat] = _; rw [r5]
  have m5 : ∀ a : W, a.toNat < IO_START → t5.memAt a = f.memAt a := by
    intro a ha; rw [mem5 a ha, Sim.memAt, mem4]
  obtain ⟨c13, c14, c15, c23, c24, c25, _⟩ := cell_ne (x.reg R6).data
  refine ⟨t5, ?_, ⟨in4.step mem5 ctl5 sup5, ?_, ?_, ?_, ?_, ?_,
    (ctl5.trans (ctl4.trans (fctl.trans c21))).trans hy.ctl, ?_, ?_⟩, ?_, ?_, q_t5⟩
  · rw [show 2 * n + 13 = 1 + (1 + ((2 * n + 9) + (1 + 1))) from by omega,
      feN_add 1 _ (by rw [feN_succ 0 f1]; rfl), feN_add 1 _ (by rw [feN_succ 0 f2]; rfl),
      feN_add (2 * n + 9) _ ff, feN_succ 1 f4, feN_succ 0 f5]; rfl
  · rw [pc5, hpc4]
    have hback : BitVec.ofNat 16 (vec 0x22 + 9 + 1) + ol.signExtend 16 = BitVec.ofNat 16 (vec 0x22 + 5) := by
      apply BitVec.eq_of_toNat_eq
      unfold rel9 at hbl
      rw [hbl, BitVec.toNat_ofNat]
      rw [hy.pc, BitVec.toNat_ofNat] at l0; omega
    rw [← hback]; bv_omega
  · rw [regs5, ro4 R6 (by decide), ret.sp]; exact sp2
  · rw [m5 _ k1.2, fmem' _ k1.2 c13 c14 c15]; exact hy.c0
  · rw [m5 _ k2.2, fmem' _ k2.2 c23 c24 c25]; exact hy.c1
  · intro r n0 n1 n6
    rw [regs5, ro4 r n1, fregs r n6, regs2, ro1 r n0]; exact hy.regs r n0 n1 n6
  · intro a ha hcell
    rw [m5 a ha, fmem a ha hcell]; exact hy.mem a ha hcell
  · rw [psr5, psr4, ccOf, PSR.priority_setCC, ret.psr, psr2, psr1, ccOf, PSR.priority_setCC]; exact hy.prio
  · rw [regs5, r14, sext_1, fregs 1 (by decide), regs2, ro1 1 (by decide), hq]
  · rw [dev5, dev4, fdev]


theorem add_sub_21 (a : W) : a - 2 + 1 = a - 1 := by bv_omega
theorem add_sub_11 (a : W) : a - 1 + 1 = a := by bv_omega

/-- PUTS on the terminating zero: leave the loop, pop R1 and R0; control is at the routine's RTI -/
theorem puts_exit {Q : DevHandler → Prop} (QS : QuietSet Q) (x y : Sim) (q_y : Q y.dev) (hy : PutsLoop x y) (hc : CellsOk (x.reg R6).data) (q : W)
    (hq : (y.reg 1).data = q) (hqlt : q.toNat < IO_START) (hqn : ¬ Cells5 (x.reg R6).data q)
    (hcq : (x.memAt q).data = 0) :
    ∃ t, feN 6 y = (.ok (), t) ∧ InOs t ∧ t.pc = BitVec.ofNat 16 (vec 0x22 + 14) ∧ t.reg 0 = x.reg 0 ∧
      t.reg 1 = x.reg 1 ∧ (t.reg R6).data = (x.reg R6).data ∧ (∀ r, r ≠ 0 → r ≠ 1 → r ≠ R6 → t.reg r = x.reg r) ∧
      t.dev = y.dev ∧ Rt.ctl t = Rt.ctl x ∧
      (∀ a : W, a.toNat < IO_START → ¬ Cells5 (x.reg R6).data a → t.memAt a = x.memAt a) ∧ Q t.dev := by
  obtain ⟨oe, ol, _, _, _, _, _, h5, h6, _, _, _, h10, h11, h12, h13, _, hbe, hbl⟩ := chkPuts_spec puts_listing
  obtain ⟨k1, k2, k3, k4, k5⟩ := hc
  -- LDR R0,R1,#0
  obtain ⟨hd0, l0⟩ := hy.inos.os.decode h5 hy.pc
  have ea : (y.reg 1).data + (0 : BitVec 6).signExtend 16 = q := by rw [sext_0, hq]; exact BitVec.add_zero q
  obtain ⟨t1, f1, pc1, r01, ro1, psr1, dev1, ctl1, mem1, q_t1⟩ := step_ldr QS y q_y 0 1 0 hy.inos.nonstrict hy.inos.sup
    (by unfold IO_START; omega) hd0 (by rw [ea]; exact hqlt)
  rw [ea, hy.mem q hqlt hqn] at r01 psr1
  rw [hcq] at psr1
  have sup1 : PSR.privileged t1.psr = true := by rw [psr1, ccOf, PSR.privileged_setCC]; exact hy.inos.sup
  have in1 : InOs t1 := hy.inos.step (fun a _ => by rw [Sim.memAt, mem1]) ctl1 sup1
  have hpc1 : t1.pc = BitVec.ofNat 16 (vec 0x22 + 6) := by rw [pc1, hy.pc, ofNat_succ]
  -- BRz (taken)
  obtain ⟨hd1, l1'⟩ := in1.os.decode h6 hpc1
  obtain ⟨t2, f2, pc2, r2, psr2, dev2, ctl2, mem2, q_t2⟩ := step_br QS t1 q_t1 2 oe in1.nonstrict sup1 (by unfold IO_START; omega) hd1
  have taken : (((2 : BitVec 3).setWidth 16) &&& PSR.cc t1.psr) ≠ 0 := by rw [psr1, brz_ccOf]
  rw [if_pos taken] at pc2
  have sup2 : PSR.privileged t2.psr = true := by rw [psr2]; exact sup1
  have in2 := in1.step mem2 ctl2 sup2
  have regs2 : ∀ r, t2.reg r = t1.reg r := fun r => by show t2.regs[r.toNat] = _; rw [r2]
  have hpc2 : t2.pc = BitVec.ofNat 16 (vec 0x22 + 10) := by
    rw [pc2, hpc1, ofNat_succ]
    apply BitVec.eq_of_toNat_eq
    unfold rel9 at hbe
    rw [hbe, BitVec.toNat_ofNat]
    rw [hy.pc, BitVec.toNat_ofNat] at l0; omega
  have m2y : ∀ a : W, a.toNat < IO_START → t2.memAt a = y.memAt a := by
    intro a ha; rw [mem2 a ha, Sim.memAt, mem1]
  -- LDR R1,R6,#0
  obtain ⟨hd2, l2⟩ := in2.os.decode h10 hpc2
  have sp2 : (t2.reg 6).data = (x.reg R6).data - 2 := by rw [regs2, ro1 6 (by decide)]; exact hy.sp
  have ea2 : (t2.reg 6).data + (0 : BitVec 6).signExtend 16 = (x.reg R6).data - 2 := by
    rw [sext_0, sp2]; exact BitVec.add_zero _
  obtain ⟨t3, f3, pc3, r13, ro3, psr3, dev3, ctl3, mem3, q_t3⟩ := step_ldr QS t2 q_t2 1 6 0 in2.nonstrict sup2
    (by unfold IO_START; omega) hd2 (by rw [ea2]; exact k2.2)
  rw [ea2, m2y _ k2.2, hy.c1] at r13
  have sup3 : PSR.privileged t3.psr = true := by rw [psr3, ccOf, PSR.privileged_setCC]; exact sup2
  have in3 : InOs t3 := in2.step (fun a _ => by rw [Sim.memAt, mem3]) ctl3 sup3
  have hpc3 : t3.pc = BitVec.ofNat 16 (vec 0x22 + 11) := by rw [pc3, hpc2, ofNat_succ]
  -- ADD R6,R6,#1
  obtain ⟨hd3, l3⟩ := in3.os.decode h11 hpc3
  obtain ⟨t4, f4, pc4, r64, ro4, psr4, dev4, ctl4, mem4, q_t4⟩ := step_add_imm QS t3 q_t3 6 6 1 in3.nonstrict sup3
    (by unfold IO_START; omega) hd3
  have sup4 : PSR.privileged t4.psr = true := by rw [psr4, ccOf, PSR.privileged_setCC]; exact sup3
  have in4 : InOs t4 := in3.step (fun a _ => by rw [Sim.memAt, mem4]) ctl4 sup4
  have hpc4 : t4.pc = BitVec.ofNat 16 (vec 0x22 + 12) := by rw [pc4, hpc3, ofNat_succ]
  have sp4 : (t4.reg 6).data = (x.reg R6).data - 1 := by
    rw [r64, sext_1, ro3 6 (by decide), sp2, add_sub_21]
  -- LDR R0,R6,#0
  obtain ⟨hd4, l4⟩ := in4.os.decode h12 hpc4
  have ea4 : (t4.reg 6).data + (0 : BitVec 6).signExtend 16 = (x.reg R6).data - 1 := by
    rw [sext_0, sp4]; exact BitVec.add_zero _
  obtain ⟨t5, f5, pc5, r05, ro5, psr5, dev5, ctl5, mem5, q_t5⟩ := step_ldr QS t4 q_t4 0 6 0 in4.nonstrict sup4
    (by unfold IO_START; omega) hd4 (by rw [ea4]; exact k1.2)
  have m4y : ∀ a : W, a.toNat < IO_START → t4.memAt a = y.memAt a := by
    intro a ha; rw [Sim.memAt, mem4]; show t3.memAt a = _; rw [Sim.memAt, mem3]; exact m2y a ha
  rw [ea4, m4y _ k1.2, hy.c0] at r05
  have sup5 : PSR.privileged t5.psr = true := by rw [psr5, ccOf, PSR.privileged_setCC]; exact sup4
  have in5 : InOs t5 := in4.step (fun a _ => by rw [Sim.memAt, mem5]) ctl5 sup5
  have hpc5 : t5.pc = BitVec.ofNat 16 (vec 0x22 + 13) := by rw [pc5, hpc4, ofNat_succ]
  -- ADD R6,R6,#1
  obtain ⟨hd5, l5⟩ := in5.os.decode h13 hpc5
  obtain ⟨t6, f6, pc6, r66, ro6, psr6, dev6, ctl6, mem6, q_t6⟩ := step_add_imm QS t5 q_t5 6 6 1 in5.nonstrict sup5
    (by unfold IO_START; omega) hd5
  have sup6 : PSR.privileged t6.psr = true := by rw [psr6, ccOf, PSR.privileged_setCC]; exact sup5
  have in6 : InOs t6 := in5.step (fun a _ => by rw [Sim.memAt, mem6]) ctl6 sup6
  refine ⟨t6, ?_, in6, by rw [pc6, hpc5, ofNat_succ], ?_, ?_, ?_, ?_, ?_,
    (ctl6.trans (ctl5.trans (ctl4.trans (ctl3.trans (ctl2.trans ctl1))))).trans hy.ctl, ?_, q_t6⟩
  · rw [feN_succ 5 f1, feN_succ 4 f2, feN_succ 3 f3, feN_succ 2 f4, feN_succ 1 f5, feN_succ 0 f6]; rfl
  · rw [ro6 0 (by decide)]; exact r05
  · rw [ro6 1 (by decide), ro5 1 (by decide), ro4 1 (by decide)]; exact r13
  · show (t6.reg 6).data = _
    rw [r66, sext_1, ro5 6 (by decide), sp4, add_sub_11]
  · intro r n0 n1 n6
    rw [ro6 r n6, ro5 r n0, ro4 r n6, ro3 r n1, regs2, ro1 r n0]; exact hy.regs r n0 n1 n6
  · rw [dev6, dev5, dev4, dev3, dev2, dev1]
  · intro a ha hcell
    rw [Sim.memAt, mem6]; show t5.memAt a = _
    rw [Sim.memAt, mem5]; show t4.memAt a = _
    rw [m4y a ha]; exact hy.mem a ha hcell


/-- a zero-terminated string of words at `q` in the memory of `m`, every cell satisfying `okc` -/
inductive Str (m : Sim) (okc : W → Prop) : W → List W → Prop
  | nil {q : W} : okc q → (m.memAt q).data = 0 → Str m okc q []
  | cons {q c : W} {cs : List W} : okc q → (m.memAt q).data = c → c ≠ 0 → Str m okc (q + 1) cs → Str m okc q (c :: cs)

/-- the display takes the words `cs` one by one: each after some unsuccessful polls of DSR and a successful one -/
inductive Emits : DevHandler → List W → DevHandler → Prop
  | nil (d : DevHandler) : Emits d [] d
  | cons {d d0 d1 d2 d' : DevHandler} {n : Nat} {st c : W} {ok : Bool} {cs : List W} :
      Polls 0xFE04 d n d0 → d0.ioRead 0xFE04 true = (some st, d1) → st.msb = true →
      d1.ioWrite 0xFE06 c = (ok, d2) → Emits d2 cs d' → Emits d (c :: cs) d'

theorem Polls.q {Q : DevHandler → Prop} (QS : QuietSet Q) {port : W} {d d' : DevHandler} {n : Nat}
    (h : Polls port d n d') (hq : Q d) : Q d' := by
  induction h with
  | zero d => exact hq
  | succ hr _ _ ih => exact ih (QS.ofRead hq hr)

theorem Emits.q {Q : DevHandler → Prop} (QS : QuietSet Q) {d d' : DevHandler} {cs : List W}
    (h : Emits d cs d') (hq : Q d) : Q d' := by
  induction h with
  | nil d => exact hq
  | cons hp hr _ hw _ ih => exact ih (QS.ofWrite (QS.ofRead (Polls.q QS hp hq) hr) hw)

/-- PUTS's loop over the whole string, then the epilogue: control is at the routine's RTI -/
theorem puts_loop {Q : DevHandler → Prop} (QS : QuietSet Q) (x : Sim) (hc : CellsOk (x.reg R6).data) (cs : List W) : ∀ (y : Sim) (q : W) (d' : DevHandler),
    Q y.dev → PutsLoop x y → (y.reg 1).data = q →
    Str x (fun a => a.toNat < IO_START ∧ ¬ Cells5 (x.reg R6).data a) q cs →
    y.iregLookup 0xFE04 = none → y.iregLookup 0xFE06 = none → Emits y.dev cs d' →
    ∃ k t, feN k y = (.ok (), t) ∧ InOs t ∧ t.pc = BitVec.ofNat 16 (vec 0x22 + 14) ∧ t.reg 0 = x.reg 0 ∧
      t.reg 1 = x.reg 1 ∧ (t.reg R6).data = (x.reg R6).data ∧ (∀ r, r ≠ 0 → r ≠ 1 → r ≠ R6 → t.reg r = x.reg r) ∧
      t.dev = d' ∧ Rt.ctl t = Rt.ctl x ∧
      (∀ a : W, a.toNat < IO_START → ¬ Cells5 (x.reg R6).data a → t.memAt a = x.memAt a) ∧ Q t.dev := by
  induction cs with
  | nil =>
    intro y q d' q_y hy hq hs _ _ he
    cases hs with
    | nil hok hz =>
      cases he
      obtain ⟨t, ft, rest⟩ := puts_exit QS x y q_y hy hc q hq hok.1 hok.2 hz
      exact ⟨6, t, ft, rest⟩
  | cons c cs ih =>
    intro y q d' q_y hy hq hs l1 l2 he
    cases hs with
    | cons hok hcq hc0 hrest =>
      cases he with
      | cons hp hr hst hw hmore =>
        obtain ⟨y', fy, hy', hq', hd', q_y'⟩ := puts_iter QS x y q_y hy hc q c hq hok.1 hok.2 hcq hc0 l1 l2 _ _ _ _ _ _ hp hr hst hw
        have cc : Rt.ctl y' = Rt.ctl y := hy'.ctl.trans hy.ctl.symm
        obtain ⟨k, t, ft, rest⟩ := ih y' (q + 1) d' q_y' hy' hq' hrest (by rw [lookup_of_ctl cc]; exact l1)
          (by rw [lookup_of_ctl cc]; exact l2) (by rw [hd']; exact hmore)
        exact ⟨_ + k, t, by rw [feN_add _ k fy]; exact ft, rest⟩


theorem cells_entry_ne (a : W) : ¬ Cells5 (a - 2) (a - 1) ∧ ¬ Cells5 (a - 2) (a - 2) := by
  constructor <;> (intro h; rcases h with e | e | e | e | e <;> bv_omega)

theorem vec_defined_22 : (osWord 0x22).isSome := by decide +kernel

theorem Str.transfer {m m' : Sim} {okc okc' : W → Prop} (hok : ∀ a, okc a → okc' a)
    (hm : ∀ a, okc a → m'.memAt a = m.memAt a) : ∀ {q : W} {cs : List W}, Str m okc q cs → Str m' okc' q cs := by
  intro q cs h
  induction h with
  | nil h1 h2 => exact .nil (hok _ h1) (by rw [hm _ h1]; exact h2)
  | cons h1 h2 h3 _ ih => exact .cons (hok _ h1) (by rw [hm _ h1]; exact h2) h3 ih

/-- **PUTS contract.** A `TRAP x22` instruction fetched and executed from any non-strict state with the OS in memory,
    seven supervisor-stack cells in plain memory above the OS image, and R0 pointing at a zero-terminated string `cs`
    in plain memory clear of those cells, the display accepting the words of `cs` one by one (each after any number
    of unsuccessful polls): the machine ends at the instruction after the TRAP, the display has received exactly the
    words of `cs` in order (`d'`), and the PSR, every register, both stack pointers, the flags and all memory below
    the I/O page except the seven supervisor-stack cells are unchanged -/
theorem puts_trap {Q : DevHandler → Prop} (QS : QuietSet Q) (s : Sim) (q_s : Q s.dev) (cs : List W) (d' : DevHandler) (hos : OsLoaded s) (hs : s.flags.strict = false)
    (hat : AtTrap s 0x22)
    (h1 : 767 ≤ (entrySp s - 1).toNat ∧ (entrySp s - 1).toNat < IO_START)
    (h2 : 767 ≤ (entrySp s - 2).toNat ∧ (entrySp s - 2).toNat < IO_START)
    (hc : CellsOk (entrySp s - 2))
    (l1 : s.iregLookup 0xFE04 = none) (l2 : s.iregLookup 0xFE06 = none)
    (hstr : Str s (fun a => a.toNat < IO_START ∧ a ≠ entrySp s - 1 ∧ a ≠ entrySp s - 2 ∧ ¬ Cells5 (entrySp s - 2) a)
      (s.reg 0).data cs)
    (hem : Emits s.dev cs d') :
    ∃ k f, feN k s = (.ok (), f) ∧ Returned s f (s.pc + 1) true (Cells5 (entrySp s - 2)) ∧ f.dev = d' ∧ Q f.dev := by
  obtain ⟨w, hw⟩ := Option.isSome_iff_exists.mp vec_defined_22
  obtain ⟨x, hx, inx, xpc, m2, m1, mo, r6, ro, xprio, hss, hfn, hd, hf, hir, hmcr, q_x⟩ :=
    trap_step_os QS s q_s 0x22 w hos hs hat.perm hat.plain hat.instr h1 h2 (Or.inl (by decide)) hw
  have lk : ∀ a, x.iregLookup a = s.iregLookup a := by intro a; unfold iregLookup; rw [hir]
  rw [← r6] at hc
  obtain ⟨y, fy, hy, devy, hq, q_y⟩ := puts_prologue QS x q_x inx (by rw [xpc]; exact vec_word hw) hc
  have lky : ∀ a, y.iregLookup a = s.iregLookup a := by intro a; rw [lookup_of_ctl hy.ctl, lk]
  have hstr' : Str x (fun a => a.toNat < IO_START ∧ ¬ Cells5 (x.reg R6).data a) (y.reg 1).data cs := by
    rw [hq, ro 0 (by decide)]
    refine Str.transfer (fun a h => ⟨h.1, by rw [r6]; exact h.2.2.2⟩) (fun a h => mo a h.2.1 h.2.2.1) hstr
  obtain ⟨k, t, ft, int, tpc, tr0, tr1, tsp, tro, tdev, tctl, tmem, q_t⟩ := puts_loop QS x hc cs y _ d' q_y hy rfl hstr'
    (by rw [lky]; exact l1) (by rw [lky]; exact l2) (by rw [devy, hd]; exact hem)
  obtain ⟨_, _, _, _, _, _, _, _, _, _, _, _, _, _, _, _, h14, _⟩ := chkPuts_spec puts_listing
  obtain ⟨hdr, lr⟩ := int.os.decode h14 tpc
  obtain ⟨e1, e2⟩ := cells_entry_ne (entrySp s)
  obtain ⟨f, ff, ret, fdev, fro, q_f⟩ := return_from QS s x t q_t (s.pc + 1) true (Cells5 (entrySp s - 2)) h1.2 h2.2 m2 m1
    mo r6 ro hss hfn hf hir hmcr int (by unfold IO_START; omega) hdr tsp
    (fun r h6 _ => by
      by_cases h0 : r = 0
      · rw [h0]; exact tr0
      · by_cases h1' : r = 1
        · rw [h1']; exact tr1
        · exact tro r h0 h1' h6) tctl
    (fun a ha hne => tmem a ha (by rw [r6]; exact hne)) e1 e2
  refine ⟨1 + (5 + (k + 1)), f, ?_, ret, by rw [fdev, tdev], q_f⟩
  rw [feN_add 1 _ (by rw [feN_succ 0 hx]; rfl), feN_add 5 _ fy, feN_add k 1 ft, feN_succ 0 ff]; rfl


/-! ### IN -/

theorem chkIn_spec {a : Nat} (h : chkIn a = true) :
    ∃ op, dec a = some (.lea 0 op) ∧ dec (a + 1) = some (.trap 0x22) ∧ dec (a + 2) = some (.trap 0x20) ∧
      dec (a + 3) = some (.trap 0x21) ∧ dec (a + 4) = some .rti ∧
      strAt (rel9 a op) 64 = str "Input character: " := by
  unfold chkIn at h
  split at h
  · rename_i op h0 h1 h2 h3 h4
    simp only [beq_iff_eq] at h
    exact ⟨op, h0, h1, h2, h3, h4, h⟩
  · cases h

/-- the checked listing's string is a zero-terminated string in the memory of any state with the OS loaded -/
theorem str_of_strAt (m : Sim) (hos : OsLoaded m) (okc : W → Prop) (hok : ∀ a : Nat, a < 767 → okc (BitVec.ofNat 16 a)) :
    ∀ (fuel p : Nat) (l : List Nat), strAt p fuel = l → l.length < fuel → osWord (p + l.length) = some 0 →
      Str m okc (BitVec.ofNat 16 p) (l.map (BitVec.ofNat 16)) := by
  intro fuel
  induction fuel with
  | zero => intro p l _ hl; omega
  | succ n ih =>
    intro p l hs hl ht
    unfold strAt at hs
    cases l with
    | nil =>
      simp only [List.length_nil, Nat.add_zero] at ht
      exact .nil (hok p (osWord_lt ht)) (by rw [hos p 0 ht]; rfl)
    | cons c l' =>
      rcases hw : osWord p with _ | w
      · rw [hw] at hs; cases hs
      · rw [hw] at hs
        simp only at hs
        by_cases hz : w = 0
        · rw [if_pos hz] at hs; cases hs
        · rw [if_neg hz] at hs
          simp only [List.cons.injEq] at hs
          obtain ⟨hc, hrest⟩ := hs
          simp only [List.map_cons]
          refine .cons (hok p (osWord_lt hw)) (by rw [hos p w hw, ← hc]; simp) (by rw [← hc]; simpa using hz) ?_
          rw [ofNat_succ]
          exact ih (p + 1) l' hrest (by simp only [List.length_cons] at hl; omega)
            (by simp only [List.length_cons] at ht; rw [show p + 1 + l'.length = p + (l'.length + 1) from by omega]; exact ht)


/-- the prompt of IN ends in a zero word inside the image -/
def chkInTerm (a : Nat) : Bool :=
  match dec a with
  | some (.lea 0 op) => osWord (rel9 a op + 17) == some 0
  | _ => false

set_option maxRecDepth 100000 in
theorem in_prompt_terminated : chkInTerm (vec 0x23) = true ∧ (osWord 0x23).isSome := by decide +kernel

/-- one supervisor step: `LEA dr, off` -/
theorem step_lea {Q : DevHandler → Prop} (QS : QuietSet Q) (s : Sim) (q_s : Q s.dev) (dr : Reg) (off : BitVec 9)
    (hs : s.flags.strict = false) (hp : PSR.privileged s.psr = true) (hpc : s.pc.toNat < IO_START)
    (hd : SimInstr.decode (s.memAt s.pc).data = .ok (.lea dr off)) :
    ∃ t, Sim.step s = (.ok (), t) ∧ t.pc = s.pc + 1 ∧ t.reg dr = Word.ofData (s.pc + 1 + off.signExtend 16) ∧
      (∀ r, r ≠ dr → t.reg r = s.reg r) ∧ t.psr = s.psr ∧ t.dev = s.dev ∧ Rt.ctl t = Rt.ctl s ∧ t.mem = s.mem ∧
      Q t.dev := by
  have hx := C08.exec_lea (fetched s) dr off
  refine ⟨_, step_of_exec QS s _ _ hs hp hpc hd q_s hx, rfl, ?_, ?_, rfl, rfl, rfl, rfl, q_s⟩
  · show (Sim.setReg (fetched s) dr _).reg dr = _
    rw [Sim.reg_setReg, if_pos rfl]; rfl
  · intro r hr
    show (Sim.setReg (fetched s) dr _).reg r = _
    rw [Sim.reg_setReg, if_neg (Ne.symm hr)]; rfl

/-- a routine that has returned leaves the machine fit for the next one -/
theorem Returned.inOs {s f : Sim} {ret : W} {k : Bool} {E : W → Prop} (h : InOs s) (r : Returned s f ret k E)
    (hc : ∀ a : W, a.toNat < 767 → a ≠ entrySp s - 1 ∧ a ≠ entrySp s - 2 ∧ ¬ E a) : InOs f := by
  refine ⟨?_, by rw [r.flags]; exact h.nonstrict, by rw [r.psr]; exact h.sup⟩
  intro a w ha
  have hl := osWord_lt ha
  have hlt : (BitVec.ofNat 16 a).toNat < 767 := by rw [BitVec.toNat_ofNat]; omega
  obtain ⟨n1, n2, n3⟩ := hc _ hlt
  rw [r.mem _ (by unfold IO_START; omega) n1 n2 n3]
  exact h.os a w ha

theorem Returned.ctl {s f : Sim} {ret : W} {k : Bool} {E : W → Prop} (r : Returned s f ret k E)
    (hp : PSR.privileged s.psr = true) : Rt.ctl f = Rt.ctl s :=
  ctl_of_fields r.flags r.iregs (r.sspSup hp) r.mcr r.frameNo


theorem ofNat_rel9 (a : Nat) (o : BitVec 9) :
    BitVec.ofNat 16 (a + 1) + o.signExtend 16 = BitVec.ofNat 16 (rel9 a o) := by
  unfold rel9; rw [BitVec.ofNat_toNat, BitVec.setWidth_eq]

theorem sub41 (a : W) : a - 5 = a - 4 - 1 := by bv_omega

/-- the cells IN may overwrite below the two of its own entry: two for each nested entry, five more under PUTS -/
def Cells7 (esp a : W) : Prop := a = esp - 3 ∨ a = esp - 4 ∨ Cells5 (esp - 4) a

theorem cells7_entry_ne (a : W) : ¬ Cells7 a (a - 1) ∧ ¬ Cells7 a (a - 2) := by
  constructor <;> (intro h; rcases h with e | e | e | e | e | e | e <;> bv_omega)

def prompt : List W := (str "Input character: ").map (BitVec.ofNat 16)

/-- **IN contract.** A `TRAP x23` instruction fetched and executed from any non-strict state with the OS in memory and
    nine supervisor-stack cells in plain memory above the OS image; the display accepts the prompt's words one by one,
    then the keyboard (after any number of unsuccessful polls) delivers the byte `b`, then the display accepts `b`:
    the machine ends at the instruction after the TRAP with `b` in R0, the display having received exactly the prompt
    followed by `b` and the keyboard having lost exactly that byte (`dC`), and the PSR, every register other than
    R0, both stack pointers, the flags and all memory below the I/O page except the nine stack cells unchanged -/
theorem in_trap {Q : DevHandler → Prop} (QS : QuietSet Q) (s : Sim) (q_s : Q s.dev) (b : W) (n m : Nat) (hos : OsLoaded s) (hs : s.flags.strict = false) (hat : AtTrap s 0x23)
    (h1 : 767 ≤ (entrySp s - 1).toNat ∧ (entrySp s - 1).toNat < IO_START)
    (h2 : 767 ≤ (entrySp s - 2).toNat ∧ (entrySp s - 2).toNat < IO_START)
    (h3 : 767 ≤ (entrySp s - 3).toNat ∧ (entrySp s - 3).toNat < IO_START)
    (h4 : 767 ≤ (entrySp s - 4).toNat ∧ (entrySp s - 4).toNat < IO_START)
    (hc : CellsOk (entrySp s - 4))
    (lk0 : s.iregLookup 0xFE00 = none) (lk2 : s.iregLookup 0xFE02 = none)
    (lk4 : s.iregLookup 0xFE04 = none) (lk6 : s.iregLookup 0xFE06 = none)
    (dA k0 k1 dB e0 e1 dC : DevHandler) (st st2 : W) (ok : Bool)
    (hem : Emits s.dev prompt dA)
    (hkp : Polls 0xFE00 dA n k0) (hkr : k0.ioRead 0xFE00 true = (some st, k1)) (hkst : st.msb = true)
    (hkb : k1.ioRead 0xFE02 true = (some b, dB))
    (hep : Polls 0xFE04 dB m e0) (her : e0.ioRead 0xFE04 true = (some st2, e1)) (hest : st2.msb = true)
    (hew : e1.ioWrite 0xFE06 b = (ok, dC)) :
    ∃ k f, feN k s = (.ok (), f) ∧ Returned s f (s.pc + 1) false (Cells7 (entrySp s)) ∧
      f.reg 0 = Word.ofData b ∧ f.dev = dC ∧ Q f.dev := by
  obtain ⟨hterm, hvec⟩ := in_prompt_terminated
  obtain ⟨w, hw⟩ := Option.isSome_iff_exists.mp hvec
  obtain ⟨op, i0, i1, i2, i3, i4, hsa⟩ := chkIn_spec in_listing
  have hterm' : osWord (rel9 (vec 0x23) op + 17) = some 0 := by
    unfold chkInTerm at hterm; rw [i0] at hterm; simpa using hterm
  obtain ⟨x, hx, inx, xpc, m2, m1, mo, r6, ro, xprio, hss, hfn, hd, hf, hir, hmcr, q_x⟩ :=
    trap_step_os QS s q_s 0x23 w hos hs hat.perm hat.plain hat.instr h1 h2 (Or.inl (by decide)) hw
  have xpc' : x.pc = BitVec.ofNat 16 (vec 0x23) := by rw [xpc]; exact vec_word hw
  -- LEA R0, prompt
  obtain ⟨hd0, l0⟩ := inx.os.decode i0 xpc'
  obtain ⟨t1, f1, pc1, r01, ro1, psr1, dev1, ctl1, mem1, q_t1⟩ := step_lea QS x q_x 0 op inx.nonstrict inx.sup
    (by unfold IO_START; omega) hd0
  have sup1 : PSR.privileged t1.psr = true := by rw [psr1]; exact inx.sup
  have in1 : InOs t1 := inx.step (fun a _ => by rw [Sim.memAt, mem1]) ctl1 sup1
  have hpc1 : t1.pc = BitVec.ofNat 16 (vec 0x23 + 1) := by rw [pc1, xpc', ofNat_succ]
  have esp1 : entrySp t1 = entrySp s - 2 := by rw [entrySp_sup sup1, ro1 R6 (by decide), r6]
  have hP : (t1.reg 0).data = BitVec.ofNat 16 (rel9 (vec 0x23) op) := by
    rw [r01, xpc', ofNat_succ, ofNat_rel9]; rfl
  obtain ⟨k1', k2', k3', k4', k5'⟩ := hc
  have lkx : ∀ a, x.iregLookup a = s.iregLookup a := by intro a; unfold iregLookup; rw [hir]
  have lk1 : ∀ a, t1.iregLookup a = s.iregLookup a := by intro a; rw [lookup_of_ctl ctl1, lkx]
  -- TRAP x22 (PUTS the prompt)
  obtain ⟨hd1, l1⟩ := in1.os.decode i1 hpc1
  have low : ∀ a : Nat, a < 767 → (BitVec.ofNat 16 a).toNat < 767 := by
    intro a ha; rw [BitVec.toNat_ofNat]; omega
  obtain ⟨kp, g1, fg1, ret1, gdev1, q_g1⟩ := puts_trap QS t1 q_t1 prompt dA in1.os in1.nonstrict
    ⟨Or.inl (priv_ctx sup1), by unfold IO_START; omega, hd1⟩
    (by rw [esp1, sub21]; exact h3) (by rw [esp1, sub22]; exact h4) (by rw [esp1, sub22]; exact ⟨k1', k2', k3', k4', k5'⟩)
    (by rw [lk1]; exact lk4) (by rw [lk1]; exact lk6)
    (by
      rw [hP]
      refine str_of_strAt t1 in1.os _ ?_ 64 _ _ hsa (by decide) (by simpa [C11.str] using hterm')
      intro a ha
      have := low a ha
      rw [esp1, sub21, sub22]
      refine ⟨by unfold IO_START; omega, fun e => by rw [e] at this; omega, fun e => by rw [e] at this; omega, ?_⟩
      intro hcell
      rcases hcell with e | e | e | e | e <;> (rw [e] at this; omega))
    (by rw [dev1, hd]; exact hem)
  have cellsLow : ∀ a : W, a.toNat < 767 → a ≠ entrySp s - 3 ∧ a ≠ entrySp s - 4 ∧ ¬ Cells5 (entrySp s - 4) a := by
    intro a ha
    refine ⟨fun e => by rw [e] at ha; omega, fun e => by rw [e] at ha; omega, ?_⟩
    intro hcell
    rcases hcell with e | e | e | e | e <;> (rw [e] at ha; omega)
  have ing1 : InOs g1 := by
    refine ret1.inOs in1 ?_
    intro a ha; rw [esp1, sub21, sub22]; exact cellsLow a ha
  have mem1' : ∀ a : W, a.toNat < IO_START → a ≠ entrySp s - 3 → a ≠ entrySp s - 4 → ¬ Cells5 (entrySp s - 4) a →
      g1.memAt a = t1.memAt a := fun a ha n3 n4 n5 =>
    ret1.mem a ha (by rw [esp1, sub21]; exact n3) (by rw [esp1, sub22]; exact n4) (by rw [esp1, sub22]; exact n5)
  have supg1 : PSR.privileged g1.psr = true := ing1.sup
  have ctlg1 : Rt.ctl g1 = Rt.ctl t1 := ret1.ctl sup1
  have espg1 : entrySp g1 = entrySp s - 2 := by rw [entrySp_sup supg1, ret1.sp, ro1 R6 (by decide), r6]
  have hpcg1 : g1.pc = BitVec.ofNat 16 (vec 0x23 + 2) := by rw [ret1.pc, hpc1, ofNat_succ]
  have lkg1 : ∀ a, g1.iregLookup a = s.iregLookup a := by intro a; rw [lookup_of_ctl ctlg1, lk1]
  -- TRAP x20 (GETC)
  obtain ⟨hd2, l2⟩ := ing1.os.decode i2 hpcg1
  obtain ⟨g2, fg2, ret2, g2r0, gdev2, q_g2⟩ := getc_trap QS g1 q_g1 n ing1.os ing1.nonstrict
    ⟨Or.inl (priv_ctx supg1), by unfold IO_START; omega, hd2⟩
    (by rw [espg1, sub21]; exact h3) (by rw [espg1, sub22]; exact h4)
    (by rw [lkg1]; exact lk0) (by rw [lkg1]; exact lk2) st b k0 k1 dB (by rw [gdev1]; exact hkp) hkr hkst hkb
  have mem2' : ∀ a : W, a.toNat < IO_START → a ≠ entrySp s - 3 → a ≠ entrySp s - 4 → g2.memAt a = g1.memAt a :=
    fun a ha n3 n4 => ret2.mem a ha (by rw [espg1, sub21]; exact n3) (by rw [espg1, sub22]; exact n4) (fun h => h)
  have ing2 : InOs g2 := by
    refine ret2.inOs ing1 ?_
    intro a ha; rw [espg1, sub21, sub22]
    exact ⟨(cellsLow a ha).1, (cellsLow a ha).2.1, fun h => h⟩
  have supg2 : PSR.privileged g2.psr = true := ing2.sup
  have ctlg2 : Rt.ctl g2 = Rt.ctl g1 := ret2.ctl supg1
  have espg2 : entrySp g2 = entrySp s - 2 := by
    rw [entrySp_sup supg2, ret2.sp, ret1.sp, ro1 R6 (by decide), r6]
  have hpcg2 : g2.pc = BitVec.ofNat 16 (vec 0x23 + 3) := by rw [ret2.pc, hpcg1, ofNat_succ]
  have lkg2 : ∀ a, g2.iregLookup a = s.iregLookup a := by intro a; rw [lookup_of_ctl ctlg2, lkg1]
  -- TRAP x21 (OUT)
  obtain ⟨hd3, l3⟩ := ing2.os.decode i3 hpcg2
  obtain ⟨g3, fg3, ret3, gdev3, q_g3⟩ := out_trap QS g2 q_g2 m ing2.os ing2.nonstrict
    ⟨Or.inl (priv_ctx supg2), by unfold IO_START; omega, hd3⟩
    (by rw [espg2, sub21]; exact h3) (by rw [espg2, sub22]; exact h4) (by rw [espg2, sub23, sub41]; exact k1')
    (by rw [lkg2]; exact lk4) (by rw [lkg2]; exact lk6) st2 ok e0 e1 dC (by rw [gdev2]; exact hep) her hest
    (by rw [g2r0]; exact hew)
  have mem3' : ∀ a : W, a.toNat < IO_START → a ≠ entrySp s - 3 → a ≠ entrySp s - 4 → a ≠ entrySp s - 4 - 1 →
      g3.memAt a = g2.memAt a := fun a ha n3 n4 n5 =>
    ret3.mem a ha (by rw [espg2, sub21]; exact n3) (by rw [espg2, sub22]; exact n4)
      (by rw [espg2, sub23, sub41]; exact n5)
  have ing3 : InOs g3 := by
    refine ret3.inOs ing2 ?_
    intro a ha; rw [espg2, sub21, sub22, sub23, sub41]
    exact ⟨(cellsLow a ha).1, (cellsLow a ha).2.1, fun e => (cellsLow a ha).2.2 (Or.inl e)⟩
  have ctlg3 : Rt.ctl g3 = Rt.ctl g2 := ret3.ctl supg2
  have hpcg3 : g3.pc = BitVec.ofNat 16 (vec 0x23 + 4) := by rw [ret3.pc, hpcg2, ofNat_succ]
  -- RTI
  obtain ⟨hdr, lr⟩ := ing3.os.decode i4 hpcg3
  obtain ⟨e1', e2'⟩ := cells7_entry_ne (entrySp s)
  obtain ⟨f, ff, ret, fdev, fro, q_f⟩ := return_from QS s x g3 q_g3 (s.pc + 1) false (Cells7 (entrySp s)) h1.2 h2.2 m2 m1
    mo r6 ro hss hfn hf hir hmcr ing3 (by unfold IO_START; omega) hdr
    (by rw [ret3.sp, ret2.sp, ret1.sp, ro1 R6 (by decide)])
    (fun r h6 h0 => by
      have n0 : r ≠ 0 := h0 rfl
      rw [ret3.regs r h6 (fun h => by cases h), ret2.regs r h6 (fun _ => n0), ret1.regs r h6 (fun h => by cases h),
        ro1 r n0])
    (ctlg3.trans (ctlg2.trans (ctlg1.trans ctl1)))
    (fun a ha hne => by
      have n3 : a ≠ entrySp s - 3 := fun e => hne (Or.inl e)
      have n4 : a ≠ entrySp s - 4 := fun e => hne (Or.inr (Or.inl e))
      have n5 : ¬ Cells5 (entrySp s - 4) a := fun e => hne (Or.inr (Or.inr e))
      rw [mem3' a ha n3 n4 (fun e => n5 (Or.inl e)), mem2' a ha n3 n4, mem1' a ha n3 n4 n5, Sim.memAt, mem1])
    e1' e2'
  refine ⟨1 + (1 + (kp + ((2 * n + 5) + ((2 * m + 9) + 1)))), f, ?_, ret, ?_, by rw [fdev, gdev3], q_f⟩
  · rw [feN_add 1 _ (by rw [feN_succ 0 hx]; rfl), feN_add 1 _ (by rw [feN_succ 0 f1]; rfl), feN_add kp _ fg1,
      feN_add (2 * n + 5) _ fg2, feN_add (2 * m + 9) 1 fg3, feN_succ 0 ff]; rfl
  · rw [fro 0 (by decide), ret3.regs 0 (by decide) (fun h => by cases h), g2r0]

end Lc3V.Rt
