/- Lemmas/OsPutsp.lean — contract of PUTSP (`putsp_trap`): prologue/epilogue (generic `push_reg`/`pop_reg`), the
   low-byte test, the eight-round shift loop (machine rounds `shift_round`, induction `shift_loop`, arithmetic
   `round_k`/`eight_rounds`: the loop computes `w >>> 8`), two nested `TRAP x21` per word (`pin_out`), induction over the
   packed string (`PStr`, `putsp_loop`).  The machine state inside the routine is `InOsQ Q y` (OS loaded, non-strict, supervisor,
   devices in the quiet set `Q`). -/
import Lc3V.Lemmas.OsPuts
namespace Lc3V.Rt
open Lc3V Sim SimM SimInstr C11 C10

variable {Q : DevHandler → Prop}

/-- inside an OS routine with the devices in the quiet set `Q` -/
structure InOsQ (Q : DevHandler → Prop) (y : Sim) : Prop extends InOs y where
  q : Q y.dev

theorem InOsQ.step' {s t : Sim} (h : InOsQ Q s) (hm : MemLow s t) (hc : ctl t = ctl s)
    (hp : PSR.privileged t.psr = true) (hd : t.dev = s.dev) : InOsQ Q t :=
  ⟨h.toInOs.step hm hc hp, by rw [hd]; exact h.q⟩


/-- one supervisor step: `LD dr, off` from plain memory -/
theorem step_ld (QS : QuietSet Q) (s : Sim) (q_s : Q s.dev) (dr : Reg) (off : BitVec 9)
    (hs : s.flags.strict = false) (hp : PSR.privileged s.psr = true) (hpc : s.pc.toNat < IO_START)
    (hd : SimInstr.decode (s.memAt s.pc).data = .ok (.ld dr off))
    (ha : (s.pc + 1 + off.signExtend 16).toNat < IO_START) :
    ∃ t, Sim.step s = (.ok (), t) ∧ t.pc = s.pc + 1 ∧ t.reg dr = s.memAt (s.pc + 1 + off.signExtend 16) ∧
      (∀ r, r ≠ dr → t.reg r = s.reg r) ∧
      t.psr = ccOf s.psr (s.memAt (s.pc + 1 + off.signExtend 16)).data ∧ t.dev = s.dev ∧
      ctl t = ctl s ∧ t.mem = s.mem ∧ Q t.dev := by
  have hx := C08.exec_ld (fetched s) dr off hs
  have ha' : ((fetched s).pc + off.signExtend 16).toNat < IO_START := ha
  rw [Sim.readMem_plain_eq _ _ _ (Or.inl (priv_ctx (s := fetched s) hp)) ha' rfl] at hx
  refine ⟨_, step_of_exec QS s _ _ hs hp hpc hd q_s hx, rfl, ?_, ?_, rfl, rfl, rfl, rfl, q_s⟩
  · show (Sim.setReg _ dr _).reg dr = _
    rw [Sim.reg_setReg, if_pos rfl]; rfl
  · intro r hr
    show (Sim.setReg _ dr _).reg r = _
    rw [Sim.reg_setReg, if_neg (Ne.symm hr)]; rfl

/-- one supervisor step: `AND dr, sr, op2` (data path) -/
theorem step_and (QS : QuietSet Q) (s : Sim) (q_s : Q s.dev) (dr sr : Reg) (op2 : ImmOrReg 5)
    (hs : s.flags.strict = false) (hp : PSR.privileged s.psr = true) (hpc : s.pc.toNat < IO_START)
    (hd : SimInstr.decode (s.memAt s.pc).data = .ok (.and dr sr op2)) :
    ∃ t, Sim.step s = (.ok (), t) ∧ t.pc = s.pc + 1 ∧ (t.reg dr).data = (s.reg sr).data &&& (s.operand2 op2).data ∧
      (∀ r, r ≠ dr → t.reg r = s.reg r) ∧ t.psr = ccOf s.psr ((s.reg sr).data &&& (s.operand2 op2).data) ∧
      t.dev = s.dev ∧ ctl t = ctl s ∧ t.mem = s.mem ∧ Q t.dev := by
  have hx := C08.exec_and (fetched s) dr sr op2 hs
  refine ⟨_, step_of_exec QS s _ _ hs hp hpc hd q_s hx, rfl, ?_, ?_, rfl, rfl, rfl, rfl, q_s⟩
  · show ((Sim.setReg (fetched s) dr _).reg dr).data = _
    rw [Sim.reg_setReg, if_pos rfl]; rfl
  · intro r hr
    show (Sim.setReg (fetched s) dr _).reg r = _
    rw [Sim.reg_setReg, if_neg (Ne.symm hr)]; rfl

/-- one supervisor step: `ADD dr, sr1, sr2` (register operand, data path) -/
theorem step_add_reg (QS : QuietSet Q) (s : Sim) (q_s : Q s.dev) (dr sr1 sr2 : Reg)
    (hs : s.flags.strict = false) (hp : PSR.privileged s.psr = true) (hpc : s.pc.toNat < IO_START)
    (hd : SimInstr.decode (s.memAt s.pc).data = .ok (.add dr sr1 (.reg sr2))) :
    ∃ t, Sim.step s = (.ok (), t) ∧ t.pc = s.pc + 1 ∧ (t.reg dr).data = (s.reg sr1).data + (s.reg sr2).data ∧
      (∀ r, r ≠ dr → t.reg r = s.reg r) ∧ t.psr = ccOf s.psr ((s.reg sr1).data + (s.reg sr2).data) ∧
      t.dev = s.dev ∧ ctl t = ctl s ∧ t.mem = s.mem ∧ Q t.dev := by
  have hx := C08.exec_add (fetched s) dr sr1 (.reg sr2) hs
  have hdat : (Word.add ((fetched s).reg sr1) ((fetched s).operand2 (.reg sr2))).data =
      (s.reg sr1).data + (s.reg sr2).data := by rw [C08.add_data]; rfl
  refine ⟨_, step_of_exec QS s _ _ hs hp hpc hd q_s hx, rfl, ?_, ?_, ?_, rfl, rfl, rfl, q_s⟩
  · show ((Sim.setReg (fetched s) dr _).reg dr).data = _
    rw [Sim.reg_setReg, if_pos rfl, hdat]
  · intro r hr
    show (Sim.setReg (fetched s) dr _).reg r = _
    rw [Sim.reg_setReg, if_neg (Ne.symm hr)]; rfl
  · show PSR.setCC (fetched s).psr _ = _
    rw [hdat]; rfl

/-! ### PUTSP -/

theorem add_m1 (a : W) : a + 0xFFFF = a - 1 := by bv_omega
theorem add_1_1 (a : W) : a + 1 + 1 = a + 2 := by bv_omega
theorem lt_succ_io {a : W} (h : a.toNat + 1 < IO_START) : (a + 1).toNat < IO_START := by
  unfold IO_START at *; bv_omega


theorem sup_ccOf (p v : W) : PSR.privileged (ccOf p v) = PSR.privileged p := by rw [ccOf, PSR.privileged_setCC]
theorem prio_ccOf (p v : W) : PSR.priority (ccOf p v) = PSR.priority p := by rw [ccOf, PSR.priority_setCC]

theorem brnz_ccOf (p v : W) : (((6 : BitVec 3).setWidth 16) &&& PSR.cc (ccOf p v) ≠ 0) ↔ (v.msb = true ∨ v = 0) := by
  unfold ccOf
  cases hm : v.msb
  · by_cases hz : v = 0
    · simp only [hz, if_true, Bool.false_eq_true, if_false, PSR.cc_setCC_z]; decide
    · simp only [hz, Bool.false_eq_true, if_false, cc_setCC_p, or_self, iff_false]; decide
  · simp only [if_true, cc_setCC_n, true_or, iff_true]; decide

/-- the high byte by eight rounds of "shift R0 left, bring in the top bit of R2, shift R2 left" -/
def shiftRound (p : W × W) : W × W := (p.1 + p.1 + (if p.2.msb then 1 else 0), p.2 + p.2)

theorem round_k (w : W) (k : Nat) (hk : k < 8) :
    shiftRound (w >>> (16 - k), w <<< k) = (w >>> (16 - (k + 1)), w <<< (k + 1)) := by
  have h : k = 0 ∨ k = 1 ∨ k = 2 ∨ k = 3 ∨ k = 4 ∨ k = 5 ∨ k = 6 ∨ k = 7 := by omega
  unfold shiftRound
  rcases h with h | h | h | h | h | h | h | h <;> subst h <;>
    (refine Prod.ext ?_ ?_
     · simp only
       split
       · rename_i hm
         rw [BitVec.msb_eq_decide] at hm
         simp only [decide_eq_true_eq] at hm
         bv_omega
       · rename_i hm
         rw [BitVec.msb_eq_decide] at hm
         simp only [decide_eq_true_eq] at hm
         bv_omega
     · bv_omega)

def rounds : Nat → W × W → W × W
  | 0, p => p
  | n + 1, p => rounds n (shiftRound p)

theorem rounds_k (w : W) (n : Nat) : ∀ k, k + n ≤ 8 →
    rounds n (w >>> (16 - k), w <<< k) = (w >>> (16 - (k + n)), w <<< (k + n)) := by
  induction n with
  | zero => intro k _; rfl
  | succ m ih =>
    intro k hk
    show rounds m (shiftRound _) = _
    rw [round_k w k (by omega), ih (k + 1) (by omega)]
    rw [show k + 1 + m = k + (m + 1) from by omega]

theorem eight_rounds (w : W) : (rounds 8 (0, w)).1 = w >>> 8 := by
  have h0 : ((0 : W), w) = (w >>> (16 - 0), w <<< 0) := by
    refine Prod.ext ?_ ?_ <;> (simp only; bv_omega)
  rw [h0, rounds_k w 8 0 (by omega)]

theorem chkPutsp_spec {a : Nat} (h : chkPutsp a = true) :
    ∃ om oe ox os ol oe2 ol2,
      dec a = some (.add 6 6 (.imm 0x1F)) ∧ dec (a + 1) = some (.str 0 6 0) ∧
      dec (a + 2) = some (.add 6 6 (.imm 0x1F)) ∧ dec (a + 3) = some (.str 1 6 0) ∧
      dec (a + 4) = some (.add 6 6 (.imm 0x1F)) ∧ dec (a + 5) = some (.str 2 6 0) ∧
      dec (a + 6) = some (.add 6 6 (.imm 0x1F)) ∧ dec (a + 7) = some (.str 3 6 0) ∧
      dec (a + 8) = some (.add 1 0 (.imm 0)) ∧
      (dec (a + 9) = some (.ldr 2 1 0) ∧ dec (a + 10) = some (.ld 0 om) ∧ dec (a + 11) = some (.and 0 2 (.reg 0)) ∧
       dec (a + 12) = some (.br 2 oe) ∧ dec (a + 13) = some (.trap 0x21) ∧
       osWord (rel9 (a + 10) om) = some 0x00FF ∧ rel9 (a + 12) oe = a + 31) ∧
      (dec (a + 14) = some (.and 0 0 (.imm 0)) ∧ dec (a + 15) = some (.and 3 3 (.imm 0)) ∧
       dec (a + 16) = some (.add 3 3 (.imm 8)) ∧ dec (a + 17) = some (.add 3 3 (.imm 0)) ∧
       dec (a + 18) = some (.br 6 ox) ∧ dec (a + 19) = some (.add 0 0 (.reg 0)) ∧ rel9 (a + 18) ox = a + 26) ∧
      (dec (a + 20) = some (.add 2 2 (.imm 0)) ∧ dec (a + 21) = some (.br 3 os) ∧ dec (a + 22) = some (.add 0 0 (.imm 1)) ∧
       dec (a + 23) = some (.add 2 2 (.reg 2)) ∧ dec (a + 24) = some (.add 3 3 (.imm 0x1F)) ∧
       dec (a + 25) = some (.br 7 ol) ∧ rel9 (a + 21) os = a + 23 ∧ rel9 (a + 25) ol = a + 17) ∧
      (dec (a + 26) = some (.add 0 0 (.imm 0)) ∧ dec (a + 27) = some (.br 2 oe2) ∧ dec (a + 28) = some (.trap 0x21) ∧
       dec (a + 29) = some (.add 1 1 (.imm 1)) ∧ dec (a + 30) = some (.br 7 ol2) ∧
       rel9 (a + 27) oe2 = a + 31 ∧ rel9 (a + 30) ol2 = a + 9) ∧
      (dec (a + 31) = some (.ldr 3 6 0) ∧ dec (a + 32) = some (.add 6 6 (.imm 1)) ∧ dec (a + 33) = some (.ldr 2 6 0) ∧
       dec (a + 34) = some (.add 6 6 (.imm 1)) ∧ dec (a + 35) = some (.ldr 1 6 0) ∧ dec (a + 36) = some (.add 6 6 (.imm 1)) ∧
       dec (a + 37) = some (.ldr 0 6 0) ∧ dec (a + 38) = some (.add 6 6 (.imm 1)) ∧ dec (a + 39) = some .rti) := by
  unfold chkPutsp at h
  simp only [Bool.and_eq_true] at h
  obtain ⟨⟨⟨⟨⟨ha, hb⟩, hc⟩, hd⟩, he⟩, hf⟩ := h
  split at ha
  · rename_i a0 a1 a2 a3 a4 a5 a6 a7 a8
    split at hb
    · rename_i om oe b0 b1 b2 b3 b4
      split at hc
      · rename_i ox c0 c1 c2 c3 c4 c5
        split at hd
        · rename_i os ol d0 d1 d2 d3 d4 d5
          split at he
          · rename_i oe2 ol2 e0 e1 e2 e3 e4
            split at hf
            · rename_i f0 f1 f2 f3 f4 f5 f6 f7 f8
              simp only [Bool.and_eq_true, beq_iff_eq] at hb hc hd he
              exact ⟨om, oe, ox, os, ol, oe2, ol2, a0, a1, a2, a3, a4, a5, a6, a7, a8,
                ⟨b0, b1, b2, b3, b4, hb.1, hb.2⟩, ⟨c0, c1, c2, c3, c4, c5, hc⟩, ⟨d0, d1, d2, d3, d4, d5, hd.1, hd.2⟩,
                ⟨e0, e1, e2, e3, e4, he.1, he.2⟩, ⟨f0, f1, f2, f3, f4, f5, f6, f7, f8⟩⟩
            · cases hf
          · cases he
        · cases hd
      · cases hc
    · cases hb
  · cases ha

/-- `ADD R6,R6,#-1 ; STR k,R6,#0` -/
theorem push_reg (QS : QuietSet Q) (y : Sim) (k : Reg) (hk : k ≠ 6) (hy : InOsQ Q y) (hpc : y.pc.toNat + 1 < IO_START)
    (hd0 : SimInstr.decode (y.memAt y.pc).data = .ok (.add 6 6 (.imm 0x1F)))
    (hd1 : SimInstr.decode (y.memAt (y.pc + 1)).data = .ok (.str k 6 0))
    (hc : 767 ≤ ((y.reg R6).data - 1).toNat ∧ ((y.reg R6).data - 1).toNat < IO_START) :
    ∃ t, feN 2 y = (.ok (), t) ∧ InOsQ Q t ∧ t.pc = y.pc + 2 ∧ (t.reg R6).data = (y.reg R6).data - 1 ∧
      t.memAt ((y.reg R6).data - 1) = y.reg k ∧ (∀ a, a ≠ (y.reg R6).data - 1 → t.memAt a = y.memAt a) ∧
      (∀ r, r ≠ R6 → t.reg r = y.reg r) ∧ t.dev = y.dev ∧ ctl t = ctl y ∧
      PSR.priority t.psr = PSR.priority y.psr := by
  obtain ⟨t1, f1, pc1, r61, ro1, psr1, dev1, ctl1, mem1, q_t1⟩ := step_add_imm QS y hy.q 6 6 0x1F hy.nonstrict hy.sup (by omega) hd0
  have sup1 : PSR.privileged t1.psr = true := by rw [psr1, sup_ccOf]; exact hy.sup
  have in1 : InOs t1 := hy.toInOs.step (fun a _ => by rw [Sim.memAt, mem1]) ctl1 sup1
  have sp1 : (t1.reg 6).data = (y.reg R6).data - 1 := by
    rw [r61, sext_m1]; show (y.reg R6).data + 0xFFFF = _; exact add_m1 _
  have ea1 : (t1.reg 6).data + (0 : BitVec 6).signExtend 16 = (y.reg R6).data - 1 := by
    rw [sext_0, sp1]; exact BitVec.add_zero _
  obtain ⟨t2, f2, pc2, r2, psr2, dev2, ctl2, cell2, mem2, q_t2⟩ := step_str QS t1 q_t1 k 6 0 in1.nonstrict sup1
    (by rw [pc1]; exact lt_succ_io hpc) (by rw [pc1, Sim.memAt, mem1]; exact hd1) (by rw [ea1]; exact hc.2)
  rw [ea1] at cell2 mem2
  have regs2 : ∀ r, t2.reg r = t1.reg r := fun r => by show t2.regs[r.toNat] = _; rw [r2]
  have sup2 : PSR.privileged t2.psr = true := by rw [psr2]; exact sup1
  have m2 : ∀ a : W, a ≠ (y.reg R6).data - 1 → t2.memAt a = y.memAt a := by
    intro a hne; rw [mem2 a hne, Sim.memAt, mem1]
  refine ⟨t2, by rw [feN_succ 1 f1, feN_succ 0 f2]; rfl,
    ⟨hy.toInOs.of_cell _ hc.1 (fun a _ hne => m2 a hne) (ctl2.trans ctl1) sup2, q_t2⟩, by rw [pc2, pc1]; exact add_1_1 _,
    by rw [regs2]; exact sp1, by rw [cell2, ro1 k hk], m2, fun r hr => by rw [regs2, ro1 r hr],
    by rw [dev2, dev1], ctl2.trans ctl1, by rw [psr2, psr1, prio_ccOf]⟩

/-- `LDR k,R6,#0 ; ADD R6,R6,#1` -/
theorem pop_reg (QS : QuietSet Q) (y : Sim) (k : Reg) (hk : k ≠ 6) (hy : InOsQ Q y) (hpc : y.pc.toNat + 1 < IO_START)
    (hd0 : SimInstr.decode (y.memAt y.pc).data = .ok (.ldr k 6 0))
    (hd1 : SimInstr.decode (y.memAt (y.pc + 1)).data = .ok (.add 6 6 (.imm 1)))
    (hc : ((y.reg R6).data).toNat < IO_START) :
    ∃ t, feN 2 y = (.ok (), t) ∧ InOsQ Q t ∧ t.pc = y.pc + 2 ∧ (t.reg R6).data = (y.reg R6).data + 1 ∧
      t.reg k = y.memAt (y.reg R6).data ∧ t.mem = y.mem ∧
      (∀ r, r ≠ R6 → r ≠ k → t.reg r = y.reg r) ∧ t.dev = y.dev ∧ ctl t = ctl y ∧
      PSR.priority t.psr = PSR.priority y.psr := by
  have ea : (y.reg 6).data + (0 : BitVec 6).signExtend 16 = (y.reg R6).data := by
    rw [sext_0]; exact BitVec.add_zero _
  obtain ⟨t1, f1, pc1, rk1, ro1, psr1, dev1, ctl1, mem1, q_t1⟩ := step_ldr QS y hy.q k 6 0 hy.nonstrict hy.sup (by omega) hd0
    (by rw [ea]; exact hc)
  rw [ea] at rk1
  have sup1 : PSR.privileged t1.psr = true := by rw [psr1, sup_ccOf]; exact hy.sup
  have in1 : InOs t1 := hy.toInOs.step (fun a _ => by rw [Sim.memAt, mem1]) ctl1 sup1
  obtain ⟨t2, f2, pc2, r62, ro2, psr2, dev2, ctl2, mem2, q_t2⟩ := step_add_imm QS t1 q_t1 6 6 1 in1.nonstrict sup1
    (by rw [pc1]; exact lt_succ_io hpc) (by rw [pc1, Sim.memAt, mem1]; exact hd1)
  have sup2 : PSR.privileged t2.psr = true := by rw [psr2, sup_ccOf]; exact sup1
  refine ⟨t2, by rw [feN_succ 1 f1, feN_succ 0 f2]; rfl,
    ⟨in1.step (fun a _ => by rw [Sim.memAt, mem2]) ctl2 sup2, q_t2⟩, by rw [pc2, pc1]; exact add_1_1 _, ?_,
    by rw [ro2 k hk]; exact rk1, by rw [mem2, mem1], fun r h6 hk' => by rw [ro2 r h6, ro1 r hk'],
    by rw [dev2, dev1], ctl2.trans ctl1, by rw [psr2, prio_ccOf, psr1, prio_ccOf]⟩
  show (t2.reg 6).data = _
  rw [r62, sext_1, ro1 6 (Ne.symm hk)]; rfl


theorem OsLoaded.decodeAt {s : Sim} (h : OsLoaded s) {a : Nat} {i : SimInstr} (hd : dec a = some i) :
    SimInstr.decode (s.memAt (BitVec.ofNat 16 a)).data = .ok i ∧ a < 767 := by
  obtain ⟨w, hw, hdw⟩ := dec_spec hd
  rw [h a w hw]; exact ⟨hdw, osWord_lt hw⟩

/-- two consecutive OS instruction cells at the PC -/
theorem OsLoaded.decode2 {s : Sim} (h : OsLoaded s) {a : Nat} {i j : SimInstr} (hd : dec a = some i)
    (hd' : dec (a + 1) = some j) (hpc : s.pc = BitVec.ofNat 16 a) :
    SimInstr.decode (s.memAt s.pc).data = .ok i ∧ SimInstr.decode (s.memAt (s.pc + 1)).data = .ok j ∧
      s.pc.toNat + 1 < IO_START := by
  obtain ⟨d1, l1⟩ := h.decodeAt hd
  obtain ⟨d2, l2⟩ := h.decodeAt hd'
  rw [hpc, ofNat_succ]
  refine ⟨d1, d2, ?_⟩
  rw [BitVec.toNat_ofNat]; unfold IO_START; omega

def Cells7x (xsp a : W) : Prop :=
  a = xsp - 1 ∨ a = xsp - 2 ∨ a = xsp - 3 ∨ a = xsp - 4 ∨ a = xsp - 5 ∨ a = xsp - 6 ∨ a = xsp - 7

def CellOk (c : W) : Prop := 767 ≤ c.toNat ∧ c.toNat < IO_START

def Cells7Ok (xsp : W) : Prop :=
  CellOk (xsp - 1) ∧ CellOk (xsp - 2) ∧ CellOk (xsp - 3) ∧ CellOk (xsp - 4) ∧ CellOk (xsp - 5) ∧ CellOk (xsp - 6) ∧
  CellOk (xsp - 7)

/-- inside PUTSP, relative to the routine's entry state `x`: R0-R3 saved below the entry R6, R1 = string pointer `q`;
    R0, R2, R3 are scratch -/
structure PIn (Q : DevHandler → Prop) (x y : Sim) (q : W) : Prop where
  inos : InOsQ Q y
  sp : (y.reg R6).data = (x.reg R6).data - 4
  c0 : y.memAt ((x.reg R6).data - 1) = x.reg 0
  c1 : y.memAt ((x.reg R6).data - 2) = x.reg 1
  c2 : y.memAt ((x.reg R6).data - 3) = x.reg 2
  c3 : y.memAt ((x.reg R6).data - 4) = x.reg 3
  r1 : (y.reg 1).data = q
  regs : ∀ r, r ≠ 0 → r ≠ 1 → r ≠ 2 → r ≠ 3 → r ≠ R6 → y.reg r = x.reg r
  ctl : ctl y = ctl x
  mem : ∀ a : W, a.toNat < IO_START → ¬ Cells7x (x.reg R6).data a → y.memAt a = x.memAt a
  prio : PSR.priority y.psr = PSR.priority x.psr

/-- a step inside PUTSP that touches only the scratch registers R0, R2, R3 and the condition codes -/
structure Scr (y t : Sim) : Prop where
  dev : t.dev = y.dev
  ctl : ctl t = ctl y
  mem : t.mem = y.mem
  regs : ∀ r, r ≠ 0 → r ≠ 2 → r ≠ 3 → t.reg r = y.reg r
  sup : PSR.privileged t.psr = true
  prio : PSR.priority t.psr = PSR.priority y.psr

theorem Scr.trans {a b c : Sim} (h1 : Scr a b) (h2 : Scr b c) : Scr a c :=
  ⟨h2.dev.trans h1.dev, h2.ctl.trans h1.ctl, h2.mem.trans h1.mem,
   fun r n0 n2 n3 => (h2.regs r n0 n2 n3).trans (h1.regs r n0 n2 n3), h2.sup, h2.prio.trans h1.prio⟩

theorem PIn.scr {x y t : Sim} {q : W} (h : PIn Q x y q) (s : Scr y t) : PIn Q x t q := by
  have hm : ∀ a, t.memAt a = y.memAt a := fun a => by rw [Sim.memAt, s.mem]
  exact ⟨h.inos.step' (fun a _ => hm a) s.ctl s.sup s.dev, by rw [s.regs R6 (by decide) (by decide) (by decide)]; exact h.sp,
    by rw [hm]; exact h.c0, by rw [hm]; exact h.c1, by rw [hm]; exact h.c2, by rw [hm]; exact h.c3,
    by rw [s.regs 1 (by decide) (by decide) (by decide)]; exact h.r1,
    fun r n0 n1 n2 n3 n6 => by rw [s.regs r n0 n2 n3]; exact h.regs r n0 n1 n2 n3 n6,
    s.ctl.trans h.ctl, fun a ha hc => by rw [hm]; exact h.mem a ha hc, s.prio.trans h.prio⟩


/-- `step_br` with the memory unchanged as an equation -/
theorem step_br' (QS : QuietSet Q) (s : Sim) (q_s : Q s.dev) (cc : BitVec 3) (off : BitVec 9)
    (hs : s.flags.strict = false) (hp : PSR.privileged s.psr = true) (hpc : s.pc.toNat < IO_START)
    (hd : SimInstr.decode (s.memAt s.pc).data = .ok (.br cc off)) :
    ∃ t, Sim.step s = (.ok (), t) ∧
      t.pc = (if (cc.setWidth 16 &&& PSR.cc s.psr) ≠ 0 then s.pc + 1 + off.signExtend 16 else s.pc + 1) ∧
      t.regs = s.regs ∧ t.psr = s.psr ∧ t.dev = s.dev ∧ ctl t = ctl s ∧ t.mem = s.mem ∧ Q t.dev := by
  have hx := C08.exec_br (fetched s) cc off hs
  have hcc : PSR.cc (fetched s).psr = PSR.cc s.psr := rfl
  refine ⟨_, step_of_exec QS s _ _ hs hp hpc hd q_s hx, ?_⟩
  rw [hcc]
  by_cases hb : (cc.setWidth 16 &&& PSR.cc s.psr) ≠ 0
  · simp only [if_pos hb]; exact ⟨rfl, rfl, rfl, rfl, rfl, rfl, q_s⟩
  · simp only [if_neg hb]; exact ⟨rfl, rfl, rfl, rfl, rfl, rfl, q_s⟩

theorem Scr.of {y t : Sim} (dr : Reg) (hdr : dr = 0 ∨ dr = 2 ∨ dr = 3) (hsup : PSR.privileged y.psr = true) (v : W)
    (ro : ∀ r, r ≠ dr → t.reg r = y.reg r) (psr : t.psr = ccOf y.psr v) (dev : t.dev = y.dev)
    (ctl : Rt.ctl t = Rt.ctl y) (mem : t.mem = y.mem) : Scr y t :=
  ⟨dev, ctl, mem, fun r n0 n2 n3 => ro r (by rcases hdr with h | h | h <;> (rw [h]; assumption)),
   by rw [psr, sup_ccOf]; exact hsup, by rw [psr, prio_ccOf]⟩

theorem Scr.of_br {y t : Sim} (hsup : PSR.privileged y.psr = true) (regs : t.regs = y.regs) (psr : t.psr = y.psr)
    (dev : t.dev = y.dev) (ctl : Rt.ctl t = Rt.ctl y) (mem : t.mem = y.mem) : Scr y t :=
  ⟨dev, ctl, mem, fun r _ _ _ => by show t.regs[r.toNat] = _; rw [regs], by rw [psr]; exact hsup, by rw [psr]⟩

theorem Scr.refl (y : Sim) (h : PSR.privileged y.psr = true) : Scr y y := ⟨rfl, rfl, rfl, fun _ _ _ _ => rfl, h, rfl⟩


theorem InOsQ.scr {y t : Sim} (h : InOsQ Q y) (s : Scr y t) : InOsQ Q t :=
  ⟨h.toInOs.step (fun a _ => by rw [Sim.memAt, s.mem]) s.ctl s.sup, by rw [s.dev]; exact h.q⟩

/-! one-step wrappers for an instruction cell of the OS image at the PC -/

theorem os_add_imm (QS : QuietSet Q) {y : Sim} (hy : InOsQ Q y) {n : Nat} (hpc : y.pc = BitVec.ofNat 16 n) {dr sr : Reg} {imm : BitVec 5}
    (hd : dec n = some (.add dr sr (.imm imm))) :
    ∃ t, Sim.step y = (.ok (), t) ∧ t.pc = BitVec.ofNat 16 (n + 1) ∧
      (t.reg dr).data = (y.reg sr).data + imm.signExtend 16 ∧ (∀ r, r ≠ dr → t.reg r = y.reg r) ∧
      t.psr = ccOf y.psr ((y.reg sr).data + imm.signExtend 16) ∧ t.dev = y.dev ∧ ctl t = ctl y ∧ t.mem = y.mem := by
  obtain ⟨hdd, l⟩ := hy.os.decode hd hpc
  obtain ⟨t, f, pc, a1, a2, a3, a4, a5, a6, q_t⟩ := step_add_imm QS y hy.q dr sr imm hy.nonstrict hy.sup (by unfold IO_START; omega) hdd
  exact ⟨t, f, by rw [pc, hpc, ofNat_succ], a1, a2, a3, a4, a5, a6⟩

theorem os_add_reg (QS : QuietSet Q) {y : Sim} (hy : InOsQ Q y) {n : Nat} (hpc : y.pc = BitVec.ofNat 16 n) {dr sr1 sr2 : Reg}
    (hd : dec n = some (.add dr sr1 (.reg sr2))) :
    ∃ t, Sim.step y = (.ok (), t) ∧ t.pc = BitVec.ofNat 16 (n + 1) ∧
      (t.reg dr).data = (y.reg sr1).data + (y.reg sr2).data ∧ (∀ r, r ≠ dr → t.reg r = y.reg r) ∧
      t.psr = ccOf y.psr ((y.reg sr1).data + (y.reg sr2).data) ∧ t.dev = y.dev ∧ ctl t = ctl y ∧ t.mem = y.mem := by
  obtain ⟨hdd, l⟩ := hy.os.decode hd hpc
  obtain ⟨t, f, pc, a1, a2, a3, a4, a5, a6, q_t⟩ := step_add_reg QS y hy.q dr sr1 sr2 hy.nonstrict hy.sup (by unfold IO_START; omega) hdd
  exact ⟨t, f, by rw [pc, hpc, ofNat_succ], a1, a2, a3, a4, a5, a6⟩

theorem os_and (QS : QuietSet Q) {y : Sim} (hy : InOsQ Q y) {n : Nat} (hpc : y.pc = BitVec.ofNat 16 n) {dr sr : Reg} {op2 : ImmOrReg 5}
    (hd : dec n = some (.and dr sr op2)) :
    ∃ t, Sim.step y = (.ok (), t) ∧ t.pc = BitVec.ofNat 16 (n + 1) ∧
      (t.reg dr).data = (y.reg sr).data &&& (y.operand2 op2).data ∧ (∀ r, r ≠ dr → t.reg r = y.reg r) ∧
      t.psr = ccOf y.psr ((y.reg sr).data &&& (y.operand2 op2).data) ∧ t.dev = y.dev ∧ ctl t = ctl y ∧
      t.mem = y.mem := by
  obtain ⟨hdd, l⟩ := hy.os.decode hd hpc
  obtain ⟨t, f, pc, a1, a2, a3, a4, a5, a6, q_t⟩ := step_and QS y hy.q dr sr op2 hy.nonstrict hy.sup (by unfold IO_START; omega) hdd
  exact ⟨t, f, by rw [pc, hpc, ofNat_succ], a1, a2, a3, a4, a5, a6⟩

theorem os_br (QS : QuietSet Q) {y : Sim} (hy : InOsQ Q y) {n : Nat} (hpc : y.pc = BitVec.ofNat 16 n) {cc : BitVec 3} {off : BitVec 9}
    (hd : dec n = some (.br cc off)) :
    ∃ t, Sim.step y = (.ok (), t) ∧
      t.pc = (if (cc.setWidth 16 &&& PSR.cc y.psr) ≠ 0 then BitVec.ofNat 16 (rel9 n off) else BitVec.ofNat 16 (n + 1)) ∧
      t.regs = y.regs ∧ t.psr = y.psr ∧ t.dev = y.dev ∧ ctl t = ctl y ∧ t.mem = y.mem := by
  obtain ⟨hdd, l⟩ := hy.os.decode hd hpc
  obtain ⟨t, f, pc, a1, a2, a3, a4, a5, q_t⟩ := step_br' QS y hy.q cc off hy.nonstrict hy.sup (by unfold IO_START; omega) hdd
  refine ⟨t, f, ?_, a1, a2, a3, a4, a5⟩
  rw [pc, hpc, ofNat_succ, ofNat_rel9]

theorem regs_eq {y t : Sim} (h : t.regs = y.regs) (r : Reg) : t.reg r = y.reg r := by
  show t.regs[r.toNat] = _; rw [h]


/-- PC and the three scratch registers inside PUTSP -/
def AtP (y : Sim) (n : Nat) (r0 r2 r3 : W) : Prop :=
  y.pc = BitVec.ofNat 16 (vec 0x24 + n) ∧ (y.reg 0).data = r0 ∧ (y.reg 2).data = r2 ∧ (y.reg 3).data = r3

theorem sext5_0 : (0 : BitVec 5).signExtend 16 = 0 := by decide
theorem add_zero' (a : W) : a + 0 = a := BitVec.add_zero a

/-- one round of PUTSP's shift loop (counter positive) -/
theorem shift_round (QS : QuietSet Q) (y : Sim) (hy : InOsQ Q y) (r0 r2 r3 : W) (hat : AtP y 17 r0 r2 r3)
    (hpos : r3.msb = false) (hnz : r3 ≠ 0) :
    ∃ k t, feN k y = (.ok (), t) ∧ Scr y t ∧
      AtP t 17 (shiftRound (r0, r2)).1 (shiftRound (r0, r2)).2 (r3 - 1) := by
  obtain ⟨om, oe, ox, os, ol, oe2, ol2, _, _, _, _, _, _, _, _, _, _, ⟨_, _, _, c3, c4, c5, hox⟩,
    ⟨d0, d1, d2, d3, d4, d5, hos, hol⟩, _, _⟩ := chkPutsp_spec putsp_listing
  obtain ⟨hpc, h0, h2, h3⟩ := hat
  -- a+17: ADD R3,R3,#0
  obtain ⟨t1, f1, pc1, r31, ro1, psr1, dev1, ctl1, mem1⟩ := os_add_imm QS hy hpc c3
  have s1 : Scr y t1 := Scr.of 3 (by decide) hy.sup _ ro1 psr1 dev1 ctl1 mem1
  rw [sext5_0, add_zero', h3] at r31 psr1
  have i1 := hy.scr s1
  -- a+18: BRnz (not taken)
  obtain ⟨t2, f2, pc2, r2', psr2, dev2, ctl2, mem2⟩ := os_br QS i1 pc1 c4
  have nt : ¬ (((6 : BitVec 3).setWidth 16) &&& PSR.cc t1.psr) ≠ 0 := by
    rw [psr1, brnz_ccOf]; intro h; rcases h with h | h
    · rw [hpos] at h; cases h
    · exact hnz h
  rw [if_neg nt] at pc2
  have s2 : Scr t1 t2 := Scr.of_br i1.sup r2' psr2 dev2 ctl2 mem2
  have i2 := i1.scr s2
  -- a+19: ADD R0,R0,R0
  obtain ⟨t3, f3, pc3, r03, ro3, psr3, dev3, ctl3, mem3⟩ := os_add_reg QS i2 pc2 c5
  have s3 : Scr t2 t3 := Scr.of 0 (by decide) i2.sup _ ro3 psr3 dev3 ctl3 mem3
  have i3 := i2.scr s3
  rw [regs_eq r2', ro1 0 (by decide), h0] at r03
  -- a+20: ADD R2,R2,#0
  obtain ⟨t4, f4, pc4, r24, ro4, psr4, dev4, ctl4, mem4⟩ := os_add_imm QS i3 pc3 d0
  have s4 : Scr t3 t4 := Scr.of 2 (by decide) i3.sup _ ro4 psr4 dev4 ctl4 mem4
  have i4 := i3.scr s4
  have e2 : (t3.reg 2).data = r2 := by rw [ro3 2 (by decide), regs_eq r2', ro1 2 (by decide), h2]
  rw [sext5_0, add_zero', e2] at r24 psr4
  -- a+21: BRzp
  obtain ⟨t5, f5, pc5, r5', psr5, dev5, ctl5, mem5⟩ := os_br QS i4 pc4 d1
  have s5 : Scr t4 t5 := Scr.of_br i4.sup r5' psr5 dev5 ctl5 mem5
  have i5 := i4.scr s5
  have s15 : Scr y t5 := s1.trans (s2.trans (s3.trans (s4.trans s5)))
  have e05 : (t5.reg 0).data = r0 + r0 := by rw [regs_eq r5', ro4 0 (by decide)]; exact r03
  have e25 : (t5.reg 2).data = r2 := by rw [regs_eq r5']; exact r24
  have e35 : (t5.reg 3).data = r3 := by
    rw [regs_eq r5', ro4 3 (by decide), ro3 3 (by decide), regs_eq r2']; exact r31
  have f15 : feN 5 y = (.ok (), t5) := by
    rw [feN_succ 4 f1, feN_succ 3 f2, feN_succ 2 f3, feN_succ 1 f4, feN_succ 0 f5]; rfl
  -- the tail a+23 .. a+25 from a state with R0 = v
  have tail : ∀ (u : Sim) (v : W), InOsQ Q u → u.pc = BitVec.ofNat 16 (vec 0x24 + 23) → (u.reg 0).data = v →
      (u.reg 2).data = r2 → (u.reg 3).data = r3 →
      ∃ t, feN 3 u = (.ok (), t) ∧ Scr u t ∧ AtP t 17 v (r2 + r2) (r3 - 1) := by
    intro u v iu upc u0 u2 u3
    obtain ⟨t6, f6, pc6, r26, ro6, psr6, dev6, ctl6, mem6⟩ := os_add_reg QS iu upc d3
    have s6 : Scr u t6 := Scr.of 2 (by decide) iu.sup _ ro6 psr6 dev6 ctl6 mem6
    have i6 := iu.scr s6
    obtain ⟨t7, f7, pc7, r37, ro7, psr7, dev7, ctl7, mem7⟩ := os_add_imm QS i6 pc6 d4
    have s7 : Scr t6 t7 := Scr.of 3 (by decide) i6.sup _ ro7 psr7 dev7 ctl7 mem7
    have i7 := i6.scr s7
    obtain ⟨t8, f8, pc8, r8', psr8, dev8, ctl8, mem8⟩ := os_br QS i7 pc7 d5
    have tk : (((7 : BitVec 3).setWidth 16) &&& PSR.cc t7.psr) ≠ 0 := by rw [psr7]; exact br7_ccOf _ _
    rw [if_pos tk, hol] at pc8
    have s8 : Scr t7 t8 := Scr.of_br i7.sup r8' psr8 dev8 ctl8 mem8
    refine ⟨t8, by rw [feN_succ 2 f6, feN_succ 1 f7, feN_succ 0 f8]; rfl, s6.trans (s7.trans s8), pc8, ?_, ?_, ?_⟩
    · rw [regs_eq r8', ro7 0 (by decide), ro6 0 (by decide)]; exact u0
    · rw [regs_eq r8', ro7 2 (by decide), r26, u2]
    · rw [regs_eq r8', r37, sext_m1, ro6 3 (by decide), u3]; exact add_m1 _
  cases hm : r2.msb
  · -- taken: skip the increment
    have tk : (((3 : BitVec 3).setWidth 16) &&& PSR.cc t4.psr) ≠ 0 := by rw [psr4]; exact (brzp_ccOf _ _).mpr hm
    rw [if_pos tk, hos] at pc5
    obtain ⟨t, ft, st, at'⟩ := tail t5 (r0 + r0) i5 pc5 e05 e25 e35
    refine ⟨5 + 3, t, by rw [feN_add 5 3 f15]; exact ft, s15.trans st, ?_⟩
    simpa [shiftRound, hm] using at'
  · -- not taken: ADD R0,R0,#1
    have ntk : ¬ (((3 : BitVec 3).setWidth 16) &&& PSR.cc t4.psr) ≠ 0 := by
      rw [psr4, brzp_ccOf, hm]; simp
    rw [if_neg ntk] at pc5
    obtain ⟨t6, f6, pc6, r06, ro6, psr6, dev6, ctl6, mem6⟩ := os_add_imm QS i5 pc5 d2
    have s6 : Scr t5 t6 := Scr.of 0 (by decide) i5.sup _ ro6 psr6 dev6 ctl6 mem6
    have i6 := i5.scr s6
    rw [e05, sext_1] at r06
    obtain ⟨t, ft, st, at'⟩ := tail t6 (r0 + r0 + 1) i6 pc6 r06 (by rw [ro6 2 (by decide)]; exact e25)
      (by rw [ro6 3 (by decide)]; exact e35)
    refine ⟨5 + (1 + 3), t, by rw [feN_add 5 _ f15, feN_succ 3 f6]; exact ft, s15.trans (s6.trans st), ?_⟩
    simpa [shiftRound, hm] using at'


/-- leaving the shift loop (counter zero) -/
theorem shift_exit (QS : QuietSet Q) (y : Sim) (hy : InOsQ Q y) (r0 r2 : W) (hat : AtP y 17 r0 r2 0) :
    ∃ t, feN 2 y = (.ok (), t) ∧ Scr y t ∧ AtP t 26 r0 r2 0 := by
  obtain ⟨om, oe, ox, os, ol, oe2, ol2, _, _, _, _, _, _, _, _, _, _, ⟨_, _, _, c3, c4, c5, hox⟩, _, _, _⟩ :=
    chkPutsp_spec putsp_listing
  obtain ⟨hpc, h0, h2, h3⟩ := hat
  obtain ⟨t1, f1, pc1, r31, ro1, psr1, dev1, ctl1, mem1⟩ := os_add_imm QS hy hpc c3
  have s1 : Scr y t1 := Scr.of 3 (by decide) hy.sup _ ro1 psr1 dev1 ctl1 mem1
  rw [sext5_0, add_zero', h3] at r31 psr1
  have i1 := hy.scr s1
  obtain ⟨t2, f2, pc2, r2', psr2, dev2, ctl2, mem2⟩ := os_br QS i1 pc1 c4
  have tk : (((6 : BitVec 3).setWidth 16) &&& PSR.cc t1.psr) ≠ 0 := by
    rw [psr1, brnz_ccOf]; exact Or.inr rfl
  rw [if_pos tk, hox] at pc2
  have s2 : Scr t1 t2 := Scr.of_br i1.sup r2' psr2 dev2 ctl2 mem2
  refine ⟨t2, by rw [feN_succ 1 f1, feN_succ 0 f2]; rfl, s1.trans s2, pc2, ?_, ?_, ?_⟩
  · rw [regs_eq r2', ro1 0 (by decide)]; exact h0
  · rw [regs_eq r2', ro1 2 (by decide)]; exact h2
  · rw [regs_eq r2']; exact r31

theorem small_pos (m : Nat) (h : m + 1 ≤ 8) : (BitVec.ofNat 16 (m + 1)).msb = false ∧ BitVec.ofNat 16 (m + 1) ≠ 0 ∧
    BitVec.ofNat 16 (m + 1) - 1 = BitVec.ofNat 16 m := by
  have hm : m = 0 ∨ m = 1 ∨ m = 2 ∨ m = 3 ∨ m = 4 ∨ m = 5 ∨ m = 6 ∨ m = 7 := by omega
  rcases hm with h | h | h | h | h | h | h | h <;> subst h <;> decide

/-- the whole shift loop from a counter `n ≤ 8` -/
theorem shift_loop (QS : QuietSet Q) (n : Nat) : ∀ (y : Sim) (r0 r2 : W), InOsQ Q y → n ≤ 8 → AtP y 17 r0 r2 (BitVec.ofNat 16 n) →
    ∃ k t, feN k y = (.ok (), t) ∧ Scr y t ∧ AtP t 26 (rounds n (r0, r2)).1 (rounds n (r0, r2)).2 0 := by
  induction n with
  | zero =>
    intro y r0 r2 hy _ hat
    obtain ⟨t, ft, st, at'⟩ := shift_exit QS y hy r0 r2 hat
    exact ⟨2, t, ft, st, at'⟩
  | succ m ih =>
    intro y r0 r2 hy hn hat
    obtain ⟨p1, p2, p3⟩ := small_pos m hn
    obtain ⟨k1, t1, f1, s1, a1⟩ := shift_round QS y hy r0 r2 _ hat p1 p2
    rw [p3] at a1
    obtain ⟨k2, t2, f2, s2, a2⟩ := ih t1 _ _ (hy.scr s1) (by omega) a1
    exact ⟨k1 + k2, t2, by rw [feN_add k1 k2 f1]; exact f2, s1.trans s2, a2⟩


theorem sext5_8 : (8 : BitVec 5).signExtend 16 = 8 := by decide
theorem and_zero' (a : W) : a &&& 0 = 0 := by simp
theorem zero_add' (a : W) : 0 + a = a := by simp

/-- a+14 .. a+26: the high byte of R2 into R0 -/
theorem hi_byte (QS : QuietSet Q) (y : Sim) (hy : InOsQ Q y) (r0 w r3 : W) (hat : AtP y 14 r0 w r3) :
    ∃ (k : Nat) (t : Sim) (r2' : W), feN k y = (.ok (), t) ∧ Scr y t ∧ AtP t 26 (w >>> 8) r2' 0 := by
  obtain ⟨om, oe, ox, os, ol, oe2, ol2, _, _, _, _, _, _, _, _, _, _, ⟨c0, c1, c2, _, _, _, _⟩, _, _, _⟩ :=
    chkPutsp_spec putsp_listing
  obtain ⟨hpc, h0, h2, h3⟩ := hat
  obtain ⟨t1, f1, pc1, r01, ro1, psr1, dev1, ctl1, mem1⟩ := os_and QS hy hpc c0
  have s1 : Scr y t1 := Scr.of 0 (by decide) hy.sup _ ro1 psr1 dev1 ctl1 mem1
  have e01 : (t1.reg 0).data = 0 := by
    rw [r01]; show (y.reg 0).data &&& (0 : BitVec 5).signExtend 16 = 0; rw [sext5_0, and_zero']
  have i1 := hy.scr s1
  obtain ⟨t2, f2, pc2, r32, ro2, psr2, dev2, ctl2, mem2⟩ := os_and QS i1 pc1 c1
  have s2 : Scr t1 t2 := Scr.of 3 (by decide) i1.sup _ ro2 psr2 dev2 ctl2 mem2
  have e32 : (t2.reg 3).data = 0 := by
    rw [r32]; show (t1.reg 3).data &&& (0 : BitVec 5).signExtend 16 = 0; rw [sext5_0, and_zero']
  have i2 := i1.scr s2
  obtain ⟨t3, f3, pc3, r33, ro3, psr3, dev3, ctl3, mem3⟩ := os_add_imm QS i2 pc2 c2
  have s3 : Scr t2 t3 := Scr.of 3 (by decide) i2.sup _ ro3 psr3 dev3 ctl3 mem3
  have i3 := i2.scr s3
  rw [e32, sext5_8, zero_add'] at r33
  have at3 : AtP t3 17 0 w (BitVec.ofNat 16 8) :=
    ⟨pc3, by rw [ro3 0 (by decide), ro2 0 (by decide)]; exact e01,
     by rw [ro3 2 (by decide), ro2 2 (by decide), ro1 2 (by decide)]; exact h2, r33⟩
  obtain ⟨k, t, ft, st, at'⟩ := shift_loop QS 8 t3 0 w i3 (by omega) at3
  rw [eight_rounds] at at'
  refine ⟨3 + k, t, _, ?_, s1.trans (s2.trans (s3.trans st)), at'⟩
  rw [feN_add 3 k (by rw [feN_succ 2 f1, feN_succ 1 f2, feN_succ 0 f3]; rfl)]; exact ft


theorem os_ldr (QS : QuietSet Q) {y : Sim} (hy : InOsQ Q y) {n : Nat} (hpc : y.pc = BitVec.ofNat 16 n) {dr b : Reg}
    (hd : dec n = some (.ldr dr b 0)) (ha : ((y.reg b).data).toNat < IO_START) :
    ∃ t, Sim.step y = (.ok (), t) ∧ t.pc = BitVec.ofNat 16 (n + 1) ∧ t.reg dr = y.memAt (y.reg b).data ∧
      (∀ r, r ≠ dr → t.reg r = y.reg r) ∧ t.psr = ccOf y.psr (y.memAt (y.reg b).data).data ∧ t.dev = y.dev ∧
      ctl t = ctl y ∧ t.mem = y.mem := by
  obtain ⟨hdd, l⟩ := hy.os.decode hd hpc
  have ea : (y.reg b).data + (0 : BitVec 6).signExtend 16 = (y.reg b).data := by rw [sext_0, add_zero']
  obtain ⟨t, f, pc, a1, a2, a3, a4, a5, a6, q_t⟩ := step_ldr QS y hy.q dr b 0 hy.nonstrict hy.sup (by unfold IO_START; omega) hdd
    (by rw [ea]; exact ha)
  rw [ea] at a1 a3
  exact ⟨t, f, by rw [pc, hpc, ofNat_succ], a1, a2, a3, a4, a5, a6⟩

theorem os_ld (QS : QuietSet Q) {y : Sim} (hy : InOsQ Q y) {n : Nat} (hpc : y.pc = BitVec.ofNat 16 n) {dr : Reg} {off : BitVec 9} {v : W}
    (hd : dec n = some (.ld dr off)) (hv : osWord (rel9 n off) = some v) :
    ∃ t, Sim.step y = (.ok (), t) ∧ t.pc = BitVec.ofNat 16 (n + 1) ∧ t.reg dr = Word.ofData v ∧
      (∀ r, r ≠ dr → t.reg r = y.reg r) ∧ t.psr = ccOf y.psr v ∧ t.dev = y.dev ∧
      ctl t = ctl y ∧ t.mem = y.mem := by
  obtain ⟨hdd, l⟩ := hy.os.decode hd hpc
  have ea : y.pc + 1 + off.signExtend 16 = BitVec.ofNat 16 (rel9 n off) := by rw [hpc, ofNat_succ, ofNat_rel9]
  have hl := osWord_lt hv
  obtain ⟨t, f, pc, a1, a2, a3, a4, a5, a6, q_t⟩ := step_ld QS y hy.q dr off hy.nonstrict hy.sup (by unfold IO_START; omega) hdd
    (by rw [ea, BitVec.toNat_ofNat]; unfold IO_START; omega)
  rw [ea, hy.os _ _ hv] at a1 a3
  exact ⟨t, f, by rw [pc, hpc, ofNat_succ], a1, a2, a3, a4, a5, a6⟩

theorem sub4k (a : W) : a - 4 - 1 = a - 5 ∧ a - 4 - 2 = a - 6 ∧ a - 4 - 3 = a - 7 := by
  refine ⟨?_, ?_, ?_⟩ <;> bv_omega

theorem cell7_ne (a : W) : a - 1 ≠ a - 5 ∧ a - 1 ≠ a - 6 ∧ a - 1 ≠ a - 7 ∧ a - 2 ≠ a - 5 ∧ a - 2 ≠ a - 6 ∧ a - 2 ≠ a - 7 ∧
    a - 3 ≠ a - 5 ∧ a - 3 ≠ a - 6 ∧ a - 3 ≠ a - 7 ∧ a - 4 ≠ a - 5 ∧ a - 4 ≠ a - 6 ∧ a - 4 ≠ a - 7 := by
  refine ⟨?_, ?_, ?_, ?_, ?_, ?_, ?_, ?_, ?_, ?_, ?_, ?_⟩ <;> (intro e; bv_omega)

/-- a nested `TRAP x21` inside PUTSP: emits R0, keeps everything PUTSP relies on -/
theorem pin_out (QS : QuietSet Q) (x y : Sim) (q : W) (hy : PIn Q x y q) (hc : Cells7Ok (x.reg R6).data) (n : Nat)
    (hpc : y.pc = BitVec.ofNat 16 (vec 0x24 + n)) (hd : dec (vec 0x24 + n) = some (.trap 0x21))
    (l1 : y.iregLookup 0xFE04 = none) (l2 : y.iregLookup 0xFE06 = none)
    (np : Nat) (st : W) (ok : Bool) (d0 d1 d2 : DevHandler)
    (hp : Polls 0xFE04 y.dev np d0) (hr : d0.ioRead 0xFE04 true = (some st, d1)) (hst : st.msb = true)
    (hw : d1.ioWrite 0xFE06 (y.reg 0).data = (ok, d2)) :
    ∃ t, feN (2 * np + 9) y = (.ok (), t) ∧ PIn Q x t q ∧ t.pc = BitVec.ofNat 16 (vec 0x24 + n + 1) ∧
      (∀ r, r ≠ R6 → t.reg r = y.reg r) ∧ t.psr = y.psr ∧ t.dev = d2 := by
  obtain ⟨k1, k2, k3, k4, k5, k6, k7⟩ := hc
  obtain ⟨s5, s6, s7⟩ := sub4k (x.reg R6).data
  obtain ⟨hdd, l⟩ := hy.inos.os.decode hd hpc
  have esp : entrySp y = (x.reg R6).data - 4 := by rw [entrySp_sup hy.inos.sup, hy.sp]
  obtain ⟨f, ff, ret, fdev, q_f⟩ := out_trap QS y hy.inos.q np hy.inos.os hy.inos.nonstrict
    ⟨Or.inl (priv_ctx hy.inos.sup), by unfold IO_START; omega, hdd⟩
    (by rw [esp, s5]; exact k5) (by rw [esp, s6]; exact k6) (by rw [esp, s7]; exact k7)
    l1 l2 st ok d0 d1 d2 hp hr hst hw
  have fregs : ∀ r, r ≠ R6 → f.reg r = y.reg r := fun r h6 => ret.regs r h6 (fun h => by cases h)
  have fsup : PSR.privileged f.psr = true := by rw [ret.psr]; exact hy.inos.sup
  have fctl : Rt.ctl f = Rt.ctl y := ret.ctl hy.inos.sup
  have fmem : ∀ a : W, a.toNat < IO_START → a ≠ (x.reg R6).data - 5 → a ≠ (x.reg R6).data - 6 →
      a ≠ (x.reg R6).data - 7 → f.memAt a = y.memAt a := by
    intro a ha n5 n6 n7
    exact ret.mem a ha (by rw [esp, s5]; exact n5) (by rw [esp, s6]; exact n6) (by rw [esp, s7]; exact n7)
  obtain ⟨c15, c16, c17, c25, c26, c27, c35, c36, c37, c45, c46, c47⟩ := cell7_ne (x.reg R6).data
  have inf : InOs f := by
    refine ⟨?_, by rw [ret.flags]; exact hy.inos.nonstrict, fsup⟩
    intro a w ha
    have hl := osWord_lt ha
    have hlt : (BitVec.ofNat 16 a).toNat < 767 := by rw [BitVec.toNat_ofNat]; omega
    rw [fmem _ (by unfold IO_START; omega) (fun e => by rw [e] at hlt; unfold CellOk at k5; omega)
      (fun e => by rw [e] at hlt; unfold CellOk at k6; omega) (fun e => by rw [e] at hlt; unfold CellOk at k7; omega)]
    exact hy.inos.os a w ha
  refine ⟨f, ff, ⟨⟨inf, q_f⟩, by rw [ret.sp]; exact hy.sp, ?_, ?_, ?_, ?_, by rw [fregs 1 (by decide)]; exact hy.r1,
    fun r n0 n1 n2 n3 n6 => by rw [fregs r n6]; exact hy.regs r n0 n1 n2 n3 n6, fctl.trans hy.ctl, ?_,
    by rw [ret.psr]; exact hy.prio⟩, by rw [ret.pc, hpc, ofNat_succ], fregs, ret.psr, fdev⟩
  · rw [fmem _ k1.2 c15 c16 c17]; exact hy.c0
  · rw [fmem _ k2.2 c25 c26 c27]; exact hy.c1
  · rw [fmem _ k3.2 c35 c36 c37]; exact hy.c2
  · rw [fmem _ k4.2 c45 c46 c47]; exact hy.c3
  · intro a ha hcell
    rw [fmem a ha (fun e => hcell (by unfold Cells7x; simp [e])) (fun e => hcell (by unfold Cells7x; simp [e]))
      (fun e => hcell (by unfold Cells7x; simp [e]))]
    exact hy.mem a ha hcell


theorem PIn.setR1 {x y t : Sim} {q q' : W} (h : PIn Q x y q) (v : W) (ro : ∀ r, r ≠ 1 → t.reg r = y.reg r)
    (r1 : (t.reg 1).data = q') (psr : t.psr = ccOf y.psr v) (ctl : Rt.ctl t = Rt.ctl y) (mem : t.mem = y.mem)
    (dev : t.dev = y.dev) :
    PIn Q x t q' := by
  have hm : ∀ a, t.memAt a = y.memAt a := fun a => by rw [Sim.memAt, mem]
  have sup : PSR.privileged t.psr = true := by rw [psr, sup_ccOf]; exact h.inos.sup
  exact ⟨h.inos.step' (fun a _ => hm a) ctl sup dev, by rw [ro R6 (by decide)]; exact h.sp,
    by rw [hm]; exact h.c0, by rw [hm]; exact h.c1, by rw [hm]; exact h.c2, by rw [hm]; exact h.c3, r1,
    fun r n0 n1 n2 n3 n6 => by rw [ro r n1]; exact h.regs r n0 n1 n2 n3 n6,
    ctl.trans h.ctl, fun a ha hc => by rw [hm]; exact h.mem a ha hc, by rw [psr, prio_ccOf]; exact h.prio⟩

/-- a+9 .. a+12: load the word, mask the low byte, test it -/
theorem word_lo (QS : QuietSet Q) (x y : Sim) (q : W) (hy : PIn Q x y q) (hpc : y.pc = BitVec.ofNat 16 (vec 0x24 + 9))
    (hq : q.toNat < IO_START) (hqn : ¬ Cells7x (x.reg R6).data q) :
    ∃ t, feN 4 y = (.ok (), t) ∧ Scr y t ∧ (t.reg 2).data = (x.memAt q).data ∧
      (t.reg 0).data = (x.memAt q).data &&& 0xFF ∧
      t.pc = (if (x.memAt q).data &&& 0xFF = 0 then BitVec.ofNat 16 (vec 0x24 + 31) else BitVec.ofNat 16 (vec 0x24 + 13)) := by
  obtain ⟨om, oe, ox, os, ol, oe2, ol2, _, _, _, _, _, _, _, _, _, ⟨b0, b1, b2, b3, b4, hmask, hoe⟩, _, _, _, _⟩ :=
    chkPutsp_spec putsp_listing
  obtain ⟨t1, f1, pc1, r21, ro1, psr1, dev1, ctl1, mem1⟩ := os_ldr QS hy.inos hpc b0 (by rw [hy.r1]; exact hq)
  have s1 : Scr y t1 := Scr.of 2 (by decide) hy.inos.sup _ ro1 psr1 dev1 ctl1 mem1
  rw [hy.r1, hy.mem q hq hqn] at r21
  have i1 := hy.inos.scr s1
  obtain ⟨t2, f2, pc2, r02, ro2, psr2, dev2, ctl2, mem2⟩ := os_ld QS i1 pc1 b1 hmask
  have s2 : Scr t1 t2 := Scr.of 0 (by decide) i1.sup _ ro2 psr2 dev2 ctl2 mem2
  have i2 := i1.scr s2
  obtain ⟨t3, f3, pc3, r03, ro3, psr3, dev3, ctl3, mem3⟩ := os_and QS i2 pc2 b2
  have s3 : Scr t2 t3 := Scr.of 0 (by decide) i2.sup _ ro3 psr3 dev3 ctl3 mem3
  have i3 := i2.scr s3
  have e03 : (t3.reg 2).data &&& (t3.operand2 (.reg 0)).data = (t3.reg 2).data &&& (t3.reg 0).data := rfl
  have ev : (t2.reg 2).data &&& (t2.operand2 (.reg 0)).data = (x.memAt q).data &&& 0xFF := by
    show (t2.reg 2).data &&& (t2.reg 0).data = _
    rw [ro2 2 (by decide), r21, r02]; rfl
  rw [ev] at r03 psr3
  obtain ⟨t4, f4, pc4, r4', psr4, dev4, ctl4, mem4⟩ := os_br QS i3 pc3 b3
  have s4 : Scr t3 t4 := Scr.of_br i3.sup r4' psr4 dev4 ctl4 mem4
  refine ⟨t4, by rw [feN_succ 3 f1, feN_succ 2 f2, feN_succ 1 f3, feN_succ 0 f4]; rfl,
    s1.trans (s2.trans (s3.trans s4)), ?_, by rw [regs_eq r4']; exact r03, ?_⟩
  · rw [regs_eq r4', ro3 2 (by decide), ro2 2 (by decide), r21]
  · rw [pc4, psr3, hoe]
    by_cases hz : (x.memAt q).data &&& 0xFF = 0
    · rw [if_pos ((brz_ccOf _ _).mpr hz), if_pos hz]
    · rw [if_neg (fun h => hz ((brz_ccOf _ _).mp h)), if_neg hz]


/-- a+14 .. a+27: compute the high byte and test it -/
theorem word_hi (QS : QuietSet Q) (y : Sim) (hy : InOsQ Q y) (r0 w r3 : W) (hat : AtP y 14 r0 w r3) :
    ∃ k t, feN k y = (.ok (), t) ∧ Scr y t ∧ (t.reg 0).data = w >>> 8 ∧
      t.pc = (if w >>> 8 = 0 then BitVec.ofNat 16 (vec 0x24 + 31) else BitVec.ofNat 16 (vec 0x24 + 28)) := by
  obtain ⟨om, oe, ox, os, ol, oe2, ol2, _, _, _, _, _, _, _, _, _, _, _, _, ⟨e0, e1, e2, e3, e4, hoe2, hol2⟩, _⟩ :=
    chkPutsp_spec putsp_listing
  obtain ⟨k, t, r2', ft, st, ⟨tpc, t0, _, _⟩⟩ := hi_byte QS y hy r0 w r3 hat
  have it := hy.scr st
  obtain ⟨t1, f1, pc1, r01, ro1, psr1, dev1, ctl1, mem1⟩ := os_add_imm QS it tpc e0
  have s1 : Scr t t1 := Scr.of 0 (by decide) it.sup _ ro1 psr1 dev1 ctl1 mem1
  rw [sext5_0, add_zero', t0] at r01 psr1
  have i1 := it.scr s1
  obtain ⟨t2, f2, pc2, r2x, psr2, dev2, ctl2, mem2⟩ := os_br QS i1 pc1 e1
  have s2 : Scr t1 t2 := Scr.of_br i1.sup r2x psr2 dev2 ctl2 mem2
  refine ⟨k + 2, t2, by rw [feN_add k 2 ft, feN_succ 1 f1, feN_succ 0 f2]; rfl, st.trans (s1.trans s2),
    by rw [regs_eq r2x]; exact r01, ?_⟩
  rw [pc2, psr1, hoe2]
  by_cases hz : w >>> 8 = 0
  · rw [if_pos ((brz_ccOf _ _).mpr hz), if_pos hz]
  · rw [if_neg (fun h => hz ((brz_ccOf _ _).mp h)), if_neg hz]

/-- a+29, a+30: advance the string pointer and loop -/
theorem word_next (QS : QuietSet Q) (x y : Sim) (q : W) (hy : PIn Q x y q) (hpc : y.pc = BitVec.ofNat 16 (vec 0x24 + 29)) :
    ∃ t, feN 2 y = (.ok (), t) ∧ PIn Q x t (q + 1) ∧ t.pc = BitVec.ofNat 16 (vec 0x24 + 9) ∧ t.dev = y.dev := by
  obtain ⟨om, oe, ox, os, ol, oe2, ol2, _, _, _, _, _, _, _, _, _, _, _, _, ⟨e0, e1, e2, e3, e4, hoe2, hol2⟩, _⟩ :=
    chkPutsp_spec putsp_listing
  obtain ⟨t1, f1, pc1, r11, ro1, psr1, dev1, ctl1, mem1⟩ := os_add_imm QS hy.inos hpc e3
  have p1 : PIn Q x t1 (q + 1) := hy.setR1 _ ro1 (by rw [r11, sext_1, hy.r1]) psr1 ctl1 mem1 dev1
  obtain ⟨t2, f2, pc2, r2x, psr2, dev2, ctl2, mem2⟩ := os_br QS p1.inos pc1 e4
  have tk : (((7 : BitVec 3).setWidth 16) &&& PSR.cc t1.psr) ≠ 0 := by rw [psr1]; exact br7_ccOf _ _
  rw [if_pos tk, hol2] at pc2
  have s2 : Scr t1 t2 := Scr.of_br p1.inos.sup r2x psr2 dev2 ctl2 mem2
  exact ⟨t2, by rw [feN_succ 1 f1, feN_succ 0 f2]; rfl, p1.scr s2, pc2, by rw [dev2, dev1]⟩


/-- a packed string at `q`: the words emitted by PUTSP (low byte, then high byte of each word, up to the first zero byte) -/
inductive PStr (m : Sim) (okc : W → Prop) : W → List W → Prop
  | endLo {q : W} : okc q → (m.memAt q).data &&& 0xFF = 0 → PStr m okc q []
  | endHi {q : W} : okc q → (m.memAt q).data &&& 0xFF ≠ 0 → (m.memAt q).data >>> 8 = 0 →
      PStr m okc q [(m.memAt q).data &&& 0xFF]
  | cons {q : W} {cs : List W} : okc q → (m.memAt q).data &&& 0xFF ≠ 0 → (m.memAt q).data >>> 8 ≠ 0 →
      PStr m okc (q + 1) cs → PStr m okc q (((m.memAt q).data &&& 0xFF) :: ((m.memAt q).data >>> 8) :: cs)

/-- PUTSP's loop over the whole packed string: control ends at the epilogue (a+31) -/
theorem putsp_loop (QS : QuietSet Q) (x : Sim) (hc : Cells7Ok (x.reg R6).data)
    (l1 : x.iregLookup 0xFE04 = none) (l2 : x.iregLookup 0xFE06 = none) {q : W} {cs : List W}
    (hs : PStr x (fun a => a.toNat < IO_START ∧ ¬ Cells7x (x.reg R6).data a) q cs) :
    ∀ (y : Sim) (d' : DevHandler), PIn Q x y q → y.pc = BitVec.ofNat 16 (vec 0x24 + 9) → Emits y.dev cs d' →
    ∃ k t q', feN k y = (.ok (), t) ∧ PIn Q x t q' ∧ t.pc = BitVec.ofNat 16 (vec 0x24 + 31) ∧ t.dev = d' := by
  obtain ⟨om, oe, ox, os, ol, oe2, ol2, _, _, _, _, _, _, _, _, _, ⟨_, _, _, _, b4, _, _⟩, _, _, ⟨_, _, e2, _, _, _, _⟩, _⟩ :=
    chkPutsp_spec putsp_listing
  induction hs with
  | @endLo q0 hok hz =>
    intro y d' hy hpc he
    cases he
    obtain ⟨t, ft, st, _, _, tpc⟩ := word_lo QS x y _ hy hpc hok.1 hok.2
    rw [if_pos hz] at tpc
    exact ⟨4, t, _, ft, hy.scr st, tpc, st.dev⟩
  | @endHi q0 hok hnz hz =>
    intro y d' hy hpc he
    obtain ⟨t, ft, st, t2, t0, tpc⟩ := word_lo QS x y _ hy hpc hok.1 hok.2
    rw [if_neg hnz] at tpc
    have pt := hy.scr st
    cases he with
    | cons hp hr hst hw hmore =>
      cases hmore
      obtain ⟨u, fu, pu, upc, uregs, upsr, udev⟩ := pin_out QS x t _ pt hc 13 tpc b4
        (by rw [lookup_of_ctl pt.ctl]; exact l1) (by rw [lookup_of_ctl pt.ctl]; exact l2) _ _ _ _ _ _
        (by rw [st.dev]; exact hp) hr hst (by rewrite [t0]; exact hw)
      obtain ⟨k, v, fv, sv, _, vpc⟩ := word_hi QS u pu.inos _ (x.memAt q0).data _
        ⟨upc, rfl, by rw [uregs 2 (by decide)]; exact t2, rfl⟩
      rw [if_pos hz] at vpc
      exact ⟨4 + (_ + k), v, _, by rw [feN_add 4 _ ft, feN_add _ k fu]; exact fv, pu.scr sv, vpc,
        by rw [sv.dev, udev]⟩
  | @cons q0 cs0 hok hnz hnh hrest ih =>
    intro y d' hy hpc he
    obtain ⟨t, ft, st, t2, t0, tpc⟩ := word_lo QS x y _ hy hpc hok.1 hok.2
    rw [if_neg hnz] at tpc
    have pt := hy.scr st
    cases he with
    | cons hp hr hst hw hmore =>
      cases hmore with
      | cons hp2 hr2 hst2 hw2 hmore2 =>
        obtain ⟨u, fu, pu, upc, uregs, upsr, udev⟩ := pin_out QS x t _ pt hc 13 tpc b4
          (by rw [lookup_of_ctl pt.ctl]; exact l1) (by rw [lookup_of_ctl pt.ctl]; exact l2) _ _ _ _ _ _
          (by rw [st.dev]; exact hp) hr hst (by rewrite [t0]; exact hw)
        obtain ⟨k, v, fv, sv, v0, vpc⟩ := word_hi QS u pu.inos _ (x.memAt q0).data _
          ⟨upc, rfl, by rw [uregs 2 (by decide)]; exact t2, rfl⟩
        rw [if_neg hnh] at vpc
        have pv := pu.scr sv
        obtain ⟨u2, fu2, pu2, u2pc, _, _, u2dev⟩ := pin_out QS x v _ pv hc 28 vpc e2
          (by rw [lookup_of_ctl pv.ctl]; exact l1) (by rw [lookup_of_ctl pv.ctl]; exact l2) _ _ _ _ _ _
          (by rw [sv.dev, udev]; exact hp2) hr2 hst2 (by rewrite [v0]; exact hw2)
        obtain ⟨z, fz, pz, zpc, zdev⟩ := word_next QS x u2 _ pu2 u2pc
        obtain ⟨k', r, q', fr, pr, rpc, rdev⟩ := ih z d' pz zpc (by rw [zdev, u2dev]; exact hmore2)
        exact ⟨4 + (_ + (k + (_ + (2 + k')))), r, q',
          by rw [feN_add 4 _ ft, feN_add _ _ fu, feN_add k _ fv, feN_add _ _ fu2, feN_add 2 k' fz]; exact fr,
          pr, rpc, rdev⟩


theorem sub_chain (a : W) : a - 1 - 1 = a - 2 ∧ a - 2 - 1 = a - 3 ∧ a - 3 - 1 = a - 4 := by
  refine ⟨?_, ?_, ?_⟩ <;> bv_omega

theorem cell4_ne (a : W) : a - 1 ≠ a - 2 ∧ a - 1 ≠ a - 3 ∧ a - 1 ≠ a - 4 ∧ a - 2 ≠ a - 3 ∧ a - 2 ≠ a - 4 ∧ a - 3 ≠ a - 4 := by
  refine ⟨?_, ?_, ?_, ?_, ?_, ?_⟩ <;> (intro e; bv_omega)

theorem ofNat_add2 (n : Nat) : BitVec.ofNat 16 n + 2 = BitVec.ofNat 16 (n + 2) := by bv_omega

/-- PUTSP's prologue: push R0-R3, copy the string pointer to R1 -/
theorem putsp_prologue (QS : QuietSet Q) (x : Sim) (hx : InOsQ Q x) (hpc : x.pc = BitVec.ofNat 16 (vec 0x24))
    (hc : Cells7Ok (x.reg R6).data) :
    ∃ y, feN 9 x = (.ok (), y) ∧ PIn Q x y (x.reg 0).data ∧ y.pc = BitVec.ofNat 16 (vec 0x24 + 9) ∧ y.dev = x.dev := by
  obtain ⟨om, oe, ox, os, ol, oe2, ol2, a0, a1, a2, a3, a4, a5, a6, a7, a8, _⟩ := chkPutsp_spec putsp_listing
  obtain ⟨k1, k2, k3, k4, k5, k6, k7⟩ := hc
  obtain ⟨e12, e23, e34⟩ := sub_chain (x.reg R6).data
  obtain ⟨n12, n13, n14, n23, n24, n34⟩ := cell4_ne (x.reg R6).data
  -- push R0
  obtain ⟨d0, d1, lp⟩ := hx.os.decode2 a0 a1 hpc
  obtain ⟨t1, f1, i1, pc1, sp1, c1, m1, ro1, dev1, ctl1, pr1⟩ := push_reg QS x 0 (by decide) hx lp d0 d1 k1
  have hpc1 : t1.pc = BitVec.ofNat 16 (vec 0x24 + 2) := by rw [pc1, hpc, ofNat_add2]
  -- push R1
  obtain ⟨d0, d1, lp⟩ := i1.os.decode2 a2 a3 hpc1
  obtain ⟨t2, f2, i2, pc2, sp2, c2, m2, ro2, dev2, ctl2, pr2⟩ := push_reg QS t1 1 (by decide) i1 lp d0 d1
    (by rw [sp1, e12]; exact k2)
  rw [sp1, e12] at sp2 c2 m2
  have hpc2 : t2.pc = BitVec.ofNat 16 (vec 0x24 + 2 + 2) := by rw [pc2, hpc1, ofNat_add2]
  -- push R2
  obtain ⟨d0, d1, lp⟩ := i2.os.decode2 a4 a5 hpc2
  obtain ⟨t3, f3, i3, pc3, sp3, c3, m3, ro3, dev3, ctl3, pr3⟩ := push_reg QS t2 2 (by decide) i2 lp d0 d1
    (by rw [sp2, e23]; exact k3)
  rw [sp2, e23] at sp3 c3 m3
  have hpc3 : t3.pc = BitVec.ofNat 16 (vec 0x24 + 2 + 2 + 2) := by rw [pc3, hpc2, ofNat_add2]
  -- push R3
  obtain ⟨d0, d1, lp⟩ := i3.os.decode2 a6 a7 hpc3
  obtain ⟨t4, f4, i4, pc4, sp4, c4, m4, ro4, dev4, ctl4, pr4⟩ := push_reg QS t3 3 (by decide) i3 lp d0 d1
    (by rw [sp3, e34]; exact k4)
  rw [sp3, e34] at sp4 c4 m4
  have hpc4 : t4.pc = BitVec.ofNat 16 (vec 0x24 + 8) := by rw [pc4, hpc3, ofNat_add2]
  -- ADD R1,R0,#0
  obtain ⟨t5, f5, pc5, r15, ro5, psr5, dev5, ctl5, mem5⟩ := os_add_imm QS i4 hpc4 a8
  have sup5 : PSR.privileged t5.psr = true := by rw [psr5, sup_ccOf]; exact i4.sup
  have i5 : InOsQ Q t5 := i4.step' (fun a _ => by rw [Sim.memAt, mem5]) ctl5 sup5 dev5
  have hm5 : ∀ a, t5.memAt a = t4.memAt a := fun a => by rw [Sim.memAt, mem5]
  have r0x : (t4.reg 0) = x.reg 0 := by
    rw [ro4 0 (by decide), ro3 0 (by decide), ro2 0 (by decide), ro1 0 (by decide)]
  refine ⟨t5, ?_, ⟨i5, by rw [ro5 R6 (by decide)]; exact sp4, ?_, ?_, ?_, ?_, ?_, ?_,
    ctl5.trans (ctl4.trans (ctl3.trans (ctl2.trans ctl1))), ?_, ?_⟩, pc5, by rw [dev5, dev4, dev3, dev2, dev1]⟩
  · rw [feN_add 2 7 f1, feN_add 2 5 f2, feN_add 2 3 f3, feN_add 2 1 f4, feN_succ 0 f5]; rfl
  · rw [hm5, m4 _ n14, m3 _ n13, m2 _ n12]; exact c1
  · rw [hm5, m4 _ n24, m3 _ n23, c2, ro1 1 (by decide)]
  · rw [hm5, m4 _ n34, c3, ro2 2 (by decide), ro1 2 (by decide)]
  · rw [hm5, c4, ro3 3 (by decide), ro2 3 (by decide), ro1 3 (by decide)]
  · rw [r15, sext5_0, add_zero', r0x]
  · intro r n0 n1 n2 n3 n6
    rw [ro5 r n1, ro4 r n6, ro3 r n6, ro2 r n6, ro1 r n6]
  · intro a ha hcell
    rw [hm5, m4 a (fun e => hcell (by unfold Cells7x; simp [e])), m3 a (fun e => hcell (by unfold Cells7x; simp [e])),
      m2 a (fun e => hcell (by unfold Cells7x; simp [e])), m1 a (fun e => hcell (by unfold Cells7x; simp [e]))]
  · rw [psr5, prio_ccOf, pr4, pr3, pr2, pr1]


theorem add_chain (a : W) : a - 4 + 1 = a - 3 ∧ a - 3 + 1 = a - 2 ∧ a - 2 + 1 = a - 1 ∧ a - 1 + 1 = a := by
  refine ⟨?_, ?_, ?_, ?_⟩ <;> bv_omega

/-- PUTSP's epilogue: pop R3-R0; control is at the routine's RTI with every register as at the entry -/
theorem putsp_epilogue (QS : QuietSet Q) (x y : Sim) (q : W) (hy : PIn Q x y q) (hpc : y.pc = BitVec.ofNat 16 (vec 0x24 + 31))
    (hc : Cells7Ok (x.reg R6).data) :
    ∃ t, feN 8 y = (.ok (), t) ∧ InOsQ Q t ∧ t.pc = BitVec.ofNat 16 (vec 0x24 + 39) ∧
      (∀ r, r ≠ R6 → t.reg r = x.reg r) ∧ (t.reg R6).data = (x.reg R6).data ∧ t.dev = y.dev ∧
      Rt.ctl t = Rt.ctl x ∧
      (∀ a : W, a.toNat < IO_START → ¬ Cells7x (x.reg R6).data a → t.memAt a = x.memAt a) := by
  obtain ⟨om, oe, ox, os, ol, oe2, ol2, _, _, _, _, _, _, _, _, _, _, _, _, _, ⟨g0, g1, g2, g3, g4, g5, g6, g7, g8⟩⟩ :=
    chkPutsp_spec putsp_listing
  obtain ⟨k1, k2, k3, k4, k5, k6, k7⟩ := hc
  obtain ⟨e43, e32, e21, e10⟩ := add_chain (x.reg R6).data
  -- pop R3
  obtain ⟨d0, d1, lp⟩ := hy.inos.os.decode2 g0 g1 hpc
  obtain ⟨t1, f1, i1, pc1, sp1, r1, m1, ro1, dev1, ctl1, pr1⟩ := pop_reg QS y 3 (by decide) hy.inos lp d0 d1
    (by rw [hy.sp]; exact k4.2)
  rw [hy.sp] at r1 sp1; rw [hy.c3] at r1; rw [e43] at sp1
  have hpc1 : t1.pc = BitVec.ofNat 16 (vec 0x24 + 31 + 2) := by rw [pc1, hpc, ofNat_add2]
  have hm1 : ∀ a, t1.memAt a = y.memAt a := fun a => by rw [Sim.memAt, m1]
  -- pop R2
  obtain ⟨d0, d1, lp⟩ := i1.os.decode2 g2 g3 hpc1
  obtain ⟨t2, f2, i2, pc2, sp2, r2, m2, ro2, dev2, ctl2, pr2⟩ := pop_reg QS t1 2 (by decide) i1 lp d0 d1
    (by rw [sp1]; exact k3.2)
  rw [sp1] at r2 sp2; rw [hm1, hy.c2] at r2; rw [e32] at sp2
  have hpc2 : t2.pc = BitVec.ofNat 16 (vec 0x24 + 31 + 2 + 2) := by rw [pc2, hpc1, ofNat_add2]
  have hm2 : ∀ a, t2.memAt a = y.memAt a := fun a => by rw [Sim.memAt, m2]; exact hm1 a
  -- pop R1
  obtain ⟨d0, d1, lp⟩ := i2.os.decode2 g4 g5 hpc2
  obtain ⟨t3, f3, i3, pc3, sp3, r3, m3, ro3, dev3, ctl3, pr3⟩ := pop_reg QS t2 1 (by decide) i2 lp d0 d1
    (by rw [sp2]; exact k2.2)
  rw [sp2] at r3 sp3; rw [hm2, hy.c1] at r3; rw [e21] at sp3
  have hpc3 : t3.pc = BitVec.ofNat 16 (vec 0x24 + 31 + 2 + 2 + 2) := by rw [pc3, hpc2, ofNat_add2]
  have hm3 : ∀ a, t3.memAt a = y.memAt a := fun a => by rw [Sim.memAt, m3]; exact hm2 a
  -- pop R0
  obtain ⟨d0, d1, lp⟩ := i3.os.decode2 g6 g7 hpc3
  obtain ⟨t4, f4, i4, pc4, sp4, r4, m4, ro4, dev4, ctl4, pr4⟩ := pop_reg QS t3 0 (by decide) i3 lp d0 d1
    (by rw [sp3]; exact k1.2)
  rw [sp3] at r4 sp4; rw [hm3, hy.c0] at r4; rw [e10] at sp4
  have hm4 : ∀ a, t4.memAt a = y.memAt a := fun a => by rw [Sim.memAt, m4]; exact hm3 a
  refine ⟨t4, ?_, i4, by rw [pc4, hpc3, ofNat_add2], ?_, sp4, by rw [dev4, dev3, dev2, dev1],
    (ctl4.trans (ctl3.trans (ctl2.trans ctl1))).trans hy.ctl, fun a ha hcell => by rw [hm4]; exact hy.mem a ha hcell⟩
  · rw [feN_add 2 6 f1, feN_add 2 4 f2, feN_add 2 2 f3, feN_add 2 0 f4]; rfl
  · intro r n6
    by_cases h0 : r = 0
    · rw [h0]; exact r4
    · by_cases h1 : r = 1
      · rw [h1, ro4 1 (by decide) (by decide)]; exact r3
      · by_cases h2 : r = 2
        · rw [h2, ro4 2 (by decide) (by decide), ro3 2 (by decide) (by decide)]; exact r2
        · by_cases h3 : r = 3
          · rw [h3, ro4 3 (by decide) (by decide), ro3 3 (by decide) (by decide), ro2 3 (by decide) (by decide)]
            exact r1
          · rw [ro4 r n6 h0, ro3 r n6 h1, ro2 r n6 h2, ro1 r n6 h3]; exact hy.regs r h0 h1 h2 h3 n6


theorem cells7x_entry_ne (a : W) : ¬ Cells7x (a - 2) (a - 1) ∧ ¬ Cells7x (a - 2) (a - 2) := by
  constructor <;> (intro h; rcases h with e | e | e | e | e | e | e <;> bv_omega)

theorem vec_defined_24 : (osWord 0x24).isSome := by decide +kernel

theorem PStr.transfer {m m' : Sim} {okc okc' : W → Prop} (hok : ∀ a, okc a → okc' a)
    (hm : ∀ a, okc a → m'.memAt a = m.memAt a) : ∀ {q : W} {cs : List W}, PStr m okc q cs → PStr m' okc' q cs := by
  intro q cs h
  induction h with
  | endLo h1 h2 => exact .endLo (hok _ h1) (by rw [hm _ h1]; exact h2)
  | endHi h1 h2 h3 => rw [← hm _ h1]; exact .endHi (hok _ h1) (by rw [hm _ h1]; exact h2) (by rw [hm _ h1]; exact h3)
  | cons h1 h2 h3 _ ih =>
    rw [← hm _ h1]; exact .cons (hok _ h1) (by rw [hm _ h1]; exact h2) (by rw [hm _ h1]; exact h3) ih

/-- **PUTSP contract.** A `TRAP x24` instruction fetched and executed from any non-strict state with the OS in memory,
    nine supervisor-stack cells in plain memory above the OS image, and R0 pointing at a packed string in plain
    memory clear of those cells whose bytes (low byte, then high byte of each word, up to the first zero byte) are
    `cs`, the display accepting them one by one (each after any number of unsuccessful polls): the machine ends at
    the instruction after the TRAP, the display has received exactly `cs` in order (`d'`), and the PSR, every
    register, both stack pointers, the flags and all memory below the I/O page except the stack cells are unchanged -/
theorem putsp_trap (QS : QuietSet Q) (s : Sim) (q_s : Q s.dev) (cs : List W) (d' : DevHandler) (hos : OsLoaded s) (hs : s.flags.strict = false)
    (hat : AtTrap s 0x24)
    (h1 : 767 ≤ (entrySp s - 1).toNat ∧ (entrySp s - 1).toNat < IO_START)
    (h2 : 767 ≤ (entrySp s - 2).toNat ∧ (entrySp s - 2).toNat < IO_START)
    (hc : Cells7Ok (entrySp s - 2))
    (l1 : s.iregLookup 0xFE04 = none) (l2 : s.iregLookup 0xFE06 = none)
    (hstr : PStr s (fun a => a.toNat < IO_START ∧ a ≠ entrySp s - 1 ∧ a ≠ entrySp s - 2 ∧ ¬ Cells7x (entrySp s - 2) a)
      (s.reg 0).data cs)
    (hem : Emits s.dev cs d') :
    ∃ k f, feN k s = (.ok (), f) ∧ Returned s f (s.pc + 1) true (Cells7x (entrySp s - 2)) ∧ f.dev = d' ∧ Q f.dev := by
  obtain ⟨w, hw⟩ := Option.isSome_iff_exists.mp vec_defined_24
  obtain ⟨x, hx, inx, xpc, m2, m1, mo, r6, ro, xprio, hss, hfn, hd, hf, hir, hmcr, q_x⟩ :=
    trap_step_os QS s q_s 0x24 w hos hs hat.perm hat.plain hat.instr h1 h2 (Or.inl (by decide)) hw
  have lk : ∀ a, x.iregLookup a = s.iregLookup a := by intro a; unfold iregLookup; rw [hir]
  rw [← r6] at hc
  obtain ⟨y, fy, hy, ypc, devy⟩ := putsp_prologue QS x ⟨inx, q_x⟩ (by rw [xpc]; exact vec_word hw) hc
  have hstr' : PStr x (fun a => a.toNat < IO_START ∧ ¬ Cells7x (x.reg R6).data a) (x.reg 0).data cs := by
    rw [ro 0 (by decide)]
    refine PStr.transfer (fun a h => ⟨h.1, by rw [r6]; exact h.2.2.2⟩) (fun a h => mo a h.2.1 h.2.2.1) hstr
  obtain ⟨k, t, q', ft, pt, tpc, tdev⟩ := putsp_loop QS x hc (by rw [lk]; exact l1) (by rw [lk]; exact l2) hstr'
    y d' hy ypc (by rw [devy, hd]; exact hem)
  obtain ⟨u, fu, iu, upc, uregs, usp, udev, uctl, umem⟩ := putsp_epilogue QS x t q' pt tpc hc
  obtain ⟨om, oe, ox, os, ol, oe2, ol2, _, _, _, _, _, _, _, _, _, _, _, _, _, ⟨_, _, _, _, _, _, _, _, g8⟩⟩ :=
    chkPutsp_spec putsp_listing
  obtain ⟨hdr, lr⟩ := iu.os.decode g8 upc
  obtain ⟨e1, e2⟩ := cells7x_entry_ne (entrySp s)
  obtain ⟨f, ff, ret, fdev, fro, q_f⟩ := return_from QS s x u iu.q (s.pc + 1) true (Cells7x (entrySp s - 2)) h1.2 h2.2 m2 m1
    mo r6 ro hss hfn hf hir hmcr iu.toInOs (by unfold IO_START; omega) hdr usp (fun r h6 _ => uregs r h6) uctl
    (fun a ha hne => umem a ha (by rw [r6]; exact hne)) e1 e2
  refine ⟨1 + (9 + (k + (8 + 1))), f, ?_, ret, by rw [fdev, udev, tdev], q_f⟩
  rw [feN_add 1 _ (by rw [feN_succ 0 hx]; rfl), feN_add 9 _ fy, feN_add k _ ft, feN_add 8 1 fu, feN_succ 0 ff]; rfl


end Lc3V.Rt
