/- Lemmas/OsRoutines.lean — Hoare-style contracts of the built-in OS routines, by stepping the model's
   `fetchExec` through the instruction listing that `Lemmas/C11Core` checks on the regenerated OS image.
   Layers: (1) exact one-step lemmas for a supervisor-mode fetch from plain memory (`fetchExec_plain`) and for each
   instruction the routines use (`step_ldi_io`, `step_br`, `step_add_imm`, `step_str`, `step_ldr`, `step_sti_io`,
   `step_rti`), each stating what changes and that nothing else does (`ctl`, `MemLow`); (2) the OS image in memory
   (`OsLoaded`, provably what `newSim`/`reset` load: `newSim_osLoaded`); (3) TRAP entry into the routine the vector
   names (`trap_step_os`) and the closing RTI (`return_from`, `Returned`); (4) the routines: GETC (`getc_trap`),
   OUT (`out_trap`), HALT (`halt_contract`, `halt_trap`).  Devices enter only through `DevHandler.ioRead/ioWrite`
   results named in the hypotheses (`Polls`), so the statements hold for every device set.
   All contracts are about the PUBLIC `step` function (`feN n` = n calls of `Sim.step`): the device poll that opens every
   step is required to be quiet, as a closed set of device configurations `Q` (`QuietSet`: poll reports nothing and changes
   nothing; closed under device reads and DDR stores); `stdDev_quiet`: the default devices (keyboard with interrupts disabled,
   display) in any buffer/lock state form such a set.  `step_quiet` is the bridge from `fetchExec` to `step`. -/
import Lc3V.Lemmas.C11Core
import Lc3V.Lemmas.Psr
import Lc3V.Lemmas.BitTac
namespace Lc3V.Rt
open Lc3V Sim SimM SimInstr

/-- the control fields no data-path instruction of an OS routine touches -/
def ctl (s : Sim) := (s.flags, s.iregs, s.savedSp, s.mcr, s.frameNo)

/-- condition-code result of writing `v` -/
def ccOf (p : W) (v : W) : W := PSR.setCC p (if v.msb then 4 else if v = 0 then 2 else 1)

/-- state after the fetch stage at a plain cell -/
def fetched (s : Sim) : Sim :=
  { s with log := ⟨s.pc, false, s.defaultCtx.privileged, true⟩ :: s.log,
           observer := obsUpdate s.observer s.pc OBS_READ, pc := s.pc + 1, prefetch := false }

theorem fetchExec_plain (s : Sim) (instr : SimInstr) (hs : s.flags.strict = false)
    (hp : s.defaultCtx.privileged = true ∨ inUser s.pc = true) (hio : s.pc.toNat < IO_START)
    (hd : SimInstr.decode (s.memAt s.pc).data = .ok instr) :
    fetchExec s = match execInstr instr (fetched s) with
      | (.ok _, t) => (.ok (), countInstr t)
      | (.error e, t) => (.error e, t) := by
  have hg : (!s.defaultCtx.privileged && !inUser s.pc) = false := by rcases hp with h | h <;> simp [h]
  have hio' : ¬ IO_START ≤ s.pc.toNat := by omega
  have ht : s.defaultCtx.track = true := rfl
  simp only [fetchExec, bind_apply, getS_apply, readMem, hg, hio', ht, if_true, if_false, Bool.false_eq_true]
  simp only [memAt, hs, Word.getIfInit_nonstrict, liftE_ok] at hd ⊢
  simp only [hd, Except.mapError, liftE_ok, offsetPc, setPc, bind_apply, getS_apply, hs, Word.getIfInit_nonstrict, Word.ofData,
    Bool.false_and, modifyS_apply, if_false, Bool.false_eq_true, fetched]
  generalize execInstr instr _ = r
  rcases r with ⟨_ | _, _⟩ <;> rfl

/-- a supervisor fetch-execute step at a plain cell, packaged: if the execute stage succeeds from the fetched
    state, the step succeeds with the counted state -/
theorem fetchExec_of_exec (s t : Sim) (instr : SimInstr) (hs : s.flags.strict = false)
    (hp : PSR.privileged s.psr = true) (hio : s.pc.toNat < IO_START)
    (hd : SimInstr.decode (s.memAt s.pc).data = .ok instr)
    (hx : execInstr instr (fetched s) = (.ok (), t)) : fetchExec s = (.ok (), countInstr t) := by
  rw [fetchExec_plain s instr hs (Or.inl (by simp [defaultCtx, hp])) hio hd, hx]

/-- the device poll that opens every step reports nothing and leaves the devices as they are -/
def QuietDev (s : Sim) : Prop := s.dev.pollInterrupt = (none, s.dev)

/-- with a quiet poll the public `step` is the fetch-execute function (C10.gate says when the poll takes an interrupt) -/
theorem step_quiet (s t : Sim) (instr : SimInstr) (hq : QuietDev s)
    (hs : s.flags.strict = false) (hp : s.defaultCtx.privileged = true ∨ inUser s.pc = true)
    (hio : s.pc.toNat < IO_START) (hd : SimInstr.decode (s.memAt s.pc).data = .ok instr)
    (h : fetchExec s = (.ok (), t)) : Sim.step s = (.ok (), t) := by
  have h1 : stepInner s = fetchExec (afterPoll s) := by
    unfold stepInner; rw [hq]
  have h2 : fetchExec (afterPoll s) = fetchExec s := by
    rw [fetchExec_plain (afterPoll s) instr hs hp hio hd, fetchExec_plain s instr hs hp hio hd]
    have : fetched (afterPoll s) = fetched s := by
      unfold fetched afterPoll; rw [hq]; rfl
    rw [this]
  unfold Sim.step
  rw [h1, h2, h]
  simp only
  split <;> rfl

/-- a set of device configurations in which the poll is quiet and which is closed under device reads and under stores to
    DDR (the only device store the OS routines make): with the devices in such a set no interrupt is ever requested, so
    every `step` of a routine is its fetch-execute function; `stdDev_quiet`: the default device set is one -/
structure QuietSet (Q : DevHandler → Prop) : Prop where
  quiet : ∀ d, Q d → d.pollInterrupt = (none, d)
  read : ∀ d port, Q d → Q (d.ioRead port true).2
  write : ∀ d v, Q d → Q (d.ioWrite 0xFE06 v).2

theorem QuietSet.dev {Q : DevHandler → Prop} (QS : QuietSet Q) {s : Sim} (h : Q s.dev) : QuietDev s := QS.quiet _ h

theorem QuietSet.ofRead {Q : DevHandler → Prop} (QS : QuietSet Q) {d d1 : DevHandler} {port : W} {r : Option W}
    (h : Q d) (hr : d.ioRead port true = (r, d1)) : Q d1 := by
  have := QS.read d port h; rw [hr] at this; exact this

theorem QuietSet.ofWrite {Q : DevHandler → Prop} (QS : QuietSet Q) {d d1 : DevHandler} {v : W} {ok : Bool}
    (h : Q d) (hw : d.ioWrite 0xFE06 v = (ok, d1)) : Q d1 := by
  have := QS.write d v h; rw [hw] at this; exact this

theorem Q_of_dev {Q : DevHandler → Prop} {s t : Sim} (h : t.dev = s.dev) (hq : Q s.dev) : Q t.dev := by rw [h]; exact hq

/-- a supervisor step at a plain cell with a quiet poll, packaged: if the execute stage succeeds from the fetched
    state, the public `step` succeeds with the counted state -/
theorem step_of_exec {Q : DevHandler → Prop} (QS : QuietSet Q) (s t : Sim) (instr : SimInstr) (hs : s.flags.strict = false)
    (hp : PSR.privileged s.psr = true) (hio : s.pc.toNat < IO_START)
    (hd : SimInstr.decode (s.memAt s.pc).data = .ok instr) (hq : Q s.dev)
    (hx : execInstr instr (fetched s) = (.ok (), t)) : Sim.step s = (.ok (), countInstr t) :=
  step_quiet s _ instr (QS.dev hq) hs (Or.inl (by simp [defaultCtx, hp])) hio hd (fetchExec_of_exec s t instr hs hp hio hd hx)

/-- a tracked privileged read of a device port (not an internal register) that the device answers -/
theorem readMem_io (s : Sim) (a : W) (c : Ctx) (data : W) (d' : DevHandler) (hp : c.privileged = true)
    (hio : IO_START ≤ a.toNat) (hlk : s.iregLookup a = none) (hr : s.dev.ioRead a c.ioEffects = (some data, d'))
    (ht : c.track = true) :
    ∃ t, readMem a c s = (.ok (Word.ofData data), t) ∧ t.dev = d' ∧ t.regs = s.regs ∧ t.pc = s.pc ∧ t.psr = s.psr ∧
      ctl t = ctl s ∧ (∀ b, b ≠ a → t.memAt b = s.memAt b) := by
  have hg : (!c.privileged && !inUser a) = false := by simp [hp]
  have hlk' : ∀ l, ({ s with log := l } : Sim).iregLookup a = none := fun _ => hlk
  simp only [readMem, hg, hio, hlk', ht, hr, if_true, if_false, Bool.false_eq_true]
  refine ⟨_, Prod.ext ?_ rfl, rfl, rfl, rfl, rfl, rfl, ?_⟩
  · show Except.ok ((Sim.setMem _ a _).memAt a) = _
    rw [Sim.memAt_setMem, if_pos rfl]; rfl
  · intro b hb
    show (Sim.setMem _ a _).memAt b = _
    rw [Sim.memAt_setMem, if_neg (Ne.symm hb)]


theorem priv_ctx {s : Sim} (h : PSR.privileged s.psr = true) : s.defaultCtx.privileged = true := by
  simp [defaultCtx, h]

/-- LDI through a pointer cell in plain memory to a device port -/
theorem exec_ldi_io (f : Sim) (dr : Reg) (off : BitVec 9) (port data : W) (d' : DevHandler)
    (hs : f.flags.strict = false) (hp : PSR.privileged f.psr = true)
    (hptr : (f.pc + off.signExtend 16).toNat < IO_START) (hpv : (f.memAt (f.pc + off.signExtend 16)).data = port)
    (hio : IO_START ≤ port.toNat) (hlk : f.iregLookup port = none)
    (hr : f.dev.ioRead port true = (some data, d')) :
    ∃ t, execInstr (.ldi dr off) f = (.ok (), t) ∧ t.reg dr = Word.ofData data ∧ (∀ r, r ≠ dr → t.reg r = f.reg r) ∧
      t.psr = ccOf f.psr data ∧ t.pc = f.pc ∧ t.dev = d' ∧ ctl t = ctl f ∧
      (∀ b, b ≠ port → t.memAt b = f.memAt b) := by
  rw [C08.exec_ldi f dr off hs, Sim.readMem_plain_eq f _ _ (Or.inl (priv_ctx hp)) hptr rfl]
  simp only [hpv]
  obtain ⟨t, hrd, tdev, tregs, tpc, tpsr, tctl, tmem⟩ := readMem_io
    { f with log := ⟨f.pc + off.signExtend 16, false, f.defaultCtx.privileged, true⟩ :: f.log,
             observer := obsUpdate f.observer (f.pc + off.signExtend 16) OBS_READ } port
    { privileged := PSR.privileged f.psr || f.flags.ignorePriv, strict := f.flags.strict, ioEffects := true, track := true }
    data d' (by simp [hp]) hio hlk hr rfl
  refine ⟨(t.setReg dr (Word.ofData data)).setCCOf data, ?_, ?_, ?_, ?_, ?_, ?_, ?_, ?_⟩
  · exact congrArg (fun r => match r with
      | (Except.ok v, s2) => (Except.ok (), (s2.setReg dr v).setCCOf v.data)
      | (Except.error e, s2) => (Except.error e, s2)) hrd
  · show (t.setReg dr _).reg dr = _
    rw [Sim.reg_setReg, if_pos rfl]
  · intro r hr
    show (t.setReg dr _).reg r = _
    rw [Sim.reg_setReg, if_neg (Ne.symm hr)]
    show t.regs[r.toNat] = _; rw [tregs]
  · show PSR.setCC t.psr _ = _
    rw [tpsr]; rfl
  · exact tpc
  · exact tdev
  · exact tctl
  · intro b hb; exact tmem b hb


/-- memory below the I/O page is unchanged -/
def MemLow (s t : Sim) : Prop := ∀ b : W, b.toNat < IO_START → t.memAt b = s.memAt b

theorem MemLow.refl (s : Sim) : MemLow s s := fun _ _ => rfl
theorem MemLow.trans {s t u : Sim} (h1 : MemLow s t) (h2 : MemLow t u) : MemLow s u :=
  fun b hb => (h2 b hb).trans (h1 b hb)

/-- one supervisor step: `LDI dr` through a plain pointer cell to a device port -/
theorem step_ldi_io {Q : DevHandler → Prop} (QS : QuietSet Q) (s : Sim) (q_s : Q s.dev) (dr : Reg) (off : BitVec 9) (port data : W) (d' : DevHandler)
    (hs : s.flags.strict = false) (hp : PSR.privileged s.psr = true) (hpc : s.pc.toNat < IO_START)
    (hd : SimInstr.decode (s.memAt s.pc).data = .ok (.ldi dr off))
    (hptr : (s.pc + 1 + off.signExtend 16).toNat < IO_START)
    (hpv : (s.memAt (s.pc + 1 + off.signExtend 16)).data = port)
    (hio : IO_START ≤ port.toNat) (hlk : s.iregLookup port = none)
    (hr : s.dev.ioRead port true = (some data, d')) :
    ∃ t, Sim.step s = (.ok (), t) ∧ t.pc = s.pc + 1 ∧ t.reg dr = Word.ofData data ∧
      (∀ r, r ≠ dr → t.reg r = s.reg r) ∧ t.psr = ccOf s.psr data ∧ t.dev = d' ∧ ctl t = ctl s ∧ MemLow s t ∧ Q t.dev := by
  obtain ⟨t, hx, tr, tro, tpsr, tpc, tdev, tctl, tmem⟩ :=
    exec_ldi_io (fetched s) dr off port data d' hs hp hptr hpv hio hlk hr
  refine ⟨countInstr t, step_of_exec QS s t _ hs hp hpc hd q_s hx, tpc, tr, tro, tpsr, tdev, tctl, ?_,
    by show Q t.dev; rw [tdev]; exact QS.ofRead q_s hr⟩
  intro b hb
  exact tmem b (by intro e; rw [e] at hb; omega)

/-- one supervisor step: a branch -/
theorem step_br {Q : DevHandler → Prop} (QS : QuietSet Q) (s : Sim) (q_s : Q s.dev) (cc : BitVec 3) (off : BitVec 9)
    (hs : s.flags.strict = false) (hp : PSR.privileged s.psr = true) (hpc : s.pc.toNat < IO_START)
    (hd : SimInstr.decode (s.memAt s.pc).data = .ok (.br cc off)) :
    ∃ t, Sim.step s = (.ok (), t) ∧
      t.pc = (if (cc.setWidth 16 &&& PSR.cc s.psr) ≠ 0 then s.pc + 1 + off.signExtend 16 else s.pc + 1) ∧
      t.regs = s.regs ∧ t.psr = s.psr ∧ t.dev = s.dev ∧ ctl t = ctl s ∧ MemLow s t ∧ Q t.dev := by
  have hx := C08.exec_br (fetched s) cc off hs
  have hcc : PSR.cc (fetched s).psr = PSR.cc s.psr := rfl
  refine ⟨_, step_of_exec QS s _ _ hs hp hpc hd q_s hx, ?_⟩
  rw [hcc]
  by_cases hb : (cc.setWidth 16 &&& PSR.cc s.psr) ≠ 0
  · simp only [if_pos hb]; exact ⟨rfl, rfl, rfl, rfl, rfl, fun _ _ => rfl, q_s⟩
  · simp only [if_neg hb]; exact ⟨rfl, rfl, rfl, rfl, rfl, fun _ _ => rfl, q_s⟩

theorem cc_setCC_n (p : W) : PSR.cc (PSR.setCC p 4) = 4 := by
  unfold PSR.cc PSR.setCC
  simp only
  bits16
theorem cc_setCC_p (p : W) : PSR.cc (PSR.setCC p 1) = 1 := by
  unfold PSR.cc PSR.setCC
  simp only
  bits16

theorem brzp_ccOf (p v : W) : (((3 : BitVec 3).setWidth 16) &&& PSR.cc (ccOf p v) ≠ 0) ↔ v.msb = false := by
  unfold ccOf
  cases hm : v.msb
  · by_cases hz : v = 0
    · simp only [hz, if_true, Bool.false_eq_true, if_false, PSR.cc_setCC_z]; decide
    · simp only [hz, Bool.false_eq_true, if_false, cc_setCC_p]; decide
  · simp only [if_true, cc_setCC_n]; decide

/-- one supervisor step: `ADD dr, sr, #imm` -/
theorem step_add_imm {Q : DevHandler → Prop} (QS : QuietSet Q) (s : Sim) (q_s : Q s.dev) (dr sr : Reg) (imm : BitVec 5)
    (hs : s.flags.strict = false) (hp : PSR.privileged s.psr = true) (hpc : s.pc.toNat < IO_START)
    (hd : SimInstr.decode (s.memAt s.pc).data = .ok (.add dr sr (.imm imm))) :
    ∃ t, Sim.step s = (.ok (), t) ∧ t.pc = s.pc + 1 ∧ (t.reg dr).data = (s.reg sr).data + imm.signExtend 16 ∧
      (∀ r, r ≠ dr → t.reg r = s.reg r) ∧ t.psr = ccOf s.psr ((s.reg sr).data + imm.signExtend 16) ∧
      t.dev = s.dev ∧ ctl t = ctl s ∧ t.mem = s.mem ∧ Q t.dev := by
  have hx := C08.exec_add (fetched s) dr sr (.imm imm) hs
  have hdat : (Word.add ((fetched s).reg sr) ((fetched s).operand2 (.imm imm))).data =
      (s.reg sr).data + imm.signExtend 16 := by rw [C08.add_data]; rfl
  refine ⟨_, step_of_exec QS s _ _ hs hp hpc hd q_s hx, rfl, ?_, ?_, ?_, rfl, rfl, rfl, q_s⟩
  · show ((Sim.setReg (fetched s) dr _).reg dr).data = _
    rw [Sim.reg_setReg, if_pos rfl, hdat]
  · intro r hr
    show (Sim.setReg (fetched s) dr _).reg r = _
    rw [Sim.reg_setReg, if_neg (Ne.symm hr)]; rfl
  · show PSR.setCC (fetched s).psr _ = _
    rw [hdat]; rfl

/-- one supervisor step: `STR sr, b, #off` to plain memory -/
theorem step_str {Q : DevHandler → Prop} (QS : QuietSet Q) (s : Sim) (q_s : Q s.dev) (sr b : Reg) (off : BitVec 6)
    (hs : s.flags.strict = false) (hp : PSR.privileged s.psr = true) (hpc : s.pc.toNat < IO_START)
    (hd : SimInstr.decode (s.memAt s.pc).data = .ok (.str sr b off))
    (ha : ((s.reg b).data + off.signExtend 16).toNat < IO_START) :
    ∃ t, Sim.step s = (.ok (), t) ∧ t.pc = s.pc + 1 ∧ t.regs = s.regs ∧ t.psr = s.psr ∧ t.dev = s.dev ∧
      ctl t = ctl s ∧ t.memAt ((s.reg b).data + off.signExtend 16) = s.reg sr ∧
      (∀ a, a ≠ (s.reg b).data + off.signExtend 16 → t.memAt a = s.memAt a) ∧ Q t.dev := by
  have hx := C08.exec_str (fetched s) sr b off hs
  have ha' : (((fetched s).reg b).data + off.signExtend 16).toNat < IO_START := ha
  rw [Sim.writeMem_plain_eq _ _ _ _ (Or.inl (priv_ctx (s := fetched s) hp)) ha' (by simp [defaultCtx, fetched, hs]) rfl] at hx
  refine ⟨_, step_of_exec QS s _ _ hs hp hpc hd q_s hx, rfl, rfl, rfl, rfl, rfl, ?_, ?_, q_s⟩
  · show (Sim.setMem _ _ _).memAt _ = _
    rw [Sim.memAt_setMem]; exact if_pos rfl
  · intro a hne
    show (Sim.setMem _ _ _).memAt _ = _
    rw [Sim.memAt_setMem]; exact if_neg (fun e => hne e.symm)

/-- one supervisor step: `LDR dr, b, #off` from plain memory -/
theorem step_ldr {Q : DevHandler → Prop} (QS : QuietSet Q) (s : Sim) (q_s : Q s.dev) (dr b : Reg) (off : BitVec 6)
    (hs : s.flags.strict = false) (hp : PSR.privileged s.psr = true) (hpc : s.pc.toNat < IO_START)
    (hd : SimInstr.decode (s.memAt s.pc).data = .ok (.ldr dr b off))
    (ha : ((s.reg b).data + off.signExtend 16).toNat < IO_START) :
    ∃ t, Sim.step s = (.ok (), t) ∧ t.pc = s.pc + 1 ∧ t.reg dr = s.memAt ((s.reg b).data + off.signExtend 16) ∧
      (∀ r, r ≠ dr → t.reg r = s.reg r) ∧
      t.psr = ccOf s.psr (s.memAt ((s.reg b).data + off.signExtend 16)).data ∧ t.dev = s.dev ∧
      ctl t = ctl s ∧ t.mem = s.mem ∧ Q t.dev := by
  have hx := C08.exec_ldr (fetched s) dr b off hs
  have ha' : (((fetched s).reg b).data + off.signExtend 16).toNat < IO_START := ha
  rw [Sim.readMem_plain_eq _ _ _ (Or.inl (priv_ctx (s := fetched s) hp)) ha' rfl] at hx
  refine ⟨_, step_of_exec QS s _ _ hs hp hpc hd q_s hx, rfl, ?_, ?_, rfl, rfl, rfl, rfl, q_s⟩
  · show (Sim.setReg _ dr _).reg dr = _
    rw [Sim.reg_setReg, if_pos rfl]; rfl
  · intro r hr
    show (Sim.setReg _ dr _).reg r = _
    rw [Sim.reg_setReg, if_neg (Ne.symm hr)]; rfl

/-- a tracked privileged non-strict write to a device port (not an internal register) -/
theorem writeMem_io (s : Sim) (a : W) (w : Word) (c : Ctx) (ok : Bool) (d' : DevHandler) (hp : c.privileged = true)
    (hio : IO_START ≤ a.toNat) (hlk : s.iregLookup a = none) (hw : s.dev.ioWrite a w.data = (ok, d'))
    (hs : c.strict = false) (ht : c.track = true) :
    ∃ t, writeMem a w c s = (.ok (), t) ∧ t.dev = d' ∧ t.regs = s.regs ∧ t.pc = s.pc ∧ t.psr = s.psr ∧
      ctl t = ctl s ∧ (∀ b, b ≠ a → t.memAt b = s.memAt b) := by
  have hg : (!c.privileged && !inUser a) = false := by simp [hp]
  have hlk' : ∀ l, ({ s with log := l } : Sim).iregLookup a = none := fun _ => hlk
  simp only [writeMem, hg, ioWritePart, hio, hs, Word.getIfInit_nonstrict, hlk', hw, storePart, ht,
    Word.setIfInit_nonstrict, if_true, if_false, Bool.false_eq_true]
  cases ok
  · exact ⟨_, rfl, rfl, rfl, rfl, rfl, rfl, fun _ _ => rfl⟩
  · refine ⟨_, rfl, rfl, rfl, rfl, rfl, rfl, ?_⟩
    intro b hb
    show (Sim.setMem _ a _).memAt b = _
    rw [Sim.memAt_setMem, if_neg (Ne.symm hb)]

/-- one supervisor step: `STI sr` through a plain pointer cell to a device port -/
theorem step_sti_io {Q : DevHandler → Prop} (QS : QuietSet Q) (s : Sim) (q_s : Q s.dev) (sr : Reg) (off : BitVec 9) (port : W) (ok : Bool) (d' : DevHandler)
    (hs : s.flags.strict = false) (hp : PSR.privileged s.psr = true) (hpc : s.pc.toNat < IO_START)
    (hd : SimInstr.decode (s.memAt s.pc).data = .ok (.sti sr off))
    (hptr : (s.pc + 1 + off.signExtend 16).toNat < IO_START)
    (hpv : (s.memAt (s.pc + 1 + off.signExtend 16)).data = port)
    (hio : IO_START ≤ port.toNat) (hlk : s.iregLookup port = none)
    (hw : s.dev.ioWrite port (s.reg sr).data = (ok, d')) (q_d : Q d') :
    ∃ t, Sim.step s = (.ok (), t) ∧ t.pc = s.pc + 1 ∧ t.regs = s.regs ∧ t.psr = s.psr ∧ t.dev = d' ∧
      ctl t = ctl s ∧ MemLow s t ∧ Q t.dev := by
  have hx := C08.exec_sti (fetched s) sr off hs
  have hptr' : ((fetched s).pc + off.signExtend 16).toNat < IO_START := hptr
  rw [Sim.readMem_plain_eq (fetched s) _ _ (Or.inl (priv_ctx (s := fetched s) hp)) hptr' rfl] at hx
  have hpv' : ((fetched s).memAt ((fetched s).pc + off.signExtend 16)).data = port := hpv
  simp only [hpv'] at hx
  obtain ⟨t, hwr, tdev, tregs, tpc, tpsr, tctl, tmem⟩ := writeMem_io
    { fetched s with log := ⟨(fetched s).pc + off.signExtend 16, false, (fetched s).defaultCtx.privileged, true⟩ :: (fetched s).log,
                     observer := obsUpdate (fetched s).observer ((fetched s).pc + off.signExtend 16) OBS_READ }
    port (s.reg sr)
    { privileged := PSR.privileged s.psr || s.flags.ignorePriv, strict := false, ioEffects := true, track := true }
    ok d' (by simp [hp]) hio hlk hw rfl rfl
  have hx' : execInstr (.sti sr off) (fetched s) = (.ok (), t) := hx.trans hwr
  refine ⟨countInstr t, step_of_exec QS s t _ hs hp hpc hd q_s hx', tpc, tregs, tpsr, tdev, tctl, ?_,
    by show Q t.dev; rw [tdev]; exact q_d⟩
  intro b hb
  exact tmem b (by intro e; rw [e] at hb; omega)

/-! ### the OS image in memory -/
open C11

/-- the OS image is in memory (every defined word of the generated image is at its address, initialised) -/
def OsLoaded (s : Sim) : Prop := ∀ a w, osWord a = some w → s.memAt (BitVec.ofNat 16 a) = Word.ofData w

theorem osWord_lt {a : Nat} {w : W} (h : osWord a = some w) : a < 767 := by
  unfold osWord at h
  rcases hq : Gen.osWords0[a]? with _ | x
  · rw [hq] at h; cases h
  · have := (List.getElem?_eq_some_iff.mp hq).1
    rw [Gen.osWords0_length] at this; exact this

theorem OsLoaded.of_memLow {s t : Sim} (h : OsLoaded s) (hm : MemLow s t) : OsLoaded t := by
  intro a w ha
  have := osWord_lt ha
  rw [hm _ (by rw [BitVec.toNat_ofNat]; unfold IO_START; omega)]; exact h a w ha

theorem dec_spec {a : Nat} {i : SimInstr} (h : dec a = some i) : ∃ w, osWord a = some w ∧ decode w = .ok i := by
  unfold dec at h
  split at h
  · rename_i w hw
    split at h
    · rename_i j hj
      cases h; exact ⟨w, hw, hj⟩
    · cases h
  · cases h

/-- an OS instruction cell, as the fetch stage sees it -/
theorem OsLoaded.decode {s : Sim} (h : OsLoaded s) {a : Nat} {i : SimInstr} (hd : dec a = some i)
    (hpc : s.pc = BitVec.ofNat 16 a) : SimInstr.decode (s.memAt s.pc).data = .ok i ∧ s.pc.toNat < 767 := by
  obtain ⟨w, hw, hdw⟩ := dec_spec hd
  have := osWord_lt hw
  rw [hpc, h a w hw]
  exact ⟨hdw, by rw [BitVec.toNat_ofNat]; omega⟩

/-- an OS pointer cell used by `LDI/STI` at `a` -/
theorem OsLoaded.pointer {s : Sim} (h : OsLoaded s) {a : Nat} {o : BitVec 9} {dev : W}
    (hv : viaPointer a o dev = true) (hpc : s.pc = BitVec.ofNat 16 a) :
    (s.pc + 1 + o.signExtend 16).toNat < IO_START ∧ (s.memAt (s.pc + 1 + o.signExtend 16)).data = dev := by
  simp only [viaPointer, beq_iff_eq] at hv
  have := osWord_lt hv
  have e : s.pc + 1 + o.signExtend 16 = BitVec.ofNat 16 (rel9 a o) := by
    rw [hpc]; unfold rel9; bv_omega
  rw [e, h _ _ hv]
  exact ⟨by rw [BitVec.toNat_ofNat]; unfold IO_START; omega, rfl⟩


/-- `n` public `step`s in a row -/
def feN : Nat → SimM Unit
  | 0 => Pure.pure ()
  | n + 1 => Sim.step >>= fun _ => feN n

theorem feN_succ {s t : Sim} (n : Nat) (h : Sim.step s = (.ok (), t)) : feN (n + 1) s = feN n t := by
  show (Sim.step >>= fun _ => feN n) s = _
  rw [bind_apply, h]

theorem feN_zero (s : Sim) : feN 0 s = (.ok (), s) := rfl

theorem feN_add {s t : Sim} (m n : Nat) (h : feN m s = (.ok (), t)) : feN (m + n) s = feN n t := by
  induction m generalizing s with
  | zero => rw [feN_zero] at h; cases h; simp
  | succ k ih =>
    rw [show k + 1 + n = (k + n) + 1 from by omega]
    show (Sim.step >>= fun _ => feN (k + n)) s = _
    have h' : (Sim.step >>= fun _ => feN k) s = (.ok (), t) := h
    rw [bind_apply] at h' ⊢
    rcases hf : Sim.step s with ⟨_ | _, u⟩
    · rw [hf] at h'; cases h'
    · rw [hf] at h'; exact ih h'

/-! ### GETC -/

theorem chkGetc_spec {a : Nat} (h : chkGetc a = true) :
    ∃ o1 ob o2, dec a = some (.ldi 0 o1) ∧ dec (a + 1) = some (.br 3 ob) ∧ dec (a + 2) = some (.ldi 0 o2) ∧
      dec (a + 3) = some .rti ∧ viaPointer a o1 0xFE00 = true ∧ rel9 (a + 1) ob = a ∧
      viaPointer (a + 2) o2 0xFE02 = true := by
  unfold chkGetc at h
  split at h
  · rename_i o1 ob o2 h0 h1 h2 h3
    simp only [Bool.and_eq_true, beq_iff_eq] at h
    exact ⟨o1, ob, o2, h0, h1, h2, h3, h.1.1, h.1.2, h.2⟩
  · cases h

/-- what every state inside a routine satisfies -/
structure InOs (s : Sim) : Prop where
  os : OsLoaded s
  nonstrict : s.flags.strict = false
  sup : PSR.privileged s.psr = true

/-- GETC, keyboard not ready: the poll reads KBSR (device goes to `d1`), and control is back at the routine's
    entry with only R0 and the condition codes changed -/
theorem getc_wait {Q : DevHandler → Prop} (QS : QuietSet Q) (x : Sim) (q_x : Q x.dev) (hx : InOs x) (hpc : x.pc = BitVec.ofNat 16 (vec 0x20))
    (hlk : x.iregLookup 0xFE00 = none) (st : W) (d1 : DevHandler)
    (hr : x.dev.ioRead 0xFE00 true = (some st, d1)) (hst : st.msb = false) :
    ∃ t, feN 2 x = (.ok (), t) ∧ t.pc = x.pc ∧ (∀ r, r ≠ 0 → t.reg r = x.reg r) ∧ t.dev = d1 ∧ ctl t = ctl x ∧
      MemLow x t ∧ InOs t ∧ PSR.priority t.psr = PSR.priority x.psr ∧ Q t.dev := by
  obtain ⟨o1, ob, o2, h0, h1, h2, h3, p1, hb, p2⟩ := chkGetc_spec getc_listing
  obtain ⟨hd0, l0⟩ := hx.os.decode h0 hpc
  obtain ⟨hp0, hv0⟩ := hx.os.pointer p1 hpc
  obtain ⟨t1, f1, pc1, r1, ro1, psr1, dev1, ctl1, mem1, q_t1⟩ := step_ldi_io QS x q_x 0 o1 0xFE00 st d1 hx.nonstrict hx.sup
    (by unfold IO_START; omega) hd0 hp0 hv0 (by decide) hlk hr
  have os1 := hx.os.of_memLow mem1
  have ns1 : t1.flags.strict = false := by
    have := congrArg (·.1) ctl1; simp only [ctl] at this; rw [this]; exact hx.nonstrict
  have sup1 : PSR.privileged t1.psr = true := by rw [psr1, ccOf, PSR.privileged_setCC]; exact hx.sup
  have hpc1 : t1.pc = BitVec.ofNat 16 (vec 0x20 + 1) := by rw [pc1, hpc]; bv_omega
  obtain ⟨hd1, l1⟩ := os1.decode h1 hpc1
  obtain ⟨t2, f2, pc2, r2, psr2, dev2, ctl2, mem2, q_t2⟩ := step_br QS t1 q_t1 3 ob ns1 sup1 (by unfold IO_START; omega) hd1
  have taken : (((3 : BitVec 3).setWidth 16) &&& PSR.cc t1.psr) ≠ 0 := by rw [psr1]; exact (brzp_ccOf _ _).mpr hst
  rw [if_pos taken] at pc2
  refine ⟨t2, ?_, ?_, ?_, ?_, ?_, mem1.trans mem2, ⟨os1.of_memLow mem2, ?_, ?_⟩,
    by rw [psr2, psr1, ccOf, PSR.priority_setCC], q_t2⟩
  · rw [feN_succ 1 f1, feN_succ 0 f2]; rfl
  · rw [pc2, hpc1, hpc]
    have hback : BitVec.ofNat 16 (vec 0x20 + 1 + 1) + ob.signExtend 16 = BitVec.ofNat 16 (vec 0x20) := by
      apply BitVec.eq_of_toNat_eq
      unfold rel9 at hb
      rw [hb, BitVec.toNat_ofNat]
      rw [hpc, BitVec.toNat_ofNat] at l0; omega
    rw [← hback]; bv_omega
  · intro r hr'
    show t2.regs[r.toNat] = _
    rw [r2]; exact ro1 r hr'
  · rw [dev2, dev1]
  · rw [ctl2, ctl1]
  · have := congrArg (·.1) ctl2; simp only [ctl] at this; rw [this]; exact ns1
  · rw [psr2]; exact sup1


theorem InOs.step {s t : Sim} (h : InOs s) (hm : MemLow s t) (hc : ctl t = ctl s)
    (hp : PSR.privileged t.psr = true) : InOs t :=
  ⟨h.os.of_memLow hm, by have := congrArg (·.1) hc; simp only [ctl] at this; rw [this]; exact h.nonstrict, hp⟩

/-- GETC, keyboard ready: KBSR is read (device `d1`), then KBDR (device `d2`, byte `b`); control is at the routine's
    RTI with the byte in R0, every other register, all memory below the I/O page and the control state unchanged -/
theorem getc_ready {Q : DevHandler → Prop} (QS : QuietSet Q) (x : Sim) (q_x : Q x.dev) (hx : InOs x) (hpc : x.pc = BitVec.ofNat 16 (vec 0x20))
    (hlk : x.iregLookup 0xFE00 = none) (hlk2 : x.iregLookup 0xFE02 = none) (st b : W) (d1 d2 : DevHandler)
    (hr : x.dev.ioRead 0xFE00 true = (some st, d1)) (hst : st.msb = true)
    (hr2 : d1.ioRead 0xFE02 true = (some b, d2)) :
    ∃ t, feN 3 x = (.ok (), t) ∧ t.pc = BitVec.ofNat 16 (vec 0x20 + 3) ∧ t.reg 0 = Word.ofData b ∧
      (∀ r, r ≠ 0 → t.reg r = x.reg r) ∧ t.dev = d2 ∧ ctl t = ctl x ∧ MemLow x t ∧ InOs t ∧
      PSR.priority t.psr = PSR.priority x.psr ∧ Q t.dev := by
  obtain ⟨o1, ob, o2, h0, h1, h2, h3, p1, hb, p2⟩ := chkGetc_spec getc_listing
  obtain ⟨hd0, l0⟩ := hx.os.decode h0 hpc
  obtain ⟨hp0, hv0⟩ := hx.os.pointer p1 hpc
  obtain ⟨t1, f1, pc1, r1, ro1, psr1, dev1, ctl1, mem1, q_t1⟩ := step_ldi_io QS x q_x 0 o1 0xFE00 st d1 hx.nonstrict hx.sup
    (by unfold IO_START; omega) hd0 hp0 hv0 (by decide) hlk hr
  have sup1 : PSR.privileged t1.psr = true := by rw [psr1, ccOf, PSR.privileged_setCC]; exact hx.sup
  have in1 := hx.step mem1 ctl1 sup1
  have hpc1 : t1.pc = BitVec.ofNat 16 (vec 0x20 + 1) := by rw [pc1, hpc]; bv_omega
  obtain ⟨hd1, l1⟩ := in1.os.decode h1 hpc1
  obtain ⟨t2, f2, pc2, r2, psr2, dev2, ctl2, mem2, q_t2⟩ := step_br QS t1 q_t1 3 ob in1.nonstrict sup1 (by unfold IO_START; omega) hd1
  have nottaken : ¬ (((3 : BitVec 3).setWidth 16) &&& PSR.cc t1.psr) ≠ 0 := by
    rw [psr1, brzp_ccOf, hst]; simp
  rw [if_neg nottaken] at pc2
  have sup2 : PSR.privileged t2.psr = true := by rw [psr2]; exact sup1
  have in2 := in1.step mem2 ctl2 sup2
  have hpc2 : t2.pc = BitVec.ofNat 16 (vec 0x20 + 2) := by rw [pc2, hpc1]; bv_omega
  obtain ⟨hd2, l2⟩ := in2.os.decode h2 hpc2
  obtain ⟨hp2, hv2⟩ := in2.os.pointer p2 hpc2
  have lk2 : t2.iregLookup 0xFE02 = none := by
    have e : t2.iregs = x.iregs := by
      have a := congrArg (·.2.1) ctl2; have b := congrArg (·.2.1) ctl1; simp only [ctl] at a b; rw [a, b]
    unfold iregLookup at hlk2 ⊢; rw [e]; exact hlk2
  obtain ⟨t3, f3, pc3, r3, ro3, psr3, dev3, ctl3, mem3, q_t3⟩ := step_ldi_io QS t2 q_t2 0 o2 0xFE02 b d2 in2.nonstrict sup2
    (by unfold IO_START; omega) hd2 hp2 hv2 (by decide) lk2 (by rw [dev2, dev1]; exact hr2)
  have sup3 : PSR.privileged t3.psr = true := by rw [psr3, ccOf, PSR.privileged_setCC]; exact sup2
  refine ⟨t3, ?_, ?_, r3, ?_, dev3, ?_, (mem1.trans mem2).trans mem3, in2.step mem3 ctl3 sup3, ?_, q_t3⟩
  · rw [feN_succ 2 f1, feN_succ 1 f2, feN_succ 0 f3]; rfl
  · rw [pc3, hpc2]; bv_omega
  · intro r hr'
    rw [ro3 r hr']
    show t2.regs[r.toNat] = _
    rw [r2]; exact ro1 r hr'
  · rw [ctl3, ctl2, ctl1]
  · rw [psr3, ccOf, PSR.priority_setCC, psr2, psr1, ccOf, PSR.priority_setCC]

open C10

set_option linter.unusedSimpArgs false in
theorem enterCore_iregs (x : Sim) (vect : W) (prio : Option Nat) (oldPsr oldPc : W) (hs : x.flags.strict = false)
    (h1 : ((x.reg R6).data - 1).toNat < IO_START) (h2 : ((x.reg R6).data - 2).toNat < IO_START) (hv : vect.toNat < IO_START) :
    (enterCore vect prio oldPsr oldPc x).2.iregs = x.iregs ∧ (enterCore vect prio oldPsr oldPc x).2.mcr = x.mcr := by
  unfold enterCore
  simp only [SimM.bind_apply, SimM.getS_apply, SimM.modifyS_apply, hs, Word.getIfInit_nonstrict, SimM.liftE_ok]
  rw [Sim.writeMem_plain_eq _ _ _ _ (Or.inl (by simp [defaultCtx])) h1 (by simp [defaultCtx, hs]) (by simp [defaultCtx])]
  simp only
  rw [Sim.writeMem_plain_eq _ _ _ _ (Or.inl (by simp [defaultCtx])) h2 (by simp [defaultCtx, hs]) (by simp [defaultCtx])]
  cases prio with
  | none =>
    simp only [SimM.pure_apply]
    rw [Sim.callInterrupt_plain _ _ _ (by simp [hs]) (by simp) hv]
    exact ⟨rfl, rfl⟩
  | some p =>
    simp only [SimM.bind_apply, SimM.modifyS_apply]
    rw [Sim.callInterrupt_plain _ _ _ (by simp [hs]) (by simp) hv]
    exact ⟨rfl, rfl⟩

theorem enterSupervisor_iregs (s : Sim) (vect : W) (prio : Option Nat) (hs : s.flags.strict = false)
    (h1 : (entrySp s - 1).toNat < IO_START) (h2 : (entrySp s - 2).toNat < IO_START) (hv : vect.toNat < IO_START) :
    (enterSupervisor vect prio s).2.iregs = s.iregs ∧ (enterSupervisor vect prio s).2.mcr = s.mcr := by
  unfold enterSupervisor
  cases hpv : PSR.privileged s.psr
  · have hsp : entrySp s = s.savedSp.data := by simp [entrySp, hpv]
    have hx6 : (s.swapStacks.reg R6) = s.savedSp := by
      dsimp only [swapStacks, Sim.reg]; rw [Vector.getElem_set_self]
    rw [hsp] at h1 h2
    simp only [Bool.not_false, if_true]
    exact enterCore_iregs s.swapStacks vect prio s.psr s.pc hs (by rw [hx6]; exact h1) (by rw [hx6]; exact h2) hv
  · have hsp : entrySp s = (s.reg R6).data := by simp [entrySp, hpv]
    rw [hsp] at h1 h2
    simp only [Bool.not_true, Bool.false_eq_true, if_false]
    exact enterCore_iregs s vect prio s.psr s.pc hs h1 h2 hv

/-- `TRAP v` with the OS loaded and the supervisor stack in plain memory above the OS image: the machine is at the
    routine the vector names, in supervisor mode, with the caller's PC and PSR on the stack -/
theorem trap_entry_os (s : Sim) (v : BitVec 8) (w : W) (hos : OsLoaded s) (hs : s.flags.strict = false)
    (h1 : 767 ≤ (entrySp s - 1).toNat ∧ (entrySp s - 1).toNat < IO_START)
    (h2 : 767 ≤ (entrySp s - 2).toNat ∧ (entrySp s - 2).toNat < IO_START)
    (hvirt : realIntVect (v.setWidth 16) = none ∨ s.flags.realTraps = true)
    (hw : osWord v.toNat = some w) :
    ∃ x, execInstr (.trap v) s = (.ok (), x) ∧ InOs x ∧ x.pc = w ∧
      x.memAt (entrySp s - 2) = Word.ofData s.pc ∧ x.memAt (entrySp s - 1) = Word.ofData s.psr ∧
      (∀ a, a ≠ entrySp s - 1 → a ≠ entrySp s - 2 → x.memAt a = s.memAt a) ∧
      (x.reg R6).data = entrySp s - 2 ∧ (∀ r, r ≠ R6 → x.reg r = s.reg r) ∧
      PSR.priority x.psr = PSR.priority s.psr ∧
      x.savedSp = (if PSR.privileged s.psr then s.savedSp else s.reg R6) ∧
      x.frameNo = s.frameNo + 1 ∧ x.dev = s.dev ∧ x.flags = s.flags ∧ x.iregs = s.iregs ∧ x.mcr = s.mcr := by
  have hv : (v.setWidth 16).toNat < IO_START := by
    have := v.isLt; simp only [BitVec.toNat_setWidth]; unfold IO_START; omega
  obtain ⟨x, he, m2, m1, mo, r6, ro, hpv, _, _, hprio, hpc, hss, hfn, hd, hf, _⟩ :=
    C10.entry s (v.setWidth 16) none hs h1.2 h2.2 hv
  obtain ⟨hir, hmcr⟩ := enterSupervisor_iregs s (v.setWidth 16) none hs h1.2 h2.2 hv
  rw [he] at hir hmcr
  have hx : execInstr (.trap v) s = (.ok (), x) := by
    rw [C08.exec_trap, C08.handle_structure]
    simp only [gated, Bool.false_eq_true, if_false]
    rcases hvirt with h | h
    · rw [h]; simp only [he]; split <;> rfl
    · simp only [h, Bool.not_true, Bool.false_eq_true, if_false, he]
  have hosx : OsLoaded x := by
    intro a w' ha
    have := osWord_lt ha
    rw [mo _ (by intro e; rw [← e, BitVec.toNat_ofNat] at h1; omega)
      (by intro e; rw [← e, BitVec.toNat_ofNat] at h2; omega)]
    exact hos a w' ha
  refine ⟨x, hx, ⟨hosx, by rw [hf]; exact hs, hpv⟩, ?_, m2, m1, mo, r6, ro, hprio rfl, hss, hfn, hd, hf, hir, hmcr⟩
  rw [hpc]
  have : v.setWidth 16 = BitVec.ofNat 16 v.toNat := by
    apply BitVec.eq_of_toNat_eq; simp [BitVec.toNat_setWidth]
  rw [this, hosx _ _ hw]; rfl


/-- a `TRAP v` instruction fetched from plain memory (user code or a routine calling another) and executed, with the
    OS loaded and the supervisor stack in plain memory above the OS image: the machine is at the routine the vector
    names, in supervisor mode, with the return address and the caller's PSR on the stack -/
theorem trap_step_os {Q : DevHandler → Prop} (QS : QuietSet Q) (s : Sim) (q_s : Q s.dev) (v : BitVec 8) (w : W) (hos : OsLoaded s) (hs : s.flags.strict = false)
    (hp : s.defaultCtx.privileged = true ∨ inUser s.pc = true) (hpc : s.pc.toNat < IO_START)
    (hd : SimInstr.decode (s.memAt s.pc).data = .ok (.trap v))
    (h1 : 767 ≤ (entrySp s - 1).toNat ∧ (entrySp s - 1).toNat < IO_START)
    (h2 : 767 ≤ (entrySp s - 2).toNat ∧ (entrySp s - 2).toNat < IO_START)
    (hvirt : realIntVect (v.setWidth 16) = none ∨ s.flags.realTraps = true)
    (hw : osWord v.toNat = some w) :
    ∃ x, Sim.step s = (.ok (), x) ∧ InOs x ∧ x.pc = w ∧
      x.memAt (entrySp s - 2) = Word.ofData (s.pc + 1) ∧ x.memAt (entrySp s - 1) = Word.ofData s.psr ∧
      (∀ a, a ≠ entrySp s - 1 → a ≠ entrySp s - 2 → x.memAt a = s.memAt a) ∧
      (x.reg R6).data = entrySp s - 2 ∧ (∀ r, r ≠ R6 → x.reg r = s.reg r) ∧
      PSR.priority x.psr = PSR.priority s.psr ∧
      x.savedSp = (if PSR.privileged s.psr then s.savedSp else s.reg R6) ∧
      x.frameNo = s.frameNo + 1 ∧ x.dev = s.dev ∧ x.flags = s.flags ∧ x.iregs = s.iregs ∧ x.mcr = s.mcr ∧
      Q x.dev := by
  obtain ⟨x, hx, inx, a1, a2, a3, a4, a5, a6, a7, a8, a9, a10, a11, a12, a13⟩ :=
    trap_entry_os (fetched s) v w hos hs h1 h2 hvirt hw
  refine ⟨countInstr x, ?_, ⟨inx.os, inx.nonstrict, inx.sup⟩, a1, a2, a3, a4, a5, a6, a7, a8, a9, a10, a11, a12, a13,
    by show Q x.dev; rw [a10]; exact q_s⟩
  exact step_quiet s _ _ (QS.dev q_s) hs hp hpc hd (by rw [fetchExec_plain s _ hs hp hpc hd, hx])

set_option linter.unusedSimpArgs false in
theorem rti_iregs (x : Sim) (hs : x.flags.strict = false) (hp : PSR.privileged x.psr = true ∨ x.flags.ignorePriv = true)
    (h1 : ((x.reg R6).data).toNat < IO_START) (h2 : ((x.reg R6).data + 1).toNat < IO_START) :
    (execInstr .rti x).2.iregs = x.iregs ∧ (execInstr .rti x).2.mcr = x.mcr := by
  have hpe : (PSR.privileged x.psr || x.flags.ignorePriv) = true := by rcases hp with h | h <;> simp [h]
  have hc1 : x.defaultCtx.privileged = true ∨ inUser (x.reg R6).data = true := by
    rcases hp with h | h
    · left; simp [defaultCtx, h]
    · left; simp [defaultCtx, h]
  unfold execInstr
  simp only [SimM.bind_apply, SimM.getS_apply, hpe, if_true, hs, Word.getIfInit_nonstrict, SimM.liftE_ok]
  rw [Sim.readMem_plain_eq _ _ _ hc1 h1 (by simp [defaultCtx])]
  simp only [Word.getIfInit_nonstrict, SimM.liftE_ok]
  rw [Sim.readMem_plain_eq _ _ _ (Or.inl (by rcases hp with h | h <;> simp [defaultCtx, h])) h2 (by simp [defaultCtx])]
  simp only [Word.getIfInit_nonstrict, SimM.liftE_ok, SimM.modifyS_apply]
  rw [Sim.setPc_nonstrict _ _ _ (by simp [hs])]
  simp only [SimM.modifyS_apply, SimM.getS_apply, Word.ofData_data]
  cases hq : PSR.privileged (x.memAt ((x.reg R6).data + 1)).data
  · simp only [hq, Bool.not_false, if_true, SimM.bind_apply, SimM.modifyS_apply]
    exact ⟨rfl, rfl⟩
  · simp only [hq, Bool.not_true, Bool.false_eq_true, if_false, SimM.pure_apply, SimM.bind_apply, SimM.modifyS_apply]
    exact ⟨rfl, rfl⟩

/-- the closing RTI of a routine, fetched and executed -/
theorem step_rti {Q : DevHandler → Prop} (QS : QuietSet Q) (t : Sim) (q_t : Q t.dev) (hs : t.flags.strict = false) (hp : PSR.privileged t.psr = true)
    (hpc : t.pc.toNat < IO_START) (hd : SimInstr.decode (t.memAt t.pc).data = .ok .rti)
    (h1 : ((t.reg R6).data).toNat < IO_START) (h2 : ((t.reg R6).data + 1).toNat < IO_START) :
    ∃ f, Sim.step t = (.ok (), f) ∧
      f.pc = (t.memAt (t.reg R6).data).data ∧ f.psr = (t.memAt ((t.reg R6).data + 1)).data ∧
      f.mem = t.mem ∧ f.frameNo = t.frameNo - 1 ∧
      (PSR.privileged (t.memAt ((t.reg R6).data + 1)).data = true →
         f.reg R6 = Word.add (t.reg R6) (Word.ofData 2) ∧ f.savedSp = t.savedSp) ∧
      (PSR.privileged (t.memAt ((t.reg R6).data + 1)).data = false →
         f.reg R6 = t.savedSp ∧ f.savedSp = Word.add (t.reg R6) (Word.ofData 2)) ∧
      (∀ r, r ≠ R6 → f.reg r = t.reg r) ∧ f.dev = t.dev ∧ f.flags = t.flags ∧ f.iregs = t.iregs ∧ f.mcr = t.mcr ∧
      Q f.dev := by
  obtain ⟨f, hx, a1, a2, a3, a4, a5, a6, a7, a8, a9⟩ := C10.rti_spec (fetched t) hs (Or.inl hp) h1 h2
  obtain ⟨b1, b2⟩ := rti_iregs (fetched t) hs (Or.inl hp) h1 h2
  rw [hx] at b1 b2
  exact ⟨countInstr f, step_of_exec QS t f _ hs hp hpc hd q_t hx, a1, a2, a3, a4, a5, a6, a7, a8, a9, b1, b2,
    by show Q f.dev; rw [a8]; exact q_t⟩


theorem lookup_of_ctl {s t : Sim} (h : ctl t = ctl s) (a : W) : t.iregLookup a = s.iregLookup a := by
  have e : t.iregs = s.iregs := by have := congrArg (·.2.1) h; simpa only [ctl] using this
  unfold iregLookup; rw [e]

/-- `n` polls of a status port that find the device not ready (bit 15 clear) -/
inductive Polls (port : W) : DevHandler → Nat → DevHandler → Prop
  | zero (d : DevHandler) : Polls port d 0 d
  | succ {d d1 d' : DevHandler} {st : W} {n : Nat} : d.ioRead port true = (some st, d1) → st.msb = false →
      Polls port d1 n d' → Polls port d (n + 1) d'

/-- GETC from its entry to its RTI, after any number of unsuccessful polls -/
theorem getc_body {Q : DevHandler → Prop} (QS : QuietSet Q) (n : Nat) : ∀ (x : Sim), Q x.dev → InOs x → x.pc = BitVec.ofNat 16 (vec 0x20) →
    x.iregLookup 0xFE00 = none → x.iregLookup 0xFE02 = none → ∀ (st b : W) (d0 d1 d2 : DevHandler),
    Polls 0xFE00 x.dev n d0 → d0.ioRead 0xFE00 true = (some st, d1) → st.msb = true →
    d1.ioRead 0xFE02 true = (some b, d2) →
    ∃ t, feN (2 * n + 3) x = (.ok (), t) ∧ t.pc = BitVec.ofNat 16 (vec 0x20 + 3) ∧ t.reg 0 = Word.ofData b ∧
      (∀ r, r ≠ 0 → t.reg r = x.reg r) ∧ t.dev = d2 ∧ ctl t = ctl x ∧ MemLow x t ∧ InOs t ∧
      PSR.priority t.psr = PSR.priority x.psr ∧ Q t.dev := by
  induction n with
  | zero =>
    intro x q_x hx hpc l1 l2 st b d0 d1 d2 hp hr hst hr2
    cases hp
    exact getc_ready QS x q_x hx hpc l1 l2 st b d1 d2 hr hst hr2
  | succ k ih =>
    intro x q_x hx hpc l1 l2 st b d0 d1 d2 hp hr hst hr2
    cases hp with
    | succ hr0 hst0 hrest =>
      obtain ⟨y, fy, pcy, ry, devy, ctly, memy, iny, pry, q_y⟩ := getc_wait QS x q_x hx hpc l1 _ _ hr0 hst0
      obtain ⟨t, ft, pct, r0t, rt, devt, ctlt, memt, int, prt, q_t⟩ :=
        ih y q_y iny (by rw [pcy]; exact hpc) (by rw [lookup_of_ctl ctly]; exact l1) (by rw [lookup_of_ctl ctly]; exact l2)
          st b d0 d1 d2 (by rw [devy]; exact hrest) hr hst hr2
      refine ⟨t, ?_, pct, r0t, ?_, devt, ctlt.trans ctly, memy.trans memt, int, ?_, q_t⟩
      · rw [show 2 * (k + 1) + 3 = 2 + (2 * k + 3) from by omega, feN_add 2 (2 * k + 3) fy]; exact ft
      · intro r hr'; rw [rt r hr', ry r hr']
      · rw [prt, pry]


theorem vec_word {v : Nat} {w : W} (h : osWord v = some w) : w = BitVec.ofNat 16 (vec v) := by
  unfold vec; rw [h]; simp

/-- what a trap routine that ends in RTI leaves behind, relative to the state `s` that executed the TRAP:
    registers other than `out` and R6, the stack pointers' values, PC, PSR, flags, and every memory cell below
    the I/O page other than the two supervisor-stack cells -/
structure Returned (s f : Sim) (ret : W) (keepR0 : Bool) (E : W → Prop) : Prop where
  pc : f.pc = ret
  psr : f.psr = s.psr
  regs : ∀ r, r ≠ R6 → (keepR0 = false → r ≠ 0) → f.reg r = s.reg r
  sp : (f.reg R6).data = (s.reg R6).data
  ssp : f.savedSp.data = s.savedSp.data
  mem : ∀ a : W, a.toNat < IO_START → a ≠ entrySp s - 1 → a ≠ entrySp s - 2 → ¬ E a → f.memAt a = s.memAt a
  flags : f.flags = s.flags
  frameNo : f.frameNo = s.frameNo
  sspSup : PSR.privileged s.psr = true → f.savedSp = s.savedSp
  iregs : f.iregs = s.iregs
  mcr : f.mcr = s.mcr
  /-- a caller in user mode gets its R6 back as a whole word (the RTI's stack switch restores the saved register) -/
  r6user : PSR.privileged s.psr = false → f.reg R6 = s.reg R6

/-- RTI at the end of a routine whose body kept R6, the saved SP and the two stack cells -/
theorem return_from {Q : DevHandler → Prop} (QS : QuietSet Q) (s x t : Sim) (q_t : Q t.dev) (ret : W) (keepR0 : Bool) (E : W → Prop)
    (h1 : (entrySp s - 1).toNat < IO_START) (h2 : (entrySp s - 2).toNat < IO_START)
    (m2 : x.memAt (entrySp s - 2) = Word.ofData ret) (m1 : x.memAt (entrySp s - 1) = Word.ofData s.psr)
    (mo : ∀ a, a ≠ entrySp s - 1 → a ≠ entrySp s - 2 → x.memAt a = s.memAt a)
    (r6 : (x.reg R6).data = entrySp s - 2) (ro : ∀ r, r ≠ R6 → x.reg r = s.reg r)
    (hss : x.savedSp = (if PSR.privileged s.psr then s.savedSp else s.reg R6))
    (hfn : x.frameNo = s.frameNo + 1) (hf : x.flags = s.flags) (hir : x.iregs = s.iregs) (hmcr : x.mcr = s.mcr)
    (int : InOs t) (tl : t.pc.toNat < IO_START) (hd : SimInstr.decode (t.memAt t.pc).data = .ok .rti)
    (tr6 : (t.reg R6).data = (x.reg R6).data) (tro : ∀ r, r ≠ R6 → (keepR0 = false → r ≠ 0) → t.reg r = x.reg r)
    (tctl : ctl t = ctl x) (tmem : ∀ a : W, a.toNat < IO_START → ¬ E a → t.memAt a = x.memAt a)
    (hE1 : ¬ E (entrySp s - 1)) (hE2 : ¬ E (entrySp s - 2)) :
    ∃ f, Sim.step t = (.ok (), f) ∧ Returned s f ret keepR0 E ∧ f.dev = t.dev ∧ (∀ r, r ≠ R6 → f.reg r = t.reg r) ∧
      Q f.dev := by
  have e1 : (t.reg R6).data + 1 = entrySp s - 1 := by rw [tr6, r6]; bv_omega
  obtain ⟨f, hx, fpc, fpsr, fmem, ffn, fk, fu, fro, fdev, ffl, fir, fmc, q_f⟩ := step_rti QS t q_t int.nonstrict int.sup tl hd
    (by rw [tr6, r6]; exact h2) (by rw [e1]; exact h1)
  rw [e1, tmem _ h1 hE1, m1] at fpsr fk fu
  rw [tr6, r6, tmem _ h2 hE2, m2] at fpc
  simp only [Word.ofData_data] at fpc fpsr fk fu
  have tss : t.savedSp = x.savedSp := by have := congrArg (·.2.2.1) tctl; simpa only [ctl] using this
  have tfn : t.frameNo = x.frameNo := by have := congrArg (·.2.2.2.2) tctl; simpa only [ctl] using this
  have tfl : t.flags = x.flags := by have := congrArg (·.1) tctl; simpa only [ctl] using this
  have tir : t.iregs = x.iregs := by have := congrArg (·.2.1) tctl; simpa only [ctl] using this
  have tmc : t.mcr = x.mcr := by have := congrArg (·.2.2.2.1) tctl; simpa only [ctl] using this
  refine ⟨f, hx, ⟨fpc, fpsr, ?_, ?_, ?_, ?_, by rw [ffl, tfl, hf], by rw [ffn, tfn, hfn]; omega,
    fun hp => by rw [(fk hp).2, tss, hss]; simp [hp], by rw [fir, tir, hir], by rw [fmc, tmc, hmcr],
    fun hp => by rw [(fu hp).1, tss, hss]; simp [hp]⟩, fdev, fro, q_f⟩
  · intro r hr hr0; rw [fro r hr, tro r hr hr0, ro r hr]
  · cases hp : PSR.privileged s.psr
    · rw [(fu hp).1, tss, hss]; simp [hp]
    · rw [(fk hp).1, C08.add_data, tr6, r6]
      have : entrySp s = (s.reg R6).data := by simp [entrySp, hp]
      rw [this]; simp only [Word.ofData_data]; bv_omega
  · cases hp : PSR.privileged s.psr
    · rw [(fu hp).2, C08.add_data, tr6, r6]
      have : entrySp s = s.savedSp.data := by simp [entrySp, hp]
      rw [this]; simp only [Word.ofData_data]; bv_omega
    · rw [(fk hp).2, tss, hss]; simp [hp]
  · intro a ha n1 n2 ne
    rw [Sim.memAt, fmem]; exact (tmem a ha ne).trans (mo a n1 n2)


theorem vec_defined_20_25 : (osWord 0x20).isSome ∧ (osWord 0x21).isSome ∧ (osWord 0x25).isSome := by decide +kernel

/-- what it takes to fetch a `TRAP v` from the cell at the PC: the fetch is permitted and the cell is in plain memory -/
structure AtTrap (s : Sim) (v : BitVec 8) : Prop where
  perm : s.defaultCtx.privileged = true ∨ inUser s.pc = true
  plain : s.pc.toNat < IO_START
  instr : SimInstr.decode (s.memAt s.pc).data = .ok (.trap v)

/-- **GETC contract.** A `TRAP x20` instruction fetched and executed from any non-strict state with the OS in memory
    and the supervisor stack in plain memory above the OS image, the keyboard answering `n` polls "not ready", then
    "ready", then the byte `b`: after the trap and the routine's `2n + 4` instructions the machine is at the
    instruction after the TRAP with `b` in R0, the keyboard advanced by exactly those reads (`d2`), and the PSR
    (condition codes, privilege, priority), every register other than R0, both stack pointers, the flags and all
    memory below the I/O page except the two supervisor-stack cells unchanged -/
theorem getc_trap {Q : DevHandler → Prop} (QS : QuietSet Q) (s : Sim) (q_s : Q s.dev) (n : Nat) (hos : OsLoaded s) (hs : s.flags.strict = false) (hat : AtTrap s 0x20)
    (h1 : 767 ≤ (entrySp s - 1).toNat ∧ (entrySp s - 1).toNat < IO_START)
    (h2 : 767 ≤ (entrySp s - 2).toNat ∧ (entrySp s - 2).toNat < IO_START)
    (l1 : s.iregLookup 0xFE00 = none) (l2 : s.iregLookup 0xFE02 = none) (st b : W) (d0 d1 d2 : DevHandler)
    (hp : Polls 0xFE00 s.dev n d0) (hr : d0.ioRead 0xFE00 true = (some st, d1)) (hst : st.msb = true)
    (hr2 : d1.ioRead 0xFE02 true = (some b, d2)) :
    ∃ f, feN (2 * n + 5) s = (.ok (), f) ∧
      Returned s f (s.pc + 1) false (fun _ => False) ∧ f.reg 0 = Word.ofData b ∧ f.dev = d2 ∧ Q f.dev := by
  obtain ⟨w, hw⟩ := Option.isSome_iff_exists.mp vec_defined_20_25.1
  obtain ⟨x, hx, inx, xpc, m2, m1, mo, r6, ro, xprio, hss, hfn, hd, hf, hir, hmcr, q_x⟩ :=
    trap_step_os QS s q_s 0x20 w hos hs hat.perm hat.plain hat.instr h1 h2 (Or.inl (by decide)) hw
  have lk : ∀ a, x.iregLookup a = s.iregLookup a := by intro a; unfold iregLookup; rw [hir]
  obtain ⟨t, ft, tpc, tr0, tro, tdev, tctl, tmem, int, _, q_t⟩ := getc_body QS n x q_x inx (by rw [xpc]; exact vec_word hw)
    (by rw [lk]; exact l1) (by rw [lk]; exact l2) st b d0 d1 d2 (by rw [hd]; exact hp) hr hst hr2
  obtain ⟨o1, ob, o2, _, _, _, h3, _, _, _⟩ := chkGetc_spec getc_listing
  obtain ⟨hdr, lr⟩ := int.os.decode h3 tpc
  obtain ⟨f, ff, ret, fdev, fro, q_f⟩ := return_from QS s x t q_t (s.pc + 1) false (fun _ => False) h1.2 h2.2 m2 m1 mo r6 ro
    hss hfn hf hir hmcr int (by unfold IO_START; omega) hdr (by rw [tro R6 (by decide)]) (fun r _ h0 => tro r (h0 rfl)) tctl
    (fun a ha _ => tmem a ha) (fun h => h) (fun h => h)
  refine ⟨f, ?_, ret, ?_, by rw [fdev, tdev], q_f⟩
  · rw [show 2 * n + 5 = 1 + ((2 * n + 3) + 1) from by omega, feN_add 1 _ (by rw [feN_succ 0 hx]; rfl),
      feN_add (2 * n + 3) 1 ft, feN_succ 0 ff]; rfl
  · rw [fro 0 (by decide), tr0]

/-! ### OUT / PUTC -/

theorem chkPutc_spec {a : Nat} (h : chkPutc a = true) :
    ∃ o1 ob o2, dec a = some (.add 6 6 (.imm 0x1F)) ∧ dec (a + 1) = some (.str 0 6 0) ∧
      dec (a + 2) = some (.ldi 0 o1) ∧ dec (a + 3) = some (.br 3 ob) ∧ dec (a + 4) = some (.ldr 0 6 0) ∧
      dec (a + 5) = some (.add 6 6 (.imm 1)) ∧ dec (a + 6) = some (.sti 0 o2) ∧ dec (a + 7) = some .rti ∧
      viaPointer (a + 2) o1 0xFE04 = true ∧ rel9 (a + 3) ob = a + 2 ∧ viaPointer (a + 6) o2 0xFE06 = true := by
  unfold chkPutc at h
  split at h
  · rename_i o1 ob o2 h0 h1 h2 h3 h4 h5 h6 h7
    simp only [Bool.and_eq_true, beq_iff_eq] at h
    exact ⟨o1, ob, o2, h0, h1, h2, h3, h4, h5, h6, h7, h.1.1, h.1.2, h.2⟩
  · cases h

/-- the state of OUT's polling loop relative to the routine's entry state `x`: R0 pushed below the entry R6 -/
structure OutLoop (x y : Sim) : Prop where
  inos : InOs y
  pc : y.pc = BitVec.ofNat 16 (vec 0x21 + 2)
  sp : (y.reg R6).data = (x.reg R6).data - 1
  cell : y.memAt ((x.reg R6).data - 1) = x.reg 0
  regs : ∀ r, r ≠ 0 → r ≠ R6 → y.reg r = x.reg r
  ctl : ctl y = ctl x
  mem : ∀ a : W, a.toNat < IO_START → a ≠ (x.reg R6).data - 1 → y.memAt a = x.memAt a
  prio : PSR.priority y.psr = PSR.priority x.psr
  lt : ((x.reg R6).data - 1).toNat < IO_START

theorem sext_m1 : (0x1F : BitVec 5).signExtend 16 = 0xFFFF := by decide
theorem sext_0 : (0 : BitVec 6).signExtend 16 = 0 := by decide
theorem sext_1 : (1 : BitVec 5).signExtend 16 = 1 := by decide

theorem InOs.of_cell {s t : Sim} (h : InOs s) (c : W) (hc : 767 ≤ c.toNat)
    (hm : ∀ a : W, a.toNat < IO_START → a ≠ c → t.memAt a = s.memAt a) (hctl : ctl t = ctl s)
    (hp : PSR.privileged t.psr = true) : InOs t := by
  refine ⟨?_, by have := congrArg (·.1) hctl; simp only [Rt.ctl] at this; rw [this]; exact h.nonstrict, hp⟩
  intro a w ha
  have := osWord_lt ha
  rw [hm _ (by rw [BitVec.toNat_ofNat]; unfold IO_START; omega)
    (by intro e; rw [← e, BitVec.toNat_ofNat] at hc; omega)]
  exact h.os a w ha

/-- OUT's prologue: push R0 -/
theorem out_push {Q : DevHandler → Prop} (QS : QuietSet Q) (x : Sim) (q_x : Q x.dev) (hx : InOs x) (hpc : x.pc = BitVec.ofNat 16 (vec 0x21))
    (hc : 767 ≤ ((x.reg R6).data - 1).toNat ∧ ((x.reg R6).data - 1).toNat < IO_START) :
    ∃ y, feN 2 x = (.ok (), y) ∧ OutLoop x y ∧ y.dev = x.dev ∧ Q y.dev := by
  obtain ⟨o1, ob, o2, h0, h1, _⟩ := chkPutc_spec putc_listing
  obtain ⟨hd0, l0⟩ := hx.os.decode h0 hpc
  obtain ⟨t1, f1, pc1, r61, ro1, psr1, dev1, ctl1, mem1, q_t1⟩ := step_add_imm QS x q_x 6 6 0x1F hx.nonstrict hx.sup
    (by unfold IO_START; omega) hd0
  have sup1 : PSR.privileged t1.psr = true := by rw [psr1, ccOf, PSR.privileged_setCC]; exact hx.sup
  have in1 : InOs t1 := hx.step (fun a _ => by rw [Sim.memAt, mem1]) ctl1 sup1
  have hpc1 : t1.pc = BitVec.ofNat 16 (vec 0x21 + 1) := by rw [pc1, hpc]; bv_omega
  obtain ⟨hd1, l1⟩ := in1.os.decode h1 hpc1
  have sp1 : (t1.reg 6).data = (x.reg R6).data - 1 := by
    rw [r61, sext_m1]; show (x.reg R6).data + 0xFFFF = _; bv_omega
  have ea : (t1.reg 6).data + (0 : BitVec 6).signExtend 16 = (x.reg R6).data - 1 := by rw [sext_0, sp1]; bv_omega
  obtain ⟨t2, f2, pc2, r2, psr2, dev2, ctl2, cell2, mem2, q_t2⟩ := step_str QS t1 q_t1 0 6 0 in1.nonstrict sup1
    (by unfold IO_START; omega) hd1 (by rw [ea]; exact hc.2)
  rw [ea] at cell2 mem2
  have regs2 : ∀ r, t2.reg r = t1.reg r := fun r => by show t2.regs[r.toNat] = _; rw [r2]
  have sup2 : PSR.privileged t2.psr = true := by rw [psr2]; exact sup1
  have m12 : ∀ a : W, a.toNat < IO_START → a ≠ (x.reg R6).data - 1 → t2.memAt a = x.memAt a := by
    intro a _ hne; rw [mem2 a hne, Sim.memAt, mem1]
  refine ⟨t2, by rw [feN_succ 1 f1, feN_succ 0 f2]; rfl,
    ⟨hx.of_cell _ hc.1 m12 (ctl2.trans ctl1) sup2, by rw [pc2, hpc1]; bv_omega, by rw [regs2]; exact sp1, ?_, ?_,
     ctl2.trans ctl1, m12, by rw [psr2, psr1, ccOf, PSR.priority_setCC], hc.2⟩, by rw [dev2, dev1], q_t2⟩
  · rw [cell2, ro1 0 (by decide)]
  · intro r h0' h6; rw [regs2, ro1 r h6]


/-- OUT, display not ready: one poll, back at the loop head -/
theorem out_wait {Q : DevHandler → Prop} (QS : QuietSet Q) (x y : Sim) (q_y : Q y.dev) (hy : OutLoop x y) (hlk : y.iregLookup 0xFE04 = none) (st : W) (d1 : DevHandler)
    (hr : y.dev.ioRead 0xFE04 true = (some st, d1)) (hst : st.msb = false) :
    ∃ t, feN 2 y = (.ok (), t) ∧ OutLoop x t ∧ t.dev = d1 ∧ Q t.dev := by
  obtain ⟨o1, ob, o2, _, _, h2, h3, _, _, _, _, p1, hb, _⟩ := chkPutc_spec putc_listing
  obtain ⟨hd0, l0⟩ := hy.inos.os.decode h2 hy.pc
  obtain ⟨hp0, hv0⟩ := hy.inos.os.pointer p1 hy.pc
  obtain ⟨t1, f1, pc1, r1, ro1, psr1, dev1, ctl1, mem1, q_t1⟩ := step_ldi_io QS y q_y 0 o1 0xFE04 st d1 hy.inos.nonstrict
    hy.inos.sup (by unfold IO_START; omega) hd0 hp0 hv0 (by decide) hlk hr
  have sup1 : PSR.privileged t1.psr = true := by rw [psr1, ccOf, PSR.privileged_setCC]; exact hy.inos.sup
  have in1 := hy.inos.step mem1 ctl1 sup1
  have hpc1 : t1.pc = BitVec.ofNat 16 (vec 0x21 + 3) := by rw [pc1, hy.pc]; bv_omega
  obtain ⟨hd1, l1⟩ := in1.os.decode h3 hpc1
  obtain ⟨t2, f2, pc2, r2, psr2, dev2, ctl2, mem2, q_t2⟩ := step_br QS t1 q_t1 3 ob in1.nonstrict sup1 (by unfold IO_START; omega) hd1
  have taken : (((3 : BitVec 3).setWidth 16) &&& PSR.cc t1.psr) ≠ 0 := by rw [psr1]; exact (brzp_ccOf _ _).mpr hst
  rw [if_pos taken] at pc2
  have sup2 : PSR.privileged t2.psr = true := by rw [psr2]; exact sup1
  have regs2 : ∀ r, t2.reg r = t1.reg r := fun r => by show t2.regs[r.toNat] = _; rw [r2]
  refine ⟨t2, by rw [feN_succ 1 f1, feN_succ 0 f2]; rfl,
    ⟨in1.step mem2 ctl2 sup2, ?_, ?_, ?_, ?_, (ctl2.trans ctl1).trans hy.ctl, ?_,
     by rw [psr2, psr1, ccOf, PSR.priority_setCC]; exact hy.prio, hy.lt⟩, by rw [dev2, dev1], q_t2⟩
  · rw [pc2, hpc1]
    have hback : BitVec.ofNat 16 (vec 0x21 + 3 + 1) + ob.signExtend 16 = BitVec.ofNat 16 (vec 0x21 + 2) := by
      apply BitVec.eq_of_toNat_eq
      unfold rel9 at hb
      rw [hb, BitVec.toNat_ofNat]
      rw [hy.pc, BitVec.toNat_ofNat] at l0; omega
    rw [← hback]; bv_omega
  · rw [regs2, ro1 R6 (by decide)]; exact hy.sp
  · rw [(mem1.trans mem2) _ hy.lt]; exact hy.cell
  · intro r h0 h6; rw [regs2, ro1 r h0]; exact hy.regs r h0 h6
  · intro a ha hne; rw [(mem1.trans mem2) a ha]; exact hy.mem a ha hne


/-- OUT, display ready: the poll, pop R0, restore R6, store R0 to DDR; control is at the routine's RTI -/
theorem out_ready {Q : DevHandler → Prop} (QS : QuietSet Q) (x y : Sim) (q_y : Q y.dev) (hy : OutLoop x y)
    (hlk : y.iregLookup 0xFE04 = none) (hlk2 : y.iregLookup 0xFE06 = none)
    (st : W) (ok : Bool) (d1 d2 : DevHandler)
    (hr : y.dev.ioRead 0xFE04 true = (some st, d1)) (hst : st.msb = true)
    (hw : d1.ioWrite 0xFE06 (x.reg 0).data = (ok, d2)) :
    ∃ t, feN 5 y = (.ok (), t) ∧ InOs t ∧ t.pc = BitVec.ofNat 16 (vec 0x21 + 7) ∧ t.reg 0 = x.reg 0 ∧
      (t.reg R6).data = (x.reg R6).data ∧ (∀ r, r ≠ 0 → r ≠ R6 → t.reg r = x.reg r) ∧ t.dev = d2 ∧
      ctl t = ctl x ∧ (∀ a : W, a.toNat < IO_START → a ≠ (x.reg R6).data - 1 → t.memAt a = x.memAt a) ∧ Q t.dev := by
  obtain ⟨o1, ob, o2, _, _, h2, h3, h4, h5, h6, _, p1, hb, p2⟩ := chkPutc_spec putc_listing
  -- LDI R0, DSR
  obtain ⟨hd0, l0⟩ := hy.inos.os.decode h2 hy.pc
  obtain ⟨hp0, hv0⟩ := hy.inos.os.pointer p1 hy.pc
  obtain ⟨t1, f1, pc1, r1, ro1, psr1, dev1, ctl1, mem1, q_t1⟩ := step_ldi_io QS y q_y 0 o1 0xFE04 st d1 hy.inos.nonstrict
    hy.inos.sup (by unfold IO_START; omega) hd0 hp0 hv0 (by decide) hlk hr
  have sup1 : PSR.privileged t1.psr = true := by rw [psr1, ccOf, PSR.privileged_setCC]; exact hy.inos.sup
  have in1 := hy.inos.step mem1 ctl1 sup1
  have hpc1 : t1.pc = BitVec.ofNat 16 (vec 0x21 + 3) := by rw [pc1, hy.pc]; bv_omega
  -- BRzp (not taken)
  obtain ⟨hd1, l1⟩ := in1.os.decode h3 hpc1
  obtain ⟨t2, f2, pc2, r2, psr2, dev2, ctl2, mem2, q_t2⟩ := step_br QS t1 q_t1 3 ob in1.nonstrict sup1 (by unfold IO_START; omega) hd1
  have nottaken : ¬ (((3 : BitVec 3).setWidth 16) &&& PSR.cc t1.psr) ≠ 0 := by
    rw [psr1, brzp_ccOf, hst]; simp
  rw [if_neg nottaken] at pc2
  have sup2 : PSR.privileged t2.psr = true := by rw [psr2]; exact sup1
  have in2 := in1.step mem2 ctl2 sup2
  have regs2 : ∀ r, t2.reg r = t1.reg r := fun r => by show t2.regs[r.toNat] = _; rw [r2]
  have hpc2 : t2.pc = BitVec.ofNat 16 (vec 0x21 + 4) := by rw [pc2, hpc1]; bv_omega
  -- LDR R0, R6, #0
  obtain ⟨hd2, l2⟩ := in2.os.decode h4 hpc2
  have sp2 : (t2.reg 6).data = (x.reg R6).data - 1 := by rw [regs2, ro1 6 (by decide)]; exact hy.sp
  have ea : (t2.reg 6).data + (0 : BitVec 6).signExtend 16 = (x.reg R6).data - 1 := by rw [sext_0, sp2]; bv_omega
  obtain ⟨t3, f3, pc3, r3, ro3, psr3, dev3, ctl3, mem3, q_t3⟩ := step_ldr QS t2 q_t2 0 6 0 in2.nonstrict sup2
    (by unfold IO_START; omega) hd2 (by rw [ea]; exact hy.lt)
  rw [ea, (mem1.trans mem2) _ hy.lt, hy.cell] at r3
  have sup3 : PSR.privileged t3.psr = true := by rw [psr3, ccOf, PSR.privileged_setCC]; exact sup2
  have in3 : InOs t3 := in2.step (fun a _ => by rw [Sim.memAt, mem3]) ctl3 sup3
  have hpc3 : t3.pc = BitVec.ofNat 16 (vec 0x21 + 5) := by rw [pc3, hpc2]; bv_omega
  -- ADD R6, R6, #1
  obtain ⟨hd3, l3⟩ := in3.os.decode h5 hpc3
  obtain ⟨t4, f4, pc4, r64, ro4, psr4, dev4, ctl4, mem4, q_t4⟩ := step_add_imm QS t3 q_t3 6 6 1 in3.nonstrict sup3
    (by unfold IO_START; omega) hd3
  have sup4 : PSR.privileged t4.psr = true := by rw [psr4, ccOf, PSR.privileged_setCC]; exact sup3
  have in4 : InOs t4 := in3.step (fun a _ => by rw [Sim.memAt, mem4]) ctl4 sup4
  have hpc4 : t4.pc = BitVec.ofNat 16 (vec 0x21 + 6) := by rw [pc4, hpc3]; bv_omega
  have sp4 : (t4.reg 6).data = (x.reg R6).data := by
    rw [r64, sext_1, ro3 6 (by decide), sp2]; bv_omega
  -- STI R0, DDR
  obtain ⟨hd4, l4⟩ := in4.os.decode h6 hpc4
  obtain ⟨hp4, hv4⟩ := in4.os.pointer p2 hpc4
  have c41 : ctl t4 = ctl y := ctl4.trans (ctl3.trans (ctl2.trans ctl1))
  have r04 : t4.reg 0 = x.reg 0 := by rw [ro4 0 (by decide)]; exact r3
  obtain ⟨t5, f5, pc5, r5, psr5, dev5, ctl5, mem5, q_t5⟩ := step_sti_io QS t4 q_t4 0 o2 0xFE06 ok d2 in4.nonstrict sup4
    (by unfold IO_START; omega) hd4 hp4 hv4 (by decide) (by rw [lookup_of_ctl c41]; exact hlk2)
    (by rw [dev4, dev3, dev2, dev1, r04]; exact hw) (QS.ofWrite (QS.ofRead q_y hr) hw)
  have sup5 : PSR.privileged t5.psr = true := by rw [psr5]; exact sup4
  have regs5 : ∀ r, t5.reg r = t4.reg r := fun r => by show t5.regs[r.toNat] = _; rw [r5]
  have m15 : ∀ a : W, a.toNat < IO_START → t5.memAt a = y.memAt a := by
    intro a ha
    rw [mem5 a ha, Sim.memAt, mem4]
    show t3.memAt a = _
    rw [Sim.memAt, mem3]
    exact (mem1.trans mem2) a ha
  refine ⟨t5, ?_, in4.step mem5 ctl5 sup5, by rw [pc5, hpc4]; bv_omega, by rw [regs5]; exact r04,
    by rw [regs5]; exact sp4, ?_, dev5, (ctl5.trans c41).trans hy.ctl, ?_, q_t5⟩
  · rw [feN_succ 4 f1, feN_succ 3 f2, feN_succ 2 f3, feN_succ 1 f4, feN_succ 0 f5]; rfl
  · intro r h0 h6'
    rw [regs5, ro4 r h6', ro3 r h0, regs2, ro1 r h0]; exact hy.regs r h0 h6'
  · intro a ha hne; rw [m15 a ha]; exact hy.mem a ha hne


/-- OUT's loop from its head to the RTI, after any number of unsuccessful polls -/
theorem out_loop {Q : DevHandler → Prop} (QS : QuietSet Q) (n : Nat) : ∀ (x y : Sim), Q y.dev → OutLoop x y → y.iregLookup 0xFE04 = none → y.iregLookup 0xFE06 = none →
    ∀ (st : W) (ok : Bool) (d0 d1 d2 : DevHandler),
    Polls 0xFE04 y.dev n d0 → d0.ioRead 0xFE04 true = (some st, d1) → st.msb = true →
    d1.ioWrite 0xFE06 (x.reg 0).data = (ok, d2) →
    ∃ t, feN (2 * n + 5) y = (.ok (), t) ∧ InOs t ∧ t.pc = BitVec.ofNat 16 (vec 0x21 + 7) ∧ t.reg 0 = x.reg 0 ∧
      (t.reg R6).data = (x.reg R6).data ∧ (∀ r, r ≠ 0 → r ≠ R6 → t.reg r = x.reg r) ∧ t.dev = d2 ∧
      ctl t = ctl x ∧ (∀ a : W, a.toNat < IO_START → a ≠ (x.reg R6).data - 1 → t.memAt a = x.memAt a) ∧ Q t.dev := by
  induction n with
  | zero =>
    intro x y q_y hy l1 l2 st ok d0 d1 d2 hp hr hst hw
    cases hp
    exact out_ready QS x y q_y hy l1 l2 st ok d1 d2 hr hst hw
  | succ k ih =>
    intro x y q_y hy l1 l2 st ok d0 d1 d2 hp hr hst hw
    cases hp with
    | succ hr0 hst0 hrest =>
      obtain ⟨y', fy, hy', devy, q_y'⟩ := out_wait QS x y q_y hy l1 _ _ hr0 hst0
      have cc : ctl y' = ctl y := hy'.ctl.trans hy.ctl.symm
      obtain ⟨t, ft, rest⟩ := ih x y' q_y' hy' (by rw [lookup_of_ctl cc]; exact l1) (by rw [lookup_of_ctl cc]; exact l2)
        st ok d0 d1 d2 (by rw [devy]; exact hrest) hr hst hw
      refine ⟨t, ?_, rest⟩
      rw [show 2 * (k + 1) + 5 = 2 + (2 * k + 5) from by omega, feN_add 2 (2 * k + 5) fy]; exact ft

/-- **OUT / PUTC contract.** A `TRAP x21` instruction fetched and executed from any non-strict state with the OS in
    memory and three supervisor-stack cells in plain memory above the OS image, the display answering `n` polls
    "not ready", then "ready": after the trap and the routine's `2n + 8` instructions the machine is at the
    instruction after the TRAP, the display has received exactly one write of R0 to DDR (`d2`) after those status
    reads, and the PSR, every register (R0 included), both stack pointers, the flags and all memory below the I/O
    page except three supervisor-stack cells are unchanged -/
theorem out_trap {Q : DevHandler → Prop} (QS : QuietSet Q) (s : Sim) (q_s : Q s.dev) (n : Nat) (hos : OsLoaded s) (hs : s.flags.strict = false) (hat : AtTrap s 0x21)
    (h1 : 767 ≤ (entrySp s - 1).toNat ∧ (entrySp s - 1).toNat < IO_START)
    (h2 : 767 ≤ (entrySp s - 2).toNat ∧ (entrySp s - 2).toNat < IO_START)
    (h3 : 767 ≤ (entrySp s - 3).toNat ∧ (entrySp s - 3).toNat < IO_START)
    (l1 : s.iregLookup 0xFE04 = none) (l2 : s.iregLookup 0xFE06 = none) (st : W) (ok : Bool) (d0 d1 d2 : DevHandler)
    (hp : Polls 0xFE04 s.dev n d0) (hr : d0.ioRead 0xFE04 true = (some st, d1)) (hst : st.msb = true)
    (hw : d1.ioWrite 0xFE06 (s.reg 0).data = (ok, d2)) :
    ∃ f, feN (2 * n + 9) s = (.ok (), f) ∧
      Returned s f (s.pc + 1) true (fun a => a = entrySp s - 3) ∧ f.dev = d2 ∧ Q f.dev := by
  obtain ⟨w, hw'⟩ := Option.isSome_iff_exists.mp vec_defined_20_25.2.1
  obtain ⟨x, hx, inx, xpc, m2, m1, mo, r6, ro, xprio, hss, hfn, hd, hf, hir, hmcr, q_x⟩ :=
    trap_step_os QS s q_s 0x21 w hos hs hat.perm hat.plain hat.instr h1 h2 (Or.inl (by decide)) hw'
  have lk : ∀ a, x.iregLookup a = s.iregLookup a := by intro a; unfold iregLookup; rw [hir]
  have c3 : (x.reg R6).data - 1 = entrySp s - 3 := by rw [r6]; bv_omega
  obtain ⟨y, fy, hy, devy, q_y⟩ := out_push QS x q_x inx (by rw [xpc]; exact vec_word hw') (by rw [c3]; exact h3)
  have lky : ∀ a, y.iregLookup a = s.iregLookup a := by intro a; rw [lookup_of_ctl hy.ctl, lk]
  obtain ⟨t, ft, int, tpc, tr0, tsp, tro, tdev, tctl, tmem, q_t⟩ := out_loop QS n x y q_y hy (by rw [lky]; exact l1)
    (by rw [lky]; exact l2) st ok d0 d1 d2 (by rw [devy, hd]; exact hp) hr hst
    (by rw [ro 0 (by decide)]; exact hw)
  obtain ⟨_, _, _, _, _, _, _, _, _, _, h7, _⟩ := chkPutc_spec putc_listing
  obtain ⟨hdr, lr⟩ := int.os.decode h7 tpc
  obtain ⟨f, ff, ret, fdev, fro, q_f⟩ := return_from QS s x t q_t (s.pc + 1) true (fun a => a = entrySp s - 3) h1.2 h2.2 m2 m1
    mo r6 ro hss hfn hf hir hmcr int (by unfold IO_START; omega) hdr tsp
    (fun r h6 _ => by
      by_cases h0 : r = 0
      · rw [h0]; exact tr0
      · exact tro r h0 h6) tctl
    (fun a ha hne => tmem a ha (by rw [c3]; exact hne)) (by intro e; bv_omega) (by intro e; bv_omega)
  refine ⟨f, ?_, ret, by rw [fdev, tdev], q_f⟩
  rw [show 2 * n + 9 = 1 + (2 + ((2 * n + 5) + 1)) from by omega, feN_add 1 _ (by rw [feN_succ 0 hx]; rfl),
    feN_add 2 _ fy, feN_add (2 * n + 5) 1 ft, feN_succ 0 ff]; rfl

/-! ### HALT -/

/-- a privileged non-strict tracked write to the address that is mapped to MCR sets the MCR bit from bit 15 of
    the data, mirrors the word into the backing cell, and changes nothing else that is architecturally visible -/
theorem writeMem_mcr (s : Sim) (a : W) (w : Word) (c : Ctx) (hp : c.privileged = true)
    (hio : IO_START ≤ a.toNat) (hlk : s.iregLookup a = some .mcr) (hs : c.strict = false) (ht : c.track = true) :
    ∃ t, writeMem a w c s = (.ok (), t) ∧ t.mcr = w.data.msb ∧ t.pc = s.pc ∧ t.regs = s.regs ∧ t.psr = s.psr ∧
      t.dev = s.dev ∧ t.flags = s.flags ∧ t.iregs = s.iregs ∧ t.savedSp = s.savedSp ∧
      (∀ b, b ≠ a → t.memAt b = s.memAt b) := by
  have hg : (!c.privileged && !inUser a) = false := by simp [hp]
  have hlk' : ∀ l, ({ s with log := l } : Sim).iregLookup a = some .mcr := fun _ => hlk
  simp only [writeMem, hg, ioWritePart, hio, hs, Word.getIfInit_nonstrict, hlk', iregWrite, storePart, ht,
    Word.setIfInit_nonstrict, if_true, if_false, Bool.false_eq_true]
  refine ⟨_, rfl, rfl, rfl, rfl, rfl, rfl, rfl, rfl, rfl, ?_⟩
  intro b hb
  rw [Sim.memAt_setMem, if_neg (Ne.symm hb)]

def afterRead (t : Sim) (a : W) : Sim :=
  { t with log := ⟨a, false, t.defaultCtx.privileged, true⟩ :: t.log, observer := obsUpdate t.observer a OBS_READ }

def afterAnd (s : Sim) : Sim :=
  (((fetched s).setReg 7 (((fetched s).reg 7).and ((fetched s).operand2 (ImmOrReg.imm 0)))).setCCOf
                (((fetched s).reg 7).and ((fetched s).operand2 (ImmOrReg.imm 0))).data).countInstr

/-- the two instructions of the HALT routine, from any supervisor-mode non-strict state at its entry, clear the
    machine-control bit: `AND R7,R7,#0 ; STI R7,ptr` with `ptr` holding xFFFE and xFFFE mapped to MCR -/
theorem halt_two_steps (s : Sim) (o : BitVec 9)
    (hs : s.flags.strict = false) (hsup : PSR.privileged s.psr = true)
    (hpc : s.pc.toNat + 1 < IO_START)
    (h0 : SimInstr.decode (s.memAt s.pc).data = .ok (.and 7 7 (.imm 0)))
    (h1 : SimInstr.decode (s.memAt (s.pc + 1)).data = .ok (.sti 7 o))
    (hptr : (s.pc + 2 + o.signExtend 16).toNat < IO_START)
    (hp : (s.memAt (s.pc + 2 + o.signExtend 16)).data = 0xFFFE)
    (hm : s.iregLookup 0xFFFE = some .mcr) :
    ∃ s2, (fetchExec >>= fun _ => fetchExec) s = (.ok (), s2) ∧ s2.mcr = false ∧ s2.pc = s.pc + 2 ∧
      s2.reg 7 = Word.ofData 0 ∧ s2.psr = PSR.setCC s.psr 2 ∧ (∀ r, r ≠ 7 → s2.reg r = s.reg r) ∧
      (∀ a : W, a ≠ 0xFFFE → s2.memAt a = s.memAt a) ∧ s2.dev = s.dev := by
  have hpriv : s.defaultCtx.privileged = true := by simp [defaultCtx, hsup]
  rw [bind_apply, fetchExec_plain s _ hs (Or.inl hpriv) (by omega) h0]
  rw [C08.exec_and _ _ _ _ (by exact hs)]
  show ∃ s2, fetchExec (afterAnd s) = (.ok (), s2) ∧ _
  have e1pc : (afterAnd s).pc = s.pc + 1 := rfl
  have e1mem : (afterAnd s).mem = s.mem := rfl
  have e1flags : (afterAnd s).flags = s.flags := rfl
  have e1iregs : (afterAnd s).iregs = s.iregs := rfl
  have e1dev : (afterAnd s).dev = s.dev := rfl
  have e1psr : (afterAnd s).psr = PSR.setCC s.psr 2 := by
    simp [afterAnd, countInstr, setCCOf, operand2, Word.and, fetched, IOff.get]
  have e1r7 : (afterAnd s).reg 7 = Word.ofData 0 := by
    show ((fetched s).setReg 7 _).reg 7 = _
    rw [Sim.reg_setReg]
    simp only [if_true, operand2, Word.and, IOff.get, Word.ofData, Word.mk.injEq, Word.ALL]
    constructor
    · simp
    · bits16
  have e1r : ∀ r, r ≠ 7 → (afterAnd s).reg r = s.reg r := by
    intro r hr
    show ((fetched s).setReg 7 _).reg r = _
    rw [Sim.reg_setReg, if_neg (Ne.symm hr)]; rfl
  have e1memAt : ∀ a, (afterAnd s).memAt a = s.memAt a := fun _ => rfl
  have e1lk : (afterAnd s).iregLookup 0xFFFE = some .mcr := hm
  have e1priv : (afterAnd s).defaultCtx.privileged = true := by
    simp only [defaultCtx, e1psr, PSR.privileged_setCC, hsup, Bool.true_or]
  generalize afterAnd s = s1 at *
  have hs1 : s1.flags.strict = false := by rw [e1flags]; exact hs
  rw [fetchExec_plain s1 (.sti 7 o) hs1 (Or.inl e1priv) (by rw [e1pc]; bv_omega) (by rw [e1memAt, e1pc]; exact h1)]
  rw [C08.exec_sti _ _ _ (by exact hs1)]
  have fpc : (fetched s1).pc + o.signExtend 16 = s.pc + 2 + o.signExtend 16 := by
    show s1.pc + 1 + _ = _
    rw [e1pc]; bv_omega
  have fpriv : (fetched s1).defaultCtx.privileged = true := e1priv
  rw [fpc]
  rw [Sim.readMem_plain_eq (fetched s1) _ _ (Or.inl fpriv) hptr rfl]
  have hpd : ((fetched s1).memAt (s.pc + 2 + o.signExtend 16)).data = 0xFFFE := by
    show (s1.memAt _).data = _
    rw [e1memAt]; exact hp
  simp only [hpd]
  obtain ⟨t, hw, tmcr, tpc, tregs, tpsr, tdev, -, -, -, tmem⟩ := writeMem_mcr
    (afterRead (fetched s1) (s.pc + 2 + o.signExtend 16)) 0xFFFE (s1.reg 7)
    { privileged := (fetched s1).defaultCtx.privileged, strict := false, ioEffects := true, track := true }
    fpriv (by decide) e1lk rfl rfl
  refine ⟨countInstr t, ?_, ?_⟩
  · exact congrArg (fun r => match r with | (Except.ok _, t) => (Except.ok (), countInstr t) | (Except.error e, t) => (Except.error e, t)) hw
  · refine ⟨?_, ?_, ?_, ?_, ?_, ?_, ?_⟩
    · show t.mcr = false
      rw [tmcr, e1r7]; rfl
    · show t.pc = _
      rw [tpc]; show s1.pc + 1 = _; rw [e1pc]; bv_omega
    · show t.regs[7] = _
      rw [tregs]; exact e1r7
    · show t.psr = _
      rw [tpsr]; exact e1psr
    · intro r hr
      show t.regs[r.toNat] = _
      rw [tregs]; exact e1r r hr
    · intro a ha
      show t.memAt a = _
      rw [tmem a ha]; exact e1memAt a
    · show t.dev = _
      rw [tdev]; exact e1dev
/-- the same as two public steps, when the poll is quiet -/
theorem halt_two_public {Q : DevHandler → Prop} (QS : QuietSet Q) (s : Sim) (q_s : Q s.dev) (o : BitVec 9)
    (hs : s.flags.strict = false) (hsup : PSR.privileged s.psr = true)
    (hpc : s.pc.toNat + 1 < IO_START)
    (h0 : SimInstr.decode (s.memAt s.pc).data = .ok (.and 7 7 (.imm 0)))
    (h1 : SimInstr.decode (s.memAt (s.pc + 1)).data = .ok (.sti 7 o))
    (hptr : (s.pc + 2 + o.signExtend 16).toNat < IO_START)
    (hp : (s.memAt (s.pc + 2 + o.signExtend 16)).data = 0xFFFE)
    (hm : s.iregLookup 0xFFFE = some .mcr) :
    ∃ s2, feN 2 s = (.ok (), s2) ∧ s2.mcr = false ∧ s2.pc = s.pc + 2 ∧
      s2.reg 7 = Word.ofData 0 ∧ s2.psr = PSR.setCC s.psr 2 ∧ (∀ r, r ≠ 7 → s2.reg r = s.reg r) ∧
      (∀ a : W, a ≠ 0xFFFE → s2.memAt a = s.memAt a) ∧ s2.dev = s.dev ∧ Q s2.dev := by
  obtain ⟨s2, h, a1, a2, a3, a4, a5, a6, a7⟩ := halt_two_steps s o hs hsup hpc h0 h1 hptr hp hm
  have hpriv : s.defaultCtx.privileged = true := by simp [defaultCtx, hsup]
  have hf1 : fetchExec s = (.ok (), afterAnd s) := by
    rw [fetchExec_plain s _ hs (Or.inl hpriv) (by omega) h0, C08.exec_and _ _ _ _ (by exact hs)]; rfl
  rw [bind_apply, hf1] at h
  have h' : fetchExec (afterAnd s) = (.ok (), s2) := h
  have st1 := step_quiet s _ _ (QS.dev q_s) hs (Or.inl hpriv) (by omega) h0 hf1
  have e1psr : (afterAnd s).psr = PSR.setCC s.psr 2 := by
    simp [afterAnd, countInstr, setCCOf, operand2, Word.and, fetched, IOff.get]
  have e1priv : (afterAnd s).defaultCtx.privileged = true := by
    simp only [defaultCtx, e1psr, PSR.privileged_setCC, hsup, Bool.true_or]
  have q1 : Q (afterAnd s).dev := q_s
  have st2 := step_quiet (afterAnd s) s2 (.sti 7 o) (QS.dev q1) hs (Or.inl e1priv)
    (by show (s.pc + 1).toNat < IO_START; unfold IO_START at *; bv_omega) h1 h'
  exact ⟨s2, by rw [feN_succ 1 st1, feN_succ 0 st2]; rfl, a1, a2, a3, a4, a5, a6, a7, by rw [a7]; exact q_s⟩

theorem chkHalt_spec {a : Nat} (h : chkHalt a = true) :
    ∃ o ob, dec a = some (.and 7 7 (.imm 0)) ∧ dec (a + 1) = some (.sti 7 o) ∧ dec (a + 2) = some (.br 7 ob) ∧
      osWord (rel9 (a + 1) o) = some 0xFFFE ∧ rel9 (a + 2) ob = a := by
  unfold chkHalt at h
  split at h
  · rename_i o ob h0 h1 h2
    simp only [Bool.and_eq_true, viaPointer, beq_iff_eq] at h
    exact ⟨o, ob, h0, h1, h2, h.1, h.2⟩
  · cases h

/-- HALT contract on the OS image of the current tree: from any non-strict supervisor-mode state with the OS in memory
    and the PC at the routine the x25 vector points to, the first two instructions clear the MCR bit and touch
    nothing but R7, the condition codes and the MCR cell -/
theorem halt_contract {Q : DevHandler → Prop} (QS : QuietSet Q) (s : Sim) (q_s : Q s.dev) (hos : OsLoaded s) (hs : s.flags.strict = false)
    (hsup : PSR.privileged s.psr = true) (hpc : s.pc = BitVec.ofNat 16 (vec 0x25))
    (hm : s.iregLookup 0xFFFE = some .mcr) :
    ∃ s2, feN 2 s = (.ok (), s2) ∧ s2.mcr = false ∧
      (∀ r, r ≠ 7 → s2.reg r = s.reg r) ∧ (∀ a : W, a ≠ 0xFFFE → s2.memAt a = s.memAt a) ∧ s2.dev = s.dev ∧ Q s2.dev := by
  obtain ⟨o, ob, h0, h1, -, hp, -⟩ := chkHalt_spec halt_listing
  obtain ⟨w0, hw0, hd0⟩ := dec_spec h0
  obtain ⟨w1, hw1, hd1⟩ := dec_spec h1
  have l0 := osWord_lt hw0
  have l1 := osWord_lt hw1
  have lp := osWord_lt hp
  have m0 := hos _ _ hw0
  have m1 := hos _ _ hw1
  have mp := hos _ _ hp
  have e1 : s.pc + 1 = BitVec.ofNat 16 (vec 0x25 + 1) := by rw [hpc]; bv_omega
  have ep : s.pc + 2 + o.signExtend 16 = BitVec.ofNat 16 (rel9 (vec 0x25 + 1) o) := by
    rw [hpc]; unfold rel9; bv_omega
  have hio : IO_START = 0xFE00 := rfl
  obtain ⟨s2, h, hmcr, -, -, -, hr, hmem, hdev, q2⟩ := halt_two_public QS s q_s o hs hsup
    (by rw [hpc, BitVec.toNat_ofNat]; omega)
    (by rw [hpc, m0]; exact hd0) (by rw [e1, m1]; exact hd1)
    (by rw [ep, BitVec.toNat_ofNat]; omega) (by rw [ep, mp]; rfl) hm
  exact ⟨s2, h, hmcr, hr, hmem, hdev, q2⟩

/-- with the MCR bit clear the run loop stops at once, and the pause reason counts as a halt -/
theorem mcr_off_stops (tw : Tripwire) (fuel iter : Nat) (s : Sim) (h : s.mcr = false) :
    runLoop tw (fuel + 1) iter s = some (.ok .mcrOff, s) := by
  simp [runLoop, h]


/-! ### the OS image is what `Simulator::new` / `reset` load -/

def cpStep (acc : Mem × W) (o : Option W) : Mem × W :=
    let a := acc.2
    let cell := acc.1[a.toNat]'(a.isLt)
    let cell' := match o with
      | some w => Word.ofData w
      | none => cell.clearInit
    (acc.1.set a.toNat cell' a.isLt, a + 1)

theorem copyObjBlock_eq (mem : Mem) (start : W) (data : List (Option W)) :
    copyObjBlock mem start data = (data.foldl cpStep (mem, start)).1 := rfl

theorem cp_frame (data : List (Option W)) : ∀ (mem : Mem) (start : W) (j : Nat) (hj : j < 65536),
    j < start.toNat → start.toNat + data.length ≤ 65536 →
    (data.foldl cpStep (mem, start)).1[j] = mem[j] := by
  induction data with
  | nil => intros; rfl
  | cons o rest ih =>
    intro mem start j hj hlt hlen
    simp only [List.foldl_cons, List.length_cons] at hlen ⊢
    cases rest with
    | nil => simp only [List.foldl_nil, cpStep]; rw [Vector.getElem_set_ne]; omega
    | cons o2 r2 =>
      have hs : (start + 1).toNat = start.toNat + 1 := by
        simp only [List.length_cons] at hlen; bv_omega
      show (List.foldl cpStep (cpStep (mem, start) o) (o2 :: r2)).1[j] = _
      have := ih (cpStep (mem, start) o).1 (start + 1) j hj (by rw [hs]; omega) (by rw [hs]; omega)
      rw [show cpStep (mem, start) o = ((cpStep (mem, start) o).1, start + 1) from rfl, this]
      simp only [cpStep]; rw [Vector.getElem_set_ne]; omega

theorem cp_get (data : List (Option W)) : ∀ (mem : Mem) (start : W) (i : Nat) (w : W),
    start.toNat + data.length ≤ 65536 → data[i]? = some (some w) →
    ∃ h : start.toNat + i < 65536, (data.foldl cpStep (mem, start)).1[start.toNat + i] = Word.ofData w := by
  induction data with
  | nil => intro _ _ _ _ _ h; simp at h
  | cons o rest ih =>
    intro mem start i w hlen hi
    simp only [List.length_cons] at hlen
    have hi' : i < (o :: rest).length := by
      rcases Nat.lt_or_ge i (o :: rest).length with h | h
      · exact h
      · rw [List.getElem?_eq_none h] at hi; cases hi
    simp only [List.length_cons] at hi'
    refine ⟨by omega, ?_⟩
    show (List.foldl cpStep ((cpStep (mem, start) o).1, start + 1) rest).1[start.toNat + i] = _
    cases i with
    | zero =>
      simp only [List.getElem?_cons_zero, Option.some.injEq] at hi
      subst hi
      cases rest with
      | nil => simp [cpStep]
      | cons o2 r2 =>
        have hs : (start + 1).toNat = start.toNat + 1 := by
          simp only [List.length_cons] at hlen; bv_omega
        rw [cp_frame _ _ _ _ (by omega) (by rw [hs]; omega) (by rw [hs]; omega)]
        simp [cpStep]
    | succ k =>
      simp only [List.getElem?_cons_succ] at hi
      have hs : (start + 1).toNat = start.toNat + 1 := by bv_omega
      obtain ⟨_, h⟩ := ih (cpStep (mem, start) o).1 (start + 1) k w (by rw [hs]; omega) hi
      have e : start.toNat + (k + 1) = (start + 1).toNat + k := by rw [hs]; omega
      simp only [e]; exact h


/-- a freshly constructed (or reset) simulator has the generated OS image in memory -/
theorem newSim_osLoaded (flags : Flags) (fill : Nat → W) (mcr : Bool) :
    OsLoaded (newSim flags fill Gen.osBlocks mcr) := by
  intro a w h
  have hlt : a < 767 := by
    unfold osWord at h
    rcases hq : Gen.osWords0[a]? with _ | x
    · rw [hq] at h; cases h
    · have := (List.getElem?_eq_some_iff.mp hq).1
      rw [Gen.osWords0_length] at this; exact this
  have hq : Gen.osWords0[a]? = some (some w) := by
    unfold osWord at h
    rcases hq : Gen.osWords0[a]? with _ | x
    · rw [hq] at h; cases h
    · rw [hq] at h; simp only [Option.join_some] at h; rw [h]
  have ha : (BitVec.ofNat 16 a).toNat = a := by rw [BitVec.toNat_ofNat]; omega
  obtain ⟨_, hg⟩ := cp_get Gen.osWords0
    (Vector.ofFn (fun (i : Fin 65536) => if IO_START ≤ i.val then Word.ofData 0 else Word.uninit (fill i.val)))
    0 a w (by rw [Gen.osWords0_length]; decide) hq
  simp only [newSim, loadObj, Gen.osBlocks, List.foldl_cons, List.foldl_nil, memAt, Bool.false_eq_true, if_false,
    copyObjBlock_eq, ha]
  simpa using hg

theorem newSim_mcr_mapped (flags : Flags) (fill : Nat → W) (mcr : Bool) :
    (newSim flags fill Gen.osBlocks mcr).iregLookup 0xFFFE = some .mcr := by
  show (defaultIregs.find? (fun p => p.1 == 0xFFFE)).map (·.2) = _
  decide


/-! ### HALT under real traps, and non-vacuity -/

/-- **HALT contract (real traps).** A `TRAP x25` fetched and executed with real traps enabled enters the OS routine,
    whose first two instructions clear the MCR bit; the run loop then stops (`mcr_off_stops`).  Nothing but R6/R7, the
    condition codes, the two supervisor-stack cells and the MCR cell changes -/
theorem halt_trap {Q : DevHandler → Prop} (QS : QuietSet Q) (s : Sim) (q_s : Q s.dev) (hos : OsLoaded s) (hs : s.flags.strict = false)
    (hrt : s.flags.realTraps = true) (hat : AtTrap s 0x25)
    (h1 : 767 ≤ (entrySp s - 1).toNat ∧ (entrySp s - 1).toNat < IO_START)
    (h2 : 767 ≤ (entrySp s - 2).toNat ∧ (entrySp s - 2).toNat < IO_START)
    (hm : s.iregLookup 0xFFFE = some .mcr) :
    ∃ f, feN 3 s = (.ok (), f) ∧ f.mcr = false ∧
      (∀ r, r ≠ 7 → r ≠ R6 → f.reg r = s.reg r) ∧ f.dev = s.dev ∧
      (∀ a : W, a.toNat < IO_START → a ≠ entrySp s - 1 → a ≠ entrySp s - 2 → f.memAt a = s.memAt a) := by
  obtain ⟨w, hw⟩ := Option.isSome_iff_exists.mp vec_defined_20_25.2.2
  obtain ⟨x, hx, inx, xpc, m2, m1, mo, r6, ro, xprio, hss, hfn, hd, hf, hir, hmcr, q_x⟩ :=
    trap_step_os QS s q_s 0x25 w hos hs hat.perm hat.plain hat.instr h1 h2 (Or.inr hrt) hw
  obtain ⟨f, hf2, fm, fr, fmem, fdev, _⟩ := halt_contract QS x q_x inx.os inx.nonstrict inx.sup (by rw [xpc]; exact vec_word hw)
    (by unfold iregLookup; rw [hir]; exact hm)
  refine ⟨f, by rw [feN_succ 2 hx]; exact hf2, fm, ?_, by rw [fdev, hd], ?_⟩
  · intro r h7 h6; rw [fr r h7, ro r h6]
  · intro a ha n1 n2
    rw [fmem a (by intro e; rw [e] at ha; unfold IO_START at ha; simp at ha), mo a n1 n2]

/-! ### the default devices never interrupt -/

/-- the default device set (keyboard with interrupts disabled, display, nothing else), in any buffer/lock state -/
def StdDev (h : DevHandler) : Prop :=
  h.ports = DevHandler.new.ports ∧ ∃ kb lk ds ld, h.devices = #[.null, .keyboard kb false lk, .display ds ld]

theorem std_ports : ∀ i : Fin 512, DevHandler.new.ports[i] = 0 ∨ DevHandler.new.ports[i] = 1 ∨ DevHandler.new.ports[i] = 2 := by
  decide +kernel

theorem std_ddr : DevHandler.new.getDevId 0xFE06 = some 2 := by decide +kernel

theorem std_quiet (h : DevHandler) (hs : StdDev h) : h.pollInterrupt = (none, h) := by
  obtain ⟨hp, kb, lk, ds, ld, hd⟩ := hs
  obtain ⟨devs, ports⟩ := h
  simp only at hd hp
  subst hd
  simp [DevHandler.pollInterrupt, DevHandler.pollStep, Device.poll]

theorem std_read (h : DevHandler) (port : W) (hs : StdDev h) : StdDev (h.ioRead port true).2 := by
  obtain ⟨hp, kb, lk, ds, ld, hd⟩ := hs
  obtain ⟨devs, ports⟩ := h
  simp only at hd hp
  subst hd; subst hp
  unfold DevHandler.ioRead DevHandler.getDevId
  cases hi : DevHandler.portIdx port with
  | none => simp only [Option.map_none]; exact ⟨rfl, kb, lk, ds, ld, rfl⟩
  | some i =>
    simp only [Option.map_some]
    have g0 : (#[Device.null, Device.keyboard kb false lk, Device.display ds ld] : Array Device).getD 0 .null = .null := rfl
    have g1 : (#[Device.null, Device.keyboard kb false lk, Device.display ds ld] : Array Device).getD 1 .null = .keyboard kb false lk := rfl
    have g2 : (#[Device.null, Device.keyboard kb false lk, Device.display ds ld] : Array Device).getD 2 .null = .display ds ld := rfl
    rcases std_ports i with e | e | e <;> rw [e]
    · rw [g0]; exact ⟨rfl, kb, lk, ds, ld, by simp [Device.ioRead, Array.setIfInBounds]⟩
    · rw [g1]
      refine ⟨rfl, ?_⟩
      by_cases h1 : port = KBSR
      · exact ⟨kb, lk, ds, ld, by simp [Device.ioRead, h1, Array.setIfInBounds]⟩
      · by_cases h2 : port = KBDR
        · have hne : ¬ KBDR = KBSR := by decide
          cases lk
          · cases kb with
            | nil => exact ⟨[], false, ds, ld, by simp [Device.ioRead, h2, hne, Array.setIfInBounds]⟩
            | cons b rest => exact ⟨rest, false, ds, ld, by simp [Device.ioRead, h2, hne, Array.setIfInBounds]⟩
          · exact ⟨kb, true, ds, ld, by simp [Device.ioRead, h2, hne, Array.setIfInBounds]⟩
        · exact ⟨kb, lk, ds, ld, by simp [Device.ioRead, h1, h2, Array.setIfInBounds]⟩
    · rw [g2]
      refine ⟨rfl, kb, lk, ds, ld, ?_⟩
      by_cases h1 : port = DSR <;> simp [Device.ioRead, h1, Array.setIfInBounds]

theorem std_write_ddr (h : DevHandler) (v : W) (hs : StdDev h) : StdDev (h.ioWrite 0xFE06 v).2 := by
  obtain ⟨hp, kb, lk, ds, ld, hd⟩ := hs
  obtain ⟨devs, ports⟩ := h
  simp only at hd hp
  subst hd; subst hp
  have hid : ({ devices := #[Device.null, Device.keyboard kb false lk, Device.display ds ld], ports := DevHandler.new.ports } : DevHandler).getDevId 0xFE06 = some 2 := std_ddr
  unfold DevHandler.ioWrite
  rw [hid]
  have g2 : (#[Device.null, Device.keyboard kb false lk, Device.display ds ld] : Array Device).getD 2 .null = .display ds ld := rfl
  simp only [g2]
  refine ⟨rfl, ?_⟩
  cases ld
  · exact ⟨kb, lk, ds.push (UInt8.ofNat (v.toNat % 256)), false, by simp [Device.ioWrite, DDR, Array.setIfInBounds]⟩
  · exact ⟨kb, lk, ds, true, by simp [Device.ioWrite, DDR, Array.setIfInBounds]⟩

/-- the default device set is a quiet set -/
theorem stdDev_quiet : QuietSet StdDev := ⟨std_quiet, std_read, std_write_ddr⟩

theorem newSim_fields (flags : Flags) (fill : Nat → W) (os : List (W × List (Option W))) (mcr : Bool) :
    (newSim flags fill os mcr).flags = flags ∧ (newSim flags fill os mcr).psr = PSR.new ∧
    (newSim flags fill os mcr).savedSp = Word.ofData 0x3000 ∧ (newSim flags fill os mcr).iregs = defaultIregs ∧
    (newSim flags fill os mcr).pc = 0x3000 := by
  simp only [newSim, loadObj, Bool.false_eq_true, if_false, and_self]

def withDev (s : Sim) (d : DevHandler) : Sim := { s with dev := d }

theorem withDev_memAt (s : Sim) (d : DevHandler) (a : W) : (withDev s d).memAt a = s.memAt a := rfl

/-- a freshly built simulator with `TRAP x20` at x3000 and one byte waiting in the keyboard -/
def demo (fill : Nat → W) (b : UInt8) : Sim :=
  (withDev (newSim {} fill Gen.osBlocks true) ((DevHandler.new.setKeyboard (.keyboard [b] false false)).setDisplay (.display #[] false))).setMem
    0x3000 (Word.ofData 0xF020)

theorem demo_osLoaded (fill : Nat → W) (b : UInt8) : OsLoaded (demo fill b) := by
  intro a w h
  have := osWord_lt h
  unfold demo
  have h3 : (0x3000 : W).toNat = 12288 := by decide
  rw [Sim.memAt_setMem, if_neg (by intro e; have := congrArg BitVec.toNat e; rw [BitVec.toNat_ofNat, h3] at this; omega),
    withDev_memAt]
  exact newSim_osLoaded {} fill true a w h

theorem mk_fields (s : Sim) (d : DevHandler) (a : W) (w : Word) :
    ((withDev s d).setMem a w).flags = s.flags ∧ ((withDev s d).setMem a w).psr = s.psr ∧
    ((withDev s d).setMem a w).savedSp = s.savedSp ∧ ((withDev s d).setMem a w).iregs = s.iregs ∧
    ((withDev s d).setMem a w).pc = s.pc ∧ ((withDev s d).setMem a w).dev = d := ⟨rfl, rfl, rfl, rfl, rfl, rfl⟩

set_option maxRecDepth 100000 in
/-- non-vacuity -/
theorem demo_getc (fill : Nat → W) : ∃ f, feN 5 (demo fill 65) = (.ok (), f) ∧ f.reg 0 = Word.ofData 65 ∧ f.pc = 0x3001 := by
  obtain ⟨nf, np, ns, ni, npc⟩ := newSim_fields {} fill Gen.osBlocks true
  obtain ⟨mf, mp, ms, mi, mpc, md⟩ := mk_fields (newSim {} fill Gen.osBlocks true)
    ((DevHandler.new.setKeyboard (.keyboard [65] false false)).setDisplay (.display #[] false)) 0x3000 (Word.ofData 0xF020)
  have dfl : (demo fill 65).flags = {} := mf.trans nf
  have dpsr : (demo fill 65).psr = PSR.new := mp.trans np
  have dss : (demo fill 65).savedSp = Word.ofData 0x3000 := ms.trans ns
  have dir : (demo fill 65).iregs = defaultIregs := mi.trans ni
  have dpc : (demo fill 65).pc = 0x3000 := mpc.trans npc
  have ddev : (demo fill 65).dev = (DevHandler.new.setKeyboard (.keyboard [65] false false)).setDisplay (.display #[] false) := md
  have esp : entrySp (demo fill 65) = 0x3000 := by
    unfold entrySp; rw [dpsr, dss]; rfl
  have hat : AtTrap (demo fill 65) 0x20 := by
    refine ⟨Or.inr (by rw [dpc]; decide), by rw [dpc]; decide, ?_⟩
    rw [dpc]; unfold demo; rw [Sim.memAt_setMem, if_pos rfl]; rfl
  have qd : StdDev (demo fill 65).dev := by rw [ddev]; exact ⟨rfl, [65], false, #[], false, rfl⟩
  obtain ⟨f, hf, ret, r0, _⟩ := getc_trap stdDev_quiet (demo fill 65) qd 0 (demo_osLoaded fill 65) (by rw [dfl]) hat
    (by rw [esp]; decide) (by rw [esp]; decide)
    (by unfold iregLookup; rw [dir]; decide) (by unfold iregLookup; rw [dir]; decide) 0x8000 65
    _ (((demo fill 65).dev.ioRead 0xFE00 true).2) ((((demo fill 65).dev.ioRead 0xFE00 true).2.ioRead 0xFE02 true).2)
    (Polls.zero _) (Prod.ext (by rw [ddev]; decide +kernel) rfl) (by decide)
    (Prod.ext (by rw [ddev]; decide +kernel) rfl)
  exact ⟨f, hf, r0, by rw [ret.pc, dpc]; decide⟩

end Lc3V.Rt
