/- Lemmas/OsStd.lean — the OS-routine contracts instantiated on the DEFAULT device set (`stdDevs kb ds`: null device,
   keyboard with buffer `kb` and interrupts disabled, display holding `ds`, both locks free).  `stdDevs_emits`,
   `stdDevs_dsr`, `stdDevs_ddr`, `stdDevs_kb` discharge the device hypotheses (`Polls`, `Emits`, ready bits) of the
   general contracts, so that `getc_std`, `out_std`, `puts_std`, `putsp_std`, `in_std` state the user-visible effect
   (what the display holds, which byte is consumed) with no device hypothesis left. -/
import Lc3V.Lemmas.OsPutsp
import Lc3V.Lemmas.OsPuts
namespace Lc3V.Rt
open Lc3V Sim SimM SimInstr C11 C10

/-- the default device set with keyboard buffer `kb` and display contents `ds`, both locks free -/
def stdDevs (kb : List UInt8) (ds : Array UInt8) : DevHandler :=
  { devices := #[.null, .keyboard kb false false, .display ds false], ports := DevHandler.new.ports }

theorem stdDevs_std (kb : List UInt8) (ds : Array UInt8) : StdDev (stdDevs kb ds) := ⟨rfl, kb, false, ds, false, rfl⟩

theorem std_dsr : DevHandler.new.getDevId 0xFE04 = some 2 := by decide +kernel
theorem std_kbsr : DevHandler.new.getDevId 0xFE00 = some 1 := by decide +kernel
theorem std_kbdr : DevHandler.new.getDevId 0xFE02 = some 1 := by decide +kernel

/-- with the display lock free DSR reads ready and nothing changes -/
theorem stdDevs_dsr (kb : List UInt8) (ds : Array UInt8) :
    (stdDevs kb ds).ioRead 0xFE04 true = (some 0x8000, stdDevs kb ds) := by
  have hid : (stdDevs kb ds).getDevId 0xFE04 = some 2 := std_dsr
  unfold DevHandler.ioRead
  rw [hid]
  simp [stdDevs, Device.ioRead, DSR, Array.setIfInBounds]

/-- a store to DDR appends the low byte -/
theorem stdDevs_ddr (kb : List UInt8) (ds : Array UInt8) (c : W) :
    (stdDevs kb ds).ioWrite 0xFE06 c = (true, stdDevs kb (ds.push (UInt8.ofNat (c.toNat % 256)))) := by
  have hid : (stdDevs kb ds).getDevId 0xFE06 = some 2 := std_ddr
  unfold DevHandler.ioWrite
  rw [hid]
  simp [stdDevs, Device.ioWrite, DDR, Array.setIfInBounds]

/-- the default display takes any sequence of words at once: the hypotheses `Emits` of the PUTS/PUTSP/IN contracts are
    met by the default devices, and the display then holds the low bytes of the words, in order -/
theorem stdDevs_emits (kb : List UInt8) (cs : List W) : ∀ ds : Array UInt8,
    Emits (stdDevs kb ds) cs (stdDevs kb (cs.foldl (fun a c => a.push (UInt8.ofNat (c.toNat % 256))) ds)) := by
  induction cs with
  | nil => intro ds; exact Emits.nil _
  | cons c rest ih =>
    intro ds
    exact Emits.cons (Polls.zero _) (stdDevs_dsr kb ds) (by decide) (stdDevs_ddr kb ds c) (ih _)

/-- with the keyboard lock free and a byte queued, KBSR reads ready and KBDR delivers the byte, consuming it -/
theorem stdDevs_kb (b : UInt8) (rest : List UInt8) (ds : Array UInt8) :
    (stdDevs (b :: rest) ds).ioRead 0xFE00 true = (some 0x8000, stdDevs (b :: rest) ds) ∧
    (stdDevs (b :: rest) ds).ioRead 0xFE02 true = (some (BitVec.ofNat 16 b.toNat), stdDevs rest ds) := by
  have h0 : (stdDevs (b :: rest) ds).getDevId 0xFE00 = some 1 := std_kbsr
  have h2 : (stdDevs (b :: rest) ds).getDevId 0xFE02 = some 1 := std_kbdr
  constructor
  · unfold DevHandler.ioRead; rw [h0]; simp [stdDevs, Device.ioRead, KBSR, Array.setIfInBounds]
  · unfold DevHandler.ioRead; rw [h2]
    simp [stdDevs, Device.ioRead, KBDR, show KBSR = 0xFE00 from rfl, Array.setIfInBounds]

/-- low bytes shown by the display for the words `cs` -/
def shown (ds : Array UInt8) (cs : List W) : Array UInt8 := cs.foldl (fun a c => a.push (UInt8.ofNat (c.toNat % 256))) ds

/-- PUTS on the default devices (locks free): the routine returns to the instruction after the TRAP and the display has
    received exactly the low bytes of the string, in order; the keyboard is untouched -/
theorem puts_std (s : Sim) (kb : List UInt8) (ds : Array UInt8) (hdev : s.dev = stdDevs kb ds) (cs : List W)
    (hos : OsLoaded s) (hs : s.flags.strict = false) (hat : AtTrap s 0x22)
    (h1 : 767 ≤ (entrySp s - 1).toNat ∧ (entrySp s - 1).toNat < IO_START)
    (h2 : 767 ≤ (entrySp s - 2).toNat ∧ (entrySp s - 2).toNat < IO_START)
    (hc : CellsOk (entrySp s - 2))
    (l1 : s.iregLookup 0xFE04 = none) (l2 : s.iregLookup 0xFE06 = none)
    (hstr : Str s (fun a => a.toNat < IO_START ∧ a ≠ entrySp s - 1 ∧ a ≠ entrySp s - 2 ∧ ¬ Cells5 (entrySp s - 2) a)
      (s.reg 0).data cs) :
    ∃ k f, feN k s = (.ok (), f) ∧ Returned s f (s.pc + 1) true (Cells5 (entrySp s - 2)) ∧
      f.dev = stdDevs kb (shown ds cs) := by
  obtain ⟨k, f, hf, hr, hd, _⟩ := puts_trap stdDev_quiet s (by rw [hdev]; exact stdDevs_std kb ds) cs _ hos hs hat h1 h2 hc l1 l2 hstr
    (by rw [hdev]; exact stdDevs_emits kb cs ds)
  exact ⟨k, f, hf, hr, hd⟩

/-- OUT on the default devices: nine steps, the display gets the low byte of R0 -/
theorem out_std (s : Sim) (kb : List UInt8) (ds : Array UInt8) (hdev : s.dev = stdDevs kb ds)
    (hos : OsLoaded s) (hs : s.flags.strict = false) (hat : AtTrap s 0x21)
    (h1 : 767 ≤ (entrySp s - 1).toNat ∧ (entrySp s - 1).toNat < IO_START)
    (h2 : 767 ≤ (entrySp s - 2).toNat ∧ (entrySp s - 2).toNat < IO_START)
    (h3 : 767 ≤ (entrySp s - 3).toNat ∧ (entrySp s - 3).toNat < IO_START)
    (l1 : s.iregLookup 0xFE04 = none) (l2 : s.iregLookup 0xFE06 = none) :
    ∃ f, feN 9 s = (.ok (), f) ∧ Returned s f (s.pc + 1) true (fun a => a = entrySp s - 3) ∧
      f.dev = stdDevs kb (ds.push (UInt8.ofNat ((s.reg 0).data.toNat % 256))) := by
  obtain ⟨f, hf, hr, hd, _⟩ := out_trap stdDev_quiet s (by rw [hdev]; exact stdDevs_std kb ds) 0 hos hs hat h1 h2 h3 l1 l2
    0x8000 true _ _ _ (by rw [hdev]; exact Polls.zero _) (stdDevs_dsr kb ds) (by decide) (stdDevs_ddr kb ds _)
  exact ⟨f, hf, hr, hd⟩

/-- GETC on the default devices with a byte waiting: five steps, R0 is that byte, the byte is consumed -/
theorem getc_std (s : Sim) (b : UInt8) (rest : List UInt8) (ds : Array UInt8) (hdev : s.dev = stdDevs (b :: rest) ds)
    (hos : OsLoaded s) (hs : s.flags.strict = false) (hat : AtTrap s 0x20)
    (h1 : 767 ≤ (entrySp s - 1).toNat ∧ (entrySp s - 1).toNat < IO_START)
    (h2 : 767 ≤ (entrySp s - 2).toNat ∧ (entrySp s - 2).toNat < IO_START)
    (l1 : s.iregLookup 0xFE00 = none) (l2 : s.iregLookup 0xFE02 = none) :
    ∃ f, feN 5 s = (.ok (), f) ∧ Returned s f (s.pc + 1) false (fun _ => False) ∧
      f.reg 0 = Word.ofData (BitVec.ofNat 16 b.toNat) ∧ f.dev = stdDevs rest ds := by
  obtain ⟨f, hf, hr, h0, hd, _⟩ := getc_trap stdDev_quiet s (by rw [hdev]; exact stdDevs_std (b :: rest) ds) 0 hos hs hat h1 h2 l1 l2
    0x8000 _ _ _ _ (by rw [hdev]; exact Polls.zero _) (stdDevs_kb b rest ds).1 (by decide) (stdDevs_kb b rest ds).2
  exact ⟨f, hf, hr, h0, hd⟩

/-- PUTSP on the default devices: the display receives exactly the packed bytes `cs`, in order -/
theorem putsp_std (s : Sim) (kb : List UInt8) (ds : Array UInt8) (hdev : s.dev = stdDevs kb ds) (cs : List W)
    (hos : OsLoaded s) (hs : s.flags.strict = false) (hat : AtTrap s 0x24)
    (h1 : 767 ≤ (entrySp s - 1).toNat ∧ (entrySp s - 1).toNat < IO_START)
    (h2 : 767 ≤ (entrySp s - 2).toNat ∧ (entrySp s - 2).toNat < IO_START)
    (hc : Cells7Ok (entrySp s - 2))
    (l1 : s.iregLookup 0xFE04 = none) (l2 : s.iregLookup 0xFE06 = none)
    (hstr : PStr s (fun a => a.toNat < IO_START ∧ a ≠ entrySp s - 1 ∧ a ≠ entrySp s - 2 ∧ ¬ Cells7x (entrySp s - 2) a)
      (s.reg 0).data cs) :
    ∃ k f, feN k s = (.ok (), f) ∧ Returned s f (s.pc + 1) true (Cells7x (entrySp s - 2)) ∧
      f.dev = stdDevs kb (shown ds cs) := by
  obtain ⟨k, f, hf, hr, hd, _⟩ := putsp_trap stdDev_quiet s (by rw [hdev]; exact stdDevs_std kb ds) cs _ hos hs hat h1 h2 hc l1 l2 hstr
    (by rw [hdev]; exact stdDevs_emits kb cs ds)
  exact ⟨k, f, hf, hr, hd⟩

/-- IN on the default devices with a byte waiting: the prompt is shown, the byte is read into R0, consumed, and echoed -/
theorem in_std (s : Sim) (b : UInt8) (rest : List UInt8) (ds : Array UInt8) (hdev : s.dev = stdDevs (b :: rest) ds)
    (hos : OsLoaded s) (hs : s.flags.strict = false) (hat : AtTrap s 0x23)
    (h1 : 767 ≤ (entrySp s - 1).toNat ∧ (entrySp s - 1).toNat < IO_START)
    (h2 : 767 ≤ (entrySp s - 2).toNat ∧ (entrySp s - 2).toNat < IO_START)
    (h3 : 767 ≤ (entrySp s - 3).toNat ∧ (entrySp s - 3).toNat < IO_START)
    (h4 : 767 ≤ (entrySp s - 4).toNat ∧ (entrySp s - 4).toNat < IO_START)
    (hc : CellsOk (entrySp s - 4))
    (lk0 : s.iregLookup 0xFE00 = none) (lk2 : s.iregLookup 0xFE02 = none)
    (lk4 : s.iregLookup 0xFE04 = none) (lk6 : s.iregLookup 0xFE06 = none) :
    ∃ k f, feN k s = (.ok (), f) ∧ Returned s f (s.pc + 1) false (Cells7 (entrySp s)) ∧
      f.reg 0 = Word.ofData (BitVec.ofNat 16 b.toNat) ∧
      f.dev = stdDevs rest ((shown ds prompt).push (UInt8.ofNat ((BitVec.ofNat 16 b.toNat : W).toNat % 256))) := by
  obtain ⟨k, f, hf, hr, h0, hd, _⟩ := in_trap stdDev_quiet s (by rw [hdev]; exact stdDevs_std (b :: rest) ds)
    (BitVec.ofNat 16 b.toNat) 0 0 hos hs hat h1 h2 h3 h4 hc lk0 lk2 lk4 lk6 _ _ _ _ _ _ _ 0x8000 0x8000 true
    (by rw [hdev]; exact stdDevs_emits (b :: rest) prompt ds) (Polls.zero _) (stdDevs_kb b rest _).1 (by decide)
    (stdDevs_kb b rest _).2 (Polls.zero _) (stdDevs_dsr rest _) (by decide) (stdDevs_ddr rest _ _)
  exact ⟨k, f, hf, hr, h0, hd⟩

end Lc3V.Rt
