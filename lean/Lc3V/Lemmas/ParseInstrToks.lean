/- Lemmas/ParseInstrToks.lean — `parseInstr` / `parseDirective` on the token values of a printed statement. -/
import Lc3V.Lemmas.ParseToks
import Lc3V.Lemmas.PrintAtoms
set_option linter.unusedSimpArgs false
set_option linter.unusedVariables false
namespace Lc3V
open Parser

/-! ### operand tokens convert back to the operand -/

theorem convSigned_sTok {n : Nat} (h1 : 1 ≤ n) (h2 : n ≤ 16) (v : BitVec n) (sp : Nat × Nat) :
    convSigned n (sTok v) sp = some (.ok v) := by
  have hb := toInt_bounds16 h1 h2 v
  have hpN : 2 ^ (n - 1) ≤ 2 ^ 15 := Nat.pow_le_pow_right (by omega) (by omega)
  have hpn : ((2 ^ (n - 1) : Nat) : Int) = (2:Int) ^ (n - 1) := by push_cast; rfl
  have hb1 : 2 * v.toInt < 2 ^ n := BitVec.two_mul_toInt_lt
  have hb2 : -(2:Int) ^ n ≤ 2 * v.toInt := BitVec.le_two_mul_toInt
  have e2 : (2:Int) ^ n = 2 * 2 ^ (n - 1) := by
    have : n = (n - 1) + 1 := by omega
    rw [this, Int.pow_succ]; simp; omega
  have hhi : v.toInt < 2 ^ (n - 1) := by omega
  have hlo : -(2:Int) ^ (n - 1) ≤ v.toInt := by omega
  have hvv : BitVec.ofInt n v.toInt = v := BitVec.ofInt_toInt
  unfold sTok
  by_cases hneg : v.toInt < 0
  · rw [if_pos hneg]
    have := (C05.signed_field_signed_tok_ok n h1 h2 v.toInt (by omega) (by omega) sp).mpr ⟨hlo, hhi⟩
    rw [this, hvv]
  · rw [if_neg hneg]
    have hnn : 0 ≤ v.toInt := by omega
    have hlt : v.toInt.toNat < 2 ^ (n - 1) := by omega
    have := (C05.signed_field_unsigned_tok_ok n h1 h2 v.toInt.toNat (by omega) sp).mpr hlt
    rw [this]
    congr 2
    have : BitVec.ofNat n v.toInt.toNat = BitVec.ofInt n v.toInt := by
      apply BitVec.eq_of_toNat_eq
      simp only [BitVec.toNat_ofNat, BitVec.toNat_ofInt]
      have hc : ((2 ^ n : Nat) : Int) = (2:Int) ^ n := by push_cast; rfl
      have hN : (2:Nat) ^ n = 2 * 2 ^ (n - 1) := by
        have : n = (n - 1) + 1 := by omega
        rw [this, Nat.pow_succ]; simp; omega
      rw [Nat.mod_eq_of_lt (by omega), Int.emod_eq_of_lt hnn (by rw [hc]; omega)]
    rw [this, hvv]

theorem convUnsigned_uTok {n : Nat} (h1 : 1 ≤ n) (h2 : n ≤ 16) (v : BitVec n) (sp : Nat × Nat) :
    convUnsigned n (.unsigned v.toNat) sp = some (.ok v) := by
  have hlt : v.toNat < 2 ^ n := v.isLt
  have hle : 2 ^ n ≤ 2 ^ 16 := Nat.pow_le_pow_right (by omega) h2
  have := (C05.unsigned_field_unsigned_tok_ok n h1 h2 v.toNat (by omega) sp).mpr hlt
  rw [this]; simp

/-! ### labels are compared by name (their position in the text changes when a statement is printed again) -/

def PCOff.erase {n} : PCOff n → PCOff n
  | .off v => .off v
  | .label l => .label ⟨l.name, 0⟩

def AsmInstr.erase : AsmInstr → AsmInstr
  | .br cc o => .br cc o.erase | .jsr o => .jsr o.erase | .ld d o => .ld d o.erase | .ldi d o => .ldi d o.erase
  | .lea d o => .lea d o.erase | .st s o => .st s o.erase | .sti s o => .sti s o.erase | .nop o => .nop o.erase
  | i => i

/-- the token a PC offset is printed as, and the property that lets it be read back -/
def pcTok {n} : PCOff n → Token
  | .off v => sTok v
  | .label l => .ident (.label l.name)

theorem parsePCOff_pcTok (n : Nat) (h1 : 1 ≤ n) (h2 : n ≤ 16) (p : Parser) (o : PCOff n) (r : List Token) (h : rem p = pcTok o :: r) :
    ∃ o', parsePCOff n p = .ok (o', p.advance) ∧ o'.erase = o.erase ∧ rem p.advance = r := by
  cases o with
  | off v =>
    obtain ⟨a, b⟩ := parsePCOff_off n p (sTok v) v r h (convSigned_sTok h1 h2 v)
    exact ⟨.off v, a, rfl, b⟩
  | label l =>
    obtain ⟨a, ha, hb⟩ := parsePCOff_label n p l.name r h
    exact ⟨.label ⟨l.name, a⟩, ha, rfl, hb⟩

def irTok : ImmOrReg 5 → Token
  | .imm v => sTok v
  | .reg r => .reg r.toNat

theorem parseImmOrReg_irTok (p : Parser) (o : ImmOrReg 5) (r : List Token) (h : rem p = irTok o :: r) :
    parseImmOrReg 5 p = .ok (o, p.advance) ∧ rem p.advance = r := by
  cases o with
  | imm v => exact parseImmOrReg_imm 5 p (sTok v) v r h (convSigned_sTok (by omega) (by omega) v)
  | reg k =>
    have := parseImmOrReg_reg 5 p k.toNat r h k.isLt
    simpa using this

theorem ofNat3_toNat (r : Reg) : BitVec.ofNat 3 r.toNat = r := by
  apply BitVec.eq_of_toNat_eq; simp [Nat.mod_eq_of_lt r.isLt]

/-- the token values of a printed instruction -/
def instrToks : AsmInstr → List Token
  | .add d s o => [.ident (.kw .ADD), .reg d.toNat, .comma, .reg s.toNat, .comma, irTok o]
  | .and d s o => [.ident (.kw .AND), .reg d.toNat, .comma, .reg s.toNat, .comma, irTok o]
  | .br cc o => [.ident (.kw (brKw cc)), pcTok o]
  | .jmp b => [.ident (.kw .JMP), .reg b.toNat]
  | .jsr o => [.ident (.kw .JSR), pcTok o]
  | .jsrr b => [.ident (.kw .JSRR), .reg b.toNat]
  | .ld d o => [.ident (.kw .LD), .reg d.toNat, .comma, pcTok o]
  | .ldi d o => [.ident (.kw .LDI), .reg d.toNat, .comma, pcTok o]
  | .ldr d b o => [.ident (.kw .LDR), .reg d.toNat, .comma, .reg b.toNat, .comma, sTok o]
  | .lea d o => [.ident (.kw .LEA), .reg d.toNat, .comma, pcTok o]
  | .not d s => [.ident (.kw .NOT), .reg d.toNat, .comma, .reg s.toNat]
  | .ret => [.ident (.kw .RET)] | .rti => [.ident (.kw .RTI)]
  | .st s o => [.ident (.kw .ST), .reg s.toNat, .comma, pcTok o]
  | .sti s o => [.ident (.kw .STI), .reg s.toNat, .comma, pcTok o]
  | .str s b o => [.ident (.kw .STR), .reg s.toNat, .comma, .reg b.toNat, .comma, sTok o]
  | .trap v => [.ident (.kw .TRAP), .unsigned v.toNat]
  | .nop o => [.ident (.kw .NOP), pcTok o]
  | .getc => [.ident (.kw .GETC)] | .out => [.ident (.kw .OUT)] | .putc => [.ident (.kw .PUTC)] | .puts => [.ident (.kw .PUTS)]
  | .in_ => [.ident (.kw .IN)] | .putsp => [.ident (.kw .PUTSP)] | .halt => [.ident (.kw .HALT)]

theorem brCC_brKw (cc : BitVec 3) (h : cc ≠ 0) : brCC (brKw cc) = some cc := by
  have : ∀ n : Fin 8, n.val ≠ 0 → brCC (brKw (BitVec.ofNat 3 n.val)) = some (BitVec.ofNat 3 n.val) := by decide
  have h2 := this ⟨cc.toNat, cc.isLt⟩ (by intro e; apply h; apply BitVec.eq_of_toNat_eq; simpa using e)
  simpa [ofNat3_toNat] using h2

end Lc3V

namespace Lc3V
open Parser

theorem advance_toks (p : Parser) : p.advance.toks = p.toks := rfl

/-- opening move: the keyword token is ahead -/
theorem kw_ahead (p : Parser) (k : Kw) (r : List Token) (h : rem p = .ident (.kw k) :: r) :
    ∃ a b, p.peek = some ⟨.ident (.kw k), a, b⟩ ∧ rem p.advance = r := by
  obtain ⟨x, hp, ht, hr, _⟩ := peek_of_rem p _ r h
  obtain ⟨tk, a, b⟩ := x
  simp only at ht; subst ht
  exact ⟨a, b, hp, hr⟩

theorem parseInstr_add (p : Parser) (d s : Reg) (o : ImmOrReg 5) (r : List Token) (h : rem p = instrToks (.add d s o) ++ r) :
    ∃ p', parseInstr p = .ok (.add d s o, p') ∧ rem p' = r ∧ p'.toks = p.toks := by
  simp only [instrToks, List.cons_append, List.nil_append] at h
  obtain ⟨a, b, hp, h0⟩ := kw_ahead p _ _ h
  obtain ⟨e1, h1⟩ := parseReg_rem _ _ _ h0 d.isLt
  obtain ⟨e2, h2⟩ := parseComma_rem _ _ h1
  obtain ⟨e3, h3⟩ := parseReg_rem _ _ _ h2 s.isLt
  obtain ⟨e4, h4⟩ := parseComma_rem _ _ h3
  obtain ⟨e5, h5⟩ := parseImmOrReg_irTok _ o _ h4
  refine ⟨_, ?_, h5, rfl⟩
  unfold parseInstr
  rw [hp]
  simp only [brCC, e1, e2, e3, e4, e5, bind, Except.bind, pure, Except.pure, ofNat3_toNat]

theorem parseInstr_and (p : Parser) (d s : Reg) (o : ImmOrReg 5) (r : List Token) (h : rem p = instrToks (.and d s o) ++ r) :
    ∃ p', parseInstr p = .ok (.and d s o, p') ∧ rem p' = r ∧ p'.toks = p.toks := by
  simp only [instrToks, List.cons_append, List.nil_append] at h
  obtain ⟨a, b, hp, h0⟩ := kw_ahead p _ _ h
  obtain ⟨e1, h1⟩ := parseReg_rem _ _ _ h0 d.isLt
  obtain ⟨e2, h2⟩ := parseComma_rem _ _ h1
  obtain ⟨e3, h3⟩ := parseReg_rem _ _ _ h2 s.isLt
  obtain ⟨e4, h4⟩ := parseComma_rem _ _ h3
  obtain ⟨e5, h5⟩ := parseImmOrReg_irTok _ o _ h4
  refine ⟨_, ?_, h5, rfl⟩
  unfold parseInstr
  rw [hp]
  simp only [brCC, e1, e2, e3, e4, e5, bind, Except.bind, pure, Except.pure, ofNat3_toNat]

theorem parseInstr_jmp (p : Parser) (b0 : Reg) (r : List Token) (h : rem p = instrToks (.jmp b0) ++ r) :
    ∃ p', parseInstr p = .ok (.jmp b0, p') ∧ rem p' = r ∧ p'.toks = p.toks := by
  simp only [instrToks, List.cons_append, List.nil_append] at h
  obtain ⟨a, b, hp, h0⟩ := kw_ahead p _ _ h
  obtain ⟨e1, h1⟩ := parseReg_rem _ _ _ h0 b0.isLt
  refine ⟨_, ?_, h1, rfl⟩
  unfold parseInstr
  rw [hp]
  simp only [brCC, e1, bind, Except.bind, pure, Except.pure, ofNat3_toNat]

theorem parseInstr_jsrr (p : Parser) (b0 : Reg) (r : List Token) (h : rem p = instrToks (.jsrr b0) ++ r) :
    ∃ p', parseInstr p = .ok (.jsrr b0, p') ∧ rem p' = r ∧ p'.toks = p.toks := by
  simp only [instrToks, List.cons_append, List.nil_append] at h
  obtain ⟨a, b, hp, h0⟩ := kw_ahead p _ _ h
  obtain ⟨e1, h1⟩ := parseReg_rem _ _ _ h0 b0.isLt
  refine ⟨_, ?_, h1, rfl⟩
  unfold parseInstr
  rw [hp]
  simp only [brCC, e1, bind, Except.bind, pure, Except.pure, ofNat3_toNat]

theorem parseInstr_not (p : Parser) (d s : Reg) (r : List Token) (h : rem p = instrToks (.not d s) ++ r) :
    ∃ p', parseInstr p = .ok (.not d s, p') ∧ rem p' = r ∧ p'.toks = p.toks := by
  simp only [instrToks, List.cons_append, List.nil_append] at h
  obtain ⟨a, b, hp, h0⟩ := kw_ahead p _ _ h
  obtain ⟨e1, h1⟩ := parseReg_rem _ _ _ h0 d.isLt
  obtain ⟨e2, h2⟩ := parseComma_rem _ _ h1
  obtain ⟨e3, h3⟩ := parseReg_rem _ _ _ h2 s.isLt
  refine ⟨_, ?_, h3, rfl⟩
  unfold parseInstr
  rw [hp]
  simp only [brCC, e1, e2, e3, bind, Except.bind, pure, Except.pure, ofNat3_toNat]

theorem parseInstr_ldr (p : Parser) (d b0 : Reg) (o : BitVec 6) (r : List Token) (h : rem p = instrToks (.ldr d b0 o) ++ r) :
    ∃ p', parseInstr p = .ok (.ldr d b0 o, p') ∧ rem p' = r ∧ p'.toks = p.toks := by
  simp only [instrToks, List.cons_append, List.nil_append] at h
  obtain ⟨a, b, hp, h0⟩ := kw_ahead p _ _ h
  obtain ⟨e1, h1⟩ := parseReg_rem _ _ _ h0 d.isLt
  obtain ⟨e2, h2⟩ := parseComma_rem _ _ h1
  obtain ⟨e3, h3⟩ := parseReg_rem _ _ _ h2 b0.isLt
  obtain ⟨e4, h4⟩ := parseComma_rem _ _ h3
  obtain ⟨e5, h5⟩ := parseSOff_rem 6 _ _ o _ h4 (convSigned_sTok (by omega) (by omega) o)
  refine ⟨_, ?_, h5, rfl⟩
  unfold parseInstr
  rw [hp]
  simp only [brCC, e1, e2, e3, e4, e5, bind, Except.bind, pure, Except.pure, ofNat3_toNat]

theorem parseInstr_str (p : Parser) (d b0 : Reg) (o : BitVec 6) (r : List Token) (h : rem p = instrToks (.str d b0 o) ++ r) :
    ∃ p', parseInstr p = .ok (.str d b0 o, p') ∧ rem p' = r ∧ p'.toks = p.toks := by
  simp only [instrToks, List.cons_append, List.nil_append] at h
  obtain ⟨a, b, hp, h0⟩ := kw_ahead p _ _ h
  obtain ⟨e1, h1⟩ := parseReg_rem _ _ _ h0 d.isLt
  obtain ⟨e2, h2⟩ := parseComma_rem _ _ h1
  obtain ⟨e3, h3⟩ := parseReg_rem _ _ _ h2 b0.isLt
  obtain ⟨e4, h4⟩ := parseComma_rem _ _ h3
  obtain ⟨e5, h5⟩ := parseSOff_rem 6 _ _ o _ h4 (convSigned_sTok (by omega) (by omega) o)
  refine ⟨_, ?_, h5, rfl⟩
  unfold parseInstr
  rw [hp]
  simp only [brCC, e1, e2, e3, e4, e5, bind, Except.bind, pure, Except.pure, ofNat3_toNat]

theorem parseInstr_trap (p : Parser) (v : BitVec 8) (r : List Token) (h : rem p = instrToks (.trap v) ++ r) :
    ∃ p', parseInstr p = .ok (.trap v, p') ∧ rem p' = r ∧ p'.toks = p.toks := by
  simp only [instrToks, List.cons_append, List.nil_append] at h
  obtain ⟨a, b, hp, h0⟩ := kw_ahead p _ _ h
  obtain ⟨e1, h1⟩ := parseUOff_rem 8 _ _ v _ h0 (convUnsigned_uTok (by omega) (by omega) v)
  refine ⟨_, ?_, h1, rfl⟩
  unfold parseInstr
  rw [hp]
  simp only [brCC, e1, bind, Except.bind, pure, Except.pure, ofNat3_toNat]

theorem parseInstr_ret (p : Parser)  (r : List Token) (h : rem p = instrToks (.ret) ++ r) :
    ∃ p', parseInstr p = .ok (.ret, p') ∧ rem p' = r ∧ p'.toks = p.toks := by
  simp only [instrToks, List.cons_append, List.nil_append] at h
  obtain ⟨a, b, hp, h0⟩ := kw_ahead p _ _ h
  refine ⟨_, ?_, h0, rfl⟩
  unfold parseInstr
  rw [hp]
  simp only [brCC, bind, Except.bind, pure, Except.pure]

theorem parseInstr_rti (p : Parser)  (r : List Token) (h : rem p = instrToks (.rti) ++ r) :
    ∃ p', parseInstr p = .ok (.rti, p') ∧ rem p' = r ∧ p'.toks = p.toks := by
  simp only [instrToks, List.cons_append, List.nil_append] at h
  obtain ⟨a, b, hp, h0⟩ := kw_ahead p _ _ h
  refine ⟨_, ?_, h0, rfl⟩
  unfold parseInstr
  rw [hp]
  simp only [brCC, bind, Except.bind, pure, Except.pure]

theorem parseInstr_getc (p : Parser)  (r : List Token) (h : rem p = instrToks (.getc) ++ r) :
    ∃ p', parseInstr p = .ok (.getc, p') ∧ rem p' = r ∧ p'.toks = p.toks := by
  simp only [instrToks, List.cons_append, List.nil_append] at h
  obtain ⟨a, b, hp, h0⟩ := kw_ahead p _ _ h
  refine ⟨_, ?_, h0, rfl⟩
  unfold parseInstr
  rw [hp]
  simp only [brCC, bind, Except.bind, pure, Except.pure]

theorem parseInstr_out (p : Parser)  (r : List Token) (h : rem p = instrToks (.out) ++ r) :
    ∃ p', parseInstr p = .ok (.out, p') ∧ rem p' = r ∧ p'.toks = p.toks := by
  simp only [instrToks, List.cons_append, List.nil_append] at h
  obtain ⟨a, b, hp, h0⟩ := kw_ahead p _ _ h
  refine ⟨_, ?_, h0, rfl⟩
  unfold parseInstr
  rw [hp]
  simp only [brCC, bind, Except.bind, pure, Except.pure]

theorem parseInstr_putc (p : Parser)  (r : List Token) (h : rem p = instrToks (.putc) ++ r) :
    ∃ p', parseInstr p = .ok (.putc, p') ∧ rem p' = r ∧ p'.toks = p.toks := by
  simp only [instrToks, List.cons_append, List.nil_append] at h
  obtain ⟨a, b, hp, h0⟩ := kw_ahead p _ _ h
  refine ⟨_, ?_, h0, rfl⟩
  unfold parseInstr
  rw [hp]
  simp only [brCC, bind, Except.bind, pure, Except.pure]

theorem parseInstr_puts (p : Parser)  (r : List Token) (h : rem p = instrToks (.puts) ++ r) :
    ∃ p', parseInstr p = .ok (.puts, p') ∧ rem p' = r ∧ p'.toks = p.toks := by
  simp only [instrToks, List.cons_append, List.nil_append] at h
  obtain ⟨a, b, hp, h0⟩ := kw_ahead p _ _ h
  refine ⟨_, ?_, h0, rfl⟩
  unfold parseInstr
  rw [hp]
  simp only [brCC, bind, Except.bind, pure, Except.pure]

theorem parseInstr_in_ (p : Parser)  (r : List Token) (h : rem p = instrToks (.in_) ++ r) :
    ∃ p', parseInstr p = .ok (.in_, p') ∧ rem p' = r ∧ p'.toks = p.toks := by
  simp only [instrToks, List.cons_append, List.nil_append] at h
  obtain ⟨a, b, hp, h0⟩ := kw_ahead p _ _ h
  refine ⟨_, ?_, h0, rfl⟩
  unfold parseInstr
  rw [hp]
  simp only [brCC, bind, Except.bind, pure, Except.pure]

theorem parseInstr_putsp (p : Parser)  (r : List Token) (h : rem p = instrToks (.putsp) ++ r) :
    ∃ p', parseInstr p = .ok (.putsp, p') ∧ rem p' = r ∧ p'.toks = p.toks := by
  simp only [instrToks, List.cons_append, List.nil_append] at h
  obtain ⟨a, b, hp, h0⟩ := kw_ahead p _ _ h
  refine ⟨_, ?_, h0, rfl⟩
  unfold parseInstr
  rw [hp]
  simp only [brCC, bind, Except.bind, pure, Except.pure]

theorem parseInstr_halt (p : Parser)  (r : List Token) (h : rem p = instrToks (.halt) ++ r) :
    ∃ p', parseInstr p = .ok (.halt, p') ∧ rem p' = r ∧ p'.toks = p.toks := by
  simp only [instrToks, List.cons_append, List.nil_append] at h
  obtain ⟨a, b, hp, h0⟩ := kw_ahead p _ _ h
  refine ⟨_, ?_, h0, rfl⟩
  unfold parseInstr
  rw [hp]
  simp only [brCC, bind, Except.bind, pure, Except.pure]

theorem parseInstr_ld (p : Parser) (d : Reg) (o : PCOff 9) (r : List Token) (h : rem p = instrToks (.ld d o) ++ r) :
    ∃ i' p', parseInstr p = .ok (i', p') ∧ i'.erase = AsmInstr.erase (.ld d o) ∧ rem p' = r ∧ p'.toks = p.toks := by
  simp only [instrToks, List.cons_append, List.nil_append] at h
  obtain ⟨a, b, hp, h0⟩ := kw_ahead p _ _ h
  obtain ⟨e1, h1⟩ := parseReg_rem _ _ _ h0 d.isLt
  obtain ⟨e2, h2⟩ := parseComma_rem _ _ h1
  obtain ⟨o', e3, ho, h3⟩ := parsePCOff_pcTok 9 (by omega) (by omega) _ o _ h2
  refine ⟨.ld (BitVec.ofNat 3 d.toNat) o', _, ?_, ?_, h3, rfl⟩
  · unfold parseInstr
    rw [hp]
    simp only [brCC, e1, e2, e3, bind, Except.bind, pure, Except.pure, ofNat3_toNat]
  · simp only [AsmInstr.erase, ho, ofNat3_toNat]

theorem parseInstr_ldi (p : Parser) (d : Reg) (o : PCOff 9) (r : List Token) (h : rem p = instrToks (.ldi d o) ++ r) :
    ∃ i' p', parseInstr p = .ok (i', p') ∧ i'.erase = AsmInstr.erase (.ldi d o) ∧ rem p' = r ∧ p'.toks = p.toks := by
  simp only [instrToks, List.cons_append, List.nil_append] at h
  obtain ⟨a, b, hp, h0⟩ := kw_ahead p _ _ h
  obtain ⟨e1, h1⟩ := parseReg_rem _ _ _ h0 d.isLt
  obtain ⟨e2, h2⟩ := parseComma_rem _ _ h1
  obtain ⟨o', e3, ho, h3⟩ := parsePCOff_pcTok 9 (by omega) (by omega) _ o _ h2
  refine ⟨.ldi (BitVec.ofNat 3 d.toNat) o', _, ?_, ?_, h3, rfl⟩
  · unfold parseInstr
    rw [hp]
    simp only [brCC, e1, e2, e3, bind, Except.bind, pure, Except.pure, ofNat3_toNat]
  · simp only [AsmInstr.erase, ho, ofNat3_toNat]

theorem parseInstr_lea (p : Parser) (d : Reg) (o : PCOff 9) (r : List Token) (h : rem p = instrToks (.lea d o) ++ r) :
    ∃ i' p', parseInstr p = .ok (i', p') ∧ i'.erase = AsmInstr.erase (.lea d o) ∧ rem p' = r ∧ p'.toks = p.toks := by
  simp only [instrToks, List.cons_append, List.nil_append] at h
  obtain ⟨a, b, hp, h0⟩ := kw_ahead p _ _ h
  obtain ⟨e1, h1⟩ := parseReg_rem _ _ _ h0 d.isLt
  obtain ⟨e2, h2⟩ := parseComma_rem _ _ h1
  obtain ⟨o', e3, ho, h3⟩ := parsePCOff_pcTok 9 (by omega) (by omega) _ o _ h2
  refine ⟨.lea (BitVec.ofNat 3 d.toNat) o', _, ?_, ?_, h3, rfl⟩
  · unfold parseInstr
    rw [hp]
    simp only [brCC, e1, e2, e3, bind, Except.bind, pure, Except.pure, ofNat3_toNat]
  · simp only [AsmInstr.erase, ho, ofNat3_toNat]

theorem parseInstr_st (p : Parser) (d : Reg) (o : PCOff 9) (r : List Token) (h : rem p = instrToks (.st d o) ++ r) :
    ∃ i' p', parseInstr p = .ok (i', p') ∧ i'.erase = AsmInstr.erase (.st d o) ∧ rem p' = r ∧ p'.toks = p.toks := by
  simp only [instrToks, List.cons_append, List.nil_append] at h
  obtain ⟨a, b, hp, h0⟩ := kw_ahead p _ _ h
  obtain ⟨e1, h1⟩ := parseReg_rem _ _ _ h0 d.isLt
  obtain ⟨e2, h2⟩ := parseComma_rem _ _ h1
  obtain ⟨o', e3, ho, h3⟩ := parsePCOff_pcTok 9 (by omega) (by omega) _ o _ h2
  refine ⟨.st (BitVec.ofNat 3 d.toNat) o', _, ?_, ?_, h3, rfl⟩
  · unfold parseInstr
    rw [hp]
    simp only [brCC, e1, e2, e3, bind, Except.bind, pure, Except.pure, ofNat3_toNat]
  · simp only [AsmInstr.erase, ho, ofNat3_toNat]

theorem parseInstr_sti (p : Parser) (d : Reg) (o : PCOff 9) (r : List Token) (h : rem p = instrToks (.sti d o) ++ r) :
    ∃ i' p', parseInstr p = .ok (i', p') ∧ i'.erase = AsmInstr.erase (.sti d o) ∧ rem p' = r ∧ p'.toks = p.toks := by
  simp only [instrToks, List.cons_append, List.nil_append] at h
  obtain ⟨a, b, hp, h0⟩ := kw_ahead p _ _ h
  obtain ⟨e1, h1⟩ := parseReg_rem _ _ _ h0 d.isLt
  obtain ⟨e2, h2⟩ := parseComma_rem _ _ h1
  obtain ⟨o', e3, ho, h3⟩ := parsePCOff_pcTok 9 (by omega) (by omega) _ o _ h2
  refine ⟨.sti (BitVec.ofNat 3 d.toNat) o', _, ?_, ?_, h3, rfl⟩
  · unfold parseInstr
    rw [hp]
    simp only [brCC, e1, e2, e3, bind, Except.bind, pure, Except.pure, ofNat3_toNat]
  · simp only [AsmInstr.erase, ho, ofNat3_toNat]

theorem parseInstr_jsr (p : Parser) (o : PCOff 11) (r : List Token) (h : rem p = instrToks (.jsr o) ++ r) :
    ∃ i' p', parseInstr p = .ok (i', p') ∧ i'.erase = AsmInstr.erase (.jsr o) ∧ rem p' = r ∧ p'.toks = p.toks := by
  simp only [instrToks, List.cons_append, List.nil_append] at h
  obtain ⟨a, b, hp, h0⟩ := kw_ahead p _ _ h
  obtain ⟨o', e1, ho, h1⟩ := parsePCOff_pcTok 11 (by omega) (by omega) _ o _ h0
  refine ⟨.jsr o', _, ?_, ?_, h1, rfl⟩
  · unfold parseInstr
    rw [hp]
    simp only [brCC, e1, bind, Except.bind, pure, Except.pure, ofNat3_toNat]
  · simp only [AsmInstr.erase, ho, ofNat3_toNat]


theorem parseInstr_br (p : Parser) (cc : BitVec 3) (o : PCOff 9) (r : List Token) (hcc : cc ≠ 0)
    (h : rem p = instrToks (.br cc o) ++ r) :
    ∃ i' p', parseInstr p = .ok (i', p') ∧ i'.erase = AsmInstr.erase (.br cc o) ∧ rem p' = r ∧ p'.toks = p.toks := by
  simp only [instrToks, List.cons_append, List.nil_append] at h
  obtain ⟨a, b, hp, h0⟩ := kw_ahead p _ _ h
  obtain ⟨o', e1, ho, h1⟩ := parsePCOff_pcTok 9 (by omega) (by omega) _ o _ h0
  refine ⟨.br cc o', _, ?_, ?_, h1, rfl⟩
  · unfold parseInstr
    rw [hp]
    simp only [brCC_brKw cc hcc, e1, bind, Except.bind, pure, Except.pure]
  · simp only [AsmInstr.erase, ho]

theorem tokOf_of_rem (p : Parser) (t : Token) (r : List Token) (h : rem p = t :: r) : tokOf p = some t := by
  obtain ⟨x, hp, ht, _, _⟩ := peek_of_rem p _ r h
  unfold tokOf; rw [hp]; simp [ht]

theorem parseInstr_nop (p : Parser) (o : PCOff 9) (r : List Token) (h : rem p = instrToks (.nop o) ++ r) :
    ∃ i' p', parseInstr p = .ok (i', p') ∧ i'.erase = AsmInstr.erase (.nop o) ∧ rem p' = r ∧ p'.toks = p.toks := by
  simp only [instrToks, List.cons_append, List.nil_append] at h
  obtain ⟨a, b, hp, h0⟩ := kw_ahead p _ _ h
  obtain ⟨o', e1, ho, h1⟩ := parsePCOff_pcTok 9 (by omega) (by omega) _ o _ h0
  have ht := tokOf_of_rem _ _ _ h0
  refine ⟨.nop o', _, ?_, ?_, h1, rfl⟩
  · unfold parseInstr
    rw [hp]
    simp only [brCC, ht]
    cases o with
    | off v =>
      simp only [pcTok, sTok]
      by_cases hneg : v.toInt < 0
      · rw [if_pos hneg]; simp only [e1, bind, Except.bind, pure, Except.pure]
      · rw [if_neg hneg]; simp only [e1, bind, Except.bind, pure, Except.pure]
    | label l => simp only [pcTok, e1, bind, Except.bind, pure, Except.pure]
  · simp only [AsmInstr.erase, ho]

/-- `parseInstr` reads back the token values of any printed instruction (labels compared by name); a `BR` with an empty
    condition code is excluded: the parser never produces one (it would print as `NOP`) -/
theorem parseInstr_toks (i : AsmInstr) (p : Parser) (r : List Token) (hcc : ∀ cc o, i = .br cc o → cc ≠ 0)
    (h : rem p = instrToks i ++ r) :
    ∃ i' p', parseInstr p = .ok (i', p') ∧ i'.erase = i.erase ∧ rem p' = r ∧ p'.toks = p.toks := by
  cases i with
  | add d s o => obtain ⟨p', a, b, c⟩ := parseInstr_add p d s o r h; exact ⟨_, p', a, rfl, b, c⟩
  | and d s o => obtain ⟨p', a, b, c⟩ := parseInstr_and p d s o r h; exact ⟨_, p', a, rfl, b, c⟩
  | br cc o => exact parseInstr_br p cc o r (hcc cc o rfl) h
  | jmp b0 => obtain ⟨p', a, b, c⟩ := parseInstr_jmp p b0 r h; exact ⟨_, p', a, rfl, b, c⟩
  | jsr o => exact parseInstr_jsr p o r h
  | jsrr b0 => obtain ⟨p', a, b, c⟩ := parseInstr_jsrr p b0 r h; exact ⟨_, p', a, rfl, b, c⟩
  | ld d o => exact parseInstr_ld p d o r h
  | ldi d o => exact parseInstr_ldi p d o r h
  | ldr d b0 o => obtain ⟨p', a, b, c⟩ := parseInstr_ldr p d b0 o r h; exact ⟨_, p', a, rfl, b, c⟩
  | lea d o => exact parseInstr_lea p d o r h
  | not d s => obtain ⟨p', a, b, c⟩ := parseInstr_not p d s r h; exact ⟨_, p', a, rfl, b, c⟩
  | ret => obtain ⟨p', a, b, c⟩ := parseInstr_ret p r h; exact ⟨_, p', a, rfl, b, c⟩
  | rti => obtain ⟨p', a, b, c⟩ := parseInstr_rti p r h; exact ⟨_, p', a, rfl, b, c⟩
  | st d o => exact parseInstr_st p d o r h
  | sti d o => exact parseInstr_sti p d o r h
  | str d b0 o => obtain ⟨p', a, b, c⟩ := parseInstr_str p d b0 o r h; exact ⟨_, p', a, rfl, b, c⟩
  | trap v => obtain ⟨p', a, b, c⟩ := parseInstr_trap p v r h; exact ⟨_, p', a, rfl, b, c⟩
  | nop o => exact parseInstr_nop p o r h
  | getc => obtain ⟨p', a, b, c⟩ := parseInstr_getc p r h; exact ⟨_, p', a, rfl, b, c⟩
  | out => obtain ⟨p', a, b, c⟩ := parseInstr_out p r h; exact ⟨_, p', a, rfl, b, c⟩
  | putc => obtain ⟨p', a, b, c⟩ := parseInstr_putc p r h; exact ⟨_, p', a, rfl, b, c⟩
  | puts => obtain ⟨p', a, b, c⟩ := parseInstr_puts p r h; exact ⟨_, p', a, rfl, b, c⟩
  | in_ => obtain ⟨p', a, b, c⟩ := parseInstr_in_ p r h; exact ⟨_, p', a, rfl, b, c⟩
  | putsp => obtain ⟨p', a, b, c⟩ := parseInstr_putsp p r h; exact ⟨_, p', a, rfl, b, c⟩
  | halt => obtain ⟨p', a, b, c⟩ := parseInstr_halt p r h; exact ⟨_, p', a, rfl, b, c⟩

end Lc3V
