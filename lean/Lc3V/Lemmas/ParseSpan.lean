/- Lemmas/ParseSpan.lean — every span the lexer and the parser produce lies inside the input. -/
import Lc3V.Model.Parse
set_option linter.unusedSimpArgs false
set_option linter.unusedVariables false
namespace Lc3V
open Parser

/-- a span inside a text of `N` bytes -/
def SpanOk (N : Nat) (sp : Nat × Nat) : Prop := sp.1 ≤ sp.2 ∧ sp.2 ≤ N
def TokOk (N : Nat) (t : SpTok) : Prop := t.start ≤ t.stop ∧ t.stop ≤ N

/-! ### lexer -/

theorem blen_append (a b : List Char) : blen (a ++ b) = blen a + blen b := by
  induction a with
  | nil => simp [blen]
  | cons c cs ih => simp [blen, ih]; omega

theorem blen_take_drop (l : List Char) (k : Nat) : blen (l.take k) + blen (l.drop k) = blen l := by
  rw [← blen_append, List.take_append_drop]

theorem lexAll_spans (N : Nat) : ∀ (fuel : Nat) (cs : List Char) (off : Nat) (acc : List SpTok),
    off + blen cs = N → (∀ t ∈ acc, TokOk N t) →
    match lexAll fuel cs off acc with
    | .ok ts => ∀ t ∈ ts, TokOk N t
    | .error (_, a, b) => SpanOk N (a, b) := by
  intro fuel
  induction fuel with
  | zero => intro cs off acc _ hacc; simp only [lexAll]; intro t ht; exact hacc t (List.mem_reverse.mp ht)
  | succ fuel ih =>
    intro cs off acc hoff hacc
    cases cs with
    | nil => simp only [lexAll]; intro t ht; exact hacc t (List.mem_reverse.mp ht)
    | cons c cs =>
      unfold lexAll
      by_cases hws : c = ' ' ∨ c = '\t'
      · rw [if_pos hws]
        apply ih cs (off + 1) acc _ hacc
        have : c.utf8Size = 1 := by rcases hws with rfl | rfl <;> decide
        simp only [blen, this] at hoff; omega
      · rw [if_neg hws]
        have htd := blen_take_drop (c :: cs) (lexOne (c :: cs)).len
        dsimp only
        cases hres : (lexOne (c :: cs)).res with
        | error e => dsimp only; exact ⟨by omega, by omega⟩
        | ok t =>
          dsimp only
          apply ih
          · omega
          · intro t' ht'
            rcases List.mem_cons.mp ht' with h | h
            · subst h; exact ⟨by dsimp only; omega, by dsimp only; omega⟩
            · exact hacc t' h

theorem lex_spans (src : List Char) :
    match lex src with
    | .ok ts => ∀ t ∈ ts, TokOk (blen src) t
    | .error (_, a, b) => SpanOk (blen src) (a, b) := by
  unfold lex
  exact lexAll_spans (blen src) _ src 0 [] (by omega) (by intro t ht; cases ht)

/-! ### parser: token vector is never changed, every error span is a cursor -/

def ToksOk (N : Nat) (toks : Array SpTok) : Prop := ∀ t ∈ toks.toList, TokOk N t

theorem cursor_ok (N : Nat) (p : Parser) (h : ToksOk N p.toks) : SpanOk N p.cursor := by
  unfold cursor peek
  cases h1 : p.toks[p.idx]? with
  | some t =>
    have : t ∈ p.toks.toList := by
      have := Array.mem_of_getElem? h1; exact Array.mem_toList_iff.mpr this
    exact h t this
  | none =>
    dsimp only
    cases h2 : p.toks.back? with
    | some t =>
      have : t ∈ p.toks.toList := by
        rw [Array.back?_eq_getElem?] at h2
        have := Array.mem_of_getElem? h2; exact Array.mem_toList_iff.mpr this
      exact h t this
    | none => exact ⟨Nat.le_refl _, Nat.zero_le _⟩

/-- result of a sub-parser: an error inside the text, or a parser over the same tokens -/
def ROk {α : Type} (N : Nat) (toks : Array SpTok) (r : PRes (α × Parser)) : Prop :=
  match r with
  | .error e => SpanOk N e.span
  | .ok (_, p') => p'.toks = toks
def ROkP (N : Nat) (toks : Array SpTok) (r : PRes Parser) : Prop :=
  match r with
  | .error e => SpanOk N e.span
  | .ok p' => p'.toks = toks

theorem ROk_bind {α β : Type} (N : Nat) (toks : Array SpTok) (m : PRes (α × Parser)) (f : α × Parser → PRes (β × Parser))
    (hm : ROk N toks m) (hf : ∀ a p', p'.toks = toks → ROk N toks (f (a, p'))) : ROk N toks (m >>= f) := by
  cases m with
  | error e => exact hm
  | ok x => obtain ⟨a, p'⟩ := x; exact hf a p' hm

theorem ROkP_bind {β : Type} (N : Nat) (toks : Array SpTok) (m : PRes Parser) (f : Parser → PRes (β × Parser))
    (hm : ROkP N toks m) (hf : ∀ p', p'.toks = toks → ROk N toks (f p')) : ROk N toks (m >>= f) := by
  cases m with
  | error e => exact hm
  | ok p' => exact hf p' hm

theorem ROk_pure {α : Type} (N : Nat) (toks : Array SpTok) (a : α) (p : Parser) (h : p.toks = toks) :
    ROk N toks (pure (a, p) : PRes (α × Parser)) := h

theorem ROk_perr {α : Type} (N : Nat) (toks : Array SpTok) (msg : String) (p : Parser) (h : p.toks = toks) (ht : ToksOk N toks) :
    ROk N toks (perr msg p.cursor : PRes (α × Parser)) := cursor_ok N p (h ▸ ht)

variable (N : Nat) (toks : Array SpTok)

theorem parseReg_rok (p : Parser) (h : p.toks = toks) (ht : ToksOk N toks) : ROk N toks (parseReg p) := by
  unfold parseReg
  split
  · split
    · exact h
    · exact cursor_ok N p (h ▸ ht)
  · exact cursor_ok N p (h ▸ ht)

theorem parseComma_rok (p : Parser) (h : p.toks = toks) (ht : ToksOk N toks) : ROkP N toks (parseComma p) := by
  unfold parseComma
  split
  · exact h
  · exact cursor_ok N p (h ▸ ht)

theorem convSigned_span (n : Nat) (t : Token) (sp : Nat × Nat) (e : ParseErr) (h : convSigned n t sp = some (.error e)) :
    e.span = sp := by
  unfold convSigned at h
  split at h
  · simp only [Option.some.injEq] at h; split at h
    · cases h; rfl
    · split at h <;> cases h <;> rfl
  · simp only [Option.some.injEq] at h; split at h <;> cases h <;> rfl
  · cases h

theorem convUnsigned_span (n : Nat) (t : Token) (sp : Nat × Nat) (e : ParseErr) (h : convUnsigned n t sp = some (.error e)) :
    e.span = sp := by
  unfold convUnsigned at h
  split at h
  · simp only [Option.some.injEq] at h; split at h <;> cases h <;> rfl
  · simp only [Option.some.injEq] at h; split at h
    · cases h; rfl
    · split at h <;> cases h <;> rfl
  · cases h

theorem parseSOff_rok (n : Nat) (p : Parser) (h : p.toks = toks) (ht : ToksOk N toks) : ROk N toks (parseSOff n p) := by
  have hc := cursor_ok N p (h ▸ ht)
  unfold parseSOff
  split
  · split
    · exact h
    · rename_i e he; show SpanOk N e.span; rw [convSigned_span _ _ _ _ he]; exact hc
    · exact hc
  · exact hc

theorem parseUOff_rok (n : Nat) (p : Parser) (h : p.toks = toks) (ht : ToksOk N toks) : ROk N toks (parseUOff n p) := by
  have hc := cursor_ok N p (h ▸ ht)
  unfold parseUOff
  split
  · split
    · exact h
    · rename_i e he; show SpanOk N e.span; rw [convUnsigned_span _ _ _ _ he]; exact hc
    · exact hc
  · exact hc

theorem parseImmOrReg_rok (n : Nat) (p : Parser) (h : p.toks = toks) (ht : ToksOk N toks) : ROk N toks (parseImmOrReg n p) := by
  have hc := cursor_ok N p (h ▸ ht)
  unfold parseImmOrReg
  split
  · split
    · exact h
    · rename_i e he; show SpanOk N e.span; rw [convSigned_span _ _ _ _ he]; exact hc
    · split
      · split
        · exact h
        · exact hc
      · exact hc
  · exact hc

theorem parsePCOff_rok (n : Nat) (p : Parser) (h : p.toks = toks) (ht : ToksOk N toks) : ROk N toks (parsePCOff n p) := by
  have hc := cursor_ok N p (h ▸ ht)
  unfold parsePCOff
  split
  · split
    · exact h
    · rename_i e he; show SpanOk N e.span; rw [convSigned_span _ _ _ _ he]; exact hc
    · split
      · exact h
      · exact hc
  · exact hc

/-- one step of the bind-chain automation -/
macro "rok_step" : tactic => `(tactic| first
  | exact ROk_pure _ _ _ _ (by assumption)
  | exact parseReg_rok _ _ _ (by assumption) (by assumption)
  | exact parseSOff_rok _ _ _ _ (by assumption) (by assumption)
  | exact parseUOff_rok _ _ _ _ (by assumption) (by assumption)
  | exact parseImmOrReg_rok _ _ _ _ (by assumption) (by assumption)
  | exact parsePCOff_rok _ _ _ _ (by assumption) (by assumption)
  | exact parseComma_rok _ _ _ (by assumption) (by assumption)
  | exact ROk_perr _ _ _ _ (by assumption) (by assumption)
  | (apply ROk_bind)
  | (apply ROkP_bind)
  | (intro a p' hp'; try dsimp only)
  | (intro p' hp'; try dsimp only))

theorem parseInstr_rok (p : Parser) (h : p.toks = toks) (ht : ToksOk N toks) : ROk N toks (parseInstr p) := by
  have hc := cursor_ok N p (h ▸ ht)
  have ha : p.advance.toks = toks := h
  unfold parseInstr
  split
  · rename_i k _ _ _
    dsimp only
    split
    · repeat rok_step
    · cases k <;> dsimp only <;> try (repeat rok_step)
      -- NOP
      split <;> repeat rok_step
  · exact hc

theorem parseDirective_rok (p : Parser) (h : p.toks = toks) (ht : ToksOk N toks) : ROk N toks (parseDirective p) := by
  have hc := cursor_ok N p (h ▸ ht)
  have ha : p.advance.toks = toks := h
  have ha2 : p.advance.advance.toks = toks := h
  have hca := cursor_ok N p.advance (ha ▸ ht)
  unfold parseDirective
  dsimp only
  split
  · split
    · repeat rok_step
    · split
      · split
        · exact ha2
        · split
          · exact ha2
          · exact ha2
          · exact hca
      · split
        · apply ROk_bind
          · repeat rok_step
          · intro a p' hp'; dsimp only; split
            · exact hp'
            · exact hca
        · split
          · split
            · exact ha2
            · exact hca
          · split
            · exact ha
            · split
              · split
                · exact ha2
                · exact hca
              · exact hc
  · exact hc

theorem parseLabels_ok : ∀ (fuel : Nat) (p : Parser) (acc : List Label) (last : Option (Nat × Nat)),
    p.toks = toks → ToksOk N toks → (∀ sp ∈ last, SpanOk N sp) →
    (parseLabels fuel p acc last).2.2.toks = toks ∧ (∀ sp ∈ (parseLabels fuel p acc last).2.1, SpanOk N sp) := by
  intro fuel
  induction fuel with
  | zero => intro p acc last h ht hl; exact ⟨h, hl⟩
  | succ fuel ih =>
    intro p acc last h ht hl
    unfold parseLabels
    split
    · exact ⟨h, hl⟩
    · dsimp only
      split
      · apply ih
        · unfold skipColon; split <;> exact h
        · exact ht
        · intro sp hsp; simp only [Option.mem_def, Option.some.injEq] at hsp; subst hsp; exact cursor_ok N p (h ▸ ht)
      · split
        · exact ih _ _ _ h ht hl
        · exact ih _ _ _ h ht hl
        · exact ⟨h, hl⟩

theorem skipNewlines_toks : ∀ (fuel : Nat) (p : Parser), (skipNewlines fuel p).toks = p.toks := by
  intro fuel
  induction fuel with
  | zero => intro p; rfl
  | succ fuel ih =>
    intro p
    unfold skipNewlines
    split
    · rfl
    · split
      · rw [ih]; rfl
      · rfl

theorem parseStmt_rok (p : Parser) (h : p.toks = toks) (ht : ToksOk N toks) : ROk N toks (parseStmt p) := by
  unfold parseStmt
  have hl := parseLabels_ok N toks (p.toks.size + 1) p [] none h ht (by intro sp hsp; cases hsp)
  generalize parseLabels (p.toks.size + 1) p [] none = r at hl
  obtain ⟨labels, last, p1⟩ := r
  obtain ⟨h1, hlast⟩ := hl
  dsimp only at h1 hlast ⊢
  have hc1 := cursor_ok N p1 (h1 ▸ ht)
  have hnuc : ROk N toks (parseNucleus p1 last) := by
    unfold parseNucleus
    split
    · apply ROk_bind
      · exact parseDirective_rok N toks p1 h1 ht
      · intro a p' hp'; exact hp'
    · apply ROk_bind
      · exact parseInstr_rok N toks p1 h1 ht
      · intro a p' hp'; exact hp'
    · show SpanOk N (last.getD p1.cursor)
      cases last with
      | none => exact hc1
      | some sp => exact hlast sp rfl
  revert hnuc
  generalize parseNucleus p1 last = nuc
  intro hnuc
  cases nuc with
  | error e => exact hnuc
  | ok x =>
    obtain ⟨k, p'⟩ := x
    have hp' : p'.toks = toks := hnuc
    dsimp only
    split
    · show (skipNewlines _ _).toks = toks; rw [skipNewlines_toks]; exact hp'
    · show (skipNewlines _ _).toks = toks; rw [skipNewlines_toks]; exact hp'
    · exact cursor_ok N p' (hp' ▸ ht)

theorem parseAll_span : ∀ (fuel : Nat) (p : Parser) (acc : List Stmt) (e : ParseErr),
    p.toks = toks → ToksOk N toks → parseAll fuel p acc = .error e → SpanOk N e.span := by
  intro fuel
  induction fuel with
  | zero => intro p acc e _ _ h; simp [parseAll] at h
  | succ fuel ih =>
    intro p acc e h ht he
    unfold parseAll at he
    split at he
    · cases he
    · have hs := parseStmt_rok N toks p h ht
      split at he
      · rename_i e' heq; cases he; rw [heq] at hs; exact hs
      · rename_i s p' heq; rw [heq] at hs; exact ih p' _ e hs ht he

/-- every error of `parse_ast` carries a span inside the text -/
theorem parseAst_span (src : List Char) (e : ParseErr) (h : parseAst src = .error e) : SpanOk (blen src) e.span := by
  unfold parseAst at h
  have hl := lex_spans src
  split at h
  · rename_i le a b heq; rw [heq] at hl; cases h; exact hl
  · rename_i ts heq
    rw [heq] at hl
    dsimp only at h
    apply parseAll_span (blen src) _ _ _ _ e rfl _ h
    intro t ht
    dsimp only at ht
    simp only [List.toList_toArray, List.mem_filter] at ht
    exact hl t ht.1

end Lc3V
