/- Lemmas/ParseStmtToks.lean — directives, labels and whole statements on known token values. -/
import Lc3V.Lemmas.ParseInstrToks
set_option linter.unusedSimpArgs false
set_option linter.unusedVariables false
namespace Lc3V
open Parser

def Directive.erase : Directive → Directive
  | .fill v => .fill v.erase
  | .external l => .external ⟨l.name, 0⟩
  | d => d

def dOrig : List Char := ['o', 'r', 'i', 'g']
def dFill : List Char := ['f', 'i', 'l', 'l']
def dBlkw : List Char := ['b', 'l', 'k', 'w']
def dStringz : List Char := ['s', 't', 'r', 'i', 'n', 'g', 'z']
def dEnd : List Char := ['e', 'n', 'd']
def dExternal : List Char := ['e', 'x', 't', 'e', 'r', 'n', 'a', 'l']

/-- the token values of a printed directive -/
def dirToks : Directive → List Token
  | .orig a => [.directive dOrig, .unsigned a.toNat]
  | .fill (.off v) => [.directive dFill, .unsigned v.toNat]
  | .fill (.label l) => [.directive dFill, .ident (.label l.name)]
  | .blkw n => [.directive dBlkw, .unsigned n.toNat]
  | .stringz s => [.directive dStringz, .string s]
  | .end_ => [.directive dEnd]
  | .external l => [.directive dExternal, .ident (.label l.name)]

theorem dir_ahead (p : Parser) (name : List Char) (r : List Token) (h : rem p = .directive name :: r) :
    ∃ a b, p.peek = some ⟨.directive name, a, b⟩ ∧ rem p.advance = r := by
  obtain ⟨x, hp, ht, hr, _⟩ := peek_of_rem p _ r h
  obtain ⟨tk, a, b⟩ := x
  simp only at ht; subst ht
  exact ⟨a, b, hp, hr⟩

theorem label_ahead (p : Parser) (s : List Char) (r : List Token) (h : rem p = .ident (.label s) :: r) :
    ∃ a b, p.peek = some ⟨.ident (.label s), a, b⟩ ∧ rem p.advance = r := by
  obtain ⟨x, hp, ht, hr, _⟩ := peek_of_rem p _ r h
  obtain ⟨tk, a, b⟩ := x
  simp only at ht; subst ht
  exact ⟨a, b, hp, hr⟩

theorem up_orig : String.ofList (upperS dOrig) = "ORIG" := by decide
theorem up_fill : String.ofList (upperS dFill) = "FILL" := by decide
theorem up_blkw : String.ofList (upperS dBlkw) = "BLKW" := by decide
theorem up_stringz : String.ofList (upperS dStringz) = "STRINGZ" := by decide
theorem up_end : String.ofList (upperS dEnd) = "END" := by decide
theorem up_external : String.ofList (upperS dExternal) = "EXTERNAL" := by decide

theorem ofNat16_toNat (v : W) : BitVec.ofNat 16 v.toNat = v := by
  apply BitVec.eq_of_toNat_eq; simp [Nat.mod_eq_of_lt v.isLt]

/-- `parseDirective` reads back the token values of any printed directive (`.blkw 0` is excluded: the parser never
    produces it) -/
theorem parseDirective_toks (d : Directive) (p : Parser) (r : List Token) (hb : ∀ n, d = .blkw n → n ≠ 0)
    (h : rem p = dirToks d ++ r) :
    ∃ d' p', parseDirective p = .ok (d', p') ∧ d'.erase = d.erase ∧ rem p' = r ∧ p'.toks = p.toks := by
  cases d with
  | orig a =>
    simp only [dirToks, List.cons_append, List.nil_append] at h
    obtain ⟨x, y, hp, h0⟩ := dir_ahead p _ _ h
    obtain ⟨e1, h1⟩ := parseUOff_rem 16 _ _ a _ h0 (convUnsigned_uTok (by omega) (by omega) a)
    refine ⟨.orig a, _, ?_, rfl, h1, rfl⟩
    unfold parseDirective
    rw [hp]
    simp only [up_orig, if_true, e1, bind, Except.bind, pure, Except.pure]
  | fill v =>
    cases v with
    | off v =>
      simp only [dirToks, List.cons_append, List.nil_append] at h
      obtain ⟨x, y, hp, h0⟩ := dir_ahead p _ _ h
      obtain ⟨z, hz, hzt, h1, _⟩ := peek_of_rem _ _ _ h0
      have ht := tokOf_of_rem _ _ _ h0
      refine ⟨.fill (.off v), _, ?_, rfl, h1, rfl⟩
      unfold parseDirective
      rw [hp]
      have hl : labelOf p.advance = none := by unfold labelOf; rw [hz]; obtain ⟨tk, a, b⟩ := z; simp only at hzt; subst hzt; rfl
      simp (config := {decide := true}) only [up_fill, if_false, if_true, hl, ht, pure, Except.pure, ofNat16_toNat]
    | label l =>
      simp only [dirToks, List.cons_append, List.nil_append] at h
      obtain ⟨x, y, hp, h0⟩ := dir_ahead p _ _ h
      obtain ⟨a, b, hq, h1⟩ := label_ahead _ _ _ h0
      refine ⟨.fill (.label ⟨l.name, a⟩), _, ?_, rfl, h1, rfl⟩
      unfold parseDirective
      rw [hp]
      have hl : labelOf p.advance = some ⟨l.name, a⟩ := by unfold labelOf; rw [hq]
      simp (config := {decide := true}) only [up_fill, if_false, if_true, hl, pure, Except.pure]
  | blkw n =>
    simp only [dirToks, List.cons_append, List.nil_append] at h
    obtain ⟨x, y, hp, h0⟩ := dir_ahead p _ _ h
    obtain ⟨e1, h1⟩ := parseUOff_rem 16 _ _ n _ h0 (convUnsigned_uTok (by omega) (by omega) n)
    refine ⟨.blkw n, _, ?_, rfl, h1, rfl⟩
    unfold parseDirective
    rw [hp]
    simp (config := {decide := true}) only [up_blkw, if_false, if_true, e1, bind, Except.bind, pure, Except.pure, hb n rfl, ne_eq, not_false_eq_true]
  | stringz s =>
    simp only [dirToks, List.cons_append, List.nil_append] at h
    obtain ⟨x, y, hp, h0⟩ := dir_ahead p _ _ h
    obtain ⟨z, hz, hzt, h1, _⟩ := peek_of_rem _ _ _ h0
    have ht := tokOf_of_rem _ _ _ h0
    refine ⟨.stringz s, _, ?_, rfl, h1, rfl⟩
    unfold parseDirective
    rw [hp]
    simp (config := {decide := true}) only [up_stringz, if_false, if_true, ht, pure, Except.pure]
  | end_ =>
    simp only [dirToks, List.cons_append, List.nil_append] at h
    obtain ⟨x, y, hp, h0⟩ := dir_ahead p _ _ h
    refine ⟨.end_, _, ?_, rfl, h0, rfl⟩
    unfold parseDirective
    rw [hp]
    simp (config := {decide := true}) only [up_end, if_false, if_true, pure, Except.pure]
  | external l =>
    simp only [dirToks, List.cons_append, List.nil_append] at h
    obtain ⟨x, y, hp, h0⟩ := dir_ahead p _ _ h
    obtain ⟨a, b, hq, h1⟩ := label_ahead _ _ _ h0
    refine ⟨.external ⟨l.name, a⟩, _, ?_, rfl, h1, rfl⟩
    unfold parseDirective
    rw [hp]
    have hl : labelOf p.advance = some ⟨l.name, a⟩ := by unfold labelOf; rw [hq]
    simp (config := {decide := true}) only [up_external, if_false, if_true, hl, pure, Except.pure]

end Lc3V

namespace Lc3V
open Parser

theorem isEmpty_eq (p : Parser) : p.isEmpty = (rem p).all (fun t => t == .newline) := by
  unfold Parser.isEmpty rem
  rw [List.all_map]
  rfl

def StmtKind.erase : StmtKind → StmtKind
  | .instr i => .instr i.erase
  | .directive d => .directive d.erase

def kindToks : StmtKind → List Token
  | .instr i => instrToks i
  | .directive d => dirToks d

def labelToks (ls : List Label) : List Token := ls.map (fun l => .ident (.label l.name))

theorem kindToks_head (k : StmtKind) : ∃ t r, kindToks k = t :: r ∧ ((∃ kw, t = .ident (.kw kw)) ∨ (∃ n, t = .directive n)) := by
  cases k with
  | instr i => cases i <;> exact ⟨_, _, rfl, Or.inl ⟨_, rfl⟩⟩
  | directive d =>
    cases d with
    | fill v => cases v <;> exact ⟨_, _, rfl, Or.inr ⟨_, rfl⟩⟩
    | _ => exact ⟨_, _, rfl, Or.inr ⟨_, rfl⟩⟩

/-- the label loop consumes exactly the label tokens and stops in front of the nucleus -/
theorem parseLabels_toks (ls : List Label) : ∀ (fuel : Nat) (p : Parser) (acc : List Label) (last : Option (Nat × Nat)) (k : StmtKind),
    ls.length < fuel → rem p = labelToks ls ++ kindToks k →
    ∃ got last' p', parseLabels fuel p acc last = (acc.reverse ++ got, last', p') ∧ got.map (·.name) = ls.map (·.name) ∧
      rem p' = kindToks k ∧ p'.toks = p.toks := by
  induction ls with
  | nil =>
    intro fuel p acc last k hf h
    obtain ⟨f, rfl⟩ : ∃ f, fuel = f + 1 := ⟨fuel - 1, by simp at hf; omega⟩
    simp only [labelToks, List.map_nil, List.nil_append] at h
    obtain ⟨t, r, hk, hkind⟩ := kindToks_head k
    rw [hk] at h
    have ht := tokOf_of_rem _ _ _ h
    obtain ⟨x, hp, hxt, _, _⟩ := peek_of_rem p _ _ h
    have hne : p.isEmpty = false := by
      rw [isEmpty_eq, h]
      rcases hkind with ⟨kw, rfl⟩ | ⟨n, rfl⟩ <;> simp
    have hl : labelOf p = none := by
      unfold labelOf; rw [hp]
      obtain ⟨tk, a, b⟩ := x
      simp only at hxt; subst hxt
      rcases hkind with ⟨kw, rfl⟩ | ⟨n, rfl⟩ <;> rfl
    refine ⟨[], last, p, ?_, rfl, by rw [h, hk], rfl⟩
    unfold parseLabels
    simp only [hne, Bool.false_eq_true, if_false, hl, ht, List.append_nil]
    rcases hkind with ⟨kw, rfl⟩ | ⟨n, rfl⟩ <;> rfl
  | cons l ls ih =>
    intro fuel p acc last k hf h
    obtain ⟨f, rfl⟩ : ∃ f, fuel = f + 1 := ⟨fuel - 1, by simp at hf; omega⟩
    simp only [labelToks, List.map_cons, List.cons_append] at h
    obtain ⟨a, b, hp, h0⟩ := label_ahead p _ _ h
    have hne : p.isEmpty = false := by rw [isEmpty_eq, h]; simp
    have hl : labelOf p = some ⟨l.name, a⟩ := by unfold labelOf; rw [hp]
    -- the token after a label is another label or the nucleus, never a colon
    have hnc : tokOf p.advance ≠ some .colon := by
      cases ls with
      | nil =>
        simp only [List.map_nil, List.nil_append] at h0
        obtain ⟨t, r, hk, hkind⟩ := kindToks_head k
        rw [hk] at h0
        rw [tokOf_of_rem _ _ _ h0]
        rcases hkind with ⟨kw, rfl⟩ | ⟨n, rfl⟩ <;> simp
      | cons l2 ls2 =>
        simp only [List.map_cons, List.cons_append] at h0
        rw [tokOf_of_rem _ _ _ h0]; simp
    obtain ⟨got, last', p', hres, hnames, hrem, htoks⟩ := ih f p.advance (⟨l.name, a⟩ :: acc) (some p.cursor) k
      (by simp only [List.length_cons] at hf; omega) h0
    refine ⟨⟨l.name, a⟩ :: got, last', p', ?_, by simp [hnames], hrem, htoks⟩
    unfold parseLabels
    simp only [hne, Bool.false_eq_true, if_false, hl]
    have hmatch : skipColon p.advance = p.advance := by
      unfold skipColon
      split
      · rename_i hc; exact absurd hc hnc
      · rfl
    rw [hmatch, hres]; simp

theorem rem_advance_nil (p : Parser) (h : rem p = []) : rem p.advance = [] := by
  unfold rem at h ⊢
  have hd : p.toks.toList.drop p.idx = [] := by simpa using h
  have hle : p.toks.toList.length ≤ p.idx := List.drop_eq_nil_iff.mp hd
  have : p.toks.toList.drop p.advance.idx = [] := by
    apply List.drop_eq_nil_iff.mpr
    unfold Parser.advance
    simp only
    have : p.toks.size = p.toks.toList.length := by simp
    omega
  show List.map (fun x => x.tok) (List.drop p.advance.idx p.toks.toList) = []
  rw [this]; rfl

theorem skipNewlines_nil : ∀ (fuel : Nat) (p : Parser), rem p = [] → rem (skipNewlines fuel p) = [] := by
  intro fuel
  induction fuel with
  | zero => intro p h; exact h
  | succ f ih =>
    intro p h
    unfold skipNewlines
    have : p.isEmpty = true := by rw [isEmpty_eq, h]; rfl
    simp only [this, if_true]
    exact h

/-- a printed statement's token values are parsed back into the statement (labels by name, the nucleus up to label positions) -/
theorem parseStmt_toks (labels : List Label) (k : StmtKind) (p : Parser)
    (hcc : ∀ cc o, k = .instr (.br cc o) → cc ≠ 0) (hb : ∀ n, k = .directive (.blkw n) → n ≠ 0)
    (h : rem p = labelToks labels ++ kindToks k) :
    ∃ s' p', parseStmt p = .ok (s', p') ∧ s'.labels.map (·.name) = labels.map (·.name) ∧ s'.nucleus.erase = k.erase ∧ rem p' = [] := by
  have hlen : labels.length < p.toks.size + 1 := by
    have : (rem p).length ≤ p.toks.size := by unfold rem; simp
    rw [h] at this
    simp only [labelToks, List.length_append, List.length_map] at this
    omega
  obtain ⟨got, last', p1, hl, hnames, hrem, _⟩ := parseLabels_toks labels (p.toks.size + 1) p [] none k hlen h
  simp only [List.reverse_nil, List.nil_append] at hl
  unfold parseStmt
  rw [hl]
  dsimp only
  cases k with
  | instr i =>
    obtain ⟨i', p2, hi, herase, hrem2, _⟩ := parseInstr_toks i p1 [] (fun cc o e => hcc cc o (by rw [e])) (by simpa [kindToks] using hrem)
    obtain ⟨kw, hkw⟩ : ∃ kw r, instrToks i = .ident (.kw kw) :: r := by cases i <;> exact ⟨_, _, rfl⟩
    obtain ⟨r, hkw⟩ := hkw
    have ht : tokOf p1 = some (.ident (.kw kw)) := tokOf_of_rem _ _ r (by rw [hrem]; simp [kindToks, hkw])
    have hnone : tokOf p2 = none := by unfold tokOf; rw [peek_none_of_rem p2 hrem2]; rfl
    have hn : parseNucleus p1 last' = .ok (.instr i', p2) := by
      unfold parseNucleus
      simp only [ht, hi, bind, Except.bind, pure, Except.pure]
    rw [hn]
    simp only [hnone]
    exact ⟨_, _, rfl, hnames, by simp [StmtKind.erase, herase], skipNewlines_nil _ _ (rem_advance_nil _ hrem2)⟩
  | directive d =>
    obtain ⟨d', p2, hi, herase, hrem2, _⟩ := parseDirective_toks d p1 [] (fun n e => hb n (by rw [e])) (by simpa [kindToks] using hrem)
    obtain ⟨nm, r, hnm⟩ : ∃ nm r, dirToks d = .directive nm :: r := by
      cases d with
      | fill v => cases v <;> exact ⟨_, _, rfl⟩
      | _ => exact ⟨_, _, rfl⟩
    have ht : tokOf p1 = some (.directive nm) := tokOf_of_rem _ _ r (by rw [hrem]; simp [kindToks, hnm])
    have hnone : tokOf p2 = none := by unfold tokOf; rw [peek_none_of_rem p2 hrem2]; rfl
    have hn : parseNucleus p1 last' = .ok (.directive d', p2) := by
      unfold parseNucleus
      simp only [ht, hi, bind, Except.bind, pure, Except.pure]
    rw [hn]
    simp only [hnone]
    exact ⟨_, _, rfl, hnames, by simp [StmtKind.erase, herase], skipNewlines_nil _ _ (rem_advance_nil _ hrem2)⟩

end Lc3V
