/- Lemmas/ParseToks.lean — the parser on a known sequence of token values (spans arbitrary). -/
import Lc3V.Model.Parse
set_option linter.unusedSimpArgs false
set_option linter.unusedVariables false
namespace Lc3V
open Parser

/-- the token values still ahead of the parser -/
def rem (p : Parser) : List Token := (p.toks.toList.drop p.idx).map (·.tok)

theorem peek_of_rem (p : Parser) (t : Token) (r : List Token) (h : rem p = t :: r) :
    ∃ x, p.peek = some x ∧ x.tok = t ∧ rem p.advance = r ∧ p.idx < p.toks.size := by
  unfold rem at h
  cases hd : p.toks.toList.drop p.idx with
  | nil => rw [hd] at h; cases h
  | cons x xs =>
    rw [hd] at h
    simp only [List.map_cons, List.cons.injEq] at h
    have hlt : p.idx < p.toks.toList.length := by
      apply Classical.not_not.mp
      intro hn
      rw [List.drop_eq_nil_of_le (by omega)] at hd; cases hd
    have hx : p.toks.toList[p.idx]? = some x := by
      have := List.getElem?_drop (xs := p.toks.toList) (i := p.idx) (j := 0)
      rw [hd] at this
      simpa using this.symm
    refine ⟨x, ?_, h.1, ?_, by simpa using hlt⟩
    · unfold Parser.peek
      rw [← Array.getElem?_toList]; exact hx
    · unfold rem Parser.advance
      have hsz : p.toks.size = p.toks.toList.length := by simp
      have : min (p.idx + 1) p.toks.size = p.idx + 1 := by omega
      simp only [this]
      rw [← List.drop_drop, hd]
      simpa using h.2

theorem peek_none_of_rem (p : Parser) (h : rem p = []) : p.peek = none := by
  unfold rem at h
  have hd : p.toks.toList.drop p.idx = [] := by simpa using h
  unfold Parser.peek
  rw [← Array.getElem?_toList]
  have : p.toks.toList.length ≤ p.idx := List.drop_eq_nil_iff.mp hd
  exact List.getElem?_eq_none this

theorem parseReg_rem (p : Parser) (n : Nat) (r : List Token) (h : rem p = .reg n :: r) (hn : n < 8) :
    parseReg p = .ok (BitVec.ofNat 3 n, p.advance) ∧ rem p.advance = r := by
  obtain ⟨x, hp, ht, hr, _⟩ := peek_of_rem p _ r h
  unfold parseReg tokOf
  rw [hp]
  simp only [Option.map_some, ht, hn, if_true]
  exact ⟨(by first | rfl | trivial), hr⟩

theorem parseComma_rem (p : Parser) (r : List Token) (h : rem p = .comma :: r) :
    parseComma p = .ok p.advance ∧ rem p.advance = r := by
  obtain ⟨x, hp, ht, hr, _⟩ := peek_of_rem p _ r h
  unfold parseComma tokOf
  rw [hp]
  simp only [Option.map_some, ht]
  exact ⟨(by first | rfl | trivial), hr⟩

theorem parseSOff_rem (n : Nat) (p : Parser) (t : Token) (v : BitVec n) (r : List Token) (h : rem p = t :: r)
    (hc : ∀ sp, convSigned n t sp = some (.ok v)) : parseSOff n p = .ok (v, p.advance) ∧ rem p.advance = r := by
  obtain ⟨x, hp, ht, hr, _⟩ := peek_of_rem p _ r h
  unfold parseSOff
  rw [hp]
  simp only [ht, hc]
  exact ⟨(by first | rfl | trivial), hr⟩

theorem parseUOff_rem (n : Nat) (p : Parser) (t : Token) (v : BitVec n) (r : List Token) (h : rem p = t :: r)
    (hc : ∀ sp, convUnsigned n t sp = some (.ok v)) : parseUOff n p = .ok (v, p.advance) ∧ rem p.advance = r := by
  obtain ⟨x, hp, ht, hr, _⟩ := peek_of_rem p _ r h
  unfold parseUOff
  rw [hp]
  simp only [ht, hc]
  exact ⟨(by first | rfl | trivial), hr⟩

theorem parseImmOrReg_imm (n : Nat) (p : Parser) (t : Token) (v : BitVec n) (r : List Token) (h : rem p = t :: r)
    (hc : ∀ sp, convSigned n t sp = some (.ok v)) : parseImmOrReg n p = .ok (.imm v, p.advance) ∧ rem p.advance = r := by
  obtain ⟨x, hp, ht, hr, _⟩ := peek_of_rem p _ r h
  unfold parseImmOrReg
  rw [hp]
  simp only [ht, hc]
  exact ⟨(by first | rfl | trivial), hr⟩

theorem parseImmOrReg_reg (n : Nat) (p : Parser) (k : Nat) (r : List Token) (h : rem p = .reg k :: r) (hk : k < 8) :
    parseImmOrReg n p = .ok (.reg (BitVec.ofNat 3 k), p.advance) ∧ rem p.advance = r := by
  obtain ⟨x, hp, ht, hr, _⟩ := peek_of_rem p _ r h
  unfold parseImmOrReg
  rw [hp]
  simp only [ht, convSigned, hk, if_true]
  exact ⟨(by first | rfl | trivial), hr⟩

theorem parsePCOff_off (n : Nat) (p : Parser) (t : Token) (v : BitVec n) (r : List Token) (h : rem p = t :: r)
    (hc : ∀ sp, convSigned n t sp = some (.ok v)) : parsePCOff n p = .ok (.off v, p.advance) ∧ rem p.advance = r := by
  obtain ⟨x, hp, ht, hr, _⟩ := peek_of_rem p _ r h
  unfold parsePCOff
  rw [hp]
  simp only [ht, hc]
  exact ⟨(by first | rfl | trivial), hr⟩

theorem parsePCOff_label (n : Nat) (p : Parser) (s : List Char) (r : List Token) (h : rem p = .ident (.label s) :: r) :
    ∃ a, parsePCOff n p = .ok (.label ⟨s, a⟩, p.advance) ∧ rem p.advance = r := by
  obtain ⟨x, hp, ht, hr, _⟩ := peek_of_rem p _ r h
  obtain ⟨tk, a, b⟩ := x
  simp only at ht; subst ht
  refine ⟨a, ?_, hr⟩
  unfold parsePCOff labelOf
  rw [hp]
  simp only [convSigned]

end Lc3V
