/-
  Lemmas/ParserDischarge.lean — the side hypotheses of the whole-program assembler theorems hold for every program that
  comes out of `parseAst`: short strings, non-empty `.blkw`, bounded labels, statements on strictly increasing lines.
-/
import Lc3V.Lemmas.ParserOut
import Lc3V.Lemmas.AssembledWF
import Lc3V.Props.C25
set_option linter.unusedSimpArgs false
set_option linter.unusedVariables false
namespace Lc3V
open SourceInfo

/-! ### upper-casing never expands a character to more than three -/

set_option maxRecDepth 100000 in
theorem upperTable_short : Gen.upperTable.toList.all (fun e => e.2.length ≤ 3) = true := by decide +kernel

theorem upperLookupAux_mem (t : Array (Nat × List Nat)) (n : Nat) : ∀ (fuel lo hi : Nat) (u : List Nat),
    upperLookupAux t n fuel lo hi = some u → ∃ a, (a, u) ∈ t.toList := by
  intro fuel
  induction fuel with
  | zero => intro lo hi u h; simp [upperLookupAux] at h
  | succ fuel ih =>
    intro lo hi u h
    unfold upperLookupAux at h
    split at h
    · cases h
    · dsimp only at h
      split at h
      · cases h
      · rename_i a u' hm
        split at h
        · exact ih _ _ _ h
        · split at h
          · exact ih _ _ _ h
          · cases h
            exact ⟨a, Array.mem_toList_iff.mpr (Array.mem_of_getElem? hm)⟩

theorem upperC_length (c : Char) : (upperC c).length ≤ 3 := by
  unfold upperC
  split
  · simp
  · split
    · simp
    · split
      · rename_i u hu
        obtain ⟨a, ha⟩ := upperLookupAux_mem _ _ _ _ _ _ hu
        have := List.all_eq_true.mp upperTable_short _ ha
        simpa using this
      · simp

theorem blen_le_four : ∀ l : List Char, blen l ≤ 4 * l.length
  | [] => Nat.le_refl _
  | c :: cs => by
    have := blen_le_four cs
    have h4 : c.utf8Size ≤ 4 := Char.utf8Size_le_four c
    simp only [List.length_cons, blen]; omega

theorem blen_upperS : ∀ s : List Char, blen (upperS s) ≤ 12 * s.length
  | [] => by simp [upperS, blen]
  | c :: cs => by
    have ih := blen_upperS cs
    have h1 := blen_le_four (upperC c)
    have h2 := upperC_length c
    unfold upperS at ih ⊢
    simp only [List.flatMap_cons, blen_append, List.length_cons]
    omega

/-! ### strings, sizes, labels -/

theorem labTok_bounds (src : List Char) (toks : Array SpTok) (hf : ∀ t ∈ toks.toList, TokFact src t) (l : Label) (h : LabTok toks l) :
    l.start ≤ blen src ∧ blen (upperS l.name) ≤ 12 * blen src := by
  obtain ⟨t, ht, hk, hs⟩ := h
  have f := hf t ht
  have h1 := (f.lab l.name hk).1
  have h2 := blen_upperS l.name
  have := f.lo; have := f.hi
  constructor
  · omega
  · omega

/-- every property of parser output used as a hypothesis by the assembler theorems, except the line structure -/
theorem parsed_stmt_facts (src : List Char) (toks : Array SpTok) (stmts : List Stmt) (hf : ∀ t ∈ toks.toList, TokFact src t)
    (hs : ∀ s ∈ stmts, StmtFact toks s) (hsrc : 12 * blen src < 2 ^ 64) :
    (∀ s ∈ stmts, ∀ x, s.nucleus = .directive (.stringz x) → blen x + 1 < 65536) ∧
    (∀ s ∈ stmts, noLine s.nucleus = false → 1 ≤ s.nucleus.wordLen.toNat) ∧
    LabelsBounded stmts ∧ FillLabelsBounded stmts := by
  refine ⟨?_, ?_, ?_, ?_⟩
  · intro s hsm x hx
    have := (hs s hsm).2.1
    rw [hx] at this
    obtain ⟨t, ht, hk⟩ := this
    have := (hf t ht).str x hk
    omega
  · intro s hsm hnl
    have hk := (hs s hsm).2.1
    cases hn : s.nucleus with
    | instr i => simp [StmtKind.wordLen]
    | directive d =>
      rw [hn] at hk hnl
      cases d with
      | orig a => cases hnl
      | end_ => cases hnl
      | external l => cases hnl
      | fill v => simp [StmtKind.wordLen, Directive.wordLen]
      | blkw n =>
        have hne : n ≠ 0 := hk
        simp only [StmtKind.wordLen, Directive.wordLen]
        have : n.toNat ≠ 0 := fun h0 => hne (BitVec.eq_of_toNat_eq (by simpa using h0))
        omega
      | stringz x =>
        obtain ⟨t, ht, htk⟩ := hk
        have := (hf t ht).str x htk
        simp only [StmtKind.wordLen, Directive.wordLen, BitVec.toNat_ofNat]
        omega
  · intro s hsm l hd
    have hl : LabTok toks l := by
      rcases hd with hd | hd
      · exact (hs s hsm).1 l hd
      · have := (hs s hsm).2.1; rw [hd] at this; exact this
    have := labTok_bounds src toks hf l hl
    omega
  · intro s hsm l hd
    have hl : LabTok toks l := by have := (hs s hsm).2.1; rw [hd] at this; exact this
    have := labTok_bounds src toks hf l hl
    omega

/-! ### lines -/

theorem countP_step (l : List Nat) (a q b : Nat) (hq : q ∈ l) (ha : a ≤ q) (hb : q < b) :
    l.countP (· < a) + 1 ≤ l.countP (· < b) := by
  induction l with
  | nil => cases hq
  | cons x xs ih =>
    have hmono : xs.countP (· < a) ≤ xs.countP (· < b) := by
      apply List.countP_mono_left
      intro y _ hy
      simp only [decide_eq_true_eq] at hy ⊢; omega
    simp only [List.countP_cons]
    rcases List.mem_cons.mp hq with rfl | hq
    · have h1 : ¬ q < a := by omega
      simp only [h1, hb, decide_true, decide_false, if_true, if_false]
      simp; omega
    · have := ih hq
      by_cases hxa : x < a
      · have hxb : x < b := by omega
        simp [hxa, hxb]; omega
      · by_cases hxb : x < b
        · simp [hxa, hxb]; omega
        · simp [hxa, hxb]; omega

theorem lines_of_starts (src : List Char) (toks : Array SpTok) (hf : ∀ t ∈ toks.toList, TokFact src t)
    (hpw : toks.toList.Pairwise (fun a b => a.stop ≤ b.start)) :
    ∀ (ss : List Stmt) (k L : Nat), StartsFrom toks k ss →
      (∀ i t, k ≤ i → toks[i]? = some t → L ≤ (ofText src).getLine t.start) →
      LinesFrom (ofText src) (ofText src).countLines L ss := by
  have hmem : ∀ i t, toks[i]? = some t → t ∈ toks.toList := fun i t h => Array.mem_toList_iff.mpr (Array.mem_of_getElem? h)
  have hord : ∀ (i j : Nat) (ti tj : SpTok), i < j → toks[i]? = some ti → toks[j]? = some tj → ti.stop ≤ tj.start := by
    intro i j ti tj hij hi hj
    obtain ⟨hi1, hi2⟩ := Array.getElem?_eq_some_iff.mp hi
    obtain ⟨hj1, hj2⟩ := Array.getElem?_eq_some_iff.mp hj
    have := List.pairwise_iff_getElem.mp hpw i j (by simpa using hi1) (by simpa using hj1) hij
    simp only [Array.getElem_toList] at this
    rw [hi2, hj2] at this; exact this
  intro ss
  induction ss with
  | nil => intro _ _ _ _; trivial
  | cons s rest ih =>
    intro k L hst hL
    obtain ⟨i, t, hki, hti, hsp, hnext⟩ := hst
    have ft := hf t (hmem i t hti)
    have htb : t.start ≤ blen src := by have := ft.lo; have := ft.hi; omega
    refine ⟨?_, ?_, ?_⟩
    · rw [hsp]; exact hL i t hki hti
    · rw [hsp, C25.get_line_spec src t.start htb]
      have : (nlFrom 0 src).countP (· < t.start) ≤ (nlFrom 0 src).length := List.countP_le_length
      simp only [countLines, ofText, List.length_append, List.length_singleton]
      omega
    · rcases hnext with rfl | ⟨j, tn, hij, htn, hnl, hrest⟩
      · trivial
      · apply ih (j + 1) _ hrest
        intro i' t' hji' hti'
        have fn := hf tn (hmem j tn htn)
        have ft' := hf t' (hmem i' t' hti')
        obtain ⟨hn1, hn2⟩ := fn.nl hnl
        have h1 : tn.stop ≤ t'.start := hord j i' tn t' (by omega) htn hti'
        have h0 : t.start ≤ tn.start := by
          rcases Nat.lt_or_ge i j with hlt | hge
          · have := hord i j t tn hlt hti htn
            have := ft.lo; omega
          · have : i = j := by omega
            subst this
            rw [hti] at htn; cases htn; exact Nat.le_refl _
        have ht'b : t'.start ≤ blen src := by have := ft'.lo; have := ft'.hi; omega
        rw [hsp, C25.get_line_spec src t.start htb, C25.get_line_spec src t'.start ht'b]
        exact countP_step _ t.start (tn.stop - 1) t'.start hn2 (by omega) (by omega)

/-- **what the parser guarantees to the assembler**, for any source text: string literals fit 16 bits with their terminator,
    every statement that gets a line entry is at least one word long (`.blkw 0` is rejected), and the statements start on
    strictly increasing lines inside the text -/
theorem parsed_program_lines (src : List Char) (stmts : List Stmt) (h : parseAst src = .ok stmts) :
    (∀ s ∈ stmts, ∀ x, s.nucleus = .directive (.stringz x) → blen x + 1 < 65536) ∧
    (∀ s ∈ stmts, noLine s.nucleus = false → 1 ≤ s.nucleus.wordLen.toNat) ∧
    LinesFrom (ofText src) (ofText src).countLines 0 stmts := by
  obtain ⟨toks, hf, hpw, hs, hst⟩ := parseAst_spec src stmts h
  refine ⟨?_, ?_, lines_of_starts src toks hf hpw stmts 0 0 hst (fun _ _ _ _ => Nat.zero_le _)⟩
  · intro s hsm x hx
    have := (hs s hsm).2.1
    rw [hx] at this
    obtain ⟨t, ht, hk⟩ := this
    have := (hf t ht).str x hk
    omega
  · intro s hsm hnl
    have hk := (hs s hsm).2.1
    cases hn : s.nucleus with
    | instr i => simp [StmtKind.wordLen]
    | directive d =>
      rw [hn] at hk hnl
      cases d with
      | orig a => cases hnl
      | end_ => cases hnl
      | external l => cases hnl
      | fill v => simp [StmtKind.wordLen, Directive.wordLen]
      | blkw n =>
        have hne : n ≠ 0 := hk
        simp only [StmtKind.wordLen, Directive.wordLen]
        have : n.toNat ≠ 0 := fun h0 => hne (BitVec.eq_of_toNat_eq (by simpa using h0))
        omega
      | stringz x =>
        obtain ⟨t, ht, htk⟩ := hk
        have := (hf t ht).str x htk
        simp only [StmtKind.wordLen, Directive.wordLen, BitVec.toNat_ofNat]
        omega

/-- … and, for a source below 2^64 / 12 bytes, label positions and upper-cased label names fit 64 bits -/
theorem parsed_program_facts (src : List Char) (stmts : List Stmt) (h : parseAst src = .ok stmts) (hsrc : 12 * blen src < 2 ^ 64) :
    (∀ s ∈ stmts, ∀ x, s.nucleus = .directive (.stringz x) → blen x + 1 < 65536) ∧
    (∀ s ∈ stmts, noLine s.nucleus = false → 1 ≤ s.nucleus.wordLen.toNat) ∧
    LabelsBounded stmts ∧ FillLabelsBounded stmts ∧
    LinesFrom (ofText src) (ofText src).countLines 0 stmts := by
  obtain ⟨toks, hf, hpw, hs, hst⟩ := parseAst_spec src stmts h
  obtain ⟨h1, h2, h3, h4⟩ := parsed_stmt_facts src toks stmts hf hs hsrc
  exact ⟨h1, h2, h3, h4, lines_of_starts src toks hf hpw stmts 0 0 hst (fun _ _ _ _ => Nat.zero_le _)⟩

end Lc3V
