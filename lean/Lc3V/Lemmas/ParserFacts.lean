/-
  Lemmas/ParserFacts.lean — facts about what the lexer and the parser can produce, used to discharge the side hypotheses of
  the whole-program assembler theorems (C01/C17/C24) for programs that come out of `parseAst`:

    * a string token is shorter than 65535 bytes,
    * a label token is as long (in characters) as the text it was lexed from,
    * a newline token ends on a '\n' character of the source,
    * token spans are ordered and inside the text.
-/
import Lc3V.Lemmas.PrintAtoms
import Lc3V.Lemmas.ParseSpan
import Lc3V.Lemmas.C22Core
namespace Lc3V

/-- a token that is neither a string, nor a label, nor a newline -/
def Plain (t : Token) : Prop := (∀ s, t ≠ .string s) ∧ (∀ s, t ≠ .ident (.label s)) ∧ t ≠ .newline

/-- what one lexer step guarantees about the token `t` it produced from `cs`, consuming `n` characters -/
structure OneFact (cs : List Char) (t : Token) (n : Nat) : Prop where
  str : ∀ s, t = .string s → blen s < 65535
  lab : ∀ s, t = .ident (.label s) → s = cs.take n ∧ n ≤ cs.length
  nl : t = .newline → (∃ r, cs = '\n' :: r ∧ n = 1) ∨ (∃ r, cs = '\r' :: '\n' :: r ∧ n = 2)

theorem OneFact.plain {cs : List Char} {t : Token} {n : Nat} (h : Plain t) : OneFact cs t n :=
  ⟨fun s hs => absurd hs (h.1 s), fun s hs => absurd hs (h.2.1 s), fun hs => absurd hs h.2.2⟩

theorem OneFact.ident {cs : List Char} (x : List Char) (n : Nat) (hn : x = cs.take n) (hle : n ≤ cs.length) :
    OneFact cs (.ident (Ident.ofText x)) n := by
  refine ⟨fun s hs => (by cases hs), fun s hs => ?_, fun hs => (by cases hs)⟩
  injection hs with hs
  obtain ⟨h1, _⟩ := ofText_label _ _ hs
  subst h1
  exact ⟨hn, hle⟩

theorem lexUnsignedDec_plain (x : List Char) (t : Token) (h : lexUnsignedDec x = .ok t) : Plain t := by
  unfold lexUnsignedDec at h; dsimp only at h
  split at h
  · cases h; exact ⟨fun s hs => (by cases hs), fun s hs => (by cases hs), fun hs => (by cases hs)⟩
  · cases h
theorem lexSignedDec_plain (x : List Char) (t : Token) (h : lexSignedDec x = .ok t) : Plain t := by
  unfold lexSignedDec at h; dsimp only at h
  split at h
  · cases h; exact ⟨fun s hs => (by cases hs), fun s hs => (by cases hs), fun hs => (by cases hs)⟩
  · cases h
theorem lexUnsignedHex_plain (x : List Char) (t : Token) (h : lexUnsignedHex x = .ok t) : Plain t := by
  unfold lexUnsignedHex at h; dsimp only at h
  split at h
  · cases h; exact ⟨fun s hs => (by cases hs), fun s hs => (by cases hs), fun hs => (by cases hs)⟩
  · cases h
theorem lexSignedHex_plain (x : List Char) (t : Token) (h : lexSignedHex x = .ok t) : Plain t := by
  unfold lexSignedHex at h; dsimp only at h
  split at h
  · cases h; exact ⟨fun s hs => (by cases hs), fun s hs => (by cases hs), fun hs => (by cases hs)⟩
  · cases h
theorem lexReg_plain (x : List Char) (t : Token) (h : lexReg x = .ok t) : Plain t := by
  unfold lexReg at h
  split at h
  · split at h
    · cases h; exact ⟨fun s hs => (by cases hs), fun s hs => (by cases hs), fun hs => (by cases hs)⟩
    · cases h
  · cases h

theorem takeWhile_len {α : Type} (p : α → Bool) : ∀ l : List α, (l.takeWhile p).length ≤ l.length
  | [] => Nat.le_refl _
  | x :: xs => by
    rw [List.takeWhile_cons]
    split
    · simp only [List.length_cons]; have := takeWhile_len p xs; omega
    · simp

theorem take_takeWhile {α : Type} (p : α → Bool) : ∀ l : List α, l.take (l.takeWhile p).length = l.takeWhile p
  | [] => rfl
  | x :: xs => by
    rw [List.takeWhile_cons]
    split
    · simp only [List.length_cons, List.take_succ_cons]; rw [take_takeWhile p xs]
    · simp

theorem spanW_take (c : Char) (rest : List Char) : c :: (spanW rest).1 = (c :: rest).take (1 + (spanW rest).1.length) := by
  unfold spanW
  rw [Nat.add_comm, List.take_succ_cons, take_takeWhile]

theorem spanW_len (rest : List Char) : (spanW rest).1.length ≤ rest.length := by
  unfold spanW; exact takeWhile_len _ _

theorem plain_of_simple (t : Token) (h : t = .colon ∨ t = .comma ∨ t = .comment ∨ ∃ w, t = .directive w) : Plain t := by
  rcases h with rfl | rfl | rfl | ⟨w, rfl⟩ <;>
    exact ⟨fun s hs => (by cases hs), fun s hs => (by cases hs), fun hs => (by cases hs)⟩

/-- the facts about one lexer step -/
theorem lexOne_facts (cs : List Char) (t : Token) (n : Nat) (h : lexOne cs = ⟨.ok t, n⟩) : OneFact cs t n := by
  cases cs with
  | nil => simp [lexOne] at h
  | cons c rest =>
    unfold lexOne at h
    dsimp only at h
    by_cases h1 : c = ':'; · rw [if_pos h1] at h; cases h; exact .plain (plain_of_simple _ (by simp))
    rw [if_neg h1] at h
    by_cases h2 : c = ','; · rw [if_pos h2] at h; cases h; exact .plain (plain_of_simple _ (by simp))
    rw [if_neg h2] at h
    by_cases h3 : c = '\n'
    · rw [if_pos h3] at h; cases h; subst h3
      exact ⟨fun s hs => (by cases hs), fun s hs => (by cases hs), fun _ => Or.inl ⟨rest, rfl, rfl⟩⟩
    rw [if_neg h3] at h
    by_cases h4 : c = '\r'
    · rw [if_pos h4] at h; subst h4
      split at h
      · cases h
        exact ⟨fun s hs => (by cases hs), fun s hs => (by cases hs), fun _ => Or.inr ⟨_, rfl, rfl⟩⟩
      · cases h
    rw [if_neg h4] at h
    by_cases h5 : c = ';'; · rw [if_pos h5] at h; cases h; exact .plain (plain_of_simple _ (by simp))
    rw [if_neg h5] at h
    by_cases h6 : c = '.'; · rw [if_pos h6] at h; cases h; exact .plain (plain_of_simple _ (by simp))
    rw [if_neg h6] at h
    by_cases h7 : c = '"'
    · rw [if_pos h7] at h; split at h
      · cases h
      · injection h with hres _
        split at hres
        · rename_i hb
          cases hres
          exact ⟨fun s hs => (by cases hs; exact hb), fun s hs => (by cases hs), fun hs => (by cases hs)⟩
        · cases hres
    rw [if_neg h7] at h
    by_cases h8 : c = '#'
    · rw [if_pos h8] at h
      split at h <;> (injection h with hres _; first | exact .plain (lexUnsignedDec_plain _ _ hres) | exact .plain (lexSignedDec_plain _ _ hres))
    rw [if_neg h8] at h
    by_cases h9 : c = '-'
    · rw [if_pos h9] at h
      split at h <;> (injection h with hres _; exact .plain (lexSignedDec_plain _ _ hres))
    rw [if_neg h9] at h
    by_cases h10 : isDigitC c = true
    · rw [if_pos h10] at h
      injection h with hres _
      exact .plain (lexUnsignedDec_plain _ _ hres)
    rw [if_neg h10] at h
    have hlen := spanW_len rest
    by_cases h11 : c = 'x' ∨ c = 'X'
    · rw [if_pos h11] at h
      split at h
      · injection h with hres _
        exact .plain (lexSignedHex_plain _ _ hres)
      · rename_i d r _
        try dsimp only at h
        have hlen' := spanW_len (d :: r)
        split at h
        · injection h with hres _
          exact .plain (lexUnsignedHex_plain _ _ hres)
        · injection h with hres hn
          injection hres with hres
          subst hres
          exact .ident _ _ (by rw [← hn]; exact spanW_take c (d :: r))
            (by rw [← hn]; simp only [List.length_cons] at hlen' ⊢; omega)
      · injection h with hres hn
        injection hres with hres
        subst hres
        exact .ident _ _ (by rw [← hn]; rfl) (by rw [← hn]; simp)
    rw [if_neg h11] at h
    by_cases h12 : c = 'R' ∨ c = 'r'
    · rw [if_pos h12] at h
      try dsimp only at h
      split at h
      · injection h with hres _
        exact .plain (lexReg_plain _ _ hres)
      · injection h with hres hn
        injection hres with hres
        subst hres
        exact .ident _ _ (by rw [← hn]; exact spanW_take c rest)
          (by rw [← hn]; simp only [List.length_cons]; omega)
    rw [if_neg h12] at h
    by_cases h13 : isAsciiAlpha c = true ∨ c = '_'
    · rw [if_pos h13] at h
      injection h with hres hn
      injection hres with hres
      subst hres
      exact .ident _ _ (by rw [← hn]; exact spanW_take c rest)
        (by rw [← hn]; simp only [List.length_cons]; omega)
    rw [if_neg h13] at h
    cases h

/-! ### the whole lexer -/

/-- what the lexer guarantees about every token it emits for the text `src` -/
structure TokFact (src : List Char) (t : SpTok) : Prop where
  lo : t.start ≤ t.stop
  hi : t.stop ≤ blen src
  str : ∀ s, t.tok = .string s → blen s < 65535
  lab : ∀ s, t.tok = .ident (.label s) → s.length ≤ t.stop - t.start ∧
    ∃ pre post, src = pre ++ s ++ post ∧ blen pre = t.start ∧ t.stop = t.start + blen s
  nl : t.tok = .newline → t.start < t.stop ∧ (t.stop - 1) ∈ nlFrom 0 src

theorem length_le_blen : ∀ l : List Char, l.length ≤ blen l
  | [] => Nat.le_refl _
  | c :: cs => by
    have := length_le_blen cs
    have := c.utf8Size_pos
    simp only [List.length_cons, blen]; omega

theorem lexed_eta (l : Lexed) : l = ⟨l.res, l.len⟩ := rfl

theorem lexAll_facts (src : List Char) : ∀ (fuel : Nat) (cs : List Char) (off : Nat) (acc : List SpTok) (pre : List Char) (ts : List SpTok),
    src = pre ++ cs → off = blen pre → (∀ t ∈ acc, TokFact src t ∧ t.stop ≤ off) → acc.Pairwise (fun a b => b.stop ≤ a.start) →
    lexAll fuel cs off acc = .ok ts →
    (∀ t ∈ ts, TokFact src t) ∧ ts.Pairwise (fun a b => a.stop ≤ b.start) := by
  intro fuel
  induction fuel with
  | zero =>
    intro cs off acc pre ts _ _ hacc hp h
    simp only [lexAll] at h; cases h
    exact ⟨fun t ht => (hacc t (List.mem_reverse.mp ht)).1, List.pairwise_reverse.mpr hp⟩
  | succ fuel ih =>
    intro cs off acc pre ts hsrc hoff hacc hp h
    cases cs with
    | nil =>
      simp only [lexAll] at h; cases h
      exact ⟨fun t ht => (hacc t (List.mem_reverse.mp ht)).1, List.pairwise_reverse.mpr hp⟩
    | cons c cs =>
      unfold lexAll at h
      by_cases hws : c = ' ' ∨ c = '\t'
      · rw [if_pos hws] at h
        have h1 : c.utf8Size = 1 := by rcases hws with rfl | rfl <;> decide
        refine ih cs (off + 1) acc (pre ++ [c]) ts (by rw [hsrc]; simp) ?_ ?_ hp h
        · rw [blen_append, hoff]; simp [blen, h1]
        · intro t ht; have := hacc t ht; exact ⟨this.1, by omega⟩
      · rw [if_neg hws] at h
        dsimp only at h
        have htd := blen_take_drop (c :: cs) (lexOne (c :: cs)).len
        have hsplit : src = (pre ++ (c :: cs).take (lexOne (c :: cs)).len) ++ (c :: cs).drop (lexOne (c :: cs)).len := by
          rw [hsrc, List.append_assoc, List.take_append_drop]
        have hbs : blen src = off + blen (c :: cs) := by rw [hsrc, blen_append, hoff]
        cases hres : (lexOne (c :: cs)).res with
        | error e => rw [hres] at h; cases h
        | ok t =>
          rw [hres] at h
          dsimp only at h
          have hone : lexOne (c :: cs) = ⟨.ok t, (lexOne (c :: cs)).len⟩ := by rw [← hres]
          have hf := lexOne_facts (c :: cs) t _ hone
          refine ih _ _ _ (pre ++ (c :: cs).take (lexOne (c :: cs)).len) ts hsplit (by rw [blen_append, hoff]) ?_ ?_ h
          · intro t' ht'
            rcases List.mem_cons.mp ht' with rfl | ht'
            · refine ⟨⟨by dsimp only; omega, by dsimp only; omega, fun s hs => hf.str s hs, fun s hs => ?_, fun hs => ?_⟩, Nat.le_refl _⟩
              · obtain ⟨hl1, hl2⟩ := hf.lab s hs
                have := length_le_blen ((c :: cs).take (lexOne (c :: cs)).len)
                rw [← hl1] at this
                refine ⟨by dsimp only; rw [← hl1]; omega, pre, (c :: cs).drop (lexOne (c :: cs)).len, ?_, hoff.symm, by dsimp only; rw [← hl1]⟩
                rw [hl1, List.append_assoc, List.take_append_drop]; exact hsrc
              · rcases hf.nl hs with ⟨r, hr, hn⟩ | ⟨r, hr, hn⟩
                · rw [hn, hr]
                  have h1 : blen (List.take 1 ('\n' :: r)) = 1 := by simp [blen]; decide
                  dsimp only
                  rw [h1]
                  refine ⟨by omega, ?_⟩
                  rw [hsrc, hr, C22.nlFrom_append]
                  apply List.mem_append_right
                  simp [nlFrom, hoff]
                · rw [hn, hr]
                  have h1 : blen (List.take 2 ('\r' :: '\n' :: r)) = 2 := by simp [blen]; decide
                  dsimp only
                  rw [h1]
                  refine ⟨by omega, ?_⟩
                  rw [hsrc, hr, C22.nlFrom_append]
                  apply List.mem_append_right
                  have h2 : ('\r' : Char).utf8Size = 1 := by decide
                  simp [nlFrom, hoff, h2]
            · have := hacc t' ht'; exact ⟨this.1, by omega⟩
          · refine List.Pairwise.cons ?_ hp
            intro b hb; exact (hacc b hb).2

/-- **lexer facts**: every token of `lex src` satisfies `TokFact`, and the token spans are ordered -/
theorem lex_facts (src : List Char) (ts : List SpTok) (h : lex src = .ok ts) :
    (∀ t ∈ ts, TokFact src t) ∧ ts.Pairwise (fun a b => a.stop ≤ b.start) := by
  unfold lex at h
  exact lexAll_facts src _ src 0 [] [] ts rfl rfl (by intro t ht; cases ht) List.Pairwise.nil h

end Lc3V
