/-
  Lemmas/ParserFacts.lean — facts about what the lexer and the parser can produce, used to discharge the side hypotheses of
  the whole-program assembler theorems (C01/C17/C24) for programs that come out of `parseAst`:

    * a string token is shorter than 65535 bytes,
    * a label token is as long (in characters) as the text it was lexed from,
    * a newline token ends on a '\n' character of the source,
    * token spans are ordered and inside the text.
-/
import Lc3V.Lemmas.PrintAtoms
import Lc3V.Lemmas.ParseSpan
import Lc3V.Props.C22
namespace Lc3V

/-- a token that is neither a string, nor a label, nor a newline -/
def Plain (t : Token) : Prop := (∀ s, t ≠ .string s) ∧ (∀ s, t ≠ .ident (.label s)) ∧ t ≠ .newline

/-- what one lexer step guarantees about the token `t` it produced from `cs`, consuming `n` characters -/
structure OneFact (cs : List Char) (t : Token) (n : Nat) : Prop where
  str : ∀ s, t = .string s → blen s < 65535
  lab : ∀ s, t = .ident (.label s) → s.length = n ∧ n ≤ cs.length
  nl : t = .newline → (∃ r, cs = '\n' :: r ∧ n = 1) ∨ (∃ r, cs = '\r' :: '\n' :: r ∧ n = 2)

theorem OneFact.plain {cs : List Char} {t : Token} {n : Nat} (h : Plain t) : OneFact cs t n :=
  ⟨fun s hs => absurd hs (h.1 s), fun s hs => absurd hs (h.2.1 s), fun hs => absurd hs h.2.2⟩

theorem OneFact.ident {cs : List Char} (x : List Char) (n : Nat) (hn : x.length = n) (hle : n ≤ cs.length) :
    OneFact cs (.ident (Ident.ofText x)) n := by
  refine ⟨fun s hs => (by cases hs), fun s hs => ?_, fun hs => (by cases hs)⟩
  injection hs with hs
  obtain ⟨h1, _⟩ := ofText_label _ _ hs
  subst h1
  exact ⟨hn, hle⟩

theorem lexUnsignedDec_plain (x : List Char) (t : Token) (h : lexUnsignedDec x = .ok t) : Plain t := by
  unfold lexUnsignedDec at h; dsimp only at h
  split at h
  · cases h; exact ⟨fun s hs => (by cases hs), fun s hs => (by cases hs), fun hs => (by cases hs)⟩
  · cases h
theorem lexSignedDec_plain (x : List Char) (t : Token) (h : lexSignedDec x = .ok t) : Plain t := by
  unfold lexSignedDec at h; dsimp only at h
  split at h
  · cases h; exact ⟨fun s hs => (by cases hs), fun s hs => (by cases hs), fun hs => (by cases hs)⟩
  · cases h
theorem lexUnsignedHex_plain (x : List Char) (t : Token) (h : lexUnsignedHex x = .ok t) : Plain t := by
  unfold lexUnsignedHex at h; dsimp only at h
  split at h
  · cases h; exact ⟨fun s hs => (by cases hs), fun s hs => (by cases hs), fun hs => (by cases hs)⟩
  · cases h
theorem lexSignedHex_plain (x : List Char) (t : Token) (h : lexSignedHex x = .ok t) : Plain t := by
  unfold lexSignedHex at h; dsimp only at h
  split at h
  · cases h; exact ⟨fun s hs => (by cases hs), fun s hs => (by cases hs), fun hs => (by cases hs)⟩
  · cases h
theorem lexReg_plain (x : List Char) (t : Token) (h : lexReg x = .ok t) : Plain t := by
  unfold lexReg at h
  split at h
  · split at h
    · cases h; exact ⟨fun s hs => (by cases hs), fun s hs => (by cases hs), fun hs => (by cases hs)⟩
    · cases h
  · cases h

theorem spanW_len (rest : List Char) : (spanW rest).1.length ≤ rest.length := by
  unfold spanW; exact List.length_takeWhile_le _ _

theorem plain_of_simple (t : Token) (h : t = .colon ∨ t = .comma ∨ t = .comment ∨ ∃ w, t = .directive w) : Plain t := by
  rcases h with rfl | rfl | rfl | ⟨w, rfl⟩ <;>
    exact ⟨fun s hs => (by cases hs), fun s hs => (by cases hs), fun hs => (by cases hs)⟩

/-- the facts about one lexer step -/
theorem lexOne_facts (cs : List Char) (t : Token) (n : Nat) (h : lexOne cs = ⟨.ok t, n⟩) : OneFact cs t n := by
  cases cs with
  | nil => simp [lexOne] at h
  | cons c rest =>
    unfold lexOne at h
    dsimp only at h
    by_cases h1 : c = ':'; · rw [if_pos h1] at h; cases h; exact .plain (plain_of_simple _ (by simp))
    rw [if_neg h1] at h
    by_cases h2 : c = ','; · rw [if_pos h2] at h; cases h; exact .plain (plain_of_simple _ (by simp))
    rw [if_neg h2] at h
    by_cases h3 : c = '\n'
    · rw [if_pos h3] at h; cases h; subst h3
      exact ⟨fun s hs => (by cases hs), fun s hs => (by cases hs), fun _ => Or.inl ⟨rest, rfl, rfl⟩⟩
    rw [if_neg h3] at h
    by_cases h4 : c = '\r'
    · rw [if_pos h4] at h; subst h4
      split at h
      · cases h
        exact ⟨fun s hs => (by cases hs), fun s hs => (by cases hs), fun _ => Or.inr ⟨_, rfl, rfl⟩⟩
      · cases h
    rw [if_neg h4] at h
    by_cases h5 : c = ';'; · rw [if_pos h5] at h; cases h; exact .plain (plain_of_simple _ (by simp))
    rw [if_neg h5] at h
    by_cases h6 : c = '.'; · rw [if_pos h6] at h; cases h; exact .plain (plain_of_simple _ (by simp))
    rw [if_neg h6] at h
    by_cases h7 : c = '"'
    · rw [if_pos h7] at h; split at h
      · cases h
      · injection h with hres _
        split at hres
        · rename_i hb
          cases hres
          exact ⟨fun s hs => (by cases hs; exact hb), fun s hs => (by cases hs), fun hs => (by cases hs)⟩
        · cases hres
    rw [if_neg h7] at h
    by_cases h8 : c = '#'
    · rw [if_pos h8] at h
      split at h <;> (injection h with hres _; first | exact .plain (lexUnsignedDec_plain _ _ hres) | exact .plain (lexSignedDec_plain _ _ hres))
    rw [if_neg h8] at h
    by_cases h9 : c = '-'
    · rw [if_pos h9] at h
      split at h <;> (injection h with hres _; exact .plain (lexSignedDec_plain _ _ hres))
    rw [if_neg h9] at h
    by_cases h10 : isDigitC c = true
    · rw [if_pos h10] at h
      injection h with hres _
      exact .plain (lexUnsignedDec_plain _ _ hres)
    rw [if_neg h10] at h
    have hlen := spanW_len rest
    by_cases h11 : c = 'x' ∨ c = 'X'
    · rw [if_pos h11] at h
      split at h
      · injection h with hres _
        exact .plain (lexSignedHex_plain _ _ hres)
      · try dsimp only at h
        split at h
        · injection h with hres _
          exact .plain (lexUnsignedHex_plain _ _ hres)
        · injection h with hres hn
          injection hres with hres
          subst hres
          exact .ident _ _ (by rw [← hn]; simp only [List.length_cons]; omega)
            (by rw [← hn]; have := spanW_len (_ :: _); simp only [List.length_cons] at this ⊢; omega)
      · injection h with hres hn
        injection hres with hres
        subst hres
        exact .ident _ _ (by rw [← hn]; rfl) (by rw [← hn]; simp)
    rw [if_neg h11] at h
    by_cases h12 : c = 'R' ∨ c = 'r'
    · rw [if_pos h12] at h
      try dsimp only at h
      split at h
      · injection h with hres _
        exact .plain (lexReg_plain _ _ hres)
      · injection h with hres hn
        injection hres with hres
        subst hres
        exact .ident _ _ (by rw [← hn]; simp only [List.length_cons]; omega)
          (by rw [← hn]; simp only [List.length_cons]; omega)
    rw [if_neg h12] at h
    by_cases h13 : isAsciiAlpha c = true ∨ c = '_'
    · rw [if_pos h13] at h
      injection h with hres hn
      injection hres with hres
      subst hres
      exact .ident _ _ (by rw [← hn]; simp only [List.length_cons]; omega)
        (by rw [← hn]; simp only [List.length_cons]; omega)
    rw [if_neg h13] at h
    cases h

end Lc3V
