/-
  Lemmas/ParserIdx.lean — a generic preservation calculus for the parser: any predicate on parser states that survives
  `advance` survives every sub-parser (`AOk`).  Instantiated with "same tokens, index between `i` and the token count"
  it gives the monotonicity of the token index through `parseInstr`, `parseDirective`, `parseLabels`, `skipNewlines`.
-/
import Lc3V.Lemmas.ParseSpan
namespace Lc3V
open Parser

/-- result of a sub-parser: nothing about errors, `P` for the parser state after a success -/
def AOk {α : Type} (P : Parser → Prop) (r : PRes (α × Parser)) : Prop :=
  match r with
  | .error _ => True
  | .ok (_, p') => P p'
def AOkP (P : Parser → Prop) (r : PRes Parser) : Prop :=
  match r with
  | .error _ => True
  | .ok p' => P p'

theorem AOk_bind {α β : Type} (P : Parser → Prop) (m : PRes (α × Parser)) (f : α × Parser → PRes (β × Parser))
    (hm : AOk P m) (hf : ∀ a p', P p' → AOk P (f (a, p'))) : AOk P (m >>= f) := by
  cases m with
  | error e => trivial
  | ok x => obtain ⟨a, p'⟩ := x; exact hf a p' hm

theorem AOkP_bind {β : Type} (P : Parser → Prop) (m : PRes Parser) (f : Parser → PRes (β × Parser))
    (hm : AOkP P m) (hf : ∀ p', P p' → AOk P (f p')) : AOk P (m >>= f) := by
  cases m with
  | error e => trivial
  | ok p' => exact hf p' hm

theorem AOk_pure {α : Type} (P : Parser → Prop) (a : α) (p : Parser) (h : P p) : AOk P (pure (a, p) : PRes (α × Parser)) := h

section
variable (P : Parser → Prop) (hadv : ∀ q, P q → P q.advance)
include hadv

theorem parseReg_aok (p : Parser) (h : P p) : AOk P (parseReg p) := by
  unfold parseReg
  split
  · split
    · exact hadv _ h
    · trivial
  · trivial

theorem parseComma_aok (p : Parser) (h : P p) : AOkP P (parseComma p) := by
  unfold parseComma
  split
  · exact hadv _ h
  · trivial

theorem parseSOff_aok (n : Nat) (p : Parser) (h : P p) : AOk P (parseSOff n p) := by
  unfold parseSOff
  split
  · split
    · exact hadv _ h
    · trivial
    · trivial
  · trivial

theorem parseUOff_aok (n : Nat) (p : Parser) (h : P p) : AOk P (parseUOff n p) := by
  unfold parseUOff
  split
  · split
    · exact hadv _ h
    · trivial
    · trivial
  · trivial

theorem parseImmOrReg_aok (n : Nat) (p : Parser) (h : P p) : AOk P (parseImmOrReg n p) := by
  unfold parseImmOrReg
  split
  · split
    · exact hadv _ h
    · trivial
    · split
      · split
        · exact hadv _ h
        · trivial
      · trivial
  · trivial

theorem parsePCOff_aok (n : Nat) (p : Parser) (h : P p) : AOk P (parsePCOff n p) := by
  unfold parsePCOff
  split
  · split
    · exact hadv _ h
    · trivial
    · split
      · exact hadv _ h
      · trivial
  · trivial

end

/-- one step of the bind-chain automation -/
macro "aok_step" : tactic => `(tactic| first
  | exact AOk_pure _ _ _ (by assumption)
  | exact parseReg_aok _ (by assumption) _ (by assumption)
  | exact parseSOff_aok _ (by assumption) _ _ (by assumption)
  | exact parseUOff_aok _ (by assumption) _ _ (by assumption)
  | exact parseImmOrReg_aok _ (by assumption) _ _ (by assumption)
  | exact parsePCOff_aok _ (by assumption) _ _ (by assumption)
  | exact parseComma_aok _ (by assumption) _ (by assumption)
  | (apply AOk_bind)
  | (apply AOkP_bind)
  | (intro a p' hp'; try dsimp only)
  | (intro p' hp'; try dsimp only)
  | trivial)

section
variable (P : Parser → Prop) (hadv : ∀ q, P q → P q.advance)
include hadv

/-- `parseInstr` only succeeds after consuming the keyword token: it is enough that `P` holds after that `advance` -/
theorem parseInstr_aok' (p : Parser) (ha : P p.advance) : AOk P (parseInstr p) := by
  unfold parseInstr
  split
  · rename_i k _ _ _
    dsimp only
    split
    · repeat aok_step
    · cases k <;> dsimp only <;> try (repeat aok_step)
      -- NOP
      split <;> repeat aok_step
  · trivial

theorem parseInstr_aok (p : Parser) (h : P p) : AOk P (parseInstr p) := parseInstr_aok' P hadv p (hadv _ h)

theorem parseDirective_aok' (p : Parser) (ha : P p.advance) : AOk P (parseDirective p) := by
  have ha2 : P p.advance.advance := hadv _ ha
  unfold parseDirective
  dsimp only
  split
  · split
    · repeat aok_step
    · split
      · split
        · exact ha2
        · split
          · exact ha2
          · exact ha2
          · trivial
      · split
        · apply AOk_bind
          · repeat aok_step
          · intro a p' hp'; dsimp only; split
            · exact hp'
            · trivial
        · split
          · split
            · exact ha2
            · trivial
          · split
            · exact ha
            · split
              · split
                · exact ha2
                · trivial
              · trivial
  · trivial

theorem parseDirective_aok (p : Parser) (h : P p) : AOk P (parseDirective p) := parseDirective_aok' P hadv p (hadv _ h)

/-- the nucleus parser consumes at least one token -/
theorem parseNucleus_aok' (p : Parser) (last : Option (Nat × Nat)) (ha : P p.advance) : AOk P (parseNucleus p last) := by
  unfold parseNucleus
  split
  · apply AOk_bind
    · exact parseDirective_aok' P hadv p ha
    · intro a p' hp'; exact hp'
  · apply AOk_bind
    · exact parseInstr_aok' P hadv p ha
    · intro a p' hp'; exact hp'
  · trivial

theorem parseNucleus_aok (p : Parser) (last : Option (Nat × Nat)) (h : P p) : AOk P (parseNucleus p last) :=
  parseNucleus_aok' P hadv p last (hadv _ h)

theorem skipColon_p (p : Parser) (h : P p) : P (skipColon p) := by
  unfold skipColon; split
  · exact hadv _ h
  · exact h

theorem parseLabels_p : ∀ (fuel : Nat) (p : Parser) (acc : List Label) (last : Option (Nat × Nat)),
    P p → P (parseLabels fuel p acc last).2.2 := by
  intro fuel
  induction fuel with
  | zero => intro p acc last h; exact h
  | succ fuel ih =>
    intro p acc last h
    unfold parseLabels
    split
    · exact h
    · dsimp only
      split
      · exact ih _ _ _ (skipColon_p P hadv _ (hadv _ h))
      · split
        · exact ih _ _ _ (hadv _ h)
        · exact ih _ _ _ (hadv _ h)
        · exact h

theorem skipNewlines_p : ∀ (fuel : Nat) (p : Parser), P p → P (skipNewlines fuel p) := by
  intro fuel
  induction fuel with
  | zero => intro p h; exact h
  | succ fuel ih =>
    intro p h
    unfold skipNewlines
    split
    · exact h
    · split
      · exact ih _ (hadv _ h)
      · exact h

end

/-- the instance used below: same token vector, index at least `i` and at most the token count -/
def IdxGe (toks : Array SpTok) (i : Nat) (q : Parser) : Prop := q.toks = toks ∧ i ≤ q.idx ∧ q.idx ≤ toks.size

theorem IdxGe.adv (toks : Array SpTok) (i : Nat) : ∀ q, IdxGe toks i q → IdxGe toks i q.advance := by
  intro q ⟨h1, h2, h3⟩
  refine ⟨h1, ?_, ?_⟩
  · show i ≤ min (q.idx + 1) q.toks.size; rw [h1]; omega
  · show min (q.idx + 1) q.toks.size ≤ toks.size; rw [h1]; omega

end Lc3V
