/-
  Lemmas/ParserOut.lean — what every statement list produced by `parseAst` looks like, in terms of the token vector:

    * every label of a statement (its own labels, the operand of `.external`, the operand of `.fill LABEL`) is a label
      token of the vector, with the token's start as its position;
    * the string of a `.stringz` is a string token; the size of a `.blkw` is not zero;
    * the nucleus of each statement starts at a token, and between the nucleus tokens of two consecutive statements
      there is a newline token (`StartsFrom`).
-/
import Lc3V.Lemmas.ParserIdx
import Lc3V.Lemmas.ParserFacts
namespace Lc3V
open Parser

/-- the label is a label token of the vector -/
def LabTok (toks : Array SpTok) (l : Label) : Prop := ∃ t ∈ toks.toList, t.tok = .ident (.label l.name) ∧ t.start = l.start

def DirFact (toks : Array SpTok) : Directive → Prop
  | .stringz x => ∃ t ∈ toks.toList, t.tok = .string x
  | .blkw n => n ≠ 0
  | .external l => LabTok toks l
  | .fill (.label l) => LabTok toks l
  | .fill (.off _) => True
  | .orig _ => True
  | .end_ => True

/-- label operands -/
def PCOff.labels {n : Nat} : PCOff n → List Label
  | .label l => [l]
  | .off _ => []

def AsmInstr.labelOps : AsmInstr → List Label
  | .br _ o => o.labels
  | .jsr o => o.labels
  | .ld _ o => o.labels
  | .ldi _ o => o.labels
  | .lea _ o => o.labels
  | .st _ o => o.labels
  | .sti _ o => o.labels
  | .nop o => o.labels
  | _ => []

def KindFact (toks : Array SpTok) : StmtKind → Prop
  | .directive d => DirFact toks d
  | .instr i => ∀ l ∈ i.labelOps, LabTok toks l

/-- the span of a statement runs from the start of one token to the end of the same or a later token -/
def SpanFact (toks : Array SpTok) (sp : Nat × Nat) : Prop :=
  ∃ (i j : Nat) (t te : SpTok), i ≤ j ∧ toks[i]? = some t ∧ toks[j]? = some te ∧ sp = (t.start, te.stop)

def StmtFact (toks : Array SpTok) (s : Stmt) : Prop :=
  (∀ l ∈ s.labels, LabTok toks l) ∧ KindFact toks s.nucleus ∧ SpanFact toks s.span

theorem peek_mem (p : Parser) (t : SpTok) (h : p.peek = some t) : t ∈ p.toks.toList := by
  unfold peek at h
  exact Array.mem_toList_iff.mpr (Array.mem_of_getElem? h)

theorem labelOf_tok (p : Parser) (l : Label) (h : labelOf p = some l) : LabTok p.toks l := by
  unfold labelOf at h
  split at h
  · rename_i s a b hpk
    cases h
    exact ⟨_, peek_mem p _ hpk, rfl, rfl⟩
  · cases h

theorem tokOf_mem (p : Parser) (k : Token) (h : tokOf p = some k) : ∃ t ∈ p.toks.toList, t.tok = k := by
  unfold tokOf at h
  cases hp : p.peek with
  | none => rw [hp] at h; cases h
  | some t =>
    rw [hp] at h
    simp only [Option.map_some, Option.some.injEq] at h
    exact ⟨t, peek_mem p t hp, h⟩

/-! ### a result-aware calculus: the label operands of whatever a sub-parser returns are label tokens -/

class HasLabs (α : Type) where
  labs : α → List Label
instance (n : Nat) : HasLabs (PCOff n) := ⟨PCOff.labels⟩
instance (n : Nat) : HasLabs (BitVec n) := ⟨fun _ => []⟩
instance (n : Nat) : HasLabs (ImmOrReg n) := ⟨fun _ => []⟩
instance : HasLabs AsmInstr := ⟨AsmInstr.labelOps⟩

def LOk {α : Type} [HasLabs α] (toks : Array SpTok) (r : PRes (α × Parser)) : Prop :=
  match r with
  | .error _ => True
  | .ok (a, p') => p'.toks = toks ∧ ∀ l ∈ HasLabs.labs a, LabTok toks l
def LOkP (toks : Array SpTok) (r : PRes Parser) : Prop :=
  match r with
  | .error _ => True
  | .ok p' => p'.toks = toks

theorem LOk_bind {α β : Type} [HasLabs α] [HasLabs β] (toks : Array SpTok) (m : PRes (α × Parser)) (f : α × Parser → PRes (β × Parser))
    (hm : LOk toks m) (hf : ∀ a p', p'.toks = toks → (∀ l ∈ HasLabs.labs a, LabTok toks l) → LOk toks (f (a, p'))) :
    LOk toks (m >>= f) := by
  cases m with
  | error e => trivial
  | ok x => obtain ⟨a, p'⟩ := x; exact hf a p' hm.1 hm.2

theorem LOkP_bind {β : Type} [HasLabs β] (toks : Array SpTok) (m : PRes Parser) (f : Parser → PRes (β × Parser))
    (hm : LOkP toks m) (hf : ∀ p', p'.toks = toks → LOk toks (f p')) : LOk toks (m >>= f) := by
  cases m with
  | error e => trivial
  | ok p' => exact hf p' hm

section
variable (toks : Array SpTok)

theorem parseReg_lok (p : Parser) (h : p.toks = toks) : LOk toks (parseReg p) := by
  unfold parseReg
  split
  · split
    · exact ⟨h, fun l hl => by cases hl⟩
    · trivial
  · trivial

theorem parseComma_lok (p : Parser) (h : p.toks = toks) : LOkP toks (parseComma p) := by
  unfold parseComma
  split
  · exact h
  · trivial

theorem parseSOff_lok (n : Nat) (p : Parser) (h : p.toks = toks) : LOk toks (parseSOff n p) := by
  unfold parseSOff
  split
  · split
    · exact ⟨h, fun l hl => by cases hl⟩
    · trivial
    · trivial
  · trivial

theorem parseUOff_lok (n : Nat) (p : Parser) (h : p.toks = toks) : LOk toks (parseUOff n p) := by
  unfold parseUOff
  split
  · split
    · exact ⟨h, fun l hl => by cases hl⟩
    · trivial
    · trivial
  · trivial

theorem parseImmOrReg_lok (n : Nat) (p : Parser) (h : p.toks = toks) : LOk toks (parseImmOrReg n p) := by
  unfold parseImmOrReg
  split
  · split
    · exact ⟨h, fun l hl => by cases hl⟩
    · trivial
    · split
      · split
        · exact ⟨h, fun l hl => by cases hl⟩
        · trivial
      · trivial
  · trivial

theorem parsePCOff_lok (n : Nat) (p : Parser) (h : p.toks = toks) : LOk toks (parsePCOff n p) := by
  unfold parsePCOff
  split
  · split
    · exact ⟨h, fun l hl => by cases hl⟩
    · trivial
    · split
      · rename_i l0 hl0
        refine ⟨h, fun l hl => ?_⟩
        have : l = l0 := by simpa [HasLabs.labs, PCOff.labels] using hl
        subst this
        exact h ▸ labelOf_tok p l hl0
      · trivial
  · trivial

end

macro "lok_step" : tactic => `(tactic| first
  | exact ⟨by assumption, by assumption⟩
  | exact ⟨by assumption, by intro l hl; cases hl⟩
  | exact parseReg_lok _ _ (by assumption)
  | exact parseSOff_lok _ _ _ (by assumption)
  | exact parseUOff_lok _ _ _ (by assumption)
  | exact parseImmOrReg_lok _ _ _ (by assumption)
  | exact parsePCOff_lok _ _ _ (by assumption)
  | exact parseComma_lok _ _ (by assumption)
  | (apply LOk_bind)
  | (apply LOkP_bind)
  | (intro a p' hp' ha; try dsimp only)
  | (intro p' hp'; try dsimp only)
  | trivial)

theorem parseInstr_lok (toks : Array SpTok) (p : Parser) (h : p.toks = toks) : LOk toks (parseInstr p) := by
  have ha : p.advance.toks = toks := h
  unfold parseInstr
  split
  · rename_i k _ _ _
    dsimp only
    split
    · repeat lok_step
    · cases k <;> dsimp only <;> try (repeat lok_step)
      -- NOP
      split <;> repeat lok_step
  · trivial

theorem parseDirective_fact (p : Parser) (d : Directive) (p' : Parser) (h : parseDirective p = .ok (d, p')) :
    DirFact p.toks d := by
  unfold parseDirective at h
  dsimp only at h
  split at h
  · split at h
    · -- ORIG
      cases hu : parseUOff 16 p.advance with
      | error e => rw [hu] at h; cases h
      | ok x => rw [hu] at h; obtain ⟨a, q⟩ := x; cases h; trivial
    · split at h
      · -- FILL
        split at h
        · rename_i l hl
          cases h
          exact labelOf_tok p.advance l hl
        · split at h
          · cases h; trivial
          · cases h; trivial
          · cases h
      · split at h
        · -- BLKW
          cases hu : parseUOff 16 p.advance with
          | error e => rw [hu] at h; cases h
          | ok x =>
            rw [hu] at h; obtain ⟨n, q⟩ := x
            simp only [bind, Except.bind] at h
            split at h
            · rename_i hn; cases h; exact hn
            · cases h
        · split at h
          · -- STRINGZ
            split at h
            · rename_i s hs
              cases h
              exact tokOf_mem p.advance _ hs
            · cases h
          · split at h
            · cases h; trivial
            · split at h
              · split at h
                · rename_i l hl
                  cases h
                  exact labelOf_tok p.advance l hl
                · cases h
              · cases h
  · cases h

theorem parseNucleus_fact (p : Parser) (last : Option (Nat × Nat)) (k : StmtKind) (p' : Parser)
    (h : parseNucleus p last = .ok (k, p')) : KindFact p.toks k ∧ ∃ t, p.peek = some t := by
  have hpk : ∀ x, tokOf p = some x → ∃ t, p.peek = some t := by
    intro x hx
    unfold tokOf at hx
    cases hp : p.peek with
    | none => rw [hp] at hx; cases hx
    | some t => exact ⟨t, rfl⟩
  unfold parseNucleus at h
  split at h
  · rename_i w hw
    refine ⟨?_, hpk _ hw⟩
    cases hd : parseDirective p with
    | error e => rw [hd] at h; cases h
    | ok x =>
      rw [hd] at h; obtain ⟨d, q⟩ := x
      cases h
      exact parseDirective_fact p d _ hd
  · rename_i w hw
    refine ⟨?_, hpk _ hw⟩
    have hlok := parseInstr_lok p.toks p rfl
    cases hd : parseInstr p with
    | error e => rw [hd] at h; cases h
    | ok x => rw [hd] at h hlok; obtain ⟨d, q⟩ := x; cases h; exact hlok.2
  · cases h

theorem skipColon_toks (p : Parser) : (skipColon p).toks = p.toks := by
  unfold skipColon; split <;> rfl

theorem parseLabels_labels (toks : Array SpTok) : ∀ (fuel : Nat) (p : Parser) (acc : List Label) (last : Option (Nat × Nat)),
    p.toks = toks → (∀ l ∈ acc, LabTok toks l) → ∀ l ∈ (parseLabels fuel p acc last).1, LabTok toks l := by
  intro fuel
  induction fuel with
  | zero => intro p acc last _ ha l hl; exact ha l (List.mem_reverse.mp hl)
  | succ fuel ih =>
    intro p acc last hp ha
    unfold parseLabels
    split
    · intro l hl; exact ha l (List.mem_reverse.mp hl)
    · dsimp only
      split
      · rename_i l0 hl0
        apply ih
        · rw [skipColon_toks]; exact hp
        · intro l hl
          rcases List.mem_cons.mp hl with rfl | hl
          · exact hp ▸ labelOf_tok p l hl0
          · exact ha l hl
      · split
        · exact ih _ _ _ hp ha
        · exact ih _ _ _ hp ha
        · intro l hl; exact ha l (List.mem_reverse.mp hl)

theorem isEmpty_of_ge (p : Parser) (h : p.toks.size ≤ p.idx) : p.isEmpty = true := by
  unfold isEmpty
  rw [List.drop_of_length_le (by simpa using h)]
  rfl

/-- past-the-end parsers stay past the end -/
def PastEnd (toks : Array SpTok) (q : Parser) : Prop := q.toks = toks ∧ toks.size ≤ q.idx
theorem PastEnd.adv (toks : Array SpTok) : ∀ q, PastEnd toks q → PastEnd toks q.advance := by
  intro q ⟨h1, h2⟩
  refine ⟨h1, ?_⟩
  show toks.size ≤ min (q.idx + 1) q.toks.size; rw [h1]; omega

/-- **one statement**: facts about its labels and nucleus, where its span starts, where the next statement can start -/
theorem parseStmt_spec (toks : Array SpTok) (p : Parser) (s : Stmt) (p'' : Parser) (hp : p.toks = toks) (hidx : p.idx ≤ toks.size)
    (h : parseStmt p = .ok (s, p'')) :
    StmtFact toks s ∧ p''.toks = toks ∧ p''.idx ≤ toks.size ∧
    ∃ i t, p.idx ≤ i ∧ toks[i]? = some t ∧ s.span.1 = t.start ∧
      (p''.isEmpty = true ∨ ∃ j tn, i ≤ j ∧ toks[j]? = some tn ∧ tn.tok = .newline ∧ j < p''.idx) := by
  unfold parseStmt at h
  have hl := parseLabels_labels toks (p.toks.size + 1) p [] none hp (by intro l hl; cases hl)
  have hi := parseLabels_p (IdxGe toks p.idx) (IdxGe.adv toks p.idx) (p.toks.size + 1) p [] none ⟨hp, Nat.le_refl _, hidx⟩
  generalize parseLabels (p.toks.size + 1) p [] none = r at hl hi h
  obtain ⟨labels, last, p1⟩ := r
  dsimp only at hl hi h
  obtain ⟨h1t, h1i, h1s⟩ := hi
  cases hn : parseNucleus p1 last with
  | error e => rw [hn] at h; cases h
  | ok x =>
    obtain ⟨k, p'⟩ := x
    rw [hn] at h
    dsimp only at h
    obtain ⟨hk, t, ht⟩ := parseNucleus_fact p1 last k p' hn
    have hi' : IdxGe toks p1.idx p' := by
      have := parseNucleus_aok (IdxGe toks p1.idx) (IdxGe.adv toks p1.idx) p1 last ⟨h1t, Nat.le_refl _, h1s⟩
      rw [hn] at this; exact this
    obtain ⟨h2t, h2i, h2s⟩ := hi'
    have hcur : p1.cursor.1 = t.start := by unfold cursor; rw [ht]
    have hti : toks[p1.idx]? = some t := by unfold peek at ht; rw [h1t] at ht; exact ht
    have hlt1 : p1.idx < toks.size := (Array.getElem?_eq_some_iff.mp hti).1
    have hstrict : IdxGe toks (p1.idx + 1) p' := by
      have hadv1 : IdxGe toks (p1.idx + 1) p1.advance := by
        refine ⟨h1t, ?_, ?_⟩
        · show p1.idx + 1 ≤ min (p1.idx + 1) p1.toks.size; rw [h1t]; omega
        · show min (p1.idx + 1) p1.toks.size ≤ toks.size; rw [h1t]; omega
      have := parseNucleus_aok' (IdxGe toks (p1.idx + 1)) (IdxGe.adv toks (p1.idx + 1)) p1 last hadv1
      rw [hn] at this; exact this
    have hspan : SpanFact toks (p1.cursor.1, match p'.toks[p'.idx - 1]? with | some t => t.stop | none => p1.cursor.1) := by
      have hlt : p'.idx - 1 < toks.size := by have := hstrict.2.1; omega
      have hte : toks[p'.idx - 1]? = some toks[p'.idx - 1] := Array.getElem?_eq_getElem hlt
      rw [h2t, hte]
      exact ⟨p1.idx, p'.idx - 1, t, _, by have := hstrict.2.1; omega, hti, hte, by rw [hcur]⟩
    have hadv : IdxGe toks p'.idx p'.advance := IdxGe.adv toks p'.idx p' ⟨h2t, Nat.le_refl _, h2s⟩
    have hfin : ∀ q, q = skipNewlines (p'.toks.size + 1) p'.advance → q.toks = toks ∧ q.idx ≤ toks.size := by
      intro q hq
      have := skipNewlines_p (IdxGe toks p'.idx) (IdxGe.adv toks p'.idx) (p'.toks.size + 1) p'.advance hadv
      rw [← hq] at this; exact ⟨this.1, this.2.2⟩
    split at h
    · -- end of input
      rename_i hnone
      injection h with h; injection h with hs hq
      have hpe : PastEnd toks p' := by
        refine ⟨h2t, ?_⟩
        unfold tokOf peek at hnone
        rw [h2t] at hnone
        simp only [Option.map_eq_none_iff, Array.getElem?_eq_none_iff] at hnone
        exact hnone
      have hpe2 := skipNewlines_p (PastEnd toks) (PastEnd.adv toks) (p'.toks.size + 1) p'.advance (PastEnd.adv toks _ hpe)
      rw [hq] at hpe2
      obtain ⟨ft, fi⟩ := hfin p'' hq.symm
      refine ⟨?_, ft, fi, p1.idx, t, h1i, hti, ?_, Or.inl (isEmpty_of_ge p'' (by rw [hpe2.1]; exact hpe2.2))⟩
      · rw [← hs]; exact ⟨hl, h1t ▸ hk, hspan⟩
      · rw [← hs]; exact hcur
    · -- newline
      rename_i hnl
      injection h with h; injection h with hs hq
      obtain ⟨ft, fi⟩ := hfin p'' hq.symm
      have hnl' : ∃ tn, toks[p'.idx]? = some tn ∧ tn.tok = .newline := by
        unfold tokOf peek at hnl
        rw [h2t] at hnl
        cases hg : toks[p'.idx]? with
        | none => rw [hg] at hnl; cases hnl
        | some tn => rw [hg] at hnl; simp only [Option.map_some, Option.some.injEq] at hnl; exact ⟨tn, rfl, hnl⟩
      obtain ⟨tn, htn, htk⟩ := hnl'
      have hlt : p'.idx < toks.size := by
        have := (Array.getElem?_eq_some_iff.mp htn).1; exact this
      have hadv1 : IdxGe toks (p'.idx + 1) p'.advance := by
        refine ⟨h2t, ?_, ?_⟩
        · show p'.idx + 1 ≤ min (p'.idx + 1) p'.toks.size; rw [h2t]; omega
        · show min (p'.idx + 1) p'.toks.size ≤ toks.size; rw [h2t]; omega
      have hsk := skipNewlines_p (IdxGe toks (p'.idx + 1)) (IdxGe.adv toks (p'.idx + 1)) (p'.toks.size + 1) p'.advance hadv1
      rw [hq] at hsk
      refine ⟨?_, ft, fi, p1.idx, t, h1i, hti, ?_, Or.inr ⟨p'.idx, tn, h2i, htn, htk, hsk.2.1⟩⟩
      · rw [← hs]; exact ⟨hl, h1t ▸ hk, hspan⟩
      · rw [← hs]; exact hcur
    · cases h

/-- the nucleus of each statement starts at a token at or after index `k`; a newline token separates it from the next one -/
def StartsFrom (toks : Array SpTok) : Nat → List Stmt → Prop
  | _, [] => True
  | k, s :: rest => ∃ i t, k ≤ i ∧ toks[i]? = some t ∧ s.span.1 = t.start ∧
      (rest = [] ∨ ∃ j tn, i ≤ j ∧ toks[j]? = some tn ∧ tn.tok = .newline ∧ StartsFrom toks (j + 1) rest)

theorem StartsFrom.mono (toks : Array SpTok) : ∀ (ss : List Stmt) (k k' : Nat), k' ≤ k → StartsFrom toks k ss → StartsFrom toks k' ss := by
  intro ss
  cases ss with
  | nil => intro _ _ _ _; trivial
  | cons s rest =>
    intro k k' hle h
    obtain ⟨i, t, h1, h2⟩ := h
    exact ⟨i, t, by omega, h2⟩

theorem parseAll_empty (fuel : Nat) (p : Parser) (acc r : List Stmt) (he : p.isEmpty = true) (h : parseAll fuel p acc = .ok r) :
    r = acc.reverse := by
  cases fuel with
  | zero => simp only [parseAll] at h; cases h; rfl
  | succ fuel => unfold parseAll at h; rw [if_pos he] at h; cases h; rfl

theorem parseAll_spec (toks : Array SpTok) : ∀ (fuel : Nat) (p : Parser) (acc r : List Stmt),
    p.toks = toks → p.idx ≤ toks.size → parseAll fuel p acc = .ok r →
    ∃ ss, r = acc.reverse ++ ss ∧ (∀ s ∈ ss, StmtFact toks s) ∧ StartsFrom toks p.idx ss := by
  intro fuel
  induction fuel with
  | zero =>
    intro p acc r _ _ h
    simp only [parseAll] at h; cases h
    exact ⟨[], (by simp), (by intro s hs; cases hs), trivial⟩
  | succ fuel ih =>
    intro p acc r hp hidx h
    unfold parseAll at h
    split at h
    · cases h; exact ⟨[], (by simp), (by intro s hs; cases hs), trivial⟩
    · cases hs : parseStmt p with
      | error e => rw [hs] at h; cases h
      | ok x =>
        obtain ⟨s, p''⟩ := x
        rw [hs] at h
        dsimp only at h
        obtain ⟨hf, ht, hi, i, t, hpi, hti, hsp, hnext⟩ := parseStmt_spec toks p s p'' hp hidx hs
        obtain ⟨ss, hr, hall, hst⟩ := ih p'' (s :: acc) r ht hi h
        refine ⟨s :: ss, (by rw [hr]; simp), ?_, ?_⟩
        · intro x hx
          rcases List.mem_cons.mp hx with rfl | hx
          · exact hf
          · exact hall x hx
        · refine ⟨i, t, hpi, hti, hsp, ?_⟩
          rcases hnext with he | ⟨j, tn, hij, htn, hnl, hlt⟩
          · left
            have := parseAll_empty fuel p'' (s :: acc) r he h
            rw [hr] at this
            simpa using this
          · right
            exact ⟨j, tn, hij, htn, hnl, StartsFrom.mono toks ss _ _ (by omega) hst⟩

/-- the token vector the parser works on -/
def parserToks (ts : List SpTok) : Array SpTok := (ts.filter (fun t => t.tok != .comment)).toArray

/-- **the output of `parse_ast`**: statements built from tokens of the (comment-free) token vector, each starting at a
    token, consecutive ones separated by a newline token; the tokens carry the lexer's guarantees and ordered spans -/
theorem parseAst_spec (src : List Char) (stmts : List Stmt) (h : parseAst src = .ok stmts) :
    ∃ toks : Array SpTok, (∀ t ∈ toks.toList, TokFact src t) ∧ toks.toList.Pairwise (fun a b => a.stop ≤ b.start) ∧
      (∀ s ∈ stmts, StmtFact toks s) ∧ StartsFrom toks 0 stmts := by
  unfold parseAst at h
  split at h
  · cases h
  · rename_i ts hlex
    dsimp only at h
    obtain ⟨hf, hpw⟩ := lex_facts src ts hlex
    obtain ⟨ss, hr, hall, hst⟩ := parseAll_spec (parserToks ts) _ ⟨parserToks ts, 0⟩ [] stmts rfl (Nat.zero_le _) h
    simp only [List.reverse_nil, List.nil_append] at hr
    subst hr
    refine ⟨parserToks ts, ?_, ?_, hall, hst⟩
    · intro t ht
      simp only [parserToks, List.toList_toArray, List.mem_filter] at ht
      exact hf t ht.1
    · simp only [parserToks, List.toList_toArray]
      exact List.Pairwise.filter _ hpw

end Lc3V
