/- Lemmas/Pass1Accepts.lean — the first pass accepts a structured program whose blocks stay below xFE00 and whose label
   bindings are consistent. -/
import Lc3V.Lemmas.CursorAt
set_option linter.unusedSimpArgs false
set_option linter.unusedVariables false
namespace Lc3V

theorem foldlM_append_of_ok' {σ : Type} (f : σ → Stmt → ARes σ) (pre post : List Stmt) (s0 s1 : σ)
    (h : pre.foldlM f s0 = .ok s1) : (pre ++ post).foldlM f s0 = post.foldlM f s1 := by
  induction pre generalizing s0 with
  | nil => simp only [List.foldlM_nil] at h; cases h; rfl
  | cons x xs ih =>
    simp only [List.cons_append, List.foldlM_cons] at h ⊢
    cases hx : f s0 x with
    | error e => rw [hx] at h; cases h
    | ok s' => rw [hx] at h; exact ih s' h

/-- one binding the first pass makes: label, address, external flag -/
abbrev Binding := Label × W × Bool

def bindStep (m : List (Key × SymData)) (x : Binding) : ARes (List (Key × SymData)) := addLabel m x.1 x.2.1 x.2.2

/-- the label table obtained by making the bindings in order (an error = a label bound to two different addresses) -/
def labelFold (m : List (Key × SymData)) (bs : List Binding) : ARes (List (Key × SymData)) := bs.foldlM bindStep m

def extBinding : StmtKind → List Binding
  | .directive (.external l) => [(l, 0, true)]
  | _ => []

/-- the bindings of one statement at location counter `lc`: its labels, then its `.external` declaration if it is one -/
def stmtBindings (lc : W) (s : Stmt) : List Binding := s.labels.map (fun l => (l, lc, false)) ++ extBinding s.nucleus

def bodyBindings : W → List Stmt → List Binding
  | _, [] => []
  | lc, s :: r => stmtBindings lc s ++ bodyBindings (lc + s.nucleus.wordLen) r

theorem labelFold_append (m : List (Key × SymData)) (a b : List Binding) :
    labelFold m (a ++ b) = (match labelFold m a with | .error e => .error e | .ok m1 => labelFold m1 b) := by
  unfold labelFold
  rw [List.foldlM_append]
  cases a.foldlM bindStep m <;> rfl

theorem labelFold_labels (m : List (Key × SymData)) (ls : List Label) (lc : W) :
    labelFold m (ls.map (fun l => (l, lc, false))) = addLabels m ls lc := by
  unfold labelFold addLabels
  induction ls generalizing m with
  | nil => rfl
  | cons l rest ih =>
    simp only [List.map_cons, List.foldlM_cons, bindStep]
    cases addLabel m l lc false with
    | error e => rfl
    | ok m1 => exact ih m1

/-- the label part and the special-directive part of a pass-1 step, for a statement that is neither `.orig` nor `.end` -/
theorem p1_labels_special (st : P1) (s : Stmt) (cur : Cursor) (m' : List (Key × SymData)) (hc : st.cursor = some cur)
    (hk : isOrigEnd s.nucleus = false) (hl : labelFold st.labels (stmtBindings cur.lc s) = .ok m') :
    ∃ labels rel, p1Labels st s = .ok labels ∧ p1Special st s labels = .ok (some cur, m', rel) := by
  unfold stmtBindings at hl
  rw [labelFold_append, labelFold_labels] at hl
  cases h1 : addLabels st.labels s.labels cur.lc with
  | error e => rw [h1] at hl; cases hl
  | ok labels =>
    rw [h1] at hl
    simp only at hl
    have hpl : p1Labels st s = .ok labels := by
      unfold p1Labels
      by_cases he : s.labels.isEmpty = true
      · have : s.labels = [] := List.isEmpty_iff.mp he
        rw [this] at h1
        simp only [addLabels, List.foldlM_nil] at h1
        cases h1
        simp [he]
      · simp only [he, Bool.false_eq_true, if_false, hc]
        exact h1
    unfold p1Special
    cases hn : s.nucleus with
    | instr i =>
      rw [hn] at hl
      simp only [extBinding, labelFold, List.foldlM_nil] at hl
      cases hl
      exact ⟨_, st.rel, hpl, by rw [hc]⟩
    | directive d =>
      rw [hn] at hl hk
      cases d with
      | orig a => cases hk
      | end_ => cases hk
      | external l =>
        simp only [extBinding, labelFold, List.foldlM_cons, List.foldlM_nil, bindStep] at hl
        cases h2 : addLabel labels l 0 true with
        | error e => rw [h2] at hl; cases hl
        | ok m2 =>
          rw [h2] at hl
          cases hl
          exact ⟨labels, st.rel, hpl, by simp only [h2, hc]⟩
      | fill v =>
        simp only [extBinding, labelFold, List.foldlM_nil] at hl
        cases hl
        cases v with
        | off x => exact ⟨_, st.rel, hpl, by rw [hc]⟩
        | label l => exact ⟨_, relInsert st.rel cur.lc (upperS l.name), hpl, by simp only [hc]⟩
      | blkw n =>
        simp only [extBinding, labelFold, List.foldlM_nil] at hl
        cases hl
        exact ⟨_, st.rel, hpl, by rw [hc]⟩
      | stringz x =>
        simp only [extBinding, labelFold, List.foldlM_nil] at hl
        cases hl
        exact ⟨_, st.rel, hpl, by rw [hc]⟩

/-- a body statement is accepted when its bindings are consistent and the block stays in range -/
theorem pass1Step_accepts_body (st : P1) (s : Stmt) (cur c' : Cursor) (m' : List (Key × SymData)) (hc : st.cursor = some cur)
    (hk : isOrigEnd s.nucleus = false) (hl : labelFold st.labels (stmtBindings cur.lc s) = .ok m')
    (hshift : cur.shift s.nucleus.wordLen = .ok c') :
    ∃ st', pass1Step st s = .ok st' ∧ st'.labels = m' ∧ st'.cursor = some c' := by
  obtain ⟨labels, rel, h1, h2⟩ := p1_labels_special st s cur m' hc hk hl
  unfold pass1Step
  rw [h1]
  dsimp only
  rw [h2]
  dsimp only
  unfold p1Advance
  dsimp only
  rw [hshift]
  exact ⟨_, rfl, rfl, rfl⟩

theorem shift_ok_of_fits (c : Cursor) (n : W) (ho : c.overflowed = false) (h : n = 0 ∨ c.lc.toNat + n.toNat ≤ 0xFE00) :
    ∃ c', c.shift n = .ok c' ∧ c'.overflowed = false := by
  unfold Cursor.shift
  by_cases hn : n = 0
  · exact ⟨c, by simp [hn], ho⟩
  · rcases h with h | h
    · exact absurd h hn
    · rw [if_neg hn, ho]
      simp only [Bool.false_eq_true, if_false]
      rw [if_pos (by omega), if_neg (by omega)]
      exact ⟨_, rfl, rfl⟩

/-- every statement of the body keeps the block at or below xFE00 (zero-size statements never fail) -/
def BodyFits : Nat → List Stmt → Prop
  | _, [] => True
  | a, s :: r => (s.nucleus.wordLen = 0 ∨ a + s.nucleus.wordLen.toNat ≤ 0xFE00) ∧ BodyFits (a + s.nucleus.wordLen.toNat) r

theorem pass1_accepts_body : ∀ (body : List Stmt) (st : P1) (cur : Cursor) (m' : List (Key × SymData)), st.cursor = some cur →
    cur.overflowed = false → (∀ s ∈ body, isOrigEnd s.nucleus = false) → BodyFits cur.lc.toNat body →
    labelFold st.labels (bodyBindings cur.lc body) = .ok m' →
    ∃ st', body.foldlM pass1Step st = .ok st' ∧ st'.labels = m' ∧
      ∃ c', st'.cursor = some c' ∧ c'.overflowed = false ∧ c'.lc = cur.lc + sizeOf' body := by
  intro body
  induction body with
  | nil =>
    intro st cur m' hc ho _ _ hl
    simp only [bodyBindings, labelFold, List.foldlM_nil] at hl
    cases hl
    exact ⟨st, rfl, rfl, cur, hc, ho, by simp [sizeOf']⟩
  | cons s r ih =>
    intro st cur m' hc ho hk hfit hl
    simp only [bodyBindings] at hl
    rw [labelFold_append] at hl
    cases h1 : labelFold st.labels (stmtBindings cur.lc s) with
    | error e => rw [h1] at hl; cases hl
    | ok m1 =>
      rw [h1] at hl
      simp only at hl
      obtain ⟨c1, hshift, ho1⟩ := shift_ok_of_fits cur s.nucleus.wordLen ho hfit.1
      obtain ⟨st1, hs1, hm1, hc1⟩ := pass1Step_accepts_body st s cur c1 m1 hc (hk s (by simp)) h1 hshift
      have hlc1 := shift_lc _ _ _ hshift
      have hnat1 := shift_toNat _ _ _ hshift
      obtain ⟨st', hf, hm', c', hc', ho', hlc'⟩ := ih st1 c1 m' hc1 ho1 (fun x hx => hk x (by simp [hx]))
        (by rw [hnat1]; exact hfit.2) (by rw [hm1, hlc1]; exact hl)
      refine ⟨st', by rw [List.foldlM_cons, hs1]; exact hf, hm', c', hc', ho', ?_⟩
      rw [hlc', hlc1]
      have := foldl_size r (0 + s.nucleus.wordLen)
      unfold sizeOf' at this ⊢
      simp only [List.foldl_cons]
      rw [this]
      generalize List.foldl (fun acc s => acc + s.nucleus.wordLen) 0 r = z
      bv_omega

def gapBindings (gap : List Stmt) : List Binding := gap.flatMap (fun s => extBinding s.nucleus)

theorem pass1_accepts_gap : ∀ (gap : List Stmt) (st : P1) (m' : List (Key × SymData)), st.cursor = none →
    (∀ s ∈ gap, isExternal s.nucleus = true ∧ s.labels = []) → labelFold st.labels (gapBindings gap) = .ok m' →
    ∃ st', gap.foldlM pass1Step st = .ok st' ∧ st'.labels = m' ∧ st'.cursor = none := by
  intro gap
  induction gap with
  | nil =>
    intro st m' hc _ hl
    simp only [gapBindings, List.flatMap_nil, labelFold, List.foldlM_nil] at hl
    cases hl
    exact ⟨st, rfl, rfl, hc⟩
  | cons s r ih =>
    intro st m' hc hg hl
    simp only [gapBindings, List.flatMap_cons] at hl
    rw [labelFold_append] at hl
    obtain ⟨hext, hnl⟩ := hg s (by simp)
    -- `s` is `.external l`
    obtain ⟨l, hn⟩ : ∃ l, s.nucleus = .directive (.external l) := by
      cases hk : s.nucleus with
      | instr i => rw [hk] at hext; cases hext
      | directive d => rw [hk] at hext; cases d <;> first | exact ⟨_, rfl⟩ | cases hext
    rw [hn] at hl
    simp only [extBinding, labelFold, List.foldlM_cons, List.foldlM_nil, bindStep] at hl
    cases h2 : addLabel st.labels l 0 true with
    | error e => rw [h2] at hl; cases hl
    | ok m1 =>
      rw [h2] at hl
      simp only [bind, Except.bind, pure, Except.pure] at hl
      have hs : pass1Step st s = .ok ⟨none, m1, st.rel, st.lines⟩ := by
        unfold pass1Step
        have h1 : p1Labels st s = .ok st.labels := by unfold p1Labels; simp [hnl]
        rw [h1]
        dsimp only
        have h3 : p1Special st s st.labels = .ok (st.cursor, m1, st.rel) := by
          unfold p1Special
          simp only [hn, h2]
        rw [h3, hc]
        rfl
      obtain ⟨st', hf, hm', hc'⟩ := ih ⟨none, m1, st.rel, st.lines⟩ m' rfl (fun x hx => hg x (by simp [hx])) (by exact hl)
      exact ⟨st', by rw [List.foldlM_cons, hs]; exact hf, hm', hc'⟩

/-- the bindings of a whole block -/
def blkBindings (b : Blk) : List Binding :=
  gapBindings b.gap ++ (bodyBindings b.a b.body ++ b.endS.labels.map (fun l => (l, b.a + sizeOf' b.body, false)))

theorem pass1_accepts_block (b : Blk) (hb : b.WF) (hgap : ∀ s ∈ b.gap, isExternal s.nucleus = true ∧ s.labels = [])
    (horig : b.origS.labels = []) (hfit : BodyFits b.a.toNat b.body) (st : P1) (m' : List (Key × SymData)) (hc : st.cursor = none)
    (hl : labelFold st.labels (blkBindings b) = .ok m') :
    ∃ st', b.stmts.foldlM pass1Step st = .ok st' ∧ st'.labels = m' ∧ st'.cursor = none := by
  unfold blkBindings at hl
  rw [labelFold_append] at hl
  cases h1 : labelFold st.labels (gapBindings b.gap) with
  | error e => rw [h1] at hl; cases hl
  | ok m1 =>
    rw [h1] at hl
    simp only at hl
    obtain ⟨s0, hf0, hm0, hc0⟩ := pass1_accepts_gap b.gap st m1 hc hgap h1
    -- the `.orig`
    have ho : pass1Step s0 b.origS = .ok ⟨some ⟨b.a, false, b.origS.span⟩, s0.labels, s0.rel, s0.lines⟩ := by
      unfold pass1Step
      have hp : p1Labels s0 b.origS = .ok s0.labels := by unfold p1Labels; simp [horig]
      rw [hp]
      dsimp only
      have h3 : p1Special s0 b.origS s0.labels = .ok (some ⟨b.a, false, b.origS.span⟩, s0.labels, s0.rel) := by
        unfold p1Special
        simp only [hb.orig, hc0]
      rw [h3]
      dsimp only
      unfold p1Advance
      dsimp only
      have hz : b.origS.nucleus.wordLen = 0 := by rw [hb.orig]; rfl
      rw [hz]
      have hnl : noLine b.origS.nucleus = true := by rw [hb.orig]; rfl
      simp [Cursor.shift, hnl]
      cases s0.lines with
      | none => rfl
      | some p => rfl
    rw [labelFold_append] at hl
    cases h2 : labelFold m1 (bodyBindings b.a b.body) with
    | error e => rw [h2] at hl; cases hl
    | ok m2 =>
      rw [h2] at hl
      simp only at hl
      obtain ⟨s2, hf2, hm2, c2, hc2, ho2, hlc2⟩ := pass1_accepts_body b.body ⟨some ⟨b.a, false, b.origS.span⟩, s0.labels, s0.rel, s0.lines⟩
        ⟨b.a, false, b.origS.span⟩ m2 rfl rfl hb.body hfit (by rw [hm0]; exact h2)
      -- the `.end`
      have hend : ∃ st', pass1Step s2 b.endS = .ok st' ∧ st'.labels = m' ∧ st'.cursor = none := by
        unfold pass1Step
        have hlab : addLabels s2.labels b.endS.labels c2.lc = .ok m' := by
          rw [← labelFold_labels, hm2, hlc2]; exact hl
        have hp : p1Labels s2 b.endS = .ok m' := by
          unfold p1Labels
          by_cases he : b.endS.labels.isEmpty = true
          · have : b.endS.labels = [] := List.isEmpty_iff.mp he
            rw [this] at hlab
            simp only [addLabels, List.foldlM_nil] at hlab
            cases hlab
            simp [he]
          · simp only [he, Bool.false_eq_true, if_false, hc2]
            exact hlab
        rw [hp]
        dsimp only
        have h3 : p1Special s2 b.endS m' = .ok (none, m', s2.rel) := by
          unfold p1Special
          simp only [hb.end_, hc2]
        rw [h3]
        exact ⟨_, rfl, rfl, rfl⟩
      obtain ⟨st', hs', hm', hc'⟩ := hend
      refine ⟨st', ?_, hm', hc'⟩
      unfold Blk.stmts
      rw [foldlM_append_of_ok' _ _ _ _ _ hf0, List.foldlM_cons, ho]
      simp only [bind, Except.bind]
      rw [foldlM_append_of_ok' _ _ _ _ _ hf2]
      simp only [List.foldlM_cons, List.foldlM_nil, hs']
      rfl

/-- the bindings of a whole program -/
def progBindings (blks : List Blk) (tail : List Stmt) : List Binding := blks.flatMap blkBindings ++ gapBindings tail

theorem pass1_accepts_blocks : ∀ (blks : List Blk) (tail : List Stmt) (st : P1) (m' : List (Key × SymData)), st.cursor = none →
    (∀ b ∈ blks, b.WF ∧ (∀ s ∈ b.gap, isExternal s.nucleus = true ∧ s.labels = []) ∧ b.origS.labels = [] ∧ BodyFits b.a.toNat b.body) →
    (∀ s ∈ tail, isExternal s.nucleus = true ∧ s.labels = []) →
    labelFold st.labels (progBindings blks tail) = .ok m' →
    ∃ st', (blks.flatMap Blk.stmts ++ tail).foldlM pass1Step st = .ok st' ∧ st'.labels = m' ∧ st'.cursor = none := by
  intro blks
  induction blks with
  | nil =>
    intro tail st m' hc _ ht hl
    simp only [progBindings, List.flatMap_nil, List.nil_append] at hl ⊢
    exact pass1_accepts_gap tail st m' hc ht hl
  | cons b rest ih =>
    intro tail st m' hc hwf ht hl
    simp only [progBindings, List.flatMap_cons, List.append_assoc] at hl ⊢
    rw [labelFold_append] at hl
    cases h1 : labelFold st.labels (blkBindings b) with
    | error e => rw [h1] at hl; cases hl
    | ok m1 =>
      rw [h1] at hl
      simp only at hl
      obtain ⟨hb, hgap, horig, hfit⟩ := hwf b (by simp)
      obtain ⟨s1, hf1, hm1, hc1⟩ := pass1_accepts_block b hb hgap horig hfit st m1 hc h1
      obtain ⟨st', hf', hm', hc'⟩ := ih tail s1 m' hc1 (fun x hx => hwf x (by simp [hx])) ht (by rw [hm1]; exact hl)
      exact ⟨st', by rw [foldlM_append_of_ok' _ _ _ _ _ hf1]; exact hf', hm', hc'⟩

/-- **the first pass accepts** a structured program — closed blocks, only unlabelled `.external` declarations outside them, no
    label on an `.orig` — whose blocks stay at or below xFE00 and whose label bindings (each label at the location counter of
    its statement, each `.external` at 0), made in program order, never bind a name to two different addresses -/
theorem pass1_accepts (blks : List Blk) (tail : List Stmt) (src : Option (List Char))
    (hwf : ∀ b ∈ blks, b.WF ∧ (∀ s ∈ b.gap, isExternal s.nucleus = true ∧ s.labels = []) ∧ b.origS.labels = [] ∧ BodyFits b.a.toNat b.body)
    (ht : ∀ s ∈ tail, isExternal s.nucleus = true ∧ s.labels = [])
    (hl : ∃ m, labelFold [] (progBindings blks tail) = .ok m) :
    ∃ t, pass1 (blks.flatMap Blk.stmts ++ tail) src = .ok t := by
  obtain ⟨m, hm⟩ := hl
  obtain ⟨st', hf, _, hc⟩ := pass1_accepts_blocks blks tail (p1Init src) m rfl hwf ht hm
  unfold pass1
  rw [hf]
  dsimp only
  unfold p1Finish
  rw [hc]
  exact ⟨_, rfl⟩

/-- the label fold fails exactly when some binding meets an earlier binding of the same name with a different address -/
theorem bindStep_ok_iff (m : List (Key × SymData)) (x : Binding) :
    (∃ m', bindStep m x = .ok m') ↔ ∀ d, lookupKey m (upperS x.1.name) = some d → d.addr = x.2.1 := by
  unfold bindStep addLabel
  dsimp only
  cases hl : lookupKey m (upperS x.1.name) with
  | none => simp
  | some d =>
    by_cases hd : d.addr = x.2.1
    · simp [hd]
    · simp [hd]

end Lc3V
