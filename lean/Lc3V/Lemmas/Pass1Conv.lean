/-
  Lemmas/Pass1Conv.lean — the converse of Lemmas/Pass1Accepts.lean: if the first pass accepts a structured program, then every
  block stays at or below xFE00 (`BodyFits`) and the label bindings, made in program order, are consistent (`labelFold` succeeds,
  and its result is the final label table).
-/
import Lc3V.Lemmas.Pass1Accepts
set_option linter.unusedSimpArgs false
set_option linter.unusedVariables false
namespace Lc3V

theorem shift_ok_conv (c c' : Cursor) (n : W) (ho : c.overflowed = false) (h : c.shift n = .ok c') :
    (n = 0 ∨ c.lc.toNat + n.toNat ≤ 0xFE00) ∧ c'.overflowed = false := by
  unfold Cursor.shift at h
  by_cases hn : n = 0
  · rw [if_pos hn] at h; cases h; exact ⟨Or.inl hn, ho⟩
  · rw [if_neg hn, ho] at h
    simp only [Bool.false_eq_true, if_false] at h
    split at h
    · split at h
      · cases h
      · rename_i h1 h2
        cases h
        exact ⟨Or.inr (by omega), rfl⟩
    · split at h <;> cases h

/-- the labels a pass-1 step binds, for a statement that is neither `.orig` nor `.end`, inside a block -/
theorem pass1Step_body_conv (st st' : P1) (s : Stmt) (cur : Cursor) (h : pass1Step st s = .ok st') (hc : st.cursor = some cur)
    (hk : isOrigEnd s.nucleus = false) :
    labelFold st.labels (stmtBindings cur.lc s) = .ok st'.labels := by
  unfold pass1Step at h
  cases h1 : p1Labels st s with
  | error e => rw [h1] at h; cases h
  | ok labels =>
    rw [h1] at h
    dsimp only at h
    cases h2 : p1Special st s labels with
    | error e => rw [h2] at h; cases h
    | ok r =>
      obtain ⟨cursor, labels', rel⟩ := r
      rw [h2] at h
      dsimp only at h
      have hfin : st'.labels = labels' := by
        unfold p1Advance at h
        cases cursor with
        | none => dsimp only at h; injection h with h; rw [← h]
        | some c0 =>
          dsimp only at h
          cases hs : c0.shift s.nucleus.wordLen with
          | error k => rw [hs] at h; cases h
          | ok c' => rw [hs] at h; dsimp only at h; injection h with h; rw [← h]
      rw [hfin]
      unfold stmtBindings
      rw [labelFold_append, labelFold_labels]
      have hA : addLabels st.labels s.labels cur.lc = .ok labels := by
        unfold p1Labels at h1
        by_cases he : s.labels.isEmpty = true
        · simp only [he, if_true] at h1; cases h1
          have : s.labels = [] := by simpa using he
          rw [this]; rfl
        · simp only [he, Bool.false_eq_true, if_false, hc] at h1
          exact h1
      rw [hA]
      dsimp only
      unfold p1Special at h2
      cases hn : s.nucleus with
      | instr i => rw [hn] at h2; cases h2; rfl
      | directive d =>
        rw [hn] at h2 hk
        cases d with
        | orig a => cases hk
        | end_ => cases hk
        | external l =>
          dsimp only at h2
          cases ha : addLabel labels l 0 true with
          | error x => rw [ha] at h2; cases h2
          | ok m2 =>
            rw [ha] at h2; cases h2
            simp only [extBinding, labelFold, List.foldlM_cons, List.foldlM_nil, bindStep, ha]
            rfl
        | fill v =>
          cases v with
          | off w => cases h2; rfl
          | label l =>
            dsimp only at h2
            rw [hc] at h2
            cases h2; rfl
        | blkw n => cases h2; rfl
        | stringz x => cases h2; rfl

theorem pass1_body_conv : ∀ (body : List Stmt) (st st' : P1) (cur : Cursor), body.foldlM pass1Step st = .ok st' →
    st.cursor = some cur → cur.overflowed = false → (∀ s ∈ body, isOrigEnd s.nucleus = false) →
    BodyFits cur.lc.toNat body ∧ labelFold st.labels (bodyBindings cur.lc body) = .ok st'.labels ∧
    ∃ c', st'.cursor = some c' ∧ c'.overflowed = false ∧ c'.lc = cur.lc + sizeOf' body := by
  intro body
  induction body with
  | nil =>
    intro st st' cur h hc ho _
    simp only [List.foldlM_nil] at h
    cases h
    exact ⟨trivial, rfl, cur, hc, ho, by simp [sizeOf']⟩
  | cons s r ih =>
    intro st st' cur h hc ho hk
    rw [List.foldlM_cons] at h
    cases hs : pass1Step st s with
    | error e => rw [hs] at h; cases h
    | ok st1 =>
      rw [hs] at h
      have hks := hk s (by simp)
      obtain ⟨c1, hc1, hshift⟩ := pass1Step_in_block st st1 s cur hs hc hks
      obtain ⟨hfit1, ho1⟩ := shift_ok_conv cur c1 _ ho hshift
      have hlab := pass1Step_body_conv st st1 s cur hs hc hks
      have hlc1 := shift_lc _ _ _ hshift
      have hnat1 := shift_toNat _ _ _ hshift
      obtain ⟨hfit, hl, c', hc', ho', hlc'⟩ := ih st1 st' c1 h hc1 ho1 (fun x hx => hk x (by simp [hx]))
      refine ⟨⟨hfit1, by rw [← hnat1]; exact hfit⟩, ?_, c', hc', ho', ?_⟩
      · simp only [bodyBindings]
        rw [labelFold_append, hlab]
        dsimp only
        rw [← hlc1]; exact hl
      · rw [hlc', hlc1]
        have := foldl_size r (0 + s.nucleus.wordLen)
        unfold sizeOf' at this ⊢
        simp only [List.foldl_cons]
        rw [this]
        generalize List.foldl (fun acc s => acc + s.nucleus.wordLen) 0 r = z
        bv_omega

theorem pass1_gap_conv : ∀ (gap : List Stmt) (st st' : P1), gap.foldlM pass1Step st = .ok st' → st.cursor = none →
    (∀ s ∈ gap, isExternal s.nucleus = true) →
    (∀ s ∈ gap, s.labels = []) ∧ labelFold st.labels (gapBindings gap) = .ok st'.labels ∧ st'.cursor = none := by
  intro gap
  induction gap with
  | nil =>
    intro st st' h hc _
    simp only [List.foldlM_nil] at h
    cases h
    exact ⟨fun s hs => (by cases hs), rfl, hc⟩
  | cons s r ih =>
    intro st st' h hc hg
    rw [List.foldlM_cons] at h
    cases hs : pass1Step st s with
    | error e => rw [hs] at h; cases h
    | ok st1 =>
      rw [hs] at h
      have hext := hg s (by simp)
      obtain ⟨l, hn⟩ : ∃ l, s.nucleus = .directive (.external l) := by
        cases hk : s.nucleus with
        | instr i => rw [hk] at hext; cases hext
        | directive d => rw [hk] at hext; cases d <;> first | exact ⟨_, rfl⟩ | cases hext
      -- the step: no labels allowed outside a block, one `addLabel`
      have hstep : s.labels = [] ∧ addLabel st.labels l 0 true = .ok st1.labels ∧ st1.cursor = none := by
        unfold pass1Step at hs
        cases h1 : p1Labels st s with
        | error e => rw [h1] at hs; cases hs
        | ok labels =>
          rw [h1] at hs
          dsimp only at hs
          have hnl : s.labels = [] ∧ labels = st.labels := by
            unfold p1Labels at h1
            by_cases he : s.labels.isEmpty = true
            · simp only [he, if_true] at h1; cases h1
              exact ⟨by simpa using he, rfl⟩
            · simp only [he, Bool.false_eq_true, if_false, hc] at h1; cases h1
          obtain ⟨hnl1, hnl2⟩ := hnl
          subst hnl2
          unfold p1Special at hs
          rw [hn] at hs
          dsimp only at hs
          cases ha : addLabel st.labels l 0 true with
          | error x => rw [ha] at hs; cases hs
          | ok m2 =>
            rw [ha, hc] at hs
            dsimp only at hs
            unfold p1Advance at hs
            dsimp only at hs
            injection hs with hs
            rw [← hs]
            exact ⟨hnl1, rfl, rfl⟩
      obtain ⟨hnl, hadd, hc1⟩ := hstep
      obtain ⟨r1, r2, r3⟩ := ih st1 st' h hc1 (fun x hx => hg x (by simp [hx]))
      refine ⟨fun x hx => ?_, ?_, r3⟩
      · rcases List.mem_cons.mp hx with rfl | hx
        · exact hnl
        · exact r1 x hx
      · simp only [gapBindings, List.flatMap_cons]
        rw [labelFold_append]
        rw [hn]
        simp only [extBinding, labelFold, List.foldlM_cons, List.foldlM_nil, bindStep, hadd]
        exact r2

/-- a step outside a block (cursor none) on a statement with labels fails; so an accepted one has none, and keeps the table -/
theorem p1Labels_none (st : P1) (s : Stmt) (labels : List (Key × SymData)) (hc : st.cursor = none) (h : p1Labels st s = .ok labels) :
    s.labels = [] ∧ labels = st.labels := by
  unfold p1Labels at h
  by_cases he : s.labels.isEmpty = true
  · simp only [he, if_true] at h; cases h
    exact ⟨by simpa using he, rfl⟩
  · simp only [he, Bool.false_eq_true, if_false, hc] at h; cases h

theorem pass1_block_conv (b : Blk) (hb : b.WF) (hgap : ∀ s ∈ b.gap, isExternal s.nucleus = true) (st st' : P1) (hc : st.cursor = none)
    (h : b.stmts.foldlM pass1Step st = .ok st') :
    (∀ s ∈ b.gap, s.labels = []) ∧ b.origS.labels = [] ∧ BodyFits b.a.toNat b.body ∧
    labelFold st.labels (blkBindings b) = .ok st'.labels ∧ st'.cursor = none := by
  unfold Blk.stmts at h
  obtain ⟨s0, h0, h1⟩ := foldlM_append_ok2 _ _ _ _ _ h
  obtain ⟨g1, g2, g3⟩ := pass1_gap_conv b.gap st s0 h0 hc hgap
  rw [List.foldlM_cons] at h1
  cases ho : pass1Step s0 b.origS with
  | error e => rw [ho] at h1; cases h1
  | ok s1 =>
    rw [ho] at h1
    -- the `.orig` step
    have horig : b.origS.labels = [] ∧ s1.labels = s0.labels ∧ s1.cursor = some ⟨b.a, false, b.origS.span⟩ := by
      unfold pass1Step at ho
      cases hp : p1Labels s0 b.origS with
      | error e => rw [hp] at ho; cases ho
      | ok labels =>
        rw [hp] at ho
        dsimp only at ho
        obtain ⟨e1, e2⟩ := p1Labels_none s0 b.origS labels g3 hp
        subst e2
        unfold p1Special at ho
        rw [hb.orig] at ho
        dsimp only at ho
        rw [g3] at ho
        dsimp only at ho
        unfold p1Advance at ho
        dsimp only at ho
        have hz : b.origS.nucleus.wordLen = 0 := by rw [hb.orig]; rfl
        rw [hz] at ho
        simp only [Cursor.shift, if_true] at ho
        injection ho with ho
        rw [← ho]
        exact ⟨e1, rfl, rfl⟩
    obtain ⟨o1, o2, o3⟩ := horig
    obtain ⟨s2, h2, h3⟩ := foldlM_append_ok2 _ _ _ _ _ h1
    obtain ⟨bf, bl, c2, hc2, ho2, hlc2⟩ := pass1_body_conv b.body s1 s2 ⟨b.a, false, b.origS.span⟩ h2 o3 rfl hb.body
    -- the `.end` step
    simp only [List.foldlM_cons, List.foldlM_nil] at h3
    cases he : pass1Step s2 b.endS with
    | error e => rw [he] at h3; cases h3
    | ok s3 =>
      rw [he] at h3
      have h3' : s3 = st' := by injection h3
      subst h3'
      have hend : addLabels s2.labels b.endS.labels c2.lc = .ok s3.labels ∧ s3.cursor = none := by
        unfold pass1Step at he
        cases hp : p1Labels s2 b.endS with
        | error e => rw [hp] at he; cases he
        | ok labels =>
          rw [hp] at he
          dsimp only at he
          have hA : addLabels s2.labels b.endS.labels c2.lc = .ok labels := by
            unfold p1Labels at hp
            by_cases hemp : b.endS.labels.isEmpty = true
            · simp only [hemp, if_true] at hp; cases hp
              have : b.endS.labels = [] := by simpa using hemp
              rw [this]; rfl
            · simp only [hemp, Bool.false_eq_true, if_false, hc2] at hp
              exact hp
          unfold p1Special at he
          rw [hb.end_] at he
          dsimp only at he
          rw [hc2] at he
          dsimp only at he
          unfold p1Advance at he
          dsimp only at he
          injection he with he
          rw [← he]
          exact ⟨hA, rfl⟩
      refine ⟨g1, o1, bf, ?_, hend.2⟩
      unfold blkBindings
      rw [labelFold_append, g2]
      dsimp only
      rw [labelFold_append, ← o2, bl]
      dsimp only
      rw [labelFold_labels, ← hlc2]
      exact hend.1

theorem pass1_blocks_conv : ∀ (blks : List Blk) (tail : List Stmt) (st st' : P1), st.cursor = none →
    (∀ b ∈ blks, b.WF ∧ ∀ s ∈ b.gap, isExternal s.nucleus = true) → (∀ s ∈ tail, isExternal s.nucleus = true) →
    (blks.flatMap Blk.stmts ++ tail).foldlM pass1Step st = .ok st' →
    (∀ b ∈ blks, (∀ s ∈ b.gap, s.labels = []) ∧ b.origS.labels = [] ∧ BodyFits b.a.toNat b.body) ∧ (∀ s ∈ tail, s.labels = []) ∧
    labelFold st.labels (progBindings blks tail) = .ok st'.labels ∧ st'.cursor = none := by
  intro blks
  induction blks with
  | nil =>
    intro tail st st' hc _ ht h
    simp only [List.flatMap_nil, List.nil_append] at h
    obtain ⟨g1, g2, g3⟩ := pass1_gap_conv tail st st' h hc ht
    exact ⟨fun b hb => (by cases hb), g1, by simpa [progBindings] using g2, g3⟩
  | cons b rest ih =>
    intro tail st st' hc hwf ht h
    simp only [List.flatMap_cons, List.append_assoc] at h
    obtain ⟨s1, h1, h2⟩ := foldlM_append_ok2 _ _ _ _ _ h
    obtain ⟨hbw, hbg⟩ := hwf b (by simp)
    obtain ⟨b1, b2, b3, b4, b5⟩ := pass1_block_conv b hbw hbg st s1 hc h1
    obtain ⟨r1, r2, r3, r4⟩ := ih tail s1 st' b5 (fun x hx => hwf x (by simp [hx])) ht h2
    refine ⟨fun x hx => ?_, r2, ?_, r4⟩
    · rcases List.mem_cons.mp hx with rfl | hx
      · exact ⟨b1, b2, b3⟩
      · exact r1 x hx
    · simp only [progBindings, List.flatMap_cons, List.append_assoc]
      rw [labelFold_append, b4]
      dsimp only
      exact r3

/-- **the first pass accepts a structured program exactly when** no statement outside a block and no `.orig` carries a label,
    every block stays at or below xFE00, and the label bindings made in program order never bind a name to two addresses -/
theorem pass1_iff (blks : List Blk) (tail : List Stmt) (src : Option (List Char))
    (hwf : ∀ b ∈ blks, b.WF ∧ ∀ s ∈ b.gap, isExternal s.nucleus = true) (ht : ∀ s ∈ tail, isExternal s.nucleus = true) :
    (∃ t, pass1 (blks.flatMap Blk.stmts ++ tail) src = .ok t) ↔
    ((∀ b ∈ blks, (∀ s ∈ b.gap, s.labels = []) ∧ b.origS.labels = [] ∧ BodyFits b.a.toNat b.body) ∧ (∀ s ∈ tail, s.labels = []) ∧
     ∃ m, labelFold [] (progBindings blks tail) = .ok m) := by
  constructor
  · rintro ⟨t, h⟩
    unfold pass1 at h
    cases hf : (blks.flatMap Blk.stmts ++ tail).foldlM pass1Step (p1Init src) with
    | error e => rw [hf] at h; cases h
    | ok st =>
      obtain ⟨r1, r2, r3, _⟩ := pass1_blocks_conv blks tail (p1Init src) st rfl hwf ht hf
      exact ⟨r1, r2, st.labels, r3⟩
  · rintro ⟨h1, h2, h3⟩
    exact pass1_accepts blks tail src
      (fun b hb => ⟨(hwf b hb).1, fun s hs => ⟨(hwf b hb).2 s hs, (h1 b hb).1 s hs⟩, (h1 b hb).2.1, (h1 b hb).2.2⟩)
      (fun s hs => ⟨ht s hs, h2 s hs⟩) h3

end Lc3V
