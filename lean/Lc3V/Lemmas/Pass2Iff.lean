/- Lemmas/Pass2Iff.lean — the second pass succeeds exactly when every statement's words can be produced and the non-empty
   blocks are pairwise disjoint. -/
import Lc3V.Lemmas.Disjoint
set_option linter.unusedSimpArgs false
set_option linter.unusedVariables false
namespace Lc3V

/-- converse of `pass2Step_body` -/
theorem pass2Step_body_conv (t : SymTab) (done : List ObjBlock) (lc : W) (b : ObjBlock) (s : Stmt) (ws : List (Option W))
    (hk : isOrigEnd s.nucleus = false) (h : stmtWords t lc s = .ok ws) :
    pass2Step t ⟨done, some (lc, b)⟩ s = .ok ⟨done, some (lc + s.nucleus.wordLen, { b with words := b.words ++ ws })⟩ := by
  unfold stmtWords at h
  unfold pass2Step
  cases hn : s.nucleus with
  | instr i =>
    rw [hn] at h
    dsimp only at h ⊢
    cases hi : intoSimInstr i (lc + 1) t with
    | error e => rw [hi] at h; cases h
    | ok si => rw [hi] at h; cases h; rfl
  | directive d =>
    rw [hn] at h hk
    cases d with
    | orig a => cases hk
    | end_ => cases hk
    | external l => cases h; simp [StmtKind.wordLen, Directive.wordLen]
    | fill v => dsimp only at h ⊢; rw [h]; rfl
    | blkw n => dsimp only at h ⊢; rw [h]; rfl
    | stringz x => dsimp only at h ⊢; rw [h]; rfl

theorem pass2_body_conv (t : SymTab) (done : List ObjBlock) : ∀ (body : List Stmt) (lc : W) (b : ObjBlock) (ws : List (Option W)),
    (∀ s ∈ body, isOrigEnd s.nucleus = false) → bodyWords t lc body = .ok ws →
    ∃ lc', body.foldlM (pass2Step t) ⟨done, some (lc, b)⟩ = .ok ⟨done, some (lc', { b with words := b.words ++ ws })⟩ := by
  intro body
  induction body with
  | nil =>
    intro lc b ws _ h
    simp only [bodyWords] at h
    cases h
    refine ⟨lc, ?_⟩
    simp only [List.foldlM_nil, List.append_nil]
    rfl
  | cons s rest ih =>
    intro lc b ws hk h
    simp only [bodyWords] at h
    cases hs : stmtWords t lc s with
    | error e => rw [hs] at h; cases h
    | ok w1 =>
      rw [hs] at h
      cases hr : bodyWords t (lc + s.nucleus.wordLen) rest with
      | error e => rw [hr] at h; cases h
      | ok w2 =>
        rw [hr] at h
        cases h
        obtain ⟨lc', h2⟩ := ih (lc + s.nucleus.wordLen) { b with words := b.words ++ w1 } w2 (fun x hx => hk x (by simp [hx])) hr
        refine ⟨lc', ?_⟩
        rw [List.foldlM_cons, pass2Step_body_conv t done lc b s w1 (hk s (by simp)) hs]
        simp only [bind, Except.bind]
        rw [h2]
        simp

theorem pass2_gap_conv (t : SymTab) (st : P2) : ∀ (gap : List Stmt), (∀ s ∈ gap, isExternal s.nucleus = true) →
    gap.foldlM (pass2Step t) st = .ok st := by
  intro gap
  induction gap with
  | nil => intro _; rfl
  | cons s rest ih =>
    intro hk
    have hs : pass2Step t st s = .ok st := by
      have := hk s (by simp)
      unfold pass2Step
      cases hn : s.nucleus with
      | instr i => rw [hn] at this; cases this
      | directive d => cases d <;> first | rfl | (rw [hn] at this; cases this)
    rw [List.foldlM_cons, hs]
    exact ih (fun x hx => hk x (by simp [hx]))

theorem foldlM_append_of_ok {σ : Type} (f : σ → Stmt → ARes σ) (pre post : List Stmt) (s0 s1 : σ)
    (h : pre.foldlM f s0 = .ok s1) : (pre ++ post).foldlM f s0 = post.foldlM f s1 := by
  induction pre generalizing s0 with
  | nil => simp only [List.foldlM_nil] at h; cases h; rfl
  | cons x xs ih =>
    simp only [List.cons_append, List.foldlM_cons] at h ⊢
    cases hx : f s0 x with
    | error e => rw [hx] at h; cases h
    | ok s' => rw [hx] at h; exact ih s' h

/-- the block `b` (with words `ws`) does not overlap any finished block -/
def Clear (done : List ObjBlock) (a : W) (n : Nat) : Prop :=
  ∀ x ∈ done, rangesOverlap a.toNat (a.toNat + n) x.start.toNat x.stop = false

/-- one block of the source is accepted when its words can be produced and (if there are any) they overlap no finished block -/
theorem pass2_block_conv (t : SymTab) (done : List ObjBlock) (b : Blk) (hb : b.WF) (hext : ∀ s ∈ b.gap, isExternal s.nucleus = true)
    (ws : List (Option W)) (hws : bodyWords t b.a b.body = .ok ws) (hclear : ws ≠ [] → Clear done b.a ws.length) :
    b.stmts.foldlM (pass2Step t) ⟨done, none⟩ = .ok ⟨addBlk t done b, none⟩ := by
  unfold Blk.stmts
  rw [foldlM_append_of_ok _ _ _ _ _ (pass2_gap_conv t ⟨done, none⟩ b.gap hext)]
  rw [List.foldlM_cons]
  have ho : pass2Step t ⟨done, none⟩ b.origS = .ok ⟨done, some (b.a, ⟨b.a, [], b.origS.span⟩)⟩ := by
    unfold pass2Step; rw [hb.orig]
  rw [ho]
  simp only [bind, Except.bind]
  obtain ⟨lc', hbody⟩ := pass2_body_conv t done b.body b.a ⟨b.a, [], b.origS.span⟩ ws hb.body hws
  rw [foldlM_append_of_ok _ _ _ _ _ hbody]
  simp only [List.foldlM_cons, List.foldlM_nil, List.nil_append]
  unfold pass2Step
  rw [hb.end_]
  dsimp only
  unfold addBlk
  rw [hws]
  by_cases he : ws.isEmpty = true
  · simp only [he, if_true]; rfl
  · have hne : ws ≠ [] := fun e => by rw [e] at he; exact he rfl
    simp only [he, Bool.false_eq_true, if_false]
    have hfind : (neighbours done b.a).find? (fun x => rangesOverlap b.a.toNat (ObjBlock.stop ⟨b.a, ws, b.origS.span⟩) x.start.toNat x.stop) = none := by
      apply List.find?_eq_none.mpr
      intro x hx
      have hxd : x ∈ done := by
        unfold neighbours at hx
        rcases List.mem_append.mp hx with h | h
        · have : x ∈ done.filter _ := List.mem_of_getLast? (by simpa using h)
          exact (List.mem_filter.mp this).1
        · exact List.mem_of_find?_eq_some (by simpa using h)
      have := hclear hne x hxd
      simp only [ObjBlock.stop] at this ⊢
      simp [this]
    rw [hfind]
    rfl

/-- the later block `b2` (if non-empty) does not overlap the earlier block `b1` (if non-empty) -/
def BlkClear (t : SymTab) (b1 b2 : Blk) : Prop :=
  ∀ ws1 ws2, bodyWords t b1.a b1.body = .ok ws1 → bodyWords t b2.a b2.body = .ok ws2 → ws1 ≠ [] → ws2 ≠ [] →
    rangesOverlap b2.a.toNat (b2.a.toNat + ws2.length) b1.a.toNat (b1.a.toNat + ws1.length) = false

theorem mem_addBlk (t : SymTab) (done : List ObjBlock) (b : Blk) (x : ObjBlock) (hx : x ∈ addBlk t done b) :
    x ∈ done ∨ ∃ ws, bodyWords t b.a b.body = .ok ws ∧ ws ≠ [] ∧ x = ⟨b.a, ws, b.origS.span⟩ := by
  unfold addBlk at hx
  cases hw : bodyWords t b.a b.body with
  | error e => rw [hw] at hx; exact Or.inl hx
  | ok ws =>
    rw [hw] at hx
    by_cases he : ws.isEmpty = true
    · simp only [he, if_true] at hx; exact Or.inl hx
    · simp only [he, Bool.false_eq_true, if_false] at hx
      rcases mem_insertBlock _ _ x hx with rfl | hx
      · exact Or.inr ⟨ws, rfl, fun e => by rw [e] at he; exact he rfl, rfl⟩
      · exact Or.inl hx

/-- **the second pass accepts** a structured program whenever every block's words can be produced and no non-empty block
    overlaps an earlier non-empty one -/
theorem pass2_accepts (t : SymTab) : ∀ (blks : List Blk) (done : List ObjBlock) (tail : List Stmt),
    (∀ b ∈ blks, b.WF ∧ ∀ s ∈ b.gap, isExternal s.nucleus = true) → (∀ s ∈ tail, isExternal s.nucleus = true) →
    (∀ b ∈ blks, ∃ ws, bodyWords t b.a b.body = .ok ws) → blks.Pairwise (BlkClear t) →
    (∀ b ∈ blks, ∀ ws, bodyWords t b.a b.body = .ok ws → ws ≠ [] → Clear done b.a ws.length) →
    (blks.flatMap Blk.stmts ++ tail).foldlM (pass2Step t) ⟨done, none⟩ = .ok ⟨blks.foldl (addBlk t) done, none⟩ := by
  intro blks
  induction blks with
  | nil =>
    intro done tail _ ht _ _ _
    simp only [List.flatMap_nil, List.nil_append, List.foldl_nil]
    exact pass2_gap_conv t ⟨done, none⟩ tail ht
  | cons b rest ih =>
    intro done tail hwf ht hws hpw hclear
    obtain ⟨ws, hw⟩ := hws b (by simp)
    have hb := hwf b (by simp)
    have hblock := pass2_block_conv t done b hb.1 hb.2 ws hw (hclear b (by simp) ws hw)
    simp only [List.flatMap_cons, List.append_assoc, List.foldl_cons]
    rw [foldlM_append_of_ok _ _ _ _ _ hblock]
    have hpw' := List.pairwise_cons.mp hpw
    refine ih (addBlk t done b) tail (fun x hx => hwf x (by simp [hx])) ht (fun x hx => hws x (by simp [hx])) hpw'.2 ?_
    intro b2 hb2 ws2 hw2 hne2 x hx
    rcases mem_addBlk t done b x hx with hx | ⟨ws1, hw1, hne1, rfl⟩
    · exact hclear b2 (by simp [hb2]) ws2 hw2 hne2 x hx
    · exact hpw'.1 b2 hb2 ws1 ws2 hw1 hw2 hne1 hne2

theorem doneInv_of_2 (done : List ObjBlock) (h : DoneInv2 done) : DoneInv done := by
  refine ⟨?_, h.2⟩
  have hne : ∀ y ∈ done, y.start.toNat < y.stop := by
    intro y hy
    have := List.length_pos_iff.mpr (h.2 y hy)
    unfold ObjBlock.stop; omega
  have : ∀ (l : List ObjBlock), l.Pairwise Before → (∀ y ∈ l, y.start.toNat < y.stop) → l.Pairwise (fun x y => x.start.toNat < y.start.toNat) := by
    intro l
    induction l with
    | nil => intro _ _; exact List.Pairwise.nil
    | cons z zs ih =>
      intro hp hn
      have hz := List.pairwise_cons.mp hp
      refine List.pairwise_cons.mpr ⟨fun y hy => ?_, ih hz.2 (fun y hy => hn y (by simp [hy]))⟩
      have h1 := hz.1 y hy
      have h2 := hn z (by simp)
      unfold Before at h1
      omega
  exact this done h.1 hne

/-- **forward direction**: if the second pass accepts a structured program, no non-empty block overlaps an earlier non-empty
    one (and none overlaps a block that was already finished) -/
theorem pass2_accepted_clear (t : SymTab) : ∀ (blks : List Blk) (done : List ObjBlock) (tail : List Stmt) (st' : P2),
    (∀ b ∈ blks, b.WF) → (∀ s ∈ tail, isOrigEnd s.nucleus = false) → DoneInv2 done →
    (blks.flatMap Blk.stmts ++ tail).foldlM (pass2Step t) ⟨done, none⟩ = .ok st' →
    blks.Pairwise (BlkClear t) ∧ (∀ b ∈ blks, ∀ ws, bodyWords t b.a b.body = .ok ws → ws ≠ [] → Clear done b.a ws.length) := by
  intro blks
  induction blks with
  | nil => intro done tail st' _ _ _ _; exact ⟨List.Pairwise.nil, fun b hb => by cases hb⟩
  | cons b rest ih =>
    intro done tail st' hwf ht hd h
    simp only [List.flatMap_cons, List.append_assoc] at h
    obtain ⟨s1, h1, h2⟩ := foldlM_append_ok2 _ _ _ _ _ h
    obtain ⟨ws, hws, hs1, hov, _⟩ := pass2_block t done b (hwf b (by simp)) s1 h1
    subst hs1
    have hov' : ∀ ws', bodyWords t b.a b.body = .ok ws' → ws'.isEmpty = false → (neighbours done b.a).find? (fun x =>
        rangesOverlap b.a.toNat (b.a.toNat + ws'.length) x.start.toNat x.stop) = none := by
      intro ws' hw' he'; rw [hws] at hw'; cases hw'; exact hov he'
    have hd2' := addBlk_inv2 t done b hd hov'
    obtain ⟨_, a2, a3, _⟩ := addBlk_inv t done b (doneInv_of_2 done hd) hov'
    obtain ⟨r1, r2⟩ := ih (addBlk t done b) tail st' (fun x hx => hwf x (by simp [hx])) ht hd2' h2
    -- this block against the finished ones
    have hb_clear : ∀ ws', bodyWords t b.a b.body = .ok ws' → ws' ≠ [] → Clear done b.a ws'.length := by
      intro ws' hw' hne' x hx
      have he' : ws'.isEmpty = false := by cases ws' with | nil => exact absurd rfl hne' | cons _ _ => rfl
      have hall := all_disjoint_of_neighbours done hd b.a ws'.length (List.length_pos_iff.mpr hne') (hov' ws' hw' he') x hx
      simp only [rangesOverlap, Bool.and_eq_false_iff, decide_eq_false_iff_not, Nat.not_lt]
      rcases hall with h | h
      · exact Or.inl h
      · exact Or.inr h
    refine ⟨List.pairwise_cons.mpr ⟨fun b2 hb2 => ?_, r1⟩, fun b' hb' => ?_⟩
    · intro ws1 ws2 hw1 hw2 hne1 hne2
      have hmem := a3 ws1 hw1 hne1
      have := r2 b2 hb2 ws2 hw2 hne2 _ hmem
      simpa [ObjBlock.stop] using this
    · rcases List.mem_cons.mp hb' with rfl | hb'
      · exact hb_clear
      · intro ws' hw' hne' x hx
        exact r2 b' hb' ws' hw' hne' x (a2 x hx)

end Lc3V
