/- Lemmas/PrintAtoms.lean — every piece the printer writes is an atom that lexes back to its token. -/
import Lc3V.Lemmas.LexAtoms
import Lc3V.Lemmas.PrintLex
import Lc3V.Lemmas.Escape
import Lc3V.Props.C05
set_option linter.unusedSimpArgs false
namespace Lc3V

theorem intDec_nonneg (i : Int) (h : 0 ≤ i) : intDec i = natDigits i.toNat := by
  obtain ⟨m, rfl⟩ := Int.eq_ofNat_of_zero_le h
  rfl

theorem intDec_neg (i : Int) (h : i < 0) : intDec i = '-' :: natDigits (-i).toNat := by
  obtain ⟨m, rfl⟩ := Int.eq_negSucc_of_lt_zero h
  unfold intDec natDigits
  show (("-" ++ toString (m + 1) : String)).toList = _
  rw [String.toList_append]
  rfl

/-! ### commas, mnemonics -/

def commaAtom : Atom := ⟨[','], .comma, true⟩

theorem commaAtom_ok : commaAtom.Ok := by
  refine ⟨⟨',', [], rfl, by decide, by decide⟩, ?_⟩
  intro rest _
  simp [commaAtom, lexOne]

/-- everything `lexOne_ident` / `lexOne_ident_r` needs to know about a word that is a keyword spelling -/
def kwSpellingOk (cs : List Char) (k : Kw) : Bool :=
  match cs with
  | [] => false
  | c :: w =>
    ((97 ≤ c.toNat && c.toNat ≤ 122) || (65 ≤ c.toNat && c.toNat ≤ 90) || c.toNat == 95) &&
    w.all isWordC && (Ident.ofText (c :: w) == .kw k) && c != 'x' && c != 'X' &&
    (if c == 'R' || c == 'r' then !(!w.isEmpty && w.all isDigitC) else true) && c != ' ' && c != '\t'

theorem kw_lex (cs : List Char) (k : Kw) (h : kwSpellingOk cs k = true) (rest : List Char) (hr : EndsWord rest) :
    lexOne (cs ++ rest) = ⟨.ok (.ident (.kw k)), cs.length⟩ := by
  cases cs with
  | nil => simp [kwSpellingOk] at h
  | cons c w =>
    simp only [kwSpellingOk, Bool.and_eq_true, Bool.or_eq_true, decide_eq_true_eq, beq_iff_eq, bne_iff_ne, ne_eq] at h
    obtain ⟨⟨⟨⟨⟨⟨⟨hstart, hw⟩, hid⟩, hx1⟩, hx2⟩, hr'⟩, _⟩, _⟩ := h
    have hstart' : IsIdStart c := by
      rcases hstart with (⟨a, b⟩ | ⟨a, b⟩) | a
      · exact Or.inl ⟨a, b⟩
      · exact Or.inr (Or.inl ⟨a, b⟩)
      · exact Or.inr (Or.inr a)
    have hww : ∀ x ∈ w, isWordC x = true := List.all_eq_true.mp hw
    rw [List.cons_append]
    by_cases hR : c = 'R' ∨ c = 'r'
    · rw [if_pos hR] at hr'
      simp only [Bool.not_eq_true', Bool.and_eq_false_iff, Bool.not_eq_false'] at hr'
      rw [lexOne_ident_r c w rest hR (by
        intro hh
        rcases hr' with h1 | h1
        · have : w = [] := by simpa using h1
          exact hh.1 this
        · rw [hh.2] at h1; cases h1) hww hr, hid]
      simp [Nat.add_comm]
    · have hne : c ≠ 'R' ∧ c ≠ 'r' := ⟨fun e => hR (Or.inl e), fun e => hR (Or.inr e)⟩
      rw [lexOne_ident c w rest hstart' ⟨hx1, hx2, hne.1, hne.2⟩ hww hr, hid]
      simp [Nat.add_comm]

def kwAtom (k : Kw) (blank : Bool) : Atom := ⟨k.name.toList, .ident (.kw k), blank⟩

theorem kw_names_ok : ∀ k ∈ Kw.all, kwSpellingOk k.name.toList k = true := by decide +kernel

theorem kw_all (k : Kw) : k ∈ Kw.all := by cases k <;> decide

theorem kwAtom_ok (k : Kw) (blank : Bool) : (kwAtom k blank).Ok := by
  have h := kw_names_ok k (kw_all k)
  refine ⟨?_, fun rest hr => kw_lex _ k h rest hr.endsWord⟩
  cases hc : k.name.toList with
  | nil => rw [hc] at h; simp [kwSpellingOk] at h
  | cons c w =>
    rw [hc] at h
    simp only [kwSpellingOk, Bool.and_eq_true, bne_iff_ne, ne_eq] at h
    exact ⟨c, w, by simp [kwAtom, hc], h.1.2, h.2⟩

/-- the mnemonic `Display` writes for a branch with condition code `cc` (1–7) and the keyword it denotes -/
def brSpelling (cc : BitVec 3) : List Char :=
  "BR".toList ++ (if cc.getLsbD 2 then ['n'] else []) ++ (if cc.getLsbD 1 then ['z'] else []) ++ (if cc.getLsbD 0 then ['p'] else [])

def brKw (cc : BitVec 3) : Kw :=
  if cc = 1 then .BRP else if cc = 2 then .BRZ else if cc = 3 then .BRZP else if cc = 4 then .BRN else if cc = 5 then .BRNP
  else if cc = 6 then .BRNZ else .BRNZP

theorem br_spellings_ok : ∀ n ∈ [1, 2, 3, 4, 5, 6, 7],
    kwSpellingOk (brSpelling (BitVec.ofNat 3 n)) (brKw (BitVec.ofNat 3 n)) = true ∧ brCC (brKw (BitVec.ofNat 3 n)) = some (BitVec.ofNat 3 n) := by
  decide +kernel

/-! ### registers and numbers -/

def regAtom (r : Reg) (blank : Bool) : Atom := ⟨showReg r, .reg r.toNat, blank⟩

theorem regAtom_ok (r : Reg) (blank : Bool) : (regAtom r blank).Ok := by
  refine ⟨⟨'R', natDigits r.toNat, rfl, by decide, by decide⟩, ?_⟩
  intro rest hr
  show lexOne ('R' :: natDigits r.toNat ++ rest) = _
  rw [List.cons_append, C05.token_reg 'R' (natDigits r.toNat) rest (Or.inl rfl) (natDigits_ne_nil _) (natDigits_isDec _) hr.endsWord,
    valOf_natDigits]
  have : r.toNat < 8 := r.isLt
  simp [this, regAtom, showReg, Nat.add_comm]

/-- the token a signed offset is read back as: negative values as a signed token, the others as an unsigned one -/
def sTok {n} (v : BitVec n) : Token := if v.toInt < 0 then .signed v.toInt else .unsigned v.toInt.toNat

def sOffAtom {n} (v : BitVec n) (blank : Bool) : Atom := ⟨showSOff v, sTok v, blank⟩

theorem toInt_bounds16 {n : Nat} (h1 : 1 ≤ n) (h2 : n ≤ 16) (v : BitVec n) : -32768 ≤ v.toInt ∧ v.toInt ≤ 32767 := by
  have hpN : 2 ^ (n - 1) ≤ 2 ^ 15 := Nat.pow_le_pow_right (by omega) (by omega)
  have hpn : ((2 ^ (n - 1) : Nat) : Int) = (2:Int) ^ (n - 1) := by push_cast; rfl
  have hb : 2 * v.toInt < 2 ^ n := BitVec.two_mul_toInt_lt
  have hb' : -(2:Int) ^ n ≤ 2 * v.toInt := BitVec.le_two_mul_toInt
  have e2 : (2:Int) ^ n = 2 * 2 ^ (n - 1) := by
    have : n = (n - 1) + 1 := by omega
    rw [this, Int.pow_succ]; simp; omega
  omega

theorem sOffAtom_ok {n : Nat} (h1 : 1 ≤ n) (h2 : n ≤ 16) (v : BitVec n) (blank : Bool) : (sOffAtom v blank).Ok := by
  have hb := toInt_bounds16 h1 h2 v
  refine ⟨⟨'#', intDec v.toInt, rfl, by decide, by decide⟩, ?_⟩
  intro rest hr
  have hrw := hr.endsWord
  show lexOne (showSOff v ++ rest) = ⟨.ok (sTok v), (showSOff v).length⟩
  unfold showSOff sTok
  by_cases hneg : v.toInt < 0
  · have hds := natDigits_isDec (-v.toInt).toNat
    have hall : allDigits 10 (natDigits (-v.toInt).toNat) := fun x hx => IsDec.digit10 (hds x hx)
    rw [if_pos hneg, intDec_neg _ hneg, List.cons_append, List.cons_append,
      lexOne_hashminus _ rest (fun x hx => IsDec.word (hds x hx)) hrw,
      (C05.signed_dec _ (natDigits_ne_nil _) hall).2, valOf_natDigits]
    have : (-v.toInt).toNat ≤ 32768 := by omega
    rw [if_pos this]
    have : -(((-v.toInt).toNat : Nat) : Int) = v.toInt := by omega
    rw [this]
    simp only [List.length_cons]; congr 1; omega
  · have hnn : 0 ≤ v.toInt := by omega
    have hds := natDigits_isDec v.toInt.toNat
    have hall : allDigits 10 (natDigits v.toInt.toNat) := fun x hx => IsDec.digit10 (hds x hx)
    obtain ⟨d, ds, hdd⟩ : ∃ d ds, natDigits v.toInt.toNat = d :: ds := by
      cases hnd : natDigits v.toInt.toNat with
      | nil => exact absurd hnd (natDigits_ne_nil _)
      | cons d ds => exact ⟨d, ds, rfl⟩
    rw [if_neg hneg, intDec_nonneg _ hnn]
    rw [hdd] at hds
    rw [hdd, List.cons_append, List.cons_append,
      lexOne_hash d ds rest (IsDec.word (hds d (by simp))) (fun x hx => IsDec.word (hds x (by simp [hx]))) hrw,
      ← hdd, (C05.unsigned_dec _ (natDigits_ne_nil _) hall).2, valOf_natDigits]
    have : v.toInt.toNat ≤ 65535 := by omega
    rw [if_pos this, hdd]
    simp only [List.length_cons]; congr 1; omega

def uOffAtom {n} (v : BitVec n) (blank : Bool) : Atom := ⟨showUOff v, .unsigned v.toNat, blank⟩

theorem uOffAtom_ok {n : Nat} (h2 : n ≤ 16) (v : BitVec n) (blank : Bool) : (uOffAtom v blank).Ok := by
  have hlt : v.toNat < 2 ^ n := v.isLt
  have hle : 2 ^ n ≤ 2 ^ 16 := Nat.pow_le_pow_right (by omega) h2
  have hv : v.toNat ≤ 65535 := by omega
  refine ⟨⟨'#', natDigits v.toNat, rfl, by decide, by decide⟩, ?_⟩
  intro rest hr
  have hrw := hr.endsWord
  show lexOne (showUOff v ++ rest) = ⟨.ok (.unsigned v.toNat), (showUOff v).length⟩
  obtain ⟨d, ds, hds⟩ : ∃ d ds, natDigits v.toNat = d :: ds := by
    cases hnd : natDigits v.toNat with
    | nil => exact absurd hnd (natDigits_ne_nil _)
    | cons d ds => exact ⟨d, ds, rfl⟩
  have hdec := natDigits_isDec v.toNat
  have hall : allDigits 10 (natDigits v.toNat) := fun x hx => IsDec.digit10 (hdec x hx)
  unfold showUOff
  rw [hds] at hdec
  rw [hds, List.cons_append, List.cons_append,
    lexOne_hash d ds rest (IsDec.word (hdec d (by simp))) (fun x hx => IsDec.word (hdec x (by simp [hx]))) hrw,
    ← hds, (C05.unsigned_dec _ (natDigits_ne_nil _) hall).2, valOf_natDigits, if_pos hv, hds]
  simp only [List.length_cons]; congr 1; omega

/-! ### hexadecimal (TRAP vectors, .orig addresses) -/

theorem hexDigit_upper : ∀ d : Fin 16,
    toDigit (hexDigitU d.val) 16 = some d.val ∧ isWordC (hexDigitU d.val) = true ∧ isHexStart (hexDigitU d.val) = true := by decide

theorem go_spec_u : ∀ (fuel v : Nat) (acc : List Char), v < 16 ^ fuel →
    (∀ c ∈ acc, (toDigit c 16).isSome = true ∧ isWordC c = true ∧ isHexStart c = true) →
    (∀ c ∈ hexUpper.go fuel v acc, (toDigit c 16).isSome = true ∧ isWordC c = true ∧ isHexStart c = true) ∧
    valFrom 16 (hexUpper.go fuel v acc) 0 = v * 16 ^ acc.length + valFrom 16 acc 0 ∧
    (v ≠ 0 → acc.length < (hexUpper.go fuel v acc).length) := by
  intro fuel
  induction fuel with
  | zero =>
    intro v acc hv hacc
    have : v = 0 := by simpa using hv
    subst this
    refine ⟨hacc, by simp [hexUpper.go], fun h => absurd rfl h⟩
  | succ fuel ih =>
    intro v acc hv hacc
    unfold hexUpper.go
    by_cases h0 : v = 0
    · subst h0; simp only [if_true]; refine ⟨hacc, by simp, fun h => absurd rfl h⟩
    · rw [if_neg h0]
      have hd := hexDigit_upper ⟨v % 16, Nat.mod_lt _ (by omega)⟩
      simp only at hd
      have hv' : v / 16 < 16 ^ fuel := by rw [Nat.pow_succ] at hv; omega
      have hacc' : ∀ c ∈ hexDigitU (v % 16) :: acc, (toDigit c 16).isSome = true ∧ isWordC c = true ∧ isHexStart c = true := by
        intro c hc
        rcases List.mem_cons.mp hc with rfl | hc
        · exact ⟨by rw [hd.1]; rfl, hd.2.1, hd.2.2⟩
        · exact hacc c hc
      obtain ⟨i1, i2, i4⟩ := ih (v / 16) (hexDigitU (v % 16) :: acc) hv' hacc'
      refine ⟨i1, ?_, ?_⟩
      · rw [i2]
        simp only [List.length_cons, valFrom, Nat.zero_mul, Nat.zero_add]
        rw [Txt.valFrom_acc 16 _ (digitOf 16 _)]
        have hdig : digitOf 16 (hexDigitU (v % 16)) = v % 16 := by unfold digitOf; rw [hd.1]; rfl
        rw [hdig, Nat.pow_succ]
        have := Nat.div_add_mod v 16
        generalize 16 ^ acc.length = P at *
        have e : v / 16 * (P * 16) + v % 16 * P = (16 * (v / 16) + v % 16) * P := by
          rw [Nat.add_mul]; congr 1; rw [Nat.mul_comm P 16, ← Nat.mul_assoc, Nat.mul_comm (v / 16) 16]
        rw [← Nat.add_assoc, e, this]
      · intro _
        by_cases hz : v / 16 = 0
        · rw [hz]; cases fuel <;> simp [hexUpper.go]
        · have := i4 hz; simp only [List.length_cons] at this; omega

theorem valFrom_zeros (k : Nat) (ds : List Char) : valFrom 16 (List.replicate k '0' ++ ds) 0 = valFrom 16 ds 0 := by
  induction k with
  | zero => rfl
  | succ k ih =>
    simp only [List.replicate_succ, List.cons_append, valFrom]
    have : digitOf 16 '0' = 0 := by decide
    rw [this]; exact ih

/-- `{:0wX}` for a value below 16^16: non-empty, hex digits only (word characters that may follow `x`), reads back as the value -/
theorem hexUpper_spec (w v : Nat) (hv : v < 16 ^ 16) :
    (∀ c ∈ hexUpper w v, (toDigit c 16).isSome = true ∧ isWordC c = true ∧ isHexStart c = true) ∧
    valFrom 16 (hexUpper w v) 0 = v ∧ hexUpper w v ≠ [] := by
  unfold hexUpper
  dsimp only
  have hz : (toDigit '0' 16).isSome = true ∧ isWordC '0' = true ∧ isHexStart '0' = true := by decide
  by_cases h0 : v = 0
  · subst h0
    simp only [if_true]
    refine ⟨?_, ?_, by simp⟩
    · intro c hc
      rcases List.mem_append.mp hc with h | h
      · rw [List.mem_replicate] at h; rw [h.2]; exact hz
      · simp only [List.mem_singleton] at h; rw [h]; exact hz
    · rw [valFrom_zeros]; decide
  · rw [if_neg h0]
    obtain ⟨i1, i2, i4⟩ := go_spec_u 16 v [] hv (by intro c hc; cases hc)
    refine ⟨?_, ?_, ?_⟩
    · intro c hc
      rcases List.mem_append.mp hc with h | h
      · rw [List.mem_replicate] at h; rw [h.2]; exact hz
      · exact i1 c h
    · rw [valFrom_zeros, i2]; simp [valFrom]
    · intro h
      have := i4 h0
      rw [List.append_eq_nil_iff] at h
      rw [h.2] at this; simp at this

def hexAtom (w : Nat) (v : Nat) (blank : Bool) : Atom := ⟨'x' :: hexUpper w v, .unsigned v, blank⟩

theorem hexAtom_ok (w v : Nat) (hv : v ≤ 65535) (blank : Bool) : (hexAtom w v blank).Ok := by
  obtain ⟨hall, hval, hne⟩ := hexUpper_spec w v (by omega)
  refine ⟨⟨'x', hexUpper w v, rfl, by decide, by decide⟩, ?_⟩
  intro rest hr
  obtain ⟨d, ds, hds⟩ : ∃ d ds, hexUpper w v = d :: ds := by
    cases h : hexUpper w v with
    | nil => exact absurd h hne
    | cons d ds => exact ⟨d, ds, rfl⟩
  show lexOne ('x' :: hexUpper w v ++ rest) = ⟨.ok (.unsigned v), ('x' :: hexUpper w v).length⟩
  have hd := hall d (by rw [hds]; simp)
  rw [hds, List.cons_append, List.cons_append,
    lexOne_hex 'x' d ds rest (Or.inl rfl) hd.2.2 hd.2.1 (fun c hc => (hall c (by rw [hds]; simp [hc])).2.1) hr.endsWord, ← hds,
    C05.unsigned_hex 'x' (hexUpper w v) hne (fun c hc => (hall c hc).1)]
  have : valOf 16 (hexUpper w v) = v := hval
  rw [this, if_pos hv, hds]
  simp only [List.length_cons]; congr 1; omega

/-! ### directives and string literals -/

def dirAtom (name : List Char) (blank : Bool) : Atom := ⟨'.' :: name, .directive name, blank⟩

theorem dirAtom_ok (name : List Char) (hw : ∀ c ∈ name, isWordC c = true) (blank : Bool) : (dirAtom name blank).Ok := by
  refine ⟨⟨'.', name, rfl, by decide, by decide⟩, ?_⟩
  intro rest hr
  show lexOne ('.' :: name ++ rest) = _
  rw [List.cons_append, lexOne_directive name rest hw hr.endsWord]
  simp [dirAtom, Nat.add_comm]

def strAtom (s : List Char) : Atom := ⟨showStrDebug s, .string s, false⟩

theorem strAtom_ok (s : List Char) (h : ∀ c ∈ s, StrOk c) (hlen : blen s < 65535) : (strAtom s).Ok := by
  refine ⟨⟨'"', escStr s ++ ['"'], rfl, by decide, by decide⟩, ?_⟩
  intro rest _
  show lexOne (showStrDebug s ++ rest) = ⟨.ok (.string s), (showStrDebug s).length⟩
  have e : showStrDebug s ++ rest = '"' :: (escStr s ++ '"' :: rest) := by simp [showStrDebug, escStr]
  rw [e, lexOne_string s rest h, if_pos hlen]
  simp [showStrDebug, escStr]; omega

/-! ### labels -/

/-- a label as the lexer can produce it: an identifier that is not a keyword, not of the `x<hex>` or `R<digits>` shapes -/
def labelOk (cs : List Char) : Bool :=
  match cs with
  | [] => false
  | c :: w =>
    ((97 ≤ c.toNat && c.toNat ≤ 122) || (65 ≤ c.toNat && c.toNat ≤ 90) || c.toNat == 95) &&
    w.all isWordC && (Ident.ofText (c :: w) == .label (c :: w)) &&
    (if c == 'x' || c == 'X' then (match w with | [] => true | d :: _ => !isHexStart d) else true) &&
    (if c == 'R' || c == 'r' then !(!w.isEmpty && w.all isDigitC) else true)

/-- `x`/`X` followed by word characters that do not start with a hex digit, then a delimiter: an identifier -/
theorem lexOne_ident_x (x : Char) (w rest : List Char) (hx : x = 'x' ∨ x = 'X') (hw : ∀ c ∈ w, isWordC c = true)
    (hh : match w with | [] => True | d :: _ => isHexStart d = false) (hr : Delim rest) :
    lexOne (x :: (w ++ rest)) = ⟨.ok (.ident (Ident.ofText (x :: w))), 1 + w.length⟩ := by
  have hs := spanW_append w rest hw hr.endsWord
  cases w with
  | nil =>
    simp only [List.nil_append] at hs ⊢
    rcases hr with rfl | ⟨d, r, rfl, hm⟩
    · rcases hx with rfl | rfl <;> simp (config := {decide := true}) [lexOne]
    · obtain ⟨f1, f2, f3⟩ := delimChar_facts d hm
      rcases hx with rfl | rfl <;>
      · unfold lexOne
        simp (config := {decide := true}) only [if_false, if_true, show isDigitC 'x' = false by decide, show isDigitC 'X' = false by decide, true_or, or_true]
        rw [if_neg (by simp [f3]), hs]
  | cons d w' =>
    have hd : isHexStart d = false := hh
    have hdw : isWordC d = true := hw d (by simp)
    have n1 : d ≠ '-' := by intro e; subst e; rw [not_word_minus] at hdw; cases hdw
    simp only [List.cons_append] at hs ⊢
    rcases hx with rfl | rfl <;>
    · unfold lexOne
      simp (config := {decide := true}) only [if_false, if_true, show isDigitC 'x' = false by decide, show isDigitC 'X' = false by decide, true_or, or_true]
      rw [if_neg (by simp [hd]), hs]

def labelAtom (name : List Char) (blank : Bool) : Atom := ⟨name, .ident (.label name), blank⟩

theorem labelAtom_ok (name : List Char) (h : labelOk name = true) (blank : Bool) : (labelAtom name blank).Ok := by
  cases name with
  | nil => simp [labelOk] at h
  | cons c w =>
    simp only [labelOk, Bool.and_eq_true, Bool.or_eq_true, decide_eq_true_eq, beq_iff_eq] at h
    obtain ⟨⟨⟨⟨hstart, hw⟩, hid⟩, hxc⟩, hrc⟩ := h
    have hstart' : IsIdStart c := by
      rcases hstart with (⟨a, b⟩ | ⟨a, b⟩) | a
      · exact Or.inl ⟨a, b⟩
      · exact Or.inr (Or.inl ⟨a, b⟩)
      · exact Or.inr (Or.inr a)
    have hww : ∀ x ∈ w, isWordC x = true := List.all_eq_true.mp hw
    have hns : c ≠ ' ' ∧ c ≠ '\t' := by
      constructor <;> (intro e; subst e; rcases hstart' with h | h | h <;> simp at h)
    refine ⟨⟨c, w, rfl, hns.1, hns.2⟩, ?_⟩
    intro rest hr
    show lexOne (c :: w ++ rest) = ⟨.ok (.ident (.label (c :: w))), (c :: w).length⟩
    rw [List.cons_append]
    by_cases hX : c = 'x' ∨ c = 'X'
    · rw [if_pos hX] at hxc
      rw [lexOne_ident_x c w rest hX hww (by cases w with | nil => trivial | cons d _ => simpa using hxc) hr, hid]
      simp [Nat.add_comm]
    · have hnx : c ≠ 'x' ∧ c ≠ 'X' := ⟨fun e => hX (Or.inl e), fun e => hX (Or.inr e)⟩
      by_cases hR : c = 'R' ∨ c = 'r'
      · rw [if_pos hR] at hrc
        simp only [Bool.not_eq_true', Bool.and_eq_false_iff, Bool.not_eq_false'] at hrc
        rw [lexOne_ident_r c w rest hR (by
          intro hh
          rcases hrc with h1 | h1
          · have : w = [] := by simpa using h1
            exact hh.1 this
          · rw [hh.2] at h1; cases h1) hww hr.endsWord, hid]
        simp [Nat.add_comm]
      · have hne : c ≠ 'R' ∧ c ≠ 'r' := ⟨fun e => hR (Or.inl e), fun e => hR (Or.inr e)⟩
        rw [lexOne_ident c w rest hstart' ⟨hnx.1, hnx.2, hne.1, hne.2⟩ hww hr.endsWord, hid]
        simp [Nat.add_comm]

theorem ofText_label (s t : List Char) (h : Ident.ofText s = .label t) : t = s ∧ Ident.ofText s = .label s := by
  unfold Ident.ofText at h ⊢
  split at h
  · cases h
  · cases h; exact ⟨rfl, rfl⟩

theorem takeWhile_all_word (l : List Char) : ∀ c ∈ l.takeWhile isWordC, isWordC c = true := by
  induction l with
  | nil => intro c hc; cases hc
  | cons x xs ih =>
    intro c hc
    by_cases hx : isWordC x = true
    · rw [List.takeWhile_cons_of_pos hx] at hc
      rcases List.mem_cons.mp hc with rfl | h
      · exact hx
      · exact ih c h
    · rw [List.takeWhile_cons_of_neg hx] at hc; cases hc

/-- every label token the lexer produces satisfies `labelOk`: printing it and lexing again gives the same token -/
theorem lexOne_label_ok (cs : List Char) (s : List Char) (len : Nat) (h : lexOne cs = ⟨.ok (.ident (.label s)), len⟩) :
    labelOk s = true := by
  cases cs with
  | nil => simp [lexOne] at h
  | cons c rest =>
    unfold lexOne at h
    dsimp only at h
    by_cases h1 : c = ':'; · rw [if_pos h1] at h; cases h
    rw [if_neg h1] at h
    by_cases h2 : c = ','; · rw [if_pos h2] at h; cases h
    rw [if_neg h2] at h
    by_cases h3 : c = '\n'; · rw [if_pos h3] at h; cases h
    rw [if_neg h3] at h
    by_cases h4 : c = '\r'; · rw [if_pos h4] at h; split at h <;> cases h
    rw [if_neg h4] at h
    by_cases h5 : c = ';'; · rw [if_pos h5] at h; cases h
    rw [if_neg h5] at h
    by_cases h6 : c = '.'; · rw [if_pos h6] at h; cases h
    rw [if_neg h6] at h
    by_cases h7 : c = '"'
    · rw [if_pos h7] at h; split at h
      · cases h
      · injection h with hres _; split at hres <;> cases hres
    rw [if_neg h7] at h
    by_cases h8 : c = '#'
    · rw [if_pos h8] at h
      have key : ∀ x, (lexUnsignedDec x ≠ .ok (.ident (.label s))) ∧ (lexSignedDec x ≠ .ok (.ident (.label s))) := by
        intro x; constructor
        · unfold lexUnsignedDec; dsimp only; split <;> simp
        · unfold lexSignedDec; dsimp only; split <;> simp
      split at h <;> (injection h with hres _; first | exact absurd hres (key _).1 | exact absurd hres (key _).2)
    rw [if_neg h8] at h
    by_cases h9 : c = '-'
    · rw [if_pos h9] at h
      have key : ∀ x, lexSignedDec x ≠ .ok (.ident (.label s)) := by
        intro x; unfold lexSignedDec; dsimp only; split <;> simp
      split at h <;> (injection h with hres _; exact absurd hres (key _))
    rw [if_neg h9] at h
    by_cases h10 : isDigitC c = true
    · rw [if_pos h10] at h
      injection h with hres _
      revert hres; unfold lexUnsignedDec; dsimp only; split <;> simp
    rw [if_neg h10] at h
    have hwall : ∀ x ∈ (spanW rest).1, isWordC x = true := by unfold spanW; exact takeWhile_all_word rest
    have finish : ∀ (hstart : (97 ≤ c.toNat ∧ c.toNat ≤ 122 ∨ 65 ≤ c.toNat ∧ c.toNat ≤ 90) ∨ c.toNat = 95)
        (hid : Ident.ofText (c :: (spanW rest).1) = .label s)
        (hxc : (if c = 'x' ∨ c = 'X' then (match (spanW rest).1 with | [] => true | d :: _ => !isHexStart d) else true) = true)
        (hrc : (if c = 'R' ∨ c = 'r' then !(!(spanW rest).1.isEmpty && (spanW rest).1.all isDigitC) else true) = true),
        labelOk s = true := by
      intro hstart hid hxc hrc
      obtain ⟨hs, hid'⟩ := ofText_label _ _ hid
      subst hs
      simp only [labelOk, Bool.and_eq_true, Bool.or_eq_true, decide_eq_true_eq, beq_iff_eq]
      exact ⟨⟨⟨⟨hstart, List.all_eq_true.mpr hwall⟩, hid'⟩, hxc⟩, hrc⟩
    by_cases h11 : c = 'x' ∨ c = 'X'
    · rw [if_pos h11] at h
      have hstart : (97 ≤ c.toNat ∧ c.toNat ≤ 122 ∨ 65 ≤ c.toNat ∧ c.toNat ≤ 90) ∨ c.toNat = 95 := by
        rcases h11 with rfl | rfl <;> decide
      have hrc : (if c = 'R' ∨ c = 'r' then !(!(spanW rest).1.isEmpty && (spanW rest).1.all isDigitC) else true) = true := by
        rw [if_neg (by rcases h11 with rfl | rfl <;> decide)]
      split at h
      · injection h with hres _
        revert hres; unfold lexSignedHex; dsimp only; split <;> simp
      · rename_i d r _
        try dsimp only at h
        split at h
        · injection h with hres _
          revert hres; unfold lexUnsignedHex; dsimp only; split <;> simp
        · rename_i hnh
          injection h with hres _
          injection hres with hres
          injection hres with hres
          have hsp : (∃ t, (spanW (d :: r)).1 = d :: t) ∨ (spanW (d :: r)).1 = [] := by
            unfold spanW
            by_cases hd : isWordC d = true
            · left; rw [List.takeWhile_cons_of_pos hd]; exact ⟨_, rfl⟩
            · right; rw [List.takeWhile_cons_of_neg hd]
          apply finish hstart hres _ hrc
          rw [if_pos h11]
          rcases hsp with ⟨t, he⟩ | he
          · rw [he]; simpa using hnh
          · rw [he]
      · injection h with hres _
        injection hres with hres
        injection hres with hres
        apply finish hstart (by simpa [spanW] using hres) _ hrc
        rw [if_pos h11]; simp [spanW]
    rw [if_neg h11] at h
    have hxc : (if c = 'x' ∨ c = 'X' then (match (spanW rest).1 with | [] => true | d :: _ => !isHexStart d) else true) = true := by
      rw [if_neg h11]
    by_cases h12 : c = 'R' ∨ c = 'r'
    · rw [if_pos h12] at h
      have hstart : (97 ≤ c.toNat ∧ c.toNat ≤ 122 ∨ 65 ≤ c.toNat ∧ c.toNat ≤ 90) ∨ c.toNat = 95 := by
        rcases h12 with rfl | rfl <;> decide
      try dsimp only at h
      split at h
      · injection h with hres _
        revert hres; unfold lexReg; split
        · split <;> simp
        · simp
      · rename_i hnd
        injection h with hres _
        injection hres with hres
        injection hres with hres
        apply finish hstart hres hxc
        rw [if_pos h12]
        simp only [Bool.not_eq_true', Bool.and_eq_false_iff, Bool.not_eq_false']
        by_cases hw0 : (spanW rest).1 = []
        · left; simp [hw0]
        · right
          cases hall : (spanW rest).1.all isDigitC with
          | false => rfl
          | true => exact absurd ⟨hw0, hall⟩ hnd
    rw [if_neg h12] at h
    have hrc : (if c = 'R' ∨ c = 'r' then !(!(spanW rest).1.isEmpty && (spanW rest).1.all isDigitC) else true) = true := by
      rw [if_neg h12]
    by_cases h13 : isAsciiAlpha c = true ∨ c = '_'
    · rw [if_pos h13] at h
      have hstart : (97 ≤ c.toNat ∧ c.toNat ≤ 122 ∨ 65 ≤ c.toNat ∧ c.toNat ≤ 90) ∨ c.toNat = 95 := by
        rcases h13 with ha | rfl
        · unfold isAsciiAlpha at ha
          simp only [Bool.or_eq_true, Bool.and_eq_true, decide_eq_true_eq] at ha
          rcases ha with ⟨a, b⟩ | ⟨a, b⟩
          · left; left; exact ⟨char_toNat_le.mp a, char_toNat_le.mp b⟩
          · left; right; exact ⟨char_toNat_le.mp a, char_toNat_le.mp b⟩
        · right; rfl
      injection h with hres _
      injection hres with hres
      injection hres with hres
      exact finish hstart hres hxc hrc
    · rw [if_neg h13] at h; cases h

end Lc3V
