/- Lemmas/PrintLex.lean — what the printer writes for numbers and string literals is read back by the lexer. -/
import Lc3V.Model.Print
import Lc3V.Lemmas.LexNum
import Lc3V.Lemmas.LexTok
set_option linter.unusedSimpArgs false
namespace Lc3V

theorem natDigits_eq (n : Nat) : natDigits n = Nat.toDigits 10 n := by
  unfold natDigits
  show (Nat.repr n).toList = _
  exact Nat.toList_repr

theorem isDec_of_isDigit {c : Char} (h : c.isDigit = true) : IsDec c := by
  unfold Char.isDigit at h
  simp only [Bool.and_eq_true, decide_eq_true_eq] at h
  have a := UInt32.le_iff_toNat_le.mp h.1
  have b := UInt32.le_iff_toNat_le.mp h.2
  exact ⟨a, b⟩

theorem natDigits_isDec (n : Nat) : ∀ c ∈ natDigits n, IsDec c := by
  intro c hc
  rw [natDigits_eq] at hc
  exact isDec_of_isDigit (Nat.isDigit_of_mem_toDigits (by decide) (by decide) hc)

theorem natDigits_ne_nil (n : Nat) : natDigits n ≠ [] := by
  rw [natDigits_eq]; exact Nat.toDigits_ne_nil

theorem digitOf_isDec {c : Char} (h : IsDec c) : digitOf 10 c = c.toNat - 48 := by
  unfold digitOf toDigit
  have a : ('0' ≤ c) := char_toNat_le.mpr h.1
  have b : (c ≤ '9') := char_toNat_le.mpr h.2
  have : c.toNat - 48 < 10 := by have := h.1; have := h.2; omega
  simp [a, b, this]

theorem valFrom_eq_ofDigitChars (cs : List Char) (h : ∀ c ∈ cs, IsDec c) (acc : Nat) :
    valFrom 10 cs acc = Nat.ofDigitChars 10 cs acc := by
  induction cs generalizing acc with
  | nil => simp [valFrom]
  | cons c cs ih =>
    rw [Nat.ofDigitChars_cons, valFrom, ih (fun x hx => h x (by simp [hx])), digitOf_isDec (h c (by simp))]
    congr 1
    have : '0'.toNat = 48 := rfl
    rw [this]; omega

/-- decimal printing and reading are inverse -/
theorem valOf_natDigits (n : Nat) : valOf 10 (natDigits n) = n := by
  unfold valOf
  rw [valFrom_eq_ofDigitChars _ (natDigits_isDec n), natDigits_eq]
  exact Nat.ofDigitChars_ten_toDigits

/-! ### string literals -/

/-- the characters C36 allows in a string literal: printable ASCII, tab, LF, CR, NUL -/
def StrOk (c : Char) : Prop := (0x20 ≤ c.toNat ∧ c.toNat ≤ 0x7E) ∨ c = '\t' ∨ c = '\n' ∨ c = '\r' ∨ c = '\x00'

def escStr (s : List Char) : List Char := s.flatMap escapeDebugChar

theorem escape_plain (c : Char) (h : 0x20 ≤ c.toNat ∧ c.toNat ≤ 0x7E) (h1 : c ≠ '"') (h2 : c ≠ '\\') :
    escapeDebugChar c = [c] := by
  have n0 : c ≠ '\x00' := char_ne_of_toNat (by simp; omega)
  have n1 : c ≠ '\t' := char_ne_of_toNat (by simp; omega)
  have n2 : c ≠ '\r' := char_ne_of_toNat (by simp; omega)
  have n3 : c ≠ '\n' := char_ne_of_toNat (by simp; omega)
  have n4 : ¬ (c.toNat < 0x20 ∨ c.toNat = 0x7F ∨ (c.toNat ≥ 128 ∧ inRanges Gen.escRanges c.toNat = true)) := by omega
  unfold escapeDebugChar
  simp only [n0, n1, n2, n3, h1, h2, n4, if_false]

/-- scanning an escaped literal body gives back the characters -/
theorem scanStr_escStr (s : List Char) (h : ∀ c ∈ s, StrOk c) (rest buf : List Char) (n : Nat) :
    scanStr (escStr s ++ '"' :: rest) buf n = some (buf.reverse ++ s, n + (escStr s).length + 1) := by
  induction s generalizing buf n with
  | nil => simp [escStr, scanStr]
  | cons c cs ih =>
    have hcs : ∀ x ∈ cs, StrOk x := fun x hx => h x (by simp [hx])
    have e : escStr (c :: cs) = escapeDebugChar c ++ escStr cs := by simp [escStr]
    rw [e, List.append_assoc]
    have two : ∀ (x y : Char), escapeDebugChar c = ['\\', x] →
        (if x = 'n' then ['\n'] else if x = 'r' then ['\r'] else if x = 't' then ['\t']
          else if x = '\\' then ['\\'] else if x = '0' then ['\x00'] else if x = '"' then ['"'] else [x, '\\']) = [y] → y = c →
        scanStr (escapeDebugChar c ++ (escStr cs ++ '"' :: rest)) buf n =
          some (buf.reverse ++ c :: cs, n + (escapeDebugChar c ++ escStr cs).length + 1) := by
      intro x y hx hy hyc
      rw [hx]
      simp only [List.cons_append, List.nil_append, scanStr]
      rw [hy, ih hcs]
      simp only [List.singleton_append, List.reverse_cons, List.append_assoc, List.length_cons, List.length_append, hyc]
      congr 2; omega
    by_cases c0 : c = '\x00'
    · subst c0; exact two '0' '\x00' (by decide) (by decide) rfl
    by_cases c1 : c = '\t'
    · subst c1; exact two 't' '\t' (by decide) (by decide) rfl
    by_cases c2 : c = '\r'
    · subst c2; exact two 'r' '\r' (by decide) (by decide) rfl
    by_cases c3 : c = '\n'
    · subst c3; exact two 'n' '\n' (by decide) (by decide) rfl
    by_cases c4 : c = '\\'
    · subst c4; exact two '\\' '\\' (by decide) (by decide) rfl
    by_cases c5 : c = '"'
    · subst c5; exact two '"' '"' (by decide) (by decide) rfl
    have hp : 0x20 ≤ c.toNat ∧ c.toNat ≤ 0x7E := by
      rcases h c (by simp) with h | h | h | h | h
      · exact h
      all_goals simp_all
    rw [escape_plain c hp c5 c4]
    simp only [List.cons_append, List.nil_append]
    rw [scanStr.eq_5 _ _ _ _ c5 (fun hx _ => c4 hx) (fun _ _ hx _ => c4 hx), ih hcs]
    simp only [List.reverse_cons, List.append_assoc, List.singleton_append, List.length_cons, List.length_append, List.length_nil]
    congr 2; omega

theorem firstLine_append (a b : List Char) (h : ∀ c ∈ a, c ≠ '\n' ∧ c ≠ '\r') : firstLine (a ++ b) = a ++ firstLine b := by
  induction a with
  | nil => rfl
  | cons c cs ih =>
    have hc := h c (by simp)
    rw [List.cons_append, firstLine.eq_5 _ _ hc.1 (fun hx _ => hc.2 hx) (fun _ hx _ => hc.2 hx),
      ih (fun x hx => h x (by simp [hx]))]
    rfl

theorem escapeDebugChar_noNL (c : Char) (h : StrOk c) : ∀ x ∈ escapeDebugChar c, x ≠ '\n' ∧ x ≠ '\r' := by
  by_cases c0 : c = '\x00'
  · subst c0; decide
  by_cases c1 : c = '\t'
  · subst c1; decide
  by_cases c2 : c = '\r'
  · subst c2; decide
  by_cases c3 : c = '\n'
  · subst c3; decide
  by_cases c4 : c = '\\'
  · subst c4; decide
  by_cases c5 : c = '"'
  · subst c5; decide
  have hp : 0x20 ≤ c.toNat ∧ c.toNat ≤ 0x7E := by
    rcases h with h | h | h | h | h
    · exact h
    all_goals simp_all
  rw [escape_plain c hp c5 c4]
  intro x hx
  simp only [List.mem_singleton] at hx
  subst hx
  exact ⟨c3, c2⟩

theorem escStr_noNL (s : List Char) (h : ∀ c ∈ s, StrOk c) : ∀ x ∈ escStr s, x ≠ '\n' ∧ x ≠ '\r' := by
  intro x hx
  unfold escStr at hx
  obtain ⟨c, hc, hxc⟩ := List.mem_flatMap.mp hx
  exact escapeDebugChar_noNL c (h c hc) x hxc

/-- a printed string literal is read back as the same string (or rejected for its size, exactly as the original was) -/
theorem lexOne_string (s rest : List Char) (h : ∀ c ∈ s, StrOk c) :
    lexOne ('"' :: (escStr s ++ '"' :: rest)) =
      ⟨if blen s < 65535 then .ok (.string s) else .error .strLitTooBig, 2 + (escStr s).length⟩ := by
  unfold lexOne
  simp (config := {decide := true}) only [if_false, if_true]
  have hq : firstLine (escStr s ++ '"' :: rest) = escStr s ++ '"' :: firstLine rest := by
    rw [firstLine_append _ _ (escStr_noNL s h)]
    rw [firstLine.eq_5 _ _ (by decide) (fun hx _ => by cases hx) (fun _ hx _ => by cases hx)]
  rw [hq, scanStr_escStr s h]
  simp only [List.reverse_nil, List.nil_append, Nat.zero_add]
  congr 1; omega

end Lc3V
