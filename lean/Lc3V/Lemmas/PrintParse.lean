/- Lemmas/PrintParse.lean — printing a statement and parsing the text gives the statement back. -/
import Lc3V.Lemmas.StmtAtoms
set_option linter.unusedSimpArgs false
set_option linter.unusedVariables false
namespace Lc3V
open Parser

theorem sTok_ne_comment {n} (v : BitVec n) : sTok v ≠ .comment := by unfold sTok; split <;> simp
theorem pcTok_ne_comment {n} (o : PCOff n) : pcTok o ≠ .comment := by
  cases o with
  | off v => exact sTok_ne_comment v
  | label l => simp [pcTok]
theorem irTok_ne_comment (o : ImmOrReg 5) : irTok o ≠ .comment := by
  cases o with
  | imm v => exact sTok_ne_comment v
  | reg r => simp [irTok]

theorem instrToks_no_comment (i : AsmInstr) : ∀ t ∈ instrToks i, t ≠ .comment := by
  intro t ht
  cases i <;> simp only [instrToks, List.mem_cons, List.mem_nil_iff, or_false] at ht <;>
    (rcases ht with rfl | rfl | rfl | rfl | rfl | rfl <;>
      first | exact irTok_ne_comment _ | exact sTok_ne_comment _ | exact pcTok_ne_comment _ | simp)

theorem dirToks_no_comment (d : Directive) : ∀ t ∈ dirToks d, t ≠ .comment := by
  intro t ht
  cases d with
  | fill v => cases v <;> (simp only [dirToks, List.mem_cons, List.mem_nil_iff, or_false] at ht; rcases ht with rfl | rfl <;> simp)
  | end_ => simp only [dirToks, List.mem_cons, List.mem_nil_iff, or_false] at ht; subst ht; simp
  | _ => simp only [dirToks, List.mem_cons, List.mem_nil_iff, or_false] at ht; rcases ht with rfl | rfl <;> simp

theorem stmtToks_no_comment (s : Stmt) : ∀ t ∈ labelToks s.labels ++ kindToks s.nucleus, t ≠ .comment := by
  intro t ht
  rcases List.mem_append.mp ht with h | h
  · obtain ⟨l, _, rfl⟩ := List.mem_map.mp h; simp
  · cases hk : s.nucleus with
    | instr i => rw [hk] at h; exact instrToks_no_comment i t h
    | directive d => rw [hk] at h; exact dirToks_no_comment d t h

theorem filter_id_of_vals (ts : List SpTok) (vals : List Token) (h : ts.map (·.tok) = vals) (hv : ∀ t ∈ vals, t ≠ .comment) :
    ts.filter (fun t => t.tok != .comment) = ts := by
  apply List.filter_eq_self.mpr
  intro x hx
  have : x.tok ∈ vals := by rw [← h]; exact List.mem_map.mpr ⟨x, hx, rfl⟩
  simpa using hv _ this

/-- the parse result is determined by the token values: any text that lexes to the token values of `s` parses to `s` -/
theorem parse_of_lex (s : Stmt) (text : List Char) (ts : List SpTok) (hlex : lex text = .ok ts)
    (hvals : ts.map (·.tok) = labelToks s.labels ++ kindToks s.nucleus)
    (hcc : ∀ cc o, s.nucleus = .instr (.br cc o) → cc ≠ 0) (hb : ∀ n, s.nucleus = .directive (.blkw n) → n ≠ 0) :
    ∃ s', parseAst text = .ok [s'] ∧ s'.labels.map (·.name) = s.labels.map (·.name) ∧ s'.nucleus.erase = s.nucleus.erase := by
  have hfilter := filter_id_of_vals ts _ hvals (stmtToks_no_comment s)
  have hrem : rem ⟨ts.toArray, 0⟩ = labelToks s.labels ++ kindToks s.nucleus := by
    unfold rem; simpa using hvals
  obtain ⟨s', p', hps, hl, hn, hrem'⟩ := parseStmt_toks s.labels s.nucleus ⟨ts.toArray, 0⟩ hcc hb hrem
  refine ⟨s', ?_, hl, hn⟩
  unfold parseAst
  rw [hlex]
  simp only [hfilter]
  have hne : (⟨ts.toArray, 0⟩ : Parser).isEmpty = false := by
    rw [isEmpty_eq, hrem]
    cases hls : s.labels with
    | cons l ls => simp [labelToks]
    | nil =>
      obtain ⟨t, r, hk, hkd⟩ := kindToks_head s.nucleus
      simp only [labelToks, List.map_nil, List.nil_append, hk]
      rcases hkd with ⟨kw, rfl⟩ | ⟨nm, rfl⟩ <;> simp
  have hemp : p'.isEmpty = true := by rw [isEmpty_eq, hrem']; rfl
  have hsz : (ts.toArray).size + 1 = (ts.toArray.size - 1) + 1 + 1 := by
    have : 0 < ts.toArray.size := by
      have : (rem ⟨ts.toArray, 0⟩).length ≤ ts.toArray.size := by unfold rem; simp
      rw [hrem] at this
      obtain ⟨t, r, hk, _⟩ := kindToks_head s.nucleus
      rw [hk] at this
      simp only [List.length_append, List.length_cons] at this
      omega
    omega
  rw [hsz, parseAll]
  simp only [hne, Bool.false_eq_true, if_false, hps]
  rw [parseAll]
  simp only [hemp, if_true, List.reverse_cons, List.reverse_nil, List.nil_append]

/-- **C36 for the model**: printing a statement the parser can produce (string literals over printable ASCII, tab, LF, CR,
    NUL) and parsing the printed text yields exactly one statement with the same labels (by name) and the same nucleus
    (label operands by name) -/
theorem parse_print (s : Stmt) (h : StmtOk s) :
    ∃ s', parseAst (showStmt s) = .ok [s'] ∧ s'.labels.map (·.name) = s.labels.map (·.name) ∧ s'.nucleus.erase = s.nucleus.erase := by
  obtain ⟨hok, hseq⟩ := stmtAtoms_ok s h
  obtain ⟨ts, hlex, hvals⟩ := lex_atoms (stmtAtoms s) hseq hok
  rw [stmtAtoms_toks] at hvals
  have hkind := h.2
  rw [showStmt_atoms s h]
  exact parse_of_lex s _ ts hlex hvals (by intro cc o e; rw [e] at hkind; exact hkind.1) (by intro n e; rw [e] at hkind; exact hkind.2 n rfl)

end Lc3V
