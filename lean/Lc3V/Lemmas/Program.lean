/- Lemmas/Program.lean — the parser on the token values of a whole program: any number of statements, labels with or
   without colons and on their own lines, blank lines anywhere, a last line with or without a line end. -/
import Lc3V.Lemmas.ParseStmtToks
set_option linter.unusedSimpArgs false
set_option linter.unusedVariables false
namespace Lc3V
open Parser

abbrev nls (n : Nat) : List Token := List.replicate n .newline

/-- how one label is written: with or without a colon, followed by any number of line ends -/
structure LabelL where
  label : Label
  colon : Bool
  post : Nat

def LabelL.toks (l : LabelL) : List Token :=
  .ident (.label l.label.name) :: ((if l.colon then [.colon] else []) ++ nls l.post)

def labelLToks (ls : List LabelL) : List Token := ls.flatMap LabelL.toks

/-- the first token of a statement's nucleus: a mnemonic or a directive -/
def NucStart (t : Token) : Prop := (∃ kw, t = .ident (.kw kw)) ∨ (∃ n, t = .directive n)

/-- a token list that does not begin with a line end -/
def NoNlHead (ts : List Token) : Prop := ∀ r, ts ≠ .newline :: r

theorem labelLToks_head (ls : List LabelL) (t : Token) (r : List Token) (ht : NucStart t) :
    ∃ t' r', labelLToks ls ++ t :: r = t' :: r' ∧ t' ≠ .newline ∧ t' ≠ .colon := by
  cases ls with
  | nil => exact ⟨t, r, rfl, by rcases ht with ⟨k, rfl⟩ | ⟨n, rfl⟩ <;> simp, by rcases ht with ⟨k, rfl⟩ | ⟨n, rfl⟩ <;> simp⟩
  | cons l ls => exact ⟨_, _, by simp only [labelLToks, List.flatMap_cons, LabelL.toks, List.cons_append]; rfl, by simp, by simp⟩

theorem isEmpty_false_of (p : Parser) (a : List Token) (t : Token) (r : List Token) (h : rem p = a ++ t :: r) (ht : t ≠ .newline) :
    p.isEmpty = false := by
  rw [isEmpty_eq, h]
  simp only [List.all_append, List.all_cons, Bool.and_eq_false_iff]
  right; left
  simpa using ht

/-- blank lines in front of a label or the nucleus are skipped by the label loop -/
theorem parseLabels_nls : ∀ (n fuel : Nat) (p : Parser) (acc : List Label) (last : Option (Nat × Nat)) (t : Token) (r : List Token),
    n ≤ fuel → rem p = nls n ++ t :: r → t ≠ .newline →
    ∃ p', parseLabels fuel p acc last = parseLabels (fuel - n) p' acc last ∧ rem p' = t :: r ∧ p'.toks = p.toks := by
  intro n
  induction n with
  | zero => intro fuel p acc last t r _ h _; exact ⟨p, rfl, by simpa [nls] using h, rfl⟩
  | succ n ih =>
    intro fuel p acc last t r hf h ht
    obtain ⟨f, rfl⟩ : ∃ f, fuel = f + 1 := ⟨fuel - 1, by omega⟩
    have h' : rem p = .newline :: (nls n ++ t :: r) := by rw [h]; simp [nls, List.replicate_succ]
    obtain ⟨x, hp, hxt, hadv, _⟩ := peek_of_rem p _ _ h'
    have hne : p.isEmpty = false := isEmpty_false_of p (nls (n + 1)) t r h ht
    have hl : labelOf p = none := by
      unfold labelOf; rw [hp]
      obtain ⟨tk, a, b⟩ := x
      simp only at hxt; subst hxt; rfl
    have htok : tokOf p = some .newline := tokOf_of_rem _ _ _ h'
    obtain ⟨p', h1, h2, h3⟩ := ih f p.advance acc last t r (by omega) hadv ht
    refine ⟨p', ?_, h2, h3⟩
    rw [parseLabels]
    simp only [hne, Bool.false_eq_true, if_false, hl, htok]
    rw [h1]
    congr 1; omega

/-- the label loop on labels written in any of the accepted ways -/
theorem parseLabels_toksL (ls : List LabelL) : ∀ (fuel : Nat) (p : Parser) (acc : List Label) (last : Option (Nat × Nat))
    (t : Token) (r : List Token), (labelLToks ls).length < fuel → rem p = labelLToks ls ++ t :: r → NucStart t →
    ∃ got last' p', parseLabels fuel p acc last = (acc.reverse ++ got, last', p') ∧
      got.map (·.name) = ls.map (·.label.name) ∧ rem p' = t :: r ∧ p'.toks = p.toks := by
  induction ls with
  | nil =>
    intro fuel p acc last t r hf h ht
    obtain ⟨f, rfl⟩ : ∃ f, fuel = f + 1 := ⟨fuel - 1, by omega⟩
    simp only [labelLToks, List.flatMap_nil, List.nil_append] at h
    have htok := tokOf_of_rem _ _ _ h
    obtain ⟨x, hp, hxt, _, _⟩ := peek_of_rem p _ _ h
    have hne : p.isEmpty = false := isEmpty_false_of p [] t r (by simpa using h) (by rcases ht with ⟨k, rfl⟩ | ⟨n, rfl⟩ <;> simp)
    have hl : labelOf p = none := by
      unfold labelOf; rw [hp]
      obtain ⟨tk, a, b⟩ := x
      simp only at hxt; subst hxt
      rcases ht with ⟨kw, rfl⟩ | ⟨n, rfl⟩ <;> rfl
    refine ⟨[], last, p, ?_, rfl, h, rfl⟩
    unfold parseLabels
    simp only [hne, Bool.false_eq_true, if_false, hl, htok, List.append_nil]
    rcases ht with ⟨kw, rfl⟩ | ⟨n, rfl⟩ <;> rfl
  | cons l ls ih =>
    intro fuel p acc last t r hf h ht
    obtain ⟨f, rfl⟩ : ∃ f, fuel = f + 1 := ⟨fuel - 1, by omega⟩
    obtain ⟨t', r', hhead, hnn, hnc⟩ := labelLToks_head ls t r ht
    have hlen : (labelLToks (l :: ls)).length = 1 + (if l.colon then 1 else 0) + l.post + (labelLToks ls).length := by
      simp only [labelLToks, List.flatMap_cons, LabelL.toks, List.length_append, List.length_cons, nls, List.length_replicate]
      cases l.colon <;> simp <;> omega
    have h0 : rem p = .ident (.label l.label.name) :: ((if l.colon then [.colon] else []) ++ (nls l.post ++ (labelLToks ls ++ t :: r))) := by
      rw [h]; simp only [labelLToks, List.flatMap_cons, LabelL.toks, List.cons_append, List.append_assoc]
    obtain ⟨a, b, hp, h1⟩ := label_ahead p _ _ h0
    have hne : p.isEmpty = false := by rw [isEmpty_eq, h0]; simp
    have hl : labelOf p = some ⟨l.label.name, a⟩ := by unfold labelOf; rw [hp]
    -- after the optional colon
    have hcol : ∃ q, skipColon p.advance = q ∧
        rem q = nls l.post ++ (labelLToks ls ++ t :: r) ∧ q.toks = p.toks := by
      cases hc : l.colon with
      | true =>
        rw [hc] at h1
        simp only [if_true, List.cons_append, List.nil_append] at h1
        obtain ⟨x, hp2, hxt, hadv, _⟩ := peek_of_rem _ _ _ h1
        refine ⟨p.advance.advance, ?_, hadv, rfl⟩
        unfold skipColon
        rw [tokOf_of_rem _ _ _ h1]
      | false =>
        rw [hc] at h1
        simp only [Bool.false_eq_true, if_false, List.nil_append] at h1
        refine ⟨p.advance, ?_, h1, rfl⟩
        have : tokOf p.advance ≠ some .colon := by
          cases hpost : l.post with
          | zero =>
            rw [hpost] at h1
            simp only [nls, List.replicate_zero, List.nil_append] at h1
            rw [hhead] at h1
            rw [tokOf_of_rem _ _ _ h1]; simpa using hnc
          | succ m =>
            rw [hpost] at h1
            simp only [nls, List.replicate_succ, List.cons_append] at h1
            rw [tokOf_of_rem _ _ _ h1]; simp
        unfold skipColon
        split
        · rename_i hx; exact absurd hx this
        · rfl
    obtain ⟨q, hq, hremq, htoksq⟩ := hcol
    rw [hhead] at hremq
    obtain ⟨q', hskip, hremq', htoksq'⟩ := parseLabels_nls l.post f q (⟨l.label.name, a⟩ :: acc) (some p.cursor) t' r'
      (by omega) hremq hnn
    rw [← hhead] at hremq'
    obtain ⟨got, last', p', hres, hnames, hrem, htoks⟩ := ih (f - l.post) q' (⟨l.label.name, a⟩ :: acc) (some p.cursor) t r
      (by omega) hremq' ht
    refine ⟨⟨l.label.name, a⟩ :: got, last', p', ?_, by simp [hnames], hrem, by rw [htoks, htoksq', htoksq]⟩
    rw [parseLabels]
    simp only [hne, Bool.false_eq_true, if_false, hl]
    rw [hq, hskip, hres]
    simp

/-- the newline loop after a statement: it consumes the line ends unless only line ends remain -/
theorem skipNewlines_spec : ∀ (n fuel : Nat) (p : Parser) (tail : List Token), n ≤ fuel → rem p = nls n ++ tail → NoNlHead tail →
    ∃ m, rem (skipNewlines fuel p) = nls m ++ tail ∧ (tail ≠ [] → m = 0) ∧ (skipNewlines fuel p).toks = p.toks := by
  intro n
  induction n with
  | zero =>
    intro fuel p tail _ h hno
    simp only [nls, List.replicate_zero, List.nil_append] at h
    cases fuel with
    | zero => exact ⟨0, by simpa [skipNewlines, nls] using h, fun _ => rfl, rfl⟩
    | succ f =>
      unfold skipNewlines
      by_cases he : p.isEmpty = true
      · simp only [he, if_true]
        exact ⟨0, by simpa [nls] using h, fun _ => rfl, (by first | rfl | trivial)⟩
      · simp only [he, Bool.false_eq_true, if_false]
        cases tail with
        | nil => exact absurd (by rw [isEmpty_eq, h]; rfl) he
        | cons t r =>
          rw [tokOf_of_rem _ _ _ h]
          have : t ≠ .newline := fun e => hno r (by rw [e])
          refine ⟨0, ?_, fun _ => rfl, ?_⟩
          · split
            · rename_i hx; simp only [Option.some.injEq] at hx; exact absurd hx this
            · simpa [nls] using h
          · split
            · rename_i hx; simp only [Option.some.injEq] at hx; exact absurd hx this
            · rfl
  | succ n ih =>
    intro fuel p tail hf h hno
    obtain ⟨f, rfl⟩ : ∃ f, fuel = f + 1 := ⟨fuel - 1, by omega⟩
    have h' : rem p = .newline :: (nls n ++ tail) := by rw [h]; simp [nls, List.replicate_succ]
    unfold skipNewlines
    by_cases he : p.isEmpty = true
    · simp only [he, if_true]
      have htail : tail = [] := by
        cases tail with
        | nil => rfl
        | cons t r =>
          rw [isEmpty_eq, h] at he
          simp only [List.all_append, List.all_cons, Bool.and_eq_true, beq_iff_eq] at he
          exact absurd (by rw [he.2.1]) (hno r)
      exact ⟨n + 1, h, fun hne => absurd htail hne, (by first | rfl | trivial)⟩
    · simp only [he, Bool.false_eq_true, if_false]
      rw [tokOf_of_rem _ _ _ h']
      obtain ⟨x, hp, hxt, hadv, _⟩ := peek_of_rem p _ _ h'
      obtain ⟨m, h1, h2, h3⟩ := ih f p.advance tail (by omega) hadv hno
      exact ⟨m, h1, h2, by rw [h3]; rfl⟩

theorem rem_length_le (p : Parser) : (rem p).length ≤ p.toks.size := by unfold rem; simp

/-- one statement inside a program: blank lines before it, labels in any accepted form, the nucleus, and then either the end of
    the text or at least one line end; the parser returns the statement and stops in front of the next one -/
theorem parseStmt_toksL (pre : Nat) (ls : List LabelL) (k : StmtKind) (post : Nat) (tail : List Token) (p : Parser)
    (hcc : ∀ cc o, k = .instr (.br cc o) → cc ≠ 0) (hb : ∀ n, k = .directive (.blkw n) → n ≠ 0)
    (hno : NoNlHead tail) (hpost : post = 0 → tail = [])
    (h : rem p = nls pre ++ (labelLToks ls ++ (kindToks k ++ (nls post ++ tail)))) :
    ∃ s' p' m, parseStmt p = .ok (s', p') ∧ s'.labels.map (·.name) = ls.map (·.label.name) ∧ s'.nucleus.erase = k.erase ∧
      rem p' = nls m ++ tail ∧ (tail ≠ [] → m = 0) := by
  obtain ⟨t, r, hk, hkind⟩ := kindToks_head k
  have hlenrem := rem_length_le p
  have hlen0 : (rem p).length = pre + (labelLToks ls).length + (kindToks k).length + post + tail.length := by
    rw [h]; simp only [List.length_append, nls, List.length_replicate]; omega
  -- blank lines
  obtain ⟨t', r', hhead, hnn, _⟩ := labelLToks_head ls t (r ++ (nls post ++ tail)) hkind
  have h1 : rem p = nls pre ++ t' :: r' := by rw [h, hk, ← hhead]; simp
  obtain ⟨p0, hskip, hrem0, htoks0⟩ := parseLabels_nls pre (p.toks.size + 1) p [] none t' r' (by omega) h1 hnn
  rw [← hhead] at hrem0
  obtain ⟨got, last', p1, hl, hnames, hrem1, htoks1⟩ := parseLabels_toksL ls (p.toks.size + 1 - pre) p0 [] none t (r ++ (nls post ++ tail))
    (by omega) hrem0 hkind
  simp only [List.reverse_nil, List.nil_append] at hl
  have hrem1' : rem p1 = kindToks k ++ (nls post ++ tail) := by rw [hrem1, hk]; simp
  unfold parseStmt
  rw [hskip, hl]
  dsimp only
  have hfin : ∀ (k' : StmtKind) (p2 : Parser), k'.erase = k.erase → rem p2 = nls post ++ tail → p2.toks = p1.toks →
      ∀ st, ∃ s' p' m, (match tokOf p2 with
        | none => Except.ok ((⟨got, k', st⟩ : Stmt), skipNewlines (p2.toks.size + 1) p2.advance)
        | some .newline => .ok (⟨got, k', st⟩, skipNewlines (p2.toks.size + 1) p2.advance)
        | _ => perr "expected end of line" p2.predSpan) = .ok (s', p') ∧
        s'.labels.map (·.name) = ls.map (·.label.name) ∧ s'.nucleus.erase = k.erase ∧ rem p' = nls m ++ tail ∧ (tail ≠ [] → m = 0) := by
    intro k' p2 hk' hrem2 htoks2 st
    cases post with
    | zero =>
      have ht := hpost rfl
      subst ht
      simp only [nls, List.replicate_zero, List.append_nil] at hrem2
      have hnone : tokOf p2 = none := by unfold tokOf; rw [peek_none_of_rem p2 hrem2]; rfl
      simp only [hnone]
      exact ⟨_, _, 0, rfl, hnames, hk', by simpa [nls] using skipNewlines_nil _ _ (rem_advance_nil _ hrem2), fun h => absurd rfl h⟩
    | succ n =>
      have hrem2' : rem p2 = .newline :: (nls n ++ tail) := by rw [hrem2]; simp [nls, List.replicate_succ]
      obtain ⟨x, hp, hxt, hadv, _⟩ := peek_of_rem p2 _ _ hrem2'
      rw [tokOf_of_rem _ _ _ hrem2']
      have hl2 := rem_length_le p2
      rw [hrem2'] at hl2
      simp only [List.length_cons, List.length_append, nls, List.length_replicate] at hl2
      obtain ⟨m, hm1, hm2, _⟩ := skipNewlines_spec n (p2.toks.size + 1) p2.advance tail (by omega) hadv hno
      exact ⟨_, _, m, rfl, hnames, hk', hm1, hm2⟩
  cases k with
  | instr i =>
    obtain ⟨i', p2, hi, herase, hrem2, htoks2⟩ := parseInstr_toks i p1 (nls post ++ tail) (fun cc o e => hcc cc o (by rw [e]))
      (by simpa [kindToks] using hrem1')
    obtain ⟨kw, r0, hkw⟩ : ∃ kw r, instrToks i = .ident (.kw kw) :: r := by cases i <;> exact ⟨_, _, rfl⟩
    have ht : tokOf p1 = some (.ident (.kw kw)) := tokOf_of_rem _ _ (r0 ++ (nls post ++ tail)) (by rw [hrem1']; simp [kindToks, hkw])
    have hn : parseNucleus p1 last' = .ok (.instr i', p2) := by
      unfold parseNucleus
      simp only [ht, hi, bind, Except.bind, pure, Except.pure]
    rw [hn]
    exact hfin (.instr i') p2 (by simp [StmtKind.erase, herase]) hrem2 htoks2 _
  | directive d =>
    obtain ⟨d', p2, hi, herase, hrem2, htoks2⟩ := parseDirective_toks d p1 (nls post ++ tail) (fun n e => hb n (by rw [e]))
      (by simpa [kindToks] using hrem1')
    obtain ⟨nm, r0, hnm⟩ : ∃ nm r, dirToks d = .directive nm :: r := by
      cases d with
      | fill v => cases v <;> exact ⟨_, _, rfl⟩
      | _ => exact ⟨_, _, rfl⟩
    have ht : tokOf p1 = some (.directive nm) := tokOf_of_rem _ _ (r0 ++ (nls post ++ tail)) (by rw [hrem1']; simp [kindToks, hnm])
    have hn : parseNucleus p1 last' = .ok (.directive d', p2) := by
      unfold parseNucleus
      simp only [ht, hi, bind, Except.bind, pure, Except.pure]
    rw [hn]
    exact hfin (.directive d') p2 (by simp [StmtKind.erase, herase]) hrem2 htoks2 _

/-! ### whole programs -/

/-- one statement as laid out in a program -/
structure StmtL where
  labels : List LabelL
  kind : StmtKind
  /-- line ends after the statement -/
  post : Nat

def StmtL.toks (x : StmtL) : List Token := labelLToks x.labels ++ (kindToks x.kind ++ nls x.post)

def progToks (ss : List StmtL) : List Token := ss.flatMap StmtL.toks

/-- every statement but the last is followed by at least one line end -/
def PostOk : List StmtL → Prop
  | [] => True
  | [_] => True
  | x :: y :: rest => x.post ≠ 0 ∧ PostOk (y :: rest)

def StmtL.Ok (x : StmtL) : Prop :=
  (∀ cc o, x.kind = .instr (.br cc o) → cc ≠ 0) ∧ (∀ n, x.kind = .directive (.blkw n) → n ≠ 0)

theorem progToks_noNl (ss : List StmtL) : NoNlHead (progToks ss) := by
  intro r h
  cases ss with
  | nil => cases h
  | cons x ss =>
    obtain ⟨t, r0, hk, hkind⟩ := kindToks_head x.kind
    obtain ⟨t', r', hhead, hnn, _⟩ := labelLToks_head x.labels t (r0 ++ nls x.post ++ progToks ss) hkind
    have : progToks (x :: ss) = t' :: r' := by
      rw [← hhead]; simp only [progToks, List.flatMap_cons, StmtL.toks, hk]; simp
    rw [this] at h
    exact hnn (by injection h)

/-- the statement loop over a whole program -/
theorem parseAll_prog (ss : List StmtL) : ∀ (fuel : Nat) (p : Parser) (acc : List Stmt) (pre : Nat),
    ss.length < fuel → rem p = nls pre ++ progToks ss → PostOk ss → (∀ x ∈ ss, x.Ok) →
    ∃ got, parseAll fuel p acc = .ok (acc.reverse ++ got) ∧
      got.map (fun s => (s.labels.map (·.name), s.nucleus.erase)) = ss.map (fun x => (x.labels.map (·.label.name), x.kind.erase)) := by
  induction ss with
  | nil =>
    intro fuel p acc pre _ h _ _
    have he : p.isEmpty = true := by
      rw [isEmpty_eq, h]; simp [progToks, nls]
    refine ⟨[], ?_, rfl⟩
    cases fuel with
    | zero => simp [parseAll]
    | succ f => simp [parseAll, he]
  | cons x ss ih =>
    intro fuel p acc pre hf h hpost hok
    obtain ⟨f, rfl⟩ : ∃ f, fuel = f + 1 := ⟨fuel - 1, by omega⟩
    have hx := hok x (by simp)
    have h' : rem p = nls pre ++ (labelLToks x.labels ++ (kindToks x.kind ++ (nls x.post ++ progToks ss))) := by
      rw [h]; simp only [progToks, List.flatMap_cons, StmtL.toks, List.append_assoc]
    have hp0 : x.post = 0 → progToks ss = [] := by
      intro h0
      cases ss with
      | nil => rfl
      | cons y rest => exact absurd h0 hpost.1
    obtain ⟨s', p', m, hps, hl, hn, hrem', _⟩ := parseStmt_toksL pre x.labels x.kind x.post (progToks ss) p hx.1 hx.2
      (progToks_noNl ss) hp0 h'
    have hne : p.isEmpty = false := by
      obtain ⟨t, r0, hk, hkind⟩ := kindToks_head x.kind
      refine isEmpty_false_of p (nls pre ++ labelLToks x.labels) t (r0 ++ (nls x.post ++ progToks ss)) ?_ ?_
      · rw [h', hk]; simp
      · rcases hkind with ⟨k, rfl⟩ | ⟨n, rfl⟩ <;> simp
    have hpost' : PostOk ss := by
      cases ss with
      | nil => trivial
      | cons y rest => exact hpost.2
    obtain ⟨got, hres, hgot⟩ := ih f p' (s' :: acc) m (by simp only [List.length_cons] at hf; omega) hrem' hpost'
      (fun y hy => hok y (by simp [hy]))
    refine ⟨s' :: got, ?_, by simp [hl, hn, hgot]⟩
    rw [parseAll]
    simp only [hne, Bool.false_eq_true, if_false, hps, hres]
    simp

end Lc3V
