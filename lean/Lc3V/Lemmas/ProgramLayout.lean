/- Lemmas/ProgramLayout.lean — text → lexer → parser for a whole program in any layout. -/
import Lc3V.Lemmas.Layout
import Lc3V.Lemmas.Program
set_option linter.unusedSimpArgs false
set_option linter.unusedVariables false
namespace Lc3V
open Parser

theorem progToks_length (ss : List StmtL) : ss.length ≤ (progToks ss).length := by
  induction ss with
  | nil => simp
  | cons x ss ih =>
    obtain ⟨t, r, hk, _⟩ := kindToks_head x.kind
    simp only [progToks, List.flatMap_cons, StmtL.toks, hk, List.length_append, List.length_cons] at ih ⊢
    omega

theorem filter_map_tok (ts : List SpTok) :
    (ts.filter (fun t => t.tok != .comment)).map (·.tok) = (ts.map (·.tok)).filter (fun t => t != .comment) := by
  induction ts with
  | nil => rfl
  | cons t ts ih =>
    simp only [List.filter_cons, List.map_cons]
    by_cases h : (t.tok != .comment) = true
    · simp only [h, if_true, List.map_cons, ih]
    · simp only [h, Bool.false_eq_true, if_false, ih]

/-- **layout insensitivity (whole program)**: a text made of well-behaved atoms — words, commas, line ends (`\n` or `\r\n`),
    comments — with any blanks and tabs before, between and after them, whose tokens other than comments are those of the
    program `ss` (labels with or without colons, on the statement's line or on lines of their own, blank lines anywhere, the
    last line ended or not), parses to the statements of `ss`, in order -/
theorem parse_program (ss : List StmtL) (pre : Nat) (lead : List Char) (hlead : IsGap lead) (as : List (LAtom × List Char))
    (hseq : LSeqOk as) (hok : ∀ a ∈ as, a.1.Ok ∧ IsGap a.2)
    (hvals : (as.map (·.1.tok)).filter (fun t => t != .comment) = nls pre ++ progToks ss)
    (hpost : PostOk ss) (hss : ∀ x ∈ ss, x.Ok) :
    ∃ got, parseAst (lead ++ renderL as) = .ok got ∧
      got.map (fun s => (s.labels.map (·.name), s.nucleus.erase)) = ss.map (fun x => (x.labels.map (·.label.name), x.kind.erase)) := by
  obtain ⟨ts, hlex, hv⟩ := lex_L lead hlead as hseq hok
  have hrem : rem ⟨(ts.filter (fun t => t.tok != .comment)).toArray, 0⟩ = nls pre ++ progToks ss := by
    unfold rem
    simp only [List.drop_zero]
    rw [filter_map_tok, hv, hvals]
  have hlen : ss.length < (ts.filter (fun t => t.tok != .comment)).toArray.size + 1 := by
    have h1 := rem_length_le ⟨(ts.filter (fun t => t.tok != .comment)).toArray, 0⟩
    rw [hrem] at h1
    have h2 := progToks_length ss
    simp only [List.length_append] at h1
    omega
  obtain ⟨got, hres, hgot⟩ := parseAll_prog ss _ ⟨(ts.filter (fun t => t.tok != .comment)).toArray, 0⟩ [] pre hlen hrem hpost hss
  refine ⟨got, ?_, hgot⟩
  unfold parseAst
  rw [hlex]
  simpa using hres

end Lc3V
