/- Lemmas/Psr.lean — PSR field algebra. -/
import Lc3V.Model.Sim
import Lc3V.Lemmas.BitTac
namespace Lc3V
namespace PSR

theorem privileged_iff (p : W) : privileged p = true ↔ p.getLsbD 15 = false := by
  unfold privileged
  constructor
  · intro h
    have h' : p >>> 15 = 0#16 := by simpa using h
    have := congrArg (fun x => x.getLsbD 0) h'
    simpa [BitVec.getLsbD_ushiftRight] using this
  · intro h
    have : p >>> 15 = 0#16 := by
      apply BitVec.eq_of_getLsbD_eq
      intro i hi
      rcases (by omega : i = 0 ∨ 1 ≤ i) with h0 | h1
      · subst h0
        simp only [BitVec.getLsbD_ushiftRight, BitVec.getLsbD_zero]
        simpa using h
      · simp only [BitVec.getLsbD_ushiftRight, BitVec.getLsbD_zero]
        exact BitVec.getLsbD_of_ge _ _ (by omega)
    simp [this]

@[simp] theorem privileged_setPrivileged_true (p : W) : privileged (setPrivileged p true) = true := by
  rw [privileged_iff]; simp [setPrivileged, BitVec.getLsbD_or, BitVec.getLsbD_and]

@[simp] theorem privileged_setCC (p c : W) : privileged (setCC p c) = privileged p := by
  have h : (setCC p c).getLsbD 15 = p.getLsbD 15 := by
    unfold setCC
    simp only
    split
    · rename_i hc
      rcases hc with hc | hc | hc <;> (rw [hc]; simp [BitVec.getLsbD_or, BitVec.getLsbD_and])
    · simp [BitVec.getLsbD_or, BitVec.getLsbD_and]
  cases hp : privileged p
  · have : ¬ privileged (setCC p c) = true := by rw [privileged_iff, h]; rw [← privileged_iff]; simp [hp]
    simpa using this
  · rw [privileged_iff, h]; exact (privileged_iff p).mp hp

@[simp] theorem privileged_setPriority (p : W) (n : Nat) : privileged (setPriority p n) = privileged p := by
  have h : (setPriority p n).getLsbD 15 = p.getLsbD 15 := by
    unfold setPriority
    rcases (by omega : n % 8 = 0 ∨ n % 8 = 1 ∨ n % 8 = 2 ∨ n % 8 = 3 ∨ n % 8 = 4 ∨ n % 8 = 5 ∨ n % 8 = 6 ∨ n % 8 = 7)
      with h|h|h|h|h|h|h|h <;> (rw [h]; simp [BitVec.getLsbD_or, BitVec.getLsbD_and, BitVec.getLsbD_shiftLeft])
  cases hp : privileged p
  · have : ¬ privileged (setPriority p n) = true := by rw [privileged_iff, h]; rw [← privileged_iff]; simp [hp]
    simpa using this
  · rw [privileged_iff, h]; exact (privileged_iff p).mp hp

/-- CC after `set_cc(z)` is Z -/
@[simp] theorem cc_setCC_z (p : W) : cc (setCC p 2) = 2 := by
  unfold cc setCC; simp only; bits16

theorem priority_setPriority (p : W) (n : Nat) : priority (setPriority p n) = n % 8 := by
  unfold priority setPriority
  have hlt : n % 8 < 8 := Nat.mod_lt _ (by decide)
  have : ((p &&& ((0xF8FF : Nat) : W) ||| (BitVec.ofNat 16 (n % 8)) <<< 8) >>> 8) &&& (7 : W) = BitVec.ofNat 16 (n % 8) := by
    rcases (by omega : n % 8 = 0 ∨ n % 8 = 1 ∨ n % 8 = 2 ∨ n % 8 = 3 ∨ n % 8 = 4 ∨ n % 8 = 5 ∨ n % 8 = 6 ∨ n % 8 = 7)
      with h|h|h|h|h|h|h|h <;> (rw [h]; bits16)
  rw [this]
  simp only [BitVec.toNat_ofNat]
  omega

theorem priority_setCC (p c : W) : priority (setCC p c) = priority p := by
  unfold priority setCC
  simp only
  have key : ∀ c' : W, c' = 1 ∨ c' = 2 ∨ c' = 4 → ((p &&& (0xFFF8 : W) ||| c') >>> 8) &&& (7 : W) = (p >>> 8) &&& (7 : W) := by
    intro c' hc; rcases hc with h | h | h <;> (rw [h]; bits16)
  split
  · rename_i hc; rw [key _ hc]
  · rw [key 2 (Or.inr (Or.inl rfl))]

theorem priority_setPrivileged (p : W) (b : Bool) : priority (setPrivileged p b) = priority p := by
  unfold priority setPrivileged
  cases b <;> (simp only [if_true, if_false, Bool.false_eq_true]; congr 1; bits16)

end PSR
end Lc3V

namespace Lc3V
namespace PSR

/-- PSR after a supervisor entry from PSR `q`: privileged, CC = Z, priority set for interrupts -/
def entryPsr (q : W) (prio : Option Nat) : W :=
  match prio with
  | some p => setPriority (setCC (setPrivileged q true) 2) p
  | none => setCC (setPrivileged q true) 2

theorem cc_setPriority (z : W) (p : Nat) : cc (setPriority z p) = cc z := by
  unfold cc setPriority
  rcases (by omega : p % 8 = 0 ∨ p % 8 = 1 ∨ p % 8 = 2 ∨ p % 8 = 3 ∨ p % 8 = 4 ∨ p % 8 = 5 ∨ p % 8 = 6 ∨ p % 8 = 7)
    with h|h|h|h|h|h|h|h <;> (rw [h]; bits16)

theorem entryPsr_facts (q : W) (prio : Option Nat) :
    privileged (entryPsr q prio) = true ∧ cc (entryPsr q prio) = 2 ∧
    (∀ p, prio = some p → priority (entryPsr q prio) = p % 8) ∧
    (prio = none → priority (entryPsr q prio) = priority q) := by
  cases prio with
  | none =>
    refine ⟨by simp [entryPsr], by simp only [entryPsr]; exact cc_setCC_z _, ?_, ?_⟩
    · intro p h; cases h
    · intro _; simp only [entryPsr]; rw [priority_setCC, priority_setPrivileged]
  | some p =>
    refine ⟨by simp [entryPsr], ?_, ?_, ?_⟩
    · simp only [entryPsr]; rw [cc_setPriority]; exact cc_setCC_z _
    · intro p' h; cases h; simp only [entryPsr]; exact priority_setPriority _ _
    · intro h; cases h

end PSR
end Lc3V
