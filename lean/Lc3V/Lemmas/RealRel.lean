/- Lemmas/RealRel.lean — a relational calculus for "the same computation on a machine with virtual traps and on the same
   machine with real traps": either the virtual-trap run ends in an error (HALT, an exception, any other error), or both runs give
   the same result and the same state up to the `use_real_traps` flag.  Only `handle_interrupt` (for the virtualised vectors)
   and the `step` wrapper read that flag. -/
import Lc3V.Lemmas.SimM
set_option linter.unusedSimpArgs false
set_option linter.unusedVariables false
namespace Lc3V.RT
open Lc3V Sim SimM

/-- the same machine with real traps switched on -/
def rt (s : Sim) : Sim := { s with flags := { s.flags with realTraps := true } }

@[simp] theorem rt_strict (s : Sim) : (rt s).flags.strict = s.flags.strict := rfl
@[simp] theorem rt_reg (s : Sim) (r : Reg) : (rt s).reg r = s.reg r := rfl
@[simp] theorem rt_memAt (s : Sim) (a : W) : (rt s).memAt a = s.memAt a := rfl
@[simp] theorem rt_pc (s : Sim) : (rt s).pc = s.pc := rfl
@[simp] theorem rt_psr (s : Sim) : (rt s).psr = s.psr := rfl
@[simp] theorem rt_prefetch (s : Sim) : (rt s).prefetch = s.prefetch := rfl
@[simp] theorem rt_inAlloca (s : Sim) (a : W) : (rt s).inAlloca a = s.inAlloca a := rfl
@[simp] theorem rt_operand2 (s : Sim) (o : ImmOrReg 5) : (rt s).operand2 o = s.operand2 o := by cases o <;> rfl
@[simp] theorem rt_realTraps (s : Sim) : (rt s).flags.realTraps = true := rfl
@[simp] theorem rt_ignorePriv (s : Sim) : (rt s).flags.ignorePriv = s.flags.ignorePriv := rfl
@[simp] theorem rt_dev (s : Sim) : (rt s).dev = s.dev := rfl
@[simp] theorem rt_defaultCtx (s : Sim) : (rt s).defaultCtx = s.defaultCtx := rfl

/-- a result that is an error -/
def AnyErr {α} (r : Except StepBreak α) : Prop := ∃ e, r = .error e

/-- a result that is an error of one of the kinds `B` -/
def BadErr (B : StepBreak → Prop) {α} (r : Except StepBreak α) : Prop := ∃ e, B e ∧ r = .error e

/-- outcome of the virtual-trap run vs. outcome of the real-trap run -/
def OutRel (B : StepBreak → Prop) {α} (o1 o2 : Except StepBreak α × Sim) : Prop :=
  o1.2.flags.realTraps = false ∧ (BadErr B o1.1 ∨ o2 = (o1.1, rt o1.2))

/-- `m` run on a machine with virtual traps and on the same machine with real traps -/
def Rel (B : StepBreak → Prop) {α} (m : SimM α) : Prop := ∀ s, s.flags.realTraps = false → OutRel B (m s) (m (rt s))

variable {B : StepBreak → Prop}

theorem OutRel.same {α} (r : Except StepBreak α) (s : Sim) (h : s.flags.realTraps = false) : OutRel B (r, s) (r, rt s) := ⟨h, Or.inr rfl⟩

theorem outRel_bind {α β} (m : SimM α) (f : α → SimM β) (s : Sim) (h : OutRel B (m s) (m (rt s)))
    (hf : ∀ a s', s'.flags.realTraps = false → OutRel B (f a s') (f a (rt s'))) : OutRel B ((m >>= f) s) ((m >>= f) (rt s)) := by
  obtain ⟨hfl, hr⟩ := h
  simp only [SimM.bind_apply]
  rcases h1 : m s with ⟨r, s'⟩
  rw [h1] at hfl hr
  simp only at hfl hr
  rcases hr with ⟨e, hB, he⟩ | hr
  · subst he
    exact ⟨hfl, Or.inl ⟨e, hB, rfl⟩⟩
  · rw [hr]
    cases r with
    | ok a => exact hf a s' hfl
    | error e => exact ⟨hfl, Or.inr rfl⟩

theorem Rel.bind {α β} {m : SimM α} {f : α → SimM β} (h : Rel B m) (hf : ∀ a, Rel B (f a)) : Rel B (m >>= f) :=
  fun s hs => outRel_bind m f s (h s hs) (fun a s' hs' => hf a s' hs')

theorem Rel.pure {α} (a : α) : Rel B (Pure.pure a : SimM α) := fun s hs => OutRel.same _ _ hs

/-- reading the state: the continuation sees the virtual-trap state on one side and the real-trap one on the other -/
theorem Rel.getS {β} {f : Sim → SimM β} (h : ∀ s, s.flags.realTraps = false → OutRel B (f s s) (f (rt s) (rt s))) :
    Rel B (SimM.getS >>= f) := by
  intro s hs
  simp only [SimM.bind_apply, SimM.getS_apply]
  exact h s hs

/-- a state update that neither reads nor writes the flags -/
theorem Rel.modify (f : Sim → Sim) (h1 : ∀ s, f (rt s) = rt (f s)) (h2 : ∀ s, (f s).flags = s.flags) : Rel B (modifyS f) := by
  intro s hs
  simp only [SimM.modifyS_apply]
  refine ⟨by rw [h2]; exact hs, Or.inr ?_⟩
  rw [h1]

theorem Rel.throwB {α} (b : StepBreak) : Rel B (SimM.throwB b : SimM α) := fun s hs => OutRel.same _ _ hs
theorem Rel.throwErr {α} (e : SimErr) : Rel B (SimM.throwErr e : SimM α) := fun s hs => OutRel.same _ _ hs

theorem Rel.ite {α} (c : Prop) [Decidable c] {a b : SimM α} (ha : Rel B a) (hb : Rel B b) : Rel B (if c then a else b) := by
  by_cases h : c <;> simp only [h, if_true, if_false] <;> assumption

theorem Rel.liftE {α} (x : Except SimErr α) : Rel B (SimM.liftE x) := by
  intro s hs
  cases x <;> exact OutRel.same _ _ hs

theorem Rel.setRegIfInit (r : Reg) (v : Word) (b : Bool) : Rel B (Sim.setRegIfInit r v b) := by
  intro s hs
  unfold Sim.setRegIfInit Word.setIfInit
  simp only [SimM.bind_apply, SimM.getS_apply]
  by_cases hc : (!b || v.isInit) = true
  · simp only [hc, if_true, SimM.liftE_ok, SimM.modifyS_apply]
    exact ⟨hs, Or.inr rfl⟩
  · simp only [hc, Bool.false_eq_true, if_false, SimM.liftE_err]
    exact OutRel.same _ _ hs

/-- `read_mem` does not look at the real-traps flag and does not change the flags -/
theorem readMem_rt (a : W) (c : Ctx) (s : Sim) :
    readMem a c (rt s) = ((readMem a c s).1, rt (readMem a c s).2) ∧ (readMem a c s).2.flags = s.flags := by
  obtain ⟨mem, regs, pc, psr, savedSp, frameNo, frames, srDefs, alloca, instrRun, prefetch, pause, observer, mcr, flags, bps, iregs, dev, log⟩ := s
  rcases hr : dev.ioRead a c.ioEffects with ⟨r, dev'⟩
  simp only [readMem, rt, iregLookup, iregRead, hr]
  generalize Option.map (fun x => x.snd) (List.find? (fun p => p.fst == a) iregs) = look
  cases r <;> cases look <;> by_cases h1 : (!c.privileged && !inUser a) = true <;> by_cases h2 : IO_START ≤ a.toNat <;>
    by_cases h3 : c.track = true <;> simp only [h1, h2, h3, if_true, if_false, Bool.false_eq_true] <;>
    first | exact ⟨rfl, rfl⟩ | exact ⟨trivial, trivial⟩ | trivial

theorem Rel.readMem (a : W) (c : Ctx) : Rel B (Sim.readMem a c) := by
  intro s hs
  have h := readMem_rt a c s
  refine ⟨by rw [h.2]; exact hs, Or.inr ?_⟩
  exact h.1

theorem Rel.writeMem (a : W) (d : Word) (c : Ctx) : Rel B (Sim.writeMem a d c) := by
  intro s hs
  obtain ⟨mem, regs, pc, psr, savedSp, frameNo, frames, srDefs, alloca, instrRun, prefetch, pause, observer, mcr, flags, bps, iregs, dev, log⟩ := s
  simp only at hs
  unfold OutRel BadErr
  simp only [Sim.writeMem, ioWritePart, storePart, rt, iregLookup, iregWrite, Word.getIfInit, Word.setIfInit]
  generalize Option.map (fun x => x.snd) (List.find? (fun p => p.fst == a) iregs) = look
  rcases look with _ | ir
  · cases hst : c.strict <;> cases hi : d.isInit <;> by_cases h1 : (!c.privileged && !inUser a) = true <;>
      by_cases h2 : IO_START ≤ a.toNat <;> by_cases h3 : c.track = true <;>
      simp only [h1, h2, h3, hst, hi, if_true, if_false, Bool.false_eq_true, Bool.not_true, Bool.not_false, Bool.or_true, Bool.true_or,
        Bool.or_false, Bool.false_or] <;>
      first
        | exact ⟨hs, Or.inr rfl⟩
        | exact ⟨hs, Or.inr trivial⟩
        | (generalize dev.ioWrite a d.data = rw
           obtain ⟨r, dev'⟩ := rw
           cases r <;> first | exact ⟨hs, Or.inr rfl⟩ | exact ⟨hs, Or.inr trivial⟩)
  · cases ir <;> cases hst : c.strict <;> cases hi : d.isInit <;> by_cases h1 : (!c.privileged && !inUser a) = true <;>
      by_cases h2 : IO_START ≤ a.toNat <;> by_cases h3 : c.track = true <;>
      simp only [h1, h2, h3, hst, hi, if_true, if_false, Bool.false_eq_true, Bool.not_true, Bool.not_false, Bool.or_true, Bool.true_or,
        Bool.or_false, Bool.false_or] <;>
      first
        | exact ⟨hs, Or.inr rfl⟩
        | exact ⟨hs, Or.inr trivial⟩


theorem Rel.setPc (w : Word) (chk : Bool) : Rel B (Sim.setPc w chk) := by
  intro s hs
  unfold Sim.setPc OutRel BadErr
  cases hst : s.flags.strict <;> cases hw : w.isInit <;> cases chk <;> cases hm : (s.memAt w.data).isInit <;>
    simp [Word.getIfInit, hw, hm, hs, hst, rt] <;> rfl

theorem Rel.offsetPc (off : W) (chk : Bool) : Rel B (Sim.offsetPc off chk) := by
  unfold Sim.offsetPc
  apply Rel.getS
  intro s hs
  exact Rel.setPc _ _ s hs

theorem Rel.callSubroutine (addr : W) : Rel B (Sim.callSubroutine addr) := by
  unfold Sim.callSubroutine
  refine Rel.bind (Rel.modify _ (fun _ => rfl) (fun _ => rfl)) (fun _ => ?_)
  refine Rel.bind (Rel.modify _ (fun _ => rfl) (fun _ => rfl)) (fun _ => ?_)
  exact Rel.setPc _ _

theorem Rel.callInterrupt (vect : W) (ft : FrameType) : Rel B (Sim.callInterrupt vect ft) := by
  unfold Sim.callInterrupt
  apply Rel.getS
  intro s hs
  simp only [rt_defaultCtx]
  refine (Rel.bind (Rel.readMem _ _) (fun w => ?_)) s hs
  refine Rel.bind (Rel.liftE _) (fun addr => ?_)
  refine Rel.bind (Rel.modify _ (fun _ => rfl) (fun _ => rfl)) (fun _ => ?_)
  exact Rel.setPc _ _

theorem Rel.virtualBreak (brk : StepBreak) : Rel B (Sim.virtualBreak brk) := by
  unfold Sim.virtualBreak
  apply Rel.getS
  intro s hs
  simp only [rt_prefetch]
  refine (Rel.ite _ ?_ (Rel.throwB brk)) s hs
  exact Rel.bind (Rel.offsetPc _ _) (fun _ => Rel.bind (Rel.modify _ (fun _ => rfl) (fun _ => rfl)) (fun _ => Rel.throwB brk))

theorem Rel.enterCore (vect : W) (priority : Option Nat) (oldPsr oldPc : W) :
    Rel B (Sim.enterCore vect priority oldPsr oldPc) := by
  unfold Sim.enterCore
  refine Rel.bind (Rel.modify _ (fun _ => rfl) (fun _ => rfl)) (fun _ => ?_)
  apply Rel.getS
  intro s hs
  simp only [rt_defaultCtx, rt_reg]
  refine (Rel.bind (Rel.liftE _) (fun sp => ?_)) s hs
  refine Rel.bind (Rel.modify _ (fun _ => rfl) (fun _ => rfl)) (fun _ => ?_)
  refine Rel.bind (Rel.writeMem _ _ _) (fun _ => ?_)
  refine Rel.bind (Rel.writeMem _ _ _) (fun _ => ?_)
  refine Rel.bind (Rel.modify _ (fun _ => rfl) (fun _ => rfl)) (fun _ => ?_)
  cases priority with
  | none => exact Rel.callInterrupt _ _
  | some p => exact Rel.bind (Rel.modify _ (fun _ => rfl) (fun _ => rfl)) (fun _ => Rel.callInterrupt _ _)

theorem Rel.enterSupervisor (vect : W) (priority : Option Nat) :
    Rel B (Sim.enterSupervisor vect priority) := by
  intro s hs
  unfold Sim.enterSupervisor
  have h : (if (!PSR.privileged (rt s).psr) = true then (rt s).swapStacks else (rt s)) =
      rt (if (!PSR.privileged s.psr) = true then s.swapStacks else s) := by
    by_cases hp : (!PSR.privileged s.psr) = true
    · simp only [rt_psr, hp, if_true]; rfl
    · simp only [rt_psr, hp, if_false]; rfl
  rw [h]
  exact Rel.enterCore vect priority s.psr s.pc _ (by by_cases hp : (!PSR.privileged s.psr) = true <;> simp only [hp, if_true, if_false] <;> exact hs)

/-- moving the PC without the strict-mode check cannot fail -/
theorem offsetPc_ok (off : W) (s : Sim) : (Sim.offsetPc off false s).1 = .ok () := by
  unfold Sim.offsetPc Sim.setPc
  have hi : (Word.ofData (s.pc + off)).isInit = true := rfl
  simp only [SimM.bind_apply, SimM.getS_apply, Word.getIfInit, hi, Bool.or_true, if_true, SimM.liftE_ok, Bool.and_false,
    Bool.false_eq_true, if_false, SimM.pure_apply, SimM.modifyS_apply]

/-- a virtual break ends in exactly that break -/
theorem virtualBreak_err (brk : StepBreak) (s : Sim) : (Sim.virtualBreak brk s).1 = .error brk := by
  unfold Sim.virtualBreak
  simp only [SimM.bind_apply, SimM.getS_apply]
  by_cases hp : (!s.prefetch) = true
  · simp only [hp, if_true, SimM.bind_apply]
    have h0 := offsetPc_ok (0xFFFF : W) s
    rcases h1 : Sim.offsetPc (0xFFFF : W) false s with ⟨r, s1⟩
    rw [h1] at h0
    simp only at h0
    subst h0
    simp only [SimM.modifyS_apply, SimM.throwB_apply]
  · simp only [hp, if_false, Bool.false_eq_true, SimM.throwB_apply]

theorem Rel.handleInterrupt (vect : W) (priority : Option Nat) (hB : ∀ brk, realIntVect vect = some brk → B brk) :
    Rel B (Sim.handleInterrupt vect priority) := by
  intro s hs
  unfold Sim.handleInterrupt
  have hg : (rt s).gated priority = s.gated priority := by cases priority <;> rfl
  rw [hg]
  by_cases h1 : s.gated priority = true
  · simp only [h1, if_true]; exact OutRel.same _ _ hs
  · simp only [h1, if_false, rt_realTraps, hs, Bool.not_false, Bool.not_true, if_true, Bool.false_eq_true]
    cases hv : realIntVect vect with
    | none => exact Rel.enterSupervisor vect priority s hs
    | some brk =>
      -- virtual traps: the break is reported; real traps: the supervisor is entered — the virtual run ends in an error
      refine ⟨?_, Or.inl ⟨brk, hB brk hv, virtualBreak_err brk s⟩⟩
      -- the flags are not changed by a virtual break
      unfold Sim.virtualBreak
      simp only [SimM.bind_apply, SimM.getS_apply]
      by_cases hp : (!s.prefetch) = true
      · simp only [hp, if_true, SimM.bind_apply]
        have hop := Rel.offsetPc (B := B) (0xFFFF : W) false s hs
        rcases h2 : Sim.offsetPc (0xFFFF : W) false s with ⟨r, s1⟩
        rw [h2] at hop
        cases r with
        | error e => exact hop.1
        | ok u => simp only [SimM.modifyS_apply, SimM.throwB_apply]; exact hop.1
      · simp only [hp, if_false, SimM.throwB_apply]; exact hs

theorem Rel.modify' (f : Sim → Sim) (h1 : ∀ s, f (rt s) = rt (f s)) (h2 : ∀ s, (f s).flags = s.flags) : Rel B (modifyS f) :=
  Rel.modify f h1 h2

macro "rel_mod" : tactic => `(tactic| (refine Rel.modify _ ?_ ?_ <;> intro _ <;> rfl))

/-- a TRAP instruction can only name the one virtualised vector x25 (HALT) -/
theorem trap_vect_halt (v : BitVec 8) (brk : StepBreak) (h : realIntVect (v.setWidth 16) = some brk) : brk = .halt := by
  unfold realIntVect at h
  have hlt : (v.setWidth 16).toNat < 256 := by simp only [BitVec.toNat_setWidth]; have := v.isLt; omega
  split at h
  · cases h; rfl
  · have n1 : ¬ (v.setWidth 16 = 0x100) := fun e => by rw [e] at hlt; simp at hlt
    have n2 : ¬ (v.setWidth 16 = 0x101) := fun e => by rw [e] at hlt; simp at hlt
    have n3 : ¬ (v.setWidth 16 = 0x102) := fun e => by rw [e] at hlt; simp at hlt
    simp only [n1, n2, n3, if_false, reduceCtorEq] at h

theorem Rel.execInstr (i : SimInstr) (hB : B .halt) : Rel B (Sim.execInstr i) := by
  cases i with
  | br cc off =>
    simp only [Sim.execInstr]
    apply Rel.getS; intro s hs
    simp only [rt_psr]
    exact (Rel.ite _ (Rel.offsetPc _ _) (Rel.pure _)) s hs
  | add dr sr1 sr2 =>
    simp only [Sim.execInstr]
    apply Rel.getS; intro s hs
    simp only [rt_reg, rt_operand2]
    exact (Rel.bind (Rel.setRegIfInit _ _ _) (fun _ => by rel_mod)) s hs
  | and dr sr1 sr2 =>
    simp only [Sim.execInstr]
    apply Rel.getS; intro s hs
    simp only [rt_reg, rt_operand2]
    exact (Rel.bind (Rel.setRegIfInit _ _ _) (fun _ => by rel_mod)) s hs
  | not dr sr =>
    simp only [Sim.execInstr]
    apply Rel.getS; intro s hs
    simp only [rt_reg]
    exact (Rel.bind (Rel.setRegIfInit _ _ _) (fun _ => by rel_mod)) s hs
  | ld dr off =>
    simp only [Sim.execInstr]
    apply Rel.getS; intro s hs
    simp only [rt_pc, rt_inAlloca, rt_defaultCtx, Bool.true_and, Bool.false_and]
    exact (Rel.bind (Rel.readMem _ _) (fun v => Rel.bind (Rel.setRegIfInit _ _ _) (fun _ => by rel_mod))) s hs
  | ldr dr b off =>
    simp only [Sim.execInstr]
    apply Rel.getS; intro s hs
    simp only [rt_reg, rt_inAlloca, rt_defaultCtx, Bool.true_and, Bool.false_and]
    exact (Rel.bind (Rel.liftE _) (fun base =>
      Rel.bind (Rel.readMem _ _) (fun v => Rel.bind (Rel.setRegIfInit _ _ _) (fun _ => by rel_mod)))) s hs
  | ldi dr off =>
    simp only [Sim.execInstr]
    apply Rel.getS; intro s hs
    simp only [rt_pc, rt_defaultCtx, Bool.true_and, Bool.false_and]
    refine (Rel.bind (Rel.readMem _ _) (fun pw => Rel.bind (Rel.liftE _) (fun ea => ?_))) s hs
    apply Rel.getS; intro s2 hs2
    simp only [rt_inAlloca, rt_defaultCtx]
    exact (Rel.bind (Rel.readMem _ _) (fun v => Rel.bind (Rel.setRegIfInit _ _ _) (fun _ => by rel_mod))) s2 hs2
  | st sr off =>
    simp only [Sim.execInstr]
    apply Rel.getS; intro s hs
    simp only [rt_pc, rt_reg, rt_inAlloca, rt_defaultCtx, Bool.true_and, Bool.false_and]
    exact Rel.writeMem _ _ _ s hs
  | str sr b off =>
    simp only [Sim.execInstr]
    apply Rel.getS; intro s hs
    simp only [rt_reg, rt_inAlloca, rt_defaultCtx, Bool.true_and, Bool.false_and]
    exact (Rel.bind (Rel.liftE _) (fun base => Rel.writeMem _ _ _)) s hs
  | sti sr off =>
    simp only [Sim.execInstr]
    apply Rel.getS; intro s hs
    simp only [rt_pc, rt_defaultCtx, Bool.true_and, Bool.false_and]
    refine (Rel.bind (Rel.readMem _ _) (fun pw => Rel.bind (Rel.liftE _) (fun ea => ?_))) s hs
    apply Rel.getS; intro s2 hs2
    simp only [rt_inAlloca, rt_defaultCtx, rt_reg]
    exact Rel.writeMem _ _ _ s2 hs2
  | jsr op =>
    simp only [Sim.execInstr]
    apply Rel.getS; intro s hs
    simp only [rt_pc, rt_reg]
    exact (Rel.bind (Rel.liftE _) (fun addr => Rel.callSubroutine addr)) s hs
  | jmp b =>
    simp only [Sim.execInstr]
    apply Rel.getS; intro s hs
    simp only [rt_reg]
    refine (Rel.bind (Rel.setPc _ _) (fun _ => Rel.ite _ ?_ (Rel.pure _))) s hs
    rel_mod
  | lea dr off =>
    simp only [Sim.execInstr]
    apply Rel.getS; intro s hs
    refine Rel.modify _ ?_ ?_ s hs <;> intro _ <;> rfl
  | trap v =>
    simp only [Sim.execInstr]
    apply Rel.getS; intro s hs
    exact Rel.handleInterrupt _ _ (fun brk hb => by rw [trap_vect_halt v brk hb]; exact hB) s hs
  | rti =>
    simp only [Sim.execInstr]
    apply Rel.getS; intro s hs
    simp only [rt_psr, rt_ignorePriv, rt_reg, rt_defaultCtx]
    refine (Rel.ite _ ?_ (Rel.throwErr _)) s hs
    refine Rel.bind (Rel.liftE _) (fun sp => ?_)
    refine Rel.bind (Rel.readMem _ _) (fun pcw => ?_)
    refine Rel.bind (Rel.liftE _) (fun pc => ?_)
    refine Rel.bind (Rel.readMem _ _) (fun psrw => ?_)
    refine Rel.bind (Rel.liftE _) (fun psr => ?_)
    refine Rel.bind (by rel_mod) (fun _ => ?_)
    refine Rel.bind (Rel.setPc _ _) (fun _ => ?_)
    refine Rel.bind (by rel_mod) (fun _ => ?_)
    apply Rel.getS; intro s3 hs3
    simp only [rt_psr]
    refine (Rel.ite _ (Rel.bind ?_ (fun _ => ?_)) ?_) s3 hs3
    · rel_mod
    · rel_mod
    · rel_mod

theorem Rel.fetchExec (hB : B .halt) : Rel B Sim.fetchExec := by
  unfold Sim.fetchExec
  apply Rel.getS; intro s hs
  simp only [rt_pc, rt_defaultCtx]
  refine (Rel.bind (Rel.readMem _ _) (fun w => ?_)) s hs
  refine Rel.bind (Rel.liftE _) (fun word => ?_)
  refine Rel.bind (Rel.liftE _) (fun instr => ?_)
  refine Rel.bind (Rel.offsetPc _ _) (fun _ => ?_)
  refine Rel.bind (by rel_mod) (fun _ => ?_)
  refine Rel.bind (Rel.execInstr instr hB) (fun _ => ?_)
  rel_mod

theorem Rel.stepInner (hB : ∀ e, B e) : Rel B Sim.stepInner := by
  intro s hs
  unfold Sim.stepInner
  have h1 : afterPoll (rt s) = rt (afterPoll s) := rfl
  have h2 : (afterPoll s).flags.realTraps = false := hs
  simp only [rt_dev, h1]
  cases (s.dev.pollInterrupt).1 with
  | none => exact Rel.fetchExec (hB _) _ h2
  | some i =>
    cases i with
    | external tag => exact OutRel.same _ _ h2
    | vectored vect prio =>
      simp only [rt_psr]
      by_cases hp : prio > PSR.priority (afterPoll s).psr
      · simp only [hp, if_true]; exact Rel.handleInterrupt _ _ (fun brk _ => hB brk) _ h2
      · simp only [hp, if_false]; exact Rel.fetchExec (hB _) _ h2

/-- with a quiet poll the only virtualised event inside a step is `TRAP x25` -/
theorem stepInner_quiet (hB : B .halt) (s : Sim) (hs : s.flags.realTraps = false) (hq : s.dev.pollInterrupt = (none, s.dev)) :
    OutRel B (Sim.stepInner s) (Sim.stepInner (rt s)) := by
  unfold Sim.stepInner
  have h1 : afterPoll (rt s) = rt (afterPoll s) := rfl
  have h2 : (afterPoll s).flags.realTraps = false := hs
  simp only [rt_dev, h1, hq]
  exact Rel.fetchExec hB _ h2

/-- **an exception inside a step is the same exception under real traps**: when the inner step of the virtual-trap machine
    fails with an error other than the HALT break (and no interrupt is pending), the inner step of the real-trap machine
    fails in the same way in the same state — the wrapper `step` then vectors it (C08.real_trap_vectoring) -/
theorem stepInner_exception_same (s s' : Sim) (e : SimErr) (hs : s.flags.realTraps = false)
    (hq : s.dev.pollInterrupt = (none, s.dev)) (h : Sim.stepInner s = (.error (.err e), s')) :
    Sim.stepInner (rt s) = (.error (.err e), rt s') ∧ s'.flags.realTraps = false := by
  have hr := stepInner_quiet (B := fun b => b = .halt) rfl s hs hq
  rw [h] at hr
  obtain ⟨hfl, hrr⟩ := hr
  refine ⟨?_, hfl⟩
  rcases hrr with ⟨b, hb, he⟩ | hrr
  · subst hb; cases he
  · exact hrr


/-- **one step**: either the virtual-trap step ends in an error (HALT, an exception, …) or the real-trap step gives the same
    result and the same state up to the flag -/
theorem step_real_rel (s : Sim) (hv : s.flags.realTraps = false) : OutRel (fun _ => True) (Sim.step s) (Sim.step (rt s)) := by
  have h := Rel.stepInner (B := fun _ => True) (fun _ => trivial) s hv
  unfold Sim.step
  rcases h1 : Sim.stepInner s with ⟨r, s'⟩
  rw [h1] at h
  obtain ⟨hfl, hr⟩ := h
  simp only at hfl hr
  simp only [hfl, Bool.not_false, if_true]
  rcases hr with ⟨e, _, he⟩ | hr
  · subst he; exact ⟨hfl, Or.inl ⟨e, trivial, rfl⟩⟩
  · rw [hr]
    cases r with
    | error b => exact ⟨hfl, Or.inl ⟨b, trivial, rfl⟩⟩
    | ok u =>
      simp only [rt_realTraps, Bool.not_true, Bool.false_eq_true, if_false]
      exact ⟨hfl, Or.inr rfl⟩

/-- `n` successful steps in a row -/
def okSteps : Nat → Sim → Option Sim
  | 0, s => some s
  | n + 1, s => match Sim.step s with
    | (.ok _, s') => okSteps n s'
    | (.error _, _) => none

/-- **every prefix of successful steps is the same under real traps**: as long as the virtual-trap machine has not reached a
    HALT or an exception (or any other error), the real-trap machine is in the same state -/
theorem okSteps_real : ∀ (n : Nat) (s s' : Sim), s.flags.realTraps = false → okSteps n s = some s' →
    okSteps n (rt s) = some (rt s') ∧ s'.flags.realTraps = false := by
  intro n
  induction n with
  | zero => intro s s' hv h; simp only [okSteps, Option.some.injEq] at h; subst h; exact ⟨rfl, hv⟩
  | succ n ih =>
    intro s s' hv h
    have hr := step_real_rel s hv
    unfold okSteps at h ⊢
    rcases h1 : Sim.step s with ⟨r, s1⟩
    rw [h1] at h hr
    obtain ⟨hfl, hrr⟩ := hr
    simp only at hfl hrr
    cases r with
    | error b => simp only at h; cases h
    | ok u =>
      simp only at h
      rcases hrr with ⟨e, _, he⟩ | hrr
      · cases he
      · rw [hrr]
        simp only
        exact ih s1 s' hfl h

theorem tripwireEval_rt (tw : Tripwire) (iter : Nat) (s : Sim) :
    tripwireEval tw iter (rt s) = ((tripwireEval tw iter s).1, rt (tripwireEval tw iter s).2) ∧
    (tripwireEval tw iter s).2.flags = s.flags := by
  cases tw with
  | always => exact ⟨rfl, rfl⟩
  | limit a b => exact ⟨rfl, rfl⟩
  | over c => exact ⟨rfl, rfl⟩
  | out c => exact ⟨rfl, rfl⟩
  | mcrAt k a b =>
    unfold tripwireEval
    by_cases h : iter = k <;> simp only [h, if_true, if_false] <;> first | exact ⟨rfl, rfl⟩ | exact ⟨trivial, trivial⟩ | exact ⟨rfl, trivial⟩ | exact ⟨trivial, rfl⟩

/-- the event loop (`run`, `run_with_limit`, `step_over`, `step_out`, `run_while`): a virtual-trap run that ends without an error
    (limit, breakpoint, tripwire, MCR cleared) ends in the same state under real traps -/
theorem runLoop_real (tw : Tripwire) : ∀ (fuel iter : Nat) (s : Sim), s.flags.realTraps = false →
    match runLoop tw fuel iter s with
    | none => True
    | some (r, s') => s'.flags.realTraps = false ∧
        ((r = .ok .halt ∨ ∃ e, r = .error e) ∨ runLoop tw fuel iter (rt s) = some (r, rt s')) := by
  intro fuel
  induction fuel with
  | zero => intro iter s hs; simp [runLoop]
  | succ f ih =>
    intro iter s hs
    unfold runLoop
    have hm : (rt s).mcr = s.mcr := rfl
    rw [hm]
    by_cases hmcr : (!s.mcr) = true
    · simp only [hmcr, if_true]; first | exact ⟨hs, Or.inr rfl⟩ | exact ⟨hs, Or.inr trivial⟩
    · simp only [hmcr, if_false, Bool.false_eq_true]
      obtain ⟨ht1, ht2⟩ := tripwireEval_rt tw iter s
      rw [ht1]
      rcases hte : tripwireEval tw iter s with ⟨go, s1⟩
      rw [hte] at ht2
      simp only at ht2
      have hs1 : s1.flags.realTraps = false := by rw [ht2]; exact hs
      simp only
      by_cases hgo : (!go) = true
      · simp only [hgo, if_true]; first | exact ⟨hs1, Or.inr rfl⟩ | exact ⟨hs1, Or.inr trivial⟩
      · simp only [hgo, if_false, Bool.false_eq_true]
        have hstep := step_real_rel s1 hs1
        rcases hst : Sim.step s1 with ⟨r, s2⟩
        rw [hst] at hstep
        obtain ⟨hfl, hr⟩ := hstep
        simp only at hfl hr
        rcases hr with ⟨e, _, he⟩ | hr
        · subst he
          cases e with
          | halt => exact ⟨hfl, Or.inl (Or.inl rfl)⟩
          | err x => exact ⟨hfl, Or.inl (Or.inr ⟨x, rfl⟩)⟩
        · rw [hr]
          cases r with
          | error b =>
            cases b with
            | halt => exact ⟨hfl, Or.inl (Or.inl rfl)⟩
            | err x => exact ⟨hfl, Or.inl (Or.inr ⟨x, rfl⟩)⟩
          | ok u =>
            simp only
            have hb : (rt s2).breakpoints.any (bpCheck (rt s2)) = s2.breakpoints.any (bpCheck s2) := by
              have : bpCheck (rt s2) = bpCheck s2 := by funext b; cases b <;> rfl
              rw [this]; rfl
            rw [hb]
            by_cases hbp : s2.breakpoints.any (bpCheck s2) = true
            · simp only [hbp, if_true]; first | exact ⟨hfl, Or.inr rfl⟩ | exact ⟨hfl, Or.inr trivial⟩
            · simp only [hbp, if_false, Bool.false_eq_true]
              exact ih (iter + 1) s2 hfl

end Lc3V.RT
