/-
  Lemmas/RelOwn.lean — every `.fill EXT` of an assembled program owns a relocation entry at its own address (C21).

  Pass 1 records `(location counter, NAME)` at each `.fill LABEL` inside a block (`relInsert`, which overwrites an entry
  at the same address).  In an accepted program no two memory-occupying statements share an address (Lemmas/LineInj:
  `recsAll_distinct`, from pass 2's overlap check), so the entry is never overwritten, and `p1Finish` keeps it exactly
  when the name is external at the end of the pass.
-/
import Lc3V.Lemmas.LineInj
set_option linter.unusedSimpArgs false
set_option linter.unusedVariables false
namespace Lc3V

theorem relInsert_mem_self (m : List (W × Key)) (a : W) (k : Key) : (a, k) ∈ relInsert m a k := by
  unfold relInsert
  split
  · rename_i hany
    obtain ⟨e, he, hea⟩ := List.any_eq_true.mp hany
    refine List.mem_map.mpr ⟨e, he, ?_⟩
    rw [if_pos hea]
  · simp

theorem relInsert_mem_other (m : List (W × Key)) (a b : W) (k k' : Key) (h : (a, k) ∈ m) (hne : a ≠ b) :
    (a, k) ∈ relInsert m b k' := by
  unfold relInsert
  split
  · refine List.mem_map.mpr ⟨(a, k), h, ?_⟩
    have : ((a, k).1 == b) = false := by simpa using hne
    rw [this]; rfl
  · exact List.mem_append_left _ h

/-- the relocation candidate a statement records: a labelled `.fill` inside a block -/
def relEvent (st : P1) (s : Stmt) : Option (W × Key) :=
  match st.cursor with
  | none => none
  | some cur =>
    match s.nucleus with
    | .directive (.fill (.label l)) => some (cur.lc, upperS l.name)
    | _ => none

def applyRel (m : List (W × Key)) : Option (W × Key) → List (W × Key)
  | none => m
  | some e => relInsert m e.1 e.2

/-- how one pass-1 step changes the relocation candidates -/
theorem pass1Step_rel (st st1 : P1) (s : Stmt) (h : pass1Step st s = .ok st1) : st1.rel = applyRel st.rel (relEvent st s) := by
  unfold pass1Step at h
  cases h1 : p1Labels st s with
  | error e => rw [h1] at h; cases h
  | ok labels =>
    rw [h1] at h
    dsimp only at h
    cases h2 : p1Special st s labels with
    | error e => rw [h2] at h; cases h
    | ok r =>
      obtain ⟨cursor, labels', rel⟩ := r
      rw [h2] at h
      dsimp only at h
      have hfin : st1.rel = rel := by
        unfold p1Advance at h
        cases cursor with
        | none => dsimp only at h; injection h with h; rw [← h]
        | some cur =>
          dsimp only at h
          cases hs : cur.shift s.nucleus.wordLen with
          | error k => rw [hs] at h; cases h
          | ok c' => rw [hs] at h; dsimp only at h; injection h with h; rw [← h]
      rw [hfin]
      have hnone : ∀ k, s.nucleus = k → (∀ l, k ≠ .directive (.fill (.label l))) → relEvent st s = none := by
        intro k hk hne
        unfold relEvent
        cases st.cursor with
        | none => rfl
        | some cur =>
          dsimp only
          rw [hk]
          cases k with
          | instr i => rfl
          | directive d =>
            cases d with
            | fill v =>
              cases v with
              | off w => rfl
              | label l => exact absurd rfl (hne l)
            | orig a => rfl
            | end_ => rfl
            | external l => rfl
            | blkw n => rfl
            | stringz x => rfl
      unfold p1Special at h2
      cases hn : s.nucleus with
      | instr i =>
        rw [hn] at h2; cases h2
        rw [hnone _ hn (by intro l hl; cases hl)]; rfl
      | directive d =>
        rw [hn] at h2
        cases d with
        | orig a =>
          rw [hnone _ hn (by intro l hl; cases hl)]
          dsimp only at h2
          cases hc : st.cursor with
          | some c0 => rw [hc] at h2; cases h2
          | none => rw [hc] at h2; cases h2; rfl
        | end_ =>
          rw [hnone _ hn (by intro l hl; cases hl)]
          dsimp only at h2
          cases hc : st.cursor with
          | some c0 => rw [hc] at h2; cases h2; rfl
          | none => rw [hc] at h2; cases h2
        | external l =>
          rw [hnone _ hn (by intro l hl; cases hl)]
          dsimp only at h2
          cases ha : addLabel labels l 0 true with
          | error x => rw [ha] at h2; cases h2
          | ok m2 => rw [ha] at h2; cases h2; rfl
        | fill v =>
          cases v with
          | off w =>
            rw [hnone _ hn (by intro l hl; cases hl)]
            cases h2; rfl
          | label l =>
            dsimp only at h2
            cases hc : st.cursor with
            | some cur =>
              rw [hc] at h2
              cases h2
              unfold relEvent
              rw [hc]
              dsimp only
              rw [hn]
              rfl
            | none =>
              rw [hc] at h2
              dsimp only at h2
              have : relEvent st s = none := by unfold relEvent; rw [hc]
              rw [this]
              split at h2
              · cases h2
              · cases h2; rfl
        | blkw n =>
          rw [hnone _ hn (by intro l hl; cases hl)]
          cases h2; rfl
        | stringz x =>
          rw [hnone _ hn (by intro l hl; cases hl)]
          cases h2; rfl

/-- a recorded candidate has a line event at the same address -/
theorem relEvent_lineEvent (si : SourceInfo) (st : P1) (s : Stmt) (e : W × Key) (h : relEvent st s = some e) :
    lineEvent st s si = some (si.getLine s.span.1, e.1) := by
  unfold relEvent at h
  cases hc : st.cursor with
  | none => rw [hc] at h; cases h
  | some cur =>
    rw [hc] at h
    dsimp only at h
    cases hn : s.nucleus with
    | instr i => rw [hn] at h; cases h
    | directive d =>
      rw [hn] at h
      cases d with
      | fill v =>
        cases v with
        | off w => cases h
        | label l =>
          cases h
          unfold lineEvent; rw [hc, hn]; rfl
      | orig a => cases h
      | end_ => cases h
      | external l => cases h
      | blkw n => cases h
      | stringz x => cases h

/-- an entry survives a run of statements none of whose recorded addresses is the entry's -/
theorem rel_survives (si : SourceInfo) (a : W) (k : Key) : ∀ (post : List Stmt) (st st' : P1), post.foldlM pass1Step st = .ok st' →
    (a, k) ∈ st.rel → (∀ e ∈ evsFold si st post, e.2 ≠ a) → (a, k) ∈ st'.rel := by
  intro post
  induction post with
  | nil => intro st st' h hm _; simp only [List.foldlM_nil] at h; cases h; exact hm
  | cons x xs ih =>
    intro st st' h hm hev
    rw [List.foldlM_cons] at h
    cases hx : pass1Step st x with
    | error e => rw [hx] at h; cases h
    | ok st1 =>
      rw [hx] at h
      simp only [evsFold, hx] at hev
      apply ih st1 st' h
      · rw [pass1Step_rel st st1 x hx]
        cases hre : relEvent st x with
        | none => exact hm
        | some e =>
          apply relInsert_mem_other _ _ _ _ _ hm
          have hle := relEvent_lineEvent si st x e hre
          have := hev (si.getLine x.span.1, e.1) (by rw [hle]; simp)
          exact fun e' => this e'.symm
      · intro e he; exact hev e (List.mem_append_right _ he)

/-- **every `.fill LABEL` whose label is external at the end of pass 1 owns the relocation entry `(its address, NAME)`** -/
theorem fill_external_owns_entry (before : List Blk) (b : Blk) (after : List Blk) (tail : List Stmt) (pre post : List Stmt)
    (s : Stmt) (l : Label) (src : Option (List Char)) (t : SymTab)
    (hwf : ∀ x ∈ before ++ b :: after, x.WF) (ht : ∀ x ∈ tail, isOrigEnd x.nucleus = false)
    (hbody : b.body = pre ++ s :: post) (hs : s.nucleus = .directive (.fill (.label l)))
    (h : pass1 ((before ++ b :: after).flatMap Blk.stmts ++ tail) src = .ok t)
    (hws : ∀ x ∈ before ++ b :: after, ∃ ws, bodyWords t x.a x.body = .ok ws) (hclear : (before ++ b :: after).Pairwise (BlkClear t))
    (hsz : ∀ x ∈ before ++ b :: after, Sized x.body) (hstr : ∀ x ∈ before ++ b :: after, ShortStrings x.body)
    (d : SymData) (hd : lookupKey t.labels (upperS l.name) = some d) (hext : d.ext = true) :
    (b.a + sizeOf' pre, upperS l.name) ∈ t.rel := by
  have hbwf : b.WF := hwf b (by simp)
  have hsplit : (before ++ b :: after).flatMap Blk.stmts ++ tail =
      (before.flatMap Blk.stmts ++ (b.gap ++ b.origS :: pre)) ++ s :: (post ++ b.endS :: (after.flatMap Blk.stmts ++ tail)) := by
    simp only [List.flatMap_append, List.flatMap_cons, Blk.stmts, hbody]; simp
  -- the final state of the fold
  have hf : ∃ stf, ((before ++ b :: after).flatMap Blk.stmts ++ tail).foldlM pass1Step (p1Init src) = .ok stf ∧ p1Finish stf = .ok t := by
    unfold pass1 at h
    cases hh : ((before ++ b :: after).flatMap Blk.stmts ++ tail).foldlM pass1Step (p1Init src) with
    | error e => rw [hh] at h; cases h
    | ok stf => rw [hh] at h; exact ⟨stf, rfl, h⟩
  obtain ⟨stf, hstf, hfin⟩ := hf
  -- the recorded addresses of the whole program are pairwise different
  let si : SourceInfo := SourceInfo.ofText []
  have hall := evsFold_blocks si (before ++ b :: after) tail (p1Init src) stf hwf ht rfl hstf
  have hdist := recsAll_distinct si t (before ++ b :: after) hws hclear hsz hstr
  rw [← hall] at hdist
  rw [hsplit] at hstf hdist
  obtain ⟨st_pre, hp1, hp2⟩ := foldlM_append_ok2 _ _ _ _ _ hstf
  obtain ⟨s0, hq1, hq2⟩ := foldlM_append_ok2 _ _ _ _ _ hp1
  have hc0 := pass1_blocks_cursor before _ s0 (fun x hx => hwf x (by simp [hx])) rfl hq1
  obtain ⟨c, hc, hlc, _⟩ := pass1_block_cursor b hbwf pre (s :: post) hbody s0 st_pre hc0 hq2
  rw [List.foldlM_cons] at hp2
  cases hx : pass1Step st_pre s with
  | error e => rw [hx] at hp2; cases hp2
  | ok st_s =>
    rw [hx] at hp2
    -- the entry is recorded at `s`
    have hre : relEvent st_pre s = some (c.lc, upperS l.name) := by
      unfold relEvent; rw [hc]; dsimp only; rw [hs]
    have hrec : (c.lc, upperS l.name) ∈ st_s.rel := by
      rw [pass1Step_rel st_pre st_s s hx, hre]
      exact relInsert_mem_self _ _ _
    -- later recorded addresses differ from it
    have hlater : ∀ e ∈ evsFold si st_s (post ++ b.endS :: (after.flatMap Blk.stmts ++ tail)), e.2 ≠ c.lc := by
      rw [evsFold_append si _ _ (p1Init src) st_pre hp1] at hdist
      simp only [evsFold, hx, relEvent_lineEvent si st_pre s _ hre, Option.toList_some, List.map_append, List.map_cons,
        List.singleton_append] at hdist
      have h2 := (List.pairwise_append.mp hdist).2.1
      have h3 := (List.pairwise_cons.mp h2).1
      intro e he hee
      have := h3 (evNat e) (List.mem_map.mpr ⟨e, he, rfl⟩)
      apply this
      simp [evNat, hee]
    have hsurv := rel_survives si c.lc (upperS l.name) _ st_s stf hp2 hrec hlater
    -- the end of the pass keeps entries of external labels
    unfold p1Finish at hfin
    cases hcf : stf.cursor with
    | some c0 => rw [hcf] at hfin; cases hfin
    | none =>
      rw [hcf] at hfin
      dsimp only at hfin
      injection hfin with hfin
      have hlab : t.labels = stf.labels := by rw [← hfin]
      rw [← hlc, ← hfin]
      refine List.mem_filter.mpr ⟨hsurv, ?_⟩
      rw [hlab] at hd
      dsimp only
      rw [hd]
      obtain ⟨da, ds, de⟩ := d
      simp only at hext
      subst hext
      rfl

end Lc3V
