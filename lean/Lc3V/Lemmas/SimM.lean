/- Lemmas/SimM.lean — rewriting rules that let `simp` execute the model's state monad symbolically. -/
import Lc3V.Model.Sim
namespace Lc3V
open Sim SimM

@[simp] theorem SimM.bind_apply {α β} (m : SimM α) (f : α → SimM β) (s : Sim) :
    (m >>= f) s = match m s with | (.ok a, s') => f a s' | (.error e, s') => (.error e, s') := rfl
@[simp] theorem SimM.pure_apply {α} (a : α) (s : Sim) : (Pure.pure a : SimM α) s = (.ok a, s) := rfl
@[simp] theorem SimM.getS_apply (s : Sim) : getS s = (.ok s, s) := rfl
@[simp] theorem SimM.modifyS_apply (f : Sim → Sim) (s : Sim) : modifyS f s = (.ok (), f s) := rfl
@[simp] theorem SimM.throwErr_apply {α} (e : SimErr) (s : Sim) : (throwErr e : SimM α) s = (.error (.err e), s) := rfl
@[simp] theorem SimM.throwB_apply {α} (e : StepBreak) (s : Sim) : (throwB e : SimM α) s = (.error e, s) := rfl
@[simp] theorem SimM.liftE_ok {α} (a : α) (s : Sim) : (liftE (.ok a) : SimM α) s = (.ok a, s) := rfl
@[simp] theorem SimM.liftE_err {α} (e : SimErr) (s : Sim) : (liftE (.error e) : SimM α) s = (.error (.err e), s) := rfl

/-- non-strict `get_if_init` / `set_if_init` never fail -/
@[simp] theorem Word.getIfInit_nonstrict {ε} (w : Word) (e : ε) : w.getIfInit false e = .ok w.data := rfl
@[simp] theorem Word.setIfInit_nonstrict {ε} (d w : Word) (e : ε) : d.setIfInit w false e = .ok w := rfl

@[simp] theorem Word.ofData_data (d : W) : (Word.ofData d).data = d := rfl
@[simp] theorem Word.ofData_init (d : W) : (Word.ofData d).init = Word.ALL := rfl

@[simp] theorem Sim.setReg_flags (s : Sim) (r : Reg) (w : Word) : (s.setReg r w).flags = s.flags := rfl
@[simp] theorem Sim.setMem_flags (s : Sim) (a : W) (w : Word) : (s.setMem a w).flags = s.flags := rfl
@[simp] theorem Sim.pushFrame_flags (s : Sim) (a b : W) (t : FrameType) : (s.pushFrame a b t).flags = s.flags := by
  rfl
@[simp] theorem Sim.popFrame_flags (s : Sim) : s.popFrame.flags = s.flags := rfl
@[simp] theorem Sim.setCCOf_flags (s : Sim) (r : W) : (s.setCCOf r).flags = s.flags := rfl

end Lc3V
