/- Lemmas/SimM.lean — rewriting rules that let `simp` execute the model's state monad symbolically. -/
import Lc3V.Model.Sim
namespace Lc3V
open Sim SimM

@[simp] theorem SimM.bind_apply {α β} (m : SimM α) (f : α → SimM β) (s : Sim) :
    (m >>= f) s = match m s with | (.ok a, s') => f a s' | (.error e, s') => (.error e, s') := rfl
@[simp] theorem SimM.pure_apply {α} (a : α) (s : Sim) : (Pure.pure a : SimM α) s = (.ok a, s) := rfl
@[simp] theorem SimM.getS_apply (s : Sim) : getS s = (.ok s, s) := rfl
@[simp] theorem SimM.modifyS_apply (f : Sim → Sim) (s : Sim) : modifyS f s = (.ok (), f s) := rfl
@[simp] theorem SimM.throwErr_apply {α} (e : SimErr) (s : Sim) : (throwErr e : SimM α) s = (.error (.err e), s) := rfl
@[simp] theorem SimM.throwB_apply {α} (e : StepBreak) (s : Sim) : (throwB e : SimM α) s = (.error e, s) := rfl
@[simp] theorem SimM.liftE_ok {α} (a : α) (s : Sim) : (liftE (.ok a) : SimM α) s = (.ok a, s) := rfl
@[simp] theorem SimM.liftE_err {α} (e : SimErr) (s : Sim) : (liftE (.error e) : SimM α) s = (.error (.err e), s) := rfl

/-- non-strict `get_if_init` / `set_if_init` never fail -/
@[simp] theorem Word.getIfInit_nonstrict {ε} (w : Word) (e : ε) : w.getIfInit false e = .ok w.data := rfl
@[simp] theorem Word.setIfInit_nonstrict {ε} (d w : Word) (e : ε) : d.setIfInit w false e = .ok w := rfl

@[simp] theorem Word.ofData_data (d : W) : (Word.ofData d).data = d := rfl
@[simp] theorem Word.ofData_init (d : W) : (Word.ofData d).init = Word.ALL := rfl

@[simp] theorem Sim.setReg_flags (s : Sim) (r : Reg) (w : Word) : (s.setReg r w).flags = s.flags := rfl
@[simp] theorem Sim.setMem_flags (s : Sim) (a : W) (w : Word) : (s.setMem a w).flags = s.flags := rfl
@[simp] theorem Sim.pushFrame_flags (s : Sim) (a b : W) (t : FrameType) : (s.pushFrame a b t).flags = s.flags := by
  rfl
@[simp] theorem Sim.popFrame_flags (s : Sim) : s.popFrame.flags = s.flags := rfl
@[simp] theorem Sim.setCCOf_flags (s : Sim) (r : W) : (s.setCCOf r).flags = s.flags := rfl

end Lc3V

namespace Lc3V
open Sim SimM

theorem Sim.memAt_setMem (s : Sim) (a b : W) (w : Word) :
    (s.setMem a w).memAt b = if a = b then w else s.memAt b := by
  unfold Sim.memAt Sim.setMem
  simp only [Vector.getElem_set]
  by_cases h : a = b
  · subst h; simp
  · have : ¬ a.toNat = b.toNat := fun e => h (BitVec.eq_of_toNat_eq e)
    simp [h, this]

theorem Sim.reg_setReg (s : Sim) (a b : Reg) (w : Word) :
    (s.setReg a w).reg b = if a = b then w else s.reg b := by
  unfold Sim.reg Sim.setReg
  simp only [Vector.getElem_set]
  by_cases h : a = b
  · subst h; simp
  · have : ¬ a.toNat = b.toNat := fun e => h (BitVec.eq_of_toNat_eq e)
    simp [h, this]

@[simp] theorem Sim.reg_setMem (s : Sim) (a : W) (w : Word) (r : Reg) : (s.setMem a w).reg r = s.reg r := rfl
@[simp] theorem Sim.memAt_setReg (s : Sim) (r : Reg) (w : Word) (a : W) : (s.setReg r w).memAt a = s.memAt a := rfl

/-- explicit result of a permitted, tracked, non-strict write below the I/O page -/
theorem Sim.writeMem_plain_eq (s : Sim) (a : W) (w : Word) (c : Ctx) (hp : c.privileged = true ∨ inUser a = true)
    (hio : a.toNat < IO_START) (hs : c.strict = false) (ht : c.track = true) :
    writeMem a w c s = (.ok (),
      ({ s with log := ⟨a, true, c.privileged, true⟩ :: s.log,
                observer := obsUpdate s.observer a (OBS_WRITTEN ||| (bif s.memAt a != w then OBS_MODIFIED else 0)) } : Sim).setMem a w) := by
  have hg : (!c.privileged && !inUser a) = false := by rcases hp with h | h <;> simp [h]
  have hio' : ¬ IO_START ≤ a.toNat := by omega
  unfold writeMem
  simp only [hg, ioWritePart, storePart, hio', ht, hs, Bool.false_eq_true, if_false, if_true, Word.setIfInit_nonstrict]

/-- explicit result of a permitted, tracked read below the I/O page -/
theorem Sim.readMem_plain_eq (s : Sim) (a : W) (c : Ctx) (hp : c.privileged = true ∨ inUser a = true)
    (hio : a.toNat < IO_START) (ht : c.track = true) :
    readMem a c s = (.ok (s.memAt a),
      { s with log := ⟨a, false, c.privileged, true⟩ :: s.log, observer := obsUpdate s.observer a OBS_READ }) := by
  have hg : (!c.privileged && !inUser a) = false := by rcases hp with h | h <;> simp [h]
  have hio' : ¬ IO_START ≤ a.toNat := by omega
  unfold readMem
  simp only [hg, hio', ht, Bool.false_eq_true, if_false, if_true]

end Lc3V

namespace Lc3V
open Sim SimM
/-- in non-strict mode `set_pc` just sets the PC -/
theorem Sim.setPc_nonstrict (s : Sim) (w : Word) (chk : Bool) (hs : s.flags.strict = false) :
    setPc w chk s = (.ok (), { s with pc := w.data }) := by
  unfold setPc
  simp [hs]
end Lc3V

namespace Lc3V
open Sim SimM
/-- state after the tracked read of a vector-table entry -/
def Sim.afterVectorRead (x : Sim) (vect : W) : Sim :=
  { x with log := ⟨vect, false, x.defaultCtx.privileged, true⟩ :: x.log, observer := obsUpdate x.observer vect OBS_READ }

/-- `call_interrupt` through a vector-table entry in plain memory, non-strict, privileged: read the vector (tracked),
    push a frame whose caller is the interrupted/trapping instruction, jump -/
theorem Sim.callInterrupt_plain (x : Sim) (vect : W) (ft : FrameType) (hs : x.flags.strict = false)
    (hp : PSR.privileged x.psr = true) (hv : vect.toNat < IO_START) :
    callInterrupt vect ft x = (.ok (),
      { ((x.afterVectorRead vect).pushFrame (x.afterVectorRead vect).prefetchPc vect ft) with
        pc := (x.memAt vect).data }) := by
  unfold callInterrupt
  simp only [SimM.bind_apply, SimM.getS_apply, SimM.modifyS_apply]
  rw [Sim.readMem_plain_eq _ _ _ (Or.inl (by simp [defaultCtx, hp])) hv (by simp [defaultCtx])]
  simp only [hs, Word.getIfInit_nonstrict, SimM.liftE_ok, SimM.modifyS_apply]
  rw [Sim.setPc_nonstrict _ _ _ (by simp [hs])]
  rfl
end Lc3V
