/- Lemmas/SortedMap.lean — `insertSortedBy` (the model of `BTreeMap::insert`) on strictly sorted association lists. -/
import Lc3V.Model.Asm
set_option linter.unusedSimpArgs false
namespace Lc3V

/-- keys strictly increasing -/
def SortedKeys {α} : List (Nat × α) → Prop
  | [] => True
  | [_] => True
  | a :: b :: rest => a.1 < b.1 ∧ SortedKeys (b :: rest)

theorem SortedKeys.tail {α} {a : Nat × α} {l : List (Nat × α)} (h : SortedKeys (a :: l)) : SortedKeys l := by
  cases l with
  | nil => trivial
  | cons b rest => exact h.2

theorem SortedKeys.head_lt {α} {a : Nat × α} {l : List (Nat × α)} (h : SortedKeys (a :: l)) : ∀ b ∈ l, a.1 < b.1 := by
  induction l generalizing a with
  | nil => intro b hb; cases hb
  | cons x xs ih =>
    intro b hb
    rcases List.mem_cons.mp hb with rfl | hb
    · exact h.1
    · have := ih (a := x) h.2 b hb
      have := h.1; omega

theorem sortedKeys_cons {α} (a : Nat × α) (l : List (Nat × α)) (hl : SortedKeys l) (h : ∀ b ∈ l, a.1 < b.1) : SortedKeys (a :: l) := by
  cases l with
  | nil => trivial
  | cons b rest => exact ⟨h b (by simp), hl⟩

/-- after an insert the map holds the new entry and every old entry with a different key -/
theorem mem_insertSortedBy {α} (k : Nat) (v : α) (m : List (Nat × α)) (hs : SortedKeys m) (x : Nat × α) :
    x ∈ insertSortedBy k v m ↔ x = (k, v) ∨ (x ∈ m ∧ x.1 ≠ k) := by
  induction m with
  | nil => simp [insertSortedBy]
  | cons y ys ih =>
    obtain ⟨k', v'⟩ := y
    have hlt := hs.head_lt
    unfold insertSortedBy
    by_cases h1 : k < k'
    · rw [if_pos h1]
      constructor
      · intro h
        rcases List.mem_cons.mp h with h | h
        · exact Or.inl h
        · right; refine ⟨h, ?_⟩
          rcases List.mem_cons.mp h with rfl | h'
          · simp only; omega
          · have := hlt x h'; simp only at this; omega
      · rintro (h | ⟨h, _⟩)
        · rw [h]; simp
        · exact List.mem_cons_of_mem _ h
    · rw [if_neg h1]
      by_cases h2 : k = k'
      · subst h2
        rw [if_pos rfl]
        constructor
        · intro h
          rcases List.mem_cons.mp h with h | h
          · exact Or.inl h
          · right; exact ⟨List.mem_cons_of_mem _ h, by have := hlt x h; simp only at this; omega⟩
        · rintro (h | ⟨h, hne⟩)
          · rw [h]; simp
          · rcases List.mem_cons.mp h with rfl | h'
            · exact absurd rfl hne
            · exact List.mem_cons_of_mem _ h'
      · rw [if_neg h2]
        have ih' := ih hs.tail
        constructor
        · intro h
          rcases List.mem_cons.mp h with rfl | h
          · right; exact ⟨by simp, by simp only; omega⟩
          · rcases ih'.mp h with h | ⟨h, hne⟩
            · exact Or.inl h
            · right; exact ⟨List.mem_cons_of_mem _ h, hne⟩
        · rintro (h | ⟨h, hne⟩)
          · exact List.mem_cons_of_mem _ (ih'.mpr (Or.inl h))
          · rcases List.mem_cons.mp h with rfl | h'
            · simp
            · exact List.mem_cons_of_mem _ (ih'.mpr (Or.inr ⟨h', hne⟩))

theorem sorted_insertSortedBy {α} (k : Nat) (v : α) (m : List (Nat × α)) (hs : SortedKeys m) : SortedKeys (insertSortedBy k v m) := by
  induction m with
  | nil => trivial
  | cons y ys ih =>
    obtain ⟨k', v'⟩ := y
    unfold insertSortedBy
    by_cases h1 : k < k'
    · rw [if_pos h1]; exact ⟨h1, hs⟩
    · rw [if_neg h1]
      by_cases h2 : k = k'
      · subst h2; rw [if_pos rfl]
        exact sortedKeys_cons _ _ hs.tail (fun b hb => hs.head_lt b hb)
      · rw [if_neg h2]
        apply sortedKeys_cons _ _ (ih hs.tail)
        intro b hb
        rcases (mem_insertSortedBy k v ys hs.tail b).mp hb with rfl | ⟨hb', _⟩
        · simp only; omega
        · exact hs.head_lt b hb'

/-- a strictly sorted association list is determined by its set of entries -/
theorem sorted_ext {α} : ∀ (l1 l2 : List (Nat × α)), SortedKeys l1 → SortedKeys l2 → (∀ x, x ∈ l1 ↔ x ∈ l2) → l1 = l2 := by
  intro l1
  induction l1 with
  | nil =>
    intro l2 _ _ h
    cases l2 with
    | nil => rfl
    | cons y ys => exact absurd ((h y).mpr (by simp)) (by simp)
  | cons x xs ih =>
    intro l2 h1 h2 h
    cases l2 with
    | nil => exact absurd ((h x).mp (by simp)) (by simp)
    | cons y ys =>
      have hx : x ∈ y :: ys := (h x).mp (by simp)
      have hy : y ∈ x :: xs := (h y).mpr (by simp)
      have hxy : x = y := by
        rcases List.mem_cons.mp hx with e | hx'
        · exact e
        · rcases List.mem_cons.mp hy with e | hy'
          · exact e.symm
          · have a := h2.head_lt x hx'
            have b := h1.head_lt y hy'
            omega
      subst hxy
      congr 1
      apply ih ys h1.tail h2.tail
      intro z
      constructor
      · intro hz
        rcases List.mem_cons.mp ((h z).mp (List.mem_cons_of_mem _ hz)) with e | hz'
        · have := h1.head_lt z hz; rw [e] at this; omega
        · exact hz'
      · intro hz
        rcases List.mem_cons.mp ((h z).mpr (List.mem_cons_of_mem _ hz)) with e | hz'
        · have := h2.head_lt z hz; rw [e] at this; omega
        · exact hz'

/-! ### inserting a whole sorted map into another -/

abbrev insAll {α} (a b : List (Nat × α)) : List (Nat × α) := b.foldl (fun m e => insertSortedBy e.1 e.2 m) a

def CommonKey {α} (a b : List (Nat × α)) : Prop := ∃ x ∈ a, ∃ y ∈ b, x.1 = y.1

theorem sorted_insAll {α} (b : List (Nat × α)) : ∀ a : List (Nat × α), SortedKeys a → SortedKeys (insAll a b) := by
  induction b with
  | nil => intro a h; exact h
  | cons y ys ih => intro a h; simp only [insAll, List.foldl_cons]; exact ih _ (sorted_insertSortedBy _ _ _ h)

/-- without a common key the result holds exactly the entries of both maps -/
theorem mem_insAll {α} (b : List (Nat × α)) : ∀ a : List (Nat × α), SortedKeys a → SortedKeys b → ¬ CommonKey a b →
    ∀ x, x ∈ insAll a b ↔ x ∈ a ∨ x ∈ b := by
  induction b with
  | nil => intro a _ _ _ x; simp [insAll]
  | cons y ys ih =>
    intro a ha hb hc x
    simp only [insAll, List.foldl_cons]
    have hya : ∀ z ∈ a, z.1 ≠ y.1 := fun z hz e => hc ⟨z, hz, y, by simp, e⟩
    have hc' : ¬ CommonKey (insertSortedBy y.1 y.2 a) ys := by
      rintro ⟨z, hz, w, hw, e⟩
      rcases (mem_insertSortedBy y.1 y.2 a ha z).mp hz with rfl | ⟨hz', _⟩
      · have := hb.head_lt w hw; simp only at e; omega
      · exact hc ⟨z, hz', w, List.mem_cons_of_mem _ hw, e⟩
    have := ih (insertSortedBy y.1 y.2 a) (sorted_insertSortedBy _ _ _ ha) hb.tail hc' x
    show x ∈ insAll (insertSortedBy y.1 y.2 a) ys ↔ _
    rw [this, mem_insertSortedBy y.1 y.2 a ha x]
    constructor
    · rintro ((h | ⟨h, _⟩) | h)
      · right; rw [h]; simp
      · exact Or.inl h
      · right; exact List.mem_cons_of_mem _ h
    · rintro (h | h)
      · exact Or.inl (Or.inr ⟨h, hya x h⟩)
      · rcases List.mem_cons.mp h with rfl | h'
        · exact Or.inl (Or.inl rfl)
        · exact Or.inr h'

/-- inserting the entries of a sorted map one by one into the empty map rebuilds it -/
theorem insAll_nil {α} (b : List (Nat × α)) (hb : SortedKeys b) : insAll [] b = b := by
  apply sorted_ext _ _ (sorted_insAll b [] trivial) hb
  intro x
  rw [mem_insAll b [] trivial hb (by rintro ⟨z, hz, _⟩; cases hz) x]
  simp

end Lc3V
