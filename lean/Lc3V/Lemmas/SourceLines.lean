/- Lemmas/SourceLines.lean — the lines of a text (split at '\n') and what `raw_line_span` / `line_span` / `read_line` say about them. -/
import Lc3V.Model.Source
set_option linter.unusedSimpArgs false
set_option linter.unusedVariables false
namespace Lc3V
open SourceInfo

/-- `str::split('\n')`: the lines of a text (always at least one) -/
def splitNl : List Char → List (List Char)
  | [] => [[]]
  | c :: cs =>
    if c = '\n' then [] :: splitNl cs
    else match splitNl cs with
      | [] => [[c]]
      | h :: t => (c :: h) :: t

/-- the lines joined with '\n' again -/
def joinNl : List (List Char) → List Char
  | [] => []
  | [l] => l
  | l :: ls => l ++ '\n' :: joinNl ls

theorem splitNl_ne_nil (cs : List Char) : splitNl cs ≠ [] := by
  cases cs with
  | nil => simp [splitNl]
  | cons c cs =>
    unfold splitNl
    by_cases h : c = '\n'
    · simp [h]
    · simp only [h, if_false]; split <;> simp

theorem joinNl_splitNl (cs : List Char) : joinNl (splitNl cs) = cs := by
  induction cs with
  | nil => rfl
  | cons c cs ih =>
    unfold splitNl
    by_cases h : c = '\n'
    · simp only [h, if_true]
      cases hs : splitNl cs with
      | nil => exact absurd hs (splitNl_ne_nil cs)
      | cons a b => rw [hs] at ih; simp [joinNl, ih]
    · simp only [h, if_false]
      cases hs : splitNl cs with
      | nil => exact absurd hs (splitNl_ne_nil cs)
      | cons a b =>
        rw [hs] at ih
        cases b with
        | nil => simp only [joinNl] at ih ⊢; rw [ih]
        | cons b1 b2 => simp only [joinNl, List.cons_append] at ih ⊢; rw [ih]

theorem splitNl_length (cs : List Char) : (splitNl cs).length = cs.count '\n' + 1 := by
  induction cs with
  | nil => rfl
  | cons c cs ih =>
    unfold splitNl
    by_cases h : c = '\n'
    · subst h; simp [ih]
    · have hb : (c == '\n') = false := by simp [h]
      simp only [h, if_false, List.count_cons, hb]
      cases hs : splitNl cs with
      | nil => exact absurd hs (splitNl_ne_nil cs)
      | cons a b => rw [hs] at ih; simpa using ih

theorem splitNl_no_nl (cs : List Char) : ∀ l ∈ splitNl cs, '\n' ∉ l := by
  induction cs with
  | nil => intro l hl; simp [splitNl] at hl; subst hl; simp
  | cons c cs ih =>
    intro l hl
    unfold splitNl at hl
    by_cases h : c = '\n'
    · simp only [h, if_true, List.mem_cons] at hl
      rcases hl with rfl | hl
      · simp
      · exact ih l hl
    · simp only [h, if_false] at hl
      cases hs : splitNl cs with
      | nil => exact absurd hs (splitNl_ne_nil cs)
      | cons a b =>
        rw [hs] at hl ih
        simp only [List.mem_cons] at hl
        rcases hl with rfl | hl
        · intro hm
          simp only [List.mem_cons] at hm
          rcases hm with hm | hm
          · exact h hm.symm
          · exact ih a (by simp) hm
        · exact ih l (by simp [hl])

theorem blen_append (a b : List Char) : blen (a ++ b) = blen a + blen b := by
  induction a with
  | nil => simp [blen]
  | cons c cs ih => simp only [List.cons_append, blen, ih]; omega

/-- slicing at the byte offsets of a middle part gives that part -/
theorem sliceBytes_mid (P M R : List Char) : sliceBytes (P ++ (M ++ R)) (blen P) (blen P + blen M) = M := by
  induction P with
  | nil =>
    simp only [List.nil_append, blen, Nat.zero_add]
    induction M with
    | nil => cases R <;> simp [sliceBytes, blen]
    | cons c m ih =>
      have := c.utf8Size_pos
      show sliceBytes (c :: (m ++ R)) 0 (c.utf8Size + blen m) = c :: m
      rw [sliceBytes, if_neg (by omega), if_pos rfl, if_pos (by omega)]
      have : c.utf8Size + blen m - c.utf8Size = blen m := by omega
      rw [this, ih]
  | cons c p ih =>
    have := c.utf8Size_pos
    show sliceBytes (c :: (p ++ (M ++ R))) (c.utf8Size + blen p) (c.utf8Size + blen p + blen M) = M
    rw [sliceBytes, if_neg (by omega), if_neg (by omega)]
    have h1 : c.utf8Size + blen p - c.utf8Size = blen p := by omega
    have h2 : c.utf8Size + blen p + blen M - c.utf8Size = blen p + blen M := by omega
    rw [h1, h2, ih]

/-! ### the raw span of line i -/

/-- the text before line `i`: the earlier lines, each with its '\n' -/
def preOf (S : List (List Char)) (i : Nat) : List Char := (S.take i).flatMap (fun l => l ++ ['\n'])

/-- line `i` with its '\n' (the last line has none) -/
def lineNl (S : List (List Char)) (i : Nat) : List Char := S.getD i [] ++ (if i + 1 < S.length then ['\n'] else [])

def startOf (off : Nat) (T : List Nat) (i : Nat) : Nat := if i = 0 then off else T.getD (i - 1) 0 + 1

def stopOf (T : List Nat) (eof : Nat) (i : Nat) : Nat :=
  match T[i]? with
  | some x => min (x + 1) eof
  | none => eof

theorem nlFrom_ge (off : Nat) (cs : List Char) : ∀ x ∈ nlFrom off cs, off ≤ x ∧ x < off + blen cs := by
  induction cs generalizing off with
  | nil => simp [nlFrom]
  | cons c cs ih =>
    have := c.utf8Size_pos
    intro x hx
    unfold nlFrom at hx
    by_cases h : c = '\n'
    · subst h
      have hs : ('\n' : Char).utf8Size = 1 := by decide
      simp only [if_true, List.mem_cons] at hx
      simp only [blen, hs]
      rcases hx with rfl | hx
      · omega
      · have := ih (off + 1) x hx; omega
    · simp only [h, if_false] at hx
      have := ih _ x hx
      simp only [blen]; omega

theorem raw_decomp (cs : List Char) : ∀ (off i : Nat), i < (splitNl cs).length →
    ∃ R, cs = preOf (splitNl cs) i ++ (lineNl (splitNl cs) i ++ R) ∧
      startOf off (nlFrom off cs ++ [off + blen cs]) i = off + blen (preOf (splitNl cs) i) ∧
      stopOf (nlFrom off cs ++ [off + blen cs]) (off + blen cs) i = off + blen (preOf (splitNl cs) i) + blen (lineNl (splitNl cs) i) := by
  induction cs with
  | nil =>
    intro off i hi
    simp only [splitNl, List.length_cons, List.length_nil] at hi
    have : i = 0 := by omega
    subst this
    exact ⟨[], by simp [splitNl, preOf, lineNl], by simp [startOf, preOf, blen], by simp [stopOf, nlFrom, blen, preOf, lineNl, splitNl]⟩
  | cons c cs ih =>
    intro off i hi
    have hsz := c.utf8Size_pos
    by_cases h : c = '\n'
    · subst h
      have hs : ('\n' : Char).utf8Size = 1 := by decide
      have hsplit : splitNl ('\n' :: cs) = [] :: splitNl cs := by simp [splitNl]
      have hT : nlFrom off ('\n' :: cs) ++ [off + blen ('\n' :: cs)] = off :: (nlFrom (off + 1) cs ++ [off + 1 + blen cs]) := by
        simp only [nlFrom, if_true, blen, hs, List.cons_append]
        rw [show off + (1 + blen cs) = off + 1 + blen cs by omega]
      have heof : off + blen ('\n' :: cs) = off + 1 + blen cs := by simp only [blen, hs]; omega
      rw [hsplit] at hi ⊢
      rw [hT, heof]
      have hlen1 := splitNl_length cs
      cases i with
      | zero =>
        refine ⟨cs, ?_, ?_, ?_⟩
        · simp only [preOf, lineNl, List.take_zero, List.flatMap_nil, List.nil_append, List.getD_cons_zero, List.length_cons]
          rw [if_pos (by omega)]; rfl
        · simp [startOf, preOf, blen]
        · simp only [stopOf, List.getElem?_cons_zero, preOf, List.take_zero, List.flatMap_nil, blen, lineNl, List.getD_cons_zero,
            List.length_cons, List.nil_append]
          rw [if_pos (by omega)]
          simp only [blen, hs]; omega
      | succ j =>
        simp only [List.length_cons] at hi
        obtain ⟨R, h1, h2, h3⟩ := ih (off + 1) j (by omega)
        have hpre : preOf ([] :: splitNl cs) (j + 1) = '\n' :: preOf (splitNl cs) j := by
          simp [preOf, List.take_succ_cons, List.flatMap_cons]
        have hline : lineNl ([] :: splitNl cs) (j + 1) = lineNl (splitNl cs) j := by
          simp only [lineNl, List.getD_cons_succ, List.length_cons]
          congr 1
          by_cases hj : j + 1 < (splitNl cs).length
          · rw [if_pos (by omega), if_pos hj]
          · rw [if_neg (by omega), if_neg hj]
        rw [hpre, hline]
        refine ⟨R, by rw [List.cons_append, ← h1], ?_, ?_⟩
        · simp only [startOf, Nat.succ_ne_zero, if_false, Nat.add_sub_cancel, blen, hs]
          cases j with
          | zero =>
            simp only [List.getD_cons_zero]
            simp only [startOf, if_true] at h2
            omega
          | succ j' =>
            simp only [List.getD_cons_succ]
            simp only [startOf, Nat.succ_ne_zero, if_false, Nat.add_sub_cancel] at h2
            omega
        · simp only [stopOf, List.getElem?_cons_succ, blen, hs]
          simp only [stopOf] at h3
          rw [h3]; omega
    · have hsplit : ∃ a b, splitNl cs = a :: b ∧ splitNl (c :: cs) = (c :: a) :: b := by
        cases hs : splitNl cs with
        | nil => exact absurd hs (splitNl_ne_nil cs)
        | cons a b => exact ⟨a, b, rfl, by simp [splitNl, h, hs]⟩
      obtain ⟨a, b, hsa, hsc⟩ := hsplit
      have hT : nlFrom off (c :: cs) ++ [off + blen (c :: cs)] = nlFrom (off + c.utf8Size) cs ++ [off + c.utf8Size + blen cs] := by
        simp only [nlFrom, h, if_false, blen]
        rw [show off + (c.utf8Size + blen cs) = off + c.utf8Size + blen cs by omega]
      have heof : off + blen (c :: cs) = off + c.utf8Size + blen cs := by simp only [blen]; omega
      rw [hsc] at hi ⊢
      rw [hT, heof]
      have hi' : i < (splitNl cs).length := by rw [hsa]; simpa using hi
      obtain ⟨R, h1, h2, h3⟩ := ih (off + c.utf8Size) i hi'
      rw [hsa] at h1 h2 h3
      cases i with
      | zero =>
        have hline : lineNl ((c :: a) :: b) 0 = c :: lineNl (a :: b) 0 := by simp [lineNl]
        have hpre : ∀ S : List (List Char), preOf S 0 = [] := by intro S; simp [preOf]
        rw [hline, hpre] at *
        refine ⟨R, ?_, ?_, ?_⟩
        · simp only [List.nil_append] at h1 ⊢; rw [List.cons_append, ← h1]
        · simp [startOf, blen]
        · rw [h3]; simp only [blen]; omega
      | succ j =>
        have hpre : preOf ((c :: a) :: b) (j + 1) = c :: preOf (a :: b) (j + 1) := by
          simp [preOf, List.take_succ_cons, List.flatMap_cons]
        have hline : lineNl ((c :: a) :: b) (j + 1) = lineNl (a :: b) (j + 1) := by simp [lineNl]
        rw [hpre, hline]
        refine ⟨R, by rw [List.cons_append, ← h1], ?_, ?_⟩
        · simp only [startOf, Nat.succ_ne_zero, if_false] at h2 ⊢
          rw [h2]; simp only [blen]; omega
        · rw [h3]; simp only [blen]; omega

/-! ### trimming -/

theorem mem_takeWhile_p {α} (p : α → Bool) (l : List α) : ∀ c ∈ l.takeWhile p, p c = true := by
  induction l with
  | nil => intro c hc; cases hc
  | cons x xs ih =>
    intro c hc
    by_cases hx : p x = true
    · simp only [List.takeWhile_cons, hx, if_true, List.mem_cons] at hc
      rcases hc with rfl | hc
      · exact hx
      · exact ih c hc
    · simp [List.takeWhile_cons, hx] at hc

theorem trimEnd_decomp (l : List Char) : ∃ suf, l = trimEnd l ++ suf ∧ ∀ c ∈ suf, rustWs c = true := by
  refine ⟨(l.reverse.takeWhile rustWs).reverse, ?_, ?_⟩
  · unfold trimEnd
    rw [← List.reverse_append, List.takeWhile_append_dropWhile, List.reverse_reverse]
  · intro c hc
    rw [List.mem_reverse] at hc
    exact mem_takeWhile_p _ _ c hc

theorem trimEnd_append_ws (l suf : List Char) (h : ∀ c ∈ suf, rustWs c = true) : trimEnd (l ++ suf) = trimEnd l := by
  unfold trimEnd
  rw [List.reverse_append]
  congr 1
  have : ∀ (a b : List Char), (∀ c ∈ a, rustWs c = true) → (a ++ b).dropWhile rustWs = b.dropWhile rustWs := by
    intro a b ha
    induction a with
    | nil => rfl
    | cons x xs ih =>
      simp only [List.cons_append, List.dropWhile_cons, ha x (by simp), if_true]
      exact ih (fun c hc => ha c (by simp [hc]))
  exact this _ _ (fun c hc => h c (by simpa using hc))

theorem trimStart_decomp (l : List Char) : ∃ pre, l = pre ++ trimStart l ∧ ∀ c ∈ pre, rustWs c = true :=
  ⟨l.takeWhile rustWs, (List.takeWhile_append_dropWhile).symm, fun c hc => mem_takeWhile_p _ _ c hc⟩

/-- `str::trim`: without the white space at both ends -/
def trim (l : List Char) : List Char := trimStart (trimEnd l)

theorem dropWhile_head {α} (p : α → Bool) (l : List α) (c : α) (r : List α) (h : l.dropWhile p = c :: r) : p c = false := by
  induction l with
  | nil => cases h
  | cons x xs ih =>
    by_cases hx : p x = true
    · simp only [List.dropWhile_cons, hx, if_true] at h; exact ih h
    · simp only [List.dropWhile_cons, hx, Bool.false_eq_true, if_false] at h
      injection h with h1 _
      subst h1; simpa using hx

/-- the trimmed text neither starts nor ends with white space -/
theorem trim_tight (l : List Char) :
    (∀ c r, trim l = c :: r → rustWs c = false) ∧ (∀ c r, trim l = r ++ [c] → rustWs c = false) := by
  constructor
  · intro c r h; exact dropWhile_head rustWs _ c r h
  · intro c r h
    obtain ⟨pre, hpre, _⟩ := trimStart_decomp (trimEnd l)
    have h2 : trimEnd l = (pre ++ r) ++ [c] := by
      conv => lhs; rw [hpre]
      show pre ++ trim l = _
      rw [h]; simp
    unfold trimEnd at h2
    have h3 : l.reverse.dropWhile rustWs = c :: (pre ++ r).reverse := by
      have := congrArg List.reverse h2
      simpa using this
    exact dropWhile_head rustWs _ c _ h3

/-- **line spans and line text**: for every line `i` of the text, `line_span` is the byte range of the line's text without
    surrounding white space — it starts after the earlier lines (each with its '\n') and the line's leading white space, and
    is as long as the trimmed line — and `read_line` returns exactly the trimmed line -/
theorem line_span_trim (cs : List Char) (i : Nat) (hi : i < (splitNl cs).length) :
    ∃ lead, (∀ c ∈ lead, rustWs c = true) ∧ (∃ trail, (splitNl cs).getD i [] = lead ++ trim ((splitNl cs).getD i []) ++ trail ∧
        ∀ c ∈ trail, rustWs c = true) ∧
      (ofText cs).lineSpan i = some (blen (preOf (splitNl cs) i) + blen lead,
                                     blen (preOf (splitNl cs) i) + blen lead + blen (trim ((splitNl cs).getD i []))) ∧
      (ofText cs).readLine i = some (trim ((splitNl cs).getD i [])) := by
  obtain ⟨R, hcs, hstart, hstop⟩ := raw_decomp cs 0 i hi
  simp only [Nat.zero_add] at hstart hstop
  have hnl : ∀ off (l : List Char), (nlFrom off l).length = l.count '\n' := by
    intro off l
    induction l generalizing off with
    | nil => rfl
    | cons x xs ih2 =>
      by_cases hx : x = '\n'
      · subst hx; simp [nlFrom, ih2]
      · have : (x == '\n') = false := by simp [hx]
        simp [nlFrom, hx, ih2, this]
  have hcount : (ofText cs).countLines = (splitNl cs).length := by
    simp only [ofText, countLines, List.length_append, hnl, splitNl_length, List.length_cons, List.length_nil]
  -- the raw span
  have hraw : (ofText cs).rawLineSpan i = some (blen (preOf (splitNl cs) i), blen (preOf (splitNl cs) i) + blen (lineNl (splitNl cs) i)) := by
    unfold rawLineSpan
    rw [if_pos (by rw [hcount]; exact hi)]
    have h1 : (if i = 0 then 0 else (ofText cs).nl.getD (i - 1) 0 + 1) = blen (preOf (splitNl cs) i) := by
      rw [← hstart]; rfl
    have h2 : (match (ofText cs).nl[i]? with | some j => min (j + 1) (blen (ofText cs).src) | none => blen (ofText cs).src) =
        blen (preOf (splitNl cs) i) + blen (lineNl (splitNl cs) i) := by
      rw [← hstop]; rfl
    simp only [h1]
    exact congrArg (fun x => some (blen (preOf (splitNl cs) i), x)) h2
  generalize hL : (splitNl cs).getD i [] = L
  generalize hP : preOf (splitNl cs) i = P at *
  -- the line with its newline
  obtain ⟨nl, hM, hnlws⟩ : ∃ nl, lineNl (splitNl cs) i = L ++ nl ∧ ∀ c ∈ nl, rustWs c = true := by
    refine ⟨if i + 1 < (splitNl cs).length then ['\n'] else [], by simp only [lineNl, hL], ?_⟩
    intro c hc
    split at hc
    · simp only [List.mem_cons, List.mem_nil_iff, or_false] at hc; subst hc; decide
    · cases hc
  rw [hM] at hcs hraw
  obtain ⟨suf, hsuf, hsufws⟩ := trimEnd_decomp L
  obtain ⟨lead, hlead, hleadws⟩ := trimStart_decomp (trimEnd L)
  have het : trimEnd (L ++ nl) = trimEnd L := trimEnd_append_ws L nl hnlws
  have hslice : sliceBytes cs (blen P) (blen P + blen (L ++ nl)) = L ++ nl := by
    conv => lhs; arg 1; rw [hcs]
    exact sliceBytes_mid P (L ++ nl) R
  have hb1 : blen (L ++ nl) = blen (trimEnd L) + blen suf + blen nl := by
    conv => lhs; rw [hsuf]
    simp only [blen_append]
  have hb2 : blen (trimEnd L) = blen lead + blen (trim L) := by
    conv => lhs; rw [hlead]
    simp only [blen_append]; rfl
  have hspan : (ofText cs).lineSpan i = some (blen P + blen lead, blen P + blen lead + blen (trim L)) := by
    unfold lineSpan
    rw [hraw]
    show some (_, _) = _
    have hsrc : (ofText cs).src = cs := rfl
    simp only [hsrc, hslice, het]
    have : blen (trimStart (trimEnd L)) = blen (trim L) := rfl
    rw [this]
    congr 2 <;> omega
  refine ⟨lead, hleadws, ⟨suf, ?_, hsufws⟩, hspan, ?_⟩
  · conv => lhs; rw [hsuf, hlead]
    rfl
  · unfold readLine
    rw [hspan]
    show some (sliceBytes cs _ _) = _
    congr 1
    have hcs2 : cs = (P ++ lead) ++ (trim L ++ (suf ++ nl ++ R)) := by
      conv => lhs; rw [hcs, hsuf, hlead]
      simp only [List.append_assoc]; rfl
    have hb : blen (P ++ lead) = blen P + blen lead := blen_append _ _
    conv => lhs; arg 1; rw [hcs2]
    rw [← hb]
    exact sliceBytes_mid _ _ _

end Lc3V
