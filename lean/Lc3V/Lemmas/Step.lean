/- Lemmas/Step.lean — the fetch/decode prologue of a step and memory-access lemmas (non-strict mode). -/
import Lc3V.Lemmas.SimM
namespace Lc3V
open Sim SimM

/-- the interrupt this step takes, if any: the poll's winner, when vectored with priority above the PSR's -/
def takenInterrupt (s : Sim) : Option (BitVec 8 × Nat) :=
  match (s.dev.pollInterrupt).1 with
  | some (.vectored v p) => if p > PSR.priority s.psr then some (v, p) else none
  | _ => none

/-- an external (non-vectored) interrupt won the poll -/
def externalInterrupt (s : Sim) : Option Nat :=
  match (s.dev.pollInterrupt).1 with
  | some (.external t) => some t
  | _ => none

/-- The fetch/decode prologue: no interrupt is taken, the fetch at PC succeeds with `w`, and `w` decodes to `instr`. -/
structure Fetches (s : Sim) (instr : SimInstr) (s2 : Sim) : Prop where
  nonstrict : s.flags.strict = false
  noint : takenInterrupt s = none
  noext : externalInterrupt s = none
  fetch : ∃ w, readMem s.pc (afterPoll s).defaultCtx (afterPoll s) = (.ok w, s2) ∧ SimInstr.decode w.data = .ok instr

theorem readMem_flags (a : W) (c : Ctx) (s : Sim) : ((readMem a c s).2).flags = s.flags := by
  unfold readMem
  split
  · rfl
  · simp only
    split <;> (try split) <;> (try split) <;> (try split) <;> simp [setMem]

theorem fetchExec_ok {s1 s2 : Sim} {w : Word} {instr : SimInstr} (hns : s1.flags.strict = false)
    (hf : readMem s1.pc s1.defaultCtx s1 = (.ok w, s2)) (hd : SimInstr.decode w.data = .ok instr) :
    fetchExec s1 =
      (match execInstr instr (execState s2) with
       | (.ok _, s3) => (.ok (), countInstr s3)
       | (.error e, s3) => (.error e, s3)) := by
  have hs2 : s2.flags.strict = false := by
    have := readMem_flags s1.pc s1.defaultCtx s1
    rw [hf] at this; rw [this]; exact hns
  unfold fetchExec
  simp [hf, hd, hns, offsetPc, setPc, hs2, Except.mapError, execState]
  split <;> simp_all

theorem stepInner_fetch {s s2 : Sim} {instr : SimInstr} (h : Fetches s instr s2) :
    stepInner s =
      (match execInstr instr (execState s2) with
       | (.ok _, s3) => (.ok (), countInstr s3)
       | (.error e, s3) => (.error e, s3)) := by
  obtain ⟨hns, hni, hne, w, hf, hd⟩ := h
  have hns1 : (afterPoll s).flags.strict = false := hns
  have hpc : (afterPoll s).pc = s.pc := rfl
  rw [← hpc] at hf
  unfold stepInner
  unfold takenInterrupt at hni
  unfold externalInterrupt at hne
  cases hp : (s.dev.pollInterrupt).1 with
  | none => exact fetchExec_ok hns1 hf hd
  | some i =>
    rw [hp] at hni hne
    cases i with
    | external t => simp at hne
    | vectored v p =>
      have hle : ¬ p > PSR.priority (afterPoll s).psr := by
        intro hgt; simp [afterPoll] at hgt; simp [hgt] at hni
      simp only [hle, if_false]
      exact fetchExec_ok hns1 hf hd

/-- `step`/`step_in` add nothing to a step that ends normally (both trap modes) -/
theorem stepIn_of_stepInner_ok {s s' : Sim} (h : stepInner { s with observer := {}, log := [] } = (.ok (), s')) :
    stepIn s = (.ok (), s') := by
  unfold stepIn step
  simp only [h]
  cases s'.flags.realTraps <;> simp

/-- Under virtual traps an error of the inner step is what `step_in` reports. -/
theorem stepIn_of_stepInner_err_virtual {s s' : Sim} {e : SimErr}
    (h : stepInner { s with observer := {}, log := [] } = (.error (.err e), s')) (hv : s'.flags.realTraps = false) :
    stepIn s = (.error e, s') := by
  unfold stepIn step
  simp [h, hv]

end Lc3V
