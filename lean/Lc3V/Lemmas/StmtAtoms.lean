/- Lemmas/StmtAtoms.lean — a printed statement is a sequence of atoms; lexing it gives the statement's token values. -/
import Lc3V.Lemmas.PrintAtoms
import Lc3V.Lemmas.ParseStmtToks
set_option linter.unusedSimpArgs false
set_option linter.unusedVariables false
namespace Lc3V

def pcAtom {n} (o : PCOff n) : Atom :=
  match o with
  | .off v => sOffAtom v false
  | .label l => labelAtom l.name false

def irAtom (o : ImmOrReg 5) : Atom :=
  match o with
  | .imm v => sOffAtom v false
  | .reg r => regAtom r false

def brAtom (cc : BitVec 3) : Atom := ⟨brSpelling cc, .ident (.kw (brKw cc)), true⟩

def instrAtoms : AsmInstr → List Atom
  | .add d s o => [kwAtom .ADD true, regAtom d false, commaAtom, regAtom s false, commaAtom, irAtom o]
  | .and d s o => [kwAtom .AND true, regAtom d false, commaAtom, regAtom s false, commaAtom, irAtom o]
  | .br cc o => [brAtom cc, pcAtom o]
  | .jmp b => [kwAtom .JMP true, regAtom b false]
  | .jsr o => [kwAtom .JSR true, pcAtom o]
  | .jsrr b => [kwAtom .JSRR true, regAtom b false]
  | .ld d o => [kwAtom .LD true, regAtom d false, commaAtom, pcAtom o]
  | .ldi d o => [kwAtom .LDI true, regAtom d false, commaAtom, pcAtom o]
  | .ldr d b o => [kwAtom .LDR true, regAtom d false, commaAtom, regAtom b false, commaAtom, sOffAtom o false]
  | .lea d o => [kwAtom .LEA true, regAtom d false, commaAtom, pcAtom o]
  | .not d s => [kwAtom .NOT true, regAtom d false, commaAtom, regAtom s false]
  | .ret => [kwAtom .RET false] | .rti => [kwAtom .RTI false]
  | .st s o => [kwAtom .ST true, regAtom s false, commaAtom, pcAtom o]
  | .sti s o => [kwAtom .STI true, regAtom s false, commaAtom, pcAtom o]
  | .str s b o => [kwAtom .STR true, regAtom s false, commaAtom, regAtom b false, commaAtom, sOffAtom o false]
  | .trap v => [kwAtom .TRAP true, hexAtom 2 v.toNat false]
  | .nop o => [kwAtom .NOP true, pcAtom o]
  | .getc => [kwAtom .GETC false] | .out => [kwAtom .OUT false] | .putc => [kwAtom .PUTC false] | .puts => [kwAtom .PUTS false]
  | .in_ => [kwAtom .IN false] | .putsp => [kwAtom .PUTSP false] | .halt => [kwAtom .HALT false]

theorem pcAtom_render {n} (o : PCOff n) : (pcAtom o).chars = showPCOff o ∧ (pcAtom o).blank = false ∧ (pcAtom o).tok = pcTok o := by
  cases o <;> exact ⟨rfl, rfl, rfl⟩

theorem irAtom_render (o : ImmOrReg 5) : (irAtom o).chars = showImmOrReg o ∧ (irAtom o).blank = false ∧ (irAtom o).tok = irTok o := by
  cases o <;> exact ⟨rfl, rfl, rfl⟩

/-- the printer's output for an instruction is the rendering of its atoms -/
theorem showInstr_atoms (i : AsmInstr) (hcc : ∀ cc o, i = .br cc o → cc ≠ 0) : showInstr i = renderAtoms (instrAtoms i) := by
  cases i with
  | br cc o =>
    have h := hcc cc o rfl
    simp only [showInstr, instrAtoms, renderAtoms, brAtom, (pcAtom_render o).1, (pcAtom_render o).2.1, h, ne_eq, not_false_eq_true,
      if_true, brSpelling, sp, List.append_nil, Bool.false_eq_true, if_false, List.append_assoc]
  | add d s o => simp only [showInstr, instrAtoms, renderAtoms, kwAtom, regAtom, commaAtom, (irAtom_render o).1, (irAtom_render o).2.1, cs,
      List.append_nil, Bool.false_eq_true, if_false, if_true, List.append_assoc, List.cons_append, List.nil_append]; rfl
  | and d s o => simp only [showInstr, instrAtoms, renderAtoms, kwAtom, regAtom, commaAtom, (irAtom_render o).1, (irAtom_render o).2.1, cs,
      List.append_nil, Bool.false_eq_true, if_false, if_true, List.append_assoc, List.cons_append, List.nil_append]; rfl
  | ld d o | ldi d o | lea d o | st d o | sti d o =>
    simp only [showInstr, instrAtoms, renderAtoms, kwAtom, regAtom, commaAtom, (pcAtom_render o).1, (pcAtom_render o).2.1, cs,
      List.append_nil, Bool.false_eq_true, if_false, if_true, List.append_assoc, List.cons_append, List.nil_append]; rfl
  | jsr o | nop o =>
    simp only [showInstr, instrAtoms, renderAtoms, kwAtom, (pcAtom_render o).1, (pcAtom_render o).2.1,
      List.append_nil, Bool.false_eq_true, if_false, if_true, List.append_assoc, List.cons_append, List.nil_append]; rfl
  | ldr d b o | str d b o =>
    simp only [showInstr, instrAtoms, renderAtoms, kwAtom, regAtom, commaAtom, sOffAtom, cs,
      List.append_nil, Bool.false_eq_true, if_false, if_true, List.append_assoc, List.cons_append, List.nil_append]; rfl
  | _ => simp only [showInstr, instrAtoms, renderAtoms, kwAtom, regAtom, commaAtom, hexAtom, cs,
      List.append_nil, Bool.false_eq_true, if_false, if_true, List.append_assoc, List.cons_append, List.nil_append] <;> rfl


theorem instrAtoms_toks (i : AsmInstr) : (instrAtoms i).map (·.tok) = instrToks i := by
  cases i <;> simp [instrAtoms, instrToks, kwAtom, regAtom, commaAtom, brAtom, sOffAtom, hexAtom, (pcAtom_render _).2.2, (irAtom_render _).2.2]

/-- operands that are labels must be labels the lexer can produce -/
def pcOk {n} (o : PCOff n) : Prop := match o with | .off _ => True | .label l => labelOk l.name = true

def instrOk : AsmInstr → Prop
  | .br cc o => cc ≠ 0 ∧ pcOk o
  | .jsr o | .ld _ o | .ldi _ o | .lea _ o | .st _ o | .sti _ o | .nop o => pcOk o
  | _ => True

theorem pcAtom_ok {n : Nat} (h1 : 1 ≤ n) (h2 : n ≤ 16) (o : PCOff n) (h : pcOk o) : (pcAtom o).Ok := by
  cases o with
  | off v => exact sOffAtom_ok h1 h2 v false
  | label l => exact labelAtom_ok l.name h false

theorem irAtom_ok (o : ImmOrReg 5) : (irAtom o).Ok := by
  cases o with
  | imm v => exact sOffAtom_ok (by omega) (by omega) v false
  | reg r => exact regAtom_ok r false

theorem brAtom_ok (cc : BitVec 3) (h : cc ≠ 0) : (brAtom cc).Ok := by
  have key : ∀ n : Fin 8, n.val ≠ 0 → kwSpellingOk (brSpelling (BitVec.ofNat 3 n.val)) (brKw (BitVec.ofNat 3 n.val)) = true := by decide +kernel
  have hk := key ⟨cc.toNat, cc.isLt⟩ (by intro e; apply h; apply BitVec.eq_of_toNat_eq; simpa using e)
  simp only [ofNat3_toNat] at hk
  refine ⟨?_, fun rest hr => kw_lex _ _ hk rest hr.endsWord⟩
  cases hc : brSpelling cc with
  | nil => rw [hc] at hk; simp [kwSpellingOk] at hk
  | cons c w =>
    rw [hc] at hk
    simp only [kwSpellingOk, Bool.and_eq_true, bne_iff_ne, ne_eq] at hk
    exact ⟨c, w, by simp [brAtom, hc], hk.1.2, hk.2⟩

theorem comma_chars : commaAtom.chars = ',' :: [] := rfl

theorem instrAtoms_ok (i : AsmInstr) (h : instrOk i) : (∀ a ∈ instrAtoms i, a.Ok) ∧ SeqOk (instrAtoms i) := by
  have kw := kwAtom_ok
  have rg := regAtom_ok
  have cm := commaAtom_ok
  have cseq : ∀ (a : Atom) (rest : List Atom), SeqOk (commaAtom :: rest) → SeqOk (a :: commaAtom :: rest) :=
    fun a rest hr => ⟨Or.inr ⟨[], rfl⟩, hr⟩
  cases i with
  | br cc o =>
    refine ⟨?_, ⟨Or.inl rfl, trivial⟩⟩
    intro a ha
    simp only [instrAtoms, List.mem_cons, List.mem_nil_iff, or_false] at ha
    rcases ha with rfl | rfl
    · exact brAtom_ok cc h.1
    · exact pcAtom_ok (by omega) (by omega) o h.2
  | add d s o | and d s o =>
    refine ⟨?_, ⟨Or.inl rfl, cseq _ _ ⟨Or.inl rfl, cseq _ _ ⟨Or.inl rfl, trivial⟩⟩⟩⟩
    intro a ha
    simp only [instrAtoms, List.mem_cons, List.mem_nil_iff, or_false] at ha
    rcases ha with rfl | rfl | rfl | rfl | rfl | rfl
    · exact kw _ _
    · exact rg _ _
    · exact cm
    · exact rg _ _
    · exact cm
    · exact irAtom_ok o
  | ldr d b o | str d b o =>
    refine ⟨?_, ⟨Or.inl rfl, cseq _ _ ⟨Or.inl rfl, cseq _ _ ⟨Or.inl rfl, trivial⟩⟩⟩⟩
    intro a ha
    simp only [instrAtoms, List.mem_cons, List.mem_nil_iff, or_false] at ha
    rcases ha with rfl | rfl | rfl | rfl | rfl | rfl
    · exact kw _ _
    · exact rg _ _
    · exact cm
    · exact rg _ _
    · exact cm
    · exact sOffAtom_ok (by omega) (by omega) o false
  | ld d o | ldi d o | lea d o | st d o | sti d o =>
    refine ⟨?_, ⟨Or.inl rfl, cseq _ _ ⟨Or.inl rfl, trivial⟩⟩⟩
    intro a ha
    simp only [instrAtoms, List.mem_cons, List.mem_nil_iff, or_false] at ha
    rcases ha with rfl | rfl | rfl | rfl
    · exact kw _ _
    · exact rg _ _
    · exact cm
    · exact pcAtom_ok (by omega) (by omega) o h
  | not d s0 =>
    refine ⟨?_, ⟨Or.inl rfl, cseq _ _ ⟨Or.inl rfl, trivial⟩⟩⟩
    intro a ha
    simp only [instrAtoms, List.mem_cons, List.mem_nil_iff, or_false] at ha
    rcases ha with rfl | rfl | rfl | rfl
    · exact kw _ _
    · exact rg _ _
    · exact cm
    · exact rg _ _
  | jsr o | nop o =>
    refine ⟨?_, ⟨Or.inl rfl, trivial⟩⟩
    intro a ha
    simp only [instrAtoms, List.mem_cons, List.mem_nil_iff, or_false] at ha
    rcases ha with rfl | rfl
    · exact kw _ _
    · exact pcAtom_ok (by omega) (by omega) o h
  | jmp b | jsrr b =>
    refine ⟨?_, ⟨Or.inl rfl, trivial⟩⟩
    intro a ha
    simp only [instrAtoms, List.mem_cons, List.mem_nil_iff, or_false] at ha
    rcases ha with rfl | rfl
    · exact kw _ _
    · exact rg _ _
  | trap v =>
    refine ⟨?_, ⟨Or.inl rfl, trivial⟩⟩
    intro a ha
    simp only [instrAtoms, List.mem_cons, List.mem_nil_iff, or_false] at ha
    rcases ha with rfl | rfl
    · exact kw _ _
    · exact hexAtom_ok 2 v.toNat (by have := v.isLt; omega) false
  | _ =>
    refine ⟨?_, trivial⟩
    intro a ha
    simp only [instrAtoms, List.mem_cons, List.mem_nil_iff, or_false] at ha
    subst ha
    exact kw _ _


/-! ### directives -/

def dirAtoms : Directive → List Atom
  | .orig a => [dirAtom dOrig true, hexAtom 4 a.toNat false]
  | .fill (.off v) => [dirAtom dFill true, uOffAtom v false]
  | .fill (.label l) => [dirAtom dFill true, labelAtom l.name false]
  | .blkw n => [dirAtom dBlkw true, uOffAtom n false]
  | .stringz s => [dirAtom dStringz true, strAtom s]
  | .end_ => [dirAtom dEnd false]
  | .external l => [dirAtom dExternal true, labelAtom l.name false]

theorem showDirective_atoms (d : Directive) : showDirective d = renderAtoms (dirAtoms d) := by
  cases d with
  | orig a => simp only [showDirective, dirAtoms, renderAtoms, dirAtom, hexAtom, dOrig, List.cons_append, List.nil_append,
      List.append_nil, if_true, Bool.false_eq_true, if_false, List.append_assoc]
  | fill v => cases v <;> simp only [showDirective, dirAtoms, renderAtoms, dirAtom, uOffAtom, labelAtom, showPCOffU, dFill, List.cons_append,
      List.nil_append, List.append_nil, if_true, Bool.false_eq_true, if_false, List.append_assoc]
  | blkw n => simp only [showDirective, dirAtoms, renderAtoms, dirAtom, uOffAtom, dBlkw, List.cons_append, List.nil_append,
      List.append_nil, if_true, Bool.false_eq_true, if_false, List.append_assoc]
  | stringz s0 => simp only [showDirective, dirAtoms, renderAtoms, dirAtom, strAtom, dStringz, List.cons_append, List.nil_append,
      List.append_nil, if_true, Bool.false_eq_true, if_false, List.append_assoc]
  | end_ => simp only [showDirective, dirAtoms, renderAtoms, dirAtom, dEnd, List.cons_append, List.nil_append,
      List.append_nil, if_true, Bool.false_eq_true, if_false, List.append_assoc]
  | external l => simp only [showDirective, dirAtoms, renderAtoms, dirAtom, labelAtom, dExternal, List.cons_append, List.nil_append,
      List.append_nil, if_true, Bool.false_eq_true, if_false, List.append_assoc]

theorem dirAtoms_toks (d : Directive) : (dirAtoms d).map (·.tok) = dirToks d := by
  cases d with
  | fill v => cases v <;> rfl
  | _ => rfl

def dirOk : Directive → Prop
  | .fill (.label l) => labelOk l.name = true
  | .external l => labelOk l.name = true
  | .stringz s => (∀ c ∈ s, StrOk c) ∧ blen s < 65535
  | _ => True

theorem dirAtoms_ok (d : Directive) (h : dirOk d) : (∀ a ∈ dirAtoms d, a.Ok) ∧ SeqOk (dirAtoms d) := by
  have dn : ∀ name ∈ [dOrig, dFill, dBlkw, dStringz, dEnd, dExternal], ∀ c ∈ name, isWordC c = true := by decide
  cases d with
  | orig a =>
    refine ⟨?_, ⟨Or.inl rfl, trivial⟩⟩
    intro x hx
    simp only [dirAtoms, List.mem_cons, List.mem_nil_iff, or_false] at hx
    rcases hx with rfl | rfl
    · exact dirAtom_ok _ (dn dOrig (by simp)) _
    · exact hexAtom_ok 4 a.toNat (by have := a.isLt; omega) false
  | fill v =>
    cases v with
    | off v =>
      refine ⟨?_, ⟨Or.inl rfl, trivial⟩⟩
      intro x hx
      simp only [dirAtoms, List.mem_cons, List.mem_nil_iff, or_false] at hx
      rcases hx with rfl | rfl
      · exact dirAtom_ok _ (dn dFill (by simp)) _
      · exact uOffAtom_ok (by omega) v false
    | label l =>
      refine ⟨?_, ⟨Or.inl rfl, trivial⟩⟩
      intro x hx
      simp only [dirAtoms, List.mem_cons, List.mem_nil_iff, or_false] at hx
      rcases hx with rfl | rfl
      · exact dirAtom_ok _ (dn dFill (by simp)) _
      · exact labelAtom_ok l.name h false
  | blkw n =>
    refine ⟨?_, ⟨Or.inl rfl, trivial⟩⟩
    intro x hx
    simp only [dirAtoms, List.mem_cons, List.mem_nil_iff, or_false] at hx
    rcases hx with rfl | rfl
    · exact dirAtom_ok _ (dn dBlkw (by simp)) _
    · exact uOffAtom_ok (by omega) n false
  | stringz s =>
    refine ⟨?_, ⟨Or.inl rfl, trivial⟩⟩
    intro x hx
    simp only [dirAtoms, List.mem_cons, List.mem_nil_iff, or_false] at hx
    rcases hx with rfl | rfl
    · exact dirAtom_ok _ (dn dStringz (by simp)) _
    · exact strAtom_ok s h.1 h.2
  | end_ =>
    refine ⟨?_, trivial⟩
    intro x hx
    simp only [dirAtoms, List.mem_cons, List.mem_nil_iff, or_false] at hx
    subst hx
    exact dirAtom_ok _ (dn dEnd (by simp)) _
  | external l =>
    refine ⟨?_, ⟨Or.inl rfl, trivial⟩⟩
    intro x hx
    simp only [dirAtoms, List.mem_cons, List.mem_nil_iff, or_false] at hx
    rcases hx with rfl | rfl
    · exact dirAtom_ok _ (dn dExternal (by simp)) _
    · exact labelAtom_ok l.name h false

/-! ### statements -/

def kindAtoms : StmtKind → List Atom
  | .instr i => instrAtoms i
  | .directive d => dirAtoms d

def kindOk : StmtKind → Prop
  | .instr i => instrOk i
  | .directive d => dirOk d ∧ ∀ n, d = .blkw n → n ≠ 0

def stmtAtoms (s : Stmt) : List Atom := s.labels.map (fun l => labelAtom l.name true) ++ kindAtoms s.nucleus

/-- a statement as the parser can produce it, with string literals over the characters C36 allows -/
def StmtOk (s : Stmt) : Prop := (∀ l ∈ s.labels, labelOk l.name = true) ∧ kindOk s.nucleus

theorem render_append (a b : List Atom) : renderAtoms (a ++ b) = renderAtoms a ++ renderAtoms b := by
  induction a with
  | nil => rfl
  | cons x xs ih => simp [renderAtoms, ih]

theorem showStmt_atoms (s : Stmt) (h : StmtOk s) : showStmt s = renderAtoms (stmtAtoms s) := by
  unfold showStmt stmtAtoms
  rw [render_append]
  congr 1
  · induction s.labels with
    | nil => rfl
    | cons l ls ih => simpa [renderAtoms, labelAtom, sp] using ih
  · cases hk : s.nucleus with
    | instr i =>
      have hi : instrOk i := by have := h.2; rw [hk] at this; exact this
      exact showInstr_atoms i (by intro cc o e; subst e; exact hi.1)
    | directive d => exact showDirective_atoms d

theorem stmtAtoms_toks (s : Stmt) : (stmtAtoms s).map (·.tok) = labelToks s.labels ++ kindToks s.nucleus := by
  unfold stmtAtoms
  rw [List.map_append]
  congr 1
  · simp [labelToks, labelAtom]
  · cases s.nucleus with
    | instr i => exact instrAtoms_toks i
    | directive d => exact dirAtoms_toks d

theorem seqOk_append_blank (a : List Atom) (b : List Atom) (ha : ∀ x ∈ a, x.blank = true) (hb : SeqOk b) : SeqOk (a ++ b) := by
  induction a with
  | nil => exact hb
  | cons x xs ih =>
    have hx := ha x (by simp)
    have := ih (fun y hy => ha y (by simp [hy]))
    cases hxs : xs ++ b with
    | nil => simp [hxs]; trivial
    | cons y ys =>
      show SeqOk (x :: (xs ++ b))
      rw [hxs]
      exact ⟨Or.inl hx, by rw [← hxs]; exact this⟩

theorem stmtAtoms_ok (s : Stmt) (h : StmtOk s) : (∀ a ∈ stmtAtoms s, a.Ok) ∧ SeqOk (stmtAtoms s) := by
  have hk : (∀ a ∈ kindAtoms s.nucleus, a.Ok) ∧ SeqOk (kindAtoms s.nucleus) := by
    cases hn : s.nucleus with
    | instr i => have := h.2; rw [hn] at this; exact instrAtoms_ok i this
    | directive d => have := h.2; rw [hn] at this; exact dirAtoms_ok d this.1
  refine ⟨?_, ?_⟩
  · intro a ha
    unfold stmtAtoms at ha
    rcases List.mem_append.mp ha with h1 | h1
    · obtain ⟨l, hl, rfl⟩ := List.mem_map.mp h1
      exact labelAtom_ok l.name (h.1 l hl) true
    · exact hk.1 a h1
  · unfold stmtAtoms
    apply seqOk_append_blank _ _ _ hk.2
    intro x hx
    obtain ⟨l, _, rfl⟩ := List.mem_map.mp hx
    rfl

end Lc3V
