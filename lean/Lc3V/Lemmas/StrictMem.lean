/- Lemmas/StrictMem.lean — `write_mem` under strict vs. non-strict contexts. -/
import Lc3V.Lemmas.StrictRel
set_option linter.unusedSimpArgs false
set_option linter.unusedVariables false
namespace Lc3V
open Sim SimM

theorem Rel.writeMem (a : W) (d : Word) (c : Ctx) : Rel (Sim.writeMem a d c) (Sim.writeMem a d { c with strict := false }) := by
  intro s hs
  obtain ⟨mem, regs, pc, psr, savedSp, frameNo, frames, srDefs, alloca, instrRun, prefetch, pause, observer, mcr, flags, bps, iregs, dev, log⟩ := s
  simp only at hs
  unfold OutRel StrictErr
  simp only [Sim.writeMem, ioWritePart, storePart, Sim.ns, iregLookup, iregWrite, Word.getIfInit, Word.setIfInit]
  generalize Option.map (fun x => x.snd) (List.find? (fun p => p.fst == a) iregs) = look
  rcases look with _ | ir
  · cases hst : c.strict <;> cases hi : d.isInit <;> by_cases h1 : (!c.privileged && !inUser a) = true <;>
      by_cases h2 : IO_START ≤ a.toNat <;> by_cases h3 : c.track = true <;>
      simp only [h1, h2, h3, hst, hi, if_true, if_false, Bool.false_eq_true, Bool.not_true, Bool.not_false, Bool.or_true, Bool.true_or,
        Bool.or_false, Bool.false_or] <;>
      first
        | exact ⟨hs, Or.inr rfl⟩
        | exact ⟨hs, Or.inr trivial⟩
        | exact ⟨hs, Or.inl ⟨_, rfl, by decide⟩⟩
        | (generalize dev.ioWrite a d.data = rw
           obtain ⟨r, dev'⟩ := rw
           cases r <;> first | exact ⟨hs, Or.inr rfl⟩ | exact ⟨hs, Or.inr trivial⟩ | exact ⟨hs, Or.inl ⟨_, rfl, by decide⟩⟩)
  · cases ir <;> cases hst : c.strict <;> cases hi : d.isInit <;> by_cases h1 : (!c.privileged && !inUser a) = true <;>
      by_cases h2 : IO_START ≤ a.toNat <;> by_cases h3 : c.track = true <;>
      simp only [h1, h2, h3, hst, hi, if_true, if_false, Bool.false_eq_true, Bool.not_true, Bool.not_false, Bool.or_true, Bool.true_or,
        Bool.or_false, Bool.false_or] <;>
      first
        | exact ⟨hs, Or.inr rfl⟩
        | exact ⟨hs, Or.inr trivial⟩
        | exact ⟨hs, Or.inl ⟨_, rfl, by decide⟩⟩

end Lc3V
