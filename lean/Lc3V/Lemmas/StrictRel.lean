/- Lemmas/StrictRel.lean — a relational calculus for "the strict run and the non-strict run of the same computation":
   either the strict run stops with a strict (uninitialised-value) error, or both runs give the same result and the same
   state up to the strict flag. -/
import Lc3V.Lemmas.SimM
set_option linter.unusedSimpArgs false
set_option linter.unusedVariables false
namespace Lc3V
open Sim SimM

/-- the same machine with strict mode switched off -/
def Sim.ns (s : Sim) : Sim := { s with flags := { s.flags with strict := false } }

@[simp] theorem Sim.ns_strict (s : Sim) : s.ns.flags.strict = false := rfl
@[simp] theorem Sim.ns_reg (s : Sim) (r : Reg) : s.ns.reg r = s.reg r := rfl
@[simp] theorem Sim.ns_memAt (s : Sim) (a : W) : s.ns.memAt a = s.memAt a := rfl
@[simp] theorem Sim.ns_pc (s : Sim) : s.ns.pc = s.pc := rfl
@[simp] theorem Sim.ns_psr (s : Sim) : s.ns.psr = s.psr := rfl
@[simp] theorem Sim.ns_prefetch (s : Sim) : s.ns.prefetch = s.prefetch := rfl
@[simp] theorem Sim.ns_inAlloca (s : Sim) (a : W) : s.ns.inAlloca a = s.inAlloca a := rfl
@[simp] theorem Sim.ns_operand2 (s : Sim) (o : ImmOrReg 5) : s.ns.operand2 o = s.operand2 o := by cases o <;> rfl
@[simp] theorem Sim.ns_realTraps (s : Sim) : s.ns.flags.realTraps = s.flags.realTraps := rfl
@[simp] theorem Sim.ns_ignorePriv (s : Sim) : s.ns.flags.ignorePriv = s.flags.ignorePriv := rfl
@[simp] theorem Sim.ns_prefetchPc (s : Sim) : s.ns.prefetchPc = s.prefetchPc := rfl
@[simp] theorem Sim.ns_dev (s : Sim) : s.ns.dev = s.dev := rfl
theorem Sim.ns_defaultCtx (s : Sim) : s.ns.defaultCtx = { s.defaultCtx with strict := false } := rfl

/-- a result that is a strict-mode error -/
def StrictErr {α} (r : Except StepBreak α) : Prop := ∃ e, r = .error (.err e) ∧ e.isStrict = true

/-- outcome of the strict run vs. outcome of the non-strict run -/
def OutRel {α} (o1 o2 : Except StepBreak α × Sim) : Prop :=
  o1.2.flags.strict = true ∧ (StrictErr o1.1 ∨ o2 = (o1.1, o1.2.ns))

/-- `m1` run on a strict machine and `m2` run on the same machine with strict off are related -/
def Rel {α} (m1 m2 : SimM α) : Prop := ∀ s, s.flags.strict = true → OutRel (m1 s) (m2 s.ns)

theorem OutRel.same {α} (r : Except StepBreak α) (s : Sim) (h : s.flags.strict = true) : OutRel (r, s) (r, s.ns) := ⟨h, Or.inr rfl⟩
theorem OutRel.strict {α} (e : SimErr) (he : e.isStrict = true) (s : Sim) (h : s.flags.strict = true) (o : Except StepBreak α × Sim) :
    OutRel ((.error (.err e) : Except StepBreak α), s) o := ⟨h, Or.inl ⟨e, rfl, he⟩⟩

theorem outRel_bind {α β} (m1 m2 : SimM α) (f1 f2 : α → SimM β) (s t : Sim) (h : OutRel (m1 s) (m2 t))
    (hf : ∀ a s', s'.flags.strict = true → OutRel (f1 a s') (f2 a s'.ns)) : OutRel ((m1 >>= f1) s) ((m2 >>= f2) t) := by
  obtain ⟨hfl, hr⟩ := h
  simp only [SimM.bind_apply]
  rcases h1 : m1 s with ⟨r, s'⟩
  rw [h1] at hfl hr
  simp only at hfl hr
  rcases hr with ⟨e, he, hs⟩ | hr
  · subst he
    exact ⟨hfl, Or.inl ⟨e, rfl, hs⟩⟩
  · rw [hr]
    cases r with
    | ok a => exact hf a s' hfl
    | error e => exact ⟨hfl, Or.inr rfl⟩

theorem Rel.bind {α β} {m1 m2 : SimM α} {f1 f2 : α → SimM β} (h : Rel m1 m2) (hf : ∀ a, Rel (f1 a) (f2 a)) :
    Rel (m1 >>= f1) (m2 >>= f2) :=
  fun s hs => outRel_bind m1 m2 f1 f2 s s.ns (h s hs) (fun a s' hs' => hf a s' hs')

theorem Rel.pure {α} (a : α) : Rel (Pure.pure a : SimM α) (Pure.pure a) := fun s hs => OutRel.same _ _ hs

/-- reading the state: the continuation is run with the strict state on one side and the non-strict one on the other -/
theorem Rel.getS {β} {f1 f2 : Sim → SimM β} (h : ∀ s, s.flags.strict = true → OutRel (f1 s s) (f2 s.ns s.ns)) :
    Rel (SimM.getS >>= f1) (SimM.getS >>= f2) := by
  intro s hs
  simp only [SimM.bind_apply, SimM.getS_apply]
  exact h s hs

/-- a state update that neither reads nor writes the flags -/
theorem Rel.modify (f : Sim → Sim) (h1 : ∀ s, f s.ns = (f s).ns) (h2 : ∀ s, (f s).flags = s.flags) : Rel (modifyS f) (modifyS f) := by
  intro s hs
  simp only [SimM.modifyS_apply]
  refine ⟨by rw [h2]; exact hs, Or.inr ?_⟩
  rw [h1]

theorem Rel.throwB {α} (b : StepBreak) : Rel (SimM.throwB b : SimM α) (SimM.throwB b) := fun s hs => OutRel.same _ _ hs
theorem Rel.throwErr {α} (e : SimErr) : Rel (SimM.throwErr e : SimM α) (SimM.throwErr e) := fun s hs => OutRel.same _ _ hs

theorem Rel.ite {α} (c : Prop) [Decidable c] {a1 a2 b1 b2 : SimM α} (ha : Rel a1 a2) (hb : Rel b1 b2) :
    Rel (if c then a1 else b1) (if c then a2 else b2) := by
  by_cases h : c <;> simp only [h, if_true, if_false] <;> assumption

/-- `get_if_init` under strict vs. non-strict -/
theorem Rel.getIfInit (w : Word) (e : SimErr) (he : e.isStrict = true) :
    Rel (liftE (w.getIfInit true e)) (liftE (w.getIfInit false e)) := by
  intro s hs
  unfold Word.getIfInit
  by_cases hi : w.isInit = true
  · simp only [hi, Bool.not_true, Bool.false_or, if_true, SimM.liftE_ok, Bool.not_false, Bool.true_or]
    exact OutRel.same _ _ hs
  · simp only [hi, Bool.not_true, Bool.false_or, Bool.false_eq_true, if_false, SimM.liftE_err]
    exact OutRel.strict e he s hs _

theorem Rel.setRegIfInit (r : Reg) (v : Word) (b : Bool) : Rel (Sim.setRegIfInit r v b) (Sim.setRegIfInit r v false) := by
  intro s hs
  unfold Sim.setRegIfInit Word.setIfInit
  simp only [SimM.bind_apply, SimM.getS_apply, Bool.not_false, Bool.true_or, if_true, SimM.liftE_ok, SimM.modifyS_apply]
  by_cases hc : (!b || v.isInit) = true
  · simp only [hc, if_true, SimM.liftE_ok, SimM.modifyS_apply]
    exact ⟨hs, Or.inr rfl⟩
  · simp only [hc, Bool.false_eq_true, if_false, SimM.liftE_err]
    exact OutRel.strict _ (by decide) s hs _

end Lc3V

namespace Lc3V
open Sim SimM

/-- `read_mem` does not look at the strict flag and does not change the flags -/
theorem Sim.readMem_ns (a : W) (c : Ctx) (s : Sim) :
    readMem a c s.ns = ((readMem a c s).1, (readMem a c s).2.ns) ∧ (readMem a c s).2.flags = s.flags := by
  obtain ⟨mem, regs, pc, psr, savedSp, frameNo, frames, srDefs, alloca, instrRun, prefetch, pause, observer, mcr, flags, bps, iregs, dev, log⟩ := s
  rcases hr : dev.ioRead a c.ioEffects with ⟨r, dev'⟩
  simp only [readMem, Sim.ns, iregLookup, iregRead, hr]
  generalize Option.map (fun x => x.snd) (List.find? (fun p => p.fst == a) iregs) = look
  cases r <;> cases look <;> by_cases h1 : (!c.privileged && !inUser a) = true <;> by_cases h2 : IO_START ≤ a.toNat <;>
    by_cases h3 : c.track = true <;> simp only [h1, h2, h3, if_true, if_false, Bool.false_eq_true] <;>
    first | exact ⟨rfl, rfl⟩ | exact ⟨trivial, trivial⟩ | trivial

theorem Rel.readMem (a : W) (c : Ctx) (b : Bool) : Rel (Sim.readMem a c) (Sim.readMem a { c with strict := b }) := by
  intro s hs
  have h := Sim.readMem_ns a c s
  refine ⟨by rw [h.2]; exact hs, Or.inr ?_⟩
  exact h.1

end Lc3V

