/- Lemmas/StrictRun.lean — strict vs. non-strict over whole runs (`run_while` and the public calls built on it). -/
import Lc3V.Lemmas.StrictStep
set_option linter.unusedSimpArgs false
set_option linter.unusedVariables false
namespace Lc3V
open Sim SimM

theorem tripwireEval_ns (tw : Tripwire) (iter : Nat) (s : Sim) :
    tripwireEval tw iter s.ns = ((tripwireEval tw iter s).1, (tripwireEval tw iter s).2.ns) ∧
    (tripwireEval tw iter s).2.flags = s.flags := by
  cases tw with
  | always => exact ⟨rfl, rfl⟩
  | limit a b => exact ⟨rfl, rfl⟩
  | over c => exact ⟨rfl, rfl⟩
  | out c => exact ⟨rfl, rfl⟩
  | mcrAt k a b =>
    unfold tripwireEval
    by_cases h : iter = k <;> simp only [h, if_true, if_false] <;> first | exact ⟨rfl, rfl⟩ | exact ⟨trivial, trivial⟩ | exact ⟨rfl, trivial⟩ | exact ⟨trivial, rfl⟩

/-- the event loop: either the strict run ends with a strict error, or the non-strict run ends the same way in the same
    state (up to the flag); both run out of fuel together otherwise -/
theorem runLoop_conservative (tw : Tripwire) : ∀ (fuel iter : Nat) (s : Sim), s.flags.strict = true →
    match runLoop tw fuel iter s with
    | none => True
    | some (r, s') => s'.flags.strict = true ∧ ((∃ e, r = .error e ∧ e.isStrict = true) ∨ runLoop tw fuel iter s.ns = some (r, s'.ns)) := by
  intro fuel
  induction fuel with
  | zero => intro iter s hs; simp [runLoop]
  | succ f ih =>
    intro iter s hs
    unfold runLoop
    have hm : s.ns.mcr = s.mcr := rfl
    rw [hm]
    by_cases hmcr : (!s.mcr) = true
    · simp only [hmcr, if_true]; first | exact ⟨hs, Or.inr rfl⟩ | exact ⟨hs, Or.inr trivial⟩
    · simp only [hmcr, if_false, Bool.false_eq_true]
      obtain ⟨ht1, ht2⟩ := tripwireEval_ns tw iter s
      rw [ht1]
      rcases hte : tripwireEval tw iter s with ⟨go, s1⟩
      rw [hte] at ht2
      simp only at ht2
      have hs1 : s1.flags.strict = true := by rw [ht2]; exact hs
      simp only
      by_cases hgo : (!go) = true
      · simp only [hgo, if_true]; first | exact ⟨hs1, Or.inr rfl⟩ | exact ⟨hs1, Or.inr trivial⟩
      · simp only [hgo, if_false, Bool.false_eq_true]
        have hstep := step_strict_conservative s1 hs1
        rcases hst : Sim.step s1 with ⟨r, s2⟩
        rw [hst] at hstep
        obtain ⟨hfl, hr⟩ := hstep
        simp only at hfl hr
        rcases hr with ⟨e, he, hstrict⟩ | hr
        · subst he
          simp only
          exact ⟨hfl, Or.inl ⟨e, rfl, hstrict⟩⟩
        · rw [hr]
          cases r with
          | error b =>
            cases b with
            | halt => exact ⟨hfl, Or.inr rfl⟩
            | err e => exact ⟨hfl, Or.inr rfl⟩
          | ok u =>
            simp only
            have hb : s2.ns.breakpoints.any (bpCheck s2.ns) = s2.breakpoints.any (bpCheck s2) := by
              have : bpCheck s2.ns = bpCheck s2 := by funext b; cases b <;> rfl
              rw [this]; rfl
            rw [hb]
            by_cases hbp : s2.breakpoints.any (bpCheck s2) = true
            · simp only [hbp, if_true]; first | exact ⟨hfl, Or.inr rfl⟩ | exact ⟨hfl, Or.inr trivial⟩
            · simp only [hbp, if_false, Bool.false_eq_true]
              exact ih (iter + 1) s2 hfl

end Lc3V
