/- Lemmas/StrictStep.lean — every piece of a simulator step, strict run vs. non-strict run. -/
import Lc3V.Lemmas.StrictMem
set_option linter.unusedSimpArgs false
set_option linter.unusedVariables false
namespace Lc3V
open Sim SimM

theorem Rel.setPc (w : Word) (chk : Bool) : Rel (Sim.setPc w chk) (Sim.setPc w chk) := by
  intro s hs
  unfold Sim.setPc OutRel StrictErr
  cases hw : w.isInit <;> cases chk <;> cases hm : (s.memAt w.data).isInit <;>
    simp [Word.getIfInit, hw, hm, hs, SimErr.isStrict] <;> rfl

theorem Rel.offsetPc (off : W) (chk : Bool) : Rel (Sim.offsetPc off chk) (Sim.offsetPc off chk) := by
  unfold Sim.offsetPc
  apply Rel.getS
  intro s hs
  exact Rel.setPc _ _ s hs

theorem Rel.callSubroutine (addr : W) : Rel (Sim.callSubroutine addr) (Sim.callSubroutine addr) := by
  unfold Sim.callSubroutine
  refine Rel.bind (Rel.modify _ (fun _ => rfl) (fun _ => rfl)) (fun _ => ?_)
  refine Rel.bind (Rel.modify _ (fun _ => rfl) (fun _ => rfl)) (fun _ => ?_)
  exact Rel.setPc _ _

theorem Rel.callInterrupt (vect : W) (ft : FrameType) : Rel (Sim.callInterrupt vect ft) (Sim.callInterrupt vect ft) := by
  unfold Sim.callInterrupt
  apply Rel.getS
  intro s hs
  simp only [hs, Sim.ns_strict, Sim.ns_defaultCtx]
  refine (Rel.bind (Rel.readMem _ _ false) (fun w => ?_)) s hs
  refine Rel.bind (Rel.getIfInit w _ (by decide)) (fun addr => ?_)
  refine Rel.bind (Rel.modify _ (fun _ => rfl) (fun _ => rfl)) (fun _ => ?_)
  exact Rel.setPc _ _

theorem Rel.virtualBreak (brk : StepBreak) : Rel (Sim.virtualBreak brk) (Sim.virtualBreak brk) := by
  unfold Sim.virtualBreak
  apply Rel.getS
  intro s hs
  simp only [Sim.ns_prefetch]
  refine (Rel.ite _ ?_ (Rel.throwB brk)) s hs
  exact Rel.bind (Rel.offsetPc _ _) (fun _ => Rel.bind (Rel.modify _ (fun _ => rfl) (fun _ => rfl)) (fun _ => Rel.throwB brk))

theorem Rel.enterCore (vect : W) (priority : Option Nat) (oldPsr oldPc : W) :
    Rel (Sim.enterCore vect priority oldPsr oldPc) (Sim.enterCore vect priority oldPsr oldPc) := by
  unfold Sim.enterCore
  refine Rel.bind (Rel.modify _ (fun _ => rfl) (fun _ => rfl)) (fun _ => ?_)
  apply Rel.getS
  intro s hs
  simp only [hs, Sim.ns_strict, Sim.ns_defaultCtx, Sim.ns_reg]
  refine (Rel.bind (Rel.getIfInit _ _ (by decide)) (fun sp => ?_)) s hs
  refine Rel.bind (Rel.modify _ (fun _ => rfl) (fun _ => rfl)) (fun _ => ?_)
  refine Rel.bind (Rel.writeMem _ _ _) (fun _ => ?_)
  refine Rel.bind (Rel.writeMem _ _ _) (fun _ => ?_)
  refine Rel.bind (Rel.modify _ (fun _ => rfl) (fun _ => rfl)) (fun _ => ?_)
  cases priority with
  | none => exact Rel.callInterrupt _ _
  | some p => exact Rel.bind (Rel.modify _ (fun _ => rfl) (fun _ => rfl)) (fun _ => Rel.callInterrupt _ _)

theorem Rel.enterSupervisor (vect : W) (priority : Option Nat) :
    Rel (Sim.enterSupervisor vect priority) (Sim.enterSupervisor vect priority) := by
  intro s hs
  unfold Sim.enterSupervisor
  have h : (if (!PSR.privileged s.ns.psr) = true then s.ns.swapStacks else s.ns) =
      (if (!PSR.privileged s.psr) = true then s.swapStacks else s).ns := by
    by_cases hp : (!PSR.privileged s.psr) = true
    · simp only [Sim.ns_psr, hp, if_true]; rfl
    · simp only [Sim.ns_psr, hp, if_false]; rfl
  rw [h]
  exact Rel.enterCore vect priority s.psr s.pc _ (by by_cases hp : (!PSR.privileged s.psr) = true <;> simp only [hp, if_true, if_false] <;> exact hs)

theorem Rel.handleInterrupt (vect : W) (priority : Option Nat) :
    Rel (Sim.handleInterrupt vect priority) (Sim.handleInterrupt vect priority) := by
  intro s hs
  unfold Sim.handleInterrupt
  have hg : s.ns.gated priority = s.gated priority := by cases priority <;> rfl
  rw [hg]
  by_cases h1 : s.gated priority = true
  · simp only [h1, if_true]; exact OutRel.same _ _ hs
  · simp only [h1, if_false, Sim.ns_realTraps]
    by_cases h2 : (!s.flags.realTraps) = true
    · simp only [h2, if_true]
      cases realIntVect vect with
      | none => exact Rel.enterSupervisor vect priority s hs
      | some brk => exact Rel.virtualBreak brk s hs
    · simp only [h2, if_false]
      exact Rel.enterSupervisor vect priority s hs

theorem Rel.modify' (f : Sim → Sim) (h1 : ∀ s, f s.ns = (f s).ns) (h2 : ∀ s, (f s).flags = s.flags) : Rel (modifyS f) (modifyS f) :=
  Rel.modify f h1 h2

macro "rel_mod" : tactic => `(tactic| (refine Rel.modify _ ?_ ?_ <;> intro _ <;> rfl))

theorem Rel.execInstr (i : SimInstr) : Rel (Sim.execInstr i) (Sim.execInstr i) := by
  cases i with
  | br cc off =>
    simp only [Sim.execInstr]
    apply Rel.getS; intro s hs
    simp only [Sim.ns_psr]
    exact (Rel.ite _ (Rel.offsetPc _ _) (Rel.pure _)) s hs
  | add dr sr1 sr2 =>
    simp only [Sim.execInstr]
    apply Rel.getS; intro s hs
    simp only [hs, Sim.ns_strict, Sim.ns_reg, Sim.ns_operand2]
    exact (Rel.bind (Rel.setRegIfInit _ _ true) (fun _ => by rel_mod)) s hs
  | and dr sr1 sr2 =>
    simp only [Sim.execInstr]
    apply Rel.getS; intro s hs
    simp only [hs, Sim.ns_strict, Sim.ns_reg, Sim.ns_operand2]
    exact (Rel.bind (Rel.setRegIfInit _ _ true) (fun _ => by rel_mod)) s hs
  | not dr sr =>
    simp only [Sim.execInstr]
    apply Rel.getS; intro s hs
    simp only [hs, Sim.ns_strict, Sim.ns_reg]
    exact (Rel.bind (Rel.setRegIfInit _ _ true) (fun _ => by rel_mod)) s hs
  | ld dr off =>
    simp only [Sim.execInstr]
    apply Rel.getS; intro s hs
    simp only [hs, Sim.ns_strict, Sim.ns_pc, Sim.ns_inAlloca, Sim.ns_defaultCtx, Bool.true_and, Bool.false_and]
    exact (Rel.bind (Rel.readMem _ _ false) (fun v => Rel.bind (Rel.setRegIfInit _ _ _) (fun _ => by rel_mod))) s hs
  | ldr dr b off =>
    simp only [Sim.execInstr]
    apply Rel.getS; intro s hs
    simp only [hs, Sim.ns_strict, Sim.ns_reg, Sim.ns_inAlloca, Sim.ns_defaultCtx, Bool.true_and, Bool.false_and]
    exact (Rel.bind (Rel.getIfInit _ _ (by decide)) (fun base =>
      Rel.bind (Rel.readMem _ _ false) (fun v => Rel.bind (Rel.setRegIfInit _ _ _) (fun _ => by rel_mod)))) s hs
  | ldi dr off =>
    simp only [Sim.execInstr]
    apply Rel.getS; intro s hs
    simp only [hs, Sim.ns_strict, Sim.ns_pc, Sim.ns_defaultCtx, Bool.true_and, Bool.false_and]
    refine (Rel.bind (Rel.readMem _ _ false) (fun pw => Rel.bind (Rel.getIfInit _ _ (by decide)) (fun ea => ?_))) s hs
    apply Rel.getS; intro s2 hs2
    simp only [Sim.ns_inAlloca, Sim.ns_defaultCtx]
    exact (Rel.bind (Rel.readMem _ _ false) (fun v => Rel.bind (Rel.setRegIfInit _ _ _) (fun _ => by rel_mod))) s2 hs2
  | st sr off =>
    simp only [Sim.execInstr]
    apply Rel.getS; intro s hs
    simp only [hs, Sim.ns_strict, Sim.ns_pc, Sim.ns_reg, Sim.ns_inAlloca, Sim.ns_defaultCtx, Bool.true_and, Bool.false_and]
    exact Rel.writeMem _ _ _ s hs
  | str sr b off =>
    simp only [Sim.execInstr]
    apply Rel.getS; intro s hs
    simp only [hs, Sim.ns_strict, Sim.ns_reg, Sim.ns_inAlloca, Sim.ns_defaultCtx, Bool.true_and, Bool.false_and]
    exact (Rel.bind (Rel.getIfInit _ _ (by decide)) (fun base => Rel.writeMem _ _ _)) s hs
  | sti sr off =>
    simp only [Sim.execInstr]
    apply Rel.getS; intro s hs
    simp only [hs, Sim.ns_strict, Sim.ns_pc, Sim.ns_defaultCtx, Bool.true_and, Bool.false_and]
    refine (Rel.bind (Rel.readMem _ _ false) (fun pw => Rel.bind (Rel.getIfInit _ _ (by decide)) (fun ea => ?_))) s hs
    apply Rel.getS; intro s2 hs2
    simp only [Sim.ns_inAlloca, Sim.ns_defaultCtx, Sim.ns_reg]
    exact Rel.writeMem _ _ _ s2 hs2
  | jsr op =>
    simp only [Sim.execInstr]
    apply Rel.getS; intro s hs
    simp only [hs, Sim.ns_strict, Sim.ns_pc, Sim.ns_reg]
    exact (Rel.bind (Rel.getIfInit _ _ (by decide)) (fun addr => Rel.callSubroutine addr)) s hs
  | jmp b =>
    simp only [Sim.execInstr]
    apply Rel.getS; intro s hs
    simp only [Sim.ns_reg]
    refine (Rel.bind (Rel.setPc _ _) (fun _ => Rel.ite _ ?_ (Rel.pure _))) s hs
    rel_mod
  | lea dr off =>
    simp only [Sim.execInstr]
    apply Rel.getS; intro s hs
    refine Rel.modify _ ?_ ?_ s hs <;> intro _ <;> rfl
  | trap v =>
    simp only [Sim.execInstr]
    apply Rel.getS; intro s hs
    exact Rel.handleInterrupt _ _ s hs
  | rti =>
    simp only [Sim.execInstr]
    apply Rel.getS; intro s hs
    simp only [hs, Sim.ns_strict, Sim.ns_psr, Sim.ns_ignorePriv, Sim.ns_reg, Sim.ns_defaultCtx]
    refine (Rel.ite _ ?_ (Rel.throwErr _)) s hs
    refine Rel.bind (Rel.getIfInit _ _ (by decide)) (fun sp => ?_)
    refine Rel.bind (Rel.readMem _ _ false) (fun pcw => ?_)
    refine Rel.bind (Rel.getIfInit _ _ (by decide)) (fun pc => ?_)
    refine Rel.bind (Rel.readMem _ _ false) (fun psrw => ?_)
    refine Rel.bind (Rel.getIfInit _ _ (by decide)) (fun psr => ?_)
    refine Rel.bind (by rel_mod) (fun _ => ?_)
    refine Rel.bind (Rel.setPc _ _) (fun _ => ?_)
    refine Rel.bind (by rel_mod) (fun _ => ?_)
    apply Rel.getS; intro s3 hs3
    simp only [Sim.ns_psr]
    refine (Rel.ite _ (Rel.bind ?_ (fun _ => ?_)) ?_) s3 hs3
    · rel_mod
    · rel_mod
    · rel_mod

theorem Rel.liftE {α} (x : Except SimErr α) : Rel (SimM.liftE x) (SimM.liftE x) := by
  intro s hs
  cases x <;> exact OutRel.same _ _ hs

theorem Rel.fetchExec : Rel Sim.fetchExec Sim.fetchExec := by
  unfold Sim.fetchExec
  apply Rel.getS; intro s hs
  simp only [hs, Sim.ns_strict, Sim.ns_pc, Sim.ns_defaultCtx]
  refine (Rel.bind (Rel.readMem _ _ false) (fun w => ?_)) s hs
  refine Rel.bind (Rel.getIfInit _ _ (by decide)) (fun word => ?_)
  refine Rel.bind (Rel.liftE _) (fun instr => ?_)
  refine Rel.bind (Rel.offsetPc _ _) (fun _ => ?_)
  refine Rel.bind (by rel_mod) (fun _ => ?_)
  refine Rel.bind (Rel.execInstr instr) (fun _ => ?_)
  rel_mod

theorem Rel.stepInner : Rel Sim.stepInner Sim.stepInner := by
  intro s hs
  unfold Sim.stepInner
  have h1 : afterPoll s.ns = (afterPoll s).ns := rfl
  have h2 : (afterPoll s).flags.strict = true := hs
  simp only [Sim.ns_dev, h1]
  cases (s.dev.pollInterrupt).1 with
  | none => exact Rel.fetchExec _ h2
  | some i =>
    cases i with
    | external tag => exact OutRel.same _ _ h2
    | vectored vect prio =>
      simp only [Sim.ns_psr]
      by_cases hp : prio > PSR.priority (afterPoll s).psr
      · simp only [hp, if_true]; exact Rel.handleInterrupt _ _ _ h2
      · simp only [hp, if_false]; exact Rel.fetchExec _ h2

/-- **strict mode is conservative** (whole step): run one `step` on a machine with strict mode on, and on the same machine
    with strict mode off.  Either the strict step stops with one of the strict (uninitialised-value) errors, or both steps
    return the same result (ok, HALT, or the same non-strict error) and the same machine state up to the strict flag:
    registers, PC, PSR, memory, devices, frames, observer and the instruction counter all agree. -/
theorem step_strict_conservative (s : Sim) (hs : s.flags.strict = true) : OutRel (Sim.step s) (Sim.step s.ns) := by
  have h := Rel.stepInner s hs
  unfold Sim.step
  rcases h1 : Sim.stepInner s with ⟨r, s'⟩
  rw [h1] at h
  obtain ⟨hfl, hr⟩ := h
  simp only at hfl hr
  rcases hr with ⟨e, he, hstrict⟩ | hr
  · subst he
    have : OutRel ((.error (.err e) : Except StepBreak Unit), s') (Sim.step s.ns) := OutRel.strict e hstrict s' hfl _
    by_cases hrt : (!s'.flags.realTraps) = true
    · simp only [hrt, if_true]; exact this
    · simp only [hrt, if_false, Bool.false_eq_true]
      cases e <;> first | exact this | (simp [SimErr.isStrict] at hstrict)
  · rw [hr]
    simp only [Sim.ns_realTraps]
    by_cases hrt : (!s'.flags.realTraps) = true
    · simp only [hrt, if_true]; exact OutRel.same _ _ hfl
    · simp only [hrt, if_false, Bool.false_eq_true]
      cases r with
      | ok u => exact OutRel.same _ _ hfl
      | error b =>
        cases b with
        | halt => exact Rel.handleInterrupt _ _ s' hfl
        | err e => cases e <;> first | exact Rel.handleInterrupt _ _ s' hfl | exact OutRel.same _ _ hfl

end Lc3V
