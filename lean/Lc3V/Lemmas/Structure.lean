/- Lemmas/Structure.lean — a program that passes the first pass is a sequence of `.orig … .end` blocks. -/
import Lc3V.Lemmas.Image
import Lc3V.Lemmas.TwoPass
set_option linter.unusedSimpArgs false
set_option linter.unusedVariables false
namespace Lc3V

/-- the block discipline of pass 1, abstracted to "inside a block?" -/
def stepB (b : Bool) (k : StmtKind) : Option Bool :=
  match k with
  | .directive (.orig _) => if b then none else some true
  | .directive .end_ => if b then some false else none
  | _ => some b

def Bal : Bool → List Stmt → Bool → Prop
  | b, [], b' => b = b'
  | b, s :: rest, b' => ∃ b1, stepB b s.nucleus = some b1 ∧ (b = false → s.labels = []) ∧ Bal b1 rest b'

theorem cas_instr (c : Option Cursor) (i : AsmInstr) (sp : Span) : cursorAfterSpecial c (.instr i) sp = c := rfl
theorem cas_orig (c : Option Cursor) (a : W) (sp : Span) : cursorAfterSpecial c (.directive (.orig a)) sp = some ⟨a, false, sp⟩ := rfl
theorem cas_end (c : Option Cursor) (sp : Span) : cursorAfterSpecial c (.directive .end_) sp = none := rfl
theorem cas_external (c : Option Cursor) (l : Label) (sp : Span) : cursorAfterSpecial c (.directive (.external l)) sp = c := rfl
theorem cas_fill (c : Option Cursor) (v : PCOff 16) (sp : Span) : cursorAfterSpecial c (.directive (.fill v)) sp = c := rfl
theorem cas_blkw (c : Option Cursor) (n : W) (sp : Span) : cursorAfterSpecial c (.directive (.blkw n)) sp = c := rfl
theorem cas_stringz (c : Option Cursor) (x : List Char) (sp : Span) : cursorAfterSpecial c (.directive (.stringz x)) sp = c := rfl

theorem pass1Step_stepB (st st' : P1) (s : Stmt) (h : pass1Step st s = .ok st') :
    stepB st.cursor.isSome s.nucleus = some st'.cursor.isSome := by
  obtain ⟨h1, h2, h3⟩ := pass1Step_cursor st st' s h
  unfold stepB
  cases hn : s.nucleus with
  | instr i =>
    rw [hn] at h3
    simp only [cas_instr, cas_orig, cas_end, cas_external, cas_fill, cas_blkw, cas_stringz] at h3
    cases hc : st.cursor with
    | none => rw [hc] at h3; simp only at h3; rw [h3]
    | some c => rw [hc] at h3; obtain ⟨c', hc', _⟩ := h3; rw [hc']; rfl
  | directive d =>
    cases d with
    | orig a =>
      have := h1 a hn
      rw [hn] at h3
      simp only [cas_instr, cas_orig, cas_end, cas_external, cas_fill, cas_blkw, cas_stringz] at h3
      obtain ⟨c', hc', _⟩ := h3
      rw [this, hc']; rfl
    | end_ =>
      have := h2 hn
      rw [hn] at h3
      simp only [cas_instr, cas_orig, cas_end, cas_external, cas_fill, cas_blkw, cas_stringz] at h3
      rw [this, h3]; rfl
    | external l =>
      rw [hn] at h3
      simp only [cas_instr, cas_orig, cas_end, cas_external, cas_fill, cas_blkw, cas_stringz] at h3
      cases hc : st.cursor with
      | none => rw [hc] at h3; simp only at h3; rw [h3]
      | some c => rw [hc] at h3; obtain ⟨c', hc', _⟩ := h3; rw [hc']; rfl
    | fill v =>
      rw [hn] at h3
      simp only [cas_instr, cas_orig, cas_end, cas_external, cas_fill, cas_blkw, cas_stringz] at h3
      cases hc : st.cursor with
      | none => rw [hc] at h3; simp only at h3; rw [h3]
      | some c => rw [hc] at h3; obtain ⟨c', hc', _⟩ := h3; rw [hc']; rfl
    | blkw n =>
      rw [hn] at h3
      simp only [cas_instr, cas_orig, cas_end, cas_external, cas_fill, cas_blkw, cas_stringz] at h3
      cases hc : st.cursor with
      | none => rw [hc] at h3; simp only at h3; rw [h3]
      | some c => rw [hc] at h3; obtain ⟨c', hc', _⟩ := h3; rw [hc']; rfl
    | stringz x =>
      rw [hn] at h3
      simp only [cas_instr, cas_orig, cas_end, cas_external, cas_fill, cas_blkw, cas_stringz] at h3
      cases hc : st.cursor with
      | none => rw [hc] at h3; simp only at h3; rw [h3]
      | some c => rw [hc] at h3; obtain ⟨c', hc', _⟩ := h3; rw [hc']; rfl

/-- outside a block a statement cannot carry labels (their address would be undetermined) -/
theorem pass1Step_outer_labels (st st' : P1) (s : Stmt) (h : pass1Step st s = .ok st') : st.cursor.isSome = false → s.labels = [] := by
  intro hc
  unfold pass1Step at h
  cases hl : p1Labels st s with
  | error e => rw [hl] at h; cases h
  | ok labels =>
    unfold p1Labels at hl
    by_cases he : s.labels.isEmpty = true
    · exact List.isEmpty_iff.mp he
    · simp only [he, Bool.false_eq_true, if_false] at hl
      cases hcur : st.cursor with
      | none => rw [hcur] at hl; cases hl
      | some c => rw [hcur] at hc; cases hc

theorem pass1_fold_bal : ∀ (stmts : List Stmt) (st st' : P1), stmts.foldlM pass1Step st = .ok st' →
    Bal st.cursor.isSome stmts st'.cursor.isSome := by
  intro stmts
  induction stmts with
  | nil => intro st st' h; simp only [List.foldlM_nil] at h; cases h; rfl
  | cons s rest ih =>
    intro st st' h
    rw [List.foldlM_cons] at h
    cases hs : pass1Step st s with
    | error e => rw [hs] at h; cases h
    | ok st1 => rw [hs] at h; exact ⟨_, pass1Step_stepB st st1 s hs, pass1Step_outer_labels st st1 s hs, ih st1 st' h⟩

/-- inside a block: a body without `.orig`/`.end`, then the `.end` -/
theorem seg_in : ∀ (stmts : List Stmt), Bal true stmts false →
    ∃ body endS rest, stmts = body ++ endS :: rest ∧ (∀ s ∈ body, isOrigEnd s.nucleus = false) ∧
      endS.nucleus = .directive .end_ ∧ Bal false rest false := by
  intro stmts
  induction stmts with
  | nil => intro h; cases h
  | cons s rest ih =>
    intro h
    obtain ⟨b1, h1, _, h2⟩ := h
    unfold stepB at h1
    cases hn : s.nucleus with
    | instr i =>
      rw [hn] at h1; cases h1
      obtain ⟨body, endS, rest', e1, e2, e3, e4⟩ := ih h2
      exact ⟨s :: body, endS, rest', (by rw [e1]; rfl), (fun x hx => by
        rcases List.mem_cons.mp hx with rfl | hx
        · rw [hn]; rfl
        · exact e2 x hx), e3, e4⟩
    | directive d =>
      rw [hn] at h1
      cases d with
      | orig a => cases h1
      | end_ => cases h1; exact ⟨[], s, rest, rfl, (fun x hx => by cases hx), hn, h2⟩
      | external l =>
        cases h1
        obtain ⟨body, endS, rest', e1, e2, e3, e4⟩ := ih h2
        exact ⟨s :: body, endS, rest', (by rw [e1]; rfl), (fun x hx => by
          rcases List.mem_cons.mp hx with rfl | hx
          · rw [hn]; rfl
          · exact e2 x hx), e3, e4⟩
      | fill v =>
        cases h1
        obtain ⟨body, endS, rest', e1, e2, e3, e4⟩ := ih h2
        exact ⟨s :: body, endS, rest', (by rw [e1]; rfl), (fun x hx => by
          rcases List.mem_cons.mp hx with rfl | hx
          · rw [hn]; rfl
          · exact e2 x hx), e3, e4⟩
      | blkw n =>
        cases h1
        obtain ⟨body, endS, rest', e1, e2, e3, e4⟩ := ih h2
        exact ⟨s :: body, endS, rest', (by rw [e1]; rfl), (fun x hx => by
          rcases List.mem_cons.mp hx with rfl | hx
          · rw [hn]; rfl
          · exact e2 x hx), e3, e4⟩
      | stringz y =>
        cases h1
        obtain ⟨body, endS, rest', e1, e2, e3, e4⟩ := ih h2
        exact ⟨s :: body, endS, rest', (by rw [e1]; rfl), (fun x hx => by
          rcases List.mem_cons.mp hx with rfl | hx
          · rw [hn]; rfl
          · exact e2 x hx), e3, e4⟩

/-- no labels on the statements outside a block, nor on the `.orig` itself -/
def Blk.NoOuterLabels (b : Blk) : Prop := (∀ s ∈ b.gap, s.labels = []) ∧ b.origS.labels = []

/-- outside a block: a sequence of blocks, each possibly preceded by statements that are neither `.orig` nor `.end` -/
theorem seg_out : ∀ (n : Nat) (stmts : List Stmt), stmts.length ≤ n → Bal false stmts false →
    ∃ (blks : List Blk) (tail : List Stmt), stmts = blks.flatMap Blk.stmts ++ tail ∧ (∀ b ∈ blks, b.WF ∧ b.NoOuterLabels) ∧
      ∀ s ∈ tail, isOrigEnd s.nucleus = false ∧ s.labels = [] := by
  intro n
  induction n with
  | zero =>
    intro stmts hl _
    have : stmts = [] := List.length_eq_zero_iff.mp (by omega)
    subst this
    exact ⟨[], [], rfl, (fun b hb => by cases hb), (fun s hs => by cases hs)⟩
  | succ n ih =>
    intro stmts hl h
    cases stmts with
    | nil => exact ⟨[], [], rfl, (fun b hb => by cases hb), (fun s hs => by cases hs)⟩
    | cons s rest =>
      obtain ⟨b1, h1, hlab, h2⟩ := h
      have hlab := hlab rfl
      simp only [List.length_cons] at hl
      have other : isOrigEnd s.nucleus = false → b1 = false →
          ∃ (blks : List Blk) (tail : List Stmt), s :: rest = blks.flatMap Blk.stmts ++ tail ∧ (∀ b ∈ blks, b.WF ∧ b.NoOuterLabels) ∧
            ∀ x ∈ tail, isOrigEnd x.nucleus = false ∧ x.labels = [] := by
        intro hk hb1
        subst hb1
        obtain ⟨blks, tail, e1, e2, e3⟩ := ih rest (by omega) h2
        cases blks with
        | nil =>
          refine ⟨[], s :: tail, (by rw [e1]; rfl), (fun b hb => by cases hb), fun x hx => ?_⟩
          rcases List.mem_cons.mp hx with rfl | hx
          · exact ⟨hk, hlab⟩
          · exact e3 x hx
        | cons b bs =>
          refine ⟨{ b with gap := s :: b.gap } :: bs, tail, ?_, fun x hx => ?_, e3⟩
          · rw [e1]; simp [Blk.stmts]
          · rcases List.mem_cons.mp hx with rfl | hx
            · have hb := (e2 b (by simp)).1
              have hb2 := (e2 b (by simp)).2
              exact ⟨⟨(fun y hy => by
                rcases List.mem_cons.mp hy with rfl | hy
                · exact hk
                · exact hb.gap y hy), hb.orig, hb.body, hb.end_⟩, (fun y hy => by
                rcases List.mem_cons.mp hy with rfl | hy
                · exact hlab
                · exact hb2.1 y hy), hb2.2⟩
            · exact e2 x (by simp [hx])
      unfold stepB at h1
      cases hn : s.nucleus with
      | instr i => rw [hn] at h1; cases h1; exact other (by rw [hn]; rfl) rfl
      | directive d =>
        rw [hn] at h1
        cases d with
        | end_ => cases h1
        | external l => cases h1; exact other (by rw [hn]; rfl) rfl
        | fill v => cases h1; exact other (by rw [hn]; rfl) rfl
        | blkw k => cases h1; exact other (by rw [hn]; rfl) rfl
        | stringz y => cases h1; exact other (by rw [hn]; rfl) rfl
        | orig a =>
          cases h1
          obtain ⟨body, endS, rest', e1, e2, e3, e4⟩ := seg_in rest h2
          have hlen : rest'.length ≤ n := by
            have := congrArg List.length e1
            simp only [List.length_append, List.length_cons] at this
            omega
          obtain ⟨blks, tail, f1, f2, f3⟩ := ih rest' hlen e4
          refine ⟨⟨[], s, a, body, endS⟩ :: blks, tail, ?_, fun x hx => ?_, f3⟩
          · rw [e1, f1]; simp [Blk.stmts]
          · rcases List.mem_cons.mp hx with rfl | hx
            · exact ⟨⟨(fun y hy => by cases hy), hn, e2, e3⟩, (fun y hy => by cases hy), hlab⟩
            · exact f2 x hx

/-- **structure of an accepted program**: if the first pass succeeds, the program is a sequence of closed, non-nested
    `.orig … .end` blocks whose bodies contain neither `.orig` nor `.end`, with statements that are neither between them -/
theorem pass1_structure (stmts : List Stmt) (src : Option (List Char)) (t : SymTab) (h : pass1 stmts src = .ok t) :
    ∃ (blks : List Blk) (tail : List Stmt), stmts = blks.flatMap Blk.stmts ++ tail ∧ (∀ b ∈ blks, b.WF ∧ b.NoOuterLabels) ∧
      ∀ s ∈ tail, isOrigEnd s.nucleus = false ∧ s.labels = [] := by
  unfold pass1 at h
  cases hf : stmts.foldlM pass1Step (p1Init src) with
  | error e => rw [hf] at h; cases h
  | ok st =>
    rw [hf] at h
    have hb := pass1_fold_bal stmts _ st hf
    have h0 : (p1Init src).cursor.isSome = false := rfl
    have h1 : st.cursor.isSome = false := by
      dsimp only at h
      unfold p1Finish at h
      cases hc : st.cursor with
      | none => rfl
      | some c => rw [hc] at h; cases h
    rw [h0, h1] at hb
    exact seg_out stmts.length stmts (Nat.le_refl _) hb

end Lc3V
