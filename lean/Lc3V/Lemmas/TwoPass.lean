/- Lemmas/TwoPass.lean — the two assembler passes keep the same location counter. -/
import Lc3V.Lemmas.C01Core
set_option linter.unusedSimpArgs false
namespace Lc3V

theorem shift_lc (c c' : Cursor) (n : W) (h : c.shift n = .ok c') : c'.lc = c.lc + n := by
  unfold Cursor.shift at h
  split at h
  · rename_i hn; cases h; rw [hn]; simp
  · split at h
    · cases h
    · dsimp only at h
      split at h
      · split at h
        · cases h
        · cases h
          apply BitVec.eq_of_toNat_eq
          simp only [BitVec.toNat_ofNat, BitVec.toNat_add]
      · split at h <;> cases h

theorem shift_zero' (c : Cursor) : c.shift 0 = .ok c := by simp [Cursor.shift]

/-- the cursor after the special-directive part of pass 1 -/
def cursorAfterSpecial (cur : Option Cursor) (k : StmtKind) (span : Span) : Option Cursor :=
  match k with
  | .directive (.orig a) => some ⟨a, false, span⟩
  | .directive .end_ => none
  | _ => cur

theorem p1Special_cursor (st : P1) (stmt : Stmt) (labels labels' : List (Key × SymData)) (c : Option Cursor) (rel : List (W × Key))
    (h : p1Special st stmt labels = .ok (c, labels', rel)) :
    c = cursorAfterSpecial st.cursor stmt.nucleus stmt.span ∧
    (∀ a, stmt.nucleus = .directive (.orig a) → st.cursor = none) ∧
    (stmt.nucleus = .directive .end_ → st.cursor.isSome = true) := by
  unfold p1Special at h
  generalize stmt.nucleus = k at h ⊢
  cases k with
  | instr i => cases h; exact ⟨rfl, ⟨(by intro a ha; cases ha), (by intro ha; cases ha)⟩⟩
  | directive d =>
    cases d with
    | orig a =>
      dsimp only at h
      cases hc : st.cursor with
      | some c0 => rw [hc] at h; cases h
      | none => rw [hc] at h; cases h; exact ⟨rfl, ⟨fun _ _ => rfl, (by intro ha; cases ha)⟩⟩
    | end_ =>
      dsimp only at h
      cases hc : st.cursor with
      | some c0 => rw [hc] at h; cases h; exact ⟨rfl, ⟨(by intro a ha; cases ha), fun _ => rfl⟩⟩
      | none => rw [hc] at h; cases h
    | external l =>
      dsimp only at h
      split at h
      · cases h
      · cases h; exact ⟨rfl, ⟨(by intro a ha; cases ha), (by intro ha; cases ha)⟩⟩
    | fill v =>
      cases v with
      | off v => cases h; exact ⟨rfl, ⟨(by intro a ha; cases ha), (by intro ha; cases ha)⟩⟩
      | label l =>
        dsimp only at h
        split at h
        · cases h; exact ⟨rfl, ⟨(by intro a ha; cases ha), (by intro ha; cases ha)⟩⟩
        · split at h
          · cases h
          · cases h; exact ⟨rfl, ⟨(by intro a ha; cases ha), (by intro ha; cases ha)⟩⟩
    | blkw n => cases h; exact ⟨rfl, ⟨(by intro a ha; cases ha), (by intro ha; cases ha)⟩⟩
    | stringz s => cases h; exact ⟨rfl, ⟨(by intro a ha; cases ha), (by intro ha; cases ha)⟩⟩

/-- the cursor after a whole pass-1 step -/
theorem pass1Step_cursor (st st' : P1) (stmt : Stmt) (h : pass1Step st stmt = .ok st') :
    (∀ a, stmt.nucleus = .directive (.orig a) → st.cursor = none) ∧
    (stmt.nucleus = .directive .end_ → st.cursor.isSome = true) ∧
    (match cursorAfterSpecial st.cursor stmt.nucleus stmt.span with
     | none => st'.cursor = none
     | some c => ∃ c', st'.cursor = some c' ∧ c'.lc = c.lc + stmt.nucleus.wordLen) := by
  unfold pass1Step at h
  split at h
  · cases h
  · rename_i labels _
    split at h
    · cases h
    · rename_i cursor labels' rel hsp
      obtain ⟨hc, ho, he⟩ := p1Special_cursor st stmt labels labels' cursor rel hsp
      refine ⟨ho, he, ?_⟩
      rw [← hc]
      unfold p1Advance at h
      split at h
      · cases h; rfl
      · dsimp only at h
        split at h
        · cases h
        · rename_i c' hshift
          cases h
          exact ⟨c', rfl, shift_lc _ c' _ hshift⟩

/-- the location counter after the special-directive part, as a function of the one before -/
def lcAfterSpecial (lc : Option W) (k : StmtKind) : Option W :=
  match k with
  | .directive (.orig a) => some a
  | .directive .end_ => none
  | _ => lc

theorem cursorAfterSpecial_lc (cur : Option Cursor) (k : StmtKind) (span : Span) :
    (cursorAfterSpecial cur k span).map (·.lc) = lcAfterSpecial (cur.map (·.lc)) k := by
  cases k with
  | instr i => rfl
  | directive d => cases d <;> rfl

theorem lcAfterSpecial_orig (lc : Option W) (a : W) : lcAfterSpecial lc (.directive (.orig a)) = some a := rfl
theorem lcAfterSpecial_end (lc : Option W) : lcAfterSpecial lc (.directive .end_) = none := rfl
theorem lcAfterSpecial_instr (lc : Option W) (i : AsmInstr) : lcAfterSpecial lc (.instr i) = lc := rfl
theorem lcAfterSpecial_external (lc : Option W) (l : Label) : lcAfterSpecial lc (.directive (.external l)) = lc := rfl

/-- pass 1: the location counter after a statement is the one after the special part plus the statement's size -/
theorem pass1Step_lc (st st' : P1) (stmt : Stmt) (h : pass1Step st stmt = .ok st') :
    st'.cursor.map (·.lc) = (lcAfterSpecial (st.cursor.map (·.lc)) stmt.nucleus).map (· + stmt.nucleus.wordLen) := by
  have := (pass1Step_cursor st st' stmt h).2.2
  rw [← cursorAfterSpecial_lc st.cursor stmt.nucleus stmt.span]
  cases hc : cursorAfterSpecial st.cursor stmt.nucleus stmt.span with
  | none => rw [hc] at this; simp only at this; rw [this]; rfl
  | some c => rw [hc] at this; obtain ⟨c', h1, h2⟩ := this; rw [h1]; simp [h2]

/-- pass 2: the same recurrence -/
theorem pass2Step_lc (t : SymTab) (st st' : P2) (stmt : Stmt) (h : pass2Step t st stmt = .ok st') :
    st'.current.map (·.1) = (lcAfterSpecial (st.current.map (·.1)) stmt.nucleus).map (· + stmt.nucleus.wordLen) := by
  unfold pass2Step at h
  have generic : ∀ d : Directive, stmt.nucleus = .directive d → (∀ a, d ≠ .orig a) → d ≠ .end_ → (∀ l, d ≠ .external l) →
      (match st.current with
        | none => (.error ⟨.undetAddrStmt, [stmt.span]⟩ : ARes P2)
        | some (lc, block) =>
          match directiveWords d t with
          | .error e => .error e
          | .ok ws => .ok { st with current := some (lc + d.wordLen, { block with words := block.words ++ ws }) }) = .ok st' →
      st'.current.map (·.1) = (lcAfterSpecial (st.current.map (·.1)) stmt.nucleus).map (· + stmt.nucleus.wordLen) := by
    intro d hn h1 h2 h3 hh
    have hl : lcAfterSpecial (st.current.map (·.1)) stmt.nucleus = st.current.map (·.1) := by
      rw [hn]; unfold lcAfterSpecial
      cases d with
      | orig a => exact absurd rfl (h1 a)
      | end_ => exact absurd rfl h2
      | _ => rfl
    rw [hl]
    cases hc : st.current with
    | none => rw [hc] at hh; cases hh
    | some p =>
      obtain ⟨lc, b⟩ := p
      rw [hc] at hh
      dsimp only at hh
      split at hh
      · cases hh
      · cases hh; simp [hn, StmtKind.wordLen]
  cases hn : stmt.nucleus with
  | instr i =>
    rw [hn] at h
    dsimp only at h
    cases hc : st.current with
    | none => rw [hc] at h; cases h
    | some p =>
      obtain ⟨lc, b⟩ := p
      rw [hc] at h
      dsimp only at h
      split at h
      · cases h
      · cases h; rw [lcAfterSpecial_instr]; simp only [Option.map_some, StmtKind.wordLen]
  | directive d =>
    rw [hn] at h
    cases d with
    | orig a => cases h; rw [lcAfterSpecial_orig]; simp only [Option.map_some, StmtKind.wordLen, Directive.wordLen, BitVec.add_zero]; simp
    | end_ =>
      dsimp only at h
      cases hc : st.current with
      | none => rw [hc] at h; cases h
      | some p =>
        rw [hc] at h
        dsimp only at h
        split at h
        · cases h; rw [lcAfterSpecial_end]; rfl
        · split at h
          · cases h
          · cases h; rw [lcAfterSpecial_end]; rfl
    | external l => cases h; rw [lcAfterSpecial_external]; simp only [StmtKind.wordLen, Directive.wordLen, BitVec.add_zero]; cases st.current <;> simp
    | fill v => rw [← hn]; exact generic (.fill v) hn (by intro a; simp) (by simp) (by intro l; simp) h
    | blkw n => rw [← hn]; exact generic (.blkw n) hn (by intro a; simp) (by simp) (by intro l; simp) h
    | stringz s => rw [← hn]; exact generic (.stringz s) hn (by intro a; simp) (by simp) (by intro l; simp) h

/-- both passes have the same location counter (and are inside a block at the same time) -/
def InStep (p1 : P1) (p2 : P2) : Prop := p1.cursor.map (·.lc) = p2.current.map (·.1)

theorem inStep_init (src : Option (List Char)) : InStep (p1Init src) ⟨[], none⟩ := rfl

theorem inStep_step (t : SymTab) (p1 p1' : P1) (p2 p2' : P2) (stmt : Stmt) (h : InStep p1 p2)
    (h1 : pass1Step p1 stmt = .ok p1') (h2 : pass2Step t p2 stmt = .ok p2') : InStep p1' p2' := by
  unfold InStep at *
  rw [pass1Step_lc p1 p1' stmt h1, pass2Step_lc t p2 p2' stmt h2, h]

/-- lockstep over a whole prefix of the program -/
theorem inStep_fold (t : SymTab) : ∀ (stmts : List Stmt) (p1 p1' : P1) (p2 p2' : P2), InStep p1 p2 →
    stmts.foldlM pass1Step p1 = .ok p1' → stmts.foldlM (pass2Step t) p2 = .ok p2' → InStep p1' p2' := by
  intro stmts
  induction stmts with
  | nil => intro p1 p1' p2 p2' h h1 h2; simp only [List.foldlM_nil] at h1 h2; cases h1; cases h2; exact h
  | cons x xs ih =>
    intro p1 p1' p2 p2' h h1 h2
    rw [List.foldlM_cons] at h1 h2
    cases hx1 : pass1Step p1 x with
    | error e => rw [hx1] at h1; cases h1
    | ok q1 =>
      cases hx2 : pass2Step t p2 x with
      | error e => rw [hx2] at h2; cases h2
      | ok q2 =>
        rw [hx1] at h1; rw [hx2] at h2
        exact ih q1 p1' q2 p2' (inStep_step t p1 q1 p2 q2 x h hx1 hx2) h1 h2

/-! ### labels: bound once, to the location counter of their statement, and kept -/

def Keeps (m m' : List (Key × SymData)) : Prop := ∀ k d, lookupKey m k = some d → lookupKey m' k = some d

theorem Keeps.refl (m : List (Key × SymData)) : Keeps m m := fun _ _ h => h
theorem Keeps.trans {a b c : List (Key × SymData)} (h1 : Keeps a b) (h2 : Keeps b c) : Keeps a c := fun k d h => h2 k d (h1 k d h)

theorem addLabels_spec (ls : List Label) (addr : W) : ∀ (m m' : List (Key × SymData)), addLabels m ls addr = .ok m' →
    Keeps m m' ∧ ∀ l ∈ ls, ∃ d, lookupKey m' (upperS l.name) = some d ∧ d.addr = addr := by
  unfold addLabels
  induction ls with
  | nil => intro m m' h; simp only [List.foldlM_nil] at h; cases h; exact ⟨Keeps.refl m, by intro l hl; cases hl⟩
  | cons x xs ih =>
    intro m m' h
    rw [List.foldlM_cons] at h
    cases hx : addLabel m x addr false with
    | error e => rw [hx] at h; cases h
    | ok m1 =>
      rw [hx] at h
      obtain ⟨hb, hk⟩ := C01.addLabel_spec m m1 x addr false hx
      obtain ⟨hk2, hall⟩ := ih m1 m' h
      refine ⟨Keeps.trans hk hk2, ?_⟩
      intro l hl
      rcases List.mem_cons.mp hl with rfl | hl'
      · obtain ⟨d, hd, ha⟩ := hb; exact ⟨d, hk2 _ _ hd, ha⟩
      · exact hall l hl'

theorem p1Special_keeps (st : P1) (stmt : Stmt) (labels labels' : List (Key × SymData)) (c : Option Cursor) (rel : List (W × Key))
    (h : p1Special st stmt labels = .ok (c, labels', rel)) : Keeps labels labels' := by
  unfold p1Special at h
  generalize stmt.nucleus = k at h
  cases k with
  | instr i => cases h; exact Keeps.refl _
  | directive d =>
    cases d with
    | orig a => dsimp only at h; split at h <;> cases h; exact Keeps.refl _
    | end_ => dsimp only at h; split at h <;> cases h; exact Keeps.refl _
    | external l =>
      dsimp only at h
      split at h
      · cases h
      · rename_i m hm; cases h; exact (C01.addLabel_spec _ _ _ _ _ hm).2
    | fill v =>
      cases v with
      | off v => cases h; exact Keeps.refl _
      | label l =>
        dsimp only at h
        split at h
        · cases h; exact Keeps.refl _
        · split at h
          · cases h
          · cases h; exact Keeps.refl _
    | blkw n => cases h; exact Keeps.refl _
    | stringz s => cases h; exact Keeps.refl _

/-- one pass-1 step keeps every binding and binds the statement's labels to the location counter before it -/
theorem pass1Step_labels (st st' : P1) (stmt : Stmt) (h : pass1Step st stmt = .ok st') :
    Keeps st.labels st'.labels ∧
    ∀ l ∈ stmt.labels, ∃ c d, st.cursor = some c ∧ lookupKey st'.labels (upperS l.name) = some d ∧ d.addr = c.lc := by
  unfold pass1Step at h
  split at h
  · cases h
  · rename_i labels hlab
    split at h
    · cases h
    · rename_i cursor labels' rel hsp
      have hk2 := p1Special_keeps st stmt labels labels' cursor rel hsp
      have hfin : st'.labels = labels' := by
        unfold p1Advance at h
        split at h
        · cases h; rfl
        · dsimp only at h; split at h
          · cases h
          · cases h; rfl
      rw [hfin]
      unfold p1Labels at hlab
      split at hlab
      · rename_i hemp
        cases hlab
        refine ⟨hk2, ?_⟩
        intro l hl
        have : stmt.labels = [] := by simpa using hemp
        rw [this] at hl; cases hl
      · split at hlab
        · cases hlab
        · rename_i cur hcur
          obtain ⟨hk1, hall⟩ := addLabels_spec stmt.labels cur.lc st.labels labels hlab
          refine ⟨Keeps.trans hk1 hk2, ?_⟩
          intro l hl
          obtain ⟨d, hd, ha⟩ := hall l hl
          exact ⟨cur, d, hcur, hk2 _ _ hd, ha⟩

theorem pass1_fold_keeps : ∀ (stmts : List Stmt) (st st' : P1), stmts.foldlM pass1Step st = .ok st' → Keeps st.labels st'.labels := by
  intro stmts
  induction stmts with
  | nil => intro st st' h; simp only [List.foldlM_nil] at h; cases h; exact Keeps.refl _
  | cons x xs ih =>
    intro st st' h
    rw [List.foldlM_cons] at h
    cases hx : pass1Step st x with
    | error e => rw [hx] at h; cases h
    | ok q => rw [hx] at h; exact Keeps.trans (pass1Step_labels st q x hx).1 (ih q st' h)

theorem foldlM_append_ok {σ : Type} (f : σ → Stmt → ARes σ) (pre post : List Stmt) (s0 s2 : σ)
    (h : (pre ++ post).foldlM f s0 = .ok s2) : ∃ s1, pre.foldlM f s0 = .ok s1 ∧ post.foldlM f s1 = .ok s2 := by
  induction pre generalizing s0 with
  | nil => exact ⟨s0, rfl, h⟩
  | cons x xs ih =>
    rw [List.cons_append, List.foldlM_cons] at h
    cases hx : f s0 x with
    | error e => rw [hx] at h; cases h
    | ok q =>
      rw [hx] at h
      obtain ⟨s1, h1, h2⟩ := ih q h
      exact ⟨s1, by rw [List.foldlM_cons, hx]; exact h1, h2⟩

/-- **every label maps to the address of the statement it precedes**: if pass 1 succeeds on the program and pass 2 has
    processed the statements before `s`, then pass 2 is inside a block whose location counter — block start plus the
    number of words emitted so far — is exactly the address the symbol table gives to each label of `s` -/
theorem label_address (pre post : List Stmt) (s : Stmt) (src : Option (List Char)) (t : SymTab) (l : Label) (p2 : P2)
    (hl : l ∈ s.labels) (h1 : pass1 (pre ++ s :: post) src = .ok t)
    (h2 : pre.foldlM (pass2Step t) ⟨[], none⟩ = .ok p2)
    (hstr : ∀ stmt ∈ pre, ∀ x, stmt.nucleus = .directive (.stringz x) → blen x + 1 < 65536) :
    ∃ lc b, p2.current = some (lc, b) ∧ t.lookupLabel l.name = some lc ∧ lc = b.start + BitVec.ofNat 16 b.words.length := by
  unfold pass1 at h1
  split at h1
  · cases h1
  · rename_i st hfold
    obtain ⟨p1, hpre, hrest⟩ := foldlM_append_ok pass1Step pre (s :: post) (p1Init src) st hfold
    rw [List.foldlM_cons] at hrest
    cases hs : pass1Step p1 s with
    | error e => rw [hs] at hrest; cases hrest
    | ok p1s =>
      rw [hs] at hrest
      obtain ⟨_, hbind⟩ := pass1Step_labels p1 p1s s hs
      obtain ⟨c, d, hc, hd, ha⟩ := hbind l hl
      have hkeep := pass1_fold_keeps post p1s st hrest
      have hstep := inStep_fold t pre (p1Init src) p1 ⟨[], none⟩ p2 (inStep_init src) hpre h2
      unfold InStep at hstep
      rw [hc] at hstep
      cases hcur : p2.current with
      | none => rw [hcur] at hstep; cases hstep
      | some p =>
        obtain ⟨lc, b⟩ := p
        rw [hcur] at hstep
        simp only [Option.map_some, Option.some.injEq] at hstep
        refine ⟨lc, b, rfl, ?_, ?_⟩
        · -- the final table keeps the binding
          unfold p1Finish at h1
          split at h1
          · cases h1
          · cases h1
            unfold SymTab.lookupLabel
            rw [hkeep _ _ hd]
            simp [ha, hstep]
        · exact C01.lcInv_fold t pre ⟨[], none⟩ p2 C01.lcInv_init h2 hstr lc b hcur

end Lc3V
