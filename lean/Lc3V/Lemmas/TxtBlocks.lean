/- Lemmas/TxtBlocks.lean — the `.TEXT` section of the text object format round-trips (`text_section_roundtrip`): shape of the
   written text as lines (`kept_lines`, `kept_of_serialize`: `trim`, `str::lines`, comment/blank filters), four-digit
   hex and decimal fields read back (`hex2u16_hex4`, `maybeHex_serWord`, C18.decimal_field_roundtrip), grouping
   (`groupLines_one`) and the block reader (`readText_blocks`). -/
import Lc3V.Lemmas.C18Core
import Lc3V.Lemmas.PrintAtoms
import Lc3V.Lemmas.C22Core
namespace Lc3V.Txt
open Lc3V

theorem go_len : ∀ (fuel k v : Nat) (acc : List Char), v < 16 ^ k →
    (hexUpper.go fuel v acc).length ≤ acc.length + k := by
  intro fuel
  induction fuel with
  | zero => intro k v acc _; simp [hexUpper.go]
  | succ f ih =>
    intro k v acc hv
    unfold hexUpper.go
    by_cases h0 : v = 0
    · simp [h0]
    · rw [if_neg h0]
      cases k with
      | zero => simp at hv; omega
      | succ k =>
        have hv' : v / 16 < 16 ^ k := by rw [Nat.pow_succ] at hv; omega
        have := ih k (v / 16) (hexDigitU (v % 16) :: acc) hv'
        simp only [List.length_cons] at this; omega

theorem hex4_length (n : Nat) (hn : n < 65536) : (hex4 n).length = 4 := by
  unfold hex4 hexUpper
  dsimp only
  by_cases h0 : n = 0
  · subst h0; simp
  · rw [if_neg h0]
    have := go_len 16 4 n [] (by simpa using hn)
    simp only [List.length_nil, Nat.zero_add] at this
    simp only [List.length_append, List.length_replicate]; omega

/-- printable non-blank ASCII between '0' and 'z' -/
def Plain7 (c : Char) : Prop := 48 ≤ c.toNat ∧ c.toNat ≤ 122

theorem utf8Size_ascii (c : Char) (h : c.toNat < 128) : c.utf8Size = 1 := by
  unfold Char.utf8Size
  have : c.val ≤ 127 := UInt32.le_iff_toNat_le.mpr (by show c.toNat ≤ 127; omega)
  simp [this]

theorem Plain7.facts {c : Char} (h : Plain7 c) : c.utf8Size = 1 ∧ c ≠ '\n' ∧ c ≠ '\r' ∧ c ≠ '#' ∧ c ≠ '.' ∧ c ≠ ' ' ∧
    rustWs c = false := by
  obtain ⟨a, b⟩ := h
  refine ⟨utf8Size_ascii c (by omega), ?_, ?_, ?_, ?_, ?_, ?_⟩
  · intro e; rw [e] at a; revert a; decide
  · intro e; rw [e] at a; revert a; decide
  · intro e; rw [e] at a; revert a; decide
  · intro e; rw [e] at a; revert a; decide
  · intro e; rw [e] at a; revert a; decide
  · unfold rustWs
    simp only [Bool.or_eq_false_iff, Bool.and_eq_false_imp, decide_eq_true_eq, decide_eq_false_iff_not, beq_eq_false_iff_ne]
    omega

theorem hexdig_plain (c : Char) (h : (toDigit c 16).isSome = true) : Plain7 c := by
  unfold toDigit at h
  by_cases h1 : ('0' ≤ c && c ≤ '9') = true
  · simp only [Bool.and_eq_true, decide_eq_true_eq] at h1
    exact ⟨char_toNat_le.mp h1.1, by have := char_toNat_le.mp h1.2; simp at this; omega⟩
  · by_cases h2 : ('a' ≤ c && c ≤ 'z') = true
    · simp only [Bool.and_eq_true, decide_eq_true_eq] at h2
      exact ⟨by have := char_toNat_le.mp h2.1; simp at this; omega, char_toNat_le.mp h2.2⟩
    · by_cases h3 : ('A' ≤ c && c ≤ 'Z') = true
      · simp only [Bool.and_eq_true, decide_eq_true_eq] at h3
        exact ⟨by have := char_toNat_le.mp h3.1; simp at this; omega, by have := char_toNat_le.mp h3.2; simp at this; omega⟩
      · simp [h1, h2, h3] at h

/-- lines joined by single line feeds (no trailing one) -/
def inter : List Text → Text
  | [] => []
  | [l] => l
  | l :: l' :: ls => l ++ '\n' :: inter (l' :: ls)

theorem flatMap_nl (l : Text) (ls : List Text) : (l :: ls).flatMap (· ++ nl) = inter (l :: ls) ++ nl := by
  induction ls generalizing l with
  | nil => simp [inter]
  | cons l' ls ih =>
    rw [List.flatMap_cons, ih l']
    simp [inter, nl]

def NoNl (l : Text) : Prop := ∀ c ∈ l, c ≠ '\n'

theorem splitNl_line (l : Text) (h : NoNl l) (rest cur : Text) :
    splitNl (l ++ '\n' :: rest) cur = (cur.reverse ++ l) :: splitNl rest [] := by
  induction l generalizing cur with
  | nil => simp [splitNl]
  | cons c cs ih =>
    have hc : c ≠ '\n' := h c (by simp)
    simp only [List.cons_append, splitNl, if_neg hc]
    rw [ih (fun x hx => h x (by simp [hx]))]
    simp

theorem splitNl_last (l : Text) (h : NoNl l) (cur : Text) : splitNl l cur = [cur.reverse ++ l] := by
  induction l generalizing cur with
  | nil => simp [splitNl]
  | cons c cs ih =>
    have hc : c ≠ '\n' := h c (by simp)
    simp only [splitNl, if_neg hc]
    rw [ih (fun x hx => h x (by simp [hx]))]
    simp

theorem splitNl_inter (l : Text) (ls : List Text) (h : ∀ x ∈ l :: ls, NoNl x) :
    splitNl (inter (l :: ls)) [] = l :: ls := by
  induction ls generalizing l with
  | nil => simp [inter, splitNl_last l (h l (by simp))]
  | cons l' ls ih =>
    simp only [inter]
    rw [splitNl_line l (h l (by simp)), ih l' (fun x hx => h x (by simp [hx]))]
    simp


/-- a table line as the writer produces it: no line break or carriage return, first and last character not white space,
    not a comment line -/
structure Clean (l : Text) : Prop where
  nonl : NoNl l
  nocr : ∀ c ∈ l, c ≠ '\r'
  first : ∃ c cs, l = c :: cs ∧ rustWs c = false ∧ c ≠ '#'
  last : ∃ init c, l = init ++ [c] ∧ rustWs c = false

theorem trimStart_clean {l : Text} (h : Clean l) (rest : Text) : SourceInfo.trimStart (l ++ rest) = l ++ rest := by
  obtain ⟨c, cs, rfl, hc, _⟩ := h.first
  simp [SourceInfo.trimStart, hc]

theorem trimEnd_clean (pre : Text) {l : Text} (h : Clean l) (ws : Text) (hws : ∀ c ∈ ws, rustWs c = true) :
    SourceInfo.trimEnd (pre ++ l ++ ws) = pre ++ l := by
  obtain ⟨init, c, rfl, hc⟩ := h.last
  unfold SourceInfo.trimEnd
  have : (pre ++ (init ++ [c]) ++ ws).reverse = ws.reverse ++ c :: (init.reverse ++ pre.reverse) := by simp
  rw [this, List.dropWhile_append_of_pos (by intro x hx; exact hws x (List.mem_reverse.mp hx))]
  simp [List.dropWhile, hc]

theorem trim_clean {l : Text} (h : Clean l) : trim l = l := by
  unfold trim
  have := trimEnd_clean [] h [] (by simp)
  simp only [List.nil_append, List.append_nil] at this
  rw [this]
  have := trimStart_clean h []
  simpa using this

theorem stripCr_clean {l : Text} (h : Clean l) : stripCr l = l := by
  obtain ⟨init, c, rfl, _⟩ := h.last
  have hc : c ≠ '\r' := h.nocr c (by simp)
  unfold stripCr
  simp only [List.reverse_append, List.reverse_cons, List.reverse_nil, List.nil_append, List.cons_append]
  split
  · rename_i r heq
    simp only [List.cons.injEq] at heq
    exact absurd heq.1 hc
  · rfl

theorem stripCr_nil : stripCr [] = [] := rfl

theorem not_hash_clean {l : Text} (h : Clean l) : startsWith l '#' = false := by
  obtain ⟨c, cs, rfl, _, hc⟩ := h.first
  simp [startsWith, hc]


theorem inter_append_last (ls : List Text) (l : Text) (h : ls ≠ []) : inter (ls ++ [l]) = inter ls ++ '\n' :: l := by
  induction ls with
  | nil => exact absurd rfl h
  | cons a as ih =>
    cases as with
    | nil => simp [inter]
    | cons b bs =>
      have := ih (by simp)
      simp only [List.cons_append, inter] at this ⊢
      rw [this]; simp

/-- `inter` of a list whose last line is `l`, split before that line -/
theorem inter_split_last (ls : List Text) (l : Text) : inter (ls ++ [l]) = (if ls = [] then [] else inter ls ++ ['\n']) ++ l := by
  by_cases h : ls = []
  · subst h; simp [inter]
  · rw [if_neg h, inter_append_last ls l h]; simp

theorem filter_clean (M : List Text) (hM : ∀ l ∈ M, l = [] ∨ Clean l) :
    (M.filter (fun l => !startsWith l '#')).filter (fun l => !(trim l).isEmpty) = M.filter (· ≠ []) := by
  induction M with
  | nil => rfl
  | cons m ms ih =>
    have ihm := ih (fun l hl => hM l (by simp [hl]))
    rcases hM m (by simp) with rfl | h
    · have a : (!startsWith ([] : Text) '#') = true := rfl
      have b : (!(trim ([] : Text)).isEmpty) = false := by decide
      simp only [List.filter_cons, a, if_true, b, Bool.false_eq_true, if_false, ne_eq, not_true_eq_false, decide_false]
      exact ihm
    · have hne : m ≠ [] := by obtain ⟨c, cs, h', _⟩ := h.first; rw [h']; simp
      have k : (!startsWith m '#') = true ∧ (!(trim m).isEmpty) = true := by
        rw [not_hash_clean h, trim_clean h]; obtain ⟨c, cs, h', _⟩ := h.first; rw [h']; simp
      simp only [List.filter_cons, k.1, k.2, if_true, ne_eq, hne, not_false_eq_true, decide_true]
      rw [ihm]

/-- the lines the reader keeps from a text written as: clean or empty lines, each terminated by a line feed, first
    line clean, then an empty line at the end -/
theorem kept_lines (A : Text) (M : List Text) (Z : Text) (hA : Clean A) (hZ : Clean Z)
    (hM : ∀ l ∈ M, l = [] ∨ Clean l) :
    (((lines (trim ((A :: M ++ [Z, []]).flatMap (· ++ nl)))).filter (fun l => !startsWith l '#')).filter
      (fun l => !(trim l).isEmpty)) = A :: (M.filter (· ≠ [])) ++ [Z] := by
  -- shape of the text
  have e1 : (A :: M ++ [Z, []]).flatMap (· ++ nl) = inter (A :: M ++ [Z]) ++ ['\n', '\n'] := by
    have : A :: M ++ [Z, []] = A :: (M ++ [Z, []]) := rfl
    rw [this, flatMap_nl]
    have : A :: (M ++ [Z, []]) = (A :: M ++ [Z]) ++ [[]] := by simp
    rw [this, inter_append_last _ _ (by simp)]
    simp [nl]
  have e2 : inter (A :: M ++ [Z]) = (inter (A :: M) ++ ['\n']) ++ Z := by
    have := inter_split_last (A :: M) Z
    rw [if_neg (by simp)] at this
    simpa using this
  -- trim
  have t1 : SourceInfo.trimEnd (inter (A :: M ++ [Z]) ++ ['\n', '\n']) = inter (A :: M ++ [Z]) := by
    rw [e2]
    exact trimEnd_clean _ hZ _ (by intro c hc; simp at hc; rcases hc with rfl | rfl <;> decide)
  have t2 : SourceInfo.trimStart (inter (A :: M ++ [Z])) = inter (A :: M ++ [Z]) := by
    have : ∃ rest, inter (A :: M ++ [Z]) = A ++ rest := by
      cases hm : M ++ [Z] with
      | nil => simp at hm
      | cons b bs =>
        have : A :: M ++ [Z] = A :: (b :: bs) := by simp [← hm]
        rw [this]; exact ⟨_, rfl⟩
    obtain ⟨rest, hr⟩ := this
    rw [hr]; exact trimStart_clean hA rest
  have nonl : ∀ x ∈ A :: (M ++ [Z]), NoNl x := by
    intro x hx
    simp only [List.mem_cons, List.mem_append, List.mem_nil_iff, or_false] at hx
    rcases hx with rfl | hx | rfl
    · exact hA.nonl
    · rcases hM x hx with rfl | h
      · intro c hc; cases hc
      · exact h.nonl
    · exact hZ.nonl
  have l1 : splitNl (inter (A :: M ++ [Z])) [] = A :: M ++ [Z] := by
    have : A :: M ++ [Z] = A :: (M ++ [Z]) := rfl
    rw [this]; exact splitNl_inter A (M ++ [Z]) nonl
  have l2 : lines (inter (A :: M ++ [Z])) = A :: M ++ [Z] := by
    unfold lines
    simp only [l1]
    have hz : Z ≠ [] := by obtain ⟨c, cs, h, _⟩ := hZ.first; rw [h]; simp
    have : (A :: M ++ [Z]).reverse = Z :: (A :: M).reverse := by simp
    rw [this]
    have : ∀ x ∈ A :: M ++ [Z], stripCr x = x := by
      intro x hx
      simp only [List.cons_append, List.mem_cons, List.mem_append, List.mem_nil_iff, or_false] at hx
      rcases hx with rfl | hx | rfl
      · exact stripCr_clean hA
      · rcases hM x hx with rfl | h
        · rfl
        · exact stripCr_clean h
      · exact stripCr_clean hZ
    split
    · rename_i r heq
      simp only [List.cons.injEq] at heq
      exact absurd heq.1 hz
    · rw [List.map_congr_left (g := id) this]; simp
  have hT : trim ((A :: M ++ [Z, []]).flatMap (· ++ nl)) = inter (A :: M ++ [Z]) := by
    unfold trim; rw [e1, t1, t2]
  rw [hT, l2]
  -- filters
  have keepA : (!startsWith A '#') = true ∧ (!(trim A).isEmpty) = true := by
    rw [not_hash_clean hA, trim_clean hA]; obtain ⟨c, cs, h, _⟩ := hA.first; rw [h]; simp
  have keepZ : (!startsWith Z '#') = true ∧ (!(trim Z).isEmpty) = true := by
    rw [not_hash_clean hZ, trim_clean hZ]; obtain ⟨c, cs, h, _⟩ := hZ.first; rw [h]; simp
  have fM := filter_clean M hM
  simp only [List.cons_append, List.filter_cons, keepA.1, keepA.2, if_true, List.filter_append, fM, keepZ.1, keepZ.2,
    List.filter_nil]


theorem blen_plain (l : Text) (h : ∀ c ∈ l, c.utf8Size = 1) : blen l = l.length := by
  induction l with
  | nil => rfl
  | cons c cs ih => simp only [blen, List.length_cons, h c (by simp), ih (fun x hx => h x (by simp [hx]))]; omega

theorem hex2u16_hex4 (k : Nat) (hk : k < 65536) : hex2u16 (hex4 k) = some (BitVec.ofNat 16 k) := by
  obtain ⟨hd, hv, hne⟩ := hexUpper_spec 4 k (by omega)
  have hlen := hex4_length k hk
  have hb : blen (hex4 k) = 4 := by
    have hd' : ∀ c ∈ hex4 k, (toDigit c 16).isSome = true := fun c hc => (hd c hc).1
    rw [blen_plain _ (fun c hc => ((hexdig_plain c (hd' c hc)).facts).1), hlen]
  unfold hex2u16
  rw [if_pos hb]
  obtain ⟨d, ds, hds⟩ : ∃ d ds, hex4 k = d :: ds := by
    cases h : hex4 k with
    | nil => exact absurd h hne
    | cons d ds => exact ⟨d, ds, rfl⟩
  have hall : allDigits 16 (hex4 k) := fun x hx => (hd x hx).1
  have hs := digit_not_sign 16 (by omega) d (hall d (by rw [hds]; simp))
  rw [hds, parseInt_nosign _ _ _ _ _ _ hs.1 hs.2, ← hds]
  have := parseDigits_pos 16 (by omega) 0 65535 (by omega) (hex4 k) hall 0 (by omega)
  rw [show ((0:Nat):Int) = 0 from rfl] at this
  rw [this]
  have hv' : valFrom 16 (hex4 k) 0 = k := hv
  rw [hv']
  have : ((k : Nat) : Int) ≤ 65535 := by omega
  simp [this]

theorem maybeHex_serWord (w : Option W) : maybeHex (serWord w) = some w := by
  cases w with
  | none => simp [serWord, maybeHex]
  | some v =>
    unfold serWord maybeHex
    have hne : hex4 v.toNat ≠ uninit := by
      obtain ⟨hd, _, _⟩ := hexUpper_spec 4 v.toNat (by have := v.isLt; omega)
      intro e
      have : '?' ∈ hex4 v.toNat := by rw [e]; simp [uninit]
      have := (hd '?' this).1
      revert this; decide
    rw [if_neg hne, hex2u16_hex4 v.toNat v.isLt]
    simp

theorem allSome_map {α β} (f : α → Option β) (g : β → α) (h : ∀ b, f (g b) = some b) (l : List β) :
    allSome ((l.map g).map f) = some l := by
  induction l with
  | nil => rfl
  | cons b bs ih =>
    simp only [List.map_cons, allSome, h b, ih, Option.map_some]

/-- the lines of one block -/
def blockLines (b : Nat × List (Option W)) : List Text := hex4 b.1 :: natDigits b.2.length :: b.2.map serWord

theorem serBlock_lines (b : Nat × List (Option W)) : serBlock b = (blockLines b).flatMap (· ++ nl) := by
  unfold serBlock blockLines
  simp [List.flatMap_cons, List.flatMap_map]


/-- block list as `assemble`/`link` produce it: starts strictly increasing and below 2^16, at most 65535 words each -/
def BlocksWF (bs : List (Nat × List (Option W))) : Prop :=
  bs.Pairwise (fun a b => a.1 < b.1) ∧ ∀ b ∈ bs, b.1 < 65536 ∧ b.2.length ≤ 65535

theorem readText_blocks (bs : List (Nat × List (Option W))) : ∀ (fuel : Nat) (acc : Blocks), bs.length ≤ fuel →
    BlocksWF bs → (∀ x ∈ acc, ∀ b ∈ bs, x.1 < b.1) →
    readText fuel (bs.flatMap blockLines) acc = some (acc ++ bs) := by
  induction bs with
  | nil => intro fuel acc _ _ _; cases fuel <;> simp [readText]
  | cons b bs ih =>
    intro fuel acc hf hwf hacc
    obtain ⟨hp, hb⟩ := hwf
    have hb0 := hb b (by simp)
    cases fuel with
    | zero => simp at hf
    | succ f =>
      simp only [List.flatMap_cons, blockLines, List.cons_append]
      unfold readText
      have h1 := hex2u16_hex4 b.1 hb0.1
      have h2 : parseUInt 65535 (natDigits b.2.length) = some b.2.length :=
        C18.decimal_field_roundtrip b.2.length 65535 (by have := hb0.2; omega) (by omega)
      simp only [h1, h2]
      have htake : (b.2.map serWord ++ bs.flatMap blockLines).take b.2.length = b.2.map serWord := by
        rw [List.take_left' (by simp)]
      have hdrop : (b.2.map serWord ++ bs.flatMap blockLines).drop b.2.length = bs.flatMap blockLines := by
        rw [List.drop_left' (by simp)]
      simp only [htake, hdrop, List.length_map, ne_eq, not_true_eq_false, if_false]
      rw [allSome_map maybeHex serWord maybeHex_serWord]
      simp only
      have hk : (BitVec.ofNat 16 b.1).toNat = b.1 := by rw [BitVec.toNat_ofNat]; omega
      have hany : acc.any (fun e => e.1 == (BitVec.ofNat 16 b.1).toNat) = false := by
        rw [hk, List.any_eq_false]
        intro x hx
        have := hacc x hx b (by simp)
        simp; omega
      rw [hany]
      simp only [Bool.false_eq_true, if_false, hk]
      rw [C22.insert_above b.1 b.2 acc (fun x hx => hacc x hx b (by simp))]
      have := ih f (acc ++ [(b.1, b.2)]) (by simp at hf; omega)
        ⟨(List.pairwise_cons.mp hp).2, fun x hx => hb x (by simp [hx])⟩
        (by
          intro x hx c hc
          rcases List.mem_append.mp hx with h | h
          · exact hacc x h c (by simp [hc])
          · simp only [List.mem_singleton] at h; rw [h]; exact (List.pairwise_cons.mp hp).1 c hc)
      rw [this]; simp


theorem clean_of_plain (l : Text) (hne : l ≠ []) (h : ∀ c ∈ l, Plain7 c) : Clean l := by
  refine ⟨fun c hc => (h c hc).facts.2.1, fun c hc => (h c hc).facts.2.2.1, ?_, ?_⟩
  · cases l with
    | nil => exact absurd rfl hne
    | cons c cs => exact ⟨c, cs, rfl, (h c (by simp)).facts.2.2.2.2.2.2, (h c (by simp)).facts.2.2.2.1⟩
  · rcases List.eq_nil_or_concat l with h0 | ⟨init, c, rfl⟩
    · exact absurd h0 hne
    · exact ⟨init, c, by simp, (h c (by simp)).facts.2.2.2.2.2.2⟩

theorem blockLine_plain (b : Nat × List (Option W)) (hb : b.1 < 65536) :
    ∀ l ∈ blockLines b, l ≠ [] ∧ ∀ c ∈ l, Plain7 c := by
  have hexok : ∀ n, n < 65536 → hex4 n ≠ [] ∧ ∀ c ∈ hex4 n, Plain7 c := by
    intro n hn
    obtain ⟨hd, _, hne⟩ := hexUpper_spec 4 n (by omega)
    exact ⟨hne, fun c hc => hexdig_plain c (hd c hc).1⟩
  intro l hl
  simp only [blockLines, List.mem_cons, List.mem_map] at hl
  rcases hl with rfl | rfl | ⟨w, _, rfl⟩
  · exact hexok b.1 hb
  · exact ⟨natDigits_ne_nil _, fun c hc => by
      have := natDigits_isDec _ c hc
      exact ⟨this.1, by have := this.2; omega⟩⟩
  · cases w with
    | none =>
      refine ⟨by simp [serWord, uninit], fun c hc => ?_⟩
      simp only [serWord, uninit, List.mem_cons, List.mem_nil_iff, or_false, or_self] at hc
      rw [hc]; exact ⟨by decide, by decide⟩
    | some v => exact hexok v.toNat v.isLt

theorem groupLines_one (BL : List Text) (h : ∀ l ∈ BL, startsWith l '.' = false) : ∀ g : List Text,
    groupLines BL [g] = some [g.reverse ++ BL] := by
  induction BL with
  | nil => intro g; simp [groupLines]
  | cons l ls ih =>
    intro g
    unfold groupLines
    rw [h l (by simp)]
    simp only [Bool.false_eq_true, if_false]
    rw [ih (fun x hx => h x (by simp [hx])) (l :: g)]
    simp

theorem blocks_le_lines (bs : List (Nat × List (Option W))) : bs.length ≤ (bs.flatMap blockLines).length := by
  induction bs with
  | nil => simp
  | cons b bs ih => simp only [List.flatMap_cons, List.length_append, List.length_cons, blockLines]; omega


def hdrLine : Text := ['L', 'C', '-', '3', ' ', 'O', 'B', 'J', ' ', 'F', 'I', 'L', 'E']
def textLine : Text := ['.', 'T', 'E', 'X', 'T']

theorem hdrLine_eq : hdrLine = "LC-3 OBJ FILE".toList := rfl
theorem textLine_eq : textLine = ".TEXT".toList := rfl

theorem hdr_clean : Clean hdrLine := by
  refine ⟨by unfold NoNl hdrLine; decide, by unfold hdrLine; decide,
    ⟨'L', ['C', '-', '3', ' ', 'O', 'B', 'J', ' ', 'F', 'I', 'L', 'E'], rfl, by decide, by decide⟩,
    ⟨['L', 'C', '-', '3', ' ', 'O', 'B', 'J', ' ', 'F', 'I', 'L'], 'E', rfl, by decide⟩⟩

theorem text_clean : Clean textLine := by
  refine ⟨by unfold NoNl textLine; decide, by unfold textLine; decide, ⟨'.', ['T', 'E', 'X', 'T'], rfl, by decide, by decide⟩,
    ⟨['.', 'T', 'E', 'X'], 'T', rfl, by decide⟩⟩

theorem flatMap_serBlock (bs : List (Nat × List (Option W))) :
    bs.flatMap serBlock = (bs.flatMap blockLines).flatMap (· ++ nl) := by
  induction bs with
  | nil => rfl
  | cons b bs ih => simp only [List.flatMap_cons, List.flatMap_append, serBlock_lines, ih]

/-- what the reader keeps of a serialized file without symbol table: the header, `.TEXT`, and the block lines -/
theorem kept_of_serialize (bs : List (Nat × List (Option W))) (hwf : BlocksWF bs) :
    (((lines (trim (serialize ⟨bs, none⟩))).filter (fun l => !startsWith l '#')).filter
      (fun l => !(trim l).isEmpty)) = hdrLine :: textLine :: bs.flatMap blockLines := by
  have hser : serialize ⟨bs, none⟩ = (hdrLine :: [] :: textLine :: bs.flatMap blockLines ++ [[]]).flatMap (· ++ nl) := by
    show "LC-3 OBJ FILE".toList ++ nl ++ nl ++ ".TEXT".toList ++ nl ++ bs.flatMap serBlock ++ nl ++ [] = _
    rw [flatMap_serBlock, ← hdrLine_eq, ← textLine_eq]
    simp only [List.cons_append, List.flatMap_cons, List.flatMap_append, List.flatMap_nil,
      List.nil_append, List.append_nil, List.append_assoc]
  have hclean : ∀ l ∈ bs.flatMap blockLines, Clean l := by
    intro l hl
    obtain ⟨b, hb, hlb⟩ := List.mem_flatMap.mp hl
    obtain ⟨hne, hp⟩ := blockLine_plain b (hwf.2 b hb).1 l hlb
    exact clean_of_plain l hne hp
  rw [hser]
  rcases List.eq_nil_or_concat (bs.flatMap blockLines) with h0 | ⟨BL', z, hz⟩
  · rw [h0]
    have := kept_lines hdrLine [[]] textLine hdr_clean text_clean (by intro l hl; simp at hl; exact Or.inl hl)
    simpa using this
  · rw [List.concat_eq_append] at hz
    rw [hz]
    have hz' : Clean z := hclean z (by rw [hz]; simp)
    have hB : ∀ l ∈ BL', Clean l := fun l hl => hclean l (by rw [hz]; simp [hl])
    have := kept_lines hdrLine ([] :: textLine :: BL') z hdr_clean hz' (by
      intro l hl
      simp only [List.mem_cons] at hl
      rcases hl with rfl | rfl | hl
      · exact Or.inl rfl
      · exact Or.inr text_clean
      · exact Or.inr (hB l hl))
    have e : hdrLine :: [] :: textLine :: (BL' ++ [z]) ++ [[]] = hdrLine :: ([] :: textLine :: BL') ++ [z, []] := by simp
    rw [e, this]
    have hne : ∀ l ∈ BL', l ≠ [] := fun l hl => by obtain ⟨c, cs, h, _⟩ := (hB l hl).first; rw [h]; simp
    have : (([] : Text) :: textLine :: BL').filter (· ≠ []) = textLine :: BL' := by
      have h1 : (BL'.filter (· ≠ [])) = BL' := List.filter_eq_self.mpr (fun l hl => by simpa using hne l hl)
      simp only [List.filter_cons, ne_eq, not_true_eq_false, decide_false, Bool.false_eq_true, if_false]
      have : textLine ≠ [] := by unfold textLine; simp
      simp only [this, not_false_eq_true, decide_true, if_true]
      exact congrArg _ h1
    rw [this]; simp


/-- **the `.TEXT` section round-trips.** An object file without symbol table — any block list as the assembler and the
    linker produce it (starts strictly increasing, below 2^16, at most 65535 words per block, words initialised or
    not) — is read back exactly from its text form -/
theorem text_section_roundtrip (bs : List (Nat × List (Option W))) (hwf : BlocksWF bs) :
    deserialize (serialize ⟨bs, none⟩) = some ⟨bs, none⟩ := by
  have hk := kept_of_serialize bs hwf
  have hnodot : ∀ l ∈ bs.flatMap blockLines, startsWith l '.' = false := by
    intro l hl
    obtain ⟨b, hb, hlb⟩ := List.mem_flatMap.mp hl
    obtain ⟨hne, hp⟩ := blockLine_plain b (hwf.2 b hb).1 l hlb
    cases l with
    | nil => exact absurd rfl hne
    | cons c cs =>
      have := (hp c (by simp)).facts.2.2.2.2.1
      simp [startsWith, this]
  have hg : groupLines (textLine :: bs.flatMap blockLines) [] = some [textLine :: bs.flatMap blockLines] := by
    unfold groupLines
    have : startsWith textLine '.' = true := rfl
    rw [this]; simp only [if_true]
    rw [groupLines_one _ hnodot [textLine]]; rfl
  have hr : readGroup {} (textLine :: bs.flatMap blockLines) = some { blocks := bs } := by
    unfold readGroup
    have : textLine = ".TEXT".toList := textLine_eq
    simp only [this, if_true]
    rw [readText_blocks bs _ [] (by have := blocks_le_lines bs; omega) hwf (by intro x hx; cases hx)]
    rfl
  unfold deserialize
  simp only [hk]
  have : hdrLine = "LC-3 OBJ FILE".toList := hdrLine_eq
  simp only [this, ne_eq, not_true_eq_false, if_false]
  simp only [hg, Option.bind_eq_bind, Option.bind_some, List.foldlM_cons, List.foldlM_nil, hr,
    Option.pure_def]
  rfl

end Lc3V.Txt
