/- Lemmas/TxtDebug.lean — the line table of the text object format (C18, files assembled with debug symbols).
   `lineTable_rows`: for a chained line map inside the line count the table has one row per line holding the map's address
   for that line (`insert_rowsOf`, `foldBlock_rows`, `foldl_updBlock_lk`); `all_srcLines`: the written raw source lines
   together are the source text (`raw_decomp`), so the re-joined escaped lines unescape to it; `lineTable_parse`: the rows are
   read back one by one (row number = position, `????` or four hex digits, the rest of the row verbatim); `kept_lines3`:
   rows that start with blanks are kept; `read_dbg2`: the `.DEBUG` group with both tables; `dbg_section_roundtrip`.
   `DbgOk` is discharged for every file assembled from source with debug symbols (`final_vector2`: the debug line map is the
   run-length condensation of pass 1's final per-line vector; `source_dbgOk`), hence `source_text_roundtrip_debug`. -/
import Lc3V.Lemmas.TxtSource
import Lc3V.Lemmas.LineVec
import Lc3V.Lemmas.LineRec
import Lc3V.Lemmas.SourceLines
import Lc3V.Props.C25
set_option linter.unusedSimpArgs false
set_option linter.unusedVariables false
namespace Lc3V.Txt
open Lc3V SourceInfo

/-- a table with one row per line `s … s+n-1` -/
def rowsOf (s n : Nat) (F : Nat → Option W) : List (Nat × Option W) := (List.range' s n).map (fun l => (l, F l))

def updF (F : Nat → Option W) (k : Nat) (v : Option W) : Nat → Option W := fun l => if l = k then v else F l

theorem rowsOf_congr (s n : Nat) (F G : Nat → Option W) (h : ∀ l, s ≤ l → l < s + n → F l = G l) : rowsOf s n F = rowsOf s n G := by
  unfold rowsOf
  apply List.map_congr_left
  intro l hl
  have := List.mem_range'_1.mp hl
  rw [h l this.1 this.2]

theorem insert_rowsOf : ∀ (n s k : Nat) (v : Option W) (F : Nat → Option W), s ≤ k → k < s + n →
    insertSortedBy k v (rowsOf s n F) = rowsOf s n (updF F k v) := by
  intro n
  induction n with
  | zero => intro s k v F h1 h2; omega
  | succ n ih =>
    intro s k v F h1 h2
    have e : ∀ G, rowsOf s (n + 1) G = (s, G s) :: rowsOf (s + 1) n G := by
      intro G; unfold rowsOf; rw [List.range'_succ]; rfl
    rw [e F, e (updF F k v)]
    unfold insertSortedBy
    by_cases hk : k = s
    · subst hk
      simp only [Nat.lt_irrefl, if_false, if_true]
      have : updF F k v k = v := by simp [updF]
      rw [this]
      congr 1
      exact rowsOf_congr _ _ _ _ (fun l hl _ => by simp [updF]; intro e; omega)
    · have hlt : ¬ k < s := by omega
      simp only [hlt, hk, if_false]
      have : updF F k v s = F s := by simp [updF]; intro e; omega
      rw [this, ih (s + 1) k v F (by omega) (by omega)]

def updBlock (F : Nat → Option W) (b : Nat × List W) : Nat → Option W :=
  fun l => if b.1 ≤ l ∧ l < b.1 + b.2.length then b.2[l - b.1]? else F l

def foldBlock (st : Nat) (bl : List W) (M : List (Nat × Option W)) : List (Nat × Option W) :=
  ((List.range bl.length).zip bl).foldl (fun m p => insertSortedBy ((st + p.1) % 18446744073709551616) (some p.2) m) M

theorem range_zip_cons (a : W) (as : List W) :
    (List.range (a :: as).length).zip (a :: as) = (0, a) :: ((List.range as.length).zip as).map (fun p => (p.1 + 1, p.2)) := by
  rw [List.length_cons, List.range_succ_eq_map, List.zip_cons_cons]
  congr 1
  rw [List.zip_map_left]
  rfl

theorem foldBlock_rows (N : Nat) (hN : N ≤ 18446744073709551616) : ∀ (bl : List W) (st : Nat) (F : Nat → Option W),
    st + bl.length ≤ N → foldBlock st bl (rowsOf 0 N F) = rowsOf 0 N (updBlock F (st, bl)) := by
  intro bl
  induction bl with
  | nil =>
    intro st F _
    unfold foldBlock
    simp only [List.length_nil, List.range_zero, List.zip_nil_left, List.foldl_nil]
    exact rowsOf_congr _ _ _ _ (fun l _ _ => by simp only [updBlock, List.length_nil, Nat.add_zero]; rw [if_neg (by omega)])
  | cons a as ih =>
    intro st F h
    simp only [List.length_cons] at h
    unfold foldBlock
    rw [range_zip_cons, List.foldl_cons, List.foldl_map]
    have hmod : (st + 0) % 18446744073709551616 = st := by rw [Nat.add_zero]; exact Nat.mod_eq_of_lt (by omega)
    simp only [hmod]
    rw [insert_rowsOf N 0 st (some a) F (by omega) (by omega)]
    have e : ∀ (M : List (Nat × Option W)),
        ((List.range as.length).zip as).foldl (fun m (p : Nat × W) => insertSortedBy ((st + (p.1 + 1)) % 18446744073709551616) (some p.2) m) M =
        foldBlock (st + 1) as M := by
      intro M; unfold foldBlock
      congr 1; funext m p; rw [show st + (p.1 + 1) = st + 1 + p.1 from by omega]
    rw [e, ih (st + 1) _ (by omega)]
    apply rowsOf_congr
    intro l _ _
    simp only [updBlock, updF, List.length_cons]
    by_cases h1 : l = st
    · subst h1
      have : ¬ (l + 1 ≤ l ∧ l < l + 1 + as.length) := by omega
      simp [this]
    · by_cases h2 : st + 1 ≤ l ∧ l < st + 1 + as.length
      · have h3 : st ≤ l ∧ l < st + (as.length + 1) := by omega
        simp only [h2, h3, and_self, if_true]
        have : l - st = (l - (st + 1)) + 1 := by omega
        rw [this, List.getElem?_cons_succ]
      · have h3 : ¬ (st ≤ l ∧ l < st + (as.length + 1)) := by omega
        simp [h2, h3, h1]

theorem tableFold (N : Nat) (hN : N ≤ 18446744073709551616) : ∀ (R : List (Nat × List W)) (F : Nat → Option W),
    (∀ b ∈ R, b.1 + b.2.length ≤ N) →
    R.foldl (fun M b => foldBlock b.1 b.2 M) (rowsOf 0 N F) = rowsOf 0 N (R.foldl updBlock F) := by
  intro R
  induction R with
  | nil => intro F _; rfl
  | cons b rest ih =>
    intro F h
    simp only [List.foldl_cons]
    rw [foldBlock_rows N hN b.2 b.1 F (h b (by simp)), ih _ (fun x hx => h x (by simp [hx]))]

/-- on chained (ascending, disjoint) blocks the successive block updates give the block lookup -/
theorem foldl_updBlock_lk : ∀ (R : List (Nat × List W)) (lo : Nat) (F : Nat → Option W) (l : Nat), Chained R lo →
    (R.foldl updBlock F) l = (match lk R l with | some a => some a | none => F l) := by
  intro R
  induction R with
  | nil => intro lo F l _; simp [lk]
  | cons b rest ih =>
    intro lo F l hc
    obtain ⟨st, bl⟩ := b
    obtain ⟨h1, h2, h3⟩ := hc
    simp only [List.foldl_cons]
    rw [ih (st + bl.length) _ l h3]
    have hs := (chained_sorted rest _ h3).2
    unfold lk
    simp only [List.findSome?_cons]
    by_cases hin : st ≤ l ∧ l < st + bl.length
    · have hnone : lk rest l = none := lk_none_of_lt rest l (fun b' hb' => by have := hs b' hb'; omega)
      unfold lk at hnone
      rw [hnone]
      have hidx : l - st < bl.length := by omega
      simp only [updBlock, hin, and_self, if_true, hin.1]
      rw [List.getElem?_eq_getElem hidx]
    · have hb : (if st ≤ l then bl[l - st]? else none) = none := by
        by_cases h : st ≤ l
        · rw [if_pos h]; exact List.getElem?_eq_none (by omega)
        · rw [if_neg h]
      rw [hb]
      simp only [updBlock, hin, if_false]

/-- **the line table of the text format**, for a chained line map inside the line count: one row per line, holding the
    map's address for that line -/
theorem lineTable_rows (d : DebugSyms) (hc : Chained d.lineMap 0) (hb : ∀ b ∈ d.lineMap, b.1 + b.2.length ≤ d.src.countLines)
    (hN : d.src.countLines ≤ 18446744073709551616) :
    lineTable d = rowsOf 0 d.src.countLines (fun l => lk d.lineMap l) := by
  have e : lineTable d = d.lineMap.foldl (fun M b => foldBlock b.1 b.2 M) (rowsOf 0 d.src.countLines (fun _ => none)) := by
    unfold lineTable rowsOf foldBlock
    rw [List.range_eq_range']
  rw [e, tableFold _ hN _ _ hb]
  apply rowsOf_congr
  intro l _ _
  rw [foldl_updBlock_lk _ 0 _ l hc]
  cases lk d.lineMap l <;> rfl

/-- the text of line `i` as the text format writes it: the raw line, with its line feed -/
theorem srcLine_ofText (cs : List Char) (m : LineMap) (i : Nat) (hi : i < (Lc3V.splitNl cs).length) :
    srcLine ⟨m, ofText cs⟩ i = lineNl (Lc3V.splitNl cs) i := by
  obtain ⟨R, hcs, hstart, hstop⟩ := raw_decomp cs 0 i hi
  simp only [Nat.zero_add] at hstart hstop
  have hcount : (ofText cs).countLines = (Lc3V.splitNl cs).length := ((C25.lines_of_text cs).1).symm
  have hraw : (ofText cs).rawLineSpan i = some (blen (preOf (Lc3V.splitNl cs) i), blen (preOf (Lc3V.splitNl cs) i) + blen (lineNl (Lc3V.splitNl cs) i)) := by
    unfold rawLineSpan
    rw [if_pos (by rw [hcount]; exact hi)]
    have h1 : (if i = 0 then 0 else (ofText cs).nl.getD (i - 1) 0 + 1) = blen (preOf (Lc3V.splitNl cs) i) := by
      rw [← hstart]; rfl
    have h2 : (match (ofText cs).nl[i]? with | some j => min (j + 1) (blen (ofText cs).src) | none => blen (ofText cs).src) =
        blen (preOf (Lc3V.splitNl cs) i) + blen (lineNl (Lc3V.splitNl cs) i) := by
      rw [← hstop]; rfl
    simp only [h1]
    exact congrArg (fun x => some (blen (preOf (Lc3V.splitNl cs) i), x)) h2
  unfold srcLine
  simp only [hraw]
  show sliceBytes cs _ _ = _
  generalize preOf (Lc3V.splitNl cs) i = P at hcs ⊢
  generalize lineNl (Lc3V.splitNl cs) i = M at hcs ⊢
  rw [hcs]
  exact sliceBytes_mid _ _ _

theorem flatMap_lineNl : ∀ (S : List (List Char)), S ≠ [] → (List.range S.length).flatMap (lineNl S) = joinNl S := by
  intro S
  induction S with
  | nil => intro h; exact absurd rfl h
  | cons l ls ih =>
    intro _
    cases ls with
    | nil => simp [lineNl, joinNl]
    | cons l' ls' =>
      have ih' := ih (by simp)
      rw [List.length_cons, List.range_succ_eq_map, List.flatMap_cons, List.flatMap_map]
      have e0 : lineNl (l :: l' :: ls') 0 = l ++ ['\n'] := by simp [lineNl]
      have e1 : ∀ i, lineNl (l :: l' :: ls') (i + 1) = lineNl (l' :: ls') i := by
        intro i; simp [lineNl]
      rw [e0]
      have : (List.range (l' :: ls').length).flatMap (fun a => lineNl (l :: l' :: ls') a.succ) = (List.range (l' :: ls').length).flatMap (lineNl (l' :: ls')) :=
        flatMap_congr_mem _ _ _ (fun i _ => e1 i)
      rw [this, ih']
      simp [joinNl]

/-- all the written source lines together are the source text -/
theorem all_srcLines (cs : List Char) (m : LineMap) :
    (List.range (ofText cs).countLines).flatMap (srcLine ⟨m, ofText cs⟩) = cs := by
  have hcount : (ofText cs).countLines = (Lc3V.splitNl cs).length := ((C25.lines_of_text cs).1).symm
  rw [hcount]
  have : (List.range (Lc3V.splitNl cs).length).flatMap (srcLine ⟨m, ofText cs⟩) = (List.range (Lc3V.splitNl cs).length).flatMap (lineNl (Lc3V.splitNl cs)) :=
    flatMap_congr_mem _ _ _ (fun i hi => srcLine_ofText cs m i (List.mem_range.mp hi))
  rw [this, flatMap_lineNl _ (Lc3V.splitNl_ne_nil cs), joinNl_splitNl]

/-! ### rows of the line table -/

def lineRow (d : DebugSyms) (lcol : Nat) (r : Nat × Option W) : Text :=
  padLeftNum r.1 lcol ++ tdiv ++ serWord r.2 ++ tdiv ++ escapeDefault (srcLine d r.1)

def lineCols : List Text := ["LINE".toList, "ADDR".toList, "SOURCE".toList]
def lineHdr (lcol : Nat) : Text := padRight "LINE".toList lcol ++ tdiv ++ "ADDR".toList ++ tdiv ++ "SOURCE".toList

def lineRowFn : List Text → Nat → Option (Option W × Text) := fun cols i =>
  match cols with
  | [ls, as, src] =>
    (match parseUInt 18446744073709551615 (trim ls) with
     | some n => if n ≠ i then none else (maybeHex (trim as)).map (fun a => (a, src))
     | none => none)
  | _ => none

theorem serWord_ends (w : Option W) : Ends (serWord w) ∧ NoBar (serWord w) := by
  cases w with
  | none =>
    refine ⟨⟨⟨'?', ['?', '?', '?'], rfl, by decide⟩, ⟨['?', '?', '?'], '?', rfl, by decide⟩⟩, ?_⟩
    unfold NoBar; decide
  | some v => exact hex4_ends v.toNat v.isLt

theorem lineRow_segs (d : DebugSyms) (lcol : Nat) (r : Nat × Option W) :
    rowSegs 3 (lineRow d lcol r) = [padLeftNum r.1 lcol, serWord r.2, escapeDefault (srcLine d r.1)] := by
  have s : splitN 3 (lineRow d lcol r) [] = [padLeftNum r.1 lcol, serWord r.2, escapeDefault (srcLine d r.1)] := by
    unfold lineRow
    rw [List.append_assoc (padLeftNum _ _ ++ tdiv), List.append_assoc (padLeftNum _ _ ++ tdiv)]
    rw [splitN_seg 1 _ _ (padLeftNum_nobar _ _), splitN_seg 0 _ _ (serWord_ends r.2).2, splitN_one]
    simp
  unfold rowSegs
  rw [s]; simp

theorem lineRow_parse (d : DebugSyms) (lcol : Nat) (r : Nat × Option W) (hr : r.1 < 2 ^ 64) :
    lineRowFn (rowSegs 3 (lineRow d lcol r)) r.1 = some (r.2, escapeDefault (srcLine d r.1)) := by
  rw [lineRow_segs]
  have hp : parseUInt 18446744073709551615 (natDigits r.1) = some r.1 :=
    C18.decimal_field_roundtrip _ _ (by omega) (by decide)
  simp only [lineRowFn, trim_padLeftNum, hp, ne_eq, not_true_eq_false, if_false, trim_ends _ (serWord_ends r.2).1, maybeHex_serWord,
    Option.map_some]

theorem allSome_idx {α β} (F : Text → Nat → Option α) (ren : β → Text) (g : β → α) :
    ∀ (l : List β) (s : Nat), (∀ j (h : j < l.length), F (ren l[j]) (s + j) = some (g l[j])) →
    allSome (((List.range' s l.length).zip (l.map ren)).map (fun p => F p.2 p.1)) = some (l.map g) := by
  intro l
  induction l with
  | nil => intro s _; rfl
  | cons b bs ih =>
    intro s h
    rw [List.length_cons, List.range'_succ, List.map_cons, List.zip_cons_cons, List.map_cons]
    have h0 := h 0 (by simp)
    simp only [Nat.add_zero, List.getElem_cons_zero] at h0
    simp only [allSome, h0]
    rw [ih (s + 1) (fun j hj => by
      have := h (j + 1) (by simp; omega)
      simp only [List.getElem_cons_succ] at this
      rw [← this]; congr 1; omega)]
    rfl

/-- the line table is read back row by row: the row's number must be its position -/
theorem lineTable_parse (d : DebugSyms) (lcol N : Nat) (F : Nat → Option W) (hH : parseHeader (lineHdr lcol) lineCols = true)
    (hN : N ≤ 2 ^ 64) :
    parseTable (lineHdr lcol :: (rowsOf 0 N F).map (lineRow d lcol)) lineCols lineRowFn false =
      some ((rowsOf 0 N F).map (fun r => (r.2, escapeDefault (srcLine d r.1)))) := by
  unfold parseTable
  simp only [hH, if_true, Bool.false_eq_true, if_false]
  have hlen : lineCols.length = 3 := rfl
  rw [hlen, List.length_map, List.range_eq_range']
  refine allSome_idx (fun t i => lineRowFn (rowSegs 3 t) i) (lineRow d lcol) _ (rowsOf 0 N F) 0 ?_
  intro j hj
  have hlen2 : (rowsOf 0 N F).length = N := by simp [rowsOf]
  have hj' : j < N := by rw [hlen2] at hj; exact hj
  have hrj : (rowsOf 0 N F)[j].1 = j := by simp [rowsOf]
  have := lineRow_parse d lcol (rowsOf 0 N F)[j] (by rw [hrj]; omega)
  have e : 0 + j = (rowsOf 0 N F)[j].1 := by rw [hrj]; omega
  rw [e]
  exact this

/-- a line the reader keeps (it may start or end with blanks, like the rows of the line table) -/
structure Kept2 (l : Text) : Prop where
  nonl : NoNl l
  nocr : ∀ c ∈ l, c ≠ '\r'
  nohash : startsWith l '#' = false
  solid : ∃ c ∈ l, rustWs c = false

theorem Kept.kept2 {l : Text} (h : Kept l) : Kept2 l := by
  obtain ⟨c, cs, hl, hc, hh⟩ := h.first
  exact ⟨h.nonl, h.nocr, by rw [hl]; simp [startsWith, hh], ⟨c, by rw [hl]; simp, hc⟩⟩

theorem trim_nonempty2 {l : Text} (h : Kept2 l) : (trim l).isEmpty = false := by
  obtain ⟨c, hl, hc⟩ := h.solid
  have h1 : c ∈ SourceInfo.trimEnd l := by
    unfold SourceInfo.trimEnd
    rw [List.mem_reverse]
    exact mem_dropWhile_of_not _ c _ (List.mem_reverse.mpr hl) hc
  have h2 : c ∈ trim l := by
    unfold trim SourceInfo.trimStart
    exact mem_dropWhile_of_not _ c _ h1 hc
  cases ht : trim l with
  | nil => rw [ht] at h2; cases h2
  | cons _ _ => rfl

theorem kept2_keepLine {l : Text} (h : Kept2 l) : keepLine l = true := by
  obtain ⟨c, hl, _⟩ := h.solid
  unfold keepLine
  rw [h.nohash]
  cases l with
  | nil => cases hl
  | cons _ _ => rfl

theorem filter_mid2 (M : List Text) (hM : ∀ l ∈ M, l = [] ∨ Kept2 l ∨ Cmt l) :
    (M.filter (fun l => !startsWith l '#')).filter (fun l => !(trim l).isEmpty) = M.filter keepLine := by
  induction M with
  | nil => rfl
  | cons m ms ih =>
    have ihm := ih (fun l hl => hM l (by simp [hl]))
    rcases hM m (by simp) with rfl | h | h
    · have a : (!startsWith ([] : Text) '#') = true := rfl
      have b : (!(trim ([] : Text)).isEmpty) = false := by decide
      have c : keepLine ([] : Text) = false := rfl
      simp only [List.filter_cons, a, if_true, b, c, Bool.false_eq_true, if_false]
      exact ihm
    · have k : (!startsWith m '#') = true ∧ (!(trim m).isEmpty) = true := by
        rw [h.nohash, trim_nonempty2 h]; exact ⟨rfl, rfl⟩
      simp only [List.filter_cons, k.1, k.2, kept2_keepLine h, if_true]
      rw [ihm]
    · have a : (!startsWith m '#') = false := by rw [h.hash]; rfl
      have c : keepLine m = false := by unfold keepLine; rw [h.hash]; simp
      simp only [List.filter_cons, a, c, Bool.false_eq_true, if_false]
      exact ihm

/-- `kept_lines2` with the weaker requirement on the middle lines -/
theorem kept_lines3 (A : Text) (M : List Text) (Z ws : Text) (hA : Clean A) (hZ : Clean Z)
    (hM : ∀ l ∈ M, l = [] ∨ Kept2 l ∨ Cmt l) (hws : ∀ c ∈ ws, rustWs c = true) :
    (((lines (trim (inter (A :: M ++ [Z]) ++ ws))).filter (fun l => !startsWith l '#')).filter
      (fun l => !(trim l).isEmpty)) = A :: (M.filter keepLine) ++ [Z] := by
  have e2 : inter (A :: M ++ [Z]) = (inter (A :: M) ++ ['\n']) ++ Z := by
    have := inter_split_last (A :: M) Z
    rw [if_neg (by simp)] at this
    simpa using this
  have t1 : SourceInfo.trimEnd (inter (A :: M ++ [Z]) ++ ws) = inter (A :: M ++ [Z]) := by
    rw [e2]
    exact trimEnd_clean _ hZ _ hws
  have t2 : SourceInfo.trimStart (inter (A :: M ++ [Z])) = inter (A :: M ++ [Z]) := by
    have : ∃ rest, inter (A :: M ++ [Z]) = A ++ rest := by
      cases hm : M ++ [Z] with
      | nil => simp at hm
      | cons b bs =>
        have : A :: M ++ [Z] = A :: (b :: bs) := by simp [← hm]
        rw [this]; exact ⟨_, rfl⟩
    obtain ⟨rest, hr⟩ := this
    rw [hr]; exact trimStart_clean hA rest
  have nonl : ∀ x ∈ A :: (M ++ [Z]), NoNl x := by
    intro x hx
    simp only [List.mem_cons, List.mem_append, List.mem_nil_iff, or_false] at hx
    rcases hx with rfl | hx | rfl
    · exact hA.nonl
    · rcases hM x hx with rfl | h | h
      · intro c hc; cases hc
      · exact h.nonl
      · exact h.nonl
    · exact hZ.nonl
  have l1 : splitNl (inter (A :: M ++ [Z])) [] = A :: M ++ [Z] := by
    have : A :: M ++ [Z] = A :: (M ++ [Z]) := rfl
    rw [this]; exact splitNl_inter A (M ++ [Z]) nonl
  have l2 : lines (inter (A :: M ++ [Z])) = A :: M ++ [Z] := by
    unfold lines
    simp only [l1]
    have hz : Z ≠ [] := by obtain ⟨c, cs, h, _⟩ := hZ.first; rw [h]; simp
    have : (A :: M ++ [Z]).reverse = Z :: (A :: M).reverse := by simp
    rw [this]
    have : ∀ x ∈ A :: M ++ [Z], stripCr x = x := by
      intro x hx
      simp only [List.cons_append, List.mem_cons, List.mem_append, List.mem_nil_iff, or_false] at hx
      rcases hx with rfl | hx | rfl
      · exact stripCr_clean hA
      · rcases hM x hx with rfl | h | h
        · rfl
        · exact stripCr_nocr x h.nocr
        · exact stripCr_nocr x h.nocr
      · exact stripCr_clean hZ
    split
    · rename_i r heq
      simp only [List.cons.injEq] at heq
      exact absurd heq.1 hz
    · rw [List.map_congr_left (g := id) this]; simp
  have hT : trim (inter (A :: M ++ [Z]) ++ ws) = inter (A :: M ++ [Z]) := by
    unfold trim; rw [t1, t2]
  rw [hT, l2]
  have keepA : (!startsWith A '#') = true ∧ (!(trim A).isEmpty) = true := by
    rw [not_hash_clean hA, trim_clean hA]; obtain ⟨c, cs, h, _⟩ := hA.first; rw [h]; simp
  have keepZ : (!startsWith Z '#') = true ∧ (!(trim Z).isEmpty) = true := by
    rw [not_hash_clean hZ, trim_clean hZ]; obtain ⟨c, cs, h, _⟩ := hZ.first; rw [h]; simp
  have fM := filter_mid2 M hM
  simp only [List.cons_append, List.filter_cons, keepA.1, keepA.2, if_true, List.filter_append, fM, keepZ.1, keepZ.2,
    List.filter_nil]

theorem filter_kept2 (L : List Text) (h : ∀ l ∈ L, Kept2 l) : L.filter keepLine = L :=
  List.filter_eq_self.mpr (fun l hl => kept2_keepLine (h l hl))

theorem padLeftNum_first (n w : Nat) : ∃ c cs, padLeftNum n w = c :: cs ∧ (c = ' ' ∨ IsDec c) := by
  unfold padLeftNum
  simp only
  cases hk : w - (natDigits n).length with
  | zero =>
    cases hd : natDigits n with
    | nil => exact absurd hd (natDigits_ne_nil n)
    | cons c cs => exact ⟨c, cs, by simp, Or.inr (natDigits_isDec n c (by rw [hd]; simp))⟩
  | succ k => exact ⟨' ', List.replicate k ' ' ++ natDigits n, by simp [List.replicate_succ], Or.inl rfl⟩

theorem lineRow_kept (d : DebugSyms) (lcol : Nat) (r : Nat × Option W) :
    Kept2 (lineRow d lcol r) ∧ startsWith (lineRow d lcol r) '.' = false ∧ startsWith (lineRow d lcol r) '=' = false := by
  have hall : ∀ c ∈ lineRow d lcol r, LineCh c := by
    intro c hc
    simp only [lineRow, List.mem_append] at hc
    rcases hc with (((hc | hc) | hc) | hc) | hc
    · exact lineCh_padLeft _ _ c hc
    · exact lineCh_tdiv c hc
    · cases hw : r.2 with
      | none => rw [hw] at hc; simp only [serWord, uninit, List.mem_cons, List.mem_nil_iff, or_false, or_self] at hc; rw [hc]; exact ⟨by decide, by decide⟩
      | some v => rw [hw] at hc; exact lineCh_plain ((hex4_facts _ v.isLt).2 c hc)
    · exact lineCh_tdiv c hc
    · exact C18.escaped_has_no_newline _ c hc
  obtain ⟨c, cs, hp, hc⟩ := padLeftNum_first r.1 lcol
  have hstart : ∀ x : Char, x ≠ ' ' → ¬ IsDec x → startsWith (lineRow d lcol r) x = false := by
    intro x h1 h2
    unfold lineRow; rw [hp]
    simp only [List.cons_append, startsWith, beq_eq_false_iff_ne, ne_eq]
    rcases hc with rfl | hc
    · exact fun e => h1 e.symm
    · intro e; rw [e] at hc; exact h2 hc
  refine ⟨⟨fun c hc => (hall c hc).1, fun c hc => (hall c hc).2, hstart '#' (by decide) (by unfold IsDec; decide), ?_⟩,
    hstart '.' (by decide) (by unfold IsDec; decide), hstart '=' (by decide) (by unfold IsDec; decide)⟩
  -- a digit of the line number
  cases hd : natDigits r.1 with
  | nil => exact absurd hd (natDigits_ne_nil _)
  | cons x xs =>
    refine ⟨x, ?_, (isDec_notWs x (natDigits_isDec r.1 x (by rw [hd]; simp))).1⟩
    simp only [lineRow, padLeftNum, List.mem_append, hd, List.mem_cons, true_or, or_true]

theorem lineHdr_ok (lcol : Nat) : parseHeader (lineHdr lcol) lineCols = true ∧ Kept (lineHdr lcol) ∧
    startsWith (lineHdr lcol) '.' = false ∧ startsWith (lineHdr lcol) '=' = false := by
  have hL : NoBar "LINE".toList := by unfold NoBar; decide
  have hA : NoBar "ADDR".toList := by unfold NoBar; decide
  have eL : Ends "LINE".toList := ⟨⟨'L', "INE".toList, by decide, by decide⟩, ⟨"LIN".toList, 'E', by decide, by decide⟩⟩
  have eA : Ends "ADDR".toList := ⟨⟨'A', "DDR".toList, by decide, by decide⟩, ⟨"ADD".toList, 'R', by decide, by decide⟩⟩
  have eS : Ends "SOURCE".toList := ⟨⟨'S', "OURCE".toList, by decide, by decide⟩, ⟨"SOURC".toList, 'E', by decide, by decide⟩⟩
  have s : splitN 3 (lineHdr lcol) [] = [padRight "LINE".toList lcol, "ADDR".toList, "SOURCE".toList] := by
    unfold lineHdr
    rw [List.append_assoc (padRight _ _ ++ tdiv), List.append_assoc (padRight _ _ ++ tdiv)]
    rw [splitN_seg 1 _ _ (padRight_nobar _ _ hL), splitN_seg 0 _ _ hA, splitN_one]; simp
  refine ⟨?_, ?_, ?_, ?_⟩
  · unfold parseHeader
    have hlen : lineCols.length = 3 := rfl
    rw [hlen, s]
    simp only [List.map_cons, List.map_nil, trim_padRight _ _ eL, trim_ends _ eA, trim_ends _ eS]
    decide
  · have h1 : ∀ c ∈ "LINE".toList, LineCh c := by unfold LineCh; decide
    have h2 : ∀ c ∈ "ADDR".toList, LineCh c := by unfold LineCh; decide
    have h3 : ∀ c ∈ "SOURCE".toList, LineCh c := by unfold LineCh; decide
    have hall : ∀ c ∈ lineHdr lcol, LineCh c := by
      intro c hc
      simp only [lineHdr, List.mem_append] at hc
      rcases hc with (((hc | hc) | hc) | hc) | hc
      · exact lineCh_padRight _ _ h1 c hc
      · exact lineCh_tdiv c hc
      · exact h2 c hc
      · exact lineCh_tdiv c hc
      · exact h3 c hc
    exact ⟨fun c hc => (hall c hc).1, fun c hc => (hall c hc).2,
      ⟨'L', "INE".toList ++ List.replicate (lcol - 4) ' ' ++ tdiv ++ "ADDR".toList ++ tdiv ++ "SOURCE".toList, by simp [lineHdr, padRight], by decide, by decide⟩⟩
  · simp [lineHdr, padRight, startsWith]
  · simp [lineHdr, padRight, startsWith]

def lcolOf (d : DebugSyms) : Nat := max 4 (natDigits (((lineTable d).getLast?.map (·.1)).getD 0)).length

def lineBody (d : DebugSyms) : List Text :=
  if (lineTable d).isEmpty then [] else lineHdr (lcolOf d) :: (lineTable d).map (lineRow d (lcolOf d))

/-- the lines of the symbol part of the text format, with line table -/
def symPartD (t : SymTab) (d : DebugSyms) : List Text :=
  symLine :: symBody t ++ [[]] ++ relLine :: relBody t ++ [[]] ++ dbgLine :: cmtLine :: [] :: idxBody t ++ [divider] ++
    lineBody d ++ [divider]

theorem serSym_lines_dbg (t : SymTab) (d : DebugSyms) (hd : t.debug = some d) : serSym t = (symPartD t d).flatMap (· ++ nl) := by
  have e : serSym t = symLine ++ nl ++
      (if t.labels.isEmpty then [] else symHdr ++ nl ++ (sortBy symLt t.labels).flatMap (fun e => symRow e ++ nl)) ++ nl ++
      relLine ++ nl ++
      (if t.rel.isEmpty then [] else relHdr ++ nl ++ (sortBy relLt t.rel).flatMap (fun e => relRow e ++ nl)) ++ nl ++
      dbgLine ++ nl ++ cmtLine ++ nl ++ nl ++
      (if t.labels.isEmpty then [] else
        idxHdr (idxLc t) (idxIc t) ++ nl ++ (idxEntries t).flatMap (fun e => idxRow (idxLc t) (idxIc t) e ++ nl)) ++
      divider ++ nl ++
      ((if (lineTable d).isEmpty then [] else
          lineHdr (lcolOf d) ++ nl ++ (lineTable d).flatMap (fun r => lineRow d (lcolOf d) r ++ nl)) ++ divider ++ nl) := by
    unfold serSym
    rw [hd]
    rfl
  rw [e]
  unfold symPartD symBody relBody idxBody lineBody
  by_cases h1 : t.labels.isEmpty = true <;> by_cases h2 : t.rel.isEmpty = true <;> by_cases h3 : (lineTable d).isEmpty = true <;>
    simp only [h1, h2, h3, if_true, if_false, Bool.false_eq_true, List.flatMap_cons, List.flatMap_append, List.flatMap_nil, flatMap_map_nl,
      List.append_assoc, List.nil_append, List.append_nil, List.cons_append]

/-- the lines between the first and the last line of a serialized file with symbol and line tables -/
def midLinesD (bs : List (Nat × List (Option W))) (t : SymTab) (d : DebugSyms) : List Text :=
  [] :: textLine :: bs.flatMap blockLines ++ [[]] ++
    (symLine :: symBody t ++ [[]] ++ relLine :: relBody t ++ [[]] ++ dbgLine :: cmtLine :: [] :: idxBody t ++ [divider] ++ lineBody d)

theorem serialize_dbg_lines (bs : List (Nat × List (Option W))) (t : SymTab) (d : DebugSyms) (hd : t.debug = some d) :
    serialize ⟨bs, some t⟩ = (hdrLine :: midLinesD bs t d ++ [divider]).flatMap (· ++ nl) := by
  have e : serialize ⟨bs, some t⟩ = hdrLine ++ nl ++ nl ++ textLine ++ nl ++ bs.flatMap serBlock ++ nl ++ serSym t := rfl
  rw [e, flatMap_serBlock, serSym_lines_dbg t d hd]
  unfold midLinesD symPartD
  simp only [List.cons_append, List.flatMap_cons, List.flatMap_append, List.flatMap_nil,
    List.nil_append, List.append_nil, List.append_assoc]

theorem runs_bound : ∀ (ls : List (Option W)) (i : Nat) (cur : Option (List W)), (cur.getD []).length ≤ i →
    ∀ b ∈ runs ls i cur, b.1 + b.2.length ≤ i + ls.length := by
  intro ls
  induction ls with
  | nil => intro i cur _ b hb; simp [runs] at hb
  | cons x rest ih =>
    intro i cur hc b hb
    cases x with
    | some a =>
      simp only [runs] at hb
      have := ih (i + 1) (some (cur.getD [] ++ [a])) (by simp; omega) b hb
      simp only [List.length_cons]; omega
    | none =>
      cases cur with
      | none =>
        simp only [runs] at hb
        have := ih (i + 1) none (by simp) b hb
        simp only [List.length_cons]; omega
      | some bl =>
        simp only [runs, List.mem_cons] at hb
        simp only [Option.getD_some] at hc
        rcases hb with rfl | hb
        · simp only [List.length_cons]; omega
        · have := ih (i + 1) none (by simp) b hb
          simp only [List.length_cons]; omega

/-- what the text format needs of a symbol table with debug symbols (true of every file assembled with debug symbols) -/
structure DbgOk (t : SymTab) (d : DebugSyms) : Prop where
  dbg : t.debug = some d
  ukeys : UKeys t.labels
  names : ∀ e ∈ t.labels, NameOk e.1
  srcFit : ∀ e ∈ t.labels, e.2.srcStart < 2 ^ 64
  urel : t.rel.Pairwise (fun x y => x.1 ≠ y.1)
  relNames : ∀ e ∈ t.rel, NameOk e.2
  relE : t.labels = [] → t.rel = []
  src : d.src = SourceInfo.ofText d.src.src
  lines : d.src.countLines ≤ 2 ^ 64
  vec : ∃ ls : List (Option W), ls.length = d.src.countLines ∧ EndsNone ls ∧ Asc ls = true ∧ d.lineMap = runs ls 0 none

theorem DbgOk.symOk {t : SymTab} {d : DebugSyms} (h : DbgOk t d) (hne : t.labels ≠ []) : SymOk ⟨t.labels, t.rel, none⟩ :=
  ⟨rfl, hne, h.ukeys, h.names, h.srcFit, h.urel, h.relNames⟩

/-- the facts about the table bodies, also for an empty label table -/
theorem DbgOk.bodies {t : SymTab} {d : DebugSyms} (h : DbgOk t d) :
    (∀ l ∈ symBody t, Kept l ∧ startsWith l '.' = false) ∧ (∀ l ∈ relBody t, Kept l ∧ startsWith l '.' = false) ∧
    (∀ l ∈ idxBody t, Kept l ∧ startsWith l '.' = false ∧ startsWith l '=' = false) := by
  by_cases hne : t.labels = []
  · have hr := h.relE hne
    refine ⟨fun l hl => ?_, fun l hl => ?_, fun l hl => ?_⟩
    · simp [symBody, hne] at hl
    · simp [relBody, hr] at hl
    · simp [idxBody, hne] at hl
  · have hok := h.symOk hne
    exact ⟨symBody_kept ⟨t.labels, t.rel, none⟩ hok, relBody_kept ⟨t.labels, t.rel, none⟩ hok, idxBody_kept ⟨t.labels, t.rel, none⟩ hok⟩

/-- the rows of the line table are the per-line vector of pass 1 -/
theorem DbgOk.table {t : SymTab} {d : DebugSyms} (h : DbgOk t d) :
    ∃ ls : List (Option W), ls.length = d.src.countLines ∧ LineMap.new ls = some d.lineMap ∧
      lineTable d = rowsOf 0 d.src.countLines (fun l => (ls[l]?).join) ∧ (lineTable d).map (·.2) = ls := by
  obtain ⟨ls, hlen, he, ha, hm⟩ := h.vec
  obtain ⟨m, hnew, hget, hruns, hch⟩ := lineMap_new_spec ls he ha
  have hmm : d.lineMap = m := by rw [hm, hruns]
  have hb : ∀ b ∈ d.lineMap, b.1 + b.2.length ≤ d.src.countLines := by
    intro b hb
    rw [hm] at hb
    have := runs_bound ls 0 none (by simp) b hb
    omega
  have htab := lineTable_rows d (by rw [hmm]; exact hch) hb h.lines
  have hF : rowsOf 0 d.src.countLines (fun l => lk d.lineMap l) = rowsOf 0 d.src.countLines (fun l => (ls[l]?).join) := by
    apply rowsOf_congr
    intro l _ _
    rw [hmm, ← get_eq_lk m 0 hch l, hget l]
  refine ⟨ls, hlen, by rw [hmm]; exact hnew, by rw [htab, hF], ?_⟩
  rw [htab, hF]
  apply List.ext_getElem
  · simp [rowsOf, hlen]
  · intro i h1 h2
    simp only [rowsOf, List.map_map, List.getElem_map, List.getElem_range', Function.comp, Nat.zero_add, Nat.one_mul]
    rw [List.getElem?_eq_getElem h2]; rfl

theorem countLines_pos (cs : List Char) : 0 < (SourceInfo.ofText cs).countLines := by
  simp [SourceInfo.ofText, SourceInfo.countLines]

theorem lineBody_eq {t : SymTab} {d : DebugSyms} (h : DbgOk t d) :
    lineBody d = lineHdr (lcolOf d) :: (lineTable d).map (lineRow d (lcolOf d)) ∧ (lineTable d) ≠ [] := by
  obtain ⟨ls, hlen, _, htab, _⟩ := h.table
  have hpos : 0 < d.src.countLines := by rw [h.src]; exact countLines_pos _
  have hne : lineTable d ≠ [] := by
    rw [htab]; intro e
    have := congrArg List.length e
    simp [rowsOf] at this; omega
  refine ⟨?_, hne⟩
  unfold lineBody
  have : (lineTable d).isEmpty = false := by
    cases hl : lineTable d with
    | nil => exact absurd hl hne
    | cons _ _ => rfl
  rw [this]; rfl

theorem lineBody_kept {t : SymTab} {d : DebugSyms} (h : DbgOk t d) :
    ∀ l ∈ lineBody d, Kept2 l ∧ startsWith l '.' = false ∧ startsWith l '=' = false := by
  intro l hl
  rw [(lineBody_eq h).1] at hl
  rcases List.mem_cons.mp hl with rfl | hl
  · have := lineHdr_ok (lcolOf d); exact ⟨this.2.1.kept2, this.2.2.1, this.2.2.2⟩
  · obtain ⟨r, _, rfl⟩ := List.mem_map.mp hl
    exact lineRow_kept d _ r

/-- what the reader keeps of a serialized file with symbol and line tables -/
theorem kept_of_serialize_dbg (bs : List (Nat × List (Option W))) (hwf : BlocksWF bs) (t : SymTab) (d : DebugSyms) (h : DbgOk t d) :
    (((lines (trim (serialize ⟨bs, some t⟩))).filter (fun l => !startsWith l '#')).filter (fun l => !(trim l).isEmpty)) =
      hdrLine :: (textLine :: bs.flatMap blockLines ++ (symLine :: symBody t ++ (relLine :: relBody t ++
        (dbgLine :: idxBody t ++ (divider :: lineBody d))))) ++ [divider] := by
  rw [serialize_dbg_lines bs t d h.dbg, flatMap_nl_inter _ (by simp)]
  have hB := blockLines_kept bs hwf
  obtain ⟨hS, hR, hI⟩ := h.bodies
  have hL := lineBody_kept h
  have hM : ∀ l ∈ midLinesD bs t d, l = [] ∨ Kept2 l ∨ Cmt l := by
    intro l hl
    simp only [midLinesD, List.cons_append, List.mem_cons, List.mem_append, List.mem_nil_iff, or_false, or_assoc] at hl
    rcases hl with rfl | rfl | hl | rfl | rfl | hl | rfl | rfl | hl | rfl | rfl | rfl | rfl | hl | rfl | hl
    · exact Or.inl rfl
    · exact Or.inr (Or.inl textLine_kept.kept2)
    · exact Or.inr (Or.inl (hB l hl).1.kept2)
    · exact Or.inl rfl
    · exact Or.inr (Or.inl symLine_kept.kept2)
    · exact Or.inr (Or.inl (hS l hl).1.kept2)
    · exact Or.inl rfl
    · exact Or.inr (Or.inl relLine_kept.kept2)
    · exact Or.inr (Or.inl (hR l hl).1.kept2)
    · exact Or.inl rfl
    · exact Or.inr (Or.inl dbgLine_kept.kept2)
    · exact Or.inr (Or.inr cmtLine_cmt)
    · exact Or.inl rfl
    · exact Or.inr (Or.inl (hI l hl).1.kept2)
    · exact Or.inr (Or.inl divider_clean.kept.kept2)
    · exact Or.inr (Or.inl (hL l hl).1)
  have hk := kept_lines3 hdrLine (midLinesD bs t d) divider nl hdr_clean divider_clean hM (by intro c hc; simp [nl] at hc; rw [hc]; decide)
  rw [hk]
  congr 2
  have k0 : keepLine ([] : Text) = false := rfl
  have kc : keepLine cmtLine = false := by decide
  unfold midLinesD
  simp only [List.cons_append, List.filter_cons, List.filter_append, k0, kc, Bool.false_eq_true, if_false,
    kept_keepLine textLine_kept, kept_keepLine symLine_kept, kept_keepLine relLine_kept, kept_keepLine dbgLine_kept,
    kept_keepLine divider_clean.kept, if_true,
    filter_kept _ (fun l hl => (hB l hl).1), filter_kept _ (fun l hl => (hS l hl).1), filter_kept _ (fun l hl => (hR l hl).1),
    filter_kept _ (fun l hl => (hI l hl).1), filter_kept2 _ (fun l hl => (hL l hl).1), List.nil_append, List.append_assoc]

theorem findIdx_first {α} (p : α → Bool) (z : α) (hz : p z = true) (R : List α) : ∀ (L : List α), (∀ l ∈ L, p l = false) →
    (L ++ z :: R).findIdx? p = some L.length := by
  intro L
  induction L with
  | nil => intro _; simp [List.findIdx?_cons, hz]
  | cons x xs ih =>
    intro h
    simp only [List.cons_append, List.findIdx?_cons, h x (by simp), Bool.false_eq_true, if_false]
    rw [ih (fun l hl => h l (by simp [hl]))]
    simp

theorem escapeDefault_flatMap {α} (l : List α) (f : α → Text) : l.flatMap (fun x => escapeDefault (f x)) = escapeDefault (l.flatMap f) := by
  unfold escapeDefault
  induction l with
  | nil => rfl
  | cons x xs ih => simp only [List.flatMap_cons, List.flatMap_append, ih]

theorem getLast_snoc2 {α} (X Y : List α) (z : α) : (X ++ (Y ++ [z])).getLast? = some z := by
  rw [← List.append_assoc]; simp

theorem all_srcLines' (d : DebugSyms) (h : d.src = SourceInfo.ofText d.src.src) :
    (List.range d.src.countLines).flatMap (srcLine d) = d.src.src := by
  obtain ⟨lm, s⟩ := d
  simp only at h ⊢
  generalize hcs : s.src = cs at h
  subst h
  exact all_srcLines cs lm

/-- the `.DEBUG` group with line table -/
theorem read_dbg2 (st : RdSt) (t : SymTab) (d : DebugSyms) (h : DbgOk t d)
    (hst : st.labels = (sortBy symLt t.labels).map stripSrc) (hsd : st.debug = none) :
    readGroup st (dbgLine :: (idxBody t ++ (divider :: lineBody d ++ [divider]))) =
      some ⟨st.blocks, sortBy symLt t.labels, st.rel, some ((lineTable d).map (·.2), d.src.src)⟩ := by
  have e1 : ¬ (dbgLine = ".TEXT".toList) := by decide
  have e2 : ¬ (dbgLine = ".SYMBOL".toList) := by decide
  have e3 : ¬ (dbgLine = ".LINKER_INFO".toList) := by decide
  have e4 : dbgLine = ".DEBUG".toList := rfl
  have hI := h.bodies.2.2
  have hdiv : startsWith divider '=' = true := by decide
  have hfi : (idxBody t ++ (divider :: lineBody d ++ [divider])).findIdx? (fun l => startsWith l '=') = some (idxBody t).length :=
    findIdx_first _ divider hdiv _ _ (fun l hl => (hI l hl).2.2)
  have hlast : (idxBody t ++ (divider :: lineBody d ++ [divider])).getLast? = some divider := getLast_snoc2 _ _ _
  have hne2 : (idxBody t ++ (divider :: lineBody d ++ [divider])).isEmpty = false := by
    cases idxBody t <;> rfl
  have htab : parseTable (idxBody t) idxCols idxRowFn true = some (idxEntries t) := by
    by_cases hemp : t.labels = []
    · have e : idxBody t = [] := by simp [idxBody, hemp]
      have e' : idxEntries t = [] := by simp [idxEntries, hemp, sortBy]
      rw [e, e']; rfl
    · have hne : t.labels.isEmpty = false := by
        cases hl : t.labels with
        | nil => exact absurd hl hemp
        | cons _ _ => rfl
      have hb : idxBody t = idxHdr (idxLc t) (idxIc t) :: (idxEntries t).map (idxRow (idxLc t) (idxIc t)) := by
        unfold idxBody; rw [hne]; rfl
      have hk : ∀ e ∈ idxEntries ⟨t.labels, t.rel, none⟩, NameOk e.1 ∧ e.2 < 2 ^ 64 := by
        intro r hr
        obtain ⟨e, he, rfl⟩ := (idxEntries_mem _ r).mp hr
        exact ⟨h.names e he, h.srcFit e he⟩
      have := idxTable (idxLc t) (idxIc t) (idxEntries t) hk
      rw [← hb] at this; exact this
  have hfold : (idxEntries t).foldl (fun m (r : Text × Nat) => updLabel m r.1 (fun d => { d with srcStart := r.2 }))
      ((sortBy symLt t.labels).map stripSrc) = sortBy symLt t.labels := by
    by_cases hemp : t.labels = []
    · have e' : idxEntries t = [] := by simp [idxEntries, hemp, sortBy]
      rw [e', hemp]; rfl
    · have hok := h.symOk hemp
      have hf := idxFold (idxEntries t) ((sortBy symLt t.labels).map stripSrc) (idxEntries_ukeys ⟨t.labels, t.rel, none⟩ h.ukeys) (by
        intro r hr
        obtain ⟨e, he, rfl⟩ := (idxEntries_mem ⟨t.labels, t.rel, none⟩ r).mp hr
        exact ⟨stripSrc e, List.mem_map_of_mem ((sortBy_mem _ _ _).mpr he), rfl⟩)
      have hrest : ((sortBy symLt t.labels).map stripSrc).map (updSrc (idxEntries t)) = sortBy symLt t.labels :=
        restore_src ⟨t.labels, t.rel, none⟩ hok
      rw [hrest] at hf; exact hf
  -- the line table
  obtain ⟨ls, hlen, _, htbl, _⟩ := h.table
  obtain ⟨hlb, hlne⟩ := lineBody_eq h
  have hH := (lineHdr_ok (lcolOf d)).1
  have hparse := lineTable_parse d (lcolOf d) d.src.countLines (fun l => (ls[l]?).join) hH h.lines
  rw [← htbl, ← hlb] at hparse
  have hrows_ne : ((lineTable d).map (fun r => (r.2, escapeDefault (srcLine d r.1)))).isEmpty = false := by
    cases hl : lineTable d with
    | nil => exact absurd hl hlne
    | cons _ _ => rfl
  -- the source text
  have hsrc : ((lineTable d).map (fun r => (r.2, escapeDefault (srcLine d r.1)))).flatMap (·.2) = escapeDefault d.src.src := by
    rw [List.flatMap_map]
    show (lineTable d).flatMap (fun r => escapeDefault (srcLine d r.1)) = _
    rw [htbl]
    unfold rowsOf
    rw [List.flatMap_map]
    show (List.range' 0 d.src.countLines).flatMap (fun l => escapeDefault (srcLine d l)) = _
    rw [escapeDefault_flatMap, ← List.range_eq_range', all_srcLines' d h.src]
  have hun : unescape ((escapeDefault d.src.src).length + 1) (escapeDefault d.src.src) [] = some d.src.src :=
    C18.source_text_roundtrip d.src.src
  unfold readGroup
  simp only []
  rw [if_neg e1, if_neg e2, if_neg e3, if_pos e4]
  simp only [hne2, Bool.false_eq_true, if_false, hfi, hlast]
  simp only [hdiv, Bool.not_true, Bool.false_eq_true, if_false, List.take_left', List.drop_left']
  erw [htab]
  have hlen2 : (divider :: lineBody d ++ [divider]).length ≥ 2 := by simp
  have hls : (List.drop 1 (divider :: lineBody d ++ [divider])).dropLast = lineBody d := by simp
  simp only [hlen2, if_true, hls]
  erw [hparse]
  simp only [hrows_ne, Bool.false_eq_true, if_false, hsd, Option.getD_none, List.nil_append, hsrc, hun, Option.map_some, hst, hfold,
    List.map_map]
  rfl

theorem read_sym' (st : RdSt) (hst : st.labels = []) (t : SymTab) (d : DebugSyms) (h : DbgOk t d) :
    readGroup st (symLine :: symBody t) = some ⟨st.blocks, (sortBy symLt t.labels).map stripSrc, st.rel, st.debug⟩ := by
  by_cases hemp : t.labels = []
  · have e1 : ¬ (symLine = ".TEXT".toList) := by decide
    have e2 : symLine = ".SYMBOL".toList := rfl
    have hb : symBody t = [] := by simp [symBody, hemp]
    unfold readGroup
    simp only []
    rw [if_neg e1, if_pos e2, hb, hemp]
    simp only [parseTable, Option.map_some, List.foldl_nil, hst]
    rfl
  · exact read_sym st hst ⟨t.labels, t.rel, none⟩ (h.symOk hemp)

theorem read_rel' (st : RdSt) (hst : st.rel = []) (t : SymTab) (d : DebugSyms) (h : DbgOk t d) :
    readGroup st (relLine :: relBody t) = some ⟨st.blocks, st.labels, sortBy relLt t.rel, st.debug⟩ := by
  by_cases hemp : t.labels = []
  · have hr := h.relE hemp
    have e1 : ¬ (relLine = ".TEXT".toList) := by decide
    have e2 : ¬ (relLine = ".SYMBOL".toList) := by decide
    have e3 : relLine = ".LINKER_INFO".toList := rfl
    have hb : relBody t = [] := by simp [relBody, hr]
    unfold readGroup
    simp only []
    rw [if_neg e1, if_neg e2, if_pos e3, hb, hr]
    simp only [parseTable, Option.map_some, List.foldl_nil, hst]
    rfl
  · exact read_rel st hst ⟨t.labels, t.rel, none⟩ (h.symOk hemp)

/-- **files assembled with debug symbols round-trip through the text format**: blocks, label and relocation tables (in the
    writer's row order), the line table and the source text are read back -/
theorem dbg_section_roundtrip (bs : List (Nat × List (Option W))) (hwf : BlocksWF bs) (t : SymTab) (d : DebugSyms) (h : DbgOk t d) :
    deserialize (serialize ⟨bs, some t⟩) = some ⟨bs, some ⟨sortBy symLt t.labels, sortBy relLt t.rel, some d⟩⟩ := by
  have hk := kept_of_serialize_dbg bs hwf t d h
  have hB := blockLines_kept bs hwf
  obtain ⟨hS, hR, hI⟩ := h.bodies
  have hL := lineBody_kept h
  have hg : groupLines (textLine :: bs.flatMap blockLines ++ (symLine :: symBody t ++ (relLine :: relBody t ++
        (dbgLine :: idxBody t ++ (divider :: lineBody d)))) ++ [divider]) [] =
      some [textLine :: bs.flatMap blockLines, symLine :: symBody t, relLine :: relBody t,
        dbgLine :: (idxBody t ++ (divider :: lineBody d ++ [divider]))] := by
    have := groupLines_groups [(textLine, bs.flatMap blockLines), (symLine, symBody t), (relLine, relBody t),
      (dbgLine, idxBody t ++ (divider :: lineBody d ++ [divider]))] [] (by
      intro g hg
      simp only [List.mem_cons, List.mem_nil_iff, or_false] at hg
      rcases hg with rfl | rfl | rfl | rfl
      · exact ⟨rfl, fun l hl => (hB l hl).2⟩
      · exact ⟨(by decide : startsWith symLine '.' = true), fun l hl => (hS l hl).2⟩
      · exact ⟨(by decide : startsWith relLine '.' = true), fun l hl => (hR l hl).2⟩
      · refine ⟨(by decide : startsWith dbgLine '.' = true), fun l hl => ?_⟩
        simp only [List.cons_append, List.mem_append, List.mem_cons, List.mem_nil_iff, or_false] at hl
        rcases hl with hl | rfl | hl | rfl
        · exact (hI l hl).2.1
        · decide
        · exact (hL l hl).2.1
        · decide)
    simp only [List.flatMap_cons, List.flatMap_nil, List.append_nil, List.map_cons, List.map_nil, List.reverse_nil, List.nil_append,
      List.cons_append, List.append_assoc] at this ⊢
    exact this
  have r1 := read_text bs hwf
  have r2 := read_sym' { blocks := bs } rfl t d h
  have r3 := read_rel' ⟨bs, (sortBy symLt t.labels).map stripSrc, [], none⟩ rfl t d h
  have r4 := read_dbg2 ⟨bs, (sortBy symLt t.labels).map stripSrc, sortBy relLt t.rel, none⟩ t d h rfl rfl
  simp only [List.cons_append] at r4
  obtain ⟨ls, _, hnew, _, hmap⟩ := h.table
  have hd : (⟨d.lineMap, SourceInfo.ofText d.src.src⟩ : DebugSyms) = d := by
    obtain ⟨lm, s⟩ := d
    simp only
    congr 1
    exact h.src.symm
  unfold deserialize
  simp only [hk]
  have : hdrLine = "LC-3 OBJ FILE".toList := hdrLine_eq
  simp only [List.cons_append, this, ne_eq, not_true_eq_false, if_false]
  have hg' := hg
  simp only [List.cons_append] at hg'
  simp only [hg', Option.bind_eq_bind, Option.bind_some, List.foldlM_cons, List.foldlM_nil, r1, r2, r3, r4,
    Option.pure_def, Option.isSome_some, Bool.or_true, if_true, hmap, hnew, Option.map_some, hd]

end Lc3V.Txt

namespace Lc3V
open Txt

/-- the debug symbols pass 1 produces, as the run-length condensation of its final per-line vector -/
theorem final_vector2 (prog : List Stmt) (src : List Char) (t : SymTab) (h : pass1 prog (some src) = .ok t)
    (hl : LinesFrom (SourceInfo.ofText src) (SourceInfo.ofText src).countLines 0 prog) :
    ∃ lsf : List (Option W), lsf.length = (SourceInfo.ofText src).countLines ∧ EndsNone lsf ∧ Asc lsf = true ∧
      t.debug = some ⟨runs lsf 0 none, SourceInfo.ofText src⟩ := by
  generalize hsi : SourceInfo.ofText src = si at *
  have hN : 0 < si.countLines := by rw [← hsi]; simp [SourceInfo.ofText, SourceInfo.countLines]
  unfold pass1 at h
  cases hf : prog.foldlM pass1Step (p1Init (some src)) with
  | error e => rw [hf] at h; cases h
  | ok stf =>
    rw [hf] at h
    dsimp only at h
    have hinit : LInv si (p1Init (some src)) (List.replicate si.countLines none) 0 := by rw [← hsi]; exact p1Init_linv src
    have hlen0 : (List.replicate si.countLines (none : Option W)).length = si.countLines := by simp
    obtain ⟨lsf, Lf, c1, _, c3, _, _, c6, c7⟩ := linv_fold si prog [] _ stf _ 0 hinit (by rw [hlen0]; simpa using hl) hf
    unfold p1Finish at h
    cases hcur : stf.cursor with
    | some c => rw [hcur] at h; cases h
    | none =>
      rw [hcur] at h
      dsimp only at h
      rw [c1.lines] at h
      injection h with h
      have hlenf : lsf.length = si.countLines := by rw [c3, hlen0]
      have hends : EndsNone lsf := by
        right
        rw [List.getLast?_eq_getElem?]
        by_cases hk : Lf ≤ lsf.length - 1
        · exact c1.empty _ hk (by omega)
        · have hidx : lsf.length - 1 < lsf.length := by omega
          cases hv : lsf[lsf.length - 1]? with
          | none => rw [List.getElem?_eq_none_iff] at hv; omega
          | some o =>
            cases o with
            | none => rfl
            | some a =>
              have hL : Lf - 1 = lsf.length - 1 ∨ Lf - 1 ≠ lsf.length - 1 := by omega
              rcases hL with hL | hL
              · obtain ⟨cur, hc, _⟩ := c1.last a (by omega) (by rw [hL]; exact hv)
                rw [hcur] at hc; cases hc
              · exfalso
                have := c7 (by omega)
                rw [hlen0] at this
                omega
      obtain ⟨m, hm1, hm2, hm3, hm4⟩ := lineMap_new_spec lsf hends (asc_of_ascP _ c1.asc)
      refine ⟨lsf, hlenf, hends, asc_of_ascP _ c1.asc, ?_⟩
      rw [← h]
      simp only [hm1, Option.getD_some, hm3]

/-- **symbol tables of files assembled from source with debug symbols meet `DbgOk`** -/
theorem source_dbgOk (src : List Char) (stmts : List Stmt) (obj : ObjFile) (hp : parseAst src = .ok stmts)
    (hsrc : 12 * blen src < 2 ^ 64) (h : assemble stmts (some src) = .ok obj) :
    ∃ t d, obj.sym = some t ∧ BlocksWF obj.blocks ∧ DbgOk t d := by
  have h' : assemble stmts (if true then some src else none) = .ok obj := h
  obtain ⟨hwf, _⟩ := C17.source_roundtrip src stmts true obj hp hsrc h'
  have hnames := parseAst_names src stmts hp
  obtain ⟨_, _, hlines⟩ := parsed_program_lines src stmts hp
  have hp1 : ∃ t', pass1 stmts (some src) = .ok t' := by
    unfold assemble at h
    cases h1 : pass1 stmts (some src) with
    | error e => rw [h1] at h; cases h
    | ok t' => exact ⟨t', rfl⟩
  obtain ⟨t, hp1⟩ := hp1
  have hs : obj.sym = some t := by
    unfold assemble at h
    rw [hp1] at h
    dsimp only at h
    unfold pass2 at h
    split at h
    · cases h
    · cases h; simp
  have hsym := hwf.symOk t hs
  obtain ⟨lsf, hlen, hends, hasc, hdbg⟩ := final_vector2 stmts src t hp1 hlines
  obtain ⟨_, _, _, _, _, _, _, hsorted, _, _⟩ := C01.assembled_image_any stmts (some src) obj h
  refine ⟨t, ⟨runs lsf 0 none, SourceInfo.ofText src⟩, hs, ⟨hsorted, fun b hb => by have := hwf.fit b hb; omega⟩, ?_⟩
  -- the keys
  have hp1' := hp1
  unfold pass1 at hp1'
  cases hf : stmts.foldlM pass1Step (p1Init (some src)) with
  | error e => rw [hf] at hp1'; cases hp1'
  | ok stf =>
    rw [hf] at hp1'
    dsimp only at hp1'
    have hk := pass1_fold_keys NameOk stmts _ stf hf
      (fun s hs l hl => by
        rcases hl with hl | hl
        · exact nameOk_upper _ ((hnames s hs).1 l hl)
        · exact nameOk_upper _ ((hnames s hs).2.1 l hl))
      (fun s hs l hl => nameOk_upper _ ((hnames s hs).2.2 l hl))
      (by intro e he; simp [p1Init] at he) (by intro e he; simp [p1Init] at he)
    unfold p1Finish at hp1'
    cases hc : stf.cursor with
    | some cur => rw [hc] at hp1'; cases hp1'
    | none =>
      rw [hc] at hp1'
      dsimp only at hp1'
      have hlab : t.labels = stf.labels := by cases hp1'; rfl
      have hrel : t.rel = stf.rel.filter (fun e => match lookupKey stf.labels e.2 with | some ⟨_, _, true⟩ => true | _ => false) := by
        cases hp1'; rfl
      refine ⟨hdbg, C20.nodup_keys_pairwise _ hsym.labelsUnique, fun e he => hk.1 e (by rw [← hlab]; exact he),
        fun e he => (hsym.labelsFit e he).1, C20.nodup_addr_pairwise _ hsym.relUnique,
        fun e he => hk.2 e (by rw [hrel] at he; exact (List.mem_filter.mp he).1), ?_, rfl, ?_, ⟨lsf, hlen, hends, hasc, rfl⟩⟩
      · intro hemp
        rw [hrel]
        rw [hlab] at hemp
        apply List.filter_eq_nil_iff.mpr
        intro e _
        simp [hemp, lookupKey]
      · show (SourceInfo.ofText src).countLines ≤ 2 ^ 64
        rw [C25.count_lines]
        have := count_nl_le_blen src
        omega

/-- **C18 for files assembled from source WITH debug symbols**: whatever the source text (it parses and assembles), the
    object file is read back from its text form with the same blocks, the same label and relocation tables (in the
    writer's row order), the same line table and the same source text -/
theorem source_text_roundtrip_debug (src : List Char) (stmts : List Stmt) (obj : ObjFile) (hp : parseAst src = .ok stmts)
    (hsrc : 12 * blen src < 2 ^ 64) (h : assemble stmts (some src) = .ok obj) :
    ∃ t d, obj.sym = some t ∧ t.debug = some d ∧
      deserialize (serialize obj) = some ⟨obj.blocks, some ⟨sortBy symLt t.labels, sortBy relLt t.rel, some d⟩⟩ := by
  obtain ⟨t, d, hs, hb, hok⟩ := source_dbgOk src stmts obj hp hsrc h
  refine ⟨t, d, hs, hok.dbg, ?_⟩
  have : obj = ⟨obj.blocks, some t⟩ := by cases obj; simp only at hs; rw [hs]
  rw [this]
  exact dbg_section_roundtrip _ hb t d hok

end Lc3V
