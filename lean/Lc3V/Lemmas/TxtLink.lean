/- Lemmas/TxtLink.lean — the text format round trip for LINKED files, debug symbols included (C18).  `runs_append`,
   `runs_shift`, `asc_append`, `endsNone_append`: the run-length condensation of two per-line vectors one after the other is
   the first map followed by the second one re-keyed; with `C22.link_find` this makes `DebugSyms.link` keep `DOk`
   (`DOk.link`).  `TOk` (label/relocation tables fit the text format; either no debug symbols and a non-empty label table, or
   debug symbols meeting `DOk`) is what `tOk_roundtrip` needs, what `source_tOk` gives for every file assembled from source
   and what `link` keeps (`link_tOk`); `text_roundtrip_assembled_or_linked` is C18 as stated. -/
import Lc3V.Lemmas.TxtDebug
import Lc3V.Lemmas.C22Core
set_option linter.unusedSimpArgs false
set_option linter.unusedVariables false
namespace Lc3V.Txt
open Lc3V

theorem runs_shift (k : Nat) : ∀ (ls : List (Option W)) (i : Nat) (cur : Option (List W)), (cur.getD []).length ≤ i →
    runs ls (i + k) cur = (runs ls i cur).map (fun b => (b.1 + k, b.2)) := by
  intro ls
  induction ls with
  | nil => intro i cur _; rfl
  | cons x rest ih =>
    intro i cur hc
    cases x with
    | some a =>
      simp only [runs]
      have := ih (i + 1) (some (cur.getD [] ++ [a])) (by simp; omega)
      rw [show i + k + 1 = i + 1 + k from by omega]; exact this
    | none =>
      cases cur with
      | none =>
        simp only [runs]
        have := ih (i + 1) none (by simp)
        rw [show i + k + 1 = i + 1 + k from by omega]; exact this
      | some bl =>
        simp only [Option.getD_some] at hc
        simp only [runs, List.map_cons]
        have := ih (i + 1) none (by simp)
        rw [show i + k + 1 = i + 1 + k from by omega, this]
        congr 2
        omega

theorem not_endsNone_some (a : W) : ¬ EndsNone [some a] := by
  intro h
  rcases h with h | h
  · cases h
  · simp at h

theorem runs_append : ∀ (x y : List (Option W)) (i : Nat) (cur : Option (List W)), EndsNone x → x ≠ [] →
    runs (x ++ y) i cur = runs x i cur ++ runs y (i + x.length) none := by
  intro x
  induction x with
  | nil => intro y i cur _ h; exact absurd rfl h
  | cons e rest ih =>
    intro y i cur he _
    by_cases hr : rest = []
    · subst hr
      cases e with
      | some a => exact absurd he (not_endsNone_some a)
      | none =>
        cases cur with
        | none => simp [runs]
        | some bl => simp [runs]
    · cases e with
      | some a =>
        simp only [List.cons_append, runs, List.length_cons]
        rw [ih y (i + 1) _ (he.tail hr) hr]
        congr 2; omega
      | none =>
        cases cur with
        | none =>
          simp only [List.cons_append, runs, List.length_cons]
          rw [ih y (i + 1) _ (he.tail hr) hr]
          congr 2; omega
        | some bl =>
          simp only [List.cons_append, runs, List.length_cons, List.cons_append]
          rw [ih y (i + 1) _ (he.tail hr) hr]
          congr 3; omega

theorem endsNone_append (x y : List (Option W)) (hy : EndsNone y) (hne : y ≠ []) : EndsNone (x ++ y) := by
  right
  rcases hy with h | h
  · exact absurd h hne
  · rw [List.getLast?_append, h]; rfl

theorem asc_append : ∀ (x y : List (Option W)), EndsNone x → Asc x = true → Asc y = true → Asc (x ++ y) = true := by
  intro x
  induction x with
  | nil => intro y _ _ hy; exact hy
  | cons e rest ih =>
    intro y he hx hy
    by_cases hr : rest = []
    · subst hr
      cases e with
      | some a => exact absurd he (not_endsNone_some a)
      | none => simpa [Asc] using hy
    · have ih' := ih y (he.tail hr) (Asc.tail e rest hx) hy
      cases e with
      | none => simpa [Asc] using ih'
      | some a =>
        cases rest with
        | nil => exact absurd rfl hr
        | cons z zs =>
          cases z with
          | none => simpa [Asc] using ih'
          | some b =>
            simp only [List.cons_append, Asc, Bool.and_eq_true] at hx ih' ⊢
            exact ⟨hx.1, ih'⟩

end Lc3V.Txt

namespace Lc3V.Txt
open Lc3V SourceInfo

/-- the debug symbols the assembler and the linker produce -/
structure DOk (d : DebugSyms) : Prop where
  src : d.src = ofText d.src.src
  lines : d.src.countLines ≤ 2 ^ 64
  vec : ∃ ls : List (Option W), ls.length = d.src.countLines ∧ EndsNone ls ∧ Asc ls = true ∧ d.lineMap = runs ls 0 none

theorem chained_nonempty : ∀ (R : List (Nat × List W)) (lo : Nat), Chained R lo → ∀ b ∈ R, b.2 ≠ [] := by
  intro R
  induction R with
  | nil => intro _ _ b hb; cases hb
  | cons x rest ih =>
    intro lo hc b hb
    obtain ⟨st, bl⟩ := x
    obtain ⟨_, h2, h3⟩ := hc
    rcases List.mem_cons.mp hb with rfl | hb
    · exact h2
    · exact ih _ h3 b hb

/-- **linking keeps the shape of the debug symbols**: the merged line map is the condensation of the two per-line vectors
    one after the other, over the two sources joined by a line feed -/
theorem DOk.link {a b : DebugSyms} (ha : DOk a) (hb : DOk b) (hfit : a.src.countLines + b.src.countLines ≤ 2 ^ 64) :
    DOk (DebugSyms.link a b) := by
  obtain ⟨lsa, hla, hea, haa, hma⟩ := ha.vec
  obtain ⟨lsb, hlb, heb, hab, hmb⟩ := hb.vec
  obtain ⟨ma, _, _, hra, hca⟩ := lineMap_new_spec lsa hea haa
  obtain ⟨mb, _, _, hrb, hcb⟩ := lineMap_new_spec lsb heb hab
  have hNa : 0 < a.src.countLines := by rw [ha.src]; exact countLines_pos _
  have hNb : 0 < b.src.countLines := by rw [hb.src]; exact countLines_pos _
  have hcount : (DebugSyms.link a b).src.countLines = a.src.countLines + b.src.countLines := by
    have h1 : (DebugSyms.link a b).src = ofText (a.src.src ++ '\n' :: b.src.src) := rfl
    rw [h1, C22.count_lines_link, ← ha.src, ← hb.src]
  have hsb : SortedKeys b.lineMap := by rw [hmb, ← hrb]; exact (chained_sorted _ _ hcb).1
  have hka : ∀ x ∈ a.lineMap, x.1 < a.src.countLines := by
    intro x hx
    rw [hma] at hx
    have h1 := runs_bound lsa 0 none (by simp) x hx
    have h2 := chained_nonempty _ _ (by rw [← hra]; exact hca) x hx
    have : 0 < x.2.length := List.length_pos_iff.mpr h2
    omega
  have hkb : ∀ x ∈ b.lineMap, x.1 < b.src.countLines := by
    intro x hx
    rw [hmb] at hx
    have h1 := runs_bound lsb 0 none (by simp) x hx
    have h2 := chained_nonempty _ _ (by rw [← hrb]; exact hcb) x hx
    have : 0 < x.2.length := List.length_pos_iff.mpr h2
    omega
  have hsat : ∀ x ∈ b.lineMap, x.1 + a.src.countLines ≤ 18446744073709551615 := by
    intro x hx; have := hkb x hx; omega
  have hmap := (C22.link_find a b hsb hka hsat 0).1
  refine ⟨rfl, by rw [hcount]; exact hfit, ⟨lsa ++ lsb, by rw [List.length_append, hla, hlb, hcount], ?_, ?_, ?_⟩⟩
  · exact endsNone_append lsa lsb heb (by intro e; rw [e] at hlb; simp at hlb; omega)
  · exact asc_append lsa lsb hea haa hab
  · rw [hmap, runs_append lsa lsb 0 none hea (by intro e; rw [e] at hla; simp at hla; omega), hma]
    congr 1
    rw [hmb]
    have := runs_shift a.src.countLines lsb 0 none (by simp)
    rw [Nat.zero_add] at this
    rw [Nat.zero_add, hla, this]
    apply List.map_congr_left
    intro e he
    have := hkb e (by rw [hmb]; exact he)
    simp only [satAdd]
    congr 1
    omega

end Lc3V.Txt

namespace Lc3V
open Txt C20

/-- the part of `SymOk` / `DbgOk` that concerns the label and relocation tables -/
structure SymCore (t : SymTab) : Prop where
  ukeys : UKeys t.labels
  names : ∀ e ∈ t.labels, NameOk e.1
  srcFit : ∀ e ∈ t.labels, e.2.srcStart < 2 ^ 64
  urel : t.rel.Pairwise (fun x y => x.1 ≠ y.1)
  relNames : ∀ e ∈ t.rel, NameOk e.2
  relE : t.labels = [] → t.rel = []

/-- what the text format needs of an object file with symbol table, with or without debug symbols -/
structure TOk (o : ObjFile) (t : SymTab) : Prop where
  sym : o.sym = some t
  wf : FileWF o.blocks t
  blocks : BlocksWF o.blocks
  core : SymCore t
  dbg : (t.debug = none ∧ t.labels ≠ []) ∨ (∃ d, t.debug = some d ∧ DOk d)

/-- **every object file that meets `TOk` round-trips through the text format** -/
theorem tOk_roundtrip (o : ObjFile) (t : SymTab) (h : TOk o t) :
    deserialize (serialize o) = some ⟨o.blocks, some ⟨sortBy symLt t.labels, sortBy relLt t.rel, t.debug⟩⟩ := by
  have ho : o = ⟨o.blocks, some t⟩ := by cases o; simp only; congr 1; exact h.sym
  rcases h.dbg with ⟨hn, hne⟩ | ⟨d, hd, hdok⟩
  · rw [hn]
    have hok : SymOk t := ⟨hn, hne, h.core.ukeys, h.core.names, h.core.srcFit, h.core.urel, h.core.relNames⟩
    rw [ho]; exact sym_section_roundtrip _ h.blocks t hok
  · rw [hd]
    have hok : DbgOk t d := ⟨hd, h.core.ukeys, h.core.names, h.core.srcFit, h.core.urel, h.core.relNames, h.core.relE,
      hdok.src, hdok.lines, hdok.vec⟩
    rw [ho]; exact dbg_section_roundtrip _ h.blocks t d hok

/-- **linking keeps `TOk`** (when both files carry debug symbols, the two sources together must have at most 2^64 lines) -/
theorem link_tOk (a b r : ObjFile) (ta tb : SymTab) (ha : TOk a ta) (hb : TOk b tb)
    (hfit : ∀ da db, ta.debug = some da → tb.debug = some db → da.src.countLines + db.src.countLines ≤ 2 ^ 64)
    (h : ObjFile.link a b = .ok r) : ∃ tr, TOk r tr := by
  obtain ⟨tr, hsr, S⟩ := link_spec a b r ta tb ha.sym hb.sym ha.wf hb.wf h
  obtain ⟨B, st, hbl, hf, hr⟩ := link_inv a b r ta tb ha.sym hb.sym h
  have htr : tr = ⟨st.labels, st.rel, linkDebug ta tb⟩ := by
    rw [hr] at hsr; simp only [Option.some.injEq] at hsr; exact hsr.symm
  obtain ⟨p1, p2, _⟩ := linkFold_pointwise (shiftBy (linkShift ta tb)) (fun _ => rfl) tb.labels _ st hb.core.ukeys hf
  simp only at p1 p2
  have hu : st.labels.Pairwise (fun x y => (x.1 == y.1) = false) :=
    linkFold_unique (shiftBy (linkShift ta tb)) tb.labels _ st hf ha.core.ukeys
  have hentry : ∀ x ∈ st.labels, NameOk x.1 ∧ x.2.srcStart < 2 ^ 64 := by
    intro x hx
    have hl := lookupKey_of_mem_pw st.labels hu x hx
    by_cases hex : ∃ e ∈ tb.labels, (e.1 == x.1) = true
    · obtain ⟨e, he, hk⟩ := hex
      have hk' : e.1 = x.1 := by simpa using hk
      have h2 := p2 e he
      rw [hk', hl] at h2
      simp only [Option.some.injEq] at h2
      refine ⟨by rw [← hk']; exact hb.core.names e he, ?_⟩
      rw [h2]
      cases hla : lookupKey ta.labels x.1 with
      | none => simp only [combineSym]; exact satAdd_lt _ _
      | some ad =>
        have hm := lookupKey_some_mem ta.labels x.1 ad hla
        have hfit := ha.core.srcFit _ hm
        simp only [combineSym]
        split
        · exact hfit
        · split
          · split
            · exact satAdd_lt _ _
            · exact hfit
          · exact hfit
    · have hno : ∀ e ∈ tb.labels, (e.1 == x.1) = false := by
        intro e he
        cases hk : (e.1 == x.1) with
        | false => rfl
        | true => exact absurd ⟨e, he, hk⟩ hex
      have h1 := p1 x.1 hno
      rw [hl] at h1
      have hm := lookupKey_some_mem ta.labels x.1 x.2 h1.symm
      exact ⟨ha.core.names _ hm, ha.core.srcFit _ hm⟩
  -- an entry of either input is still looked up in the result
  have hkeepA : ∀ e0 ∈ ta.labels, lookupKey st.labels e0.1 ≠ none := by
    intro e0 he0
    have hl0 := lookupKey_of_mem_pw ta.labels ha.core.ukeys e0 he0
    by_cases hex : ∃ e ∈ tb.labels, (e.1 == e0.1) = true
    · obtain ⟨e, he, hk⟩ := hex
      have hk' : e.1 = e0.1 := by simpa using hk
      have := p2 e he; rw [hk'] at this; rw [this]; simp
    · have hno : ∀ e ∈ tb.labels, (e.1 == e0.1) = false := by
        intro e he
        cases hk : (e.1 == e0.1) with
        | false => rfl
        | true => exact absurd ⟨e, he, hk⟩ hex
      rw [p1 e0.1 hno, hl0]; simp
  have hkeepB : ∀ e ∈ tb.labels, lookupKey st.labels e.1 ≠ none := by
    intro e he; rw [p2 e he]; simp
  have hnil_lookup : st.labels = [] → ∀ K, lookupKey st.labels K = none := by
    intro hn K; rw [hn]; rfl
  refine ⟨tr, hsr, S.wf, ?_, ?_, ?_⟩
  · -- BlocksWF
    refine ⟨sortedKeys_pairwise_lt _ S.wf.sorted, fun blk hblk => ?_⟩
    have hmem := linkBlocks_members a.blocks b.blocks B ha.wf.sorted hb.wf.sorted hbl
    have hsk : (blk.1, List.replicate blk.2.length (none : Option W)) ∈ skel r.blocks :=
      List.mem_map.mpr ⟨blk, hblk, rfl⟩
    rw [hr] at hsk
    simp only [skel_patchFold] at hsk
    obtain ⟨x, hx, hxe⟩ := List.mem_map.mp hsk
    simp only [Prod.mk.injEq] at hxe
    have hlen : x.2.length = blk.2.length := by
      have := congrArg List.length hxe.2; simpa using this
    rcases (hmem x).mp hx with hx' | hx'
    · have := ha.blocks.2 x hx'; rw [← hxe.1, ← hlen]; exact this
    · have := hb.blocks.2 x hx'; rw [← hxe.1, ← hlen]; exact this
  · -- SymCore
    rw [htr]
    refine ⟨hu, fun e he => (hentry e he).1, fun e he => (hentry e he).2, ?_, ?_, ?_⟩
    · have := S.wf.urel; rw [htr] at this; exact this
    · intro e he
      have hp := (S.pending e.1 e.2).mp (by rw [htr]; exact he)
      rcases hp.1 with hm | hm
      · exact ha.core.relNames _ hm
      · exact hb.core.relNames _ hm
    · intro hn
      simp only at hn
      have hla : ta.labels = [] := by
        cases hl : ta.labels with
        | nil => rfl
        | cons e0 rest => exact absurd (hnil_lookup hn e0.1) (hkeepA e0 (by rw [hl]; simp))
      have hlb : tb.labels = [] := by
        cases hl : tb.labels with
        | nil => rfl
        | cons e0 rest => exact absurd (hnil_lookup hn e0.1) (hkeepB e0 (by rw [hl]; simp))
      have hra := ha.core.relE hla
      have hrb := hb.core.relE hlb
      cases hst : st.rel with
      | nil => rfl
      | cons e rest =>
        have hp := (S.pending e.1 e.2).mp (by rw [htr]; show (e.1, e.2) ∈ st.rel; rw [hst]; simp)
        rcases hp.1 with hm | hm
        · rw [hra] at hm; cases hm
        · rw [hrb] at hm; cases hm
  · -- debug symbols
    rw [htr]
    simp only
    rcases ha.dbg with ⟨han, hane⟩ | ⟨da, had, hda⟩
    · rcases hb.dbg with ⟨hbn, _⟩ | ⟨db, hbd, hdb⟩
      · left
        refine ⟨by simp only [linkDebug, han, hbn], ?_⟩
        intro hn
        cases hl : ta.labels with
        | nil => exact hane hl
        | cons e0 rest => exact absurd (hnil_lookup hn e0.1) (hkeepA e0 (by rw [hl]; simp))
      · right; exact ⟨db, by simp only [linkDebug, han, hbd], hdb⟩
    · rcases hb.dbg with ⟨hbn, _⟩ | ⟨db, hbd, hdb⟩
      · right; exact ⟨da, by simp only [linkDebug, had, hbn], hda⟩
      · right; exact ⟨DebugSyms.link da db, by simp only [linkDebug, had, hbd], hda.link hdb (hfit da db had hbd)⟩

end Lc3V

namespace Lc3V
open Txt C20

/-- number of source lines behind a symbol table's debug symbols -/
def dl (t : SymTab) : Nat := match t.debug with | some d => d.src.countLines | none => 0

theorem link_countLines (a b : DebugSyms) (ha : DOk a) (hb : DOk b) :
    (DebugSyms.link a b).src.countLines = a.src.countLines + b.src.countLines := by
  have h1 : (DebugSyms.link a b).src = SourceInfo.ofText (a.src.src ++ '\n' :: b.src.src) := rfl
  rw [h1, C22.count_lines_link, ← ha.src, ← hb.src]

theorem dl_link (ta tb : SymTab) (ha : ta.debug = none ∨ ∃ d, ta.debug = some d ∧ DOk d) (hb : tb.debug = none ∨ ∃ d, tb.debug = some d ∧ DOk d) :
    dl ⟨[], [], linkDebug ta tb⟩ = dl ta + dl tb := by
  rcases ha with ha | ⟨da, ha, hda⟩
  · rcases hb with hb | ⟨db, hb, hdb⟩ <;> simp only [dl, linkDebug, ha, hb] <;> omega
  · rcases hb with hb | ⟨db, hb, hdb⟩
    · simp only [dl, linkDebug, ha, hb]; omega
    · simp only [dl, linkDebug, ha, hb]; exact link_countLines da db hda hdb

theorem TOk.dbgCases {o : ObjFile} {t : SymTab} (h : TOk o t) : t.debug = none ∨ ∃ d, t.debug = some d ∧ DOk d := by
  rcases h.dbg with ⟨h1, _⟩ | h1
  · exact Or.inl h1
  · exact Or.inr h1

theorem link_tOk_dl (a b r : ObjFile) (ta tb : SymTab) (ha : TOk a ta) (hb : TOk b tb) (hfit : dl ta + dl tb ≤ 2 ^ 64)
    (h : ObjFile.link a b = .ok r) : ∃ tr, TOk r tr ∧ dl tr = dl ta + dl tb := by
  obtain ⟨tr, htr⟩ := link_tOk a b r ta tb ha hb (fun da db h1 h2 => by simp only [dl, h1, h2] at hfit; exact hfit) h
  refine ⟨tr, htr, ?_⟩
  obtain ⟨B, st, _, _, hr⟩ := link_inv a b r ta tb ha.sym hb.sym h
  have : tr = ⟨st.labels, st.rel, linkDebug ta tb⟩ := by
    have := htr.sym; rw [hr] at this; simp only [Option.some.injEq] at this; exact this.symm
  rw [this]
  exact dl_link ta tb ha.dbgCases hb.dbgCases

/-- a file assembled from source, with or without debug symbols, that carries its symbol table meets `TOk` -/
theorem source_tOk (src : List Char) (stmts : List Stmt) (dbg : Bool) (o : ObjFile) (hp : parseAst src = .ok stmts)
    (hz : 12 * blen src < 2 ^ 64) (ha : assemble stmts (if dbg then some src else none) = .ok o) (t : SymTab) (hs : o.sym = some t) :
    TOk o t := by
  have hwf := source_fileWF src stmts dbg o hp hz ha t hs
  cases dbg with
  | false =>
    obtain ⟨hb, hok⟩ := source_symOk src stmts o hp hz ha t hs
    exact ⟨hs, hwf, hb, ⟨hok.ukeys, hok.names, hok.srcFit, hok.urel, hok.relNames, fun h => absurd h hok.ne⟩, Or.inl ⟨hok.nodebug, hok.ne⟩⟩
  | true =>
    obtain ⟨t', d, hs', hb, hok⟩ := source_dbgOk src stmts o hp hz ha
    rw [hs] at hs'; cases hs'
    exact ⟨hs, hwf, hb, ⟨hok.ukeys, hok.names, hok.srcFit, hok.urel, hok.relNames, hok.relE⟩,
      Or.inr ⟨d, hok.dbg, ⟨hok.src, hok.lines, hok.vec⟩⟩⟩

end Lc3V

namespace Lc3V.C20
open Lc3V Txt

theorem LTree.tOk : ∀ (t : LTree) (r : ObjFile), t.FromSource → ((t.leaves.map (fun f => dl f.2)).sum ≤ 2 ^ 64) → t.eval = .ok r →
    ∃ tr, TOk r tr ∧ dl tr = (t.leaves.map (fun f => dl f.2)).sum
  | .leaf o t, r, ⟨src, stmts, dbg, hp, hz, ha, hs⟩, _, he => by
    simp only [LTree.eval, Except.ok.injEq] at he
    subst he
    exact ⟨t, source_tOk src stmts dbg o hp hz ha t hs, by simp [LTree.leaves]⟩
  | .node l rt, r, ⟨hl', hr'⟩, hsum, he => by
    simp only [LTree.eval] at he
    simp only [LTree.leaves, List.map_append, List.sum_append] at hsum ⊢
    cases hl : l.eval with
    | error e => rw [hl] at he; cases he
    | ok a =>
      rw [hl] at he
      simp only at he
      cases hr : rt.eval with
      | error e => rw [hr] at he; cases he
      | ok b =>
        rw [hr] at he
        simp only at he
        obtain ⟨ta, ha, hda⟩ := LTree.tOk l a hl' (by omega) hl
        obtain ⟨tb, hb, hdb⟩ := LTree.tOk rt b hr' (by omega) hr
        obtain ⟨tr, htr, hdr⟩ := link_tOk_dl a b r ta tb ha hb (by rw [hda, hdb]; exact hsum) he
        exact ⟨tr, htr, by rw [hdr, hda, hdb]⟩

/-- **C18 as stated**: any object file produced by assembling source texts (with or without debug symbols) and linking the
    results in any order and grouping is read back from its text form: same blocks, same label and relocation tables (in
    the writer's row order), same line table and source text (the sources with debug symbols together have at most 2^64 lines) -/
theorem text_roundtrip_assembled_or_linked (t : LTree) (r : ObjFile) (hs : t.FromSource)
    (hlines : (t.leaves.map (fun f => dl f.2)).sum ≤ 2 ^ 64) (he : t.eval = .ok r) :
    ∃ tr, r.sym = some tr ∧
      deserialize (serialize r) = some ⟨r.blocks, some ⟨sortBy symLt tr.labels, sortBy relLt tr.rel, tr.debug⟩⟩ := by
  obtain ⟨tr, hok, _⟩ := t.tOk r hs hlines he
  exact ⟨tr, hok.sym, tOk_roundtrip r tr hok⟩

end Lc3V.C20

