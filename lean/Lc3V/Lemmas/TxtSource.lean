/- Lemmas/TxtSource.lean — `SymOk` for object files assembled from source (C18).  The lexer only makes label tokens out of
   an ASCII letter or underscore followed by word characters (`lexOne_label_word`, lifted to `parseAst_names`); upper-casing
   a word character never produces white space or a bar (`upperC_word_ok`: ASCII by a kernel-checked table over 128
   characters, non-ASCII through the generated upper-case and word-character tables, also kernel-checked), so every key
   of pass 1's tables is a name the text format can carry (`nameOk_upper`, `pass1_fold_keys`); hence `source_symOk`,
   `source_text_roundtrip_nodebug`.  `link` keeps what the text format needs (`link_txtOk`), so the result of any tree of
   links over such files round-trips too (`linked_text_roundtrip`). -/
import Lc3V.Lemmas.ParserOut
import Lc3V.Lemmas.TxtSym
import Lc3V.Lemmas.ParserDischarge
import Lc3V.Lemmas.LinkSource
set_option linter.unusedSimpArgs false
set_option linter.unusedVariables false
namespace Lc3V
open Txt C20

/-- a label as the lexer produces it: an ASCII letter or underscore followed by word characters -/
def IsName (s : List Char) : Prop := ∃ c w, s = c :: w ∧ (isAsciiAlpha c = true ∨ c = '_') ∧ ∀ x ∈ w, isWordC x = true

theorem mem_takeWhile_true {α} (p : α → Bool) : ∀ (l : List α) (x : α), x ∈ l.takeWhile p → p x = true
  | [], x, h => by cases h
  | y :: ys, x, h => by
    rw [List.takeWhile_cons] at h
    split at h
    · rcases List.mem_cons.mp h with rfl | h'
      · assumption
      · exact mem_takeWhile_true p ys x h'
    · cases h

theorem isName_ofText (c : Char) (rest : List Char) (hc : isAsciiAlpha c = true ∨ c = '_') (s : List Char)
    (h : Token.ident (Ident.ofText (c :: (spanW rest).1)) = .ident (.label s)) : IsName s := by
  injection h with h
  obtain ⟨h1, _⟩ := ofText_label _ _ h
  subst h1
  exact ⟨c, _, rfl, hc, fun x hx => mem_takeWhile_true _ _ x hx⟩

/-- every label token is a name -/
theorem lexOne_label_word (cs : List Char) (t : Token) (n : Nat) (h : lexOne cs = ⟨.ok t, n⟩) :
    ∀ s, t = .ident (.label s) → IsName s := by
  have plain : Plain t → ∀ s, t = .ident (.label s) → IsName s := fun hp s hs => absurd hs (hp.2.1 s)
  cases cs with
  | nil => simp [lexOne] at h
  | cons c rest =>
    unfold lexOne at h
    dsimp only at h
    by_cases h1 : c = ':'; · rw [if_pos h1] at h; cases h; exact plain (plain_of_simple _ (by simp))
    rw [if_neg h1] at h
    by_cases h2 : c = ','; · rw [if_pos h2] at h; cases h; exact plain (plain_of_simple _ (by simp))
    rw [if_neg h2] at h
    by_cases h3 : c = '\n'
    · rw [if_pos h3] at h; cases h; intro s hs; cases hs
    rw [if_neg h3] at h
    by_cases h4 : c = '\r'
    · rw [if_pos h4] at h
      split at h
      · cases h; intro s hs; cases hs
      · cases h
    rw [if_neg h4] at h
    by_cases h5 : c = ';'; · rw [if_pos h5] at h; cases h; exact plain (plain_of_simple _ (by simp))
    rw [if_neg h5] at h
    by_cases h6 : c = '.'; · rw [if_pos h6] at h; cases h; exact plain (plain_of_simple _ (by simp))
    rw [if_neg h6] at h
    by_cases h7 : c = '"'
    · rw [if_pos h7] at h; split at h
      · cases h
      · injection h with hres _
        split at hres
        · cases hres; intro s hs; cases hs
        · cases hres
    rw [if_neg h7] at h
    by_cases h8 : c = '#'
    · rw [if_pos h8] at h
      split at h <;> (injection h with hres _; first | exact plain (lexUnsignedDec_plain _ _ hres) | exact plain (lexSignedDec_plain _ _ hres))
    rw [if_neg h8] at h
    by_cases h9 : c = '-'
    · rw [if_pos h9] at h
      split at h <;> (injection h with hres _; exact plain (lexSignedDec_plain _ _ hres))
    rw [if_neg h9] at h
    by_cases h10 : isDigitC c = true
    · rw [if_pos h10] at h
      injection h with hres _
      exact plain (lexUnsignedDec_plain _ _ hres)
    rw [if_neg h10] at h
    by_cases h11 : c = 'x' ∨ c = 'X'
    · have hc : isAsciiAlpha c = true ∨ c = '_' := by rcases h11 with rfl | rfl <;> exact Or.inl (by decide)
      rw [if_pos h11] at h
      split at h
      · injection h with hres _
        exact plain (lexSignedHex_plain _ _ hres)
      · rename_i d r _
        try dsimp only at h
        split at h
        · injection h with hres _
          exact plain (lexUnsignedHex_plain _ _ hres)
        · injection h with hres hn
          injection hres with hres
          subst hres
          exact fun s hs => isName_ofText c (d :: r) hc s hs
      · injection h with hres hn
        injection hres with hres
        subst hres
        intro s hs
        injection hs with hs
        obtain ⟨e1, _⟩ := ofText_label _ _ hs
        subst e1
        exact ⟨c, [], rfl, hc, fun x hx => by cases hx⟩
    rw [if_neg h11] at h
    by_cases h12 : c = 'R' ∨ c = 'r'
    · have hc : isAsciiAlpha c = true ∨ c = '_' := by rcases h12 with rfl | rfl <;> exact Or.inl (by decide)
      rw [if_pos h12] at h
      try dsimp only at h
      split at h
      · injection h with hres _
        exact plain (lexReg_plain _ _ hres)
      · injection h with hres hn
        injection hres with hres
        subst hres
        exact fun s hs => isName_ofText c rest hc s hs
    rw [if_neg h12] at h
    by_cases h13 : isAsciiAlpha c = true ∨ c = '_'
    · rw [if_pos h13] at h
      injection h with hres hn
      injection hres with hres
      subst hres
      exact fun s hs => isName_ofText c rest h13 s hs
    rw [if_neg h13] at h
    cases h

theorem lexAll_all (P : Token → Prop) (hone : ∀ cs t n, lexOne cs = ⟨.ok t, n⟩ → P t) :
    ∀ (fuel : Nat) (cs : List Char) (off : Nat) (acc ts : List SpTok), (∀ t ∈ acc, P t.tok) →
    lexAll fuel cs off acc = .ok ts → ∀ t ∈ ts, P t.tok := by
  intro fuel
  induction fuel with
  | zero =>
    intro cs off acc ts hacc h
    simp only [lexAll] at h; cases h
    exact fun t ht => hacc t (List.mem_reverse.mp ht)
  | succ fuel ih =>
    intro cs off acc ts hacc h
    cases cs with
    | nil =>
      simp only [lexAll] at h; cases h
      exact fun t ht => hacc t (List.mem_reverse.mp ht)
    | cons c cs =>
      unfold lexAll at h
      by_cases hws : c = ' ' ∨ c = '\t'
      · rw [if_pos hws] at h
        exact ih cs _ acc ts hacc h
      · rw [if_neg hws] at h
        dsimp only at h
        cases hres : (lexOne (c :: cs)).res with
        | error e => rw [hres] at h; cases h
        | ok t =>
          rw [hres] at h
          dsimp only at h
          have hone' : lexOne (c :: cs) = ⟨.ok t, (lexOne (c :: cs)).len⟩ := by rw [← hres]
          refine ih _ _ _ ts ?_ h
          intro t' ht'
          rcases List.mem_cons.mp ht' with rfl | ht'
          · exact hone _ _ _ hone'
          · exact hacc t' ht'

/-- every label token of the lexer's output is a name -/
theorem lex_label_words (src : List Char) (ts : List SpTok) (h : lex src = .ok ts) :
    ∀ t ∈ ts, ∀ s, t.tok = .ident (.label s) → IsName s := by
  unfold lex at h
  exact lexAll_all (fun t => ∀ s, t = .ident (.label s) → IsName s) lexOne_label_word _ _ _ _ ts (by intro t ht; cases ht) h

/-- every label a statement of `parse_ast`'s output carries or names as `.external` / `.fill` operand is a name -/
theorem parseAst_names (src : List Char) (stmts : List Stmt) (h : parseAst src = .ok stmts) :
    ∀ s ∈ stmts, (∀ l ∈ s.labels, IsName l.name) ∧
      (∀ l, s.nucleus = .directive (.external l) → IsName l.name) ∧
      (∀ l, s.nucleus = .directive (.fill (.label l)) → IsName l.name) := by
  unfold parseAst at h
  split at h
  · cases h
  · rename_i ts hlex
    dsimp only at h
    have hw := lex_label_words src ts hlex
    obtain ⟨ss, hr, hall, _⟩ := parseAll_spec (parserToks ts) _ ⟨parserToks ts, 0⟩ [] stmts rfl (Nat.zero_le _) h
    simp only [List.reverse_nil, List.nil_append] at hr
    subst hr
    have hlt : ∀ l, LabTok (parserToks ts) l → IsName l.name := by
      rintro l ⟨t, ht, htok, _⟩
      have : t ∈ ts := by
        unfold parserToks at ht
        simp only [List.toList_toArray] at ht
        exact (List.mem_filter.mp ht).1
      exact hw t this _ htok
    intro s hs
    obtain ⟨h1, h2, _⟩ := hall s hs
    refine ⟨fun l hl => hlt l (h1 l hl), fun l hn => ?_, fun l hn => ?_⟩
    · rw [hn] at h2; exact hlt l h2
    · rw [hn] at h2; exact hlt l h2

theorem char_le_toNat (a b : Char) : a ≤ b ↔ a.toNat ≤ b.toNat := by
  rw [Char.le_def, UInt32.le_iff_toNat_le]; rfl

def okCh (x : Char) : Bool := !rustWs x && x != '|'
def firstOkU (l : List Char) : Bool := match l with | [y] => y != '#' && y != '.' && y != '=' | _ => false

set_option maxRecDepth 100000 in
theorem ascii_word_upper : ∀ n : Fin 128, (!isWordC (Char.ofNat n.val) || (!(upperC (Char.ofNat n.val)).isEmpty && (upperC (Char.ofNat n.val)).all okCh)) = true := by
  decide +kernel

set_option maxRecDepth 100000 in
theorem ascii_first_upper : ∀ n : Fin 128,
    (!(isAsciiAlpha (Char.ofNat n.val) || Char.ofNat n.val == '_') || firstOkU (upperC (Char.ofNat n.val))) = true := by
  decide +kernel

set_option maxRecDepth 100000 in
theorem upperTable_ok : Gen.upperTable.toList.all (fun e => !e.2.isEmpty && e.2.all (fun n => okCh (Char.ofNat n))) = true := by
  decide +kernel

def wsList : List Nat := [0x85, 0xA0, 0x1680, 0x2000, 0x2001, 0x2002, 0x2003, 0x2004, 0x2005, 0x2006, 0x2007, 0x2008, 0x2009, 0x200A,
  0x2028, 0x2029, 0x202F, 0x205F, 0x3000]

set_option maxRecDepth 100000 in
theorem ws_not_word : wsList.all (fun n => !inRanges Gen.wordRanges n) = true := by decide +kernel

theorem ws_high (c : Char) (h : rustWs c = true) (hn : 128 ≤ c.toNat) : c.toNat ∈ wsList := by
  unfold rustWs at h
  simp only [Bool.or_eq_true, Bool.and_eq_true, decide_eq_true_eq, beq_iff_eq] at h
  simp only [wsList, List.mem_cons, List.mem_nil_iff, or_false]
  omega

/-- every character the upper-casing of a word character produces may stand in a name of the text format -/
theorem upperC_word_ok (c : Char) (h : isWordC c = true) : upperC c ≠ [] ∧ ∀ x ∈ upperC c, okCh x = true := by
  by_cases hlt : c.toNat < 128
  · have := ascii_word_upper ⟨c.toNat, hlt⟩
    simp only [Char.ofNat_toNat, h, Bool.not_true, Bool.false_or, Bool.and_eq_true, Bool.not_eq_true', List.isEmpty_eq_false_iff,
      List.all_eq_true] at this
    exact ⟨this.1, this.2⟩
  · have hge : 128 ≤ c.toNat := by omega
    have hself : okCh c = true := by
      unfold okCh
      have hw : inRanges Gen.wordRanges c.toNat = true := by
        unfold isWordC isAsciiAlpha at h
        have e1 : ¬ ('a' ≤ c ∧ c ≤ 'z') := fun ⟨_, b⟩ => by have := (char_le_toNat _ _).mp b; simp at this; omega
        have e2 : ¬ ('A' ≤ c ∧ c ≤ 'Z') := fun ⟨_, b⟩ => by have := (char_le_toNat _ _).mp b; simp at this; omega
        have e3 : ¬ ('0' ≤ c ∧ c ≤ '9') := fun ⟨_, b⟩ => by have := (char_le_toNat _ _).mp b; simp at this; omega
        have e4 : (c == '_') = false := by
          rw [beq_eq_false_iff_ne]; intro e; rw [e] at hge; simp at hge
        simp only [Bool.or_eq_true, Bool.and_eq_true, decide_eq_true_eq, e4, Bool.false_eq_true, or_false] at h
        rcases h with ((h | h) | h) | h
        · exact absurd h e1
        · exact absurd h e2
        · exact absurd h e3
        · exact h.2
      have hws : rustWs c = false := by
        cases hr : rustWs c with
        | false => rfl
        | true =>
          have := List.all_eq_true.mp ws_not_word _ (ws_high c hr hge)
          rw [hw] at this; cases this
      have hb : (c != '|') = true := by
        rw [bne_iff_ne]; intro e; rw [e] at hge; simp at hge
      rw [hws, hb]; rfl
    unfold upperC
    have e1 : ¬ (('a' ≤ c && c ≤ 'z') = true) := by
      simp only [Bool.and_eq_true, decide_eq_true_eq]
      intro ⟨_, b⟩; have := (char_le_toNat _ _).mp b; simp at this; omega
    rw [if_neg e1, if_neg hlt]
    split
    · rename_i u hu
      obtain ⟨a, ha⟩ := upperLookupAux_mem _ _ _ _ _ _ hu
      have := List.all_eq_true.mp upperTable_ok _ ha
      simp only [Bool.and_eq_true, Bool.not_eq_true', List.isEmpty_eq_false_iff, List.all_eq_true] at this
      refine ⟨by simpa using this.1, fun x hx => ?_⟩
      obtain ⟨n, hn, rfl⟩ := List.mem_map.mp hx
      exact this.2 n hn
    · exact ⟨by simp, fun x hx => by simp only [List.mem_singleton] at hx; rw [hx]; exact hself⟩

/-- the upper-cased spelling of a lexer name can be carried by the text format -/
theorem nameOk_upper (s : List Char) (h : IsName s) : NameOk (upperS s) := by
  obtain ⟨c, w, rfl, hc, hw⟩ := h
  have hcw : isWordC c = true := by
    rcases hc with hc | hc
    · unfold isWordC; simp [hc]
    · subst hc; decide
  have hall : ∀ x ∈ c :: w, isWordC x = true := by
    intro x hx
    rcases List.mem_cons.mp hx with rfl | hx
    · exact hcw
    · exact hw x hx
  have hok : ∀ y ∈ upperS (c :: w), okCh y = true := by
    intro y hy
    unfold upperS at hy
    obtain ⟨x, hx, hyx⟩ := List.mem_flatMap.mp hy
    exact (upperC_word_ok x (hall x hx)).2 y hyx
  -- the first character
  have hlt : c.toNat < 128 := by
    rcases hc with hc | hc
    · unfold isAsciiAlpha at hc
      simp only [Bool.or_eq_true, Bool.and_eq_true, decide_eq_true_eq] at hc
      rcases hc with ⟨_, b⟩ | ⟨_, b⟩ <;> (have := (char_le_toNat _ _).mp b; simp at this; omega)
    · subst hc; decide
  have hf := ascii_first_upper ⟨c.toNat, hlt⟩
  have hcc : (isAsciiAlpha c || c == '_') = true := by
    rcases hc with hc | hc
    · simp [hc]
    · subst hc; decide
  simp only [Char.ofNat_toNat, hcc, Bool.not_true, Bool.false_or] at hf
  have hu : upperS (c :: w) = upperC c ++ upperS w := by unfold upperS; simp
  refine ⟨?_, fun y hy => ?_, fun y hy => ?_, fun y ys hys => ?_⟩
  · rw [hu]; intro e
    exact (upperC_word_ok c hcw).1 (List.append_eq_nil_iff.mp e).1
  · have := hok y hy; unfold okCh at this; simp at this; exact this.1
  · have := hok y hy; unfold okCh at this; simp at this; exact this.2
  · rw [hu] at hys
    unfold firstOkU at hf
    split at hf
    · rename_i z hz
      rw [hz] at hys
      simp only [List.singleton_append, List.cons.injEq] at hys
      rw [← hys.1]; simp at hf; exact ⟨hf.1.1, hf.1.2, hf.2⟩
    · cases hf

/-- where the keys of pass 1's tables come from -/
theorem pass1_fold_keys (P : Key → Prop) : ∀ (stmts : List Stmt) (st st' : P1), stmts.foldlM pass1Step st = .ok st' →
    (∀ s ∈ stmts, ∀ l, DeclLabel s l → P (upperS l.name)) →
    (∀ s ∈ stmts, ∀ l, s.nucleus = .directive (.fill (.label l)) → P (upperS l.name)) →
    (∀ e ∈ st.labels, P e.1) → (∀ e ∈ st.rel, P e.2) → (∀ e ∈ st'.labels, P e.1) ∧ (∀ e ∈ st'.rel, P e.2) := by
  intro stmts
  induction stmts with
  | nil => intro st st' h _ _ h1 h2; simp only [List.foldlM_nil] at h; cases h; exact ⟨h1, h2⟩
  | cons s rest ih =>
    intro st st' h hd hf h1 h2
    rw [List.foldlM_cons] at h
    cases hs : pass1Step st s with
    | error x => rw [hs] at h; cases h
    | ok st1 =>
      rw [hs] at h
      refine ih st1 st' h (fun x hx => hd x (by simp [hx])) (fun x hx => hf x (by simp [hx])) ?_ ?_
      · intro e he
        rcases pass1Step_entries st st1 s hs e he with h0 | ⟨l, hl, hk, _⟩
        · exact h1 e h0
        · rw [hk]; exact hd s (by simp) l hl
      · intro e he
        rcases pass1Step_rel_keys st st1 s hs e he with ⟨e0, he0, hk⟩ | ⟨l, hl, hk⟩
        · rw [← hk]; exact h2 e0 he0
        · rw [hk]; exact hf s (by simp) l hl

/-- **symbol tables of files assembled from source (without debug symbols) meet `SymOk`** -/
theorem source_symOk (src : List Char) (stmts : List Stmt) (obj : ObjFile) (hp : parseAst src = .ok stmts)
    (hsrc : 12 * blen src < 2 ^ 64) (h : assemble stmts none = .ok obj) (t : SymTab) (hs : obj.sym = some t) :
    BlocksWF obj.blocks ∧ SymOk t := by
  have h' : assemble stmts (if false then some src else none) = .ok obj := h
  obtain ⟨hwf, _⟩ := C17.source_roundtrip src stmts false obj hp hsrc h'
  have hsym := hwf.symOk t hs
  have hnames := parseAst_names src stmts hp
  -- the kept table is the pass-1 table
  have hp1 : ∃ t', pass1 stmts none = .ok t' := by
    unfold assemble at h
    cases h1 : pass1 stmts none with
    | error e => rw [h1] at h; cases h
    | ok t' => exact ⟨t', rfl⟩
  obtain ⟨t', hp1⟩ := hp1
  have hkeep : t = t' ∧ t'.labels.any (fun e => e.2.ext) = true := by
    unfold assemble at h
    rw [hp1] at h
    dsimp only at h
    unfold pass2 at h
    split at h
    · cases h
    · cases h
      simp only [Option.isSome_none, Bool.false_or] at hs
      by_cases hany : t'.labels.any (fun e => e.2.ext) = true
      · rw [if_pos hany] at hs; cases hs; exact ⟨rfl, hany⟩
      · rw [if_neg hany] at hs; cases hs
  obtain ⟨rfl, hany⟩ := hkeep
  -- unfold pass 1
  unfold pass1 at hp1
  cases hf : stmts.foldlM pass1Step (p1Init none) with
  | error e => rw [hf] at hp1; cases hp1
  | ok stf =>
    rw [hf] at hp1
    dsimp only at hp1
    have hk := pass1_fold_keys NameOk stmts _ stf hf
      (fun s hs l hl => by
        rcases hl with hl | hl
        · exact nameOk_upper _ ((hnames s hs).1 l hl)
        · exact nameOk_upper _ ((hnames s hs).2.1 l hl))
      (fun s hs l hl => nameOk_upper _ ((hnames s hs).2.2 l hl))
      (by intro e he; simp [p1Init] at he) (by intro e he; simp [p1Init] at he)
    have hlines : stf.lines = none := pass1_fold_lines_none stmts _ stf hf rfl
    unfold p1Finish at hp1
    cases hc : stf.cursor with
    | some cur => rw [hc] at hp1; cases hp1
    | none =>
      rw [hc] at hp1
      dsimp only at hp1
      cases hp1
      refine ⟨⟨?_, fun b hb => ?_⟩, ⟨?_, ?_, ?_, ?_, ?_, ?_, ?_⟩⟩
      · -- sorted starts
        obtain ⟨_, _, _, _, _, _, _, hsorted, _, _⟩ := C01.assembled_image_any stmts none obj h
        exact hsorted
      · have := hwf.fit b hb; omega
      · simp only [hlines]
      · intro e
        simp only at hany e
        rw [e] at hany; cases hany
      · exact C20.nodup_keys_pairwise _ hsym.labelsUnique
      · exact fun e he => hk.1 e he
      · exact fun e he => (hsym.labelsFit e he).1
      · exact C20.nodup_addr_pairwise _ hsym.relUnique
      · intro e he
        exact hk.2 e (List.mem_filter.mp he).1

/-- **C18 for files assembled from source without debug symbols**: whatever the source text (it parses and assembles),
    the object file — with or without symbol table — is read back from its text form with the same blocks and the same
    label and relocation tables (in the writer's row order) -/
theorem source_text_roundtrip_nodebug (src : List Char) (stmts : List Stmt) (obj : ObjFile) (hp : parseAst src = .ok stmts)
    (hsrc : 12 * blen src < 2 ^ 64) (h : assemble stmts none = .ok obj) :
    (obj.sym = none → deserialize (serialize obj) = some obj) ∧
    (∀ t, obj.sym = some t →
      deserialize (serialize obj) = some ⟨obj.blocks, some ⟨sortBy symLt t.labels, sortBy relLt t.rel, none⟩⟩) := by
  constructor
  · intro hn
    have h' : assemble stmts (if false then some src else none) = .ok obj := h
    obtain ⟨hwf, _⟩ := C17.source_roundtrip src stmts false obj hp hsrc h'
    obtain ⟨_, _, _, _, _, _, _, hsorted, _, _⟩ := C01.assembled_image_any stmts none obj h
    have hb : BlocksWF obj.blocks := ⟨hsorted, fun b hb => by have := hwf.fit b hb; omega⟩
    have : obj = ⟨obj.blocks, none⟩ := by cases obj; simp only at hn; rw [hn]
    rw [this]
    exact text_section_roundtrip _ hb
  · intro t hs
    obtain ⟨hb, hok⟩ := source_symOk src stmts obj hp hsrc h t hs
    have : obj = ⟨obj.blocks, some t⟩ := by cases obj; simp only at hs; rw [hs]
    rw [this]
    exact sym_section_roundtrip _ hb t hok

theorem sortedKeys_pairwise_lt {α} : ∀ (m : List (Nat × α)), SortedKeys m → m.Pairwise (fun x y => x.1 < y.1) := by
  intro m
  induction m with
  | nil => intro _; exact List.Pairwise.nil
  | cons a rest ih => intro h; exact List.Pairwise.cons (fun b hb => h.head_lt b hb) (ih h.tail)

/-- what `link` needs and keeps, for the text format: `FileWF`, `SymOk` and `BlocksWF` -/
structure TxtOk (o : ObjFile) (t : SymTab) : Prop where
  sym : o.sym = some t
  wf : FileWF o.blocks t
  ok : SymOk t
  blocks : BlocksWF o.blocks

theorem satAdd_lt (a b : Nat) : satAdd a b < 2 ^ 64 := by unfold satAdd; omega

/-- **linking keeps what the text format needs** -/
theorem link_txtOk (a b r : ObjFile) (ta tb : SymTab) (ha : TxtOk a ta) (hb : TxtOk b tb) (h : ObjFile.link a b = .ok r) :
    ∃ tr, TxtOk r tr := by
  obtain ⟨tr, hsr, S⟩ := link_spec a b r ta tb ha.sym hb.sym ha.wf hb.wf h
  obtain ⟨B, st, hbl, hf, hr⟩ := link_inv a b r ta tb ha.sym hb.sym h
  have htr : tr = ⟨st.labels, st.rel, linkDebug ta tb⟩ := by
    rw [hr] at hsr; simp only [Option.some.injEq] at hsr; exact hsr.symm
  refine ⟨tr, hsr, S.wf, ?_, ?_⟩
  · -- SymOk
    obtain ⟨p1, p2, _⟩ := linkFold_pointwise (shiftBy (linkShift ta tb)) (fun _ => rfl) tb.labels _ st hb.ok.ukeys hf
    simp only at p1 p2
    have hu : st.labels.Pairwise (fun x y => (x.1 == y.1) = false) :=
      linkFold_unique (shiftBy (linkShift ta tb)) tb.labels _ st hf ha.ok.ukeys
    have hentry : ∀ x ∈ st.labels, NameOk x.1 ∧ x.2.srcStart < 2 ^ 64 := by
      intro x hx
      have hl := lookupKey_of_mem_pw st.labels hu x hx
      by_cases hex : ∃ e ∈ tb.labels, (e.1 == x.1) = true
      · obtain ⟨e, he, hk⟩ := hex
        have hk' : e.1 = x.1 := by simpa using hk
        have h2 := p2 e he
        rw [hk', hl] at h2
        simp only [Option.some.injEq] at h2
        refine ⟨by rw [← hk']; exact hb.ok.names e he, ?_⟩
        rw [h2]
        cases hla : lookupKey ta.labels x.1 with
        | none => simp only [combineSym]; exact satAdd_lt _ _
        | some ad =>
          have hm := lookupKey_some_mem ta.labels x.1 ad hla
          have hfit := ha.ok.srcFit _ hm
          simp only [combineSym]
          split
          · exact hfit
          · split
            · split
              · exact satAdd_lt _ _
              · exact hfit
            · exact hfit
      · have hno : ∀ e ∈ tb.labels, (e.1 == x.1) = false := by
          intro e he
          cases hk : (e.1 == x.1) with
          | false => rfl
          | true => exact absurd ⟨e, he, hk⟩ hex
        have h1 := p1 x.1 hno
        rw [hl] at h1
        have hm := lookupKey_some_mem ta.labels x.1 x.2 h1.symm
        exact ⟨ha.ok.names _ hm, ha.ok.srcFit _ hm⟩
    rw [htr]
    refine ⟨?_, ?_, hu, fun e he => (hentry e he).1, fun e he => (hentry e he).2, ?_, ?_⟩
    · simp only [linkDebug, ha.ok.nodebug, hb.ok.nodebug]
    · -- not empty: an entry of `a` is still looked up
      intro hnil
      simp only at hnil
      cases hla : ta.labels with
      | nil => exact ha.ok.ne hla
      | cons e0 rest =>
        have he0 : e0 ∈ ta.labels := by rw [hla]; simp
        have hl0 := lookupKey_of_mem_pw ta.labels ha.ok.ukeys e0 he0
        have : lookupKey st.labels e0.1 ≠ none := by
          by_cases hex : ∃ e ∈ tb.labels, (e.1 == e0.1) = true
          · obtain ⟨e, he, hk⟩ := hex
            have hk' : e.1 = e0.1 := by simpa using hk
            have := p2 e he; rw [hk'] at this; rw [this]; simp
          · have hno : ∀ e ∈ tb.labels, (e.1 == e0.1) = false := by
              intro e he
              cases hk : (e.1 == e0.1) with
              | false => rfl
              | true => exact absurd ⟨e, he, hk⟩ hex
            rw [p1 e0.1 hno, hl0]; simp
        rw [hnil] at this; exact this rfl
    · have := S.wf.urel; rw [htr] at this; exact this
    · intro e he
      have hp := (S.pending e.1 e.2).mp (by rw [htr]; exact he)
      rcases hp.1 with hm | hm
      · exact ha.ok.relNames _ hm
      · exact hb.ok.relNames _ hm
  · -- BlocksWF
    refine ⟨sortedKeys_pairwise_lt _ S.wf.sorted, fun blk hblk => ?_⟩
    have hmem := linkBlocks_members a.blocks b.blocks B ha.wf.sorted hb.wf.sorted hbl
    have hsk : (blk.1, List.replicate blk.2.length (none : Option W)) ∈ skel r.blocks :=
      List.mem_map.mpr ⟨blk, hblk, rfl⟩
    rw [hr] at hsk
    simp only [skel_patchFold] at hsk
    obtain ⟨x, hx, hxe⟩ := List.mem_map.mp hsk
    simp only [Prod.mk.injEq] at hxe
    have hlen : x.2.length = blk.2.length := by
      have := congrArg List.length hxe.2; simpa using this
    rcases (hmem x).mp hx with hx' | hx'
    · have := ha.blocks.2 x hx'; rw [← hxe.1, ← hlen]; exact this
    · have := hb.blocks.2 x hx'; rw [← hxe.1, ← hlen]; exact this

end Lc3V

namespace Lc3V.C20
open Lc3V Txt

/-- every leaf is a file assembled without debug symbols from a source text that parses, and carries its symbol table -/
def LTree.FromSourceND : LTree → Prop
  | .leaf o t => ∃ (src : List Char) (stmts : List Stmt), parseAst src = .ok stmts ∧ 12 * blen src < 2 ^ 64 ∧
      assemble stmts none = .ok o ∧ o.sym = some t
  | .node l r => l.FromSourceND ∧ r.FromSourceND

theorem LTree.txtOk : ∀ (t : LTree) (r : ObjFile), t.FromSourceND → t.eval = .ok r → ∃ tr, TxtOk r tr
  | .leaf o t, r, ⟨src, stmts, hp, hz, ha, hs⟩, he => by
    simp only [LTree.eval, Except.ok.injEq] at he
    subst he
    obtain ⟨hb, hok⟩ := source_symOk src stmts o hp hz ha t hs
    exact ⟨t, hs, source_fileWF src stmts false o hp hz ha t hs, hok, hb⟩
  | .node l rt, r, ⟨hl', hr'⟩, he => by
    simp only [LTree.eval] at he
    cases hl : l.eval with
    | error e => rw [hl] at he; cases he
    | ok a =>
      rw [hl] at he
      simp only at he
      cases hr : rt.eval with
      | error e => rw [hr] at he; cases he
      | ok b =>
        rw [hr] at he
        simp only at he
        obtain ⟨ta, ha⟩ := LTree.txtOk l a hl' hl
        obtain ⟨tb, hb⟩ := LTree.txtOk rt b hr' hr
        exact link_txtOk a b r ta tb ha hb he

/-- **C18 for object files produced by assembling (without debug symbols) and linking**: the result of any tree of links
    over files assembled from source is read back from its text form with the same blocks and the same label and
    relocation tables (in the writer's row order) -/
theorem linked_text_roundtrip (t : LTree) (r : ObjFile) (hs : t.FromSourceND) (he : t.eval = .ok r) :
    ∃ tr, r.sym = some tr ∧
      deserialize (serialize r) = some ⟨r.blocks, some ⟨sortBy symLt tr.labels, sortBy relLt tr.rel, none⟩⟩ := by
  obtain ⟨tr, hok⟩ := t.txtOk r hs he
  refine ⟨tr, hok.sym, ?_⟩
  have : r = ⟨r.blocks, some tr⟩ := by cases r; simp only; congr 1; exact hok.sym
  rw [this]
  exact sym_section_roundtrip _ hok.blocks tr hok.ok

end Lc3V.C20
