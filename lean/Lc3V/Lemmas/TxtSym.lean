/- Lemmas/TxtSym.lean — the text object format with a symbol table (C18): `.SYMBOL`, `.LINKER_INFO` and the label index
   table of `.DEBUG` (no line table).  `splitN_seg` (a field without a bar is cut at the first ` | `), `trim_pad` (blanks
   around a field are trimmed away), the three row shapes (`symRow_segs`, `relRow_segs`, `idxRow_segs`), `parseTable_rows`
   (a header line and one rendered row per entry is read back as the entries), `sortBy_perm`, the reader's folds
   (`symFold`: rows appended in order; `idxFold` / `restore_src`: the index table puts every source position back),
   `kept_lines2` (which lines the reader keeps: comment and blank lines go, padded headers stay), `groupLines_groups`,
   the four group readers (`read_text`, `read_sym`, `read_rel`, `read_dbg`) and `sym_section_roundtrip`. -/
import Lc3V.Lemmas.TxtBlocks
import Lc3V.Lemmas.PrintLex
import Lc3V.Lemmas.C18Core
import Lc3V.Lemmas.LinkRel
set_option linter.unusedSimpArgs false
set_option linter.unusedVariables false
namespace Lc3V.Txt
open Lc3V

theorem splitN_cons (n : Nat) (c : Char) (t cur : Text) (h : ∀ r, c :: t ≠ ' ' :: '|' :: ' ' :: r) :
    splitN (n + 2) (c :: t) cur = splitN (n + 2) t (c :: cur) := by
  rw [splitN]
  intro r hc ht
  exact h r (by rw [hc, ht])

theorem splitN_div (n : Nat) (rest cur : Text) :
    splitN (n + 2) (tdiv ++ rest) cur = cur.reverse :: splitN (n + 1) rest [] := by
  simp [tdiv, splitN]

/-- a field without a bar is cut off at the first divider -/
theorem splitN_seg (n : Nat) (a rest : Text) (ha : ∀ c ∈ a, c ≠ '|') : ∀ cur : Text,
    splitN (n + 2) (a ++ tdiv ++ rest) cur = (cur.reverse ++ a) :: splitN (n + 1) rest [] := by
  induction a with
  | nil => intro cur; simpa using splitN_div n rest cur
  | cons c cs ih =>
    intro cur
    have ih' := ih (fun x hx => ha x (by simp [hx])) (c :: cur)
    simp only [List.cons_append]
    rw [splitN_cons]
    · rw [ih']; simp
    · intro r hr
      simp only [List.cons.injEq] at hr
      cases cs with
      | nil => simp [tdiv] at hr
      | cons d ds =>
        simp only [List.cons_append, List.cons.injEq] at hr
        exact ha d (by simp) hr.2.1

theorem splitN_one (s cur : Text) : splitN 1 s cur = [cur.reverse ++ s] := by
  cases s <;> simp [splitN]

/-- first and last character are not white space -/
structure Ends (l : Text) : Prop where
  first : ∃ c cs, l = c :: cs ∧ rustWs c = false
  last : ∃ init c, l = init ++ [c] ∧ rustWs c = false

theorem dropWhile_spaces (k : Nat) (l : Text) : (List.replicate k ' ' ++ l).dropWhile rustWs = l.dropWhile rustWs := by
  induction k with
  | zero => rfl
  | succ k ih =>
    rw [List.replicate_succ, List.cons_append, List.dropWhile_cons]
    have : rustWs ' ' = true := by decide
    rw [this]; exact ih

/-- blanks around a field are trimmed away -/
theorem trim_pad (a b : Nat) (l : Text) (h : Ends l) : trim (List.replicate a ' ' ++ l ++ List.replicate b ' ') = l := by
  obtain ⟨c, cs, e1, hc⟩ := h.first
  obtain ⟨init, d, e2, hd⟩ := h.last
  unfold trim SourceInfo.trimEnd SourceInfo.trimStart
  have r1 : (List.replicate a ' ' ++ l ++ List.replicate b ' ').reverse = List.replicate b ' ' ++ (l.reverse ++ List.replicate a ' ') := by
    simp [List.reverse_append, List.reverse_replicate]
  rw [r1, dropWhile_spaces]
  have r2 : l.reverse ++ List.replicate a ' ' = d :: (init.reverse ++ List.replicate a ' ') := by
    rw [e2]; simp
  rw [r2, List.dropWhile_cons, hd]
  simp only [Bool.false_eq_true, if_false]
  have r3 : (d :: (init.reverse ++ List.replicate a ' ')).reverse = List.replicate a ' ' ++ l := by
    rw [e2]; simp [List.reverse_append, List.reverse_replicate]
  rw [r3, dropWhile_spaces, e1, List.dropWhile_cons, hc]
  simp

theorem trim_ends (l : Text) (h : Ends l) : trim l = l := by
  have := trim_pad 0 0 l h
  simpa using this

theorem isDec_notWs (c : Char) (h : IsDec c) : rustWs c = false ∧ c ≠ '|' := by
  have h1 : 48 ≤ c.toNat ∧ c.toNat ≤ 57 := h
  constructor
  · unfold rustWs
    simp only [Bool.or_eq_false_iff, Bool.and_eq_false_iff, decide_eq_false_iff_not, beq_eq_false_iff_ne]
    omega
  · intro e; rw [e] at h1; simp at h1

def NoBar (l : Text) : Prop := ∀ c ∈ l, c ≠ '|'

/-- a label name the text format can carry: not empty, no white space, no bar, not starting like a comment, a section
    header or a divider -/
structure NameOk (k : Text) : Prop where
  ne : k ≠ []
  nows : ∀ c ∈ k, rustWs c = false
  nobar : NoBar k
  first : ∀ c cs, k = c :: cs → c ≠ '#' ∧ c ≠ '.' ∧ c ≠ '='

theorem NameOk.ends {k : Text} (h : NameOk k) : Ends k := by
  refine ⟨?_, ?_⟩
  · cases hk : k with
    | nil => exact absurd hk h.ne
    | cons c cs => exact ⟨c, cs, rfl, h.nows c (by rw [hk]; simp)⟩
  · rcases List.eq_nil_or_concat k with h0 | ⟨init, c, hc⟩
    · exact absurd h0 h.ne
    · rw [List.concat_eq_append] at hc
      exact ⟨init, c, hc, h.nows c (by rw [hc]; simp)⟩

theorem plain_facts2 {c : Char} (h : Plain7 c) : c ≠ '|' ∧ rustWs c = false :=
  ⟨fun e => by rw [e] at h; obtain ⟨_, h2⟩ := h; simp at h2, h.facts.2.2.2.2.2.2⟩

theorem hex4_facts (n : Nat) (hn : n < 65536) : hex4 n ≠ [] ∧ ∀ c ∈ hex4 n, Plain7 c := by
  obtain ⟨hd, _, hne⟩ := hexUpper_spec 4 n (by omega)
  exact ⟨hne, fun c hc => hexdig_plain c (hd c hc).1⟩

theorem ends_of (l : Text) (hne : l ≠ []) (h : ∀ c ∈ l, rustWs c = false) : Ends l := by
  refine ⟨?_, ?_⟩
  · cases hk : l with
    | nil => exact absurd hk hne
    | cons c cs => exact ⟨c, cs, rfl, h c (by rw [hk]; simp)⟩
  · rcases List.eq_nil_or_concat l with h0 | ⟨init, c, hc⟩
    · exact absurd h0 hne
    · rw [List.concat_eq_append] at hc
      exact ⟨init, c, hc, h c (by rw [hc]; simp)⟩

theorem hex4_ends (n : Nat) (hn : n < 65536) : Ends (hex4 n) ∧ NoBar (hex4 n) := by
  obtain ⟨hne, hp⟩ := hex4_facts n hn
  exact ⟨ends_of _ hne (fun c hc => (plain_facts2 (hp c hc)).2), fun c hc => (plain_facts2 (hp c hc)).1⟩

theorem digits_ends (n : Nat) : Ends (natDigits n) ∧ NoBar (natDigits n) :=
  ⟨ends_of _ (natDigits_ne_nil n) (fun c hc => (isDec_notWs c (natDigits_isDec n c hc)).1),
   fun c hc => (isDec_notWs c (natDigits_isDec n c hc)).2⟩

theorem padLeftNum_nobar (n w : Nat) : NoBar (padLeftNum n w) := by
  intro c hc
  simp only [padLeftNum, List.mem_append, List.mem_replicate] at hc
  rcases hc with ⟨_, rfl⟩ | hc
  · decide
  · exact (digits_ends n).2 c hc

theorem trim_padLeftNum (n w : Nat) : trim (padLeftNum n w) = natDigits n := by
  have := trim_pad (w - (natDigits n).length) 0 (natDigits n) (digits_ends n).1
  simpa [padLeftNum] using this

theorem padRight_nobar (k : Text) (w : Nat) (h : NoBar k) : NoBar (padRight k w) := by
  intro c hc
  simp only [padRight, List.mem_append, List.mem_replicate] at hc
  rcases hc with hc | ⟨_, rfl⟩
  · exact h c hc
  · decide

theorem trim_padRight (k : Text) (w : Nat) (h : Ends k) : trim (padRight k w) = k := by
  have := trim_pad 0 (w - k.length) k h
  simpa [padRight] using this

/-! ### rows -/

def symRow (e : Key × SymData) : Text := hex4 e.2.addr.toNat ++ tdiv ++ padLeftNum (if e.2.ext then 1 else 0) 3 ++ tdiv ++ e.1
def relRow (e : W × Key) : Text := hex4 e.1.toNat ++ tdiv ++ e.2
def idxRow (lc ic : Nat) (e : Key × Nat) : Text := padRight e.1 lc ++ tdiv ++ padLeftNum e.2 ic

theorem symRow_segs (e : Key × SymData) (hk : Ends e.1) :
    (rowSegs 3 (symRow e)).map trim = [hex4 e.2.addr.toNat, natDigits (if e.2.ext then 1 else 0), e.1] := by
  have h1 := hex4_ends e.2.addr.toNat e.2.addr.isLt
  have s : splitN 3 (symRow e) [] = [hex4 e.2.addr.toNat, padLeftNum (if e.2.ext then 1 else 0) 3, e.1] := by
    unfold symRow
    rw [List.append_assoc (hex4 _ ++ tdiv), List.append_assoc (hex4 _ ++ tdiv)]
    rw [splitN_seg 1 _ _ h1.2, splitN_seg 0 _ _ (padLeftNum_nobar _ _), splitN_one]
    simp
  unfold rowSegs
  rw [s]
  simp only [List.length_cons, List.length_nil, Nat.sub_self, List.replicate_zero, List.append_nil, List.map_cons, List.map_nil,
    trim_ends _ h1.1, trim_padLeftNum, trim_ends _ hk]

theorem relRow_segs (e : W × Key) (hk : Ends e.2) : (rowSegs 2 (relRow e)).map trim = [hex4 e.1.toNat, e.2] := by
  have h1 := hex4_ends e.1.toNat e.1.isLt
  have s : splitN 2 (relRow e) [] = [hex4 e.1.toNat, e.2] := by
    unfold relRow
    rw [splitN_seg 0 _ _ h1.2, splitN_one]; simp
  unfold rowSegs
  rw [s]
  simp only [List.length_cons, List.length_nil, Nat.sub_self, List.replicate_zero, List.append_nil, List.map_cons, List.map_nil,
    trim_ends _ h1.1, trim_ends _ hk]

theorem idxRow_segs (lc ic : Nat) (e : Key × Nat) (hk : NameOk e.1) :
    (rowSegs 2 (idxRow lc ic e)).map trim = [e.1, natDigits e.2] := by
  have s : splitN 2 (idxRow lc ic e) [] = [padRight e.1 lc, padLeftNum e.2 ic] := by
    unfold idxRow
    rw [splitN_seg 0 _ _ (padRight_nobar _ _ hk.nobar), splitN_one]; simp
  unfold rowSegs
  rw [s]
  simp only [List.length_cons, List.length_nil, Nat.sub_self, List.replicate_zero, List.append_nil, List.map_cons, List.map_nil,
    trim_padRight _ _ hk.ends, trim_padLeftNum]

theorem allSome_zip {α β} (F : Text → Nat → Option α) (ren : β → Text) (g : β → α) :
    ∀ (l : List β) (is : List Nat), is.length = l.length → (∀ b ∈ l, ∀ i, F (ren b) i = some (g b)) →
    allSome ((is.zip (l.map ren)).map (fun p => F p.2 p.1)) = some (l.map g) := by
  intro l
  induction l with
  | nil => intro is _ _; cases is <;> rfl
  | cons b bs ih =>
    intro is hl h
    cases is with
    | nil => simp at hl
    | cons i is' =>
      simp only [List.map_cons, List.zip_cons_cons, allSome, h b (by simp) i]
      rw [ih is' (by simpa using hl) (fun x hx => h x (by simp [hx]))]
      rfl

/-- a table written as a header line and one rendered row per entry is read back as the entries -/
theorem parseTable_rows {α β} (cols : List Text) (H : Text) (hH : parseHeader H cols = true)
    (row : List Text → Nat → Option α) (ren : β → Text) (g : β → α) (bs : List β)
    (hrow : ∀ b ∈ bs, ∀ i, row ((rowSegs cols.length (ren b)).map trim) i = some (g b)) :
    parseTable (H :: bs.map ren) cols row true = some (bs.map g) := by
  unfold parseTable
  simp only [hH, if_true]
  have := allSome_zip (fun t i => row ((rowSegs cols.length t).map trim) i) ren g bs (List.range (bs.map ren).length)
    (by simp) hrow
  simpa using this

def symHdr : Text := "ADDR | EXT | LABEL".toList
def relHdr : Text := "ADDR | LABEL".toList
def symCols : List Text := ["ADDR".toList, "EXT".toList, "LABEL".toList]
def relCols : List Text := ["ADDR".toList, "LABEL".toList]
def idxCols : List Text := ["LABEL".toList, "INDEX".toList]

theorem symHdr_ok : parseHeader symHdr symCols = true := by decide
theorem relHdr_ok : parseHeader relHdr relCols = true := by decide

def symRowFn : List Text → Nat → Option (W × Bool × Text) := fun cols _ =>
  match cols with
  | [a, e, l] => (match hex2u16 a, parseUInt 255 e with | some av, some ev => some (av, ev != 0, l) | _, _ => none)
  | _ => none

def relRowFn : List Text → Nat → Option (W × Text) := fun cols _ =>
  match cols with
  | [a, l] => (hex2u16 a).map (fun av => (av, l))
  | _ => none

def idxRowFn : List Text → Nat → Option (Text × Nat) := fun cols _ =>
  match cols with
  | [l, ix] => (parseUInt 18446744073709551615 ix).map (fun n => (l, n))
  | _ => none

theorem hex2u16_word (w : W) : hex2u16 (hex4 w.toNat) = some w := by
  rw [hex2u16_hex4 _ w.isLt]; simp

theorem symTable (ls : List (Key × SymData)) (hk : ∀ e ∈ ls, Ends e.1) :
    parseTable (symHdr :: ls.map symRow) symCols symRowFn true = some (ls.map (fun e => (e.2.addr, e.2.ext, e.1))) := by
  refine parseTable_rows symCols symHdr symHdr_ok symRowFn symRow _ ls ?_
  intro b hb i
  have hseg := symRow_segs b (hk b hb)
  have hp : parseUInt 255 (natDigits (if b.2.ext then 1 else 0)) = some (if b.2.ext then 1 else 0) :=
    C18.decimal_field_roundtrip _ 255 (by split <;> decide) (by decide)
  show symRowFn ((rowSegs 3 (symRow b)).map trim) i = _
  rw [hseg]; simp only [symRowFn, hex2u16_word, hp]
  cases b.2.ext <;> rfl

theorem relTable (ls : List (W × Key)) (hk : ∀ e ∈ ls, Ends e.2) :
    parseTable (relHdr :: ls.map relRow) relCols relRowFn true = some ls := by
  have := parseTable_rows relCols relHdr relHdr_ok relRowFn relRow id ls (by
    intro b hb i
    show relRowFn ((rowSegs 2 (relRow b)).map trim) i = _
    rw [relRow_segs b (hk b hb)]; simp only [relRowFn, hex2u16_word]; rfl)
  simpa using this

theorem insertBy_perm {α} (lt : α → α → Bool) (x : α) : ∀ l : List α, (insertBy lt x l).Perm (x :: l) := by
  intro l
  induction l with
  | nil => exact List.Perm.refl _
  | cons y ys ih =>
    unfold insertBy
    split
    · exact List.Perm.refl _
    · exact (List.Perm.cons y ih).trans (List.Perm.swap x y ys)

theorem sortBy_perm {α} (lt : α → α → Bool) : ∀ l : List α, (sortBy lt l).Perm l := by
  intro l
  induction l with
  | nil => exact List.Perm.refl _
  | cons x xs ih =>
    show (insertBy _ x (sortBy lt xs)).Perm (x :: xs)
    exact (insertBy_perm _ x _).trans (List.Perm.cons x ih)

theorem sortBy_mem {α} (lt : α → α → Bool) (l : List α) (x : α) : x ∈ sortBy lt l ↔ x ∈ l := (sortBy_perm lt l).mem_iff

theorem sortBy_pairwise {α} (lt : α → α → Bool) (l : List α) (R : α → α → Prop) (hs : ∀ {x y}, R x y → R y x) (h : l.Pairwise R) :
    (sortBy lt l).Pairwise R := ((sortBy_perm lt l).pairwise_iff hs).mpr h

theorem sortBy_length {α} (lt : α → α → Bool) (l : List α) : (sortBy lt l).length = l.length := (sortBy_perm lt l).length_eq

theorem sortBy_nil_iff {α} (lt : α → α → Bool) (l : List α) : sortBy lt l = [] ↔ l = [] := by
  constructor
  · intro h; have := sortBy_length lt l; rw [h] at this; exact List.length_eq_zero_iff.mp this.symm
  · intro h; rw [h]; rfl

/-! ### the label folds of the reader -/

def UKeys (m : List (Key × SymData)) : Prop := m.Pairwise (fun x y => (x.1 == y.1) = false)

/-- the `.SYMBOL` rows, read into an accumulator that has none of their names: appended in order, position 0 -/
theorem symFold (rows : List (Key × SymData)) (hu : UKeys rows) : ∀ (acc : List (Key × SymData)),
    (∀ a ∈ acc, ∀ r ∈ rows, (a.1 == r.1) = false) →
    (rows.map (fun e => (e.2.addr, e.2.ext, e.1))).foldl
      (fun m (r : W × Bool × Text) => updLabel m r.2.2 (fun d => { d with addr := r.1, ext := r.2.1 })) acc =
    acc ++ rows.map (fun e => (e.1, (⟨e.2.addr, 0, e.2.ext⟩ : SymData))) := by
  induction rows with
  | nil => intro acc _; simp
  | cons r rs ih =>
    intro acc hd
    have hpc := List.pairwise_cons.mp hu
    simp only [List.map_cons, List.foldl_cons]
    have hfresh : acc.any (fun e => e.1 == r.1) = false := by
      rw [List.any_eq_false]; intro a ha; have := hd a ha r (by simp); simp [this]
    have e1 : updLabel acc r.1 (fun d => { d with addr := r.2.addr, ext := r.2.ext }) = acc ++ [(r.1, ⟨r.2.addr, 0, r.2.ext⟩)] := by
      unfold updLabel; rw [hfresh]; rfl
    rw [e1, ih hpc.2 _ ?_]
    · simp
    · intro a ha x hx
      rcases List.mem_append.mp ha with h | h
      · exact hd a h x (by simp [hx])
      · simp only [List.mem_singleton] at h; rw [h]; exact hpc.1 x hx

/-- what an index row does to an entry -/
def updSrc (es : List (Key × Nat)) (e : Key × SymData) : Key × SymData :=
  match es.find? (fun r => r.1 == e.1) with
  | some r => (e.1, { e.2 with srcStart := r.2 })
  | none => e

theorem idxFold : ∀ (es : List (Key × Nat)) (m : List (Key × SymData)),
    es.Pairwise (fun x y => (x.1 == y.1) = false) → (∀ r ∈ es, ∃ e ∈ m, e.1 = r.1) →
    es.foldl (fun m (r : Text × Nat) => updLabel m r.1 (fun d => { d with srcStart := r.2 })) m = m.map (updSrc es) := by
  intro es
  induction es with
  | nil =>
    intro m _ _
    have : updSrc [] = id := by funext e; rfl
    simp [this]
  | cons r rs ih =>
    intro m hu hp
    have hpc := List.pairwise_cons.mp hu
    simp only [List.foldl_cons]
    have hany : m.any (fun e => e.1 == r.1) = true := by
      obtain ⟨e, he, hk⟩ := hp r (by simp)
      exact List.any_eq_true.mpr ⟨e, he, by simp [hk]⟩
    have e1 : updLabel m r.1 (fun d => { d with srcStart := r.2 }) =
        m.map (fun e => if e.1 == r.1 then (r.1, { e.2 with srcStart := r.2 }) else e) := by
      unfold updLabel; rw [hany]; rfl
    rw [e1, ih _ hpc.2 ?_]
    · rw [List.map_map]
      apply List.map_congr_left
      intro e _
      simp only [Function.comp]
      by_cases hk : (e.1 == r.1) = true
      · have hk' : e.1 = r.1 := by simpa using hk
        simp only [hk, if_true]
        have hnone : rs.find? (fun x => x.1 == r.1) = none := by
          rw [List.find?_eq_none]; intro x hx; have := hpc.1 x hx
          simp only [Bool.not_eq_true]
          rw [← this]; exact BEq.comm
        have h1 : updSrc rs (r.1, { e.2 with srcStart := r.2 }) = (r.1, { e.2 with srcStart := r.2 }) := by
          unfold updSrc; simp only [hnone]
        have hrk : (r.1 == e.1) = true := by simp [hk']
        have h2 : updSrc (r :: rs) e = (e.1, { e.2 with srcStart := r.2 }) := by
          unfold updSrc; simp only [List.find?_cons, hrk]
        rw [h1, h2, hk']
      · simp only [hk, if_false, Bool.false_eq_true]
        have hrk : (r.1 == e.1) = false := by
          have : (e.1 == r.1) = false := by simpa using hk
          rw [← this]; exact BEq.comm
        unfold updSrc
        simp only [List.find?_cons, hrk]
    · intro x hx
      obtain ⟨e, he, hk⟩ := hp x (by simp [hx])
      by_cases hkr : (e.1 == r.1) = true
      · refine ⟨(r.1, { e.2 with srcStart := r.2 }), List.mem_map.mpr ⟨e, he, by simp [hkr]⟩, ?_⟩
        have : e.1 = r.1 := by simpa using hkr
        simp only; rw [← this]; exact hk
      · exact ⟨e, List.mem_map.mpr ⟨e, he, by simp [hkr]⟩, hk⟩

/-- a comment line of the writer -/
structure Cmt (l : Text) : Prop where
  nonl : NoNl l
  nocr : ∀ c ∈ l, c ≠ '\r'
  hash : startsWith l '#' = true

def keepLine (l : Text) : Bool := !l.isEmpty && !startsWith l '#'

/-- a line the reader keeps: no line break inside, starts with a character that is neither white space nor `#` (it may
    end in blanks, like the padded header of the index table) -/
structure Kept (l : Text) : Prop where
  nonl : NoNl l
  nocr : ∀ c ∈ l, c ≠ '\r'
  first : ∃ c cs, l = c :: cs ∧ rustWs c = false ∧ c ≠ '#'

theorem Clean.kept {l : Text} (h : Clean l) : Kept l := ⟨h.nonl, h.nocr, h.first⟩

theorem mem_dropWhile_of_not {α} (p : α → Bool) (x : α) : ∀ l : List α, x ∈ l → p x = false → x ∈ l.dropWhile p := by
  intro l
  induction l with
  | nil => intro h _; cases h
  | cons y ys ih =>
    intro h hp
    rw [List.dropWhile_cons]
    split
    · rcases List.mem_cons.mp h with rfl | h'
      · rename_i hy; rw [hp] at hy; cases hy
      · exact ih h' hp
    · exact h

theorem trim_nonempty {l : Text} (h : Kept l) : (trim l).isEmpty = false := by
  obtain ⟨c, cs, hl, hc, _⟩ := h.first
  have h1 : c ∈ SourceInfo.trimEnd l := by
    unfold SourceInfo.trimEnd
    rw [List.mem_reverse]
    exact mem_dropWhile_of_not _ c _ (by rw [hl]; simp) hc
  have h2 : c ∈ trim l := by
    unfold trim SourceInfo.trimStart
    exact mem_dropWhile_of_not _ c _ h1 hc
  cases ht : trim l with
  | nil => rw [ht] at h2; cases h2
  | cons _ _ => rfl

theorem stripCr_nocr (l : Text) (h : ∀ c ∈ l, c ≠ '\r') : stripCr l = l := by
  unfold stripCr
  split
  · rename_i r heq
    have : '\r' ∈ l := by
      have : '\r' ∈ l.reverse := by rw [heq]; simp
      exact List.mem_reverse.mp this
    exact absurd rfl (h _ this)
  · rfl

theorem filter_mid (M : List Text) (hM : ∀ l ∈ M, l = [] ∨ Kept l ∨ Cmt l) :
    (M.filter (fun l => !startsWith l '#')).filter (fun l => !(trim l).isEmpty) = M.filter keepLine := by
  induction M with
  | nil => rfl
  | cons m ms ih =>
    have ihm := ih (fun l hl => hM l (by simp [hl]))
    rcases hM m (by simp) with rfl | h | h
    · have a : (!startsWith ([] : Text) '#') = true := rfl
      have b : (!(trim ([] : Text)).isEmpty) = false := by decide
      have c : keepLine ([] : Text) = false := rfl
      simp only [List.filter_cons, a, if_true, b, c, Bool.false_eq_true, if_false]
      exact ihm
    · have hh : startsWith m '#' = false := by
        obtain ⟨c, cs, h', _, hc⟩ := h.first; rw [h']; simp [startsWith, hc]
      have k : (!startsWith m '#') = true ∧ (!(trim m).isEmpty) = true := by
        rw [hh, trim_nonempty h]; exact ⟨rfl, rfl⟩
      have c : keepLine m = true := by
        unfold keepLine; rw [hh]; obtain ⟨c, cs, h', _⟩ := h.first; rw [h']; simp
      simp only [List.filter_cons, k.1, k.2, c, if_true]
      rw [ihm]
    · have a : (!startsWith m '#') = false := by rw [h.hash]; rfl
      have c : keepLine m = false := by unfold keepLine; rw [h.hash]; simp
      simp only [List.filter_cons, a, c, Bool.false_eq_true, if_false]
      exact ihm

/-- the lines the reader keeps from a text written as clean, empty or comment lines joined by line feeds, first and last
    line clean, followed by white space only -/
theorem kept_lines2 (A : Text) (M : List Text) (Z ws : Text) (hA : Clean A) (hZ : Clean Z)
    (hM : ∀ l ∈ M, l = [] ∨ Kept l ∨ Cmt l) (hws : ∀ c ∈ ws, rustWs c = true) :
    (((lines (trim (inter (A :: M ++ [Z]) ++ ws))).filter (fun l => !startsWith l '#')).filter
      (fun l => !(trim l).isEmpty)) = A :: (M.filter keepLine) ++ [Z] := by
  have e2 : inter (A :: M ++ [Z]) = (inter (A :: M) ++ ['\n']) ++ Z := by
    have := inter_split_last (A :: M) Z
    rw [if_neg (by simp)] at this
    simpa using this
  have t1 : SourceInfo.trimEnd (inter (A :: M ++ [Z]) ++ ws) = inter (A :: M ++ [Z]) := by
    rw [e2]
    exact trimEnd_clean _ hZ _ hws
  have t2 : SourceInfo.trimStart (inter (A :: M ++ [Z])) = inter (A :: M ++ [Z]) := by
    have : ∃ rest, inter (A :: M ++ [Z]) = A ++ rest := by
      cases hm : M ++ [Z] with
      | nil => simp at hm
      | cons b bs =>
        have : A :: M ++ [Z] = A :: (b :: bs) := by simp [← hm]
        rw [this]; exact ⟨_, rfl⟩
    obtain ⟨rest, hr⟩ := this
    rw [hr]; exact trimStart_clean hA rest
  have nonl : ∀ x ∈ A :: (M ++ [Z]), NoNl x := by
    intro x hx
    simp only [List.mem_cons, List.mem_append, List.mem_nil_iff, or_false] at hx
    rcases hx with rfl | hx | rfl
    · exact hA.nonl
    · rcases hM x hx with rfl | h | h
      · intro c hc; cases hc
      · exact h.nonl
      · exact h.nonl
    · exact hZ.nonl
  have l1 : splitNl (inter (A :: M ++ [Z])) [] = A :: M ++ [Z] := by
    have : A :: M ++ [Z] = A :: (M ++ [Z]) := rfl
    rw [this]; exact splitNl_inter A (M ++ [Z]) nonl
  have l2 : lines (inter (A :: M ++ [Z])) = A :: M ++ [Z] := by
    unfold lines
    simp only [l1]
    have hz : Z ≠ [] := by obtain ⟨c, cs, h, _⟩ := hZ.first; rw [h]; simp
    have : (A :: M ++ [Z]).reverse = Z :: (A :: M).reverse := by simp
    rw [this]
    have : ∀ x ∈ A :: M ++ [Z], stripCr x = x := by
      intro x hx
      simp only [List.cons_append, List.mem_cons, List.mem_append, List.mem_nil_iff, or_false] at hx
      rcases hx with rfl | hx | rfl
      · exact stripCr_clean hA
      · rcases hM x hx with rfl | h | h
        · rfl
        · exact stripCr_nocr x h.nocr
        · exact stripCr_nocr x h.nocr
      · exact stripCr_clean hZ
    split
    · rename_i r heq
      simp only [List.cons.injEq] at heq
      exact absurd heq.1 hz
    · rw [List.map_congr_left (g := id) this]; simp
  have hT : trim (inter (A :: M ++ [Z]) ++ ws) = inter (A :: M ++ [Z]) := by
    unfold trim; rw [t1, t2]
  rw [hT, l2]
  have keepA : (!startsWith A '#') = true ∧ (!(trim A).isEmpty) = true := by
    rw [not_hash_clean hA, trim_clean hA]; obtain ⟨c, cs, h, _⟩ := hA.first; rw [h]; simp
  have keepZ : (!startsWith Z '#') = true ∧ (!(trim Z).isEmpty) = true := by
    rw [not_hash_clean hZ, trim_clean hZ]; obtain ⟨c, cs, h, _⟩ := hZ.first; rw [h]; simp
  have fM := filter_mid M hM
  simp only [List.cons_append, List.filter_cons, keepA.1, keepA.2, if_true, List.filter_append, fM, keepZ.1, keepZ.2,
    List.filter_nil]

/-- lines joined with a line feed after each: `inter` plus one line feed -/
theorem flatMap_nl_inter (ls : List Text) (h : ls ≠ []) : ls.flatMap (· ++ nl) = inter ls ++ nl := by
  cases ls with
  | nil => exact absurd rfl h
  | cons l ls => exact flatMap_nl l ls

/-- lines without a leading dot are added to the open group -/
theorem groupLines_body (BL : List Text) (h : ∀ l ∈ BL, startsWith l '.' = false) : ∀ (g : List Text) (gs : List (List Text)) (rest : List Text),
    groupLines (BL ++ rest) (g :: gs) = groupLines rest ((BL.reverse ++ g) :: gs) := by
  induction BL with
  | nil => intro g gs rest; rfl
  | cons l ls ih =>
    intro g gs rest
    simp only [List.cons_append]
    rw [groupLines, h l (by simp)]
    simp only [Bool.false_eq_true, if_false]
    rw [ih (fun x hx => h x (by simp [hx])) (l :: g) gs rest]
    simp

/-- a sequence of groups, each opened by a dotted line, is split into exactly those groups -/
theorem groupLines_groups : ∀ (G : List (Text × List Text)) (acc : List (List Text)),
    (∀ g ∈ G, startsWith g.1 '.' = true ∧ ∀ l ∈ g.2, startsWith l '.' = false) →
    groupLines (G.flatMap (fun g => g.1 :: g.2)) acc = some (acc.reverse.map List.reverse ++ G.map (fun g => g.1 :: g.2)) := by
  intro G
  induction G with
  | nil => intro acc _; simp [groupLines]
  | cons g gs ih =>
    intro acc h
    obtain ⟨h1, h2⟩ := h g (by simp)
    simp only [List.flatMap_cons, List.cons_append]
    have e : groupLines (g.1 :: (g.2 ++ gs.flatMap (fun g => g.1 :: g.2))) acc =
        groupLines (g.2 ++ gs.flatMap (fun g => g.1 :: g.2)) ([g.1] :: acc) := by
      conv => lhs; unfold groupLines
      simp only [h1, if_true]
    rw [e, groupLines_body g.2 h2 [g.1] acc, ih _ (fun x hx => h x (by simp [hx]))]
    simp

def symLine : Text := ".SYMBOL".toList
def relLine : Text := ".LINKER_INFO".toList
def dbgLine : Text := ".DEBUG".toList
def cmtLine : Text := "# DEBUG SYMBOLS FOR LC3TOOLS".toList

def idxEntries (t : SymTab) : List (Key × Nat) := sortBy idxLt (t.labels.map (fun e => (e.1, e.2.srcStart)))
def idxLc (t : SymTab) : Nat := (idxEntries t).foldl (fun m e => max m (blen e.1)) 5
def idxIc (t : SymTab) : Nat := (idxEntries t).foldl (fun m e => max m (natDigits e.2).length) 5
def idxHdr (lc ic : Nat) : Text := padRight "LABEL".toList lc ++ tdiv ++ padRight "INDEX".toList ic

def symBody (t : SymTab) : List Text := if t.labels.isEmpty then [] else symHdr :: (sortBy symLt t.labels).map symRow
def relBody (t : SymTab) : List Text := if t.rel.isEmpty then [] else relHdr :: (sortBy relLt t.rel).map relRow
def idxBody (t : SymTab) : List Text :=
  if t.labels.isEmpty then [] else idxHdr (idxLc t) (idxIc t) :: (idxEntries t).map (idxRow (idxLc t) (idxIc t))

/-- the lines of the symbol part of the text format (no line table) -/
def symPart (t : SymTab) : List Text :=
  symLine :: symBody t ++ [[]] ++ relLine :: relBody t ++ [[]] ++ dbgLine :: cmtLine :: [] :: idxBody t ++ [divider]

theorem flatMap_map_nl {α} (f : α → Text) (l : List α) : (l.map f).flatMap (· ++ nl) = l.flatMap (fun e => f e ++ nl) := by
  induction l with
  | nil => rfl
  | cons x xs ih => simp only [List.map_cons, List.flatMap_cons, ih]

theorem serSym_lines (t : SymTab) (hd : t.debug = none) : serSym t = (symPart t).flatMap (· ++ nl) := by
  have e : serSym t = symLine ++ nl ++
      (if t.labels.isEmpty then [] else symHdr ++ nl ++ (sortBy symLt t.labels).flatMap (fun e => symRow e ++ nl)) ++ nl ++
      relLine ++ nl ++
      (if t.rel.isEmpty then [] else relHdr ++ nl ++ (sortBy relLt t.rel).flatMap (fun e => relRow e ++ nl)) ++ nl ++
      dbgLine ++ nl ++ cmtLine ++ nl ++ nl ++
      (if t.labels.isEmpty then [] else
        idxHdr (idxLc t) (idxIc t) ++ nl ++ (idxEntries t).flatMap (fun e => idxRow (idxLc t) (idxIc t) e ++ nl)) ++
      divider ++ nl ++ [] := by
    unfold serSym
    rw [hd]
    rfl
  rw [e]
  unfold symPart symBody relBody idxBody
  by_cases h1 : t.labels.isEmpty = true <;> by_cases h2 : t.rel.isEmpty = true <;>
    simp only [h1, h2, if_true, if_false, Bool.false_eq_true, List.flatMap_cons, List.flatMap_append, List.flatMap_nil, flatMap_map_nl,
      List.append_assoc, List.nil_append, List.append_nil, List.cons_append]

/-- a character that may stand inside a table line -/
def LineCh (c : Char) : Prop := c ≠ '\n' ∧ c ≠ '\r'

theorem lineCh_of_notWs {c : Char} (h : rustWs c = false) : LineCh c :=
  ⟨fun e => by rw [e] at h; revert h; decide, fun e => by rw [e] at h; revert h; decide⟩

theorem lineCh_plain {c : Char} (h : Plain7 c) : LineCh c := ⟨h.facts.2.1, h.facts.2.2.1⟩

theorem lineCh_tdiv : ∀ c ∈ tdiv, LineCh c := by
  intro c hc
  simp only [tdiv, List.mem_cons, List.mem_nil_iff, or_false] at hc
  rcases hc with rfl | rfl | rfl <;> exact ⟨by decide, by decide⟩

theorem lineCh_padLeft (n w : Nat) : ∀ c ∈ padLeftNum n w, LineCh c := by
  intro c hc
  simp only [padLeftNum, List.mem_append, List.mem_replicate] at hc
  rcases hc with ⟨_, rfl⟩ | hc
  · exact ⟨by decide, by decide⟩
  · exact lineCh_of_notWs (isDec_notWs c (natDigits_isDec n c hc)).1

theorem lineCh_padRight (k : Text) (w : Nat) (h : ∀ c ∈ k, LineCh c) : ∀ c ∈ padRight k w, LineCh c := by
  intro c hc
  simp only [padRight, List.mem_append, List.mem_replicate] at hc
  rcases hc with hc | ⟨_, rfl⟩
  · exact h c hc
  · exact ⟨by decide, by decide⟩

/-- building `Clean` from: all characters fit a line, the line starts with `a` (first character neither white space nor
    `#`) and ends with `z` (last character not white space) -/
theorem clean_of (l a mid z : Text) (hl : l = a ++ mid ++ z) (hall : ∀ c ∈ l, LineCh c)
    (ha : ∃ c cs, a = c :: cs ∧ rustWs c = false ∧ c ≠ '#') (hz : ∃ init c, z = init ++ [c] ∧ rustWs c = false) : Clean l := by
  obtain ⟨c, cs, rfl, hc1, hc2⟩ := ha
  obtain ⟨init, d, rfl, hd⟩ := hz
  refine ⟨fun x hx => (hall x hx).1, fun x hx => (hall x hx).2, ⟨c, cs ++ mid ++ (init ++ [d]), by rw [hl]; simp, hc1, hc2⟩,
    ⟨c :: cs ++ mid ++ init, d, by rw [hl]; simp, hd⟩⟩

theorem hex4_first (n : Nat) (hn : n < 65536) : ∃ c cs, hex4 n = c :: cs ∧ rustWs c = false ∧ c ≠ '#' ∧ c ≠ '.' := by
  obtain ⟨hne, hp⟩ := hex4_facts n hn
  cases h : hex4 n with
  | nil => exact absurd h hne
  | cons c cs =>
    have := hp c (by rw [h]; simp)
    exact ⟨c, cs, rfl, this.facts.2.2.2.2.2.2, this.facts.2.2.2.1, this.facts.2.2.2.2.1⟩

theorem nameOk_lineCh {k : Text} (h : NameOk k) : ∀ c ∈ k, LineCh c := fun c hc => lineCh_of_notWs (h.nows c hc)

theorem symRow_clean (e : Key × SymData) (hk : NameOk e.1) : Clean (symRow e) ∧ startsWith (symRow e) '.' = false := by
  obtain ⟨c, cs, hc, h1, h2, h3⟩ := hex4_first e.2.addr.toNat e.2.addr.isLt
  constructor
  · refine clean_of _ (hex4 e.2.addr.toNat) (tdiv ++ padLeftNum (if e.2.ext then 1 else 0) 3 ++ tdiv) e.1 (by simp [symRow]) ?_
      ⟨c, cs, hc, h1, h2⟩ hk.ends.last
    intro x hx
    simp only [symRow, List.mem_append] at hx
    rcases hx with (((hx | hx) | hx) | hx) | hx
    · exact lineCh_plain ((hex4_facts _ e.2.addr.isLt).2 x hx)
    · exact lineCh_tdiv x hx
    · exact lineCh_padLeft _ _ x hx
    · exact lineCh_tdiv x hx
    · exact nameOk_lineCh hk x hx
  · unfold symRow; rw [hc]; simp [startsWith, h3]

theorem relRow_clean (e : W × Key) (hk : NameOk e.2) : Clean (relRow e) ∧ startsWith (relRow e) '.' = false := by
  obtain ⟨c, cs, hc, h1, h2, h3⟩ := hex4_first e.1.toNat e.1.isLt
  constructor
  · refine clean_of _ (hex4 e.1.toNat) tdiv e.2 (by simp [relRow]) ?_ ⟨c, cs, hc, h1, h2⟩ hk.ends.last
    intro x hx
    simp only [relRow, List.mem_append] at hx
    rcases hx with (hx | hx) | hx
    · exact lineCh_plain ((hex4_facts _ e.1.isLt).2 x hx)
    · exact lineCh_tdiv x hx
    · exact nameOk_lineCh hk x hx
  · unfold relRow; rw [hc]; simp [startsWith, h3]

theorem digits_last (n : Nat) : ∃ init c, natDigits n = init ++ [c] ∧ rustWs c = false := (digits_ends n).1.last

theorem idxRow_clean (lc ic : Nat) (e : Key × Nat) (hk : NameOk e.1) :
    Clean (idxRow lc ic e) ∧ startsWith (idxRow lc ic e) '.' = false ∧ startsWith (idxRow lc ic e) '=' = false := by
  obtain ⟨c, cs, hc, h1⟩ := hk.ends.first
  obtain ⟨f1, f2, f3⟩ := hk.first c cs hc
  obtain ⟨init, d, hd, hd2⟩ := digits_last e.2
  refine ⟨?_, ?_, ?_⟩
  · refine clean_of _ e.1 (List.replicate (lc - e.1.length) ' ' ++ tdiv ++ List.replicate (ic - (natDigits e.2).length) ' ') (natDigits e.2)
      (by simp [idxRow, padRight, padLeftNum]) ?_ ⟨c, cs, hc, h1, f1⟩ ⟨init, d, hd, hd2⟩
    intro x hx
    simp only [idxRow, List.mem_append] at hx
    rcases hx with (hx | hx) | hx
    · exact lineCh_padRight _ _ (nameOk_lineCh hk) x hx
    · exact lineCh_tdiv x hx
    · exact lineCh_padLeft _ _ x hx
  · unfold idxRow padRight; rw [hc]; simp [startsWith, f2]
  · unfold idxRow padRight; rw [hc]; simp [startsWith, f3]

theorem kept_const (l : Text) (h1 : l.all (fun c => c != '\n' && c != '\r') = true)
    (h2 : (match l with | c :: _ => !rustWs c && c != '#' | [] => false) = true) : Kept l := by
  refine ⟨fun c hc => ?_, fun c hc => ?_, ?_⟩
  · have := List.all_eq_true.mp h1 c hc; simp at this; exact this.1
  · have := List.all_eq_true.mp h1 c hc; simp at this; exact this.2
  · cases l with
    | nil => cases h2
    | cons c cs => simp at h2; exact ⟨c, cs, rfl, h2.1, h2.2⟩

theorem symLine_kept : Kept symLine := kept_const _ (by decide) (by decide)
theorem relLine_kept : Kept relLine := kept_const _ (by decide) (by decide)
theorem dbgLine_kept : Kept dbgLine := kept_const _ (by decide) (by decide)
theorem symHdr_kept : Kept symHdr := kept_const _ (by decide) (by decide)
theorem relHdr_kept : Kept relHdr := kept_const _ (by decide) (by decide)
theorem textLine_kept : Kept textLine := text_clean.kept

theorem cmtLine_cmt : Cmt cmtLine := by
  refine ⟨fun c hc => ?_, fun c hc => ?_, by decide⟩
  · have : cmtLine.all (fun c => c != '\n' && c != '\r') = true := by decide
    have := List.all_eq_true.mp this c hc; simp at this; exact this.1
  · have : cmtLine.all (fun c => c != '\n' && c != '\r') = true := by decide
    have := List.all_eq_true.mp this c hc; simp at this; exact this.2

theorem divider_clean : Clean divider := by
  have e : divider = '=' :: List.replicate 19 '=' := rfl
  have e2 : divider = List.replicate 19 '=' ++ ['='] := by decide
  refine ⟨fun c hc => ?_, fun c hc => ?_, ⟨'=', _, e, by decide, by decide⟩, ⟨_, '=', e2, by decide⟩⟩
  · simp only [divider, List.mem_replicate] at hc; rw [hc.2]; decide
  · simp only [divider, List.mem_replicate] at hc; rw [hc.2]; decide

theorem idxHdr_kept (lc ic : Nat) : Kept (idxHdr lc ic) ∧ startsWith (idxHdr lc ic) '.' = false ∧ startsWith (idxHdr lc ic) '=' = false := by
  have hL : ∀ c ∈ "LABEL".toList, LineCh c := by unfold LineCh; decide
  have hI : ∀ c ∈ "INDEX".toList, LineCh c := by unfold LineCh; decide
  refine ⟨⟨fun c hc => ?_, fun c hc => ?_, ⟨'L', "ABEL".toList ++ List.replicate (lc - 5) ' ' ++ tdiv ++ padRight "INDEX".toList ic, ?_, by decide, by decide⟩⟩, ?_, ?_⟩
  · simp only [idxHdr, List.mem_append] at hc
    rcases hc with (hc | hc) | hc
    · exact (lineCh_padRight _ _ hL c hc).1
    · exact (lineCh_tdiv c hc).1
    · exact (lineCh_padRight _ _ hI c hc).1
  · simp only [idxHdr, List.mem_append] at hc
    rcases hc with (hc | hc) | hc
    · exact (lineCh_padRight _ _ hL c hc).2
    · exact (lineCh_tdiv c hc).2
    · exact (lineCh_padRight _ _ hI c hc).2
  · simp [idxHdr, padRight]
  · simp [idxHdr, padRight, startsWith]
  · simp [idxHdr, padRight, startsWith]

theorem kept_keepLine {l : Text} (h : Kept l) : keepLine l = true := by
  obtain ⟨c, cs, hl, _, hc⟩ := h.first
  rw [hl]; simp [keepLine, startsWith, hc]

theorem filter_kept (L : List Text) (h : ∀ l ∈ L, Kept l) : L.filter keepLine = L :=
  List.filter_eq_self.mpr (fun l hl => kept_keepLine (h l hl))

/-- what linking and assembling leave in a symbol table, as far as the text format is concerned (no line table) -/
structure SymOk (t : SymTab) : Prop where
  nodebug : t.debug = none
  ne : t.labels ≠ []
  ukeys : UKeys t.labels
  names : ∀ e ∈ t.labels, NameOk e.1
  srcFit : ∀ e ∈ t.labels, e.2.srcStart < 2 ^ 64
  urel : t.rel.Pairwise (fun x y => x.1 ≠ y.1)
  relNames : ∀ e ∈ t.rel, NameOk e.2

theorem symBody_kept (t : SymTab) (h : SymOk t) : ∀ l ∈ symBody t, Kept l ∧ startsWith l '.' = false := by
  intro l hl
  unfold symBody at hl
  split at hl
  · cases hl
  · rcases List.mem_cons.mp hl with rfl | hl
    · exact ⟨symHdr_kept, by decide⟩
    · obtain ⟨e, he, rfl⟩ := List.mem_map.mp hl
      have := symRow_clean e (h.names e ((sortBy_mem _ _ _).mp he))
      exact ⟨this.1.kept, this.2⟩

theorem relBody_kept (t : SymTab) (h : SymOk t) : ∀ l ∈ relBody t, Kept l ∧ startsWith l '.' = false := by
  intro l hl
  unfold relBody at hl
  split at hl
  · cases hl
  · rcases List.mem_cons.mp hl with rfl | hl
    · exact ⟨relHdr_kept, by decide⟩
    · obtain ⟨e, he, rfl⟩ := List.mem_map.mp hl
      have := relRow_clean e (h.relNames e ((sortBy_mem _ _ _).mp he))
      exact ⟨this.1.kept, this.2⟩

theorem idxEntries_mem (t : SymTab) (r : Key × Nat) : r ∈ idxEntries t ↔ ∃ e ∈ t.labels, r = (e.1, e.2.srcStart) := by
  unfold idxEntries
  rw [sortBy_mem, List.mem_map]
  constructor
  · rintro ⟨e, he, rfl⟩; exact ⟨e, he, rfl⟩
  · rintro ⟨e, he, rfl⟩; exact ⟨e, he, rfl⟩

theorem idxBody_kept (t : SymTab) (h : SymOk t) : ∀ l ∈ idxBody t, Kept l ∧ startsWith l '.' = false ∧ startsWith l '=' = false := by
  intro l hl
  unfold idxBody at hl
  split at hl
  · cases hl
  · rcases List.mem_cons.mp hl with rfl | hl
    · exact idxHdr_kept _ _
    · obtain ⟨r, hr, rfl⟩ := List.mem_map.mp hl
      obtain ⟨e, he, rfl⟩ := (idxEntries_mem t r).mp hr
      have := idxRow_clean (idxLc t) (idxIc t) (e.1, e.2.srcStart) (h.names e he)
      exact ⟨this.1.kept, this.2.1, this.2.2⟩

/-- the lines between the first and the last line of a serialized file with symbol table -/
def midLines (bs : List (Nat × List (Option W))) (t : SymTab) : List Text :=
  [] :: textLine :: bs.flatMap blockLines ++ [[]] ++
    (symLine :: symBody t ++ [[]] ++ relLine :: relBody t ++ [[]] ++ dbgLine :: cmtLine :: [] :: idxBody t)

theorem serialize_sym_lines (bs : List (Nat × List (Option W))) (t : SymTab) (hd : t.debug = none) :
    serialize ⟨bs, some t⟩ = (hdrLine :: midLines bs t ++ [divider]).flatMap (· ++ nl) := by
  have e : serialize ⟨bs, some t⟩ = hdrLine ++ nl ++ nl ++ textLine ++ nl ++ bs.flatMap serBlock ++ nl ++ serSym t := rfl
  rw [e, flatMap_serBlock, serSym_lines t hd]
  unfold midLines symPart
  simp only [List.cons_append, List.flatMap_cons, List.flatMap_append, List.flatMap_nil,
    List.nil_append, List.append_nil, List.append_assoc]

theorem blockLines_kept (bs : List (Nat × List (Option W))) (hwf : BlocksWF bs) :
    ∀ l ∈ bs.flatMap blockLines, Kept l ∧ startsWith l '.' = false := by
  intro l hl
  obtain ⟨b, hb, hlb⟩ := List.mem_flatMap.mp hl
  obtain ⟨hne, hp⟩ := blockLine_plain b (hwf.2 b hb).1 l hlb
  refine ⟨(clean_of_plain l hne hp).kept, ?_⟩
  cases l with
  | nil => exact absurd rfl hne
  | cons c cs =>
    have := (hp c (by simp)).facts.2.2.2.2.1
    simp [startsWith, this]

/-- what the reader keeps of a serialized file with symbol table (no line table) -/
theorem kept_of_serialize_sym (bs : List (Nat × List (Option W))) (hwf : BlocksWF bs) (t : SymTab) (h : SymOk t) :
    (((lines (trim (serialize ⟨bs, some t⟩))).filter (fun l => !startsWith l '#')).filter (fun l => !(trim l).isEmpty)) =
      hdrLine :: (textLine :: bs.flatMap blockLines ++ (symLine :: symBody t ++ (relLine :: relBody t ++ (dbgLine :: idxBody t)))) ++ [divider] := by
  rw [serialize_sym_lines bs t h.nodebug, flatMap_nl_inter _ (by simp)]
  have hB := blockLines_kept bs hwf
  have hS := symBody_kept t h
  have hR := relBody_kept t h
  have hI := idxBody_kept t h
  have hM : ∀ l ∈ midLines bs t, l = [] ∨ Kept l ∨ Cmt l := by
    intro l hl
    simp only [midLines, List.cons_append, List.mem_cons, List.mem_append, List.mem_nil_iff, or_false, or_assoc] at hl
    rcases hl with rfl | rfl | hl | rfl | rfl | hl | rfl | rfl | hl | rfl | rfl | rfl | rfl | hl
    · exact Or.inl rfl
    · exact Or.inr (Or.inl textLine_kept)
    · exact Or.inr (Or.inl (hB l hl).1)
    · exact Or.inl rfl
    · exact Or.inr (Or.inl symLine_kept)
    · exact Or.inr (Or.inl (hS l hl).1)
    · exact Or.inl rfl
    · exact Or.inr (Or.inl relLine_kept)
    · exact Or.inr (Or.inl (hR l hl).1)
    · exact Or.inl rfl
    · exact Or.inr (Or.inl dbgLine_kept)
    · exact Or.inr (Or.inr cmtLine_cmt)
    · exact Or.inl rfl
    · exact Or.inr (Or.inl (hI l hl).1)
  have hk := kept_lines2 hdrLine (midLines bs t) divider nl hdr_clean divider_clean hM (by intro c hc; simp [nl] at hc; rw [hc]; decide)
  rw [hk]
  congr 2
  -- the filter
  have k0 : keepLine ([] : Text) = false := rfl
  have kc : keepLine cmtLine = false := by decide
  unfold midLines
  simp only [List.cons_append, List.filter_cons, List.filter_append, k0, kc, Bool.false_eq_true, if_false,
    kept_keepLine textLine_kept, kept_keepLine symLine_kept, kept_keepLine relLine_kept, kept_keepLine dbgLine_kept, if_true,
    filter_kept _ (fun l hl => (hB l hl).1), filter_kept _ (fun l hl => (hS l hl).1), filter_kept _ (fun l hl => (hR l hl).1),
    filter_kept _ (fun l hl => (hI l hl).1), List.nil_append, List.append_assoc]

theorem symLine_eq : symLine = ".SYMBOL".toList := rfl
theorem relLine_eq : relLine = ".LINKER_INFO".toList := rfl
theorem dbgLine_eq : dbgLine = ".DEBUG".toList := rfl

/-- the `.TEXT` group -/
theorem read_text (bs : List (Nat × List (Option W))) (hwf : BlocksWF bs) :
    readGroup {} (textLine :: bs.flatMap blockLines) = some { blocks := bs } := by
  unfold readGroup
  have : textLine = ".TEXT".toList := textLine_eq
  simp only [this, if_true]
  rw [readText_blocks bs _ [] (by have := blocks_le_lines bs; omega) hwf (by intro x hx; cases hx)]
  rfl

def stripSrc (e : Key × SymData) : Key × SymData := (e.1, ⟨e.2.addr, 0, e.2.ext⟩)

/-- the `.SYMBOL` group -/
theorem read_sym (st : RdSt) (hst : st.labels = []) (t : SymTab) (h : SymOk t) :
    readGroup st (symLine :: symBody t) = some ⟨st.blocks, (sortBy symLt t.labels).map stripSrc, st.rel, st.debug⟩ := by
  have hne : t.labels.isEmpty = false := by
    cases hl : t.labels with
    | nil => exact absurd hl h.ne
    | cons _ _ => rfl
  have hb : symBody t = symHdr :: (sortBy symLt t.labels).map symRow := by unfold symBody; rw [hne]; rfl
  have hk : ∀ e ∈ sortBy symLt t.labels, Ends e.1 := fun e he => (h.names e ((sortBy_mem _ _ _).mp he)).ends
  have htab := symTable (sortBy symLt t.labels) hk
  have hu : UKeys (sortBy symLt t.labels) := sortBy_pairwise _ _ _ (fun hxy => by rw [← hxy]; exact BEq.comm) h.ukeys
  have hfold := symFold (sortBy symLt t.labels) hu [] (by intro a ha; cases ha)
  have e1 : ¬ (symLine = ".TEXT".toList) := by decide
  have e2 : symLine = ".SYMBOL".toList := rfl
  unfold readGroup
  simp only []
  rw [if_neg e1, if_pos e2, hb]
  erw [htab]
  simp only [Option.map_some, hst]
  rw [hfold]
  rfl

/-- the `.LINKER_INFO` group -/
theorem read_rel (st : RdSt) (hst : st.rel = []) (t : SymTab) (h : SymOk t) :
    readGroup st (relLine :: relBody t) = some ⟨st.blocks, st.labels, sortBy relLt t.rel, st.debug⟩ := by
  have e1 : ¬ (relLine = ".TEXT".toList) := by decide
  have e2 : ¬ (relLine = ".SYMBOL".toList) := by decide
  have e3 : relLine = ".LINKER_INFO".toList := rfl
  have hu : (sortBy relLt t.rel).Pairwise (fun x y => x.1 ≠ y.1) := sortBy_pairwise _ _ _ (fun hxy => hxy.symm) h.urel
  have hfold : (sortBy relLt t.rel).foldl (fun m (r : W × Text) => relSet m r.1 r.2) [] = sortBy relLt t.rel := by
    have := relMerge_append (sortBy relLt t.rel) [] hu (by intro x hx; cases hx)
    simpa [relSet] using this
  unfold readGroup
  simp only []
  rw [if_neg e1, if_neg e2, if_pos e3]
  by_cases hr : t.rel.isEmpty = true
  · have hb : relBody t = [] := by unfold relBody; rw [hr]; rfl
    have hs : sortBy relLt t.rel = [] := by
      have : t.rel = [] := by simpa using hr
      rw [this]; rfl
    rw [hb, hs]
    simp only [parseTable, Option.map_some, List.foldl_nil, hst]
  · have hr' : t.rel.isEmpty = false := by simpa using hr
    have hb : relBody t = relHdr :: (sortBy relLt t.rel).map relRow := by unfold relBody; rw [hr']; rfl
    have hk : ∀ e ∈ sortBy relLt t.rel, Ends e.2 := fun e he => (h.relNames e ((sortBy_mem _ _ _).mp he)).ends
    have htab := relTable (sortBy relLt t.rel) hk
    rw [hb]
    erw [htab]
    simp only [Option.map_some, hst, hfold]

theorem idxHdr_ok (lc ic : Nat) : parseHeader (idxHdr lc ic) idxCols = true := by
  have hL : NoBar "LABEL".toList := by unfold NoBar; decide
  have eL : Ends "LABEL".toList := ⟨⟨'L', "ABEL".toList, by decide, by decide⟩, ⟨"LABE".toList, 'L', by decide, by decide⟩⟩
  have eI : Ends "INDEX".toList := ⟨⟨'I', "NDEX".toList, by decide, by decide⟩, ⟨"INDE".toList, 'X', by decide, by decide⟩⟩
  have s : splitN 2 (idxHdr lc ic) [] = [padRight "LABEL".toList lc, padRight "INDEX".toList ic] := by
    unfold idxHdr
    rw [splitN_seg 0 _ _ (padRight_nobar _ _ hL), splitN_one]; simp
  unfold parseHeader
  have hlen : idxCols.length = 2 := rfl
  rw [hlen, s]
  simp only [List.map_cons, List.map_nil, trim_padRight _ _ eL, trim_padRight _ _ eI]
  decide

theorem idxTable (lc ic : Nat) (es : List (Key × Nat)) (hk : ∀ e ∈ es, NameOk e.1 ∧ e.2 < 2 ^ 64) :
    parseTable (idxHdr lc ic :: es.map (idxRow lc ic)) idxCols idxRowFn true = some es := by
  have := parseTable_rows idxCols (idxHdr lc ic) (idxHdr_ok lc ic) idxRowFn (idxRow lc ic) id es (by
    intro b hb i
    show idxRowFn ((rowSegs 2 (idxRow lc ic b)).map trim) i = _
    rw [idxRow_segs lc ic b (hk b hb).1]
    have hp : parseUInt 18446744073709551615 (natDigits b.2) = some b.2 :=
      C18.decimal_field_roundtrip _ _ (by have := (hk b hb).2; omega) (by decide)
    simp only [idxRowFn, hp]; rfl)
  simpa using this

theorem findIdx_last {α} (p : α → Bool) (z : α) (hz : p z = true) : ∀ (L : List α), (∀ l ∈ L, p l = false) →
    (L ++ [z]).findIdx? p = some L.length := by
  intro L
  induction L with
  | nil => intro _; simp [List.findIdx?_cons, hz]
  | cons x xs ih =>
    intro h
    simp only [List.cons_append, List.findIdx?_cons, h x (by simp), Bool.false_eq_true, if_false]
    rw [ih (fun l hl => h l (by simp [hl]))]
    simp

theorem find_unique (es : List (Key × Nat)) (hu : es.Pairwise (fun x y => (x.1 == y.1) = false)) :
    ∀ r ∈ es, es.find? (fun x => x.1 == r.1) = some r := by
  induction es with
  | nil => intro r hr; cases hr
  | cons x xs ih =>
    intro r hr
    have hpc := List.pairwise_cons.mp hu
    rcases List.mem_cons.mp hr with rfl | hr'
    · simp
    · have : (x.1 == r.1) = false := hpc.1 r hr'
      simp only [List.find?_cons, this]
      exact ih hpc.2 r hr'

theorem idxEntries_ukeys (t : SymTab) (h : UKeys t.labels) : (idxEntries t).Pairwise (fun x y => (x.1 == y.1) = false) := by
  unfold idxEntries
  apply sortBy_pairwise _ _ _ (fun hxy => by rw [← hxy]; exact BEq.comm)
  exact List.pairwise_map.mpr h

/-- the index table puts every source position back -/
theorem restore_src (t : SymTab) (h : SymOk t) :
    ((sortBy symLt t.labels).map stripSrc).map (updSrc (idxEntries t)) = sortBy symLt t.labels := by
  rw [List.map_map]
  have : ∀ e ∈ sortBy symLt t.labels, (updSrc (idxEntries t) ∘ stripSrc) e = e := by
    intro e he
    have hm : e ∈ t.labels := (sortBy_mem _ _ _).mp he
    have hin : (e.1, e.2.srcStart) ∈ idxEntries t := (idxEntries_mem t _).mpr ⟨e, hm, rfl⟩
    have hf := find_unique (idxEntries t) (idxEntries_ukeys t h.ukeys) _ hin
    simp only [Function.comp, updSrc, stripSrc, hf]
  rw [List.map_congr_left this]; simp

/-- the `.DEBUG` group without line table -/
theorem read_dbg (st : RdSt) (t : SymTab) (h : SymOk t) (hst : st.labels = (sortBy symLt t.labels).map stripSrc) :
    readGroup st (dbgLine :: (idxBody t ++ [divider])) = some ⟨st.blocks, sortBy symLt t.labels, st.rel, st.debug⟩ := by
  have hne : t.labels.isEmpty = false := by
    cases hl : t.labels with
    | nil => exact absurd hl h.ne
    | cons _ _ => rfl
  have hb : idxBody t = idxHdr (idxLc t) (idxIc t) :: (idxEntries t).map (idxRow (idxLc t) (idxIc t)) := by
    unfold idxBody; rw [hne]; rfl
  have e1 : ¬ (dbgLine = ".TEXT".toList) := by decide
  have e2 : ¬ (dbgLine = ".SYMBOL".toList) := by decide
  have e3 : ¬ (dbgLine = ".LINKER_INFO".toList) := by decide
  have e4 : dbgLine = ".DEBUG".toList := rfl
  have hI := idxBody_kept t h
  have hfi : (idxBody t ++ [divider]).findIdx? (fun l => startsWith l '=') = some (idxBody t).length :=
    findIdx_last _ divider (by decide) _ (fun l hl => (hI l hl).2.2)
  have hlast : (idxBody t ++ [divider]).getLast? = some divider := by simp
  have hne2 : (idxBody t ++ [divider]).isEmpty = false := by simp
  have hk : ∀ e ∈ idxEntries t, NameOk e.1 ∧ e.2 < 2 ^ 64 := by
    intro r hr
    obtain ⟨e, he, rfl⟩ := (idxEntries_mem t r).mp hr
    exact ⟨h.names e he, h.srcFit e he⟩
  have htab := idxTable (idxLc t) (idxIc t) (idxEntries t) hk
  rw [← hb] at htab
  have hfold := idxFold (idxEntries t) ((sortBy symLt t.labels).map stripSrc) (idxEntries_ukeys t h.ukeys) (by
    intro r hr
    obtain ⟨e, he, rfl⟩ := (idxEntries_mem t r).mp hr
    exact ⟨stripSrc e, List.mem_map_of_mem ((sortBy_mem _ _ _).mpr he), rfl⟩)
  rw [restore_src t h] at hfold
  unfold readGroup
  simp only []
  rw [if_neg e1, if_neg e2, if_neg e3, if_pos e4]
  simp only [hne2, Bool.false_eq_true, if_false, hfi, hlast]
  have hsd : startsWith divider '=' = true := by decide
  simp only [hsd, Bool.not_true, Bool.false_eq_true, if_false, List.take_left', List.drop_left', List.length_singleton]
  erw [htab]
  have h12 : ¬ (1 ≥ 2) := by omega
  simp only [h12, if_false, parseTable, List.isEmpty_nil, if_true, hst, hfold]

/-- **files with a symbol table round-trip through the text format** (no line table): every block list as the assembler
    and the linker produce it, every symbol table with unique well-formed names — read back, the blocks are the same and
    the label and relocation tables are the same tables in the writer's canonical row order -/
theorem sym_section_roundtrip (bs : List (Nat × List (Option W))) (hwf : BlocksWF bs) (t : SymTab) (h : SymOk t) :
    deserialize (serialize ⟨bs, some t⟩) = some ⟨bs, some ⟨sortBy symLt t.labels, sortBy relLt t.rel, none⟩⟩ := by
  have hk := kept_of_serialize_sym bs hwf t h
  have hB := blockLines_kept bs hwf
  have hS := symBody_kept t h
  have hR := relBody_kept t h
  have hI := idxBody_kept t h
  -- the groups
  have hg : groupLines (textLine :: bs.flatMap blockLines ++ (symLine :: symBody t ++ (relLine :: relBody t ++ (dbgLine :: idxBody t))) ++ [divider]) [] =
      some [textLine :: bs.flatMap blockLines, symLine :: symBody t, relLine :: relBody t, dbgLine :: (idxBody t ++ [divider])] := by
    have := groupLines_groups [(textLine, bs.flatMap blockLines), (symLine, symBody t), (relLine, relBody t), (dbgLine, idxBody t ++ [divider])] [] (by
      intro g hg
      simp only [List.mem_cons, List.mem_nil_iff, or_false] at hg
      rcases hg with rfl | rfl | rfl | rfl
      · exact ⟨rfl, fun l hl => (hB l hl).2⟩
      · exact ⟨(by decide : startsWith symLine '.' = true), fun l hl => (hS l hl).2⟩
      · exact ⟨(by decide : startsWith relLine '.' = true), fun l hl => (hR l hl).2⟩
      · refine ⟨(by decide : startsWith dbgLine '.' = true), fun l hl => ?_⟩
        rcases List.mem_append.mp hl with hl | hl
        · exact (hI l hl).2.1
        · simp only [List.mem_singleton] at hl; rw [hl]; decide)
    simp only [List.flatMap_cons, List.flatMap_nil, List.append_nil, List.map_cons, List.map_nil, List.reverse_nil, List.nil_append,
      List.cons_append, List.append_assoc] at this ⊢
    exact this
  have r1 := read_text bs hwf
  have r2 := read_sym { blocks := bs } rfl t h
  have r3 := read_rel ⟨bs, (sortBy symLt t.labels).map stripSrc, [], none⟩ rfl t h
  have r4 := read_dbg ⟨bs, (sortBy symLt t.labels).map stripSrc, sortBy relLt t.rel, none⟩ t h rfl
  have hne : (sortBy symLt t.labels).isEmpty = false := by
    cases hs : sortBy symLt t.labels with
    | nil => exact absurd ((sortBy_nil_iff _ _).mp hs) h.ne
    | cons _ _ => rfl
  unfold deserialize
  simp only [hk]
  have : hdrLine = "LC-3 OBJ FILE".toList := hdrLine_eq
  simp only [List.cons_append, this, ne_eq, not_true_eq_false, if_false]
  have hg' := hg
  simp only [List.cons_append] at hg'
  simp only [hg', Option.bind_eq_bind, Option.bind_some, List.foldlM_cons, List.foldlM_nil, r1, r2, r3, r4,
    Option.pure_def, hne, Bool.not_false, Bool.true_or, if_true]

/-! ### non-vacuity -/

def firstOk (k : Text) : Bool := match k with | c :: _ => c != '#' && c != '.' && c != '=' | [] => false

theorem nameOk_of (k : Text) (h1 : k ≠ []) (h2 : k.all (fun c => !rustWs c && c != '|') = true) (h3 : firstOk k = true) : NameOk k := by
  refine ⟨h1, fun c hc => ?_, fun c hc => ?_, fun c cs hk => ?_⟩
  · have := List.all_eq_true.mp h2 c hc; simp at this; exact this.1
  · have := List.all_eq_true.mp h2 c hc; simp at this; exact this.2
  · subst hk; simp [firstOk] at h3; exact ⟨h3.1.1, h3.1.2, h3.2⟩

/-- non-vacuity: a table with a defined label, an external one and a relocation entry meets `SymOk` -/
example : SymOk ⟨[(['A', 'B'], ⟨0x3000, 4, false⟩), (['X'], ⟨0, 9, true⟩)], [(0x3001, ['X'])], none⟩ := by
  have hA : NameOk ['A', 'B'] := nameOk_of _ (by simp) (by decide) (by decide)
  have hX : NameOk ['X'] := nameOk_of _ (by simp) (by decide) (by decide)
  refine ⟨rfl, by simp, ?_, ?_, ?_, ?_, ?_⟩
  · unfold UKeys; simp
  · intro e he; simp at he; rcases he with rfl | rfl <;> assumption
  · intro e he; simp at he; rcases he with rfl | rfl <;> simp
  · simp
  · intro e he; simp at he; subst he; exact hX

end Lc3V.Txt
