/- Lemmas/UserFrame.lean — what a user-mode machine can change: a frame calculus over the state monad. -/
import Lc3V.Lemmas.SimM
import Lc3V.Lemmas.Psr
set_option linter.unusedSimpArgs false
set_option linter.unusedVariables false
namespace Lc3V
open Sim SimM

/-- `s` is a user-mode state reached from the user-mode state `s0` without touching anything outside user space:
    same flags, still unprivileged, memory outside x3000–xFDFF unchanged, devices, internal-register map, saved stack
    pointer and MCR unchanged, and every access logged since `s0` was made without privilege and, if it was performed,
    lies in user space -/
structure UFrame (s0 s : Sim) : Prop where
  flags : s.flags = s0.flags
  user : PSR.privileged s.psr = false
  nopriv : s.flags.ignorePriv = false
  mem : ∀ a, inUser a = false → s.memAt a = s0.memAt a
  dev : s.dev = s0.dev
  iregs : s.iregs = s0.iregs
  savedSp : s.savedSp = s0.savedSp
  mcr : s.mcr = s0.mcr
  log : ∃ new, s.log = new ++ s0.log ∧ ∀ x ∈ new, x.privileged = false ∧ (x.performed = true → inUser x.addr = true)

theorem UFrame.refl (s : Sim) (hu : PSR.privileged s.psr = false) (hi : s.flags.ignorePriv = false) : UFrame s s :=
  ⟨rfl, hu, hi, fun _ _ => rfl, rfl, rfl, rfl, rfl, ⟨[], rfl, fun x hx => by cases hx⟩⟩

theorem UFrame.ctx {s0 s : Sim} (h : UFrame s0 s) : s.defaultCtx.privileged = false := by
  simp [defaultCtx, h.user, h.nopriv]

/-- a state that differs from `s` only in registers, PC, condition codes / priority, frames, counters, observer -/
theorem UFrame.congr {s0 s s' : Sim} (h : UFrame s0 s) (hf : s'.flags = s.flags) (hp : PSR.privileged s'.psr = PSR.privileged s.psr)
    (hm : s'.mem = s.mem) (hd : s'.dev = s.dev) (hi : s'.iregs = s.iregs) (hsp : s'.savedSp = s.savedSp) (hmcr : s'.mcr = s.mcr)
    (hlog : s'.log = s.log) : UFrame s0 s' := by
  refine ⟨hf.trans h.flags, hp.trans h.user, by rw [hf]; exact h.nopriv, fun a ha => ?_, hd.trans h.dev, hi.trans h.iregs,
    hsp.trans h.savedSp, hmcr.trans h.mcr, by rw [hlog]; exact h.log⟩
  have := h.mem a ha
  unfold Sim.memAt at *
  simp only [hm]; exact this

def UTri {α} (m : SimM α) : Prop := ∀ s0 s, UFrame s0 s → UFrame s0 (m s).2

theorem UTri.bind {α β} {m : SimM α} {f : α → SimM β} (h : UTri m) (hf : ∀ a, UTri (f a)) : UTri (m >>= f) := by
  intro s0 s hs
  have h1 := h s0 s hs
  simp only [SimM.bind_apply]
  rcases hm : m s with ⟨r, s'⟩
  rw [hm] at h1
  cases r with
  | ok a => exact hf a s0 s' h1
  | error e => exact h1

theorem UTri.pure {α} (a : α) : UTri (Pure.pure a : SimM α) := fun _ _ h => h
theorem UTri.throwB {α} (b : StepBreak) : UTri (SimM.throwB b : SimM α) := fun _ _ h => h
theorem UTri.throwErr {α} (e : SimErr) : UTri (SimM.throwErr e : SimM α) := fun _ _ h => h
theorem UTri.liftE {α} (x : Except SimErr α) : UTri (SimM.liftE x) := by
  intro s0 s h; cases x <;> exact h

theorem UTri.getS {β} {f : Sim → SimM β} (h : ∀ s0 s, UFrame s0 s → UFrame s0 (f s s).2) : UTri (SimM.getS >>= f) := by
  intro s0 s hs
  simp only [SimM.bind_apply, SimM.getS_apply]
  exact h s0 s hs

theorem UTri.modify (f : Sim → Sim) (h : ∀ s0 s, UFrame s0 s → UFrame s0 (f s)) : UTri (modifyS f) := fun s0 s hs => h s0 s hs

theorem UTri.ite {α} (c : Prop) [Decidable c] {a b : SimM α} (ha : UTri a) (hb : UTri b) : UTri (if c then a else b) := by
  by_cases h : c <;> simp only [h, if_true, if_false] <;> assumption

theorem inUser_not_io (a : W) (h : inUser a = true) : ¬ IO_START ≤ a.toNat := by
  simp [inUser, IO_START] at *
  omega

/-- an unprivileged `read_mem`: rejected outside user space, otherwise a plain memory read; either way one log entry -/
theorem Sim.readMem_user (a : W) (c : Ctx) (s : Sim) (hc : c.privileged = false) :
    (readMem a c s).2.flags = s.flags ∧ (readMem a c s).2.psr = s.psr ∧ (readMem a c s).2.mem = s.mem ∧
    (readMem a c s).2.dev = s.dev ∧ (readMem a c s).2.iregs = s.iregs ∧ (readMem a c s).2.savedSp = s.savedSp ∧
    (readMem a c s).2.mcr = s.mcr ∧ (readMem a c s).2.log = ⟨a, false, false, inUser a⟩ :: s.log := by
  unfold readMem
  by_cases hu : inUser a = true
  · have hio := inUser_not_io a hu
    by_cases ht : c.track = true <;> simp [hc, hu, hio, ht]
  · have hu' : inUser a = false := by simpa using hu
    simp [hc, hu']

theorem UTri.readMem (a : W) (c : Ctx) (hc : c.privileged = false) : UTri (Sim.readMem a c) := by
  intro s0 s hs
  obtain ⟨h1, h2, h3, h4, h5, h6, h7, h8⟩ := Sim.readMem_user a c s hc
  have hb := hs.congr (s' := { (Sim.readMem a c s).2 with log := s.log }) h1 (by rw [← h2]) h3 h4 h5 h6 h7 rfl
  obtain ⟨new, hn1, hn2⟩ := hs.log
  refine ⟨hb.flags, hb.user, hb.nopriv, hb.mem, hb.dev, hb.iregs, hb.savedSp, hb.mcr, ⟨⟨a, false, false, inUser a⟩ :: new, ?_, ?_⟩⟩
  · rw [h8, hn1]; rfl
  · intro x hx
    rcases List.mem_cons.mp hx with rfl | hx
    · exact ⟨rfl, fun h => h⟩
    · exact hn2 x hx

/-- an unprivileged `write_mem`: rejected outside user space, otherwise a store to that one user-space cell (or, under
    strict mode, a strict error); devices and internal registers are never reached -/
theorem Sim.writeMem_user (a : W) (d : Word) (c : Ctx) (s : Sim) (hc : c.privileged = false) :
    (Sim.writeMem a d c s).2.flags = s.flags ∧ (Sim.writeMem a d c s).2.psr = s.psr ∧
    ((Sim.writeMem a d c s).2.mem = s.mem ∨ (inUser a = true ∧ (Sim.writeMem a d c s).2.mem = (s.setMem a d).mem)) ∧
    (Sim.writeMem a d c s).2.dev = s.dev ∧ (Sim.writeMem a d c s).2.iregs = s.iregs ∧ (Sim.writeMem a d c s).2.savedSp = s.savedSp ∧
    (Sim.writeMem a d c s).2.mcr = s.mcr ∧ (Sim.writeMem a d c s).2.log = ⟨a, true, false, inUser a⟩ :: s.log := by
  unfold Sim.writeMem ioWritePart storePart
  by_cases hu : inUser a = true
  · have hio := inUser_not_io a hu
    by_cases ht : c.track = true <;> by_cases hst : c.strict = true <;> by_cases hi : d.isInit = true <;>
      simp [hc, hu, hio, ht, hst, hi, Word.setIfInit, Sim.setMem]
  · have hu' : inUser a = false := by simpa using hu
    simp [hc, hu']

theorem UTri.writeMem (a : W) (d : Word) (c : Ctx) (hc : c.privileged = false) : UTri (Sim.writeMem a d c) := by
  intro s0 s hs
  obtain ⟨h1, h2, h3, h4, h5, h6, h7, h8⟩ := Sim.writeMem_user a d c s hc
  obtain ⟨new, hn1, hn2⟩ := hs.log
  refine ⟨h1.trans hs.flags, by rw [h2]; exact hs.user, by rw [h1]; exact hs.nopriv, fun x hx => ?_, h4.trans hs.dev, h5.trans hs.iregs,
    h6.trans hs.savedSp, h7.trans hs.mcr, ⟨⟨a, true, false, inUser a⟩ :: new, ?_, ?_⟩⟩
  · rcases h3 with h3 | ⟨hu, h3⟩
    · have := hs.mem x hx
      unfold Sim.memAt at *; simp only [h3]; exact this
    · have h9 : (Sim.writeMem a d c s).2.memAt x = (s.setMem a d).memAt x := by unfold Sim.memAt; simp only [h3]
      rw [h9, Sim.memAt_setMem]
      have hne : a ≠ x := by intro e; rw [e] at hu; rw [hu] at hx; cases hx
      simp only [hne, if_false]
      exact hs.mem x hx
  · rw [h8, hn1]; rfl
  · intro x hx
    rcases List.mem_cons.mp hx with rfl | hx
    · exact ⟨rfl, fun h => h⟩
    · exact hn2 x hx

macro "ufr_same" : tactic => `(tactic| (refine UTri.modify _ ?_; intro s0 s hs; exact hs.congr rfl (by first | rfl | simp [Sim.setCCOf]) rfl rfl rfl rfl rfl rfl))

theorem UTri.setPc (w : Word) (chk : Bool) : UTri (Sim.setPc w chk) := by
  intro s0 s hs
  unfold Sim.setPc
  simp only [SimM.bind_apply, SimM.getS_apply]
  cases hg : w.getIfInit s.flags.strict SimErr.strictJmpAddrUninit with
  | error e => simpa using hs
  | ok addr =>
    simp only [SimM.liftE_ok]
    by_cases h1 : (s.flags.strict && chk) = true
    · by_cases h2 : (!(s.memAt addr).isInit) = true
      · simpa [h1, h2] using hs
      · simp only [h1, h2, if_true, if_false, Bool.false_eq_true, SimM.bind_apply, SimM.pure_apply, SimM.modifyS_apply]
        exact hs.congr rfl rfl rfl rfl rfl rfl rfl rfl
    · simp only [h1, if_false, Bool.false_eq_true, SimM.bind_apply, SimM.pure_apply, SimM.modifyS_apply]
      exact hs.congr rfl rfl rfl rfl rfl rfl rfl rfl

theorem UTri.offsetPc (off : W) (chk : Bool) : UTri (Sim.offsetPc off chk) := by
  unfold Sim.offsetPc
  apply UTri.getS
  intro s0 s hs
  exact UTri.setPc _ _ s0 s hs

theorem UTri.setRegIfInit (r : Reg) (v : Word) (b : Bool) : UTri (Sim.setRegIfInit r v b) := by
  intro s0 s hs
  unfold Sim.setRegIfInit
  simp only [SimM.bind_apply, SimM.getS_apply]
  cases hg : (s.reg r).setIfInit v b SimErr.strictRegSetUninit with
  | error e => simpa using hs
  | ok w =>
    simp only [SimM.liftE_ok, SimM.modifyS_apply]
    exact hs.congr rfl rfl rfl rfl rfl rfl rfl rfl

theorem UTri.callSubroutine (addr : W) : UTri (Sim.callSubroutine addr) := by
  unfold Sim.callSubroutine
  refine UTri.bind ?_ (fun _ => UTri.bind ?_ (fun _ => UTri.setPc _ _))
  · ufr_same
  · ufr_same

end Lc3V
