/- Lemmas/UserStep.lean — a user-mode step that is not a TRAP and takes no interrupt stays inside the user frame. -/
import Lc3V.Lemmas.UserFrame
import Lc3V.Lemmas.InitMem
set_option linter.unusedSimpArgs false
set_option linter.unusedVariables false
namespace Lc3V
open Sim SimM

def SimInstr.isTrap : SimInstr → Bool
  | .trap _ => true
  | _ => false

theorem UTri.execInstr (i : SimInstr) (hi : i.isTrap = false) : UTri (Sim.execInstr i) := by
  cases i with
  | trap v => cases hi
  | br cc off =>
    simp only [Sim.execInstr]
    apply UTri.getS; intro s0 s hs
    exact (UTri.ite _ (UTri.offsetPc _ _) (UTri.pure _)) s0 s hs
  | add dr sr1 sr2 =>
    simp only [Sim.execInstr]
    apply UTri.getS; intro s0 s hs
    refine (UTri.bind (UTri.setRegIfInit _ _ _) (fun _ => ?_)) s0 s hs
    ufr_same
  | and dr sr1 sr2 =>
    simp only [Sim.execInstr]
    apply UTri.getS; intro s0 s hs
    refine (UTri.bind (UTri.setRegIfInit _ _ _) (fun _ => ?_)) s0 s hs
    ufr_same
  | not dr sr =>
    simp only [Sim.execInstr]
    apply UTri.getS; intro s0 s hs
    refine (UTri.bind (UTri.setRegIfInit _ _ _) (fun _ => ?_)) s0 s hs
    ufr_same
  | ld dr off =>
    simp only [Sim.execInstr]
    apply UTri.getS; intro s0 s hs
    refine (UTri.bind (UTri.readMem _ _ hs.ctx) (fun v => UTri.bind (UTri.setRegIfInit _ _ _) (fun _ => ?_))) s0 s hs
    ufr_same
  | ldr dr b off =>
    simp only [Sim.execInstr]
    apply UTri.getS; intro s0 s hs
    refine (UTri.bind (UTri.liftE _) (fun base =>
      UTri.bind (UTri.readMem _ _ hs.ctx) (fun v => UTri.bind (UTri.setRegIfInit _ _ _) (fun _ => ?_)))) s0 s hs
    ufr_same
  | ldi dr off =>
    simp only [Sim.execInstr]
    apply UTri.getS; intro s0 s hs
    refine (UTri.bind (UTri.readMem _ _ hs.ctx) (fun pw => UTri.bind (UTri.liftE _) (fun ea => ?_))) s0 s hs
    apply UTri.getS; intro s0' s2 hs2
    refine (UTri.bind (UTri.readMem _ _ hs2.ctx) (fun v => UTri.bind (UTri.setRegIfInit _ _ _) (fun _ => ?_))) s0' s2 hs2
    ufr_same
  | st sr off =>
    simp only [Sim.execInstr]
    apply UTri.getS; intro s0 s hs
    exact UTri.writeMem _ _ _ (by exact hs.ctx) s0 s hs
  | str sr b off =>
    simp only [Sim.execInstr]
    apply UTri.getS; intro s0 s hs
    exact (UTri.bind (UTri.liftE _) (fun base => UTri.writeMem _ _ _ (by exact hs.ctx))) s0 s hs
  | sti sr off =>
    simp only [Sim.execInstr]
    apply UTri.getS; intro s0 s hs
    refine (UTri.bind (UTri.readMem _ _ hs.ctx) (fun pw => UTri.bind (UTri.liftE _) (fun ea => ?_))) s0 s hs
    apply UTri.getS; intro s0' s2 hs2
    exact UTri.writeMem _ _ _ (by exact hs2.ctx) s0' s2 hs2
  | jsr op =>
    simp only [Sim.execInstr]
    apply UTri.getS; intro s0 s hs
    exact (UTri.bind (UTri.liftE _) (fun addr => UTri.callSubroutine addr)) s0 s hs
  | jmp b =>
    simp only [Sim.execInstr]
    apply UTri.getS; intro s0 s hs
    refine (UTri.bind (UTri.setPc _ _) (fun _ => UTri.ite _ ?_ (UTri.pure _))) s0 s hs
    ufr_same
  | lea dr off =>
    simp only [Sim.execInstr]
    apply UTri.getS; intro s0 s hs
    refine UTri.modify _ ?_ s0 s hs
    intro s0 s1 hs1
    exact hs1.congr rfl rfl rfl rfl rfl rfl rfl rfl
  | rti =>
    simp only [Sim.execInstr]
    apply UTri.getS; intro s0 s hs
    have : (PSR.privileged s.psr || s.flags.ignorePriv) = false := by simp [hs.user, hs.nopriv]
    simp only [this, Bool.false_eq_true, if_false]
    exact UTri.throwErr _ s0 s hs

/-- the execute part of `fetchExec` after a successful fetch of `word` -/
theorem UTri.afterFetch (word : W) (hnt : ∀ i, SimInstr.decode word = .ok i → i.isTrap = false) :
    UTri (do
      let instr ← SimM.liftE ((SimInstr.decode word).mapError decodeErr)
      Sim.offsetPc 1 false
      modifyS (fun s => { s with prefetch := false })
      Sim.execInstr instr
      modifyS countInstr) := by
  cases hd : SimInstr.decode word with
  | error e =>
    intro s0 s hs
    simpa [Except.mapError] using hs
  | ok instr =>
    have hi := hnt instr hd
    intro s0 s hs
    show UFrame s0 ((Sim.offsetPc 1 false >>= fun _ => modifyS (fun s => { s with prefetch := false }) >>= fun _ =>
      Sim.execInstr instr >>= fun _ => modifyS countInstr) s).2
    refine (UTri.bind (UTri.offsetPc _ _) (fun _ => UTri.bind ?_ (fun _ => UTri.bind (UTri.execInstr instr hi) (fun _ => ?_)))) s0 s hs
    · ufr_same
    · ufr_same

/-- **a user-mode fetch–execute that is not a TRAP stays in the user frame**: starting in user mode with privilege checks on,
    if the word at the PC is not a TRAP instruction, then after `fetchExec` — whether it succeeded or failed — the machine is
    still in user mode, memory outside x3000–xFDFF, the devices, the internal-register map, the saved stack pointer and the
    MCR are unchanged, and every access made was unprivileged and, if performed, in user space -/
theorem fetchExec_user_frame (s : Sim) (hu : PSR.privileged s.psr = false) (hi : s.flags.ignorePriv = false)
    (hnt : ∀ i, SimInstr.decode (s.memAt s.pc).data = .ok i → i.isTrap = false) : UFrame s (Sim.fetchExec s).2 := by
  have hs := UFrame.refl s hu hi
  unfold Sim.fetchExec
  simp only [SimM.bind_apply, SimM.getS_apply]
  have hr := UTri.readMem s.pc s.defaultCtx hs.ctx s s hs
  obtain ⟨_, _, _, h4, _⟩ := Sim.readMem_effect s.pc s.defaultCtx s
  obtain ⟨_, _, hmem, _⟩ := Sim.readMem_user s.pc s.defaultCtx s hs.ctx
  rcases hrd : Sim.readMem s.pc s.defaultCtx s with ⟨r, s1⟩
  rw [hrd] at hr h4 hmem
  cases r with
  | error e => exact hr
  | ok w =>
    have hw : w = s.memAt s.pc := by
      rw [h4 w rfl]; unfold Sim.memAt; simp only at hmem; simp only [hmem]
    simp only
    cases hg : w.getIfInit s.flags.strict SimErr.strictPCCurrUninit with
    | error e => simpa using hr
    | ok word =>
      have hword : word = (s.memAt s.pc).data := by
        unfold Word.getIfInit at hg
        split at hg
        · cases hg; rw [hw]
        · cases hg
      simp only [SimM.liftE_ok]
      exact UTri.afterFetch word (by rw [hword]; exact hnt) s s1 hr

end Lc3V
