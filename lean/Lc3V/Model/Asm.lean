/-
  Model/Asm.lean — /repo/src/asm.rs: `SymbolTable::new` (pass 1), `ObjectFile::new` (pass 2), `LineSymbolMap`,
  the symbol-table queries, `ObjectFile::link`, `DebugSymbols::link`, after the fixes F5–F16.

  Maps: `HashMap<String, SymbolData>` is an association list with unique keys in insertion order (the iteration order of
  the Rust map is unspecified; every consumer of the model sorts or is order-insensitive, see the notes at `revLookup`
  and `link`); `BTreeMap`s are association lists sorted by key.
-/
import Lc3V.Model.Ast
import Lc3V.Model.Offset
namespace Lc3V

abbrev Key := List Char
abbrev Span := Nat × Nat

structure SymData where
  addr : W
  srcStart : Nat
  ext : Bool
  deriving Repr, DecidableEq

/-- `SymbolData::span(label)`: starts at `src_start`, as long as the *given* text (in bytes) -/
def SymData.span (d : SymData) (label : Key) : Span := (d.srcStart, d.srcStart + blen label)

inductive AsmErrKind where
  | undetAddrLabel | undetAddrStmt | unclosedOrig | unopenedOrig | overlappingOrig | overlappingLabels
  | wrappingBlock | blockInIO | overlappingBlocks
  | offsetNewErr (e : OffsetNewErr)
  | offsetExternal | couldNotFindLabel
  deriving Repr, DecidableEq

structure AsmErr where
  kind : AsmErrKind
  spans : List Span
  deriving Repr, DecidableEq

abbrev ARes (α : Type) := Except AsmErr α

/-! ### LineSymbolMap -/

/-- sorted association list: first line of a block ↦ addresses of the consecutive lines -/
abbrev LineMap := List (Nat × List W)

def insertSortedBy {α} (k : Nat) (v : α) : List (Nat × α) → List (Nat × α)
  | [] => [(k, v)]
  | (k', v') :: rest =>
    if k < k' then (k, v) :: (k', v') :: rest
    else if k = k' then (k, v) :: rest
    else (k', v') :: insertSortedBy k v rest

/-- the run-length condensation of `LineSymbolMap::new`: a run still open at the end of the vector is dropped -/
def condenseLines : List (Option W) → Nat → Option (List W) → List (Nat × List W) → List (Nat × List W)
  | [], _, _, acc => acc.reverse
  | some a :: rest, i, cur, acc => condenseLines rest (i + 1) (some ((cur.getD []) ++ [a])) acc
  | none :: rest, i, some bl, acc => condenseLines rest (i + 1) none ((i - bl.length, bl) :: acc)
  | none :: rest, i, none, acc => condenseLines rest (i + 1) none acc

def sortedLE : List W → Bool
  | a :: b :: rest => a.toNat ≤ b.toNat && sortedLE (b :: rest)
  | _ => true

def notOverlapping : List (Nat × List W) → Bool
  | (ls, lb) :: (rs, rb) :: rest => ls + lb.length ≤ rs && notOverlapping ((rs, rb) :: rest)
  | _ => true

/-- `LineSymbolMap::from_blocks` (input keyed uniquely): sort, blocks disjoint, each block ascending -/
def LineMap.fromBlocks (bl : List (Nat × List W)) : Option LineMap :=
  let sorted := bl.foldl (fun m b => insertSortedBy b.1 b.2 m) []
  if notOverlapping sorted then
    if sorted.all (fun b => sortedLE b.2) then some sorted else none
  else none

def LineMap.new (lines : List (Option W)) : Option LineMap :=
  LineMap.fromBlocks (condenseLines lines 0 none [])

/-- `get`: the last block starting at or before `line` -/
def LineMap.get (m : LineMap) (line : Nat) : Option W :=
  match (m.filter (fun b => b.1 ≤ line)).getLast? with
  | some (start, block) => block[line - start]?
  | none => none

def idxOf (a : W) : List W → Nat → Option Nat
  | [], _ => none
  | x :: rest, i => if x = a then some i else idxOf a rest (i + 1)

/-- `find`: first block (ascending) that contains the address (`binary_search` on an ascending block; with equal
    neighbours any of the equal positions may be returned — after F6 blocks from the assembler are strictly ascending) -/
def LineMap.find (m : LineMap) (a : W) : Option Nat :=
  m.findSome? (fun b => (idxOf a b.2 0).map (b.1 + ·))

def LineMap.iter (m : LineMap) : List (Nat × W) :=
  m.flatMap (fun b => (List.range b.2.length).zip b.2 |>.map (fun p => (b.1 + p.1, p.2)))

/-! ### symbol table -/

structure DebugSyms where
  lineMap : LineMap
  src : SourceInfo

structure SymTab where
  labels : List (Key × SymData)
  rel : List (W × Key)
  debug : Option DebugSyms

def lookupKey (m : List (Key × SymData)) (k : Key) : Option SymData := (m.find? (fun e => e.1 == k)).map (·.2)

def relInsert (m : List (W × Key)) (a : W) (k : Key) : List (W × Key) :=
  if m.any (fun e => e.1 == a) then m.map (fun e => if e.1 == a then (a, k) else e) else m ++ [(a, k)]

structure Cursor where
  lc : W
  overflowed : Bool
  blockOrig : Span

/-- `Cursor::shift` -/
def Cursor.shift (c : Cursor) (n : W) : Except AsmErrKind Cursor :=
  if n = 0 then .ok c
  else if c.overflowed then .error .wrappingBlock
  else
    let s := c.lc.toNat + n.toNat
    if s < 65536 then
      if s > 0xFE00 then .error .blockInIO else .ok { c with lc := BitVec.ofNat 16 s }
    else if c.lc = -n then .error .blockInIO else .error .wrappingBlock

/-- `add_label` -/
def addLabel (labels : List (Key × SymData)) (l : Label) (addr : W) (ext : Bool) : ARes (List (Key × SymData)) :=
  let key := upperS l.name
  match lookupKey labels key with
  | some d => if d.addr ≠ addr then .error ⟨.overlappingLabels, [d.span key, l.span]⟩ else .ok labels
  | none => .ok (labels ++ [(key, ⟨addr, l.start, ext⟩)])

def addLabels (labels : List (Key × SymData)) (ls : List Label) (addr : W) : ARes (List (Key × SymData)) :=
  ls.foldlM (fun m l => addLabel m l addr false) labels

/-- `String::len()` of a `.stringz` operand: UTF-8 bytes -/
def Directive.wordLen : Directive → W
  | .orig _ => 0
  | .fill _ => 1
  | .blkw n => n
  | .stringz s => BitVec.ofNat 16 (blen s + 1)
  | .end_ => 0
  | .external _ => 0

def StmtKind.wordLen : StmtKind → W
  | .instr _ => 1
  | .directive d => d.wordLen

structure P1 where
  cursor : Option Cursor
  labels : List (Key × SymData)
  rel : List (W × Key)
  lines : Option (List (Option W) × SourceInfo)

/-- pass 1, part 1: the labels of a statement are bound to the current location counter -/
def p1Labels (st : P1) (stmt : Stmt) : ARes (List (Key × SymData)) :=
  if stmt.labels.isEmpty then .ok st.labels
  else match st.cursor with
    | none => .error ⟨.undetAddrLabel, stmt.labels.map Label.span⟩
    | some cur => addLabels st.labels stmt.labels cur.lc

/-- pass 1, part 2: `.orig`, `.end`, `.external`, `.fill LABEL` -/
def p1Special (st : P1) (stmt : Stmt) (labels : List (Key × SymData)) :
    ARes (Option Cursor × List (Key × SymData) × List (W × Key)) :=
  match stmt.nucleus with
  | .directive (.orig addr) =>
    (match st.cursor with
     | some cur => .error ⟨.overlappingOrig, [cur.blockOrig, stmt.span]⟩
     | none => .ok (some ⟨addr, false, stmt.span⟩, labels, st.rel))
  | .directive .end_ =>
    (match st.cursor with
     | some _ => .ok (none, labels, st.rel)
     | none => .error ⟨.unopenedOrig, [stmt.span]⟩)
  | .directive (.external l) =>
    (match addLabel labels l 0 true with
     | .error e => .error e
     | .ok labels => .ok (st.cursor, labels, st.rel))
  | .directive (.fill (.label l)) =>
    let key := upperS l.name
    (match st.cursor with
     | some cur => .ok (st.cursor, labels, relInsert st.rel cur.lc key)
     | none =>
       match lookupKey labels key with
       | some ⟨_, _, true⟩ => .error ⟨.undetAddrStmt, [stmt.span]⟩
       | _ => .ok (st.cursor, labels, st.rel))
  | _ => .ok (st.cursor, labels, st.rel)

/-- statements whose line is not recorded in the line map -/
def noLine : StmtKind → Bool
  | .directive (.orig _) => true | .directive .end_ => true | .directive (.external _) => true | _ => false

/-- pass 1, part 3: line mapping and location counter -/
def p1Advance (st : P1) (stmt : Stmt) (cursor : Option Cursor) (labels : List (Key × SymData)) (rel : List (W × Key)) : ARes P1 :=
  match cursor with
  | none => .ok ⟨none, labels, rel, st.lines⟩
  | some cur =>
    let lines := match st.lines with
      | none => none
      | some (ls, s) => if noLine stmt.nucleus then some (ls, s) else some (ls.set (s.getLine stmt.span.1) (some cur.lc), s)
    match cur.shift stmt.nucleus.wordLen with
    | .error k => .error ⟨k, [stmt.span]⟩
    | .ok cur' => .ok ⟨some cur', labels, rel, lines⟩

/-- one statement of the first pass -/
def pass1Step (st : P1) (stmt : Stmt) : ARes P1 :=
  match p1Labels st stmt with
  | .error e => .error e
  | .ok labels =>
    match p1Special st stmt labels with
    | .error e => .error e
    | .ok (cursor, labels, rel) => p1Advance st stmt cursor labels rel

def p1Init (src : Option (List Char)) : P1 :=
  ⟨none, [], [], src.map (fun s => (List.replicate (SourceInfo.ofText s).countLines none, SourceInfo.ofText s))⟩

/-- the end of pass 1: an open block is an error; relocation candidates of non-external labels are dropped -/
def p1Finish (st : P1) : ARes SymTab :=
  match st.cursor with
  | some cur => .error ⟨.unclosedOrig, [cur.blockOrig]⟩
  | none =>
    let rel := st.rel.filter (fun e => match lookupKey st.labels e.2 with | some ⟨_, _, true⟩ => true | _ => false)
    let debug := match st.lines with
      | none => none
      | some (ls, si) => some ⟨(LineMap.new ls).getD [], si⟩
    .ok ⟨st.labels, rel, debug⟩

/-- `SymbolTable::new` -/
def pass1 (stmts : List Stmt) (src : Option (List Char)) : ARes SymTab :=
  match stmts.foldlM pass1Step (p1Init src) with
  | .error e => .error e
  | .ok st => p1Finish st

/-! ### queries -/

def SymTab.lookupLabel (t : SymTab) (label : List Char) : Option W := (lookupKey t.labels (upperS label)).map (·.addr)
/-- `rev_lookup_label`: *some* label at the address (HashMap iteration order); the model returns all candidates -/
def SymTab.revLookupAll (t : SymTab) (a : W) : List Key := (t.labels.filter (fun e => e.2.addr == a)).map (·.1)
def SymTab.getLabelSource (t : SymTab) (label : List Char) : Option Span :=
  (lookupKey t.labels (upperS label)).map (fun d => d.span label)
def SymTab.lookupLine (t : SymTab) (line : Nat) : Option W := t.debug.bind (fun d => d.lineMap.get line)
def SymTab.revLookupLine (t : SymTab) (a : W) : Option Nat := t.debug.bind (fun d => d.lineMap.find a)
def SymTab.lineIter (t : SymTab) : List (Nat × W) := match t.debug with | some d => d.lineMap.iter | none => []

/-! ### pass 2 -/

abbrev Blocks := List (Nat × List (Option W))   -- sorted by start address

structure ObjFile where
  blocks : Blocks
  sym : Option SymTab

/-- `replace_pc_offset` -/
def replacePcOffset (n : Nat) (off : PCOff n) (pc : W) (t : SymTab) : ARes (BitVec n) :=
  match off with
  | .off v => .ok v
  | .label l =>
    match lookupKey t.labels (upperS l.name) with
    | none => .error ⟨.couldNotFindLabel, [l.span]⟩
    | some d =>
      if d.ext then .error ⟨.offsetExternal, [l.span]⟩
      else match newS n (d.addr - pc) with
        | .ok _ => .ok ((d.addr - pc).setWidth n)
        | .err e => .error ⟨.offsetNewErr e, [l.span]⟩
        | .panic _ => .error ⟨.offsetNewErr (.cannotFitSigned n), [l.span]⟩

/-- `AsmInstr::into_sim_instr` -/
def intoSimInstr (i : AsmInstr) (pc : W) (t : SymTab) : ARes SimInstr :=
  match i with
  | .add d s o => .ok (.add d s o)
  | .and d s o => .ok (.and d s o)
  | .br cc o => do let v ← replacePcOffset 9 o pc t; pure (.br cc v)
  | .jmp b => .ok (.jmp b)
  | .jsr o => do let v ← replacePcOffset 11 o pc t; pure (.jsr (.imm v))
  | .jsrr b => .ok (.jsr (.reg b))
  | .ld d o => do let v ← replacePcOffset 9 o pc t; pure (.ld d v)
  | .ldi d o => do let v ← replacePcOffset 9 o pc t; pure (.ldi d v)
  | .ldr d b o => .ok (.ldr d b o)
  | .lea d o => do let v ← replacePcOffset 9 o pc t; pure (.lea d v)
  | .not d s => .ok (.not d s)
  | .ret => .ok (.jmp 7)
  | .rti => .ok .rti
  | .st s o => do let v ← replacePcOffset 9 o pc t; pure (.st s v)
  | .sti s o => do let v ← replacePcOffset 9 o pc t; pure (.sti s v)
  | .str s b o => .ok (.str s b o)
  | .trap v => .ok (.trap v)
  | .nop o => do let v ← replacePcOffset 9 o pc t; pure (.br 0 v)
  | .getc => .ok (.trap 0x20) | .out => .ok (.trap 0x21) | .putc => .ok (.trap 0x21) | .puts => .ok (.trap 0x22)
  | .in_ => .ok (.trap 0x23) | .putsp => .ok (.trap 0x24) | .halt => .ok (.trap 0x25)

/-- UTF-8 bytes of a text, each as a word -/
def utf8Words (s : List Char) : List W := s.flatMap (fun c => (String.utf8EncodeChar c).map (fun b => BitVec.ofNat 16 b.toNat))

/-- `write_directive`: the words a data directive appends to the block -/
def directiveWords (d : Directive) (t : SymTab) : ARes (List (Option W)) :=
  match d with
  | .orig _ => .ok []
  | .fill (.off v) => .ok [some v]
  | .fill (.label l) =>
    (match t.lookupLabel l.name with
     | some a => .ok [some a]
     | none => .error ⟨.couldNotFindLabel, [l.span]⟩)
  | .blkw n => .ok (List.replicate n.toNat none)
  | .stringz s => .ok ((utf8Words s).map some ++ [some 0])
  | .end_ => .ok []
  | .external _ => .ok []

structure ObjBlock where
  start : W
  words : List (Option W)
  origSpan : Span

def rangesOverlap (a0 a1 b0 b1 : Nat) : Bool := a0 < b1 && b0 < a1

structure P2 where
  done : List ObjBlock          -- sorted by start
  current : Option (W × ObjBlock)

def insertBlock (b : ObjBlock) : List ObjBlock → List ObjBlock
  | [] => [b]
  | x :: rest =>
    if b.start.toNat < x.start.toNat then b :: x :: rest
    else if b.start = x.start then b :: rest
    else x :: insertBlock b rest

def ObjBlock.stop (b : ObjBlock) : Nat := b.start.toNat + b.words.length

/-- neighbours examined by the overlap check: last block starting ≤ start, first block starting ≥ start -/
def neighbours (done : List ObjBlock) (start : W) : List ObjBlock :=
  ((done.filter (fun b => b.start.toNat ≤ start.toNat)).getLast?).toList ++
  ((done.find? (fun b => start.toNat ≤ b.start.toNat))).toList

def pass2Step (t : SymTab) (st : P2) (stmt : Stmt) : ARes P2 :=
  match stmt.nucleus with
  | .directive (.orig addr) => .ok { st with current := some (addr, ⟨addr, [], stmt.span⟩) }
  | .directive .end_ =>
    (match st.current with
     | none => .error ⟨.unopenedOrig, [stmt.span]⟩
     | some (_, block) =>
       if block.words.isEmpty then .ok { st with current := none }
       else
         match (neighbours st.done block.start).find? (fun b => rangesOverlap block.start.toNat block.stop b.start.toNat b.stop) with
         | some ob =>
           let order := if block.origSpan.1 ≤ ob.origSpan.1 then [block.origSpan, ob.origSpan] else [ob.origSpan, block.origSpan]
           .error ⟨.overlappingBlocks, order⟩
         | none => .ok ⟨insertBlock block st.done, none⟩)
  | .directive (.external _) => .ok st
  | .directive d =>
    (match st.current with
     | none => .error ⟨.undetAddrStmt, [stmt.span]⟩
     | some (lc, block) =>
       match directiveWords d t with
       | .error e => .error e
       | .ok ws => .ok { st with current := some (lc + d.wordLen, { block with words := block.words ++ ws }) })
  | .instr i =>
    (match st.current with
     | none => .error ⟨.undetAddrStmt, [stmt.span]⟩
     | some (lc, block) =>
       match intoSimInstr i (lc + 1) t with
       | .error e => .error e
       | .ok si => .ok { st with current := some (lc + 1, { block with words := block.words ++ [some si.encode] }) })

/-- `ObjectFile::new` (the symbol table is kept when debug symbols were requested or an external label is declared) -/
def pass2 (stmts : List Stmt) (t : SymTab) (debug : Bool) : ARes ObjFile :=
  match stmts.foldlM (pass2Step t) ⟨[], none⟩ with
  | .error e => .error e
  | .ok st => .ok ⟨st.done.map (fun b => (b.start.toNat, b.words)), if debug || t.labels.any (fun e => e.2.ext) then some t else none⟩

/-- `assemble` / `assemble_debug` -/
def assemble (stmts : List Stmt) (src : Option (List Char)) : ARes ObjFile :=
  match pass1 stmts src with
  | .error e => .error e
  | .ok t => pass2 stmts t src.isSome

/-! ### linking -/

/-- `usize::saturating_add` (64-bit) -/
def satAdd (a b : Nat) : Nat := min (a + b) 18446744073709551615

/-- `DebugSymbols::link` -/
def DebugSyms.link (a b : DebugSyms) : DebugSyms :=
  let lines := a.src.countLines
  let shifted := b.lineMap.map (fun e => (satAdd e.1 lines, e.2))
  ⟨shifted.foldl (fun m e => insertSortedBy e.1 e.2 m) a.lineMap, SourceInfo.ofText (a.src.src ++ '\n' :: b.src.src)⟩

def insertBlockRaw (k : Nat) (v : List (Option W)) (m : Blocks) : Blocks × Bool :=
  (insertSortedBy k v m, m.any (fun e => e.1 == k))

def adjacentOverlap : Blocks → Bool
  | (a, ab) :: (b, bb) :: rest => rangesOverlap a (a + ab.length) b (b + bb.length) || adjacentOverlap ((b, bb) :: rest)
  | _ => false

/-- `get_mut(addr)` then `replace`: the block with the greatest start ≤ addr, offset computed with wrapping -/
def patchWord (m : Blocks) (addr : W) (v : W) : Blocks :=
  match (m.filter (fun e => e.1 ≤ addr.toNat)).getLast? with
  | none => m
  | some (start, block) =>
    let off := addr.toNat - start
    if off < block.length then m.map (fun e => if e.1 = start then (e.1, e.2.set off (some v)) else e) else m

structure LinkSt where
  labels : List (Key × SymData)
  rel : List (W × Key)
  relocs : List (W × W)

def setKey (m : List (Key × SymData)) (k : Key) (d : SymData) : List (Key × SymData) :=
  m.map (fun e => if e.1 == k then (k, d) else e)

/-- merging one label of B into A -/
def linkLabel (st : LinkSt) (e : Key × SymData) : ARes LinkSt :=
  let (label, bd) := e
  match lookupKey st.labels label with
  | none => .ok { st with labels := st.labels ++ [(label, bd)] }
  | some ad =>
    if ad.ext && bd.ext then .ok st
    else if ad.ext || bd.ext then
      let linked := if ad.ext then bd else ad
      let (hit, keep) := st.rel.partition (fun r => r.2 == label)
      .ok ⟨setKey st.labels label linked, keep, st.relocs ++ hit.map (fun r => (r.1, linked.addr))⟩
    else if ad.addr ≠ bd.addr then .error ⟨.overlappingLabels, [ad.span label, bd.span label]⟩
    else .ok st

/-- the block part of `link`: insert B's blocks (an equal start is an error), then no two neighbours may overlap -/
def linkBlocks (a b : Blocks) : ARes Blocks :=
  let r := b.foldl (fun (acc : Blocks × Bool) e => ((insertBlockRaw e.1 e.2 acc.1).1, acc.2 || (insertBlockRaw e.1 e.2 acc.1).2)) (a, false)
  if r.2 then .error ⟨.overlappingBlocks, [(0, 0)]⟩
  else if adjacentOverlap r.1 then .error ⟨.overlappingBlocks, [(0, 0)]⟩
  else .ok r.1

def linkShift (a b : SymTab) : Nat :=
  match a.debug, b.debug with
  | some ad, some _ => blen ad.src.src + 1
  | _, _ => 0

def linkDebug (a b : SymTab) : Option DebugSyms :=
  match a.debug, b.debug with
  | some ad, some bd => some (DebugSyms.link ad bd)
  | some ad, none => some ad
  | none, d => d

/-- the symbol-table part of `link` -/
def linkSyms (at_ bt : SymTab) (blocks : Blocks) : ARes ObjFile :=
  let shift := linkShift at_ bt
  let rel := bt.rel.foldl (fun m e => relInsert m e.1 e.2) at_.rel
  match bt.labels.foldlM (fun st e => linkLabel st (e.1, { e.2 with srcStart := satAdd e.2.srcStart shift })) ⟨at_.labels, rel, []⟩ with
  | .error e => .error e
  | .ok st => .ok ⟨st.relocs.foldl (fun m r => patchWord m r.1 r.2) blocks, some ⟨st.labels, st.rel, linkDebug at_ bt⟩⟩

/-- `ObjectFile::link` -/
def ObjFile.link (a b : ObjFile) : ARes ObjFile :=
  match linkBlocks a.blocks b.blocks with
  | .error e => .error e
  | .ok blocks =>
    match a.sym, b.sym with
    | some at_, some bt => linkSyms at_ bt blocks
    | some at_, none => .ok ⟨blocks, some at_⟩
    | none, s => .ok ⟨blocks, s⟩

def ObjFile.externalSymbols (o : ObjFile) : List Key :=
  match o.sym with
  | some t => (t.labels.filter (fun e => e.2.ext)).map (·.1)
  | none => []

/-- `addr_iter` -/
def ObjFile.addrIter (o : ObjFile) : List (W × Option W) :=
  o.blocks.flatMap (fun b => (List.range b.2.length).zip b.2 |>.map (fun p => (BitVec.ofNat 16 (b.1 + p.1), p.2)))

end Lc3V
