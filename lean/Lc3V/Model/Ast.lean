/-
  Model/Ast.lean — /repo/src/ast/asm.rs and ast.rs: labels, PC offsets, assembly instructions, directives, statements.
  Offsets are the N-bit field itself (`BitVec N`), in bijection with the Rust `Offset<_, N>` values (C35).
-/
import Lc3V.Model.Instr
import Lc3V.Model.Lex
namespace Lc3V

/-- `Label { name, start }`; its span is `start .. start + name.len()` (byte length) -/
structure Label where
  name : List Char
  start : Nat
  deriving Repr, DecidableEq

def Label.span (l : Label) : Nat × Nat := (l.start, l.start + blen l.name)

/-- `PCOffset<OFF, N>` -/
inductive PCOff (n : Nat) where
  | off (v : BitVec n)
  | label (l : Label)
  deriving Repr, DecidableEq

inductive AsmInstr where
  | add (dr sr1 : Reg) (sr2 : ImmOrReg 5)
  | and (dr sr1 : Reg) (sr2 : ImmOrReg 5)
  | br (cc : BitVec 3) (off : PCOff 9)
  | jmp (b : Reg)
  | jsr (off : PCOff 11)
  | jsrr (b : Reg)
  | ld (dr : Reg) (off : PCOff 9)
  | ldi (dr : Reg) (off : PCOff 9)
  | ldr (dr b : Reg) (off : BitVec 6)
  | lea (dr : Reg) (off : PCOff 9)
  | not (dr sr : Reg)
  | ret | rti
  | st (sr : Reg) (off : PCOff 9)
  | sti (sr : Reg) (off : PCOff 9)
  | str (sr b : Reg) (off : BitVec 6)
  | trap (vect : BitVec 8)
  | nop (off : PCOff 9)
  | getc | out | putc | puts | in_ | putsp | halt
  deriving Repr, DecidableEq

inductive Directive where
  | orig (addr : W)
  | fill (v : PCOff 16)
  | blkw (n : W)
  | stringz (s : List Char)
  | end_
  | external (l : Label)
  deriving Repr, DecidableEq

inductive StmtKind where
  | instr (i : AsmInstr)
  | directive (d : Directive)
  deriving Repr, DecidableEq

structure Stmt where
  labels : List Label
  nucleus : StmtKind
  span : Nat × Nat
  deriving Repr, DecidableEq

end Lc3V
