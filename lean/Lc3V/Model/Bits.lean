/-
  Model/Bits.lean — basic machine types shared by every model file.
  Mirrors: u16 ↦ BitVec 16 (wrapping), i16 views via `BitVec.toInt`.
  No imports outside core Lean.
-/
namespace Lc3V

/-- A 16-bit machine word value (`u16` / `i16` in the Rust code). -/
abbrev W := BitVec 16

/-- Result of a modelled Rust call that may return `Err` or panic (DESIGN §4.2). -/
inductive Outcome (ε α : Type) where
  | ok    (a : α)
  | err   (e : ε)
  | panic (site : String)
  deriving Repr, DecidableEq

namespace Outcome
def isOk    {ε α} : Outcome ε α → Bool | ok _ => true | _ => false
def isErr   {ε α} : Outcome ε α → Bool | err _ => true | _ => false
def isPanic {ε α} : Outcome ε α → Bool | panic _ => true | _ => false
end Outcome

/-- `allBelow n p` = `p 0 ∧ … ∧ p (n-1)`; used to turn a complete finite table into a `∀`. -/
def allBelow : Nat → (Nat → Bool) → Bool
  | 0,     _ => true
  | n + 1, p => p n && allBelow n p

theorem allBelow_spec {n : Nat} {p : Nat → Bool} (h : allBelow n p = true) :
    ∀ i, i < n → p i = true := by
  induction n with
  | zero => intro i hi; omega
  | succ n ih =>
    intro i hi
    simp only [allBelow, Bool.and_eq_true] at h
    by_cases hin : i = n
    · subst hin; exact h.1
    · exact ih h.2 i (by omega)

/-- Lift a complete table over all `2^n` bit-vectors to a universally quantified statement. -/
theorem forall_bitvec_of_table {n : Nat} {p : BitVec n → Bool}
    (h : allBelow (2 ^ n) (fun i => p (BitVec.ofNat n i)) = true) : ∀ x : BitVec n, p x = true := by
  intro x
  have := allBelow_spec h x.toNat x.isLt
  simpa using this

end Lc3V
