/-
  Model/Dev.lean — /repo/src/sim/device.rs, device/keyboard.rs, device/display.rs, device/timer.rs.

  * `DeviceHandler`: `devices : Vec<SimDevice>` ↦ `Array Device`; `io_ports : [u16; 512]` ↦ `Vector Nat 512`.
  * `BufferedKeyboard` / `BufferedDisplay`: buffer behind `Arc<RwLock<_>>`; `try_write` failing (another holder)
    is the Boolean `locked` (DESIGN §4.4): it can change only between two simulator steps.
  * `TimerDevice`: `StdRng` is not modelled; the timer draws its reload values from `samples` (a finite prefix of
    the sample stream, supplied by the harness from the real generator; theorems quantify over all streams).
  * `InterruptFromFn` ↦ `intrScript`: the closure's successive answers as a list.
  * `recorder`: the harness's own recording `ExternalDevice` (scripted answers, logs every call) used for C32.
-/
import Lc3V.Model.Bits
namespace Lc3V

def IO_START : Nat := 0xFE00
def KBSR : W := 0xFE00
def KBDR : W := 0xFE02
def DSR  : W := 0xFE04
def DDR  : W := 0xFE06

inductive Interrupt where
  /-- `Interrupt::vectored(vect, priority)`; priority already clamped to 0..=7 -/
  | vectored (vect : BitVec 8) (prio : Nat)
  /-- `Interrupt::external(e)`; `tag` identifies the error value -/
  | external (tag : Nat)
  deriving Repr, DecidableEq

/-- `Interrupt::priority()` -/
def Interrupt.priority : Interrupt → Option Nat
  | .vectored _ p => some (p % 8)
  | .external _ => none

/-- `Interrupt::vectored` clamps the priority -/
def Interrupt.mkVectored (vect : BitVec 8) (prio : Nat) : Interrupt := .vectored vect (min prio 7)

structure Timer where
  enabled : Bool
  time : Nat
  vect : BitVec 8
  prio : Nat
  /-- remaining known prefix of the sample stream -/
  samples : List Nat
  deriving Repr, DecidableEq

/-- a call received by the recording device -/
inductive RecEv where
  | read (addr : W) (effectful : Bool)
  | write (addr : W) (data : W)
  | reset
  deriving Repr, DecidableEq

inductive Device where
  | null
  | keyboard (buf : List UInt8) (ie : Bool) (locked : Bool)
  | display (buf : Array UInt8) (locked : Bool)
  | timer (t : Timer)
  | intrScript (sched : List (Option Interrupt))
  /-- answers reads with `base + number of reads so far` when `rd`, accepts writes when `wr` -/
  | recorder (rd wr : Bool) (base : W) (nreads : Nat) (log : List RecEv)
  deriving Repr

namespace Timer
/-- `TimerDevice::reset_remaining` / `io_reset`: draw the next sample (0 if the known prefix is exhausted —
    the driver always supplies enough; theorems use `pollS` below with an explicit stream). -/
def reload (t : Timer) : Timer :=
  match t.samples with
  | [] => { t with time := 0 }
  | s :: rest => { t with time := s, samples := rest }

/-- `TimerDevice::poll_interrupt` -/
def poll (t : Timer) : Timer × Option Interrupt :=
  if !t.enabled then (t, none)
  else if t.time = 0 then
    -- reload; a sampled interval of 0 fires on this very poll (fix F20)
    let t' := t.reload
    (t', if t'.time = 0 then some (Interrupt.mkVectored t.vect t.prio) else none)
  else if t.time = 1 then ({ t with time := 0 }, some (Interrupt.mkVectored t.vect t.prio))
  else ({ t with time := t.time - 1 }, none)
end Timer

namespace Device

/-- `ExternalDevice::io_read(addr, effectful)`; returns the answer and the device afterwards -/
def ioRead (d : Device) (addr : W) (effectful : Bool) : Option W × Device :=
  match d with
  | null => (none, d)
  | keyboard buf ie locked =>
    if addr = KBSR then
      -- ready() = try_input().is_some_and(|b| !b.is_empty())
      let ready := !locked && !buf.isEmpty
      (some ((if ready then 0x8000 else 0) ||| (if ie then 0x4000 else 0)), d)
    else if addr = KBDR then
      if locked then (none, d)
      else match buf with
        | [] => (none, d)
        | b :: rest => (some (BitVec.ofNat 16 b.toNat), if effectful then keyboard rest ie locked else d)
    else (none, d)
  | display _ locked =>
    if addr = DSR then (some (if locked then 0 else 0x8000), d) else (none, d)
  | timer _ => (none, d)
  | intrScript _ => (none, d)
  | recorder rd wr base n log =>
    let log' := log ++ [RecEv.read addr effectful]
    if rd then (some (base + BitVec.ofNat 16 n), recorder rd wr base (n + 1) log')
    else (none, recorder rd wr base n log')

/-- `ExternalDevice::io_write(addr, data)` -/
def ioWrite (d : Device) (addr : W) (data : W) : Bool × Device :=
  match d with
  | null => (false, d)
  | keyboard buf _ locked =>
    if addr = KBSR then (true, keyboard buf (data.getLsbD 14) locked) else (false, d)
  | display buf locked =>
    if addr = DDR then
      if locked then (false, d) else (true, display (buf.push (UInt8.ofNat (data.toNat % 256))) locked)
    else (false, d)
  | timer _ => (false, d)
  | intrScript _ => (false, d)
  | recorder rd wr base n log => (wr, recorder rd wr base n (log ++ [RecEv.write addr data]))

/-- `ExternalDevice::io_reset` -/
def ioReset (d : Device) : Device :=
  match d with
  | null => d
  | keyboard buf _ locked => keyboard (if locked then buf else []) false locked
  | display buf locked => display (if locked then buf else #[]) locked
  | timer t => timer t.reload
  | intrScript _ => d
  | recorder rd wr base n log => recorder rd wr base n (log ++ [RecEv.reset])

/-- `ExternalDevice::poll_interrupt` -/
def poll (d : Device) : Option Interrupt × Device :=
  match d with
  | null => (none, d)
  | keyboard buf ie locked =>
    if (!locked && !buf.isEmpty) && ie then (some (Interrupt.mkVectored 0x80 4), d) else (none, d)
  | display _ _ => (none, d)
  | timer t => let (t', i) := t.poll; (i, timer t')
  | intrScript sched =>
    match sched with
    | [] => (none, d)
    | i :: rest => (i, intrScript rest)
  | recorder .. => (none, d)

end Device

structure DevHandler where
  devices : Array Device
  ports : Vector Nat 512

namespace DevHandler

/-- index of an I/O port in the port table, `port.checked_sub(IO_START)` -/
def portIdx (port : W) : Option (Fin 512) :=
  if h : IO_START ≤ port.toNat then
    some ⟨port.toNat - IO_START, by have := port.isLt; unfold IO_START at *; omega⟩
  else none

/-- `get_dev_id` -/
def getDevId (h : DevHandler) (port : W) : Option Nat :=
  (portIdx port).map (fun i => h.ports[i])

/-- `set_port`: only a free (0) slot is changed, and only to an existing device id -/
def setPort (h : DevHandler) (port : W) (devId : Nat) : DevHandler :=
  match portIdx port with
  | none => h
  | some i =>
    if h.ports[i] = 0 ∧ devId < h.devices.size then { h with ports := h.ports.set i devId } else h

/-- `DeviceHandler::new` -/
def new : DevHandler :=
  let h : DevHandler := { devices := #[.null, .null, .null], ports := Vector.replicate 512 0 }
  ((((h.setPort KBSR 1).setPort KBDR 1).setPort DSR 2).setPort DDR 2)

/-- `set_keyboard` / `set_display` (`devices[1] = …`, `devices[2] = …`; the vector always has ≥ 3 entries) -/
def setKeyboard (h : DevHandler) (d : Device) : DevHandler := { h with devices := h.devices.setIfInBounds 1 d }
def setDisplay (h : DevHandler) (d : Device) : DevHandler := { h with devices := h.devices.setIfInBounds 2 d }

/-- `add_device(dev, addrs)`: `some id` on success -/
def addDevice (h : DevHandler) (d : Device) (addrs : List W) : Option Nat × DevHandler :=
  if h.devices.size > 65535 then (none, h)
  else if addrs.all (fun p => h.getDevId p == some 0) then
    let id := h.devices.size
    let h1 : DevHandler := { h with devices := h.devices.push d }
    (some id, addrs.foldl (fun acc p => acc.setPort p id) h1)
  else (none, h)

/-- `remove_device(dev_id)` -/
def removeDevice (h : DevHandler) (devId : Nat) : DevHandler :=
  if devId < h.devices.size then
    let devs := h.devices.setIfInBounds devId .null
    if devId = 0 ∨ devId = 1 ∨ devId = 2 then { h with devices := devs }
    else { devices := devs, ports := h.ports.map (fun p => if p = devId then 0 else p) }
  else h

/-- `<DeviceHandler as ExternalDevice>::io_read`; `devices[dev_id]` indexing is modelled with `getD` and shown
    in-bounds by the invariant `DevInv` (Props/C32). -/
def ioRead (h : DevHandler) (addr : W) (effectful : Bool) : Option W × DevHandler :=
  match h.getDevId addr with
  | none => (none, h)
  | some id =>
    let (r, d') := (h.devices.getD id .null).ioRead addr effectful
    (r, { h with devices := h.devices.setIfInBounds id d' })

def ioWrite (h : DevHandler) (addr : W) (data : W) : Bool × DevHandler :=
  match h.getDevId addr with
  | none => (false, h)
  | some id =>
    let (r, d') := (h.devices.getD id .null).ioWrite addr data
    (r, { h with devices := h.devices.setIfInBounds id d' })

def ioReset (h : DevHandler) : DevHandler := { h with devices := h.devices.map Device.ioReset }

/-- priority key of `max_by_key(|i| i.priority().unwrap_or(0b1000))` -/
def intKey (i : Interrupt) : Nat := (i.priority).getD 8

/-- one iteration of `filter_map(poll).max_by_key(..)`: poll the device, keep the last maximum -/
def pollStep (acc : Option Interrupt × Array Device) (d : Device) : Option Interrupt × Array Device :=
  let r := d.poll
  let best := match acc.1, r.1 with
    | none, x => x
    | some b, none => some b
    | some b, some x => if intKey x ≥ intKey b then some x else some b
  (best, acc.2.push r.2)

/-- `poll_interrupt`: every device is polled (in order); `Iterator::max_by_key` returns the *last* maximum. -/
def pollInterrupt (h : DevHandler) : Option Interrupt × DevHandler :=
  let r := h.devices.foldl pollStep (none, #[])
  (r.1, { h with devices := r.2 })

end DevHandler
end Lc3V
