/-
  Model/Instr.lean — `SimInstr` of /repo/src/ast/sim.rs: encode, decode, join_bits, slice.

  Representation: registers are `BitVec 3`; an `Offset<i16, N>` / `Offset<u16, N>` field is the N-bit field
  itself (`BitVec N`).  The Rust value (an i16/u16 whose invariant "fits N bits" is enforced by `new`/`new_trunc`,
  the only constructors) is recovered by `IOff.get` = sign extension / `UOff.get` = zero extension, so the
  representable Rust values and the `BitVec N` values are in bijection (C35 theorems `trunc_signed/unsigned`).
  `CondCode` is a `u8` in Rust; representable instructions have `cc < 8` (doc comment of `CondCode`), modelled as `BitVec 3`.
-/
import Lc3V.Model.Bits
namespace Lc3V

abbrev Reg := BitVec 3

/-- value of an `IOffset<N>` as the Rust `i16` (two's complement in a `W`) -/
def IOff.get {n} (o : BitVec n) : W := o.signExtend 16
/-- value of an `Offset<u16, N>` -/
def UOff.get {n} (o : BitVec n) : W := o.setWidth 16

inductive ImmOrReg (n : Nat) where
  | imm (v : BitVec n)
  | reg (r : Reg)
  deriving Repr, DecidableEq

inductive SimInstr where
  | br   (cc : BitVec 3) (off : BitVec 9)
  | add  (dr sr1 : Reg) (sr2 : ImmOrReg 5)
  | ld   (dr : Reg) (off : BitVec 9)
  | st   (sr : Reg) (off : BitVec 9)
  | jsr  (op : ImmOrReg 11)
  | and  (dr sr1 : Reg) (sr2 : ImmOrReg 5)
  | ldr  (dr br : Reg) (off : BitVec 6)
  | str  (sr br : Reg) (off : BitVec 6)
  | rti
  | not  (dr sr : Reg)
  | ldi  (dr : Reg) (off : BitVec 9)
  | sti  (sr : Reg) (off : BitVec 9)
  | jmp  (br : Reg)
  | lea  (dr : Reg) (off : BitVec 9)
  | trap (vect : BitVec 8)
  deriving Repr, DecidableEq

inductive DecodeErr where
  | illegalOpcode
  | invalidInstrFormat
  deriving Repr, DecidableEq

namespace SimInstr

def opcode : SimInstr → W
  | br ..  => 0b0000 | add .. => 0b0001 | ld ..  => 0b0010 | st ..  => 0b0011
  | jsr .. => 0b0100 | and .. => 0b0101 | ldr .. => 0b0110 | str .. => 0b0111
  | rti    => 0b1000 | not .. => 0b1001 | ldi .. => 0b1010 | sti .. => 0b1011
  | jmp .. => 0b1100 | lea .. => 0b1110 | trap .. => 0b1111

/-- one `(val, start..end)` element of `join_bits`: `(val & ((1 << len) - 1)) << start` -/
def field (val : W) (start stop : Nat) : W := (val &&& ((1 <<< (stop - start)) - 1)) <<< start

/-- `join_bits` = fold of `|` over the fields -/
def joinBits (fs : List (W × Nat × Nat)) : W :=
  fs.foldl (fun acc f => acc ||| field f.1 f.2.1 f.2.2) 0

def rw (r : Reg) : W := r.setWidth 16

def encode (i : SimInstr) : W :=
  match i with
  | br cc off => joinBits [(i.opcode, 12, 16), (cc.setWidth 16, 9, 12), (IOff.get off, 0, 9)]
  | add dr sr1 (.imm i2) => joinBits [(i.opcode, 12, 16), (rw dr, 9, 12), (rw sr1, 6, 9), (1, 5, 6), (IOff.get i2, 0, 5)]
  | add dr sr1 (.reg r2) => joinBits [(i.opcode, 12, 16), (rw dr, 9, 12), (rw sr1, 6, 9), (0, 3, 6), (rw r2, 0, 3)]
  | ld dr off => joinBits [(i.opcode, 12, 16), (rw dr, 9, 12), (IOff.get off, 0, 9)]
  | st sr off => joinBits [(i.opcode, 12, 16), (rw sr, 9, 12), (IOff.get off, 0, 9)]
  | jsr (.imm off) => joinBits [(i.opcode, 12, 16), (1, 11, 12), (IOff.get off, 0, 11)]
  | jsr (.reg b) => joinBits [(i.opcode, 12, 16), (0, 9, 12), (rw b, 6, 9), (0, 0, 6)]
  | and dr sr1 (.imm i2) => joinBits [(i.opcode, 12, 16), (rw dr, 9, 12), (rw sr1, 6, 9), (1, 5, 6), (IOff.get i2, 0, 5)]
  | and dr sr1 (.reg r2) => joinBits [(i.opcode, 12, 16), (rw dr, 9, 12), (rw sr1, 6, 9), (0, 3, 6), (rw r2, 0, 3)]
  | ldr dr b off => joinBits [(i.opcode, 12, 16), (rw dr, 9, 12), (rw b, 6, 9), (IOff.get off, 0, 6)]
  | str sr b off => joinBits [(i.opcode, 12, 16), (rw sr, 9, 12), (rw b, 6, 9), (IOff.get off, 0, 6)]
  | rti => joinBits [(i.opcode, 12, 16), (0, 0, 12)]
  | not dr sr => joinBits [(i.opcode, 12, 16), (rw dr, 9, 12), (rw sr, 6, 9), (0b111111, 0, 6)]
  | ldi dr off => joinBits [(i.opcode, 12, 16), (rw dr, 9, 12), (IOff.get off, 0, 9)]
  | sti sr off => joinBits [(i.opcode, 12, 16), (rw sr, 9, 12), (IOff.get off, 0, 9)]
  | jmp b => joinBits [(i.opcode, 12, 16), (0, 9, 12), (rw b, 6, 9), (0, 0, 6)]
  | lea dr off => joinBits [(i.opcode, 12, 16), (rw dr, 9, 12), (IOff.get off, 0, 9)]
  | trap vect => joinBits [(i.opcode, 12, 16), (0, 8, 12), (UOff.get vect, 0, 8)]

/-- `DecodeUtils::slice`: `(self >> start) & ((1 << len) - 1)` -/
def slice (w : W) (start stop : Nat) : W := (w >>> start) &&& ((1 <<< (stop - start)) - 1)

/-- `FromBits for Reg`: `Reg::try_from(bits as u8).unwrap()` — the slice is 3 bits wide at every call site -/
def toReg (bits : W) : Reg := bits.setWidth 3
/-- `FromBits for IOffset<N>` / `Offset<u16,N>`: `new_trunc(bits)` keeps the low N bits -/
def toOff (n : Nat) (bits : W) : BitVec n := bits.setWidth n

def assertEq (a b : W) : Except DecodeErr Unit :=
  if a = b then .ok () else .error .invalidInstrFormat

def decode (word : W) : Except DecodeErr SimInstr :=
  let opcode := slice word 12 16
  if opcode = 0b0000 then
    .ok (br (toOff 3 (slice word 9 12)) (toOff 9 (slice word 0 9)))
  else if opcode = 0b0001 then
    let dr := toReg (slice word 9 12); let sr1 := toReg (slice word 6 9)
    if slice word 5 6 ≠ 0 then .ok (add dr sr1 (.imm (toOff 5 (slice word 0 5))))
    else match assertEq (slice word 3 5) 0 with
      | .error e => .error e
      | .ok _ => .ok (add dr sr1 (.reg (toReg (slice word 0 3))))
  else if opcode = 0b0010 then .ok (ld (toReg (slice word 9 12)) (toOff 9 (slice word 0 9)))
  else if opcode = 0b0011 then .ok (st (toReg (slice word 9 12)) (toOff 9 (slice word 0 9)))
  else if opcode = 0b0100 then
    if slice word 11 12 ≠ 0 then .ok (jsr (.imm (toOff 11 (slice word 0 11))))
    else match assertEq (slice word 9 11) 0 with
      | .error e => .error e
      | .ok _ => match assertEq (slice word 0 6) 0 with
        | .error e => .error e
        | .ok _ => .ok (jsr (.reg (toReg (slice word 6 9))))
  else if opcode = 0b0101 then
    let dr := toReg (slice word 9 12); let sr1 := toReg (slice word 6 9)
    if slice word 5 6 ≠ 0 then .ok (and dr sr1 (.imm (toOff 5 (slice word 0 5))))
    else match assertEq (slice word 3 5) 0 with
      | .error e => .error e
      | .ok _ => .ok (and dr sr1 (.reg (toReg (slice word 0 3))))
  else if opcode = 0b0110 then .ok (ldr (toReg (slice word 9 12)) (toReg (slice word 6 9)) (toOff 6 (slice word 0 6)))
  else if opcode = 0b0111 then .ok (str (toReg (slice word 9 12)) (toReg (slice word 6 9)) (toOff 6 (slice word 0 6)))
  else if opcode = 0b1000 then
    match assertEq (slice word 0 12) 0 with
    | .error e => .error e
    | .ok _ => .ok rti
  else if opcode = 0b1001 then
    match assertEq (slice word 0 6) 0b111111 with
    | .error e => .error e
    | .ok _ => .ok (not (toReg (slice word 9 12)) (toReg (slice word 6 9)))
  else if opcode = 0b1010 then .ok (ldi (toReg (slice word 9 12)) (toOff 9 (slice word 0 9)))
  else if opcode = 0b1011 then .ok (sti (toReg (slice word 9 12)) (toOff 9 (slice word 0 9)))
  else if opcode = 0b1100 then
    -- fix F3: all three must-be-zero bits 9..12 are checked
    match assertEq (slice word 9 12) 0 with
    | .error e => .error e
    | .ok _ => match assertEq (slice word 0 6) 0 with
      | .error e => .error e
      | .ok _ => .ok (jmp (toReg (slice word 6 9)))
  else if opcode = 0b1110 then .ok (lea (toReg (slice word 9 12)) (toOff 9 (slice word 0 9)))
  else if opcode = 0b1111 then
    match assertEq (slice word 8 12) 0 with
    | .error e => .error e
    | .ok _ => .ok (trap (toOff 8 (slice word 0 8)))
  else .error .illegalOpcode

end SimInstr
end Lc3V
