/-
  Model/Lex.lean — the token set of /repo/src/parse/lex.rs as a maximal-munch lexer with logos' priorities
  (on equal length: Reg > Hex > Ident), the validator callbacks (`lex_unsigned_dec`, `lex_signed_dec`,
  `lex_unsigned_hex`, `lex_signed_hex`, `lex_reg`, `lex_str_literal` after fix F1/F2), Rust's `from_str_radix`.

  Text is `List Char`, spans are UTF-8 byte offsets.  logos compiles `\w` / `\d` Unicode-aware; the classification of
  every non-ASCII scalar and `char::to_uppercase` come from `Gen/UniTables.lean`, regenerated on every run by
  tools/gen_uni_tables.py from the lexer as built (the real lexer is asked about each of the 1.1M scalars).
-/
import Lc3V.Model.Source
import Lc3V.Gen.UniTables
namespace Lc3V

/-! ### character classes -/

/-- binary search in an ascending array of inclusive ranges -/
def inRangesAux (rs : Array (Nat × Nat)) (n : Nat) : Nat → Nat → Nat → Bool
  | 0, _, _ => false
  | fuel + 1, lo, hi =>
    if lo ≥ hi then false
    else
      let mid := (lo + hi) / 2
      match rs[mid]? with
      | none => false
      | some (a, b) => if n < a then inRangesAux rs n fuel lo mid else if n > b then inRangesAux rs n fuel (mid + 1) hi else true
def inRanges (rs : Array (Nat × Nat)) (n : Nat) : Bool := inRangesAux rs n 64 0 rs.size

def upperLookupAux (t : Array (Nat × List Nat)) (n : Nat) : Nat → Nat → Nat → Option (List Nat)
  | 0, _, _ => none
  | fuel + 1, lo, hi =>
    if lo ≥ hi then none
    else
      let mid := (lo + hi) / 2
      match t[mid]? with
      | none => none
      | some (a, u) => if n < a then upperLookupAux t n fuel lo mid else if n > a then upperLookupAux t n fuel (mid + 1) hi else some u

/-- `\d` of the lexer: ASCII digits, or a non-ASCII code point of the generated table (Unicode Nd) -/
def isDigitC (c : Char) : Bool := ('0' ≤ c && c ≤ '9') || (c.toNat ≥ 128 && inRanges Gen.digitRanges c.toNat)
def isAsciiAlpha (c : Char) : Bool := ('a' ≤ c && c ≤ 'z') || ('A' ≤ c && c ≤ 'Z')
/-- `\w` of the lexer: ASCII letters, digits, underscore, or a non-ASCII code point of the generated table -/
def isWordC (c : Char) : Bool :=
  isAsciiAlpha c || c == '_' || ('0' ≤ c && c ≤ '9') || (c.toNat ≥ 128 && inRanges Gen.wordRanges c.toNat)
def isHexStart (c : Char) : Bool := isDigitC c || ('a' ≤ c && c ≤ 'f') || ('A' ≤ c && c ≤ 'F')

/-- `char::to_uppercase`: ASCII by arithmetic, everything else through the generated table -/
def upperC (c : Char) : List Char :=
  if 'a' ≤ c && c ≤ 'z' then [Char.ofNat (c.toNat - 32)]
  else if c.toNat < 128 then [c]
  else match upperLookupAux Gen.upperTable c.toNat 64 0 Gen.upperTable.size with
    | some u => u.map Char.ofNat
    | none => [c]

/-- `str::to_uppercase` -/
def upperS (s : List Char) : List Char := s.flatMap upperC

/-! ### tokens -/

inductive Kw where
  | ADD | AND | NOT | BR | BRP | BRZ | BRZP | BRN | BRNP | BRNZ | BRNZP
  | JMP | JSR | JSRR | LD | LDI | LDR | LEA | ST | STI | STR | TRAP | NOP
  | RET | RTI | GETC | OUT | PUTC | PUTS | IN | PUTSP | HALT
  deriving Repr, DecidableEq

def Kw.all : List Kw :=
  [.ADD, .AND, .NOT, .BR, .BRP, .BRZ, .BRZP, .BRN, .BRNP, .BRNZ, .BRNZP, .JMP, .JSR, .JSRR, .LD, .LDI, .LDR, .LEA, .ST,
   .STI, .STR, .TRAP, .NOP, .RET, .RTI, .GETC, .OUT, .PUTC, .PUTS, .IN, .PUTSP, .HALT]

def Kw.name : Kw → String
  | .ADD => "ADD" | .AND => "AND" | .NOT => "NOT" | .BR => "BR" | .BRP => "BRP" | .BRZ => "BRZ" | .BRZP => "BRZP"
  | .BRN => "BRN" | .BRNP => "BRNP" | .BRNZ => "BRNZ" | .BRNZP => "BRNZP" | .JMP => "JMP" | .JSR => "JSR"
  | .JSRR => "JSRR" | .LD => "LD" | .LDI => "LDI" | .LDR => "LDR" | .LEA => "LEA" | .ST => "ST" | .STI => "STI"
  | .STR => "STR" | .TRAP => "TRAP" | .NOP => "NOP" | .RET => "RET" | .RTI => "RTI" | .GETC => "GETC" | .OUT => "OUT"
  | .PUTC => "PUTC" | .PUTS => "PUTS" | .IN => "IN" | .PUTSP => "PUTSP" | .HALT => "HALT"

inductive Ident where
  | kw (k : Kw)
  | label (s : List Char)
  deriving Repr, DecidableEq

/-- `Ident::from_str`: keyword iff the upper-cased text is a keyword name, else a label with the original text -/
def Ident.ofText (s : List Char) : Ident :=
  match Kw.all.find? (fun k => k.name.toList == upperS s) with
  | some k => .kw k
  | none => .label s

inductive LexErr where
  | doesNotFitU16 | doesNotFitI16 | invalidHex | invalidNumeric | invalidHexEmpty | invalidDecEmpty | unknownIntErr
  | unclosedStrLit | strLitTooBig | invalidReg | invalidSymbol
  deriving Repr, DecidableEq

inductive Token where
  | unsigned (n : Nat)
  | signed (v : Int)
  | reg (r : Nat)
  | ident (i : Ident)
  | directive (s : List Char)
  | string (s : List Char)
  | colon | comma | comment | newline
  deriving Repr, DecidableEq

/-! ### Rust integer parsing (`from_str_radix`) -/

inductive IntErr where | empty | invalidDigit | posOverflow | negOverflow
  deriving Repr, DecidableEq

/-- `(c as char).to_digit(radix)` on one *byte* of the string: only ASCII digits/letters can be digits -/
def toDigit (c : Char) (radix : Nat) : Option Nat :=
  let v := if '0' ≤ c && c ≤ '9' then some (c.toNat - '0'.toNat)
    else if 'a' ≤ c && c ≤ 'z' then some (c.toNat - 'a'.toNat + 10)
    else if 'A' ≤ c && c ≤ 'Z' then some (c.toNat - 'A'.toNat + 10)
    else none
  match v with
  | some d => if d < radix then some d else none
  | none => none

/-- accumulate digits; per character: digit validity first, then multiplication overflow, then addition overflow -/
def parseDigits (radix : Nat) (neg : Bool) (lo hi : Int) : List Char → Int → Except IntErr Int
  | [], acc => .ok acc
  | c :: cs, acc =>
    match toDigit c radix with
    | none => .error .invalidDigit
    | some d =>
      let m := acc * radix
      if m < lo ∨ m > hi then .error (if neg then .negOverflow else .posOverflow)
      else
        let r := if neg then m - d else m + d
        if r < lo ∨ r > hi then .error (if neg then .negOverflow else .posOverflow)
        else parseDigits radix neg lo hi cs r

/-- `uN::from_str_radix` / `iN::from_str_radix` for a type with range [lo, hi] -/
def parseInt (signed : Bool) (radix : Nat) (lo hi : Int) (s : List Char) : Except IntErr Int :=
  match s with
  | [] => .error .empty
  | ['+'] => .error .invalidDigit
  | ['-'] => .error .invalidDigit
  | '+' :: rest => parseDigits radix false lo hi rest 0
  | '-' :: rest => if signed then parseDigits radix true lo hi rest 0 else parseDigits radix false lo hi s 0
  | _ => parseDigits radix false lo hi s 0

/-- `convert_int_error` -/
def convertIntErr (e : IntErr) (invalid empty overflow : LexErr) (src : List Char) : LexErr :=
  match e with
  | .empty => empty
  | .invalidDigit => if src = ['-'] then empty else invalid
  | .posOverflow => overflow
  | .negOverflow => overflow

def stripHash (s : List Char) : List Char := match s with | '#' :: r => r | _ => s

def lexUnsignedDec (slice : List Char) : Except LexErr Token :=
  let s := stripHash slice
  match parseInt false 10 0 65535 s with
  | .ok v => .ok (.unsigned v.toNat)
  | .error e => .error (convertIntErr e .invalidNumeric .invalidDecEmpty .doesNotFitU16 s)

def lexSignedDec (slice : List Char) : Except LexErr Token :=
  let s := stripHash slice
  match parseInt true 10 (-32768) 32767 s with
  | .ok v => .ok (.signed v)
  | .error e => .error (convertIntErr e .invalidNumeric .invalidDecEmpty .doesNotFitI16 s)

def lexUnsignedHex (slice : List Char) : Except LexErr Token :=
  let s := slice.drop 1
  match parseInt false 16 0 65535 s with
  | .ok v => .ok (.unsigned v.toNat)
  | .error e => .error (convertIntErr e .invalidHex .invalidHexEmpty .doesNotFitU16 s)

def lexSignedHex (slice : List Char) : Except LexErr Token :=
  let s := slice.drop 1
  match parseInt true 16 (-32768) 32767 s with
  | .ok v => .ok (.signed v)
  | .error e => .error (convertIntErr e .invalidHex .invalidHexEmpty .doesNotFitI16 s)

/-- `lex_reg`: `slice[1..].parse::<u8>().ok().filter(|r| r < 8)` -/
def lexReg (slice : List Char) : Except LexErr Token :=
  match parseInt false 10 0 255 (slice.drop 1) with
  | .ok v => if v < 8 then .ok (.reg v.toNat) else .error .invalidReg
  | .error _ => .error .invalidReg

/-! ### string literals (`lex_str_literal`, after fix F1/F2) -/

/-- first line of the remainder: `rem.lines().next().unwrap_or("")` (a "\r\n" ending strips the '\r') -/
def firstLine : List Char → List Char
  | [] => []
  | '\n' :: _ => []
  | ['\r', '\n'] => []
  | '\r' :: '\n' :: _ => []
  | c :: cs => c :: firstLine cs

/-- scan the literal body; returns (buffer, number of chars consumed incl. the closing quote) or `none` if unclosed -/
def scanStr : List Char → List Char → Nat → Option (List Char × Nat)
  | [], _, _ => none
  | '"' :: _, buf, n => some (buf.reverse, n + 1)
  | '\\' :: [], _, _ => none
  | '\\' :: e :: rest, buf, n =>
    let add : List Char := if e = 'n' then ['\n'] else if e = 'r' then ['\r'] else if e = 't' then ['\t']
      else if e = '\\' then ['\\'] else if e = '0' then ['\x00'] else if e = '"' then ['"'] else [e, '\\']
    scanStr rest (add ++ buf) (n + 2)
  | c :: rest, buf, n => scanStr rest (c :: buf) (n + 1)

/-! ### one token -/

def spanW (cs : List Char) : List Char × List Char := (cs.takeWhile isWordC, cs.dropWhile isWordC)

/-- result of lexing one token at the head of a non-empty input: token or error, and the chars consumed -/
structure Lexed where
  res : Except LexErr Token
  len : Nat   -- characters consumed (≥ 1)

def lexOne (cs : List Char) : Lexed :=
  match cs with
  | [] => ⟨.error .invalidSymbol, 0⟩
  | c :: rest =>
    if c = ':' then ⟨.ok .colon, 1⟩
    else if c = ',' then ⟨.ok .comma, 1⟩
    else if c = '\n' then ⟨.ok .newline, 1⟩
    else if c = '\r' then (match rest with | '\n' :: _ => ⟨.ok .newline, 2⟩ | _ => ⟨.error .invalidSymbol, 1⟩)
    else if c = ';' then ⟨.ok .comment, 1 + (rest.takeWhile (· ≠ '\n')).length⟩
    else if c = '.' then let w := (spanW rest).1; ⟨.ok (.directive w), 1 + w.length⟩
    else if c = '"' then
      let line := firstLine rest
      match scanStr line [] 0 with
      | none => ⟨.error .unclosedStrLit, 1 + line.length⟩
      | some (buf, n) => ⟨if blen buf < 65535 then .ok (.string buf) else .error .strLitTooBig, 1 + n⟩
    else if c = '#' then
      match rest with
      | '-' :: r2 => let w := (spanW r2).1; ⟨lexSignedDec (c :: '-' :: w), 2 + w.length⟩
      | '#' :: _ =>
        let hs := rest.takeWhile (· = '#')
        let r2 := rest.drop hs.length
        let (minus, r3) := match r2 with | '-' :: r => (['-'], r) | _ => ([], r2)
        let w := (spanW r3).1
        ⟨lexSignedDec (c :: hs ++ minus ++ w), 1 + hs.length + minus.length + w.length⟩
      | _ => let w := (spanW rest).1; ⟨lexUnsignedDec (c :: w), 1 + w.length⟩
    else if c = '-' then
      match rest with
      | '#' :: _ =>
        let hs := rest.takeWhile (· = '#')
        let w := (spanW (rest.drop hs.length)).1
        ⟨lexSignedDec (c :: hs ++ w), 1 + hs.length + w.length⟩
      | _ => let w := (spanW rest).1; ⟨lexSignedDec (c :: w), 1 + w.length⟩
    else if isDigitC c then let w := (spanW rest).1; ⟨lexUnsignedDec (c :: w), 1 + w.length⟩
    else if c = 'x' ∨ c = 'X' then
      match rest with
      | '-' :: r2 => let w := (spanW r2).1; ⟨lexSignedHex (c :: '-' :: w), 2 + w.length⟩
      | d :: _ =>
        let w := (spanW rest).1
        if isHexStart d then ⟨lexUnsignedHex (c :: w), 1 + w.length⟩
        else ⟨.ok (.ident (Ident.ofText (c :: w))), 1 + w.length⟩
      | [] => ⟨.ok (.ident (Ident.ofText [c])), 1⟩
    else if c = 'R' ∨ c = 'r' then
      let w := (spanW rest).1
      if w ≠ [] ∧ w.all isDigitC then ⟨lexReg (c :: w), 1 + w.length⟩
      else ⟨.ok (.ident (Ident.ofText (c :: w))), 1 + w.length⟩
    else if isAsciiAlpha c ∨ c = '_' then let w := (spanW rest).1; ⟨.ok (.ident (Ident.ofText (c :: w))), 1 + w.length⟩
    else ⟨.error .invalidSymbol, 1⟩

/-- a token with its byte span -/
structure SpTok where
  tok : Token
  start : Nat
  stop : Nat
  deriving Repr, DecidableEq

/-- the whole lexer: tokens with byte spans, or the first error with its span. `fuel` ≥ number of chars. -/
def lexAll : Nat → List Char → Nat → List SpTok → Except (LexErr × Nat × Nat) (List SpTok)
  | 0, _, _, acc => .ok acc.reverse
  | _, [], _, acc => .ok acc.reverse
  | fuel + 1, c :: cs, off, acc =>
    if c = ' ' ∨ c = '\t' then lexAll fuel cs (off + 1) acc
    else
      let l := lexOne (c :: cs)
      let consumed := (c :: cs).take l.len
      let stop := off + blen consumed
      match l.res with
      | .error e => .error (e, off, stop)
      | .ok t => lexAll fuel ((c :: cs).drop l.len) stop (⟨t, off, stop⟩ :: acc)

def lex (cs : List Char) : Except (LexErr × Nat × Nat) (List SpTok) := lexAll (cs.length + 1) cs 0 []

end Lc3V
