/-
  Model/ObjBin.lean — the binary object-file format of /repo/src/asm/encoding.rs (`BinaryFormat`), after fix F5
  (relocation addresses little-endian).  Bytes are `List UInt8`.
-/
import Lc3V.Model.Asm
namespace Lc3V
namespace Bin

abbrev Bytes := List UInt8

def magic : Bytes := [0x6F, 0x62, 0x6A, 0x21, 0x10, 0x00, 0x01]   -- "obj\x21\x10" + version

/-- little-endian encoding of `n mod 2^(8k)` in `k` bytes -/
def le : Nat → Nat → Bytes
  | 0, _ => []
  | k + 1, n => UInt8.ofNat (n % 256) :: le k (n / 256)

/-- little-endian decoding -/
def unle : Bytes → Nat
  | [] => 0
  | b :: bs => b.toNat + 256 * unle bs

def utf8 (s : List Char) : Bytes := s.flatMap String.utf8EncodeChar

def wordBytes : Option W → Bytes
  | some w => 0xFF :: le 2 w.toNat
  | none => [0, 0, 0]

def serBlock (b : Nat × List (Option W)) : Bytes :=
  0x00 :: le 2 b.1 ++ le 2 b.2.length ++ b.2.flatMap wordBytes

def serLabel (e : Key × SymData) : Bytes :=
  0x01 :: le 2 e.2.addr.toNat ++ [if e.2.ext then 1 else 0] ++ le 8 e.2.srcStart ++ le 8 (blen e.1) ++ utf8 e.1

def serLineBlock (e : Nat × List W) : Bytes :=
  0x02 :: le 8 e.1 ++ le 2 e.2.length ++ e.2.flatMap (fun w => le 2 w.toNat)

def serSrc (s : List Char) : Bytes := 0x03 :: le 8 (blen s) ++ utf8 s

def serRel (e : W × Key) : Bytes := 0x04 :: le 2 e.1.toNat ++ le 8 (blen e.2) ++ utf8 e.2

/-- `BinaryFormat::serialize` (labels and relocation entries in the model's list order) -/
def serialize (o : ObjFile) : Bytes :=
  magic ++ o.blocks.flatMap serBlock ++
  (match o.sym with
   | none => []
   | some t =>
     t.labels.flatMap serLabel ++
     (match t.debug with
      | none => []
      | some d => d.lineMap.flatMap serLineBlock ++ serSrc d.src.src) ++
     t.rel.flatMap serRel)

/-! ### reader -/

def takeN (n : Nat) (bs : Bytes) : Option (Bytes × Bytes) :=
  if n ≤ bs.length then some (bs.take n, bs.drop n) else none

def chunks3 : Bytes → List (Option W)
  | a :: b :: c :: rest => (if a = 0xFF then some (BitVec.ofNat 16 (unle [b, c])) else none) :: chunks3 rest
  | _ => []

def chunks2 : Bytes → List W
  | a :: b :: rest => BitVec.ofNat 16 (unle [a, b]) :: chunks2 rest
  | _ => []

def strictAsc : List W → Bool
  | a :: b :: rest => a.toNat < b.toNat && strictAsc (b :: rest)
  | _ => true

/-- `String::from_utf8`: the text, if the bytes are valid UTF-8 -/
def fromUtf8 (bs : Bytes) : Option (List Char) := (String.fromUTF8? ⟨bs.toArray⟩).map String.toList

def setOrAppend {α β} [BEq α] (m : List (α × β)) (k : α) (v : β) : List (α × β) :=
  if m.any (fun e => e.1 == k) then m.map (fun e => if e.1 == k then (k, v) else e) else m ++ [(k, v)]

structure RdSt where
  blocks : Blocks := []
  labels : List (Key × SymData) := []
  rel : List (W × Key) := []
  debug : Option (List (Nat × List W) × List Char) := none

/-- one chunk -/
def readChunk (st : RdSt) (ident : UInt8) (bs : Bytes) : Option (RdSt × Bytes) :=
  if ident = 0x00 then do
    let (a, bs) ← takeN 2 bs
    let (l, bs) ← takeN 2 bs
    let (d, bs) ← takeN (3 * unle l) bs
    pure ({ st with blocks := insertSortedBy (unle a) (chunks3 d) st.blocks }, bs)
  else if ident = 0x01 then do
    let (a, bs) ← takeN 2 bs
    let (e, bs) ← takeN 1 bs
    let (ss, bs) ← takeN 8 bs
    let (sl, bs) ← takeN 8 bs
    let (sb, bs) ← takeN (unle sl) bs
    let s ← fromUtf8 sb
    pure ({ st with labels := setOrAppend st.labels s ⟨BitVec.ofNat 16 (unle a), unle ss, unle e != 0⟩ }, bs)
  else if ident = 0x02 then do
    let (lm, src) := st.debug.getD ([], [])
    let st := { st with debug := some (lm, src) }
    let (ln, bs) ← takeN 8 bs
    let (l, bs) ← takeN 2 bs
    let (d, bs) ← takeN (2 * unle l) bs
    let data := chunks2 d
    if strictAsc data then pure ({ st with debug := some (setOrAppend lm (unle ln) data, src) }, bs) else none
  else if ident = 0x03 then do
    let (lm, src) := st.debug.getD ([], [])
    let st := { st with debug := some (lm, src) }
    let (sl, bs) ← takeN 8 bs
    let (sb, bs) ← takeN (unle sl) bs
    let s ← fromUtf8 sb
    pure ({ st with debug := some (lm, src ++ s) }, bs)
  else if ident = 0x04 then do
    let (a, bs) ← takeN 2 bs
    let (sl, bs) ← takeN 8 bs
    let (sb, bs) ← takeN (unle sl) bs
    let s ← fromUtf8 sb
    pure ({ st with rel := setOrAppend st.rel (BitVec.ofNat 16 (unle a)) s }, bs)
  else none

def readChunks : Nat → RdSt → Bytes → Option RdSt
  | 0, st, bs => if bs.isEmpty then some st else none
  | _, st, [] => some st
  | fuel + 1, st, ident :: bs =>
    match readChunk st ident bs with
    | none => none
    | some (st', bs') => readChunks fuel st' bs'

def stripPrefix (p bs : Bytes) : Option Bytes := if p.isPrefixOf bs then some (bs.drop p.length) else none

/-- the debug symbols collected from 0x02/0x03 chunks: the line blocks must form a valid line map -/
def finishDebug : Option (List (Nat × List W) × List Char) → Option (Option DebugSyms)
  | none => some none
  | some (lm, src) => (LineMap.fromBlocks lm).map (fun m => some (⟨m, SourceInfo.ofText src⟩ : DebugSyms))

/-- a symbol table exists iff there is a label or debug information -/
def finishSym (st : RdSt) (debug : Option DebugSyms) : Option SymTab :=
  if !st.labels.isEmpty || debug.isSome then some ⟨st.labels, st.rel, debug⟩ else none

/-- `BinaryFormat::deserialize` -/
def deserialize (bs : Bytes) : Option ObjFile :=
  match stripPrefix magic bs with
  | none => none
  | some body =>
    match readChunks (body.length + 1) {} body with
    | none => none
    | some st =>
      match finishDebug st.debug with
      | none => none
      | some debug => some ⟨st.blocks, finishSym st debug⟩

end Bin
end Lc3V
