/-
  Model/ObjTxt.lean — the text object-file format of /repo/src/asm/encoding.rs (`TextFormat`), after fixes F7/F12
  (a `.DEBUG` section with a single divider carries a label table and no line table).
  Text is `List Char`; Rust's `str::escape_default`, `unescaper::unescape` (crate unescaper 0.1.5), `str::lines`,
  `str::trim`, `splitn`, `parse::<uN>` and the `{:04X}` / `{:w$}` formats are modelled here.
-/
import Lc3V.Model.Asm
import Lc3V.Model.Print
namespace Lc3V
namespace Txt
open SourceInfo (sliceBytes trimStart trimEnd)

abbrev Text := List Char

def hex4 (n : Nat) : Text := hexUpper 4 n
def nl : Text := ['\n']
def tdiv : Text := [' ', '|', ' ']
def uninit : Text := ['?', '?', '?', '?']
def divider : Text := List.replicate 20 '='

/-- `{s:w$}` for a string: left-aligned, padded with blanks to `w` characters -/
def padRight (s : Text) (w : Nat) : Text := s ++ List.replicate (w - s.length) ' '
/-- `{n:w$}` for a number: right-aligned -/
def padLeftNum (n w : Nat) : Text := let d := natDigits n; List.replicate (w - d.length) ' ' ++ d

/-- `char::escape_default` -/
def escapeDefaultChar (c : Char) : Text :=
  if c = '\t' then ['\\', 't'] else if c = '\r' then ['\\', 'r'] else if c = '\n' then ['\\', 'n']
  else if c = '\'' then ['\\', '\''] else if c = '"' then ['\\', '"'] else if c = '\\' then ['\\', '\\']
  else if 0x20 ≤ c.toNat ∧ c.toNat ≤ 0x7E then [c]
  else "\\u{".toList ++ (hexUpper 1 c.toNat).map Char.toLower ++ ['}']

def escapeDefault (s : Text) : Text := s.flatMap escapeDefaultChar

/-- lexicographic order on texts by code point (= Rust's byte order on UTF-8) -/
def textLt : Text → Text → Bool
  | [], [] => false
  | [], _ :: _ => true
  | _ :: _, [] => false
  | a :: as, b :: bs => if a.toNat < b.toNat then true else if a.toNat > b.toNat then false else textLt as bs

def insertBy {α} (lt : α → α → Bool) (x : α) : List α → List α
  | [] => [x]
  | y :: ys => if lt x y then x :: y :: ys else y :: insertBy lt x ys
/-- stable insertion sort -/
def sortBy {α} (lt : α → α → Bool) (l : List α) : List α := l.foldr (fun x acc => insertBy (fun a b => lt a b) x acc) []

def symLt (a b : Key × SymData) : Bool :=
  if a.2.addr.toNat ≠ b.2.addr.toNat then a.2.addr.toNat < b.2.addr.toNat
  else if a.1 ≠ b.1 then textLt a.1 b.1 else (!a.2.ext && b.2.ext)
def relLt (a b : W × Key) : Bool := if a.1.toNat ≠ b.1.toNat then a.1.toNat < b.1.toNat else textLt a.2 b.2
def idxLt (a b : Key × Nat) : Bool := if a.2 ≠ b.2 then a.2 < b.2 else textLt a.1 b.1

def serWord : Option W → Text
  | some w => hex4 w.toNat
  | none => uninit

def serBlock (b : Nat × List (Option W)) : Text :=
  hex4 b.1 ++ nl ++ natDigits b.2.length ++ nl ++ b.2.flatMap (fun w => serWord w ++ nl)

/-- line table: line ↦ (has a newline index, address), sorted by line -/
def lineTable (d : DebugSyms) : List (Nat × Option W) :=
  let base : List (Nat × Option W) := (List.range d.src.countLines).map (fun l => (l, none))
  d.lineMap.foldl (fun m b =>
    (List.range b.2.length).zip b.2 |>.foldl (fun m p => insertSortedBy ((b.1 + p.1) % 18446744073709551616) (some p.2) m) m) base

def srcLine (d : DebugSyms) (line : Nat) : Text :=
  match d.src.rawLineSpan line with
  | some (a, b) => sliceBytes d.src.src a b
  | none => []

def serSym (t : SymTab) : Text :=
  ".SYMBOL".toList ++ nl ++
  (if t.labels.isEmpty then [] else
    "ADDR | EXT | LABEL".toList ++ nl ++
    (sortBy symLt t.labels).flatMap (fun e => hex4 e.2.addr.toNat ++ tdiv ++ padLeftNum (if e.2.ext then 1 else 0) 3 ++ tdiv ++ e.1 ++ nl)) ++
  nl ++
  ".LINKER_INFO".toList ++ nl ++
  (if t.rel.isEmpty then [] else
    "ADDR | LABEL".toList ++ nl ++ (sortBy relLt t.rel).flatMap (fun e => hex4 e.1.toNat ++ tdiv ++ e.2 ++ nl)) ++
  nl ++
  ".DEBUG".toList ++ nl ++ "# DEBUG SYMBOLS FOR LC3TOOLS".toList ++ nl ++ nl ++
  (if t.labels.isEmpty then [] else
    let entries := sortBy idxLt (t.labels.map (fun e => (e.1, e.2.srcStart)))
    let lc := entries.foldl (fun m e => max m (blen e.1)) 5
    let ic := entries.foldl (fun m e => max m (natDigits e.2).length) 5
    padRight "LABEL".toList lc ++ tdiv ++ padRight "INDEX".toList ic ++ nl ++
    entries.flatMap (fun e => padRight e.1 lc ++ tdiv ++ padLeftNum e.2 ic ++ nl)) ++
  divider ++ nl ++
  (match t.debug with
   | none => []
   | some d =>
     let tbl := lineTable d
     (if tbl.isEmpty then [] else
       let last := (tbl.getLast?.map (·.1)).getD 0
       let lcol := max 4 (natDigits last).length
       padRight "LINE".toList lcol ++ tdiv ++ "ADDR".toList ++ tdiv ++ "SOURCE".toList ++ nl ++
       tbl.flatMap (fun r => padLeftNum r.1 lcol ++ tdiv ++ serWord r.2 ++ tdiv ++ escapeDefault (srcLine d r.1) ++ nl)) ++
     divider ++ nl)

/-- `TextFormat::serialize` -/
def serialize (o : ObjFile) : Text :=
  "LC-3 OBJ FILE".toList ++ nl ++ nl ++ ".TEXT".toList ++ nl ++ o.blocks.flatMap serBlock ++ nl ++
  (match o.sym with | none => [] | some t => serSym t)

/-! ### reader -/

def trim (s : Text) : Text := trimStart (trimEnd s)

/-- split on '\n' keeping nothing of the separator -/
def splitNl : Text → Text → List Text
  | [], cur => [cur.reverse]
  | c :: cs, cur => if c = '\n' then cur.reverse :: splitNl cs [] else splitNl cs (c :: cur)

def stripCr (l : Text) : Text := match l.reverse with | '\r' :: r => r.reverse | _ => l

/-- `str::lines` -/
def lines (s : Text) : List Text :=
  let parts := splitNl s []
  let parts := match parts.reverse with | [] :: r => r.reverse | _ => parts
  parts.map stripCr

def startsWith (l : Text) (c : Char) : Bool := match l with | x :: _ => x == c | [] => false

/-- `splitn(n, " | ")` -/
def splitN : Nat → Text → Text → List Text
  | 0, _, _ => []
  | 1, s, cur => [cur.reverse ++ s]
  | _ + 2, [], cur => [cur.reverse]
  | n + 2, ' ' :: '|' :: ' ' :: rest, cur => cur.reverse :: splitN (n + 1) rest []
  | n + 2, c :: rest, cur => splitN (n + 2) rest (c :: cur)

def parseUInt (hi : Int) (s : Text) : Option Nat :=
  match parseInt false 10 0 hi s with | .ok v => some v.toNat | .error _ => none

def hex2u16 (s : Text) : Option W :=
  if blen s = 4 then (match parseInt false 16 0 65535 s with | .ok v => some (BitVec.ofNat 16 v.toNat) | .error _ => none)
  else none

def maybeHex (s : Text) : Option (Option W) := if s = uninit then some none else (hex2u16 s).map some

/-- `parse_header` -/
def parseHeader (line : Text) (cols : List Text) : Bool := (splitN cols.length line []).map trim == cols

/-- `parse_row`: the segments, padded with "" to `n` columns -/
def rowSegs (n : Nat) (line : Text) : List Text :=
  let segs := splitN n line []
  segs ++ List.replicate (n - segs.length) []

def allSome {α} : List (Option α) → Option (List α)
  | [] => some []
  | none :: _ => none
  | some a :: rest => (allSome rest).map (a :: ·)

/-- `parse_table` -/
def parseTable {α} (contents : List Text) (cols : List Text) (row : List Text → Nat → Option α) (doTrim : Bool) :
    Option (List α) :=
  match contents with
  | [] => some []
  | header :: body =>
    if parseHeader header cols then
      allSome ((List.range body.length).zip body |>.map (fun p =>
        let segs := rowSegs cols.length p.2
        row (if doTrim then segs.map trim else segs) p.1))
    else none

/-! #### `unescaper::unescape` -/

def isOct (c : Char) : Bool := '0' ≤ c && c ≤ '7'

def radixU (radix : Nat) (hi : Int) (s : Text) : Option Nat :=
  match parseInt false radix 0 hi s with | .ok v => some v.toNat | .error _ => none

/-- `char::from_u32` -/
def charOfNat? (n : Nat) : Option Char :=
  if n < 0xD800 ∨ (0xDFFF < n ∧ n < 0x110000) then some (Char.ofNat n) else none

/-- `unescape_unicode_internal`, on the remaining characters -/
def unescUnicode (cs : Text) : Option (Char × Text) :=
  match cs with
  | [] => none
  | '{' :: rest =>
    let digits := rest.takeWhile (· ≠ '}')
    let rest' := (rest.dropWhile (· ≠ '}')).drop 1
    (radixU 16 0xFFFFFFFF digits).bind (fun n => (charOfNat? n).map (fun c => (c, rest')))
  | c :: rest =>
    if rest.length < 3 then none
    else (radixU 16 0xFFFFFFFF (c :: rest.take 3)).bind (fun n => (charOfNat? n).map (fun ch => (ch, rest.drop 3)))

def unescByte (cs : Text) : Option (Char × Text) :=
  if cs.length < 2 then none
  else (radixU 16 255 (cs.take 2)).map (fun n => (Char.ofNat n, cs.drop 2))

/-- `unescape_octal_internal c`: up to 3 digits after 0–3, up to 2 after 4–7 -/
def unescOctal (c : Char) (cs : Text) : Option (Char × Text) :=
  if '0' ≤ c && c ≤ '3' then
    let d1 := match cs with | x :: _ => if isOct x then [x] else [] | [] => []
    let cs1 := cs.drop d1.length
    let d2 := match cs1 with | x :: _ => if isOct x then [x] else [] | [] => []
    let cs2 := cs1.drop d2.length
    (radixU 8 255 (c :: d1 ++ d2)).map (fun n => (Char.ofNat n, cs2))
  else if '4' ≤ c && c ≤ '7' then
    let d1 := match cs with | x :: _ => if isOct x then [x] else [] | [] => []
    (radixU 8 255 (c :: d1)).map (fun n => (Char.ofNat n, cs.drop d1.length))
  else none

/-- the character denoted by an escape: `e` is the character after the backslash, `rest` what follows -/
def unescOne (e : Char) (rest : Text) : Option (Char × Text) :=
  if e = 'b' then some ('\x08', rest)
  else if e = 'f' then some ('\x0c', rest)
  else if e = 'n' then some ('\n', rest)
  else if e = 'r' then some ('\r', rest)
  else if e = 't' then some ('\t', rest)
  else if e = '\'' ∨ e = '"' ∨ e = '\\' ∨ e = '/' then some (e, rest)
  else if e = 'u' then unescUnicode rest
  else if e = 'x' then unescByte rest
  else unescOctal e rest

def afterBackslash : Text → Option (Char × Text)
  | [] => none
  | e :: rest => unescOne e rest

/-- `unescaper::unescape` (errors collapsed to `none`); `fuel` ≥ length -/
def unescape : Nat → Text → Text → Option Text
  | 0, _, acc => some acc.reverse
  | _, [], acc => some acc.reverse
  | fuel + 1, c :: cs, acc =>
    if c ≠ '\\' then unescape fuel cs (c :: acc)
    else match afterBackslash cs with
      | some (ch, r) => unescape fuel r (ch :: acc)
      | none => none

/-! #### deserialize -/

structure RdSt where
  blocks : Blocks := []
  labels : List (Key × SymData) := []
  rel : List (W × Key) := []
  debug : Option (List (Option W) × Text) := none

def updLabel (m : List (Key × SymData)) (k : Key) (f : SymData → SymData) : List (Key × SymData) :=
  if m.any (fun e => e.1 == k) then m.map (fun e => if e.1 == k then (k, f e.2) else e) else m ++ [(k, f ⟨0, 0, false⟩)]

def relSet (m : List (W × Key)) (a : W) (k : Key) : List (W × Key) := relInsert m a k

/-- the `.TEXT` group -/
def readText : Nat → List Text → Blocks → Option Blocks
  | 0, _, acc => some acc
  | _, [], acc => some acc
  | _, [_], _ => none
  | fuel + 1, origHex :: lenStr :: rest, acc =>
    match hex2u16 origHex, parseUInt 65535 lenStr with
    | some orig, some len =>
      let body := rest.take len
      if body.length ≠ len then none
      else match allSome (body.map maybeHex) with
        | none => none
        | some ws =>
          if acc.any (fun e => e.1 == orig.toNat) then none
          else readText fuel (rest.drop len) (insertSortedBy orig.toNat ws acc)
    | _, _ => none

def readGroup (st : RdSt) (group : List Text) : Option RdSt :=
  match group with
  | [] => none
  | header :: rest =>
    if header = ".TEXT".toList then (readText (rest.length + 1) rest st.blocks).map (fun b => { st with blocks := b })
    else if header = ".SYMBOL".toList then
      (parseTable rest ["ADDR".toList, "EXT".toList, "LABEL".toList] (fun cols _ =>
        match cols with
        | [a, e, l] => (match hex2u16 a, parseUInt 255 e with | some av, some ev => some (av, ev != 0, l) | _, _ => none)
        | _ => none) true).map (fun rows =>
          { st with labels := rows.foldl (fun m r => updLabel m r.2.2 (fun d => { d with addr := r.1, ext := r.2.1 })) st.labels })
    else if header = ".LINKER_INFO".toList then
      (parseTable rest ["ADDR".toList, "LABEL".toList] (fun cols _ =>
        match cols with
        | [a, l] => (hex2u16 a).map (fun av => (av, l))
        | _ => none) true).map (fun rows => { st with rel := rows.foldl (fun m r => relSet m r.1 r.2) st.rel })
    else if header = ".DEBUG".toList then
      if rest.isEmpty then some st
      else
        match rest.findIdx? (fun l => startsWith l '='), rest.getLast? with
        | some pos, some lastL =>
          if !startsWith lastL '=' then none
          else
            let labelSrc := rest.take pos
            let tail := rest.drop pos
            let lineSrc := if tail.length ≥ 2 then (tail.drop 1).dropLast else []
            match parseTable labelSrc ["LABEL".toList, "INDEX".toList] (fun cols _ =>
                match cols with
                | [l, ix] => (parseUInt 18446744073709551615 ix).map (fun n => (l, n))
                | _ => none) true with
            | none => none
            | some ltab =>
              let labels := ltab.foldl (fun m r => updLabel m r.1 (fun d => { d with srcStart := r.2 })) st.labels
              match parseTable lineSrc ["LINE".toList, "ADDR".toList, "SOURCE".toList] (fun cols i =>
                  match cols with
                  | [ls, as, src] =>
                    (match parseUInt 18446744073709551615 (trim ls) with
                     | some n => if n ≠ i then none else (maybeHex (trim as)).map (fun a => (a, src))
                     | none => none)
                  | _ => none) false with
              | none => none
              | some rows =>
                if rows.isEmpty then some { st with labels := labels }
                else
                  let (lm, src) := st.debug.getD ([], [])
                  let lm := lm ++ rows.map (·.1)
                  let src := src ++ rows.flatMap (·.2)
                  (unescape (src.length + 1) src []).map (fun u => { st with labels := labels, debug := some (lm, u) })
        | _, _ => none
    else none

/-- group the lines: a line starting with '.' opens a group -/
def groupLines : List Text → List (List Text) → Option (List (List Text))
  | [], acc => some (acc.reverse.map List.reverse)
  | l :: rest, acc =>
    if startsWith l '.' then groupLines rest ([l] :: acc)
    else match acc with
      | [] => none
      | g :: gs => groupLines rest ((l :: g) :: gs)

/-- `TextFormat::deserialize` -/
def deserialize (s : Text) : Option ObjFile := do
  let ls := (lines (trim s)).filter (fun l => !startsWith l '#') |>.filter (fun l => !(trim l).isEmpty)
  match ls with
  | [] => none
  | first :: rest =>
    if first ≠ "LC-3 OBJ FILE".toList then none
    else do
      let groups ← groupLines rest []
      let st ← groups.foldlM readGroup ({} : RdSt)
      let debug ← (match st.debug with
        | none => some none
        | some (lm, src) => (LineMap.new lm).map (fun m => some (⟨m, SourceInfo.ofText src⟩ : DebugSyms)))
      let sym := if !st.labels.isEmpty || debug.isSome then some (⟨st.labels, st.rel, debug⟩ : SymTab) else none
      pure ⟨st.blocks, sym⟩

end Txt
end Lc3V
