/-
  Model/Offset.lean — `Offset<OFF, N>` of /repo/src/ast.rs:249-383.

  Rust:  truncate(self, n) = (self << (BITS - n)) >> (BITS - n)      (u16: logical, i16: arithmetic)
         new(v)       = assert!(N <= BITS); if v == v.truncate(N) { Ok(Offset(v)) } else { Err(does_not_fit(N)) }
         new_trunc(v) = assert!(N <= BITS); Offset(v.truncate(N))
         get()        = self.0
  `N = 0` makes the shift amount 16 (a shift-overflow panic in the dev profile); `N > 16` fails the assert.
  Both are modelled as `panic`; the property (C35) quantifies over 1 ≤ N ≤ 16.
-/
import Lc3V.Model.Bits
namespace Lc3V

inductive OffsetNewErr where
  | cannotFitUnsigned (n : Nat)
  | cannotFitSigned (n : Nat)
  deriving Repr, DecidableEq

/-- `u16::truncate` -/
def truncU (n : Nat) (v : W) : W := (v <<< (16 - n)) >>> (16 - n)
/-- `i16::truncate` -/
def truncS (n : Nat) (v : W) : W := (v <<< (16 - n)).sshiftRight (16 - n)

/-- An offset holds the backing value (the Rust tuple field). -/
structure Offset (n : Nat) where
  val : W
  deriving Repr, DecidableEq

def Offset.get {n} (o : Offset n) : W := o.val

def newU (n : Nat) (v : W) : Outcome OffsetNewErr (Offset n) :=
  if n > 16 then .panic "ast.rs:330 assert N <= BITS"
  else if n = 0 then .panic "ast.rs:278 shift overflow"
  else if v = truncU n v then .ok ⟨v⟩ else .err (.cannotFitUnsigned n)

def newS (n : Nat) (v : W) : Outcome OffsetNewErr (Offset n) :=
  if n > 16 then .panic "ast.rs:330 assert N <= BITS"
  else if n = 0 then .panic "ast.rs:278 shift overflow"
  else if v = truncS n v then .ok ⟨v⟩ else .err (.cannotFitSigned n)

def newTruncU (n : Nat) (v : W) : Outcome OffsetNewErr (Offset n) :=
  if n > 16 then .panic "ast.rs:375 assert N <= BITS"
  else if n = 0 then .panic "ast.rs:278 shift overflow"
  else .ok ⟨truncU n v⟩

def newTruncS (n : Nat) (v : W) : Outcome OffsetNewErr (Offset n) :=
  if n > 16 then .panic "ast.rs:375 assert N <= BITS"
  else if n = 0 then .panic "ast.rs:278 shift overflow"
  else .ok ⟨truncS n v⟩

end Lc3V
