/-
  Model/Parse.lean — /repo/src/parse.rs: `Parser`, `TokenParse` impls, `AsmInstr` / `Directive` / `Stmt` parsers,
  `parse_ast`.  The parser works on the token vector with comments removed; `cursor()` is the span of the current
  token, or of the last token at the end of input, or 0..0.
-/
import Lc3V.Model.Ast
import Lc3V.Model.Offset
namespace Lc3V

inductive ParseErrKind where
  | offsetNew (e : OffsetNewErr)
  | lex (e : LexErr)
  | parse (msg : String)
  deriving Repr, DecidableEq

structure ParseErr where
  kind : ParseErrKind
  span : Nat × Nat
  deriving Repr, DecidableEq

abbrev PRes (α : Type) := Except ParseErr α

structure Parser where
  toks : Array SpTok
  idx : Nat

namespace Parser

def peek (p : Parser) : Option SpTok := p.toks[p.idx]?

/-- `cursor()` -/
def cursor (p : Parser) : Nat × Nat :=
  match p.peek with
  | some t => (t.start, t.stop)
  | none => match p.toks.back? with
    | some t => (t.start, t.stop)
    | none => (0, 0)

/-- `advance()` (index saturates at the token count) -/
def advance (p : Parser) : Parser := { p with idx := min (p.idx + 1) p.toks.size }

/-- `is_empty()`: only newlines remain -/
def isEmpty (p : Parser) : Bool := (p.toks.toList.drop p.idx).all (fun t => t.tok == .newline)

def perr {α} (msg : String) (sp : Nat × Nat) : PRes α := .error ⟨.parse msg, sp⟩

/-- span passed to a `match_` predicate: the token's span, or the cursor at end of input -/
def predSpan (p : Parser) : Nat × Nat := p.cursor

end Parser
open Parser

/-! ### token-level parsers (`TokenParse` impls) -/

def tokOf (p : Parser) : Option Token := p.peek.map (·.tok)

/-- `Reg`: `Token::Reg(n)` (n < 8 is guaranteed by the lexer) -/
def parseReg (p : Parser) : PRes (Reg × Parser) :=
  match tokOf p with
  | some (.reg n) =>
    if n < 8 then .ok (BitVec.ofNat 3 n, p.advance) else perr s!"invalid register number {n}" p.predSpan
  | _ => perr "expected register" p.predSpan

def parseComma (p : Parser) : PRes Parser :=
  match tokOf p with
  | some .comma => .ok p.advance
  | _ => perr "expected comma" p.predSpan

/-- conversion of a numeric token to a signed N-bit offset (`Offset<i16, N>::convert`) -/
def convSigned (n : Nat) (t : Token) (sp : Nat × Nat) : Option (PRes (BitVec n)) :=
  match t with
  | .unsigned v =>
    some (if v > 32767 then .error ⟨.lex .doesNotFitI16, sp⟩
          else match newS n (BitVec.ofNat 16 v) with
            | .ok _ => .ok (BitVec.ofNat n v)
            | .err e => .error ⟨.offsetNew e, sp⟩
            | .panic _ => .error ⟨.parse "panic", sp⟩)
  | .signed v =>
    some (match newS n (BitVec.ofInt 16 v) with
          | .ok _ => .ok (BitVec.ofInt n v)
          | .err e => .error ⟨.offsetNew e, sp⟩
          | .panic _ => .error ⟨.parse "panic", sp⟩)
  | _ => none

/-- conversion of a numeric token to an unsigned N-bit offset (`Offset<u16, N>::convert`) -/
def convUnsigned (n : Nat) (t : Token) (sp : Nat × Nat) : Option (PRes (BitVec n)) :=
  match t with
  | .unsigned v =>
    some (match newU n (BitVec.ofNat 16 v) with
          | .ok _ => .ok (BitVec.ofNat n v)
          | .err e => .error ⟨.offsetNew e, sp⟩
          | .panic _ => .error ⟨.parse "panic", sp⟩)
  | .signed v =>
    some (if v < 0 then .error ⟨.lex .doesNotFitU16, sp⟩
          else match newU n (BitVec.ofInt 16 v) with
            | .ok _ => .ok (BitVec.ofInt n v)
            | .err e => .error ⟨.offsetNew e, sp⟩
            | .panic _ => .error ⟨.parse "panic", sp⟩)
  | _ => none

/-- `parser.parse::<Offset<i16, N>>()` -/
def parseSOff (n : Nat) (p : Parser) : PRes (BitVec n × Parser) :=
  match p.peek with
  | some t => match convSigned n t.tok p.cursor with
    | some (.ok v) => .ok (v, p.advance)
    | some (.error e) => .error e
    | none => perr "expected immediate value" p.predSpan
  | none => perr "expected immediate value" p.predSpan

def parseUOff (n : Nat) (p : Parser) : PRes (BitVec n × Parser) :=
  match p.peek with
  | some t => match convUnsigned n t.tok p.cursor with
    | some (.ok v) => .ok (v, p.advance)
    | some (.error e) => .error e
    | none => perr "expected immediate value" p.predSpan
  | none => perr "expected immediate value" p.predSpan

/-- `Label`: `Token::Ident(Ident::Label(s))` -/
def labelOf (p : Parser) : Option Label :=
  match p.peek with
  | some ⟨.ident (.label s), a, _⟩ => some ⟨s, a⟩
  | _ => none

/-- `ImmOrReg<N>`: Either<Offset<i16,N>, Reg> -/
def parseImmOrReg (n : Nat) (p : Parser) : PRes (ImmOrReg n × Parser) :=
  match p.peek with
  | some t =>
    match convSigned n t.tok p.cursor with
    | some (.ok v) => .ok (.imm v, p.advance)
    | some (.error e) => .error e
    | none => match t.tok with
      | .reg r => if r < 8 then .ok (.reg (BitVec.ofNat 3 r), p.advance)
                  else perr "expected register or immediate value" p.cursor
      | _ => perr "expected register or immediate value" p.cursor
  | none => perr "expected register or immediate value" p.cursor

/-- `PCOffset<i16, N>`: Either<Offset<i16,N>, Label> -/
def parsePCOff (n : Nat) (p : Parser) : PRes (PCOff n × Parser) :=
  match p.peek with
  | some t =>
    match convSigned n t.tok p.cursor with
    | some (.ok v) => .ok (.off v, p.advance)
    | some (.error e) => .error e
    | none => match labelOf p with
      | some l => .ok (.label l, p.advance)
      | none => perr "expected offset or label" p.cursor
  | none => perr "expected offset or label" p.cursor

/-! ### instructions -/

def brCC : Kw → Option (BitVec 3)
  | .BR => some 7 | .BRP => some 1 | .BRZ => some 2 | .BRZP => some 3 | .BRN => some 4 | .BRNP => some 5
  | .BRNZ => some 6 | .BRNZP => some 7 | _ => none

/-- `AsmInstr::parse` -/
def parseInstr (p : Parser) : PRes (AsmInstr × Parser) :=
  match p.peek with
  | some ⟨.ident (.kw k), _, _⟩ =>
    let p := p.advance
    match brCC k with
    | some cc => do let (o, p) ← parsePCOff 9 p; pure (.br cc o, p)
    | none =>
    match k with
    | .ADD => do
      let (dr, p) ← parseReg p; let p ← parseComma p; let (sr1, p) ← parseReg p; let p ← parseComma p
      let (sr2, p) ← parseImmOrReg 5 p; pure (.add dr sr1 sr2, p)
    | .AND => do
      let (dr, p) ← parseReg p; let p ← parseComma p; let (sr1, p) ← parseReg p; let p ← parseComma p
      let (sr2, p) ← parseImmOrReg 5 p; pure (.and dr sr1 sr2, p)
    | .JMP => do let (b, p) ← parseReg p; pure (.jmp b, p)
    | .JSR => do let (o, p) ← parsePCOff 11 p; pure (.jsr o, p)
    | .JSRR => do let (b, p) ← parseReg p; pure (.jsrr b, p)
    | .LD => do let (dr, p) ← parseReg p; let p ← parseComma p; let (o, p) ← parsePCOff 9 p; pure (.ld dr o, p)
    | .LDI => do let (dr, p) ← parseReg p; let p ← parseComma p; let (o, p) ← parsePCOff 9 p; pure (.ldi dr o, p)
    | .LDR => do
      let (dr, p) ← parseReg p; let p ← parseComma p; let (b, p) ← parseReg p; let p ← parseComma p
      let (o, p) ← parseSOff 6 p; pure (.ldr dr b o, p)
    | .LEA => do let (dr, p) ← parseReg p; let p ← parseComma p; let (o, p) ← parsePCOff 9 p; pure (.lea dr o, p)
    | .NOT => do let (dr, p) ← parseReg p; let p ← parseComma p; let (sr, p) ← parseReg p; pure (.not dr sr, p)
    | .RET => pure (.ret, p)
    | .RTI => pure (.rti, p)
    | .ST => do let (sr, p) ← parseReg p; let p ← parseComma p; let (o, p) ← parsePCOff 9 p; pure (.st sr o, p)
    | .STI => do let (sr, p) ← parseReg p; let p ← parseComma p; let (o, p) ← parsePCOff 9 p; pure (.sti sr o, p)
    | .STR => do
      let (sr, p) ← parseReg p; let p ← parseComma p; let (b, p) ← parseReg p; let p ← parseComma p
      let (o, p) ← parseSOff 6 p; pure (.str sr b o, p)
    | .TRAP => do let (v, p) ← parseUOff 8 p; pure (.trap v, p)
    | .NOP =>
      match tokOf p with
      | some (.signed _) | some (.unsigned _) | some (.ident (.label _)) => do
        let (o, p) ← parsePCOff 9 p; pure (.nop o, p)
      | _ => pure (.nop (.off 0), p)
    | .GETC => pure (.getc, p) | .OUT => pure (.out, p) | .PUTC => pure (.putc, p) | .PUTS => pure (.puts, p)
    | .IN => pure (.in_, p) | .PUTSP => pure (.putsp, p) | .HALT => pure (.halt, p)
    | _ => perr "expected instruction" p.cursor
  | _ => perr "expected instruction" p.predSpan

/-! ### directives -/

/-- `Directive::parse` -/
def parseDirective (p : Parser) : PRes (Directive × Parser) :=
  let cur := p.cursor
  match p.peek with
  | some ⟨.directive name, _, _⟩ =>
    let p := p.advance
    let u := String.ofList (upperS name)
    if u = "ORIG" then do let (a, p) ← parseUOff 16 p; pure (.orig a, p)
    else if u = "FILL" then
      let sp := p.cursor
      match labelOf p with
      | some l => pure (.fill (.label l), p.advance)
      | none => match tokOf p with
        | some (.unsigned v) => pure (.fill (.off (BitVec.ofNat 16 v)), p.advance)
        | some (.signed v) => pure (.fill (.off (BitVec.ofInt 16 v)), p.advance)
        | _ => perr "expected numeric or label" sp
    else if u = "BLKW" then
      let sp := p.cursor
      do let (n, p) ← parseUOff 16 p
         if n ≠ 0 then pure (.blkw n, p) else perr "block size must be greater than 0" sp
    else if u = "STRINGZ" then
      match tokOf p with
      | some (.string s) => pure (.stringz s, p.advance)
      | _ => perr "expected string literal" p.predSpan
    else if u = "END" then pure (.end_, p)
    else if u = "EXTERNAL" then
      match labelOf p with
      | some l => pure (.external l, p.advance)
      | none => perr "expected label" p.predSpan
    else perr "invalid directive" cur
  | _ => perr "expected directive" p.predSpan

/-! ### statements -/

/-- the optional colon after a label -/
def skipColon (p : Parser) : Parser := match tokOf p with | some .colon => p.advance | _ => p

/-- the label / blank-line prefix loop of `Stmt::parse` -/
def parseLabels : Nat → Parser → List Label → Option (Nat × Nat) → List Label × Option (Nat × Nat) × Parser
  | 0, p, acc, last => (acc.reverse, last, p)
  | fuel + 1, p, acc, last =>
    if p.isEmpty then (acc.reverse, last, p)
    else
      let sp := p.cursor
      match labelOf p with
      | some l =>
        parseLabels fuel (skipColon p.advance) (l :: acc) (some sp)
      | none => match tokOf p with
        | some .newline => parseLabels fuel p.advance acc last
        | none => parseLabels fuel p.advance acc last
        | _ => (acc.reverse, last, p)

/-- skip the newlines after a statement: `while !is_empty() && match_::<End>()?.is_some() {}` -/
def skipNewlines : Nat → Parser → Parser
  | 0, p => p
  | fuel + 1, p =>
    if p.isEmpty then p
    else match tokOf p with
      | some .newline => skipNewlines fuel p.advance
      | _ => p

/-- the nucleus of a statement: `Either<AsmInstr, Directive>`; the error for neither points at the last label, if any -/
def parseNucleus (p : Parser) (last : Option (Nat × Nat)) : PRes (StmtKind × Parser) :=
  match tokOf p with
  | some (.directive _) => do let (d, p) ← parseDirective p; pure (.directive d, p)
  | some (.ident (.kw _)) => do let (i, p) ← parseInstr p; pure (.instr i, p)
  | _ => perr "expected instruction or directive" (last.getD p.cursor)

/-- `Stmt::parse` -/
def parseStmt (p : Parser) : PRes (Stmt × Parser) :=
  let (labels, last, p) := parseLabels (p.toks.size + 1) p [] none
  let start := p.cursor.1
  match parseNucleus p last with
  | .error e => .error e
  | .ok (k, p') =>
    -- span: from the cursor before the nucleus to the end of the last token consumed
    let stop := match p'.toks[p'.idx - 1]? with | some t => t.stop | none => start
    match tokOf p' with
    | none => .ok (⟨labels, k, (start, stop)⟩, skipNewlines (p'.toks.size + 1) p'.advance)
    | some .newline => .ok (⟨labels, k, (start, stop)⟩, skipNewlines (p'.toks.size + 1) p'.advance)
    | _ => perr "expected end of line" p'.predSpan

/-- the statement loop of `parse_ast` -/
def parseAll : Nat → Parser → List Stmt → PRes (List Stmt)
  | 0, _, acc => .ok acc.reverse
  | fuel + 1, p, acc =>
    if p.isEmpty then .ok acc.reverse
    else match parseStmt p with
      | .error e => .error e
      | .ok (s, p') => parseAll fuel p' (s :: acc)

/-- `parse_ast` -/
def parseAst (src : List Char) : PRes (List Stmt) :=
  match lex src with
  | .error (e, a, b) => .error ⟨.lex e, (a, b)⟩
  | .ok toks =>
    let toks := (toks.filter (fun t => t.tok != .comment)).toArray
    parseAll (toks.size + 1) ⟨toks, 0⟩ []

end Lc3V
