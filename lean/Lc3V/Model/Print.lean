/-
  Model/Print.lean — the `Display` impls of /repo/src/ast.rs and ast/asm.rs (`Stmt`, `AsmInstr`, `Directive`, offsets,
  registers, labels) and `disassemble_line`.  `{:?}` of a `.stringz` operand is Rust's `str` Debug escaping,
  modelled for ASCII (the property C36 restricts string literals to printable ASCII, tab, LF, CR, NUL).
-/
import Lc3V.Model.Ast
namespace Lc3V

def natDigits : Nat → List Char := fun n => (toString n).toList
def intDec (v : Int) : List Char := (toString v).toList

def hexDigitU (n : Nat) : Char := if n < 10 then Char.ofNat (48 + n) else Char.ofNat (55 + n)

/-- `{:0wX}`: upper-case hex, zero-padded to at least `w` digits -/
def hexUpper (w : Nat) (v : Nat) : List Char :=
  let rec go (fuel v : Nat) (acc : List Char) : List Char :=
    match fuel with
    | 0 => acc
    | fuel + 1 => if v = 0 then acc else go fuel (v / 16) (hexDigitU (v % 16) :: acc)
  let ds := if v = 0 then ['0'] else go 16 v []
  List.replicate (w - ds.length) '0' ++ ds

def showReg (r : Reg) : List Char := 'R' :: natDigits r.toNat
/-- `Offset<i16, N>` Display: `#` and the signed value -/
def showSOff {n} (o : BitVec n) : List Char := '#' :: intDec o.toInt
/-- `Offset<u16, N>` Display -/
def showUOff {n} (o : BitVec n) : List Char := '#' :: natDigits o.toNat

def showImmOrReg {n} : ImmOrReg n → List Char
  | .imm v => showSOff v
  | .reg r => showReg r

def showPCOff {n} : PCOff n → List Char
  | .off v => showSOff v
  | .label l => l.name

def showPCOffU {n} : PCOff n → List Char
  | .off v => showUOff v
  | .label l => l.name

def sp : List Char := [' ']
def cs : List Char := [',', ' ']

def showInstr : AsmInstr → List Char
  | .add d s o => "ADD ".toList ++ showReg d ++ cs ++ showReg s ++ cs ++ showImmOrReg o
  | .and d s o => "AND ".toList ++ showReg d ++ cs ++ showReg s ++ cs ++ showImmOrReg o
  | .br cc off =>
    (if cc ≠ 0 then "BR".toList ++ (if cc.getLsbD 2 then ['n'] else []) ++ (if cc.getLsbD 1 then ['z'] else []) ++
        (if cc.getLsbD 0 then ['p'] else [])
     else "NOP".toList) ++ sp ++ showPCOff off
  | .jmp b => "JMP ".toList ++ showReg b
  | .jsr o => "JSR ".toList ++ showPCOff o
  | .jsrr b => "JSRR ".toList ++ showReg b
  | .ld d o => "LD ".toList ++ showReg d ++ cs ++ showPCOff o
  | .ldi d o => "LDI ".toList ++ showReg d ++ cs ++ showPCOff o
  | .ldr d b o => "LDR ".toList ++ showReg d ++ cs ++ showReg b ++ cs ++ showSOff o
  | .lea d o => "LEA ".toList ++ showReg d ++ cs ++ showPCOff o
  | .not d s => "NOT ".toList ++ showReg d ++ cs ++ showReg s
  | .ret => "RET".toList
  | .rti => "RTI".toList
  | .st s o => "ST ".toList ++ showReg s ++ cs ++ showPCOff o
  | .sti s o => "STI ".toList ++ showReg s ++ cs ++ showPCOff o
  | .str s b o => "STR ".toList ++ showReg s ++ cs ++ showReg b ++ cs ++ showSOff o
  | .trap v => "TRAP x".toList ++ hexUpper 2 v.toNat
  | .nop o => "NOP ".toList ++ showPCOff o
  | .getc => "GETC".toList | .out => "OUT".toList | .putc => "PUTC".toList | .puts => "PUTS".toList
  | .in_ => "IN".toList | .putsp => "PUTSP".toList | .halt => "HALT".toList

/-- `char::escape_debug` as used by `<str as Debug>` (double quotes escaped, single quotes not) -/
def escapeDebugChar (c : Char) : List Char :=
  if c = '\x00' then ['\\', '0'] else if c = '\t' then ['\\', 't'] else if c = '\r' then ['\\', 'r']
  else if c = '\n' then ['\\', 'n'] else if c = '\\' then ['\\', '\\'] else if c = '"' then ['\\', '"']
  else if c.toNat < 0x20 ∨ c.toNat = 0x7F ∨ (c.toNat ≥ 128 ∧ inRanges Gen.escRanges c.toNat) then
    "\\u{".toList ++ (hexUpper 1 c.toNat).map Char.toLower ++ ['}']
  else [c]

def showStrDebug (s : List Char) : List Char := '"' :: s.flatMap escapeDebugChar ++ ['"']

def showDirective : Directive → List Char
  | .orig a => ['.', 'o', 'r', 'i', 'g', ' ', 'x'] ++ hexUpper 4 a.toNat
  | .fill v => ['.', 'f', 'i', 'l', 'l', ' '] ++ showPCOffU v
  | .blkw n => ['.', 'b', 'l', 'k', 'w', ' '] ++ showUOff n
  | .stringz s => ['.', 's', 't', 'r', 'i', 'n', 'g', 'z', ' '] ++ showStrDebug s
  | .end_ => ['.', 'e', 'n', 'd']
  | .external l => ['.', 'e', 'x', 't', 'e', 'r', 'n', 'a', 'l', ' '] ++ l.name

def showKind : StmtKind → List Char
  | .instr i => showInstr i
  | .directive d => showDirective d

/-- `Stmt` Display: each label followed by a blank, then the nucleus -/
def showStmt (s : Stmt) : List Char := s.labels.flatMap (fun l => l.name ++ sp) ++ showKind s.nucleus

/-- the assembly-level instruction a decoded instruction is printed as (aliases by name) -/
def SimInstr.toAsm : SimInstr → AsmInstr
  | .br cc off => .br cc (.off off)
  | .add d s o => .add d s o
  | .ld d o => .ld d (.off o)
  | .st s o => .st s (.off o)
  | .jsr (.imm o) => .jsr (.off o)
  | .jsr (.reg b) => .jsrr b
  | .and d s o => .and d s o
  | .ldr d b o => .ldr d b o
  | .str s b o => .str s b o
  | .rti => .rti
  | .not d s => .not d s
  | .ldi d o => .ldi d (.off o)
  | .sti s o => .sti s (.off o)
  | .jmp b => if b = 7 then .ret else .jmp b
  | .lea d o => .lea d (.off o)
  | .trap v => if v = 0x20 then .getc else if v = 0x21 then .putc else if v = 0x22 then .puts
      else if v = 0x23 then .in_ else if v = 0x24 then .putsp else if v = 0x25 then .halt else .trap v

/-- `try_disassemble_line` + `disassemble_line` -/
def disassembleKind (word : W) : StmtKind :=
  let fill := StmtKind.directive (.fill (.off word))
  if word.toNat < 0x0200 then fill
  else match SimInstr.decode word with
    | .error _ => fill
    | .ok si => .instr si.toAsm

def disassembleLine (word : W) : Stmt := ⟨[], disassembleKind word, (0, 0)⟩

end Lc3V
