/-
  Model/Sim.lean — the simulator core of /repo/src/sim.rs (+ sim/frame.rs, sim/observer.rs, sim/debug.rs):
  `read_mem`, `write_mem`, `set_pc`, `handle_interrupt`, `call_subroutine`, `_step_inner`, `step`, `step_in`,
  frames, observer, `in_alloca`, PSR, `run_while` and friends, `load_obj_file`, `new`, `reset`.

  `&mut self` methods become `SimM α = Sim → Except StepBreak α × Sim`: **the state after an error is part
  of the result** (DESIGN §4.1).  The ghost field `log` records every memory/device access with the
  privilege it was made with, newest first (used by C09/C28 theorems only; it has no counterpart in the code).
-/
import Lc3V.Model.Word
import Lc3V.Model.Instr
import Lc3V.Model.Dev
import Std.Data.TreeMap
namespace Lc3V

inductive SimErr where
  | illegalOpcode | invalidInstrFormat | privilegeViolation | accessViolation
  | unresolvedExternal
  | interrupt (tag : Nat)
  | strictRegSetUninit | strictMemSetUninit | strictIOSetUninit | strictJmpAddrUninit
  | strictSRAddrUninit | strictMemAddrUninit | strictPCCurrUninit | strictPCNextUninit | strictPSRSetUninit
  deriving Repr, DecidableEq

def SimErr.isStrict : SimErr → Bool
  | .strictRegSetUninit | .strictMemSetUninit | .strictIOSetUninit | .strictJmpAddrUninit
  | .strictSRAddrUninit | .strictMemAddrUninit | .strictPCCurrUninit | .strictPCNextUninit
  | .strictPSRSetUninit => true
  | _ => false

inductive StepBreak where
  | halt
  | err (e : SimErr)
  deriving Repr, DecidableEq

inductive Pause where
  | halt | mcrOff | breakpoint | tripwire | unsuccessful
  deriving Repr, DecidableEq

structure Flags where
  strict : Bool := false
  realTraps : Bool := false
  debugFrames : Bool := false
  ignorePriv : Bool := false
  deriving Repr, DecidableEq

inductive IReg where
  | pc | psr | mcr | savedSp
  deriving Repr, DecidableEq

inductive FrameType where
  | subroutine | trap | interrupt
  deriving Repr, DecidableEq

inductive ParamList where
  /-- `CallingConvention { params }`: only the number of parameters matters -/
  | callingConvention (n : Nat)
  /-- `PassByRegister { params, ret }`: the registers of the parameters -/
  | passByRegister (regs : List Reg)
  deriving Repr, DecidableEq

structure Frame where
  caller : W
  callee : W
  ftype : FrameType
  fp : Option Word
  args : List Word
  deriving Repr, DecidableEq

inductive Comparator where
  | never | lt (r : W) | eq (r : W) | le (r : W) | gt (r : W) | ne (r : W) | ge (r : W) | always
  deriving Repr, DecidableEq

def Comparator.check : Comparator → W → Bool
  | .never, _ => false
  | .lt r, x => x.toNat < r.toNat
  | .eq r, x => x == r
  | .le r, x => x.toNat ≤ r.toNat
  | .gt r, x => x.toNat > r.toNat
  | .ne r, x => x != r
  | .ge r, x => x.toNat ≥ r.toNat
  | .always, _ => true

inductive Breakpoint where
  | pc (a : W)
  | reg (r : Reg) (c : Comparator)
  | mem (a : W) (c : Comparator)
  deriving Repr, DecidableEq

/-- ghost: one memory / device access -/
structure Access where
  addr : W
  write : Bool
  privileged : Bool
  /-- the access reached memory/devices (not rejected by the privilege check) -/
  performed : Bool
  deriving Repr, DecidableEq

abbrev Mem := Vector Word 65536
abbrev Regs := Vector Word 8

structure Sim where
  mem : Mem
  regs : Regs
  pc : W
  psr : W
  savedSp : Word
  frameNo : Nat
  frames : Option (Array Frame)
  srDefs : List (W × ParamList)
  alloca : Array (W × W)
  instrRun : Nat
  prefetch : Bool
  pause : Pause
  observer : Std.TreeMap Nat Nat
  mcr : Bool
  flags : Flags
  breakpoints : List Breakpoint
  iregs : List (W × IReg)
  dev : DevHandler
  log : List Access

/-- memory context of an access (`MemAccessCtx`) -/
structure Ctx where
  privileged : Bool
  strict : Bool
  ioEffects : Bool
  track : Bool
  deriving Repr, DecidableEq

def Ctx.omnipotent : Ctx := ⟨true, false, false, false⟩

/-- `SimM`: state + early exit, the state survives the exit. -/
def SimM (α : Type) := Sim → Except StepBreak α × Sim

namespace SimM
@[inline] def pure {α} (a : α) : SimM α := fun s => (.ok a, s)
@[inline] def bind {α β} (m : SimM α) (f : α → SimM β) : SimM β := fun s =>
  match m s with
  | (.ok a, s') => f a s'
  | (.error e, s') => (.error e, s')
instance : Monad SimM where
  pure := pure
  bind := bind
@[inline] def throwB {α} (e : StepBreak) : SimM α := fun s => (.error e, s)
@[inline] def throwErr {α} (e : SimErr) : SimM α := fun s => (.error (.err e), s)
@[inline] def getS : SimM Sim := fun s => (.ok s, s)
@[inline] def modifyS (f : Sim → Sim) : SimM Unit := fun s => (.ok (), f s)
@[inline] def liftE {α} (x : Except SimErr α) : SimM α := fun s =>
  match x with
  | .ok a => (.ok a, s)
  | .error e => (.error (.err e), s)
end SimM
open SimM (getS modifyS throwB throwErr liftE)

/-! ### PSR (sim.rs:1486-1583) -/
namespace PSR
def new : W := 0x8002
def privileged (p : W) : Bool := (p >>> 15) == 0
def priority (p : W) : Nat := ((p >>> 8) &&& 7).toNat
def cc (p : W) : W := p &&& 7
/-- `set_cc`: an invalid CC (not exactly one bit) is coerced to Z -/
def setCC (p : W) (c : W) : W :=
  let c := c &&& 7
  let c := if c = 1 ∨ c = 2 ∨ c = 4 then c else 2
  (p &&& 0xFFF8) ||| c
/-- `PSR::set` (MMIO write): keeps bits 15, 10..8, 2..0, then normalises the CC -/
def set (_p : W) (data : W) : W := setCC (data &&& 0x8707) (data &&& 7)
def setPrivileged (p : W) (privl : Bool) : W := (p &&& 0x7FFF) ||| (if privl then 0 else 0x8000)
def setPriority (p : W) (prio : Nat) : W := (p &&& 0xF8FF) ||| ((BitVec.ofNat 16 (prio % 8)) <<< 8)
end PSR

namespace Sim

abbrev memAt (s : Sim) (a : W) : Word := s.mem[a.toNat]'(a.isLt)
abbrev setMem (s : Sim) (a : W) (w : Word) : Sim := { s with mem := s.mem.set a.toNat w a.isLt }
abbrev reg (s : Sim) (r : Reg) : Word := s.regs[r.toNat]'(r.isLt)
abbrev setReg (s : Sim) (r : Reg) (w : Word) : Sim := { s with regs := s.regs.set r.toNat w r.isLt }

def R6 : Reg := 6
def R7 : Reg := 7

/-- `default_mem_ctx` -/
def defaultCtx (s : Sim) : Ctx :=
  { privileged := PSR.privileged s.psr || s.flags.ignorePriv, strict := s.flags.strict, ioEffects := true, track := true }

/-- `AccessObserver::update_mem_accesses`: OR the flag into the entry (`BTreeMap<u16, AccessSet>` ↦ `TreeMap` keyed
    by the address as a number; a missing key means "not accessed") -/
def obsUpdate (obs : Std.TreeMap Nat Nat) (a : W) (flag : Nat) : Std.TreeMap Nat Nat :=
  obs.insert a.toNat (obs.getD a.toNat 0 ||| flag)

/-- `AccessObserver::get_mem_accesses` as flag bits (0 = not accessed) -/
def obsGet (obs : Std.TreeMap Nat Nat) (a : W) : Nat := obs.getD a.toNat 0

def OBS_READ : Nat := 1
def OBS_WRITTEN : Nat := 2
def OBS_MODIFIED : Nat := 4

def inUser (a : W) : Bool := 0x3000 ≤ a.toNat && a.toNat < 0xFE00

def iregLookup (s : Sim) (a : W) : Option IReg := (s.iregs.find? (fun p => p.1 == a)).map (·.2)

/-- `InternalRegister::read` -/
def iregRead (s : Sim) : IReg → W
  | .pc => s.pc
  | .psr => s.psr
  | .mcr => if s.mcr then 0x8000 else 0
  | .savedSp => s.savedSp.data

/-- `InternalRegister::write` -/
def iregWrite (s : Sim) (r : IReg) (data : W) : Sim :=
  match r with
  | .pc => { s with pc := data }
  | .psr => { s with psr := PSR.set s.psr data }
  | .mcr => { s with mcr := data.msb }
  | .savedSp => { s with savedSp := Word.ofData data }

/-- `Simulator::read_mem` -/
def readMem (addr : W) (ctx : Ctx) : SimM Word := fun s =>
  if !ctx.privileged && !inUser addr then
    (.error (.err .accessViolation), { s with log := ⟨addr, false, ctx.privileged, false⟩ :: s.log })
  else
    let s := { s with log := ⟨addr, false, ctx.privileged, true⟩ :: s.log }
    let s :=
      if IO_START ≤ addr.toNat then
        match s.iregLookup addr with
        | some ir => s.setMem addr ((s.memAt addr).set (s.iregRead ir))
        | none =>
          let (r, dev') := s.dev.ioRead addr ctx.ioEffects
          let s := { s with dev := dev' }
          match r with
          | some data => s.setMem addr ((s.memAt addr).set data)
          | none => s
      else s
    let s := if ctx.track then { s with observer := obsUpdate s.observer addr OBS_READ } else s
    (.ok (s.memAt addr), s)

/-- the "apply write to IO" part of `write_mem`: `ok true` = the write took effect (non-I/O address, mapped
    internal register, or a device accepted it) -/
def ioWritePart (s : Sim) (addr : W) (data : Word) (strict : Bool) : Except StepBreak Bool × Sim :=
  if IO_START ≤ addr.toNat then
    match data.getIfInit strict SimErr.strictIOSetUninit with
    | .error e => (.error (.err e), s)
    | .ok ioData =>
      match s.iregLookup addr with
      | some ir => (.ok true, s.iregWrite ir ioData)
      | none =>
        let r := s.dev.ioWrite addr ioData
        (.ok r.1, { s with dev := r.2 })
  else (.ok true, s)

/-- the "duplicate write in mem array" part of `write_mem` -/
def storePart (s : Sim) (addr : W) (data : Word) (ctx : Ctx) : Except StepBreak Unit × Sim :=
  let s :=
    if ctx.track then
      -- WRITTEN always; MODIFIED when the stored word (value or mask) differs from the previous content
      { s with observer := obsUpdate s.observer addr (OBS_WRITTEN ||| (bif s.memAt addr != data then OBS_MODIFIED else 0)) }
    else s
  match (s.memAt addr).setIfInit data ctx.strict SimErr.strictMemSetUninit with
  | .error e => (.error (.err e), s)
  | .ok w => (.ok (), s.setMem addr w)

/-- `Simulator::write_mem` -/
def writeMem (addr : W) (data : Word) (ctx : Ctx) : SimM Unit := fun s =>
  if !ctx.privileged && !inUser addr then
    (.error (.err .accessViolation), { s with log := ⟨addr, true, ctx.privileged, false⟩ :: s.log })
  else
    let s := { s with log := ⟨addr, true, ctx.privileged, true⟩ :: s.log }
    match ioWritePart s addr data ctx.strict with
    | (.error e, s) => (.error e, s)
    | (.ok false, s) => (.ok (), s)
    | (.ok true, s) => storePart s addr data ctx

/-- `prefetch_pc` (after fix F4: wrapping subtraction) -/
def prefetchPc (s : Sim) : W := s.pc - (if s.prefetch then 0 else 1)

/-- `set_pc(addr_word, st_check_mem)`; after fix F17/F18 the strict peek looks at the memory cell directly
    (no access check, no I/O, no observer mark). -/
def setPc (addrWord : Word) (check : Bool) : SimM Unit := do
  let s ← getS
  let addr ← liftE (addrWord.getIfInit s.flags.strict SimErr.strictJmpAddrUninit)
  if s.flags.strict && check then
    if !(s.memAt addr).isInit then throwErr .strictPCNextUninit
  modifyS (fun s => { s with pc := addr })

/-- `offset_pc(offset, st_check_mem)` -/
def offsetPc (off : W) (check : Bool) : SimM Unit := do
  let s ← getS
  setPc (Word.ofData (s.pc + off)) check

/-- `in_alloca`: the last block with `start <= addr` contains `addr` -/
def inAlloca (s : Sim) (addr : W) : Bool :=
  let firstPost := (s.alloca.toList.takeWhile (fun b => b.1.toNat ≤ addr.toNat)).length
  if firstPost = 0 then false
  else
    match s.alloca[firstPost - 1]? with
    | none => false
    | some (start, len) => if start.toNat + len.toNat > 0xFFFF then true else addr.toNat < start.toNat + len.toNat

/-- built-in trap signatures of `FrameStack::new` -/
def trapDef (vect : W) : Option ParamList :=
  if vect = 0x20 then some (.passByRegister [])
  else if vect = 0x21 then some (.passByRegister [0])
  else if vect = 0x22 then some (.passByRegister [0])
  else if vect = 0x23 then some (.passByRegister [])
  else if vect = 0x24 then some (.passByRegister [0])
  else if vect = 0x25 then some (.passByRegister [])
  else none

def srDef (s : Sim) (a : W) : Option ParamList := (s.srDefs.find? (fun p => p.1 == a)).map (·.2)

/-- signature looked up by `push_frame` for a callee of the given kind -/
def frameSig (s : Sim) (callee : W) : FrameType → Option ParamList
  | .subroutine => s.srDef callee
  | .trap => if callee.toNat < 256 then trapDef callee else none
  | .interrupt => s.srDef callee

/-- frame pointer and arguments recorded for a signature -/
def frameArgs (s : Sim) : Option ParamList → Option Word × List Word
  | some (.callingConvention n) =>
    let fp := Word.sub (s.reg R6) (Word.ofData 4)
    (some fp, (List.range n).map (fun i => s.memAt (fp.data + 4 + BitVec.ofNat 16 i)))
  | some (.passByRegister regs) => (none, regs.map (fun r => s.reg r))
  | none => (none, [])

/-- `FrameStack::push_frame`: depth + 1; with debug frames on, one `Frame` is appended -/
def pushFrame (s : Sim) (caller callee : W) (ft : FrameType) : Sim :=
  let fa := s.frameArgs (s.frameSig callee ft)
  { s with frameNo := s.frameNo + 1,
           frames := s.frames.map (fun fr => fr.push ⟨caller, callee, ft, fa.1, fa.2⟩) }

/-- `FrameStack::pop_frame` -/
def popFrame (s : Sim) : Sim :=
  { s with frameNo := s.frameNo - 1, frames := s.frames.map (fun f => f.pop) }

/-- `call_subroutine` -/
def callSubroutine (addr : W) : SimM Unit := do
  modifyS (fun s => s.setReg R7 ((s.reg R7).set s.pc))
  modifyS (fun s => s.pushFrame s.prefetchPc addr .subroutine)
  setPc (Word.ofData addr) true

/-- `call_interrupt` -/
def callInterrupt (vect : W) (ft : FrameType) : SimM Unit := do
  let s ← getS
  let w ← readMem vect s.defaultCtx
  let addr ← liftE (w.getIfInit s.flags.strict SimErr.strictSRAddrUninit)
  modifyS (fun s => s.pushFrame s.prefetchPc vect ft)
  setPc (Word.ofData addr) true

/-- `RealIntVect::try_from` -/
def realIntVect (vect : W) : Option StepBreak :=
  if vect = 0x25 then some .halt
  else if vect = 0x100 then some (.err .privilegeViolation)
  else if vect = 0x101 then some (.err .illegalOpcode)
  else if vect = 0x102 then some (.err .accessViolation)
  else none

/-- the virtual-trap branch of `handle_interrupt`: restore the PC of the faulting instruction (if it was already
    incremented), set `prefetch`, and break with halt / the exception's error -/
def virtualBreak (brk : StepBreak) : SimM Unit := do
  let s ← getS
  if !s.prefetch then
    offsetPc 0xFFFF false
    modifyS (fun s => { s with prefetch := true })
  throwB brk

/-- `std::mem::swap(&mut self.saved_sp, &mut self.reg_file[R6])` -/
def swapStacks (s : Sim) : Sim := { (s.setReg R6 s.savedSp) with savedSp := s.reg R6 }

/-- the supervisor entry after the stack switch: privilege on, push old PSR then old PC at R6, R6 -= 2, CC := Z,
    priority if an interrupt, jump through the vector table -/
def enterCore (vect : W) (priority : Option Nat) (oldPsr oldPc : W) : SimM Unit := do
  modifyS (fun s => { s with psr := PSR.setPrivileged s.psr true })
  let s ← getS
  let mctx := s.defaultCtx
  let sp ← liftE ((s.reg R6).getIfInit s.flags.strict SimErr.strictMemAddrUninit)
  modifyS (fun s => s.setReg R6 (Word.sub (s.reg R6) (Word.ofData 2)))
  writeMem (sp - 1) (Word.ofData oldPsr) mctx
  writeMem (sp - 2) (Word.ofData oldPc) mctx
  modifyS (fun s => { s with psr := PSR.setCC s.psr 2 })
  match priority with
  | some p => modifyS (fun s => { s with psr := PSR.setPriority s.psr p })
  | none => pure ()
  callInterrupt vect (if priority.isSome then .interrupt else .trap)

/-- the supervisor entry of `handle_interrupt`: switch stacks if coming from user mode, then `enterCore` with the
    PSR and PC of the interrupted context -/
def enterSupervisor (vect : W) (priority : Option Nat) : SimM Unit := fun s =>
  enterCore vect priority s.psr s.pc (if !PSR.privileged s.psr then s.swapStacks else s)

/-- the priority gate of `handle_interrupt`: an interrupt whose priority does not exceed the PSR's is ignored
    (traps and exceptions, `priority = None`, always pass) -/
def gated (s : Sim) : Option Nat → Bool
  | some p => decide (p ≤ PSR.priority s.psr)
  | none => false

/-- `handle_interrupt(vect, priority)`: priority gate, then virtual traps (HALT / the three exceptions when
    `use_real_traps` is off), otherwise the supervisor entry -/
def handleInterrupt (vect : W) (priority : Option Nat) : SimM Unit := fun s =>
  if s.gated priority then (.ok (), s)
  else if !s.flags.realTraps then
    match realIntVect vect with
    | some brk => virtualBreak brk s
    | none => enterSupervisor vect priority s
  else enterSupervisor vect priority s

/-- `set_cc(result)` -/
def setCCOf (s : Sim) (result : W) : Sim :=
  let c : W := if result.msb then 4 else if result = 0 then 2 else 1
  { s with psr := PSR.setCC s.psr c }

/-- writes a register under `set_if_init(val, strict, StrictRegSetUninit)` -/
def setRegIfInit (r : Reg) (val : Word) (strict : Bool) : SimM Unit := do
  let s ← getS
  let w ← liftE ((s.reg r).setIfInit val strict SimErr.strictRegSetUninit)
  modifyS (fun s => s.setReg r w)

def operand2 (s : Sim) : ImmOrReg 5 → Word
  | .imm v => Word.ofData (IOff.get v)
  | .reg r => s.reg r

/-- the execute stage of `_step_inner` for a decoded instruction (PC already incremented) -/
def execInstr (instr : SimInstr) : SimM Unit := do
  let s ← getS
  let strict := s.flags.strict
  match instr with
  | .br cc off =>
    if (cc.setWidth 16 &&& PSR.cc s.psr) ≠ 0 then offsetPc (IOff.get off) true
  | .add dr sr1 sr2 =>
    let result := Word.add (s.reg sr1) (s.operand2 sr2)
    setRegIfInit dr result strict
    modifyS (fun s => s.setCCOf result.data)
  | .ld dr off =>
    let ea := s.pc + IOff.get off
    let writeStrict := strict && !s.inAlloca ea
    let val ← readMem ea s.defaultCtx
    setRegIfInit dr val writeStrict
    modifyS (fun s => s.setCCOf val.data)
  | .st sr off =>
    let ea := s.pc + IOff.get off
    let ctx := { s.defaultCtx with strict := strict && !s.inAlloca ea }
    writeMem ea (s.reg sr) ctx
  | .jsr op =>
    let w := match op with
      | .imm off => Word.ofData (s.pc + IOff.get off)
      | .reg b => s.reg b
    let addr ← liftE (w.getIfInit strict SimErr.strictSRAddrUninit)
    callSubroutine addr
  | .and dr sr1 sr2 =>
    let result := Word.and (s.reg sr1) (s.operand2 sr2)
    setRegIfInit dr result strict
    modifyS (fun s => s.setCCOf result.data)
  | .ldr dr b off =>
    let base ← liftE ((s.reg b).getIfInit strict SimErr.strictMemAddrUninit)
    let ea := base + IOff.get off
    let writeStrict := strict && b != R6 && !s.inAlloca ea
    let val ← readMem ea s.defaultCtx
    setRegIfInit dr val writeStrict
    modifyS (fun s => s.setCCOf val.data)
  | .str sr b off =>
    let base ← liftE ((s.reg b).getIfInit strict SimErr.strictMemAddrUninit)
    let ea := base + IOff.get off
    let ctx := { s.defaultCtx with strict := strict && b != R6 && !s.inAlloca ea }
    writeMem ea (s.reg sr) ctx
  | .rti =>
    if PSR.privileged s.psr || s.flags.ignorePriv then
      let mctx := s.defaultCtx
      let sp ← liftE ((s.reg R6).getIfInit strict SimErr.strictMemAddrUninit)
      let pcw ← readMem sp mctx
      let pc ← liftE (pcw.getIfInit strict SimErr.strictJmpAddrUninit)
      let psrw ← readMem (sp + 1) mctx
      let psr ← liftE (psrw.getIfInit strict SimErr.strictPSRSetUninit)
      modifyS (fun s => s.setReg R6 (Word.add (s.reg R6) (Word.ofData 2)))
      setPc (Word.ofData pc) true
      modifyS (fun s => { s with psr := psr })
      let s ← getS
      if !PSR.privileged s.psr then
        modifyS (fun s => { (s.setReg R6 s.savedSp) with savedSp := s.reg R6 })
      modifyS popFrame
    else throwErr .privilegeViolation
  | .not dr sr =>
    let result := Word.not (s.reg sr)
    setRegIfInit dr result strict
    modifyS (fun s => s.setCCOf result.data)
  | .ldi dr off =>
    let shifted := s.pc + IOff.get off
    let pw ← readMem shifted s.defaultCtx
    let ea ← liftE (pw.getIfInit strict SimErr.strictMemAddrUninit)
    let s ← getS
    let writeStrict := strict && !s.inAlloca ea
    let val ← readMem ea s.defaultCtx
    setRegIfInit dr val writeStrict
    modifyS (fun s => s.setCCOf val.data)
  | .sti sr off =>
    let shifted := s.pc + IOff.get off
    let pw ← readMem shifted s.defaultCtx
    let ea ← liftE (pw.getIfInit strict SimErr.strictMemAddrUninit)
    let s ← getS
    let ctx := { s.defaultCtx with strict := strict && !s.inAlloca ea }
    writeMem ea (s.reg sr) ctx
  | .jmp b =>
    setPc (s.reg b) true
    if b = R7 then modifyS popFrame
  | .lea dr off =>
    modifyS (fun s => s.setReg dr ((s.reg dr).set (s.pc + IOff.get off)))
  | .trap vect =>
    handleInterrupt (UOff.get vect) none

def decodeErr : DecodeErr → SimErr
  | .illegalOpcode => .illegalOpcode
  | .invalidInstrFormat => .invalidInstrFormat

/-- state after the device poll that opens every step (`self.prefetch = true; poll_interrupt()`) -/
def afterPoll (s : Sim) : Sim := { s with prefetch := true, dev := (s.dev.pollInterrupt).2 }

/-- state in which the execute stage runs: PC incremented, `prefetch` cleared -/
def execState (s2 : Sim) : Sim := { s2 with pc := s2.pc + 1, prefetch := false }

/-- finishing a step: the instruction counter advances (mod 2^64) -/
def countInstr (s3 : Sim) : Sim := { s3 with instrRun := (s3.instrRun + 1) % 2 ^ 64 }

/-- fetch, decode, increment PC, execute, count (the part of `_step_inner` after the interrupt poll) -/
def fetchExec : SimM Unit := do
  let s ← getS
  let w ← readMem s.pc s.defaultCtx
  let word ← liftE (w.getIfInit s.flags.strict SimErr.strictPCCurrUninit)
  let instr ← liftE ((SimInstr.decode word).mapError decodeErr)
  offsetPc 1 false
  modifyS (fun s => { s with prefetch := false })
  execInstr instr
  modifyS countInstr

/-- `_step_inner` -/
def stepInner : SimM Unit := fun s =>
  let s1 := afterPoll s
  match (s.dev.pollInterrupt).1 with
  | some (.vectored vect prio) =>
    if prio > PSR.priority s1.psr then handleInterrupt (0x100 + vect.setWidth 16) (some prio) s1
    else fetchExec s1
  | some (.external tag) => (.error (.err (.interrupt tag)), s1)
  | none => fetchExec s1

/-- `step`: real traps re-enter `handle_interrupt` with the OS vector -/
def step : SimM Unit := fun s =>
  match stepInner s with
  | (r, s') =>
    if !s'.flags.realTraps then (r, s')
    else match r with
      | .error .halt => handleInterrupt 0x25 none s'
      | .error (.err .privilegeViolation) => handleInterrupt 0x100 none s'
      | .error (.err .illegalOpcode) => handleInterrupt 0x101 none s'
      | .error (.err .invalidInstrFormat) => handleInterrupt 0x101 none s'
      | .error (.err .accessViolation) => handleInterrupt 0x102 none s'
      | r => (r, s')

/-- result of a public execution call -/
abbrev RunRes := Except SimErr Unit

/-- `step_in` -/
def stepIn (s : Sim) : RunRes × Sim :=
  let s := { s with observer := {}, log := [] }
  match step s with
  | (.ok _, s') => (.ok (), s')
  | (.error .halt, s') => (.ok (), s')
  | (.error (.err e), s') => (.error e, s')

/-- `Breakpoint::check` -/
def bpCheck (s : Sim) : Breakpoint → Bool
  | .pc a => a == s.pc
  | .reg r c => c.check (s.reg r).data
  | .mem a c => c.check (s.memAt a).data

/-- the closures passed to `run_while` by the public API (and the harness's MCR-clearing tripwire) -/
inductive Tripwire where
  | always
  | limit (start max : Nat)
  | over (curr : Nat)
  | out (curr : Nat)
  /-- harness tripwire: clears the MCR (as another thread would) during iteration `k` (1-based), then continues;
      combined with a step limit -/
  | mcrAt (k : Nat) (start max : Nat)
  deriving Repr, DecidableEq

/-- evaluates the tripwire at iteration `iter` (1-based; `first` = iter == 1); may clear the MCR -/
def tripwireEval (tw : Tripwire) (iter : Nat) (s : Sim) : Bool × Sim :=
  match tw with
  | .always => (true, s)
  | .limit start max => (decide ((s.instrRun + 2 ^ 64 - start) % 2 ^ 64 < max), s)
  | .over curr => (iter == 1 || decide (curr < s.frameNo), s)
  | .out curr => (iter == 1 || decide (curr ≤ s.frameNo), s)
  | .mcrAt k start max =>
    let s := if iter = k then { s with mcr := false } else s
    (decide ((s.instrRun + 2 ^ 64 - start) % 2 ^ 64 < max), s)

/-- the event loop of `run_while`; `none` = fuel exhausted (the Rust call would still be running) -/
def runLoop (tw : Tripwire) : Nat → Nat → Sim → Option (Except SimErr Pause × Sim)
  | 0, _, _ => none
  | fuel + 1, iter, s =>
    if !s.mcr then some (.ok .mcrOff, s)
    else
      let (go, s) := tripwireEval tw iter s
      if !go then some (.ok .tripwire, s)
      else match step s with
        | (.error .halt, s) => some (.ok .halt, s)
        | (.error (.err e), s) => some (.error e, s)
        | (.ok _, s) =>
          if s.breakpoints.any (bpCheck s) then some (.ok .breakpoint, s)
          else runLoop tw fuel (iter + 1) s

/-- `run_while(tripwire)` -/
def runWhile (tw : Tripwire) (fuel : Nat) (s : Sim) : Option (RunRes × Sim) :=
  let s := { s with observer := {}, log := [], pause := .unsuccessful, mcr := true }
  match runLoop tw fuel 1 s with
  | none => none
  | some (.ok p, s) => some (.ok (), { s with mcr := false, pause := p })
  | some (.error e, s) => some (.error e, { s with mcr := false })

def run (fuel : Nat) (s : Sim) := runWhile .always fuel s
def runWithLimit (max : Nat) (fuel : Nat) (s : Sim) := runWhile (.limit s.instrRun max) fuel s
def stepOver (fuel : Nat) (s : Sim) := runWhile (.over s.frameNo) fuel s
def stepOut (fuel : Nat) (s : Sim) : Option (RunRes × Sim) :=
  if s.frameNo ≠ 0 then runWhile (.out s.frameNo) fuel s else some (.ok (), s)

def hitBreakpoint (s : Sim) : Bool := s.pause == .breakpoint
def hitHalt (s : Sim) : Bool := s.pause == .halt || s.pause == .mcrOff

/-! ### Machine: `new`, `load_obj_file`, `reset`, `mmap_internal` -/

/-- `MemArray::copy_obj_block`: writes `data[i]` at `start + i` (wrapping): `Some(w)` ↦ initialised `w`,
    `None` ↦ clear the initialisation mask, keep the data. -/
def copyObjBlock (mem : Mem) (start : W) (data : List (Option W)) : Mem :=
  (data.foldl (fun (acc : Mem × W) o =>
    let a := acc.2
    let cell := acc.1[a.toNat]'(a.isLt)
    let cell' := match o with
      | some w => Word.ofData w
      | none => cell.clearInit
    (acc.1.set a.toNat cell' a.isLt, a + 1)) (mem, start)).1

/-- the allocation list `load_obj_file` computes from the blocks (before sorting) -/
def allocaOf (blocks : List (W × List (Option W))) : List (W × W) :=
  blocks.flatMap (fun b =>
    let start := b.1
    let len : W := BitVec.ofNat 16 b.2.length
    let stop := start + len
    if start.toNat < stop.toNat then [(start, len)]
    else if start = stop then []
    else (start, 0 - start) :: (if stop ≠ 0 then [(0, stop)] else []))

/-- stable insertion sort by start (`sort_by_key` is stable) -/
def sortAlloca (l : List (W × W)) : List (W × W) :=
  l.foldl (fun acc x =>
    let (lo, hi) := acc.span (fun y => y.1.toNat ≤ x.1.toNat)
    lo ++ x :: hi) []

/-- `load_obj_file` given the block list (in `BTreeMap` order) and whether an external symbol is present -/
def loadObj (s : Sim) (blocks : List (W × List (Option W))) (hasExternal : Bool) : Except SimErr Unit × Sim :=
  if hasExternal then (.error .unresolvedExternal, s)
  else
    let mem := blocks.foldl (fun m b => copyObjBlock m b.1 b.2) s.mem
    (.ok (), { s with mem := mem, alloca := (sortAlloca (allocaOf blocks)).toArray })

def defaultIregs : List (W × IReg) := [(0xFFFC, .psr), (0xFFFE, .mcr)]

/-- `new_with_mcr(flags, mcr)`: `fill i` is the i-th value the filler generates (memory first, then registers);
    `os` is the OS object file's block list. -/
def newSim (flags : Flags) (fill : Nat → W) (os : List (W × List (Option W))) (mcr : Bool) : Sim :=
  let mem : Mem := Vector.ofFn (fun (i : Fin 65536) =>
    if IO_START ≤ i.val then Word.ofData 0 else Word.uninit (fill i.val))
  let regs : Regs := Vector.ofFn (fun (i : Fin 8) => Word.uninit (fill (65536 + i.val)))
  let s : Sim := {
    mem := mem, regs := regs, pc := 0x3000, psr := PSR.new, savedSp := Word.ofData 0x3000,
    frameNo := 0, frames := if flags.debugFrames then some #[] else none, srDefs := [],
    alloca := #[], instrRun := 0, prefetch := false, pause := .unsuccessful, observer := {},
    mcr := mcr, flags := flags, breakpoints := [], iregs := defaultIregs, dev := DevHandler.new, log := [] }
  (s.loadObj os false).2

/-- `reset` -/
def reset (s : Sim) (fill : Nat → W) (os : List (W × List (Option W))) : Sim :=
  let n := newSim s.flags fill os s.mcr
  { n with breakpoints := s.breakpoints, iregs := s.iregs, dev := s.dev.ioReset }

/-- `mmap_internal`: `none` = ok -/
inductive MMapErr where | notInIORange | addrAlreadyMapped
  deriving Repr, DecidableEq

def mmapInternal (s : Sim) (addr : W) (r : IReg) : Except MMapErr Unit × Sim :=
  if addr.toNat < IO_START then (.error .notInIORange, s)
  else if (s.iregLookup addr).isSome then (.error .addrAlreadyMapped, s)
  else (.ok (), { s with iregs := s.iregs ++ [(addr, r)] })

def munmapInternal (s : Sim) (addr : W) : Bool × Sim :=
  ((s.iregLookup addr).isSome, { s with iregs := s.iregs.filter (fun p => p.1 != addr) })

end Sim
end Lc3V
