/-
  Model/Source.lean — `SourceInfo` of /repo/src/asm.rs:300-440 (line/position queries over the source text).
  Text is a `List Char`; Rust spans are UTF-8 *byte* offsets, computed here with `Char.utf8Size`.
  `str::trim_*` uses `char::is_whitespace` (Unicode White_Space), listed explicitly in `rustWs`.
-/
import Lc3V.Model.Bits
namespace Lc3V

/-- `char::is_whitespace`: the 25 White_Space code points -/
def rustWs (c : Char) : Bool :=
  let n := c.toNat
  (0x9 ≤ n && n ≤ 0xD) || n == 0x20 || n == 0x85 || n == 0xA0 || n == 0x1680 || (0x2000 ≤ n && n ≤ 0x200A) ||
  n == 0x2028 || n == 0x2029 || n == 0x202F || n == 0x205F || n == 0x3000

/-- UTF-8 byte length of a text -/
def blen : List Char → Nat
  | [] => 0
  | c :: cs => c.utf8Size + blen cs

/-- byte indices of every '\n', given the byte offset of the first char -/
def nlFrom : Nat → List Char → List Nat
  | _, [] => []
  | off, c :: cs => if c = '\n' then off :: nlFrom (off + 1) cs else nlFrom (off + c.utf8Size) cs

structure SourceInfo where
  src : List Char
  /-- byte index of every newline, then the total byte length -/
  nl : List Nat

namespace SourceInfo

/-- `SourceInfo::from_string` -/
def ofText (cs : List Char) : SourceInfo := ⟨cs, nlFrom 0 cs ++ [blen cs]⟩

/-- `count_lines` -/
def countLines (s : SourceInfo) : Nat := s.nl.length

/-- `raw_line_span`: the line including its newline -/
def rawLineSpan (s : SourceInfo) (line : Nat) : Option (Nat × Nat) :=
  if line < s.countLines then
    let start := if line = 0 then 0 else s.nl.getD (line - 1) 0 + 1
    let eof := blen s.src
    let stop := match s.nl[line]? with
      | some i => min (i + 1) eof
      | none => eof
    some (start, stop)
  else none

/-- the chars of `&src[start..stop]` (both on char boundaries) -/
def sliceBytes : List Char → Nat → Nat → List Char
  | [], _, _ => []
  | c :: cs, start, stop =>
    if stop = 0 then []
    else if start = 0 then (if c.utf8Size ≤ stop then c :: sliceBytes cs 0 (stop - c.utf8Size) else [])
    else sliceBytes cs (start - c.utf8Size) (stop - c.utf8Size)

def trimEnd (cs : List Char) : List Char := (cs.reverse.dropWhile rustWs).reverse
def trimStart (cs : List Char) : List Char := cs.dropWhile rustWs

/-- `line_span`: the line without surrounding whitespace, as a byte range -/
def lineSpan (s : SourceInfo) (line : Nat) : Option (Nat × Nat) :=
  match s.rawLineSpan line with
  | none => none
  | some (start, stop) =>
    let l := sliceBytes s.src start stop
    let et := trimEnd l
    let stop := stop - (blen l - blen et)
    let start := start + (blen et - blen (trimStart et))
    some (start, stop)

/-- `read_line` -/
def readLine (s : SourceInfo) (line : Nat) : Option (List Char) :=
  (s.lineSpan line).map (fun r => sliceBytes s.src r.1 r.2)

/-- `get_line`: `partition_point(|&start| start < index)` on the (sorted) newline table -/
def getLine (s : SourceInfo) (index : Nat) : Nat := (s.nl.takeWhile (· < index)).length

/-- `get_pos_pair` (after fix F15: an index past the end lands on the last line) -/
def getPosPair (s : SourceInfo) (index : Nat) : Nat × Nat :=
  let lno := min (s.getLine index) (s.countLines - 1)
  let lstart := match s.rawLineSpan lno with
    | some (a, _) => a
    | none => 0
  (lno, index - lstart)

end SourceInfo
end Lc3V
