/-
  Model/Word.lean — `Word` of /repo/src/sim/mem.rs:55-293: a 16-bit value plus a per-bit initialisation mask.
-/
import Lc3V.Model.Bits
namespace Lc3V

structure Word where
  data : W
  init : W
  deriving Repr, DecidableEq, Inhabited

namespace Word

def ALL : W := BitVec.allOnes 16
def NONE : W := 0

/-- `Word::new_init` / `From<u16>` / `From<i16>` -/
def ofData (d : W) : Word := ⟨d, ALL⟩
/-- `Word::new_uninit` with the filler's value -/
def uninit (d : W) : Word := ⟨d, NONE⟩
/-- `Word::get` -/
def get (w : Word) : W := w.data
/-- `Word::is_init` -/
def isInit (w : Word) : Bool := w.init == ALL
/-- `Word::set` -/
def set (_w : Word) (d : W) : Word := ⟨d, ALL⟩
/-- `Word::clear_init` -/
def clearInit (w : Word) : Word := ⟨w.data, NONE⟩

/-- `Word::get_if_init(strict, err)` -/
def getIfInit {ε} (w : Word) (strict : Bool) (e : ε) : Except ε W :=
  if !strict || w.isInit then .ok w.data else .error e

/-- `Word::set_if_init(data, strict, err)`: returns the new contents of the destination. -/
def setIfInit {ε} (_dst : Word) (src : Word) (strict : Bool) (e : ε) : Except ε Word :=
  if !strict || src.isInit then .ok src else .error e

/-- `impl Not for Word` -/
def not (a : Word) : Word := ⟨~~~a.data, a.init⟩

/-- `impl Add for Word` -/
def add (a b : Word) : Word :=
  if b.data == 0 && b.init == ALL then a
  else if a.data == 0 && a.init == ALL then b
  else ⟨a.data + b.data, if a.init == ALL && b.init == ALL then ALL else NONE⟩

/-- `impl Sub for Word` -/
def sub (a b : Word) : Word :=
  if b.data == 0 && b.init == ALL then a
  else ⟨a.data - b.data, if a.init == ALL && b.init == ALL then ALL else NONE⟩

/-- `impl BitAnd for Word` -/
def and (a b : Word) : Word :=
  ⟨a.data &&& b.data, (a.init &&& b.init) ||| (~~~a.data &&& a.init) ||| (~~~b.data &&& b.init)⟩

end Word
end Lc3V
