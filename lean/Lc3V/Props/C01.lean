/-
  C01 — Assembled image is the exact LC-3 encoding of the source.   (proved for the model; see the last paragraph)
  Proved for every program: the per-statement facts the property lists — an instruction contributes exactly one word, the
  encoding of its expansion (aliases by table, label operands replaced by `label address − address of the following word`
  whenever that fits the field); `.fill` contributes the value or the label's address, `.stringz` its UTF-8 bytes and a
  zero, `.blkw n` exactly `n` uninitialised words; every statement contributes exactly `word_len` words, so throughout
  pass 2 the location counter equals block start + words emitted (statements are placed at the address implied by the
  `.orig` and the sizes before them); pass 1 binds a label to the location counter of its statement.
  Proved across the two passes (Lemmas/TwoPass.lean): both passes keep the same location counter over any prefix of the
  program, bindings made by pass 1 are never changed afterwards, hence `label_address`: every label of a statement maps,
  in the final symbol table, to the location counter pass 2 has when it reaches that statement = block start + words
  emitted so far.
  Whole program (Lemmas/Image.lean, Lemmas/Structure.lean; `assembled_image_any`): any program that assembles is a
  sequence of closed, non-nested `.orig … .end` blocks with only `.external` declarations outside them, the object file's block map is sorted, contains every block with a non-empty
  body under its `.orig` address holding exactly the words of its statements in order, and contains nothing else — the
  "no other address is defined" clause; `body_words_layout` places each statement's words at block start + sizes before it.
  Not one theorem: that `t` is *the* table in which each label has its statement's address is `label_maps_to_statement_address`
  (a second theorem over the same `pass1` result), and well-formedness (which programs assemble at all) is C02.
-/
import Lc3V.Lemmas.C01Core
import Lc3V.Lemmas.TwoPass
import Lc3V.Lemmas.Image
import Lc3V.Lemmas.Structure
namespace Lc3V.C01
open Lc3V

/-- every label maps to the address of the statement it precedes (restated from Lemmas/TwoPass.lean) -/
theorem label_maps_to_statement_address (pre post : List Stmt) (s : Stmt) (src : Option (List Char)) (t : SymTab) (l : Label)
    (p2 : P2) (hl : l ∈ s.labels) (h1 : pass1 (pre ++ s :: post) src = .ok t)
    (h2 : pre.foldlM (pass2Step t) ⟨[], none⟩ = .ok p2)
    (hstr : ∀ stmt ∈ pre, ∀ x, stmt.nucleus = .directive (.stringz x) → blen x + 1 < 65536) :
    ∃ lc b, p2.current = some (lc, b) ∧ t.lookupLabel l.name = some lc ∧ lc = b.start + BitVec.ofNat 16 b.words.length :=
  label_address pre post s src t l p2 hl h1 h2 hstr

/-- **the assembled image** (whole program, structure given).  Let the program be a sequence of blocks — each `.orig a`, a
    body without `.orig`/`.end`, `.end`, possibly preceded by other statements — followed by further statements.  If it
    assembles, then with `t` the symbol table of pass 1:
    * the statements outside the blocks are all `.external` declarations;
    * the object file's block map is sorted by start address;
    * every block of the source with a non-empty body is in it, keyed by its `.orig` address, and holds exactly `bodyWords`:
      the words of its statements in order (`stmtWords`: one encoded word per instruction with label operands resolved
      against the address of the following word, the directive's words otherwise — `body_words_layout`);
    * nothing else is in it (no other address is defined; blocks with empty bodies define nothing). -/
theorem assembled_image (blks : List Blk) (tail : List Stmt) (src : Option (List Char)) (obj : ObjFile)
    (hwf : ∀ b ∈ blks, b.WF) (ht : ∀ s ∈ tail, isOrigEnd s.nucleus = false)
    (h : assemble (blks.flatMap Blk.stmts ++ tail) src = .ok obj) :
    ∃ t, pass1 (blks.flatMap Blk.stmts ++ tail) src = .ok t ∧
      ((∀ b ∈ blks, ∀ s ∈ b.gap, isExternal s.nucleus = true) ∧ ∀ s ∈ tail, isExternal s.nucleus = true) ∧
      obj.blocks.Pairwise (fun x y => x.1 < y.1) ∧
      (∀ b ∈ blks, ∃ ws, bodyWords t b.a b.body = .ok ws ∧ (ws ≠ [] → (b.a.toNat, ws) ∈ obj.blocks)) ∧
      (∀ e ∈ obj.blocks, ∃ b ∈ blks, ∃ ws, bodyWords t b.a b.body = .ok ws ∧ ws ≠ [] ∧ e = (b.a.toNat, ws)) := by
  unfold assemble at h
  cases h1 : pass1 (blks.flatMap Blk.stmts ++ tail) src with
  | error e => rw [h1] at h; cases h
  | ok t =>
    rw [h1] at h
    dsimp only at h
    unfold pass2 at h
    cases h2 : (blks.flatMap Blk.stmts ++ tail).foldlM (pass2Step t) ⟨[], none⟩ with
    | error e => rw [h2] at h; cases h
    | ok st =>
      rw [h2] at h
      cases h
      obtain ⟨_, r2, _, rext, r4, r5⟩ := pass2_image_gen t blks [] tail st hwf ht ⟨List.Pairwise.nil, fun x hx => by cases hx⟩ h2
      refine ⟨t, rfl, rext, ?_, fun b hb => ?_, fun e he => ?_⟩
      · exact List.Pairwise.map _ (fun x y hxy => hxy) r2.1
      · obtain ⟨ws, hw, hm⟩ := r4 b hb
        exact ⟨ws, hw, fun hne => List.mem_map.mpr ⟨_, hm hne, rfl⟩⟩
      · obtain ⟨x, hx, rfl⟩ := List.mem_map.mp he
        rcases r5 x hx with hx | ⟨b, hb, ws, hw, hne, rfl⟩
        · cases hx
        · exact ⟨b, hb, ws, hw, hne, rfl⟩

/-- **the assembled image of any program that assembles**: the program necessarily is a sequence of closed, non-nested
    `.orig … .end` blocks with only `.external` declarations outside them, and the object file's block map is exactly the
    non-empty blocks with the words of their statements (as in `assembled_image`) -/
theorem assembled_image_any (stmts : List Stmt) (src : Option (List Char)) (obj : ObjFile) (h : assemble stmts src = .ok obj) :
    ∃ (blks : List Blk) (tail : List Stmt) (t : SymTab), stmts = blks.flatMap Blk.stmts ++ tail ∧ (∀ b ∈ blks, b.WF) ∧
      pass1 stmts src = .ok t ∧
      ((∀ b ∈ blks, ∀ s ∈ b.gap, isExternal s.nucleus = true) ∧ ∀ s ∈ tail, isExternal s.nucleus = true) ∧
      obj.blocks.Pairwise (fun x y => x.1 < y.1) ∧
      (∀ b ∈ blks, ∃ ws, bodyWords t b.a b.body = .ok ws ∧ (ws ≠ [] → (b.a.toNat, ws) ∈ obj.blocks)) ∧
      (∀ e ∈ obj.blocks, ∃ b ∈ blks, ∃ ws, bodyWords t b.a b.body = .ok ws ∧ ws ≠ [] ∧ e = (b.a.toNat, ws)) := by
  have h0 := h
  unfold assemble at h0
  cases h1 : pass1 stmts src with
  | error e => rw [h1] at h0; cases h0
  | ok t =>
    obtain ⟨blks, tail, e1, e2, e3⟩ := pass1_structure stmts src t h1
    subst e1
    obtain ⟨t', ht', r1, r2, r3, r4⟩ := assembled_image blks tail src obj (fun b hb => (e2 b hb).1) (fun x hx => (e3 x hx).1) h
    rw [h1] at ht'
    cases ht'
    exact ⟨blks, tail, t, rfl, (fun b hb => (e2 b hb).1), rfl, r1, r2, r3, r4⟩

/-- where each statement's words sit inside its block: at block start + the sizes of the statements before it -/
theorem body_words_layout (t : SymTab) (pre : List Stmt) (s : Stmt) (post : List Stmt) (a : W) (ws : List (Option W))
    (h : bodyWords t a (pre ++ s :: post) = .ok ws) :
    ∃ w1 w2 w3, bodyWords t a pre = .ok w1 ∧ stmtWords t (a + sizeOf' pre) s = .ok w2 ∧ ws = w1 ++ (w2 ++ w3) := by
  obtain ⟨w1, w2, w3, h1, h2, _, h4⟩ := bodyWords_split t pre s post a ws h
  exact ⟨w1, w2, w3, h1, h2, h4⟩

/-- an instruction contributes the encoding of its expansion with PC = address of the following word -/
theorem stmt_words_instr (t : SymTab) (lc : W) (s : Stmt) (i : AsmInstr) (hs : s.nucleus = .instr i) (ws : List (Option W))
    (h : stmtWords t lc s = .ok ws) : ∃ si, intoSimInstr i (lc + 1) t = .ok si ∧ ws = [some si.encode] := by
  unfold stmtWords at h
  rw [hs] at h
  dsimp only at h
  cases hi : intoSimInstr i (lc + 1) t with
  | error e => rw [hi] at h; cases h
  | ok si => rw [hi] at h; cases h; exact ⟨si, rfl, rfl⟩

/-- a directive contributes `directiveWords` (`directive_words` says what they are) -/
theorem stmt_words_directive (t : SymTab) (lc : W) (s : Stmt) (d : Directive) (hs : s.nucleus = .directive d) :
    stmtWords t lc s = directiveWords d t := by
  unfold stmtWords; rw [hs]

def obligations : List Lean.Name :=
  [``alias_expansion, ``signExtend_setWidth_of_fits, ``label_operand, ``directive_words, ``utf8Words_length,
   ``directive_words_length, ``lcInv_step, ``lcInv_fold, ``lcInv_init, ``addLabel_spec, ``addLabel_conflict,
   ``label_maps_to_statement_address, ``Lc3V.inStep_fold, ``Lc3V.pass1Step_lc, ``Lc3V.pass2Step_lc, ``Lc3V.pass1Step_labels,
   ``Lc3V.pass1_fold_keeps, ``assembled_image, ``assembled_image_any, ``Lc3V.pass1_structure, ``body_words_layout, ``stmt_words_instr, ``stmt_words_directive,
   ``Lc3V.pass2_image_gen, ``Lc3V.fresh_of_no_overlap]


end Lc3V.C01
