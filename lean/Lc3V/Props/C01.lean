/-
  C01 — Assembled image is the exact LC-3 encoding of the source.   (partial)
  Proved for every program: the per-statement facts the property lists — an instruction contributes exactly one word, the
  encoding of its expansion (aliases by table, label operands replaced by `label address − address of the following word`
  whenever that fits the field); `.fill` contributes the value or the label's address, `.stringz` its UTF-8 bytes and a
  zero, `.blkw n` exactly `n` uninitialised words; every statement contributes exactly `word_len` words, so throughout
  pass 2 the location counter equals block start + words emitted (statements are placed at the address implied by the
  `.orig` and the sizes before them); pass 1 binds a label to the location counter of its statement.
  Proved across the two passes (Lemmas/TwoPass.lean): both passes keep the same location counter over any prefix of the
  program, bindings made by pass 1 are never changed afterwards, hence `label_address`: every label of a statement maps,
  in the final symbol table, to the location counter pass 2 has when it reaches that statement = block start + words
  emitted so far.
  Not proved: the "no other address is defined" clause (the block map holds exactly the closed non-empty blocks) as a
  single statement; it is checked by the reference encoder of the correspondence check.
-/
import Lc3V.Lemmas.C01Core
import Lc3V.Lemmas.TwoPass
namespace Lc3V.C01
open Lc3V

/-- every label maps to the address of the statement it precedes (restated from Lemmas/TwoPass.lean) -/
theorem label_maps_to_statement_address (pre post : List Stmt) (s : Stmt) (src : Option (List Char)) (t : SymTab) (l : Label)
    (p2 : P2) (hl : l ∈ s.labels) (h1 : pass1 (pre ++ s :: post) src = .ok t)
    (h2 : pre.foldlM (pass2Step t) ⟨[], none⟩ = .ok p2)
    (hstr : ∀ stmt ∈ pre, ∀ x, stmt.nucleus = .directive (.stringz x) → blen x + 1 < 65536) :
    ∃ lc b, p2.current = some (lc, b) ∧ t.lookupLabel l.name = some lc ∧ lc = b.start + BitVec.ofNat 16 b.words.length :=
  label_address pre post s src t l p2 hl h1 h2 hstr

def obligations : List Lean.Name :=
  [``alias_expansion, ``signExtend_setWidth_of_fits, ``label_operand, ``directive_words, ``utf8Words_length,
   ``directive_words_length, ``lcInv_step, ``lcInv_fold, ``lcInv_init, ``addLabel_spec, ``addLabel_conflict,
   ``label_maps_to_statement_address, ``Lc3V.inStep_fold, ``Lc3V.pass1Step_lc, ``Lc3V.pass2Step_lc, ``Lc3V.pass1Step_labels,
   ``Lc3V.pass1_fold_keeps]


end Lc3V.C01
