/-
  C02 — Assembler accepts exactly the well-formed programs.   (proved as one iff: `assemble_ok_iff`)
  Proved, for every state and statement, each decision of the two passes in the form the property states it:
  the location counter advances exactly while the block stays at or below xFE00 and the error names the condition
  (I/O page vs. wrap); labels and statements outside a block, `.end` without `.orig`, nested `.orig`, unclosed `.orig`
  give the corresponding structure errors; a label is rejected exactly when it is already bound to another address
  (C01.addLabel_spec / addLabel_conflict); a label operand is accepted exactly when the label is defined, not external
  and the offset fits (C01.label_operand); external labels in PC-relative operands give OffsetExternal.
  Whole programs, one direction (`accepted_structure`, `accepted_operands`, with C01.assembled_image_any): if assembling
  succeeds then the program is a sequence of closed non-nested blocks, everything outside them is `.external`, no label sits
  outside a block, every label operand converts (defined, not external, fits), and the non-empty blocks start at distinct
  addresses (C01: the overlap check makes every inserted block's start fresh).
  and no two blocks of the object file overlap (`accepted_blocks_disjoint`, Lemmas/Disjoint.lean).
  Exact characterisation of the second pass (`second_pass_iff`, both directions; converse `second_pass_accepts`): a structured program whose statements all convert and whose non-empty
  blocks do not overlap is accepted by pass 2.
  Converse for pass 1 and for the whole assembler (`first_pass_accepts`, `assemble_accepts`, Lemmas/Pass1Accepts.lean): a
  structured program whose blocks stay at or below xFE00 and whose label bindings, made in order, never bind a name to two
  addresses passes pass 1; if moreover every statement converts and no two non-empty blocks overlap, `assemble` succeeds.
  **One statement** (`assemble_ok_iff`, with `pass1_iff` from Lemmas/Pass1Conv.lean, the converse of Pass1Accepts): a statement
  list assembles if and only if it is a sequence of closed, non-nested `.orig … .end` blocks with only `.external`
  declarations outside them and is `WellFormed`: no label outside a block or on an `.orig`; every block at or below xFE00
  (no wrap, nothing in the I/O page); the label bindings made in program order (each label at its statement's location
  counter, each `.external` at 0, names compared after upper-casing) never bind a name to two addresses; every statement
  converts against the resulting table (label operands defined, not external, in range; `.fill` labels defined); no
  non-empty block overlaps another.  "Returns an error whose kind names a violated condition" is given by the per-decision
  theorems above and checked by the correspondence oracle on programs with injected faults.
-/
import Lc3V.Lemmas.C01Core
import Lc3V.Props.C01
import Lc3V.Lemmas.Disjoint
import Lc3V.Lemmas.Pass2Iff
import Lc3V.Lemmas.Pass1Accepts
import Lc3V.Lemmas.Pass1Conv
set_option linter.unusedSimpArgs false
namespace Lc3V.C02
open Lc3V

theorem shift_zero (c : Cursor) : c.shift 0 = .ok c := by simp [Cursor.shift]

/-- the block may grow up to and including xFE00 (exclusive end) -/
theorem shift_ok (c : Cursor) (n : W) (hn : n ≠ 0) (ho : c.overflowed = false) (h : c.lc.toNat + n.toNat ≤ 0xFE00) :
    c.shift n = .ok { c with lc := c.lc + n } := by
  unfold Cursor.shift
  rw [if_neg hn, ho]
  simp only [Bool.false_eq_true, if_false]
  rw [if_pos (by omega), if_neg (by omega)]
  have e : BitVec.ofNat 16 (c.lc.toNat + n.toNat) = c.lc + n := by
    apply BitVec.eq_of_toNat_eq; rw [BitVec.toNat_ofNat, BitVec.toNat_add]
  rw [e]

/-- growing into xFE01..x10000 is `BlockInIO` -/
theorem shift_io (c : Cursor) (n : W) (hn : n ≠ 0) (ho : c.overflowed = false)
    (h1 : 0xFE00 < c.lc.toNat + n.toNat) (h2 : c.lc.toNat + n.toNat ≤ 0x10000) : c.shift n = .error .blockInIO := by
  unfold Cursor.shift
  rw [if_neg hn, ho]
  simp only [Bool.false_eq_true, if_false]
  by_cases hlt : c.lc.toNat + n.toNat < 65536
  · rw [if_pos hlt, if_pos (by omega)]
  · rw [if_neg hlt]
    have : c.lc = -n := by bv_omega
    rw [if_pos this]

/-- growing past x10000 is `WrappingBlock` -/
theorem shift_wrap (c : Cursor) (n : W) (hn : n ≠ 0) (ho : c.overflowed = false) (h : 0x10000 < c.lc.toNat + n.toNat) :
    c.shift n = .error .wrappingBlock := by
  unfold Cursor.shift
  rw [if_neg hn, ho]
  simp only [Bool.false_eq_true, if_false]
  rw [if_neg (by omega)]
  have : c.lc ≠ -n := by bv_omega
  rw [if_neg this]

/-- a successful shift never sets the overflow flag: accepted programs keep every location counter ≤ xFE00 -/
theorem shift_keeps_flag (c c' : Cursor) (n : W) (h : c.shift n = .ok c') : c'.overflowed = c.overflowed := by
  unfold Cursor.shift at h
  split at h
  · cases h; rfl
  · split at h
    · cases h
    · dsimp only at h
      split at h
      · split at h
        · cases h
        · cases h; rfl
      · split at h <;> cases h

/-! ### structure errors of pass 1 -/

theorem labels_outside_block (st : P1) (stmt : Stmt) (hc : st.cursor = none) (hl : stmt.labels ≠ []) :
    pass1Step st stmt = .error ⟨.undetAddrLabel, stmt.labels.map Label.span⟩ := by
  have : stmt.labels.isEmpty = false := by cases h : stmt.labels with | nil => exact absurd h hl | cons a b => rfl
  unfold pass1Step p1Labels
  simp only [this, hc, Bool.false_eq_true, if_false]

theorem nested_orig (st : P1) (stmt : Stmt) (cur : Cursor) (a : W) (hc : st.cursor = some cur) (hl : stmt.labels = [])
    (hn : stmt.nucleus = .directive (.orig a)) :
    pass1Step st stmt = .error ⟨.overlappingOrig, [cur.blockOrig, stmt.span]⟩ := by
  unfold pass1Step p1Labels p1Special
  simp only [hl, hc, hn, List.isEmpty_nil, if_true]

theorem end_without_orig (st : P1) (stmt : Stmt) (hc : st.cursor = none) (hl : stmt.labels = [])
    (hn : stmt.nucleus = .directive .end_) :
    pass1Step st stmt = .error ⟨.unopenedOrig, [stmt.span]⟩ := by
  unfold pass1Step p1Labels p1Special
  simp only [hl, hc, hn, List.isEmpty_nil, if_true]

/-- statements (other than `.orig`, `.end`, `.external`) outside a block are rejected by pass 2 -/
theorem stmt_outside_block (t : SymTab) (st : P2) (stmt : Stmt) (hc : st.current = none)
    (hk : (∃ i, stmt.nucleus = .instr i) ∨ (∃ v, stmt.nucleus = .directive (.fill v)) ∨
          (∃ n, stmt.nucleus = .directive (.blkw n)) ∨ (∃ s, stmt.nucleus = .directive (.stringz s))) :
    pass2Step t st stmt = .error ⟨.undetAddrStmt, [stmt.span]⟩ := by
  unfold pass2Step
  rcases hk with ⟨i, h⟩ | ⟨v, h⟩ | ⟨n, h⟩ | ⟨s, h⟩ <;> simp [h, hc]

/-- an `.orig` still open at the end of the program is `UnclosedOrig`, pointing at that `.orig` -/
theorem unclosed_orig (stmts : List Stmt) (src : Option (List Char)) (st : P1) (cur : Cursor)
    (hf : stmts.foldlM pass1Step (p1Init src) = .ok st) (hc : st.cursor = some cur) :
    pass1 stmts src = .error ⟨.unclosedOrig, [cur.blockOrig]⟩ := by
  unfold pass1
  rw [hf]
  simp only [p1Finish, hc]

/-- an external label as a PC-relative operand is `OffsetExternal` -/
theorem external_operand (n : Nat) (l : Label) (pc : W) (t : SymTab) (d : SymData)
    (hl : lookupKey t.labels (upperS l.name) = some d) (he : d.ext = true) :
    replacePcOffset n (.label l) pc t = .error ⟨.offsetExternal, [l.span]⟩ := by
  unfold replacePcOffset
  simp [hl, he]

/-- an undefined label operand is `CouldNotFindLabel` -/
theorem undefined_operand (n : Nat) (l : Label) (pc : W) (t : SymTab)
    (hl : lookupKey t.labels (upperS l.name) = none) :
    replacePcOffset n (.label l) pc t = .error ⟨.couldNotFindLabel, [l.span]⟩ := by
  unfold replacePcOffset
  simp [hl]

/-! ### whole programs: what acceptance implies -/

/-- **an accepted program is well-formed (structure)**: if `assemble` succeeds, the program is a sequence of closed,
    non-nested `.orig … .end` blocks whose bodies contain neither `.orig` nor `.end`; every statement outside the blocks is
    an `.external` declaration; and no statement outside a block — nor an `.orig` itself — carries a label (so every label
    lies inside a block) -/
theorem accepted_structure (stmts : List Stmt) (src : Option (List Char)) (obj : ObjFile) (h : assemble stmts src = .ok obj) :
    ∃ (blks : List Blk) (tail : List Stmt), stmts = blks.flatMap Blk.stmts ++ tail ∧
      (∀ b ∈ blks, b.WF ∧ b.NoOuterLabels ∧ ∀ s ∈ b.gap, isExternal s.nucleus = true) ∧
      (∀ s ∈ tail, isExternal s.nucleus = true ∧ s.labels = []) := by
  have h0 := h
  unfold assemble at h0
  cases h1 : pass1 stmts src with
  | error e => rw [h1] at h0; cases h0
  | ok t =>
    obtain ⟨blks, tail, e1, e2, e3⟩ := pass1_structure stmts src t h1
    subst e1
    obtain ⟨_, _, rext, _⟩ := C01.assembled_image blks tail src obj (fun b hb => (e2 b hb).1) (fun x hx => (e3 x hx).1) h
    exact ⟨blks, tail, rfl, fun b hb => ⟨(e2 b hb).1, (e2 b hb).2, rext.1 b hb⟩, fun x hx => ⟨rext.2 x hx, (e3 x hx).2⟩⟩

/-- **an accepted program is well-formed (operands)**: in an accepted program every instruction inside a block converts —
    i.e. (C01.label_operand) each label operand is defined, not external, and its offset from the following word fits -/
theorem accepted_operands (blks : List Blk) (tail : List Stmt) (src : Option (List Char)) (obj : ObjFile)
    (hwf : ∀ b ∈ blks, b.WF) (ht : ∀ s ∈ tail, isOrigEnd s.nucleus = false)
    (h : assemble (blks.flatMap Blk.stmts ++ tail) src = .ok obj) :
    ∃ t, pass1 (blks.flatMap Blk.stmts ++ tail) src = .ok t ∧
      ∀ b ∈ blks, ∀ pre s post i, b.body = pre ++ s :: post → s.nucleus = .instr i →
        ∃ si, intoSimInstr i (b.a + sizeOf' pre + 1) t = .ok si := by
  obtain ⟨t, ht1, _, _, r3, _⟩ := C01.assembled_image blks tail src obj hwf ht h
  refine ⟨t, ht1, fun b hb pre s post i hbody hs => ?_⟩
  obtain ⟨ws, hws, _⟩ := r3 b hb
  rw [hbody] at hws
  obtain ⟨w1, w2, w3, _, h2, _⟩ := C01.body_words_layout t pre s post b.a ws hws
  obtain ⟨si, hsi, _⟩ := C01.stmt_words_instr t _ s i hs w2 h2
  exact ⟨si, hsi⟩

/-- **an accepted program is well-formed (blocks)**: no two blocks of the object file overlap — the block map is in address
    order and each non-empty block ends at or before the start of the next (the overlap check looks only at the two
    neighbours of a new block; with the finished blocks already disjoint that covers all of them) -/
theorem accepted_blocks_disjoint (stmts : List Stmt) (src : Option (List Char)) (obj : ObjFile) (h : assemble stmts src = .ok obj) :
    obj.blocks.Pairwise (fun x y => x.1 + x.2.length ≤ y.1) ∧ ∀ x ∈ obj.blocks, x.2 ≠ [] :=
  assembled_blocks_disjoint stmts src obj h

/-- **the second pass accepts exactly the programs whose words can be produced and whose blocks are disjoint** (converse
    direction; the forward direction is `accepted_operands` + `accepted_blocks_disjoint`): for a structured program — closed
    blocks, `.external` declarations outside — and any symbol table `t`, if every block's statements convert
    (`bodyWords`: each label operand defined, not external, in range — C01.label_operand; each `.fill LABEL` defined) and no
    non-empty block overlaps an earlier non-empty one, the second pass succeeds, and its block list is the blocks in order -/
theorem second_pass_accepts (t : SymTab) (blks : List Blk) (tail : List Stmt)
    (hwf : ∀ b ∈ blks, b.WF ∧ ∀ s ∈ b.gap, isExternal s.nucleus = true) (ht : ∀ s ∈ tail, isExternal s.nucleus = true)
    (hws : ∀ b ∈ blks, ∃ ws, bodyWords t b.a b.body = .ok ws) (hpw : blks.Pairwise (BlkClear t)) :
    (blks.flatMap Blk.stmts ++ tail).foldlM (pass2Step t) ⟨[], none⟩ = .ok ⟨blks.foldl (addBlk t) [], none⟩ :=
  pass2_accepts t blks [] tail hwf ht hws hpw (fun _ _ _ _ _ x hx => by cases hx)

/-- **the second pass accepts exactly** the structured programs whose statements all convert and whose non-empty blocks do not
    overlap -/
theorem second_pass_iff (t : SymTab) (blks : List Blk) (tail : List Stmt)
    (hwf : ∀ b ∈ blks, b.WF ∧ ∀ s ∈ b.gap, isExternal s.nucleus = true) (ht : ∀ s ∈ tail, isExternal s.nucleus = true) :
    (∃ st', (blks.flatMap Blk.stmts ++ tail).foldlM (pass2Step t) ⟨[], none⟩ = .ok st') ↔
    ((∀ b ∈ blks, ∃ ws, bodyWords t b.a b.body = .ok ws) ∧ blks.Pairwise (BlkClear t)) := by
  have htail : ∀ s ∈ tail, isOrigEnd s.nucleus = false := by
    intro s hs
    have := ht s hs
    cases hn : s.nucleus with
    | instr i => rfl
    | directive d => rw [hn] at this; cases d <;> first | rfl | cases this
  constructor
  · rintro ⟨st', h⟩
    have h1 := (pass2_blocks t blks [] tail st' (fun b hb => (hwf b hb).1) htail h).2
    have h2 := (pass2_accepted_clear t blks [] tail st' (fun b hb => (hwf b hb).1) htail ⟨List.Pairwise.nil, fun x hx => by cases hx⟩ h).1
    exact ⟨h1, h2⟩
  · rintro ⟨h1, h2⟩
    exact ⟨_, second_pass_accepts t blks tail hwf ht h1 h2⟩

/-- **the first pass accepts** (converse direction for pass 1): a structured program — closed blocks, only unlabelled `.external`
    declarations outside them, no label on an `.orig` — whose blocks stay at or below xFE00 (`BodyFits`) and whose label
    bindings, made in program order (each label at the location counter of its statement, each `.external` at 0), never bind
    a name to two different addresses (`labelFold` succeeds; `binding_ok_iff` says what one binding needs) -/
theorem first_pass_accepts (blks : List Blk) (tail : List Stmt) (src : Option (List Char))
    (hwf : ∀ b ∈ blks, b.WF ∧ (∀ s ∈ b.gap, isExternal s.nucleus = true ∧ s.labels = []) ∧ b.origS.labels = [] ∧ BodyFits b.a.toNat b.body)
    (ht : ∀ s ∈ tail, isExternal s.nucleus = true ∧ s.labels = [])
    (hl : ∃ m, labelFold [] (progBindings blks tail) = .ok m) :
    ∃ t, pass1 (blks.flatMap Blk.stmts ++ tail) src = .ok t :=
  pass1_accepts blks tail src hwf ht hl

/-- a binding is accepted exactly when the name is unbound or already bound to the same address -/
theorem binding_ok_iff (m : List (Key × SymData)) (x : Binding) :
    (∃ m', bindStep m x = .ok m') ↔ ∀ d, lookupKey m (upperS x.1.name) = some d → d.addr = x.2.1 :=
  bindStep_ok_iff m x

/-- **the assembler accepts** every well-formed program: structure, block sizes and label bindings as in `first_pass_accepts`,
    and — for the symbol table pass 1 then produces — every statement converts and no non-empty block overlaps another -/
theorem assemble_accepts (blks : List Blk) (tail : List Stmt) (src : Option (List Char))
    (hwf : ∀ b ∈ blks, b.WF ∧ (∀ s ∈ b.gap, isExternal s.nucleus = true ∧ s.labels = []) ∧ b.origS.labels = [] ∧ BodyFits b.a.toNat b.body)
    (ht : ∀ s ∈ tail, isExternal s.nucleus = true ∧ s.labels = [])
    (hl : ∃ m, labelFold [] (progBindings blks tail) = .ok m)
    (h2 : ∀ t, pass1 (blks.flatMap Blk.stmts ++ tail) src = .ok t →
      (∀ b ∈ blks, ∃ ws, bodyWords t b.a b.body = .ok ws) ∧ blks.Pairwise (BlkClear t)) :
    ∃ obj, assemble (blks.flatMap Blk.stmts ++ tail) src = .ok obj := by
  obtain ⟨t, ht1⟩ := first_pass_accepts blks tail src hwf ht hl
  obtain ⟨hws, hpw⟩ := h2 t ht1
  have hp2 := second_pass_accepts t blks tail (fun b hb => ⟨(hwf b hb).1, fun s hs => ((hwf b hb).2.1 s hs).1⟩)
    (fun s hs => (ht s hs).1) hws hpw
  unfold assemble
  rw [ht1]
  dsimp only
  unfold pass2
  rw [hp2]
  exact ⟨_, rfl⟩

/-- the conditions under which a structured program assembles -/
def WellFormed (blks : List Blk) (tail : List Stmt) (src : Option (List Char)) : Prop :=
  (∀ b ∈ blks, (∀ s ∈ b.gap, s.labels = []) ∧ b.origS.labels = [] ∧ BodyFits b.a.toNat b.body) ∧ (∀ s ∈ tail, s.labels = []) ∧
  (∃ m, labelFold [] (progBindings blks tail) = .ok m) ∧
  ∀ t, pass1 (blks.flatMap Blk.stmts ++ tail) src = .ok t →
    (∀ b ∈ blks, ∃ ws, bodyWords t b.a b.body = .ok ws) ∧ blks.Pairwise (BlkClear t)

/-- **a structured program assembles exactly when it is well-formed**: no label outside a block or on an `.orig`, every block
    at or below xFE00, consistent label bindings, every statement convertible against the resulting symbol table (label
    operands defined, not external, in range; `.fill` labels defined) and no non-empty block overlapping another -/
theorem assemble_iff (blks : List Blk) (tail : List Stmt) (src : Option (List Char))
    (hwf : ∀ b ∈ blks, b.WF ∧ ∀ s ∈ b.gap, isExternal s.nucleus = true) (ht : ∀ s ∈ tail, isExternal s.nucleus = true) :
    (∃ obj, assemble (blks.flatMap Blk.stmts ++ tail) src = .ok obj) ↔ WellFormed blks tail src := by
  constructor
  · rintro ⟨obj, h⟩
    unfold assemble at h
    cases h1 : pass1 (blks.flatMap Blk.stmts ++ tail) src with
    | error e => rw [h1] at h; cases h
    | ok t =>
      rw [h1] at h
      dsimp only at h
      obtain ⟨c1, c2, c3⟩ := (pass1_iff blks tail src hwf ht).mp ⟨t, h1⟩
      refine ⟨c1, c2, c3, fun t' ht' => ?_⟩
      rw [h1] at ht'; cases ht'
      unfold pass2 at h
      cases hf : (blks.flatMap Blk.stmts ++ tail).foldlM (pass2Step t) ⟨[], none⟩ with
      | error e => rw [hf] at h; cases h
      | ok st => exact (second_pass_iff t blks tail hwf ht).mp ⟨st, hf⟩
  · rintro ⟨c1, c2, c3, c4⟩
    exact assemble_accepts blks tail src
      (fun b hb => ⟨(hwf b hb).1, fun s hs => ⟨(hwf b hb).2 s hs, (c1 b hb).1 s hs⟩, (c1 b hb).2.1, (c1 b hb).2.2⟩)
      (fun s hs => ⟨ht s hs, c2 s hs⟩) c3 c4

/-- **the assembler accepts exactly the well-formed programs**: a statement list assembles iff it is a sequence of closed,
    non-nested `.orig … .end` blocks with only `.external` declarations outside them that satisfies `WellFormed` -/
theorem assemble_ok_iff (stmts : List Stmt) (src : Option (List Char)) :
    (∃ obj, assemble stmts src = .ok obj) ↔
    ∃ (blks : List Blk) (tail : List Stmt), stmts = blks.flatMap Blk.stmts ++ tail ∧
      (∀ b ∈ blks, b.WF ∧ ∀ s ∈ b.gap, isExternal s.nucleus = true) ∧ (∀ s ∈ tail, isExternal s.nucleus = true) ∧
      WellFormed blks tail src := by
  constructor
  · rintro ⟨obj, h⟩
    obtain ⟨blks, tail, e, s1, s2⟩ := accepted_structure stmts src obj h
    subst e
    have hwf : ∀ b ∈ blks, b.WF ∧ ∀ s ∈ b.gap, isExternal s.nucleus = true := fun b hb => ⟨(s1 b hb).1, (s1 b hb).2.2⟩
    have ht : ∀ s ∈ tail, isExternal s.nucleus = true := fun s hs => (s2 s hs).1
    exact ⟨blks, tail, rfl, hwf, ht, (assemble_iff blks tail src hwf ht).mp ⟨obj, h⟩⟩
  · rintro ⟨blks, tail, e, hwf, ht, hw⟩
    subst e
    exact (assemble_iff blks tail src hwf ht).mpr hw


def obligations : List Lean.Name :=
  [``assemble_ok_iff, ``assemble_iff, ``Lc3V.pass1_iff, ``Lc3V.pass1_blocks_conv, ``assemble_accepts, ``first_pass_accepts, ``binding_ok_iff, ``second_pass_iff, ``second_pass_accepts, ``accepted_structure, ``accepted_operands, ``accepted_blocks_disjoint, ``Lc3V.all_disjoint_of_neighbours, ``shift_zero, ``shift_ok, ``shift_io, ``shift_wrap, ``shift_keeps_flag, ``labels_outside_block, ``nested_orig,
   ``end_without_orig, ``stmt_outside_block, ``unclosed_orig, ``external_operand, ``undefined_operand,
   ``C01.addLabel_spec, ``C01.addLabel_conflict, ``C01.label_operand]

end Lc3V.C02
