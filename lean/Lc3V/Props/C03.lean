/-
  C03 — Parser returns exactly the statements written, layout-insensitively.   (one statement: proved; programs: checked)
  Proved for the model, for any single statement: the parse result is determined by the token values (`parse_of_lex`);
  any text made of pieces that are lexed as the statement's tokens — mnemonics in any letter case, `R`/`r` registers with
  leading zeros, literals as `n`, `#n`, `-n`, `xH`, … — separated by arbitrary runs of blanks and tabs (none needed
  around commas), with blanks before and after, parses to exactly that statement (`layout_insensitive`); in particular
  the canonical text `Display` writes does (`canonical_text`, C36).  Also: keyword recognition depends only on the
  upper-cased spelling, `x`/`X` and `R`/`r` prefixes are interchangeable, blanks only shift spans, comments never reach
  the parser and stop before the line end, error spans lie inside the text (C04).
  Not proved: programs of several statements (line ends, CRLF, comments between statements, blank lines, colons after
  labels, labels on their own lines) and the statement spans; these are what the correspondence check exercises
  (generated statement lists, randomised layout, implementation = model = generated, two layouts per list).
-/
import Lc3V.Lemmas.ParseSpan
import Lc3V.Lemmas.LexTok
import Lc3V.Lemmas.Layout
set_option linter.unusedSimpArgs false
namespace Lc3V.C03
open Lc3V

/-- keyword recognition depends only on the upper-cased spelling: two spellings with the same upper-casing are the same
    keyword, or both labels -/
theorem keyword_case_insensitive (s t : List Char) (h : upperS s = upperS t) (k : Kw) :
    Ident.ofText s = .kw k ↔ Ident.ofText t = .kw k := by
  unfold Ident.ofText
  rw [h]
  cases Kw.all.find? (fun k => k.name.toList == upperS t) <;> simp

/-- every case variant of an ASCII mnemonic has the same upper-casing, e.g. `aDd` -/
example : upperS ['a', 'D', 'd'] = upperS ['A', 'D', 'D'] := by decide

/-- the hex prefix may be `x` or `X`, the register prefix `R` or `r`: the validators ignore the first character -/
theorem prefix_case_irrelevant (a b : Char) (ds : List Char) :
    lexUnsignedHex (a :: ds) = lexUnsignedHex (b :: ds) ∧ lexSignedHex (a :: ds) = lexSignedHex (b :: ds) ∧
    lexReg (a :: ds) = lexReg (b :: ds) := ⟨rfl, rfl, rfl⟩

/-- shifting a token -/
def shiftTok (k : Nat) (t : SpTok) : SpTok := ⟨t.tok, t.start + k, t.stop + k⟩

/-- lexing from a later offset gives the same tokens, shifted -/
theorem lexAll_shift (k : Nat) : ∀ (fuel : Nat) (cs : List Char) (off : Nat) (acc : List SpTok),
    lexAll fuel cs (off + k) (acc.map (shiftTok k)) =
      match lexAll fuel cs off acc with
      | .ok ts => .ok (ts.map (shiftTok k))
      | .error (e, a, b) => .error (e, a + k, b + k) := by
  intro fuel
  induction fuel with
  | zero => intro cs off acc; simp [lexAll, List.map_reverse]
  | succ fuel ih =>
    intro cs off acc
    cases cs with
    | nil => simp [lexAll, List.map_reverse]
    | cons c cs =>
      unfold lexAll
      by_cases hws : c = ' ' ∨ c = '\t'
      · rw [if_pos hws, if_pos hws]
        have := ih cs (off + 1) acc
        rw [show off + 1 + k = off + k + 1 by omega] at this
        exact this
      · rw [if_neg hws, if_neg hws]
        dsimp only
        cases hres : (lexOne (c :: cs)).res with
        | error e => dsimp only; rw [Nat.add_right_comm]
        | ok t =>
          dsimp only
          have := ih ((c :: cs).drop (lexOne (c :: cs)).len) (off + blen ((c :: cs).take (lexOne (c :: cs)).len))
            (⟨t, off, off + blen ((c :: cs).take (lexOne (c :: cs)).len)⟩ :: acc)
          simp only [List.map_cons, shiftTok] at this
          rw [show off + blen ((c :: cs).take (lexOne (c :: cs)).len) + k = off + k + blen ((c :: cs).take (lexOne (c :: cs)).len) by omega] at this
          exact this

/-- a blank or tab before the text only shifts every token (and the error span) by one byte -/
theorem leading_blank (c : Char) (hc : c = ' ' ∨ c = '\t') (cs : List Char) :
    lex (c :: cs) =
      match lex cs with
      | .ok ts => .ok (ts.map (shiftTok 1))
      | .error (e, a, b) => .error (e, a + 1, b + 1) := by
  have e : lexAll (cs.length + 1 + 1) (c :: cs) 0 [] = lexAll (cs.length + 1) cs 1 [] := by
    rw [lexAll]; rw [if_pos hc]
  unfold lex
  simp only [List.length_cons]
  rw [e]
  have := lexAll_shift 1 (cs.length + 1) cs 0 []
  simpa using this

/-- comments never reach the parser: `parse_ast` drops every comment token before parsing -/
theorem comments_dropped (src : List Char) (ts : List SpTok) (h : lex src = .ok ts) :
    parseAst src = parseAll ((ts.filter (fun t => t.tok != .comment)).length + 1)
      ⟨(ts.filter (fun t => t.tok != .comment)).toArray, 0⟩ [] := by
  unfold parseAst
  rw [h]
  simp

/-- a comment token extends to the end of its line and no further: the line end stays a token of its own -/
theorem comment_token (body rest : List Char) (hb : ∀ c ∈ body, c ≠ '\n') :
    lexOne (';' :: (body ++ '\n' :: rest)) = ⟨.ok .comment, 1 + body.length⟩ := by
  unfold lexOne
  simp (config := {decide := true}) only [if_false, if_true]
  congr 2
  rw [List.takeWhile_append_of_pos (by intro c hc; simpa using hb c hc)]
  simp

/-- tokens and error spans lie inside the text (shared with C04) -/
theorem spans_inside (src : List Char) (e : ParseErr) (h : parseAst src = .error e) :
    e.span.1 ≤ e.span.2 ∧ e.span.2 ≤ blen src := parseAst_span src e h

/-- the parse result depends only on the token values -/
theorem result_determined_by_tokens (s : Stmt) (text : List Char) (ts : List SpTok) (hlex : lex text = .ok ts)
    (hvals : ts.map (·.tok) = labelToks s.labels ++ kindToks s.nucleus)
    (hcc : ∀ cc o, s.nucleus = .instr (.br cc o) → cc ≠ 0) (hb : ∀ n, s.nucleus = .directive (.blkw n) → n ≠ 0) :
    ∃ s', parseAst text = .ok [s'] ∧ s'.labels.map (·.name) = s.labels.map (·.name) ∧ s'.nucleus.erase = s.nucleus.erase :=
  parse_of_lex s text ts hlex hvals hcc hb

/-- layout insensitivity for one statement: any spelling of the tokens, any blanks and tabs around them -/
theorem layout_insensitive (s : Stmt) (lead : List Char) (hlead : IsGap lead) (as : List (Atom × List Char)) (hseq : GapSeqOk as)
    (hok : ∀ a ∈ as, a.1.Ok ∧ IsGap a.2) (hvals : as.map (·.1.tok) = labelToks s.labels ++ kindToks s.nucleus)
    (hcc : ∀ cc o, s.nucleus = .instr (.br cc o) → cc ≠ 0) (hb : ∀ n, s.nucleus = .directive (.blkw n) → n ≠ 0) :
    ∃ s', parseAst (lead ++ renderGaps as) = .ok [s'] ∧ s'.labels.map (·.name) = s.labels.map (·.name) ∧ s'.nucleus.erase = s.nucleus.erase :=
  parse_layout s lead hlead as hseq hok hvals hcc hb

/-- the canonical text parses to the statement -/
theorem canonical_text (s : Stmt) (h : StmtOk s) :
    ∃ s', parseAst (showStmt s) = .ok [s'] ∧ s'.labels.map (·.name) = s.labels.map (·.name) ∧ s'.nucleus.erase = s.nucleus.erase :=
  parse_print s h

/-- the premises of `layout_insensitive` are met by a non-canonical layout: ` aDd\tr1 ,R02,  -3 ` for `ADD R1, R2, #-3` -/
example : ∃ s', parseAst ([' '] ++ renderGaps
      [(kwAtomS ['a', 'D', 'd'] .ADD, ['\t']), (regAtomS 'r' ['1'] 1, [' ']), (commaAtom, []), (regAtomS 'R' ['0', '2'] 2, []),
       (commaAtom, [' ', ' ']), (negAtomS ['3'] 3, [' '])]) = .ok [s'] ∧
    s'.labels.map (·.name) = [] ∧ s'.nucleus.erase = StmtKind.erase (.instr (.add 1 2 (.imm (-3)))) := by
  apply parse_layout ⟨[], .instr (.add 1 2 (.imm (-3))), (0, 0)⟩
  · intro c hc; simp at hc; exact Or.inl hc
  · exact ⟨Or.inl (by decide), Or.inl (by decide), Or.inr (Or.inr ⟨rfl, rfl⟩), Or.inr (Or.inl ⟨[], rfl⟩), Or.inl (by decide), trivial⟩
  · intro a ha
    simp only [List.mem_cons, List.mem_nil_iff, or_false] at ha
    rcases ha with rfl | rfl | rfl | rfl | rfl | rfl
    · exact ⟨kwAtomS_ok _ _ (by decide), by intro c hc; simp at hc; exact Or.inr hc⟩
    · exact ⟨regAtomS_ok 'r' ['1'] 1 (Or.inr rfl) (by simp) (by intro c hc; simp at hc; subst hc; exact ⟨by decide, by decide⟩) (by decide) (by omega),
        by intro c hc; simp at hc; exact Or.inl hc⟩
    · exact ⟨commaAtom_ok, by intro c hc; cases hc⟩
    · exact ⟨regAtomS_ok 'R' ['0', '2'] 2 (Or.inl rfl) (by simp) (by intro c hc; simp at hc; rcases hc with rfl | rfl <;> exact ⟨by decide, by decide⟩) (by decide) (by omega),
        by intro c hc; cases hc⟩
    · exact ⟨commaAtom_ok, by intro c hc; simp at hc; exact Or.inl hc⟩
    · exact ⟨negAtomS_ok ['3'] 3 (by simp) (by intro c hc; simp at hc; subst hc; exact ⟨by decide, by decide⟩) (by decide) (by omega),
        by intro c hc; simp at hc; exact Or.inl hc⟩
  · decide
  · intro cc o h; cases h
  · intro n h; cases h

def obligations : List Lean.Name :=
  [``keyword_case_insensitive, ``prefix_case_irrelevant, ``lexAll_shift, ``leading_blank, ``comments_dropped, ``comment_token,
   ``spans_inside, ``result_determined_by_tokens, ``layout_insensitive, ``canonical_text, ``Lc3V.lex_gaps, ``Lc3V.kwAtomS_ok,
   ``Lc3V.regAtomS_ok, ``Lc3V.decAtomS_ok, ``Lc3V.negAtomS_ok]

end Lc3V.C03
