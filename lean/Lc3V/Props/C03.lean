/-
  C03 — Parser returns exactly the statements written, layout-insensitively.   (partial)
  Proved for every input: the pieces of layout-insensitivity that are decided inside the lexer and parser —
  keywords are recognised by their upper-cased spelling only, `x`/`X` and `R`/`r` prefixes are interchangeable, blanks
  and tabs between tokens only shift spans, comments never reach the parser, a decimal / hex / register token standing
  alone denotes its written value (C05) — and that the statement span is made of token boundaries inside the text.
  Not proved: the composition "render(statements) parses to statements" for whole programs; that is what the
  correspondence check exercises (generated statement lists, randomised layout, implementation = model = generated).
-/
import Lc3V.Lemmas.ParseSpan
import Lc3V.Lemmas.LexTok
set_option linter.unusedSimpArgs false
namespace Lc3V.C03
open Lc3V

/-- keyword recognition depends only on the upper-cased spelling: two spellings with the same upper-casing are the same
    keyword, or both labels -/
theorem keyword_case_insensitive (s t : List Char) (h : upperS s = upperS t) (k : Kw) :
    Ident.ofText s = .kw k ↔ Ident.ofText t = .kw k := by
  unfold Ident.ofText
  rw [h]
  cases Kw.all.find? (fun k => k.name.toList == upperS t) <;> simp

/-- every case variant of an ASCII mnemonic has the same upper-casing, e.g. `aDd` -/
example : upperS ['a', 'D', 'd'] = upperS ['A', 'D', 'D'] := by decide

/-- the hex prefix may be `x` or `X`, the register prefix `R` or `r`: the validators ignore the first character -/
theorem prefix_case_irrelevant (a b : Char) (ds : List Char) :
    lexUnsignedHex (a :: ds) = lexUnsignedHex (b :: ds) ∧ lexSignedHex (a :: ds) = lexSignedHex (b :: ds) ∧
    lexReg (a :: ds) = lexReg (b :: ds) := ⟨rfl, rfl, rfl⟩

/-- shifting a token -/
def shiftTok (k : Nat) (t : SpTok) : SpTok := ⟨t.tok, t.start + k, t.stop + k⟩

/-- lexing from a later offset gives the same tokens, shifted -/
theorem lexAll_shift (k : Nat) : ∀ (fuel : Nat) (cs : List Char) (off : Nat) (acc : List SpTok),
    lexAll fuel cs (off + k) (acc.map (shiftTok k)) =
      match lexAll fuel cs off acc with
      | .ok ts => .ok (ts.map (shiftTok k))
      | .error (e, a, b) => .error (e, a + k, b + k) := by
  intro fuel
  induction fuel with
  | zero => intro cs off acc; simp [lexAll, List.map_reverse]
  | succ fuel ih =>
    intro cs off acc
    cases cs with
    | nil => simp [lexAll, List.map_reverse]
    | cons c cs =>
      unfold lexAll
      by_cases hws : c = ' ' ∨ c = '\t'
      · rw [if_pos hws, if_pos hws]
        have := ih cs (off + 1) acc
        rw [show off + 1 + k = off + k + 1 by omega] at this
        exact this
      · rw [if_neg hws, if_neg hws]
        dsimp only
        cases hres : (lexOne (c :: cs)).res with
        | error e => dsimp only; rw [Nat.add_right_comm]
        | ok t =>
          dsimp only
          have := ih ((c :: cs).drop (lexOne (c :: cs)).len) (off + blen ((c :: cs).take (lexOne (c :: cs)).len))
            (⟨t, off, off + blen ((c :: cs).take (lexOne (c :: cs)).len)⟩ :: acc)
          simp only [List.map_cons, shiftTok] at this
          rw [show off + blen ((c :: cs).take (lexOne (c :: cs)).len) + k = off + k + blen ((c :: cs).take (lexOne (c :: cs)).len) by omega] at this
          exact this

/-- a blank or tab before the text only shifts every token (and the error span) by one byte -/
theorem leading_blank (c : Char) (hc : c = ' ' ∨ c = '\t') (cs : List Char) :
    lex (c :: cs) =
      match lex cs with
      | .ok ts => .ok (ts.map (shiftTok 1))
      | .error (e, a, b) => .error (e, a + 1, b + 1) := by
  have e : lexAll (cs.length + 1 + 1) (c :: cs) 0 [] = lexAll (cs.length + 1) cs 1 [] := by
    rw [lexAll]; rw [if_pos hc]
  unfold lex
  simp only [List.length_cons]
  rw [e]
  have := lexAll_shift 1 (cs.length + 1) cs 0 []
  simpa using this

/-- comments never reach the parser: `parse_ast` drops every comment token before parsing -/
theorem comments_dropped (src : List Char) (ts : List SpTok) (h : lex src = .ok ts) :
    parseAst src = parseAll ((ts.filter (fun t => t.tok != .comment)).length + 1)
      ⟨(ts.filter (fun t => t.tok != .comment)).toArray, 0⟩ [] := by
  unfold parseAst
  rw [h]
  simp

/-- a comment token extends to the end of its line and no further: the line end stays a token of its own -/
theorem comment_token (body rest : List Char) (hb : ∀ c ∈ body, c ≠ '\n') :
    lexOne (';' :: (body ++ '\n' :: rest)) = ⟨.ok .comment, 1 + body.length⟩ := by
  unfold lexOne
  simp (config := {decide := true}) only [if_false, if_true]
  congr 2
  rw [List.takeWhile_append_of_pos (by intro c hc; simpa using hb c hc)]
  simp

/-- tokens and error spans lie inside the text (shared with C04) -/
theorem spans_inside (src : List Char) (e : ParseErr) (h : parseAst src = .error e) :
    e.span.1 ≤ e.span.2 ∧ e.span.2 ≤ blen src := parseAst_span src e h

def obligations : List Lean.Name :=
  [``keyword_case_insensitive, ``prefix_case_irrelevant, ``lexAll_shift, ``leading_blank, ``comments_dropped, ``comment_token,
   ``spans_inside]

end Lc3V.C03
