/-
  C03 — Parser returns exactly the statements written, layout-insensitively.   (proved for the model, whole programs)
  Proved for the model: the parse result is determined by the token values (`parse_of_lex`, `parseAll_prog`).  Any text made
  of pieces that are lexed as the program's tokens — mnemonics in any letter case, `R`/`r` registers with leading zeros,
  literals as `n`, `#n`, `-n`, `xH`, …, commas, colons, `\n` / `\r\n` line ends, `;` comments — separated by arbitrary runs
  of blanks and tabs (none needed around commas and colons), parses to exactly the program's statements in order, whatever
  the number of blank lines, comments, colons after labels, labels on lines of their own, and whether or not the last line is
  ended (`program_layout_insensitive`; one statement: `layout_insensitive`); in particular the canonical text `Display`
  writes does (`canonical_text`, C36).  Also: keyword recognition depends only on the upper-cased spelling, `x`/`X` and
  `R`/`r` prefixes are interchangeable, blanks only shift spans, comments never reach the parser and stop before the line
  end, error spans lie inside the text (C04).
  Not proved: the statement spans (`Stmt.span`) and label start offsets; string literals and labels beyond the well-behaved
  spellings of `StmtOk`/`labelOk`.  The correspondence check exercises these (generated statement lists, randomised layout,
  implementation = model = generated, two layouts per list).
-/
import Lc3V.Lemmas.ParseSpan
import Lc3V.Lemmas.LexTok
import Lc3V.Lemmas.ProgramLayout
set_option linter.unusedSimpArgs false
namespace Lc3V.C03
open Lc3V

/-- keyword recognition depends only on the upper-cased spelling: two spellings with the same upper-casing are the same
    keyword, or both labels -/
theorem keyword_case_insensitive (s t : List Char) (h : upperS s = upperS t) (k : Kw) :
    Ident.ofText s = .kw k ↔ Ident.ofText t = .kw k := by
  unfold Ident.ofText
  rw [h]
  cases Kw.all.find? (fun k => k.name.toList == upperS t) <;> simp

/-- every case variant of an ASCII mnemonic has the same upper-casing, e.g. `aDd` -/
example : upperS ['a', 'D', 'd'] = upperS ['A', 'D', 'D'] := by decide

/-- the hex prefix may be `x` or `X`, the register prefix `R` or `r`: the validators ignore the first character -/
theorem prefix_case_irrelevant (a b : Char) (ds : List Char) :
    lexUnsignedHex (a :: ds) = lexUnsignedHex (b :: ds) ∧ lexSignedHex (a :: ds) = lexSignedHex (b :: ds) ∧
    lexReg (a :: ds) = lexReg (b :: ds) := ⟨rfl, rfl, rfl⟩

/-- shifting a token -/
def shiftTok (k : Nat) (t : SpTok) : SpTok := ⟨t.tok, t.start + k, t.stop + k⟩

/-- lexing from a later offset gives the same tokens, shifted -/
theorem lexAll_shift (k : Nat) : ∀ (fuel : Nat) (cs : List Char) (off : Nat) (acc : List SpTok),
    lexAll fuel cs (off + k) (acc.map (shiftTok k)) =
      match lexAll fuel cs off acc with
      | .ok ts => .ok (ts.map (shiftTok k))
      | .error (e, a, b) => .error (e, a + k, b + k) := by
  intro fuel
  induction fuel with
  | zero => intro cs off acc; simp [lexAll, List.map_reverse]
  | succ fuel ih =>
    intro cs off acc
    cases cs with
    | nil => simp [lexAll, List.map_reverse]
    | cons c cs =>
      unfold lexAll
      by_cases hws : c = ' ' ∨ c = '\t'
      · rw [if_pos hws, if_pos hws]
        have := ih cs (off + 1) acc
        rw [show off + 1 + k = off + k + 1 by omega] at this
        exact this
      · rw [if_neg hws, if_neg hws]
        dsimp only
        cases hres : (lexOne (c :: cs)).res with
        | error e => dsimp only; rw [Nat.add_right_comm]
        | ok t =>
          dsimp only
          have := ih ((c :: cs).drop (lexOne (c :: cs)).len) (off + blen ((c :: cs).take (lexOne (c :: cs)).len))
            (⟨t, off, off + blen ((c :: cs).take (lexOne (c :: cs)).len)⟩ :: acc)
          simp only [List.map_cons, shiftTok] at this
          rw [show off + blen ((c :: cs).take (lexOne (c :: cs)).len) + k = off + k + blen ((c :: cs).take (lexOne (c :: cs)).len) by omega] at this
          exact this

/-- a blank or tab before the text only shifts every token (and the error span) by one byte -/
theorem leading_blank (c : Char) (hc : c = ' ' ∨ c = '\t') (cs : List Char) :
    lex (c :: cs) =
      match lex cs with
      | .ok ts => .ok (ts.map (shiftTok 1))
      | .error (e, a, b) => .error (e, a + 1, b + 1) := by
  have e : lexAll (cs.length + 1 + 1) (c :: cs) 0 [] = lexAll (cs.length + 1) cs 1 [] := by
    rw [lexAll]; rw [if_pos hc]
  unfold lex
  simp only [List.length_cons]
  rw [e]
  have := lexAll_shift 1 (cs.length + 1) cs 0 []
  simpa using this

/-- comments never reach the parser: `parse_ast` drops every comment token before parsing -/
theorem comments_dropped (src : List Char) (ts : List SpTok) (h : lex src = .ok ts) :
    parseAst src = parseAll ((ts.filter (fun t => t.tok != .comment)).length + 1)
      ⟨(ts.filter (fun t => t.tok != .comment)).toArray, 0⟩ [] := by
  unfold parseAst
  rw [h]
  simp

/-- a comment token extends to the end of its line and no further: the line end stays a token of its own -/
theorem comment_token (body rest : List Char) (hb : ∀ c ∈ body, c ≠ '\n') :
    lexOne (';' :: (body ++ '\n' :: rest)) = ⟨.ok .comment, 1 + body.length⟩ := by
  unfold lexOne
  simp (config := {decide := true}) only [if_false, if_true]
  congr 2
  rw [List.takeWhile_append_of_pos (by intro c hc; simpa using hb c hc)]
  simp

/-- tokens and error spans lie inside the text (shared with C04) -/
theorem spans_inside (src : List Char) (e : ParseErr) (h : parseAst src = .error e) :
    e.span.1 ≤ e.span.2 ∧ e.span.2 ≤ blen src := parseAst_span src e h

/-- the parse result depends only on the token values -/
theorem result_determined_by_tokens (s : Stmt) (text : List Char) (ts : List SpTok) (hlex : lex text = .ok ts)
    (hvals : ts.map (·.tok) = labelToks s.labels ++ kindToks s.nucleus)
    (hcc : ∀ cc o, s.nucleus = .instr (.br cc o) → cc ≠ 0) (hb : ∀ n, s.nucleus = .directive (.blkw n) → n ≠ 0) :
    ∃ s', parseAst text = .ok [s'] ∧ s'.labels.map (·.name) = s.labels.map (·.name) ∧ s'.nucleus.erase = s.nucleus.erase :=
  parse_of_lex s text ts hlex hvals hcc hb

/-- layout insensitivity for one statement: any spelling of the tokens, any blanks and tabs around them -/
theorem layout_insensitive (s : Stmt) (lead : List Char) (hlead : IsGap lead) (as : List (LAtom × List Char)) (hseq : LSeqOk as)
    (hok : ∀ a ∈ as, a.1.Ok ∧ IsGap a.2) (hvals : as.map (·.1.tok) = labelToks s.labels ++ kindToks s.nucleus)
    (hcc : ∀ cc o, s.nucleus = .instr (.br cc o) → cc ≠ 0) (hb : ∀ n, s.nucleus = .directive (.blkw n) → n ≠ 0) :
    ∃ s', parseAst (lead ++ renderL as) = .ok [s'] ∧ s'.labels.map (·.name) = s.labels.map (·.name) ∧ s'.nucleus.erase = s.nucleus.erase :=
  parse_layout s lead hlead as hseq hok hvals hcc hb

/-- **layout insensitivity for a whole program**: the text is any sequence of well-behaved pieces (words in any accepted
    spelling, commas, colons, `\n` or `\r\n` line ends, comments) with arbitrary blanks and tabs around them.  If its tokens
    other than comments are those of the program `ss` — each statement's labels (with or without a colon, on the same line or on
    lines of their own), its mnemonic or directive and operands, and then at least one line end or the end of the text, with
    `pre` blank lines in front — the parser returns exactly the statements of `ss`, in order (labels by name, operands up to the
    source positions recorded inside label operands).  Comments, blank lines, CRLF and the amount of white space therefore have
    no influence on the result. -/
theorem program_layout_insensitive (ss : List StmtL) (pre : Nat) (lead : List Char) (hlead : IsGap lead)
    (as : List (LAtom × List Char)) (hseq : LSeqOk as) (hok : ∀ a ∈ as, a.1.Ok ∧ IsGap a.2)
    (hvals : (as.map (·.1.tok)).filter (fun t => t != .comment) = nls pre ++ progToks ss)
    (hpost : PostOk ss) (hss : ∀ x ∈ ss, x.Ok) :
    ∃ got, parseAst (lead ++ renderL as) = .ok got ∧
      got.map (fun s => (s.labels.map (·.name), s.nucleus.erase)) = ss.map (fun x => (x.labels.map (·.label.name), x.kind.erase)) :=
  parse_program ss pre lead hlead as hseq hok hvals hpost hss

/-- the canonical text parses to the statement -/
theorem canonical_text (s : Stmt) (h : StmtOk s) :
    ∃ s', parseAst (showStmt s) = .ok [s'] ∧ s'.labels.map (·.name) = s.labels.map (·.name) ∧ s'.nucleus.erase = s.nucleus.erase :=
  parse_print s h

theorem gap_nil : IsGap [] := by intro c hc; cases hc
theorem gap_sp : IsGap [' '] := by intro c hc; simp at hc; exact Or.inl hc
theorem gap_sp2 : IsGap [' ', ' '] := by intro c hc; simp at hc; exact Or.inl hc
theorem gap_tab : IsGap ['\t'] := by intro c hc; simp at hc; exact Or.inr hc

/-- the premises of `layout_insensitive` are met by a non-canonical layout: ` aDd\tr1 ,R02,  -3 ` for `ADD R1, R2, #-3` -/
example : ∃ s', parseAst ([' '] ++ renderL
      [(ofAtom (kwAtomS ['a', 'D', 'd'] .ADD), ['\t']), (ofAtom (regAtomS 'r' ['1'] 1), [' ']), (commaL, []),
       (ofAtom (regAtomS 'R' ['0', '2'] 2), []), (commaL, [' ', ' ']), (ofAtom (negAtomS ['3'] 3), [' '])]) = .ok [s'] ∧
    s'.labels.map (·.name) = [] ∧ s'.nucleus.erase = StmtKind.erase (.instr (.add 1 2 (.imm (-3)))) := by
  apply parse_layout ⟨[], .instr (.add 1 2 (.imm (-3))), (0, 0)⟩
  · exact gap_sp
  · exact ⟨Or.inr ⟨'\t', _, rfl, by decide⟩, Or.inr ⟨' ', _, rfl, by decide⟩, trivial, Or.inr ⟨',', _, rfl, by decide⟩, trivial,
      Or.inr ⟨' ', _, rfl, by decide⟩, trivial⟩
  · intro a ha
    simp only [List.mem_cons, List.mem_nil_iff, or_false] at ha
    rcases ha with rfl | rfl | rfl | rfl | rfl | rfl
    · exact ⟨kwAtomS_ok _ _ (by decide), gap_tab⟩
    · exact ⟨regAtomS_ok 'r' ['1'] 1 (Or.inr rfl) (by simp) (by intro c hc; simp at hc; subst hc; exact ⟨by decide, by decide⟩) (by decide) (by omega),
        gap_sp⟩
    · exact ⟨commaL_ok, gap_nil⟩
    · exact ⟨regAtomS_ok 'R' ['0', '2'] 2 (Or.inl rfl) (by simp) (by intro c hc; simp at hc; rcases hc with rfl | rfl <;> exact ⟨by decide, by decide⟩) (by decide) (by omega),
        gap_nil⟩
    · exact ⟨commaL_ok, gap_sp2⟩
    · exact ⟨negAtomS_ok ['3'] 3 (by simp) (by intro c hc; simp at hc; subst hc; exact ⟨by decide, by decide⟩) (by decide) (by omega),
        gap_sp⟩
  · decide
  · intro cc o h; cases h
  · intro n h; cases h

/-- the premises of `program_layout_insensitive` are met by a two-statement program with a comment line, a CRLF, a label with a
    colon on a line of its own, a trailing comment, a blank line and no line end after the last statement:
    `; c␍␊L:␍␊ not r1 ,R2 ;x␊␊halt` (the `␍` of the first line belongs to the comment) -/
example : ∃ got, parseAst ([] ++ renderL
      [(commentL [' ', 'c', '\r'], []), (nlL, []), (ofAtom (labelAtom ['L'] false), []), (colonL, []), (crlfL, [' ']),
       (ofAtom (kwAtomS ['n', 'o', 't'] .NOT), [' ']), (ofAtom (regAtomS 'r' ['1'] 1), [' ']), (commaL, []),
       (ofAtom (regAtomS 'R' ['2'] 2), [' ']), (commentL ['x'], []), (nlL, []), (nlL, []),
       (ofAtom (kwAtomS ['h', 'a', 'l', 't'] .HALT), [])]) = .ok got ∧
    got.map (fun s => (s.labels.map (·.name), s.nucleus.erase)) =
      [([['L']], StmtKind.erase (.instr (.not 1 2))), ([], StmtKind.erase (.instr .halt))] := by
  apply parse_program [⟨[⟨⟨['L'], 0⟩, true, 1⟩], .instr (.not 1 2), 2⟩, ⟨[], .instr .halt, 0⟩] 1
  · exact gap_nil
  · exact ⟨Or.inr ⟨_, rfl⟩, trivial, Or.inr ⟨':', _, rfl, by decide⟩, trivial, trivial, Or.inr ⟨' ', _, rfl, by decide⟩,
      Or.inr ⟨' ', _, rfl, by decide⟩, trivial, Or.inr ⟨' ', _, rfl, by decide⟩, Or.inr ⟨_, rfl⟩, trivial, trivial, Or.inl rfl, trivial⟩
  · intro a ha
    simp only [List.mem_cons, List.mem_nil_iff, or_false] at ha
    have hd : ∀ c, c ∈ ['1'] → IsDec c := by intro c hc; simp at hc; subst hc; exact ⟨by decide, by decide⟩
    have hd2 : ∀ c, c ∈ ['2'] → IsDec c := by intro c hc; simp at hc; subst hc; exact ⟨by decide, by decide⟩
    rcases ha with rfl | rfl | rfl | rfl | rfl | rfl | rfl | rfl | rfl | rfl | rfl | rfl | rfl
    · exact ⟨commentL_ok _ (by decide), gap_nil⟩
    · exact ⟨nlL_ok, gap_nil⟩
    · exact ⟨labelAtom_ok _ (by decide) false, gap_nil⟩
    · exact ⟨colonL_ok, gap_nil⟩
    · exact ⟨crlfL_ok, gap_sp⟩
    · exact ⟨kwAtomS_ok _ _ (by decide), gap_sp⟩
    · exact ⟨regAtomS_ok 'r' ['1'] 1 (Or.inr rfl) (by simp) hd (by decide) (by omega), gap_sp⟩
    · exact ⟨commaL_ok, gap_nil⟩
    · exact ⟨regAtomS_ok 'R' ['2'] 2 (Or.inl rfl) (by simp) hd2 (by decide) (by omega), gap_sp⟩
    · exact ⟨commentL_ok _ (by decide), gap_nil⟩
    · exact ⟨nlL_ok, gap_nil⟩
    · exact ⟨nlL_ok, gap_nil⟩
    · exact ⟨kwAtomS_ok _ _ (by decide), gap_nil⟩
  · decide
  · exact ⟨by decide, trivial⟩
  · intro x hx
    simp only [List.mem_cons, List.mem_nil_iff, or_false] at hx
    rcases hx with rfl | rfl <;> exact ⟨(by intro cc o h; cases h), (by intro n h; cases h)⟩

def obligations : List Lean.Name :=
  [``keyword_case_insensitive, ``prefix_case_irrelevant, ``lexAll_shift, ``leading_blank, ``comments_dropped, ``comment_token,
   ``spans_inside, ``result_determined_by_tokens, ``layout_insensitive, ``program_layout_insensitive, ``canonical_text,
   ``Lc3V.lex_L, ``Lc3V.parseAll_prog, ``Lc3V.kwAtomS_ok, ``Lc3V.regAtomS_ok, ``Lc3V.decAtomS_ok, ``Lc3V.negAtomS_ok,
   ``Lc3V.commentL_ok, ``Lc3V.crlfL_ok]

end Lc3V.C03
