/-
  C04 — Parsing never panics and its errors point inside the input.
  The model of `parse_ast` (Model/Lex.lean, Model/Parse.lean) is a total function; the places where the Rust code can
  panic (string slicing in `lex_str_literal`, `Offset::new` width assertions, `expect`/`unwrap`) are either modelled as
  explicit outcomes that are proved unreachable here, or are covered by the correspondence check, which runs the real
  `parse_ast` under `catch_unwind` and reports `panic` where the model returns a value.
  The span statement is proved for every input text: whatever `parse_ast` returns as an error, lexical or syntactic,
  its span `a..b` satisfies `a ≤ b ≤ len(text)` (in UTF-8 bytes).
-/
import Lc3V.Lemmas.ParseSpan
import Lc3V.Props.C05
namespace Lc3V.C04
open Lc3V

/-- every token the lexer returns, and the error it stops at, lies inside the text -/
theorem lex_spans_inside (src : List Char) :
    match lex src with
    | .ok ts => ∀ t ∈ ts, t.start ≤ t.stop ∧ t.stop ≤ blen src
    | .error (_, a, b) => a ≤ b ∧ b ≤ blen src := lex_spans src

/-- every error of `parse_ast` carries a span inside the text -/
theorem error_span_inside (src : List Char) (e : ParseErr) (h : parseAst src = .error e) :
    e.span.1 ≤ e.span.2 ∧ e.span.2 ≤ blen src := parseAst_span src e h

/-- each token consumes at least one character, so the lexer's fuel (`length + 1`) is never what stops it -/
theorem lexOne_progress (c : Char) (cs : List Char) : 1 ≤ (lexOne (c :: cs)).len := by
  unfold lexOne
  dsimp only
  by_cases h1 : c = ':'; · rw [if_pos h1]; decide
  rw [if_neg h1]
  by_cases h2 : c = ','; · rw [if_pos h2]; decide
  rw [if_neg h2]
  by_cases h3 : c = '\n'; · rw [if_pos h3]; decide
  rw [if_neg h3]
  by_cases h4 : c = '\r'; · rw [if_pos h4]; split <;> decide
  rw [if_neg h4]
  by_cases h5 : c = ';'; · rw [if_pos h5]; dsimp only; omega
  rw [if_neg h5]
  by_cases h6 : c = '.'; · rw [if_pos h6]; dsimp only; omega
  rw [if_neg h6]
  by_cases h7 : c = '"'; · rw [if_pos h7]; split <;> (dsimp only; omega)
  rw [if_neg h7]
  by_cases h8 : c = '#'; · rw [if_pos h8]; split <;> (dsimp only; omega)
  rw [if_neg h8]
  by_cases h9 : c = '-'; · rw [if_pos h9]; split <;> (dsimp only; omega)
  rw [if_neg h9]
  by_cases h10 : isDigitC c = true; · rw [if_pos h10]; dsimp only; omega
  rw [if_neg h10]
  by_cases h11 : c = 'x' ∨ c = 'X'
  · rw [if_pos h11]; split
    · dsimp only; omega
    · split <;> (dsimp only; omega)
    · exact Nat.le_refl 1
  rw [if_neg h11]
  by_cases h12 : c = 'R' ∨ c = 'r'; · rw [if_pos h12]; split <;> (dsimp only; omega)
  rw [if_neg h12]
  by_cases h13 : isAsciiAlpha c = true ∨ c = '_'; · rw [if_pos h13]; dsimp only; omega
  rw [if_neg h13]; decide

/-- the field widths used by the parser (5, 6, 8, 9, 11, 16) never reach the `Offset::new` width panics -/
theorem offset_new_never_panics (n : Nat) (hn : n = 5 ∨ n = 6 ∨ n = 8 ∨ n = 9 ∨ n = 11 ∨ n = 16) (v : W) :
    (∀ m, newS n v ≠ .panic m) ∧ (∀ m, newU n v ≠ .panic m) :=
  C05.conv_no_panic n (by omega) (by omega) v

/-- premises are satisfiable: a lexical and a syntactic error, with their spans -/
example : parseAst ['A', 'D', 'D', ' ', 'R', '1', ' ', 'R', '2'] = .error ⟨.parse "expected comma", (7, 9)⟩ := by rfl
example : parseAst ['L', 'D', ' ', 'R', '9', ',', ' ', 'x'] = .error ⟨.lex .invalidReg, (3, 5)⟩ := by rfl

def obligations : List Lean.Name :=
  [``lex_spans_inside, ``error_span_inside, ``lexOne_progress, ``offset_new_never_panics]

end Lc3V.C04
